// instrument rewrites Go packages of /repo (from the current working tree) onto
// the verification shim `vs` and emits a `go build -overlay` file.
//
// usage: instrument -repo /repo -shim /verif/engine/shim -out <dir> pkgdir...
//
// Everything it cannot rewrite makes it exit 2 with "cannot instrument: ..." —
// an infrastructure error, never a verdict.
package main

import (
	"bytes"
	"encoding/json"
	"flag"
	"fmt"
	"go/ast"
	"go/format"
	"go/token"
	"go/types"
	"os"
	"path/filepath"
	"sort"
	"strconv"
	"strings"

	"golang.org/x/tools/go/ast/astutil"
	"golang.org/x/tools/go/packages"
)

const vsPath = "github.com/insomniacslk/dhcp/verifshim/vs"

func die(format string, a ...any) {
	fmt.Fprintf(os.Stderr, "cannot instrument: "+format+"\n", a...)
	os.Exit(2)
}

type rewriter struct {
	fset  *token.FileSet
	info  *types.Info
	pkg   *types.Package
	file  *ast.File
	tmpN  int
	// marks on generated nodes
	genChanType map[ast.Node]ast.Expr // generated *vs.Chan[T] -> T
	genRecv     map[*ast.CallExpr]bool
	genSend     map[*ast.CallExpr]bool
	usedVS      bool
	ownStructs  map[*types.Named]bool
	noRace      bool
	chanLenCap  map[*ast.CallExpr]bool // len(ch) / cap(ch) calls, recorded on the typed AST before any rewriting
	chanRange   map[*ast.RangeStmt]bool
	keepAlive   []string
}

func (r *rewriter) pos(n ast.Node) string { return r.fset.Position(n.Pos()).String() }

func (r *rewriter) vs(name string) ast.Expr {
	r.usedVS = true
	return &ast.SelectorExpr{X: ast.NewIdent("vs"), Sel: ast.NewIdent(name)}
}

func (r *rewriter) tmp(prefix string) *ast.Ident {
	r.tmpN++
	return ast.NewIdent(fmt.Sprintf("_vs%s%d", prefix, r.tmpN))
}

func (r *rewriter) isPkg(x ast.Expr, path string) bool {
	id, ok := x.(*ast.Ident)
	if !ok {
		return false
	}
	pn, ok := r.info.Uses[id].(*types.PkgName)
	return ok && pn.Imported().Path() == path
}

func (r *rewriter) isChan(e ast.Expr) bool {
	t := r.info.TypeOf(e)
	if t == nil {
		return false
	}
	_, ok := t.Underlying().(*types.Chan)
	return ok
}

func (r *rewriter) isMap(e ast.Expr) bool {
	t := r.info.TypeOf(e)
	if t == nil {
		return false
	}
	_, ok := t.Underlying().(*types.Map)
	return ok
}

var timeFuncs = map[string]string{"After": "After", "NewTimer": "NewTimer", "AfterFunc": "AfterFunc", "Sleep": "Sleep",
	"Now": "Now", "Since": "Since", "Until": "Until", "Tick": "Tick"}

// chanOf returns the channel operand of a generated Recv/Send call.
func chanOf(c *ast.CallExpr) ast.Expr { return c.Fun.(*ast.SelectorExpr).X }

// precompute records type-dependent facts on the original AST (types are attached to original nodes only).
func (r *rewriter) precompute() {
	r.chanLenCap = map[*ast.CallExpr]bool{}
	r.chanRange = map[*ast.RangeStmt]bool{}
	ast.Inspect(r.file, func(n ast.Node) bool {
		if call, ok := n.(*ast.CallExpr); ok && len(call.Args) == 1 {
			if id, ok := call.Fun.(*ast.Ident); ok && (id.Name == "len" || id.Name == "cap") {
				if _, isB := r.info.Uses[id].(*types.Builtin); isB && r.isChan(call.Args[0]) {
					r.chanLenCap[call] = true
				}
			}
		}
		return true
	})
}

func (r *rewriter) rewriteFile() {
	// imports: sync and sync/atomic are swapped for the shim under the same local name
	for _, im := range r.file.Imports {
		p, _ := strconv.Unquote(im.Path.Value)
		switch p {
		case "sync":
			if im.Name == nil {
				im.Name = ast.NewIdent("sync")
			} else if im.Name.Name == "_" || im.Name.Name == "." {
				die("blank or dot import of sync at %s", r.pos(im))
			}
			r.keepAlive = append(r.keepAlive, "var _ "+im.Name.Name+".Mutex")
			im.Path.Value = strconv.Quote(vsPath)
		case "sync/atomic":
			if im.Name == nil {
				im.Name = ast.NewIdent("atomic")
			} else if im.Name.Name == "_" || im.Name.Name == "." {
				die("blank or dot import of sync/atomic at %s", r.pos(im))
			}
			r.keepAlive = append(r.keepAlive, "var _ = "+im.Name.Name+".LoadUint32")
			im.Path.Value = strconv.Quote(vsPath)
		case "reflect":
			// reflect.Select & co. would bypass the scheduler
			ast.Inspect(r.file, func(n ast.Node) bool {
				if se, ok := n.(*ast.SelectorExpr); ok && r.isPkg(se.X, "reflect") {
					switch se.Sel.Name {
					case "Select", "MakeChan", "ChanOf":
						die("reflect.%s at %s", se.Sel.Name, r.pos(se))
					}
				}
				return true
			})
		case "C":
			die("cgo at %s", r.pos(im))
		}
	}

	pre := func(c *astutil.Cursor) bool {
		switch n := c.Node().(type) {
		case *ast.RangeStmt:
			if r.isChan(n.X) {
				r.chanRange[n] = true
			}
		}
		return true
	}
	post := func(c *astutil.Cursor) bool {
		switch n := c.Node().(type) {
		case *ast.ChanType:
			t := &ast.StarExpr{X: &ast.IndexExpr{X: r.vs("Chan"), Index: n.Value}}
			r.genChanType[t] = n.Value
			c.Replace(t)
		case *ast.SelectorExpr:
			if r.isPkg(n.X, "context") {
				switch n.Sel.Name {
				case "WithCancel", "WithTimeout", "WithDeadline", "AfterFunc", "WithoutCancel":
					c.Replace(r.vs("Ctx" + n.Sel.Name))
				case "WithCancelCause", "WithTimeoutCause", "WithDeadlineCause":
					die("context.%s at %s", n.Sel.Name, r.pos(n))
				}
			}
			if r.isPkg(n.X, "time") {
				if _, ok := timeFuncs[n.Sel.Name]; ok {
					c.Replace(r.vs(n.Sel.Name))
				} else if n.Sel.Name == "Timer" || n.Sel.Name == "Ticker" || n.Sel.Name == "NewTicker" {
					c.Replace(r.vs(n.Sel.Name))
				}
			}
		case *ast.UnaryExpr:
			if n.Op == token.ARROW {
				call := &ast.CallExpr{Fun: &ast.SelectorExpr{X: paren(n.X), Sel: ast.NewIdent("Recv")}}
				r.genRecv[call] = true
				c.Replace(call)
			}
		case *ast.SendStmt:
			call := &ast.CallExpr{Fun: &ast.SelectorExpr{X: paren(n.Chan), Sel: ast.NewIdent("Send")}, Args: []ast.Expr{n.Value}}
			r.genSend[call] = true
			c.Replace(&ast.ExprStmt{X: call})
		case *ast.CallExpr:
			r.postCall(c, n)
		case *ast.AssignStmt:
			if len(n.Lhs) == 2 && len(n.Rhs) == 1 {
				if call, ok := n.Rhs[0].(*ast.CallExpr); ok && r.genRecv[call] {
					call.Fun.(*ast.SelectorExpr).Sel = ast.NewIdent("Recv2")
				}
			}
		case *ast.ValueSpec:
			if len(n.Names) == 2 && len(n.Values) == 1 {
				if call, ok := n.Values[0].(*ast.CallExpr); ok && r.genRecv[call] {
					call.Fun.(*ast.SelectorExpr).Sel = ast.NewIdent("Recv2")
				}
			}
		case *ast.RangeStmt:
			if r.chanRange[n] {
				c.Replace(r.rewriteChanRange(n))
			}
		case *ast.GoStmt:
			c.Replace(r.rewriteGo(n))
		case *ast.SelectStmt:
			c.Replace(r.rewriteSelect(n))
		}
		return true
	}
	astutil.Apply(r.file, pre, post)
}

func paren(e ast.Expr) ast.Expr {
	switch e.(type) {
	case *ast.Ident, *ast.SelectorExpr, *ast.CallExpr, *ast.IndexExpr, *ast.ParenExpr:
		return e
	}
	return &ast.ParenExpr{X: e}
}

func (r *rewriter) postCall(c *astutil.Cursor, n *ast.CallExpr) {
	// ctx.Done()
	if se, ok := n.Fun.(*ast.SelectorExpr); ok && se.Sel.Name == "Done" && len(n.Args) == 0 {
		if t := r.info.TypeOf(n); t != nil {
			if ch, ok := t.Underlying().(*types.Chan); ok && ch.Dir() == types.RecvOnly {
				if st, ok := ch.Elem().Underlying().(*types.Struct); ok && st.NumFields() == 0 {
					c.Replace(&ast.CallExpr{Fun: r.vs("CtxDone"), Args: []ast.Expr{se.X}})
					return
				}
			}
		}
	}
	id, ok := n.Fun.(*ast.Ident)
	if !ok {
		return
	}
	if obj := r.info.Uses[id]; obj != nil {
		if _, isBuiltin := obj.(*types.Builtin); !isBuiltin {
			return
		}
	}
	switch id.Name {
	case "make":
		if len(n.Args) >= 1 {
			if elem, ok := r.genChanType[n.Args[0]]; ok {
				var size ast.Expr = &ast.BasicLit{Kind: token.INT, Value: "0"}
				if len(n.Args) > 1 {
					size = n.Args[1]
				}
				c.Replace(&ast.CallExpr{Fun: &ast.IndexExpr{X: r.vs("MakeChan"), Index: elem}, Args: []ast.Expr{size}})
			}
		}
	case "close":
		c.Replace(&ast.CallExpr{Fun: &ast.SelectorExpr{X: paren(n.Args[0]), Sel: ast.NewIdent("Close")}})
	case "len", "cap":
		if r.chanLenCap[n] {
			m := "Len"
			if id.Name == "cap" {
				m = "Cap"
			}
			c.Replace(&ast.CallExpr{Fun: &ast.SelectorExpr{X: paren(n.Args[0]), Sel: ast.NewIdent(m)}})
		}
	}
}

// isChanOrig: the argument node may be an original (typed) node or a rewritten one; only
// original nodes carry type information, rewritten channel-valued nodes are Recv calls etc.
func (r *rewriter) isChanOrig(e ast.Expr) bool { return r.isChan(e) }

func (r *rewriter) rewriteGo(n *ast.GoStmt) ast.Stmt {
	call := n.Call
	if fl, ok := call.Fun.(*ast.FuncLit); ok && len(call.Args) == 0 {
		return &ast.ExprStmt{X: &ast.CallExpr{Fun: r.vs("Go"), Args: []ast.Expr{fl}}}
	}
	var lhs, rhs []ast.Expr
	f := r.tmp("f")
	lhs = append(lhs, f)
	rhs = append(rhs, call.Fun)
	var args []ast.Expr
	for _, a := range call.Args {
		t := r.tmp("a")
		lhs = append(lhs, t)
		rhs = append(rhs, a)
		args = append(args, t)
	}
	inner := &ast.CallExpr{Fun: f, Args: args, Ellipsis: call.Ellipsis}
	if call.Ellipsis.IsValid() {
		inner.Ellipsis = 1
	}
	return &ast.BlockStmt{List: []ast.Stmt{
		&ast.AssignStmt{Lhs: lhs, Tok: token.DEFINE, Rhs: rhs},
		&ast.ExprStmt{X: &ast.CallExpr{Fun: r.vs("Go"), Args: []ast.Expr{
			&ast.FuncLit{Type: &ast.FuncType{Params: &ast.FieldList{}}, Body: &ast.BlockStmt{List: []ast.Stmt{&ast.ExprStmt{X: inner}}}}}}},
	}}
}

// rewriteChanRange turns `for v := range ch { body }` into
// `for c := ch; ; { v, ok := c.Recv2(); if !ok { break }; body }` (the channel operand is evaluated once).
// break/continue inside body keep their meaning because the loop stays a for statement in the same place.
func (r *rewriter) rewriteChanRange(n *ast.RangeStmt) ast.Stmt {
	chv, val, ok := r.tmp("c"), r.tmp("v"), r.tmp("ok")
	recv := &ast.CallExpr{Fun: &ast.SelectorExpr{X: chv, Sel: ast.NewIdent("Recv2")}}
	body := []ast.Stmt{
		&ast.AssignStmt{Lhs: []ast.Expr{val, ok}, Tok: token.DEFINE, Rhs: []ast.Expr{recv}},
		&ast.IfStmt{Cond: &ast.UnaryExpr{Op: token.NOT, X: ok}, Body: &ast.BlockStmt{List: []ast.Stmt{&ast.BranchStmt{Tok: token.BREAK}}}},
	}
	if n.Key != nil {
		if id, isID := n.Key.(*ast.Ident); !isID || id.Name != "_" {
			body = append(body, &ast.AssignStmt{Lhs: []ast.Expr{n.Key}, Tok: n.Tok, Rhs: []ast.Expr{val}})
			if n.Tok == token.DEFINE {
				body = append(body, &ast.AssignStmt{Lhs: []ast.Expr{ast.NewIdent("_")}, Tok: token.ASSIGN, Rhs: []ast.Expr{n.Key}})
			}
		} else {
			body = append(body, &ast.AssignStmt{Lhs: []ast.Expr{ast.NewIdent("_")}, Tok: token.ASSIGN, Rhs: []ast.Expr{val}})
		}
	} else {
		body = append(body, &ast.AssignStmt{Lhs: []ast.Expr{ast.NewIdent("_")}, Tok: token.ASSIGN, Rhs: []ast.Expr{val}})
	}
	body = append(body, n.Body.List...)
	// the channel lives in the for statement's init clause so that a label on the loop stays on a loop
	return &ast.ForStmt{Init: &ast.AssignStmt{Lhs: []ast.Expr{chv}, Tok: token.DEFINE, Rhs: []ast.Expr{n.X}}, Body: &ast.BlockStmt{List: body}}
}

func (r *rewriter) rewriteSelect(n *ast.SelectStmt) ast.Stmt {
	var pre []ast.Stmt
	var cases []ast.Expr
	var clauses []ast.Stmt
	hasDefault := false
	sel := r.tmp("sel")
	idx := 0
	for _, cl := range n.Body.List {
		cc := cl.(*ast.CommClause)
		if cc.Comm == nil {
			hasDefault = true
			clauses = append(clauses, &ast.CaseClause{List: []ast.Expr{&ast.UnaryExpr{Op: token.SUB, X: &ast.BasicLit{Kind: token.INT, Value: "1"}}}, Body: cc.Body})
			continue
		}
		var body []ast.Stmt
		chv := r.tmp("c")
		switch s := cc.Comm.(type) {
		case *ast.ExprStmt:
			call, ok := s.X.(*ast.CallExpr)
			switch {
			case ok && r.genSend[call]:
				v := r.tmp("v")
				pre = append(pre, &ast.AssignStmt{Lhs: []ast.Expr{chv, v}, Tok: token.DEFINE, Rhs: []ast.Expr{chanOf(call), call.Args[0]}})
				cases = append(cases, &ast.CallExpr{Fun: r.vs("SendCase"), Args: []ast.Expr{chv, v}})
			case ok && r.genRecv[call]:
				pre = append(pre, &ast.AssignStmt{Lhs: []ast.Expr{chv}, Tok: token.DEFINE, Rhs: []ast.Expr{chanOf(call)}})
				cases = append(cases, &ast.CallExpr{Fun: r.vs("RecvCase"), Args: []ast.Expr{chv}})
			default:
				die("unsupported select communication at %s", r.pos(cc))
			}
		case *ast.AssignStmt:
			call, ok := s.Rhs[0].(*ast.CallExpr)
			if !ok || !r.genRecv[call] || len(s.Rhs) != 1 {
				die("unsupported select receive at %s", r.pos(cc))
			}
			pre = append(pre, &ast.AssignStmt{Lhs: []ast.Expr{chv}, Tok: token.DEFINE, Rhs: []ast.Expr{chanOf(call)}})
			cases = append(cases, &ast.CallExpr{Fun: r.vs("RecvCase"), Args: []ast.Expr{chv}})
			val := &ast.CallExpr{Fun: r.vs("Val"), Args: []ast.Expr{chv, sel}}
			rhs := []ast.Expr{val}
			if len(s.Lhs) == 2 {
				rhs = append(rhs, &ast.SelectorExpr{X: sel, Sel: ast.NewIdent("OK")})
			}
			body = append(body, &ast.AssignStmt{Lhs: s.Lhs, Tok: s.Tok, Rhs: rhs})
			if s.Tok == token.DEFINE {
				// avoid "declared and not used" for variables the body ignores
				for _, l := range s.Lhs {
					if id, ok := l.(*ast.Ident); ok && id.Name != "_" {
						body = append(body, &ast.AssignStmt{Lhs: []ast.Expr{ast.NewIdent("_")}, Tok: token.ASSIGN, Rhs: []ast.Expr{ast.NewIdent(id.Name)}})
					}
				}
			}
		default:
			die("unsupported select clause at %s", r.pos(cc))
		}
		body = append(body, cc.Body...)
		clauses = append(clauses, &ast.CaseClause{List: []ast.Expr{&ast.BasicLit{Kind: token.INT, Value: strconv.Itoa(idx)}}, Body: body})
		idx++
	}
	hd := "false"
	if hasDefault {
		hd = "true"
	}
	args := append([]ast.Expr{ast.NewIdent(hd)}, cases...)
	stmts := append(pre,
		&ast.AssignStmt{Lhs: []ast.Expr{sel}, Tok: token.DEFINE, Rhs: []ast.Expr{&ast.CallExpr{Fun: r.vs("Select"), Args: args}}},
		&ast.SwitchStmt{Tag: &ast.SelectorExpr{X: sel, Sel: ast.NewIdent("I")}, Body: &ast.BlockStmt{List: clauses}},
	)
	return &ast.BlockStmt{List: stmts}
}

// ---- race instrumentation (second pass over the original typed AST, done first) ----

func (r *rewriter) ownField(se *ast.SelectorExpr) bool {
	s := r.info.Selections[se]
	if s == nil || s.Kind() != types.FieldVal {
		return false
	}
	recv := s.Recv()
	if p, ok := recv.(*types.Pointer); ok {
		recv = p.Elem()
	}
	nm, ok := recv.(*types.Named)
	if !ok || nm.Obj().Pkg() != r.pkg {
		return false
	}
	// skip synchronisation objects themselves
	ft := s.Type()
	if n2, ok := ft.(*types.Named); ok && n2.Obj().Pkg() != nil {
		switch n2.Obj().Pkg().Path() {
		case "sync", "sync/atomic":
			return false
		}
	}
	// embedded-field promotion through several levels is left alone
	if len(s.Index()) != 1 {
		return false
	}
	return true
}

func (r *rewriter) addressable(e ast.Expr) bool {
	tv, ok := r.info.Types[e]
	return ok && tv.Addressable()
}

// instrumentAccesses wraps reads of own struct fields and maps, and appends write
// notifications after assignment statements. It runs on the original AST (types
// are attached to original nodes) before the concurrency rewrite.
func (r *rewriter) instrumentAccesses() {
	if r.noRace {
		return
	}
	// nodes that must not be wrapped as reads
	skip := map[ast.Expr]bool{}
	var writesAfter = map[ast.Stmt][]ast.Stmt{}
	mapIdx := map[*ast.IndexExpr]bool{}
	mapRange := map[*ast.RangeStmt]bool{}
	mapLen := map[*ast.CallExpr]bool{}
	fieldRead := map[*ast.SelectorExpr]bool{}
	ast.Inspect(r.file, func(n ast.Node) bool {
		switch s := n.(type) {
		case *ast.IndexExpr:
			if r.isMap(s.X) {
				mapIdx[s] = true
			}
		case *ast.RangeStmt:
			if r.isMap(s.X) {
				mapRange[s] = true
			}
		case *ast.CallExpr:
			if id, ok := s.Fun.(*ast.Ident); ok && id.Name == "len" && len(s.Args) == 1 && r.isMap(s.Args[0]) {
				if _, isB := r.info.Uses[id].(*types.Builtin); isB {
					mapLen[s] = true
				}
			}
		case *ast.SelectorExpr:
			if r.ownField(s) && r.addressable(s) {
				fieldRead[s] = true
			}
		}
		return true
	})
	ast.Inspect(r.file, func(n ast.Node) bool {
		switch s := n.(type) {
		case *ast.AssignStmt:
			for _, l := range s.Lhs {
				l = unparen(l)
				switch x := l.(type) {
				case *ast.SelectorExpr:
					if r.ownField(x) && r.addressable(x) {
						skip[x] = true
						writesAfter[s] = append(writesAfter[s], &ast.ExprStmt{X: &ast.CallExpr{Fun: r.vs("W"), Args: []ast.Expr{&ast.UnaryExpr{Op: token.AND, X: x}}}})
					}
				case *ast.IndexExpr:
					if r.isMap(x.X) {
						skip[x] = true
						writesAfter[s] = append(writesAfter[s], &ast.ExprStmt{X: &ast.CallExpr{Fun: r.vs("WM"), Args: []ast.Expr{x.X}}})
					}
				}
			}
		case *ast.IncDecStmt:
			switch x := unparen(s.X).(type) {
			case *ast.SelectorExpr:
				if r.ownField(x) && r.addressable(x) {
					skip[x] = true
					writesAfter[s] = append(writesAfter[s], &ast.ExprStmt{X: &ast.CallExpr{Fun: r.vs("W"), Args: []ast.Expr{&ast.UnaryExpr{Op: token.AND, X: x}}}})
				}
			case *ast.IndexExpr:
				if r.isMap(x.X) {
					skip[x] = true
					writesAfter[s] = append(writesAfter[s], &ast.ExprStmt{X: &ast.CallExpr{Fun: r.vs("WM"), Args: []ast.Expr{x.X}}})
				}
			}
		case *ast.ExprStmt:
			if call, ok := s.X.(*ast.CallExpr); ok {
				if id, ok := call.Fun.(*ast.Ident); ok && id.Name == "delete" && len(call.Args) == 2 {
					if _, isB := r.info.Uses[id].(*types.Builtin); isB && r.isMap(call.Args[0]) {
						writesAfter[s] = append(writesAfter[s], &ast.ExprStmt{X: &ast.CallExpr{Fun: r.vs("WM"), Args: []ast.Expr{call.Args[0]}}})
					}
				}
			}
		case *ast.UnaryExpr:
			if s.Op == token.AND {
				if se, ok := unparen(s.X).(*ast.SelectorExpr); ok {
					skip[se] = true // address taken (atomics, method values): not a data read
				}
			}
		case *ast.SelectorExpr:
			// x.f.Method(): x.f is a receiver; keep wrapping (it is a read of the field)
			// but never wrap the operand of a selector that is itself a field write target
		case *ast.CompositeLit:
			for _, el := range s.Elts {
				if kv, ok := el.(*ast.KeyValueExpr); ok {
					if id, ok := kv.Key.(*ast.Ident); ok {
						_ = id // struct literal keys are not selector expressions
					}
				}
			}
		}
		return true
	})
	// statement lists: append write notifications
	var fixList func(list []ast.Stmt) []ast.Stmt
	fixList = func(list []ast.Stmt) []ast.Stmt {
		var out []ast.Stmt
		for _, s := range list {
			out = append(out, s)
			if w, ok := writesAfter[s]; ok {
				out = append(out, w...)
				delete(writesAfter, s)
			}
		}
		return out
	}
	ast.Inspect(r.file, func(n ast.Node) bool {
		switch b := n.(type) {
		case *ast.BlockStmt:
			b.List = fixList(b.List)
		case *ast.CaseClause:
			b.Body = fixList(b.Body)
		case *ast.CommClause:
			b.Body = fixList(b.Body)
		}
		return true
	})
	for s := range writesAfter {
		// a field/map write in an if/for/switch init or post clause cannot be followed by a notification
		// statement; it stays un-instrumented for the race monitor (the access itself is unchanged)
		fmt.Fprintf(os.Stderr, "note: write at %s is not instrumented for the race monitor (init/post clause)\n", r.pos(s))
	}
	// reads: wrap own-field selector reads and map reads
	astutil.Apply(r.file, nil, func(c *astutil.Cursor) bool {
		switch x := c.Node().(type) {
		case *ast.SelectorExpr:
			if skip[x] || !fieldRead[x] {
				return true
			}
			// do not wrap when used as the X of an enclosing selector that is a skipped write
			// target or when it is the callee of a method call on a shim type
			if _, isKV := c.Parent().(*ast.KeyValueExpr); isKV && c.Name() == "Key" {
				return true
			}
			c.Replace(&ast.ParenExpr{X: &ast.StarExpr{X: &ast.CallExpr{Fun: r.vs("RP"), Args: []ast.Expr{&ast.UnaryExpr{Op: token.AND, X: x}}}}})
		case *ast.IndexExpr:
			if skip[x] || !mapIdx[x] {
				return true
			}
			x.X = &ast.CallExpr{Fun: r.vs("RM"), Args: []ast.Expr{x.X}}
		case *ast.RangeStmt:
			if mapRange[x] {
				x.X = &ast.CallExpr{Fun: r.vs("RM"), Args: []ast.Expr{x.X}}
			}
		case *ast.CallExpr:
			if mapLen[x] {
				x.Args[0] = &ast.CallExpr{Fun: r.vs("RM"), Args: []ast.Expr{x.Args[0]}}
			}
		}
		return true
	})
}

func unparen(e ast.Expr) ast.Expr {
	for {
		p, ok := e.(*ast.ParenExpr)
		if !ok {
			return e
		}
		e = p.X
	}
}

func main() {
	repo := flag.String("repo", "/repo", "repository root")
	shim := flag.String("shim", "/verif/engine/shim", "shim source directory")
	out := flag.String("out", "", "output directory")
	noRace := flag.Bool("norace", false, "skip data-access instrumentation")
	extra := flag.String("extra", "", "directory with extra files to add per package: <extra>/<pkgdir>/*.go")
	flag.Parse()
	if *out == "" || flag.NArg() == 0 {
		fmt.Fprintln(os.Stderr, "usage: instrument -out dir pkgdir...")
		os.Exit(2)
	}
	var patterns []string
	for _, p := range flag.Args() {
		patterns = append(patterns, "./"+p)
	}
	cfg := &packages.Config{
		Mode: packages.NeedName | packages.NeedFiles | packages.NeedCompiledGoFiles | packages.NeedSyntax | packages.NeedTypes | packages.NeedTypesInfo | packages.NeedImports,
		Dir:  *repo,
		Env:  append(os.Environ(), "GOFLAGS=-mod=mod", "GOPROXY=off", "GOSUMDB=off", "GOTOOLCHAIN=local"),
	}
	pkgs, err := packages.Load(cfg, patterns...)
	if err != nil {
		die("load: %v", err)
	}
	overlay := map[string]string{}
	os.MkdirAll(*out, 0o755)
	for _, p := range pkgs {
		for _, e := range p.Errors {
			die("package %s does not type-check: %v", p.PkgPath, e)
		}
		rel, _ := filepath.Rel(*repo, filepath.Dir(p.CompiledGoFiles[0]))
		od := filepath.Join(*out, rel)
		os.MkdirAll(od, 0o755)
		own := map[*types.Named]bool{}
		for i, f := range p.Syntax {
			src := p.CompiledGoFiles[i]
			r := &rewriter{fset: p.Fset, info: p.TypesInfo, pkg: p.Types, file: f, genChanType: map[ast.Node]ast.Expr{},
				genRecv: map[*ast.CallExpr]bool{}, genSend: map[*ast.CallExpr]bool{}, ownStructs: own, noRace: *noRace}
			f.Comments = nil
			// drop doc comments (positions would be wrong after rewriting)
			ast.Inspect(f, func(n ast.Node) bool {
				switch d := n.(type) {
				case *ast.GenDecl:
					d.Doc = nil
				case *ast.FuncDecl:
					d.Doc = nil
				case *ast.Field:
					d.Doc, d.Comment = nil, nil
				case *ast.ValueSpec:
					d.Doc, d.Comment = nil, nil
				case *ast.TypeSpec:
					d.Doc, d.Comment = nil, nil
				case *ast.ImportSpec:
					d.Doc, d.Comment = nil, nil
				}
				return true
			})
			f.Doc = nil
			r.precompute()
			r.instrumentAccesses()
			r.rewriteFile()
			if r.usedVS {
				astutil.AddNamedImport(p.Fset, f, "vs", vsPath)
			}
			var buf bytes.Buffer
			if err := format.Node(&buf, p.Fset, f); err != nil {
				die("print %s: %v", src, err)
			}
			// keep possibly-unused imports alive
			for _, im := range f.Imports {
				pth, _ := strconv.Unquote(im.Path.Value)
				name := filepath.Base(pth)
				if im.Name != nil {
					name = im.Name.Name
				}
				switch pth {
				case "time":
					fmt.Fprintf(&buf, "\nvar _ = %s.Second\n", name)
				case "context":
					fmt.Fprintf(&buf, "\nvar _ = %s.Background\n", name)
				}
			}
			for _, k := range r.keepAlive {
				fmt.Fprintf(&buf, "\n%s\n", k)
			}
			dst := filepath.Join(od, filepath.Base(src))
			if err := os.WriteFile(dst, buf.Bytes(), 0o644); err != nil {
				die("write: %v", err)
			}
			overlay[src] = dst
		}
		// hook file: exported setters for unexported knobs, always present so harnesses compile
		hook := hookFile(p)
		if hook != "" {
			dst := filepath.Join(od, "zz_verif_hooks.go")
			os.WriteFile(dst, []byte(hook), 0o644)
			overlay[filepath.Join(filepath.Dir(p.CompiledGoFiles[0]), "zz_verif_hooks.go")] = dst
		}
		if *extra != "" {
			files, _ := filepath.Glob(filepath.Join(*extra, rel, "*.go"))
			for _, f := range files {
				overlay[filepath.Join(filepath.Dir(p.CompiledGoFiles[0]), filepath.Base(f))] = f
			}
		}
	}
	// the shim as a virtual package of the dhcp module
	shimFiles, _ := filepath.Glob(filepath.Join(*shim, "*.go"))
	sort.Strings(shimFiles)
	for _, f := range shimFiles {
		if strings.HasSuffix(f, "_test.go") {
			continue
		}
		overlay[filepath.Join(*repo, "verifshim", "vs", filepath.Base(f))] = f
	}
	b, _ := json.MarshalIndent(map[string]any{"Replace": overlay}, "", " ")
	if err := os.WriteFile(filepath.Join(*out, "overlay.json"), b, 0o644); err != nil {
		die("write overlay: %v", err)
	}
	fmt.Printf("instrumented %d packages, %d overlay entries -> %s\n", len(pkgs), len(overlay), filepath.Join(*out, "overlay.json"))
}

// hookFile generates exported accessors for unexported configuration the harness needs.
func hookFile(p *packages.Package) string {
	obj := p.Types.Scope().Lookup("Client")
	if obj == nil {
		return ""
	}
	has := false
	if st, ok := obj.Type().Underlying().(*types.Struct); ok {
		for i := 0; i < st.NumFields(); i++ {
			if st.Field(i).Name() == "bufferCap" {
				if b, ok := st.Field(i).Type().Underlying().(*types.Basic); ok && b.Kind() == types.Int {
					has = true
				}
			}
		}
	}
	var b strings.Builder
	fmt.Fprintf(&b, "package %s\n\n", p.Types.Name())
	b.WriteString("// VerifSetBufferCap sets the per-transaction channel capacity; false if the knob no longer exists.\n")
	if has {
		b.WriteString("func VerifSetBufferCap(c *Client, n int) bool { c.bufferCap = n; return true }\n")
	} else {
		b.WriteString("func VerifSetBufferCap(c *Client, n int) bool { return false }\n")
	}
	return b.String()
}
