package vs

// Same-API replacements for package sync (the rewriter swaps the import path).

type lockable interface{ canLock(t *thread) bool }

// Locker mirrors sync.Locker.
type Locker interface {
	Lock()
	Unlock()
}

type Mutex struct {
	id    int
	held  bool
	owner *thread
	vc    VC
}

func (m *Mutex) canLock(t *thread) bool { return !m.held }

func (m *Mutex) reg() {
	if m.id == 0 && S != nil {
		S.objSeq++
		m.id = S.objSeq
	}
}

func (m *Mutex) Lock() {
	m.reg()
	t := yield(pendingOp{kind: opLock, obj: m})
	m.held = true
	m.owner = t
	acquire(t, m.vc)
}

func (m *Mutex) TryLock() bool {
	m.reg()
	t := yield(pendingOp{kind: opAtomic, obj: m})
	if m.held {
		return false
	}
	m.held = true
	m.owner = t
	acquire(t, m.vc)
	return true
}

// Unlock is not a scheduling point (a release is a left-mover).
func (m *Mutex) Unlock() {
	if S == nil || S.aborting {
		return
	}
	if !m.held {
		panic("sync: unlock of unlocked mutex")
	}
	m.held = false
	m.owner = nil
	m.vc = release(S.cur)
}

type RWMutex struct {
	id      int
	writer  bool
	readers int
	vc      VC
	rvc     VC
}

func (m *RWMutex) canLock(t *thread) bool { return !m.writer && m.readers == 0 }
func (m *RWMutex) canRLock() bool         { return !m.writer }

func (m *RWMutex) reg() {
	if m.id == 0 && S != nil {
		S.objSeq++
		m.id = S.objSeq
	}
}

func (m *RWMutex) Lock() {
	m.reg()
	t := yield(pendingOp{kind: opLock, obj: m})
	m.writer = true
	acquire(t, m.vc)
	acquire(t, m.rvc)
}

func (m *RWMutex) Unlock() {
	if S == nil || S.aborting {
		return
	}
	if !m.writer {
		panic("sync: Unlock of unlocked RWMutex")
	}
	m.writer = false
	m.vc = release(S.cur)
}

func (m *RWMutex) RLock() {
	m.reg()
	t := yield(pendingOp{kind: opRLock, obj: m})
	m.readers++
	acquire(t, m.vc)
}

func (m *RWMutex) RUnlock() {
	if S == nil || S.aborting {
		return
	}
	if m.readers <= 0 {
		panic("sync: RUnlock of unlocked RWMutex")
	}
	m.readers--
	m.rvc.join(release(S.cur))
}

func (m *RWMutex) RLocker() Locker { return rlocker{m} }

type rlocker struct{ m *RWMutex }

func (r rlocker) Lock()   { r.m.RLock() }
func (r rlocker) Unlock() { r.m.RUnlock() }

type WaitGroup struct {
	n  int
	vc VC
}

// Add / Done are not scheduling points.
func (w *WaitGroup) Add(d int) {
	if S == nil || S.aborting {
		return
	}
	w.n += d
	if w.n < 0 {
		panic("sync: negative WaitGroup counter")
	}
	if d < 0 {
		w.vc.join(release(S.cur))
	}
}

func (w *WaitGroup) Done() { w.Add(-1) }

func (w *WaitGroup) Wait() {
	t := yield(pendingOp{kind: opWGWait, obj: w})
	acquire(t, w.vc)
}

type Once struct {
	done    bool
	running bool
	vc      VC
}

func (o *Once) Do(f func()) {
	t := yield(pendingOp{kind: opOnce, obj: o})
	if o.done {
		acquire(t, o.vc)
		return
	}
	o.running = true
	defer func() {
		o.running = false
		o.done = true
		if S != nil && !S.aborting {
			o.vc = release(S.cur)
		}
	}()
	f()
}

func (m *RWMutex) TryLock() bool {
	m.reg()
	t := yield(pendingOp{kind: opAtomic, obj: m})
	if m.writer || m.readers > 0 {
		return false
	}
	m.writer = true
	acquire(t, m.vc)
	acquire(t, m.rvc)
	return true
}

func (m *RWMutex) TryRLock() bool {
	m.reg()
	t := yield(pendingOp{kind: opAtomic, obj: m})
	if m.writer {
		return false
	}
	m.readers++
	acquire(t, m.vc)
	return true
}
