package vs

import (
	"fmt"
	"time"
)

// Result of exploring one scenario.
type Result struct {
	Executions  int
	BoundDone   int // highest preemption bound fully explored (-1 if none)
	Capped      bool
	MaxPoints   int
	States      map[uint64]struct{}
	Transitions int
	Failure     *Failure
	Outcomes    map[string]int
	PerBound    []int // cumulative executions after each completed bound
}

type Failure struct {
	Choices []int
	Msg     string
	Exec    *Exec
}

// ExploreCfg controls the DFS.
type ExploreCfg struct {
	Bound    int       // maximum number of preemptions
	MaxExec  int       // cap on executions (0 = none)
	Deadline time.Time // wall-clock cap (zero = none)
	Run      Config
	// Check is the oracle: returns "" if the execution is fine; outcome is a short
	// class string counted in Result.Outcomes.
	Check func(ex *Exec) (violation string, outcome string)
}

type workItem struct {
	prefix []int
	cost   int
}

// Explore runs body under every schedule with at most cfg.Bound preemptions
// (iteratively 0..Bound) and applies cfg.Check to each execution. It stops at
// the first violation.
func Explore(cfg ExploreCfg, body func()) *Result {
	res := &Result{BoundDone: -1, States: map[uint64]struct{}{}, Outcomes: map[string]int{}}
	// determinism self-check: default schedule twice
	a := RunOnce(cfg.Run, nil, body)
	b := RunOnce(cfg.Run, nil, body)
	if sigOf(a) != sigOf(b) {
		res.Failure = &Failure{Msg: "INFRA: nondeterminism not captured (default schedule differs between two runs): " + sigOf(a) + " vs " + sigOf(b), Exec: a}
		return res
	}
	frontier := []workItem{{nil, 0}}
	for bound := 0; bound <= cfg.Bound; bound++ {
		stack := frontier
		frontier = nil
		for len(stack) > 0 {
			it := stack[len(stack)-1]
			stack = stack[:len(stack)-1]
			if (cfg.MaxExec > 0 && res.Executions >= cfg.MaxExec) || (!cfg.Deadline.IsZero() && time.Now().After(cfg.Deadline)) {
				res.Capped = true
				return res
			}
			ex := RunOnce(cfg.Run, it.prefix, body)
			res.Executions++
			res.Transitions += ex.Steps
			for h := range ex.StateHashes {
				res.States[h] = struct{}{}
			}
			if len(ex.Points) > res.MaxPoints {
				res.MaxPoints = len(ex.Points)
			}
			if ex.Diverged != "" {
				res.Failure = &Failure{Choices: it.prefix, Msg: "INFRA: " + ex.Diverged, Exec: ex}
				return res
			}
			if len(ex.Points) < len(it.prefix) {
				res.Failure = &Failure{Choices: it.prefix, Msg: "INFRA: replay divergence (execution ended before the recorded prefix was consumed)", Exec: ex}
				return res
			}
			if cfg.Check != nil {
				v, out := cfg.Check(ex)
				res.Outcomes[out]++
				if v != "" {
					res.Failure = &Failure{Choices: append([]int(nil), ex.Choices...), Msg: v, Exec: ex}
					return res
				}
			}
			// cumulative preemption cost before each point (prefix cost is it.cost;
			// default choices after the prefix cost 0 by construction of the canonical order)
			run := it.cost
			for i := len(ex.Points) - 1; i >= len(it.prefix); i-- {
				_ = i
			}
			costs := make([]int, len(ex.Points))
			for i := len(it.prefix); i < len(ex.Points); i++ {
				costs[i] = run
				run += int(ex.Points[i].Costs[ex.Points[i].Chosen])
			}
			for i := len(ex.Points) - 1; i >= len(it.prefix); i-- {
				p := ex.Points[i]
				for alt := p.N - 1; alt >= 1; alt-- {
					c := costs[i] + int(p.Costs[alt])
					if c > bound && (bound == cfg.Bound || c != bound+1) {
						continue
					}
					np := make([]int, i+1)
					copy(np, ex.Choices[:i])
					np[i] = alt
					if c > bound {
						frontier = append(frontier, workItem{np, c})
					} else {
						stack = append(stack, workItem{np, c})
					}
				}
			}
		}
		res.BoundDone = bound
		res.PerBound = append(res.PerBound, res.Executions)
	}
	return res
}

func sigOf(e *Exec) string {
	var h uint64 = 1469598103934665603
	for _, p := range e.Points {
		h = (h ^ p.Sig ^ uint64(p.N)<<32) * 1099511628211
	}
	return fmt.Sprintf("%d/%d/%x/%d", len(e.Points), e.Steps, h, e.EndTime)
}
