module github.com/insomniacslk/dhcp/verifshim/vs

go 1.23.0
