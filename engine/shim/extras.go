package vs

import (
	"context"
	"fmt"
	"time"
	"unsafe"
)

// Constructs that the pinned tree does not use but that a refactoring of the client / server
// packages may introduce: tickers, condition variables, pools, concurrent maps, context.AfterFunc.
// They exist so that such a change is still explored (instead of stopping the rewriter).

// ---- time.Ticker / time.Tick ----

// Ticker replaces *time.Ticker: a tick is dropped when the previous one was not consumed,
// as in the standard library. A ticker whose channel is full does not keep the virtual
// clock running (see sched.liveEvents), so an abandoned ticker cannot turn a deadlock or
// a finished execution into an endless one.
type Ticker struct {
	C       *Chan[time.Time]
	d       time.Duration
	ev      *event
	stopped bool
}

func NewTicker(d time.Duration) *Ticker {
	cur()
	if d <= 0 {
		panic("non-positive interval for NewTicker")
	}
	t := &Ticker{C: MakeChan[time.Time](1), d: d}
	t.arm()
	return t
}

func (t *Ticker) arm() {
	at := S.now + int64(t.d)
	t.ev = S.addEvent(at, fmt.Sprintf("ticker(+%d)", int64(t.d)), func() {
		if t.stopped {
			return
		}
		if len(t.C.buf) == 0 {
			t.C.buf = append(t.C.buf, item{v: Epoch.Add(time.Duration(at)), vc: release(nil)})
		}
		t.arm()
	})
	t.ev.idle = func() bool { return len(t.C.buf) > 0 }
}

func (t *Ticker) Stop() {
	Yield()
	t.stopped = true
	if t.ev != nil {
		t.ev.dead = true
	}
}

func (t *Ticker) Reset(d time.Duration) {
	Yield()
	if d <= 0 {
		panic("non-positive interval for Ticker.Reset")
	}
	if t.ev != nil {
		t.ev.dead = true
	}
	t.d, t.stopped = d, false
	t.arm()
}

// ---- sync.Cond ----

type Cond struct {
	L       Locker
	waiters []*thread
	vc      VC
}

func NewCond(l Locker) *Cond { return &Cond{L: l} }

func (c *Cond) Wait() {
	t := cur()
	c.waiters = append(c.waiters, t)
	c.L.Unlock()
	yield(pendingOp{kind: opCondWait, obj: c})
	acquire(t, c.vc)
	c.L.Lock()
}

func (c *Cond) wake(n int) {
	t := yield(pendingOp{kind: opYield})
	c.vc.join(release(t))
	for n != 0 && len(c.waiters) > 0 {
		w := c.waiters[0]
		c.waiters = c.waiters[1:]
		if w.op.kind == opCondWait {
			w.op = pendingOp{kind: opResume, label: "cond"}
		}
		n--
	}
}

func (c *Cond) Signal()    { c.wake(1) }
func (c *Cond) Broadcast() { c.wake(-1) }

// ---- sync.Pool ----

// Pool is a deterministic LIFO pool: Get returns the most recently Put item. (The standard
// library may also drop items at any time; a Get that misses is the behaviour of an empty
// pool, which every scenario exercises on its first use.)
type Pool struct {
	New   func() any
	items []any
}

func (p *Pool) Get() any {
	atomPoint(unsafe.Pointer(p))
	if n := len(p.items); n > 0 {
		x := p.items[n-1]
		p.items = p.items[:n-1]
		return x
	}
	if p.New != nil {
		return p.New()
	}
	return nil
}

func (p *Pool) Put(x any) {
	atomPoint(unsafe.Pointer(p))
	if x != nil {
		p.items = append(p.items, x)
	}
}

// ---- sync.Map ----

// Map keeps insertion order so that Range is deterministic.
type Map struct {
	keys []any
	m    map[any]any
}

func (m *Map) pt() { atomPoint(unsafe.Pointer(m)) }

func (m *Map) Load(k any) (any, bool) { m.pt(); v, ok := m.m[k]; return v, ok }

func (m *Map) store(k, v any) {
	if m.m == nil {
		m.m = map[any]any{}
	}
	if _, ok := m.m[k]; !ok {
		m.keys = append(m.keys, k)
	}
	m.m[k] = v
}

func (m *Map) del(k any) {
	if _, ok := m.m[k]; !ok {
		return
	}
	delete(m.m, k)
	for i, x := range m.keys {
		if x == k {
			m.keys = append(m.keys[:i:i], m.keys[i+1:]...)
			break
		}
	}
}

func (m *Map) Store(k, v any) { m.pt(); m.store(k, v) }
func (m *Map) Delete(k any)   { m.pt(); m.del(k) }
func (m *Map) Clear()         { m.pt(); m.m, m.keys = nil, nil }

func (m *Map) LoadOrStore(k, v any) (any, bool) {
	m.pt()
	if old, ok := m.m[k]; ok {
		return old, true
	}
	m.store(k, v)
	return v, false
}

func (m *Map) LoadAndDelete(k any) (any, bool) {
	m.pt()
	v, ok := m.m[k]
	m.del(k)
	return v, ok
}

func (m *Map) Swap(k, v any) (any, bool) {
	m.pt()
	old, ok := m.m[k]
	m.store(k, v)
	return old, ok
}

func (m *Map) CompareAndSwap(k, old, new any) bool {
	m.pt()
	if cur, ok := m.m[k]; ok && cur == old {
		m.m[k] = new
		return true
	}
	return false
}

func (m *Map) CompareAndDelete(k, old any) bool {
	m.pt()
	if cur, ok := m.m[k]; ok && cur == old {
		m.del(k)
		return true
	}
	return false
}

func (m *Map) Range(f func(k, v any) bool) {
	m.pt()
	keys := append([]any(nil), m.keys...)
	for _, k := range keys {
		v, ok := m.m[k]
		if !ok {
			continue
		}
		if !f(k, v) {
			return
		}
		m.pt()
	}
}

// ---- sync.OnceFunc / OnceValue ----

func OnceFunc(f func()) func() {
	var o Once
	return func() { o.Do(f) }
}

func OnceValue[T any](f func() T) func() T {
	var o Once
	var v T
	return func() T { o.Do(func() { v = f() }); return v }
}

// ---- context.AfterFunc / WithoutCancel ----

// CtxAfterFunc replaces context.AfterFunc: f runs in its own thread once ctx ends.
func CtxAfterFunc(ctx context.Context, f func()) (stop func() bool) {
	cur()
	stopCh := MakeChan[struct{}](0)
	state := 0 // 0 waiting, 1 started, 2 stopped
	// the waiting thread is a daemon: the standard library starts no goroutine before ctx ends,
	// so a never-ending context must not show up as a goroutine left behind
	var th *thread
	th = S.newThread("ctx-afterfunc", true, func() {
		if s := Select(false, RecvCase(CtxDone(ctx)), RecvCase(stopCh)); s.I == 0 && state == 0 {
			state = 1
			th.daemon = false
			f()
		}
	})
	th.daemon = true
	return func() bool {
		if state != 0 {
			Yield()
			return false
		}
		state = 2
		stopCh.Close()
		return true
	}
}

type withoutCancel struct{ context.Context }

func (withoutCancel) Deadline() (time.Time, bool) { return time.Time{}, false }
func (withoutCancel) Done() <-chan struct{}       { return nil }
func (withoutCancel) Err() error                  { return nil }
func (w withoutCancel) Value(k any) any {
	if _, ok := k.(ctxKey); ok {
		return nil // detached from the scheduler-owned parent: never ends
	}
	return w.Context.Value(k)
}

func CtxWithoutCancel(parent context.Context) context.Context { return withoutCancel{parent} }
