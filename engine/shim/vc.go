package vs

import (
	"fmt"
	"reflect"
	"runtime"
	"strings"
	"unsafe"
)

// VC is a vector clock indexed by thread id.
type VC []uint32

func (v VC) clone() VC { return append(VC(nil), v...) }

func (v *VC) tick(id int) {
	for len(*v) <= id {
		*v = append(*v, 0)
	}
	(*v)[id]++
}

func (v *VC) join(o VC) {
	for len(*v) < len(o) {
		*v = append(*v, 0)
	}
	for i, x := range o {
		if x > (*v)[i] {
			(*v)[i] = x
		}
	}
}

func (v VC) get(id int) uint32 {
	if id < len(v) {
		return v[id]
	}
	return 0
}

// evVC is the clock of the creator of the event being fired (clock actions run with S.cur == nil).
var evVC VC

// acquire joins o into the current thread's clock; release returns a copy of the
// current clock and ticks it.
func acquire(t *thread, o VC) {
	if t != nil {
		t.vc.join(o)
	}
}

func release(t *thread) VC {
	if t == nil {
		return evVC.clone()
	}
	c := t.vc.clone()
	t.vc.tick(t.id)
	return c
}

type accessRec struct {
	tid   int
	clk   uint32
	site  string
	write bool
	atom  bool
}

type shadowCell struct {
	lastW accessRec
	hasW  bool
	reads []accessRec
	keep  any
}

func site(skip int) string {
	if S == nil || !S.sites {
		return "(re-run with site capture for locations)"
	}
	var pcs [8]uintptr
	n := runtime.Callers(skip, pcs[:])
	fr := runtime.CallersFrames(pcs[:n])
	for {
		f, more := fr.Next()
		if !strings.Contains(f.File, "verifshim") && !strings.Contains(f.File, "engine/shim") {
			fn := f.Function
			if i := strings.LastIndex(fn, "/"); i >= 0 {
				fn = fn[i+1:]
			}
			file := f.File
			if i := strings.LastIndex(file, "/"); i >= 0 {
				file = file[i+1:]
			}
			return fmt.Sprintf("%s (%s:%d)", fn, file, f.Line)
		}
		if !more {
			return "?"
		}
	}
}

const (
	kindField = iota
	kindMap
	kindAtomic // access through sync/atomic: races only with plain accesses
)

func access(addr uintptr, keep any, write bool, kind int) {
	if S == nil || S.aborting {
		return
	}
	t := S.cur
	if t == nil {
		return
	}
	cell := S.shadow[addr]
	if cell == nil {
		cell = &shadowCell{keep: keep}
		S.shadow[addr] = cell
	}
	me := t.id
	clk := t.vc.get(me)
	isAtom := kind == kindAtomic
	report := func(prev *accessRec) {
		if prev.atom && isAtom {
			return
		}
		if len(S.ex.Races) < 8 {
			what := fmt.Sprintf("%T", cell.keep)
			S.ex.Races = append(S.ex.Races, fmt.Sprintf("data race on %s: %s by T%d at %s is unordered with %s by T%d at %s",
				what, accKind(write), me, site(4), accKind(prev.write), prev.tid, prev.site))
		}
	}
	if cell.hasW {
		if w := &cell.lastW; w.tid != me && w.clk > t.vc.get(w.tid) {
			report(w)
		}
	}
	st := ""
	if S.sites {
		st = site(3)
	}
	if write {
		for i := range cell.reads {
			if r := &cell.reads[i]; r.tid != me && r.clk > t.vc.get(r.tid) {
				report(r)
			}
		}
		cell.lastW = accessRec{tid: me, clk: clk, site: st, write: true, atom: isAtom}
		cell.hasW = true
		cell.reads = cell.reads[:0]
	} else {
		for i := range cell.reads {
			if cell.reads[i].tid == me {
				cell.reads[i].clk = clk
				cell.reads[i].site = st
				cell.reads[i].atom = isAtom
				return
			}
		}
		cell.reads = append(cell.reads, accessRec{tid: me, clk: clk, site: st, atom: isAtom})
	}
}

func accKind(w bool) string {
	if w {
		return "write"
	}
	return "read"
}

// RP logs a read of *p and returns p (used as (*vs.RP(&x.f)) by the rewriter).
func RP[T any](p *T) *T {
	access(uintptr(unsafe.Pointer(p)), p, false, kindField)
	return p
}

// W logs a write of *p (inserted after the assignment statement).
func W[T any](p *T) {
	access(uintptr(unsafe.Pointer(p)), p, true, kindField)
}

// RM logs a read of map m and returns it; WM logs a write.
func RM[M any](m M) M {
	v := reflect.ValueOf(m)
	if v.Kind() == reflect.Map && !v.IsNil() {
		access(v.Pointer(), m, false, kindMap)
	}
	return m
}

func WM[M any](m M) {
	v := reflect.ValueOf(m)
	if v.Kind() == reflect.Map && !v.IsNil() {
		access(v.Pointer(), m, true, kindMap)
	}
}
