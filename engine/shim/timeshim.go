package vs

import (
	"context"
	"fmt"
	"time"
)

// Epoch is the wall-clock reading at virtual instant 0.
var Epoch = time.Date(2026, 1, 1, 0, 0, 0, 0, time.UTC)

func Now() time.Time                  { cur(); return Epoch.Add(time.Duration(S.now)) }
func Since(t time.Time) time.Duration { return Now().Sub(t) }
func Until(t time.Time) time.Duration { return t.Sub(Now()) }

// After replaces time.After: a channel that receives the instant at now+d.
func After(d time.Duration) *Chan[time.Time] {
	cur()
	c := MakeChan[time.Time](1)
	at := S.now + int64(d)
	S.addEvent(at, fmt.Sprintf("timer(+%d)", int64(d)), func() {
		c.buf = append(c.buf, item{v: Epoch.Add(time.Duration(at)), vc: release(nil)})
	})
	return c
}

// Tick replaces time.Tick.
func Tick(d time.Duration) *Chan[time.Time] { return NewTicker(d).C }

// Sleep blocks the calling thread for d of virtual time.
func Sleep(d time.Duration) {
	if d <= 0 {
		Yield()
		return
	}
	After(d).Recv()
}

// Timer replaces *time.Timer.
type Timer struct {
	C  *Chan[time.Time]
	ev *event
	f  func()
}

func NewTimer(d time.Duration) *Timer {
	cur()
	t := &Timer{C: MakeChan[time.Time](1)}
	t.arm(d)
	return t
}

func (t *Timer) arm(d time.Duration) {
	at := S.now + int64(d)
	t.ev = S.addEvent(at, fmt.Sprintf("timer(+%d)", int64(d)), func() {
		if t.f != nil {
			f := t.f
			S.newThread("afterfunc", true, f)
			return
		}
		if len(t.C.buf) == 0 {
			t.C.buf = append(t.C.buf, item{v: Epoch.Add(time.Duration(at)), vc: release(nil)})
		}
	})
}

func AfterFunc(d time.Duration, f func()) *Timer {
	cur()
	t := &Timer{f: f}
	t.arm(d)
	return t
}

func (t *Timer) Stop() bool {
	Yield()
	if t.ev != nil && !t.ev.dead {
		t.ev.dead = true
		return true
	}
	return false
}

func (t *Timer) Reset(d time.Duration) bool {
	Yield()
	active := t.ev != nil && !t.ev.dead
	if active {
		t.ev.dead = true
	}
	t.arm(d)
	return active
}

// At schedules a harness action at virtual instant `at` (absolute ticks).
func At(at int64, label string, f func()) { cur(); S.addEvent(at, label, f) }

// ---- contexts ----

type ctxKey struct{}

// Ctx is a context whose Done channel is owned by the scheduler.
type Ctx struct {
	parent context.Context
	done   *Chan[struct{}]
	err    error
	real   chan struct{}
	dl     time.Time
	hasDL  bool
	kids   []*Ctx
}

func (c *Ctx) Deadline() (time.Time, bool) { return c.dl, c.hasDL }
func (c *Ctx) Done() <-chan struct{}       { return c.real }
func (c *Ctx) Err() error                  { return c.err }
func (c *Ctx) Value(k any) any {
	if _, ok := k.(ctxKey); ok {
		return c
	}
	if c.parent != nil {
		return c.parent.Value(k)
	}
	return nil
}

func (c *Ctx) cancel(err error, byClock bool) {
	if c.err != nil {
		return
	}
	c.err = err
	close(c.real)
	if byClock {
		c.done.closeByClock()
	} else {
		c.done.closed = true
		c.done.closeVC = release(S.cur)
	}
	for _, k := range c.kids {
		k.cancel(err, byClock)
	}
}

// WithCancel returns a scheduler-owned cancellable context. cancel is a scheduling point.
func WithCancel(parent context.Context) (*Ctx, func()) {
	cur()
	c := &Ctx{parent: parent, done: MakeChan[struct{}](0), real: make(chan struct{})}
	if parent != nil {
		if p, ok := parent.Value(ctxKey{}).(*Ctx); ok {
			if p.err != nil {
				c.cancel(p.err, false)
			} else {
				p.kids = append(p.kids, c)
			}
			if p.hasDL {
				c.dl, c.hasDL = p.dl, true
			}
		}
	}
	return c, func() {
		if S == nil || S.aborting {
			return
		}
		Yield()
		c.cancel(context.Canceled, false)
	}
}

// WithTimeout returns a context that expires at now+d of virtual time.
func WithTimeout(parent context.Context, d time.Duration) (*Ctx, func()) {
	c, cancel := WithCancel(parent)
	dl := Epoch.Add(time.Duration(S.now) + d)
	if !c.hasDL || dl.Before(c.dl) {
		c.dl, c.hasDL = dl, true
	}
	S.addEvent(S.now+int64(d), "ctx-deadline", func() { c.cancel(context.DeadlineExceeded, true) })
	return c, cancel
}

// CtxWithCancel / CtxWithTimeout / CtxWithDeadline replace context.WithCancel / WithTimeout /
// WithDeadline inside rewritten packages (same signatures), so that contexts derived by the code
// under test live on the virtual clock too.
func CtxWithCancel(parent context.Context) (context.Context, context.CancelFunc) {
	c, f := WithCancel(parent)
	return c, f
}

func CtxWithTimeout(parent context.Context, d time.Duration) (context.Context, context.CancelFunc) {
	c, f := WithTimeout(parent, d)
	return c, f
}

func CtxWithDeadline(parent context.Context, t time.Time) (context.Context, context.CancelFunc) {
	return CtxWithTimeout(parent, t.Sub(Epoch.Add(time.Duration(S.now))))
}

// CancelByClock ends the context now; for use inside vs.At callbacks.
func (c *Ctx) CancelByClock() { c.cancel(context.Canceled, true) }

// ExpireByClock ends the context now with context.DeadlineExceeded (a deadline passing); for vs.At callbacks.
func (c *Ctx) ExpireByClock() { c.cancel(context.DeadlineExceeded, true) }

// CancelAt makes the context end (context.Canceled) at the given virtual instant, as a clock action.
func (c *Ctx) CancelAt(at int64) {
	S.addEvent(at, "ctx-cancel", func() { c.cancel(context.Canceled, true) })
}

var never *Chan[struct{}]

// CtxDone replaces ctx.Done() in rewritten code.
func CtxDone(ctx context.Context) *Chan[struct{}] {
	if ctx != nil {
		if c, ok := ctx.Value(ctxKey{}).(*Ctx); ok {
			return c.done
		}
	}
	return nil // foreign contexts never end under the scheduler (nil channel blocks forever)
}
