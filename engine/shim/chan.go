package vs

import "fmt"

// chanCore is the type-erased view of a channel used by the scheduler.
type chanCore interface {
	id() int
	isNil() bool
	length() int
	capacity() int
	isClosed() bool
}

type item struct {
	v  any
	vc VC
}

// Chan is the controlled replacement of a Go channel.
type Chan[T any] struct {
	cid     int
	cap_    int
	buf     []item
	closed  bool
	closeVC VC
	name    string
}

func (c *Chan[T]) id() int {
	if c == nil {
		return 0
	}
	return c.cid
}
func (c *Chan[T]) isNil() bool    { return c == nil }
func (c *Chan[T]) length() int    { return len(c.buf) }
func (c *Chan[T]) capacity() int  { return c.cap_ }
func (c *Chan[T]) isClosed() bool { return c.closed }

// MakeChan replaces make(chan T, n).
func MakeChan[T any](n int) *Chan[T] {
	if S == nil {
		panic("vs: MakeChan outside a controlled execution")
	}
	S.objSeq++
	return &Chan[T]{cid: S.objSeq, cap_: n}
}

// Named labels a channel for logs.
func (c *Chan[T]) Named(n string) *Chan[T] { c.name = n; return c }

func core[T any](c *Chan[T]) chanCore {
	if c == nil {
		return (*Chan[T])(nil)
	}
	return c
}

// Len / Cap replace len(ch) / cap(ch).
func (c *Chan[T]) Len() int {
	if c == nil {
		return 0
	}
	return len(c.buf)
}
func (c *Chan[T]) Cap() int {
	if c == nil {
		return 0
	}
	return c.cap_
}

// push appends a value on behalf of thread t (nil = clock action).
func (c *Chan[T]) push(t *thread, v any) {
	c.buf = append(c.buf, item{v: v, vc: release(t)})
}

func (c *Chan[T]) pop(t *thread) (any, bool) {
	if len(c.buf) > 0 {
		it := c.buf[0]
		c.buf[0] = item{}
		c.buf = c.buf[1:]
		acquire(t, it.vc)
		return it.v, true
	}
	if c.closed {
		acquire(t, c.closeVC)
		return nil, false
	}
	panic("vs: pop on empty open channel")
}

// Send replaces ch <- v.
func (c *Chan[T]) Send(v T) {
	t := yield(pendingOp{kind: opSend, obj: core(c), val: v})
	if t.partner != nil {
		t.partner = nil
		return
	}
	if c.closed {
		panic("send on closed channel")
	}
	c.push(t, v)
}

// Recv replaces <-ch; Recv2 replaces v, ok := <-ch.
func (c *Chan[T]) Recv() T {
	v, _ := c.Recv2()
	return v
}

func (c *Chan[T]) Recv2() (T, bool) {
	t := yield(pendingOp{kind: opRecv, obj: core(c)})
	var zero T
	if t.partner != nil {
		t.partner = nil
		if t.recvVal == nil {
			return zero, t.recvOK
		}
		return t.recvVal.(T), t.recvOK
	}
	v, ok := c.pop(t)
	if !ok || v == nil {
		return zero, ok
	}
	return v.(T), ok
}

// Close replaces close(ch).
func (c *Chan[T]) Close() {
	t := yield(pendingOp{kind: opClose, obj: core(c)})
	if c == nil {
		panic("close of nil channel")
	}
	if c.closed {
		panic("close of closed channel")
	}
	c.closed = true
	c.closeVC = release(t)
}

// closeByClock closes the channel from a clock action (timers, context expiry).
func (c *Chan[T]) closeByClock() {
	if !c.closed {
		c.closed = true
		c.closeVC = release(nil)
	}
}

// SelCase is one case of a rewritten select statement.
type SelCase struct {
	c    chanCore
	send bool
	val  any
	popf func(t *thread) (any, bool)
	push func(t *thread, v any)
	clsd func() bool
}

// RecvCase / SendCase build select cases.
func RecvCase[T any](c *Chan[T]) SelCase {
	if c == nil {
		return SelCase{c: (*Chan[T])(nil)}
	}
	return SelCase{c: c, popf: c.pop}
}

func SendCase[T any](c *Chan[T], v T) SelCase {
	if c == nil {
		return SelCase{c: (*Chan[T])(nil), send: true}
	}
	return SelCase{c: c, send: true, val: v, push: c.push, clsd: func() bool { return c.closed }}
}

// Sel is the outcome of a select: I is the chosen case index (-1 = default).
type Sel struct {
	I  int
	V  any
	OK bool
}

// Select replaces a select statement. Cases are listed in source order.
func Select(hasDefault bool, cases ...SelCase) Sel {
	scs := make([]selCase, len(cases))
	for i, c := range cases {
		scs[i] = selCase{ch: c.c, send: c.send, val: c.val}
	}
	t := yield(pendingOp{kind: opSelect, cases: scs, deflt: hasDefault})
	i := t.selIdx
	if i < 0 {
		return Sel{I: -1}
	}
	c := cases[i]
	if t.partner != nil {
		t.partner = nil
		if c.send {
			return Sel{I: i}
		}
		return Sel{I: i, V: t.recvVal, OK: t.recvOK}
	}
	if c.send {
		if c.clsd() {
			panic("send on closed channel")
		}
		c.push(t, c.val)
		return Sel{I: i}
	}
	v, ok := c.popf(t)
	return Sel{I: i, V: v, OK: ok}
}

// Val extracts the received value of a select case with the channel's element type.
func Val[T any](_ *Chan[T], s Sel) T {
	var zero T
	if s.V == nil {
		return zero
	}
	return s.V.(T)
}

func (c *Chan[T]) String() string {
	if c == nil {
		return "chan(nil)"
	}
	return fmt.Sprintf("chan#%d(%s len=%d cap=%d closed=%v)", c.cid, c.name, len(c.buf), c.cap_, c.closed)
}

// InjectByClock appends v to the channel from a clock action or harness code
// without a scheduling point (the environment delivering a datagram).
func (c *Chan[T]) InjectByClock(v T) {
	c.buf = append(c.buf, item{v: v, vc: release(S.cur)})
}

// IsClosed / CloseNow are for harness code running inside a scheduled thread: closing without a
// scheduling point (an environment action observed by the code under test later).
func (c *Chan[T]) IsClosed() bool { return c.closed }
func (c *Chan[T]) CloseNow() {
	c.closed = true
	c.closeVC = release(S.cur)
}
