package vs

import (
	"context"
	"strings"
	"testing"
	"time"
)

// a ticker loop that is stopped ends; ticks arrive at multiples of the period
func TestTickerLoop(t *testing.T) {
	var got []int64
	body := func() {
		got = nil
		tk := NewTicker(3 * time.Millisecond)
		done := MakeChan[struct{}](0)
		GoNamed("stopper", func() { Sleep(10 * time.Millisecond); done.Close() })
	loop:
		for {
			switch s := Select(false, RecvCase(tk.C), RecvCase(done)); s.I {
			case 0:
				got = append(got, NowTicks()/int64(time.Millisecond))
			case 1:
				break loop
			}
		}
		tk.Stop()
	}
	r := Explore(ExploreCfg{Bound: 2, Check: check(func(ex *Exec) string {
		if len(got) != 3 || got[0] != 3 || got[1] != 6 || got[2] != 9 {
			return "ticks at wrong instants"
		}
		return ""
	})}, body)
	if r.Failure != nil {
		t.Fatalf("%s (got %v)", r.Failure.Msg, got)
	}
}

// an abandoned ticker neither keeps a finished execution alive nor hides a deadlock
func TestAbandonedTicker(t *testing.T) {
	r := Explore(ExploreCfg{Bound: 1, Check: check(func(ex *Exec) string {
		if ex.Horizon {
			return "horizon"
		}
		return ""
	})}, func() { NewTicker(time.Millisecond) })
	if r.Failure != nil {
		t.Fatal(r.Failure.Msg)
	}
	r = Explore(ExploreCfg{Bound: 1, Check: check(func(ex *Exec) string {
		if ex.Horizon {
			return "horizon"
		}
		return ""
	})}, func() { NewTicker(time.Millisecond); MakeChan[int](0).Recv() })
	if r.Failure == nil || !strings.Contains(r.Failure.Msg, "deadlock") {
		t.Fatalf("deadlock behind a ticker not reported: %+v", r.Failure)
	}
}

// condition variable: producer/consumer hand-off is correct under every schedule, a missing Signal deadlocks
func TestCond(t *testing.T) {
	mk := func(signal bool) func() {
		return func() {
			var mu Mutex
			c := NewCond(&mu)
			ready := false
			var wg WaitGroup
			wg.Add(2)
			GoNamed("cons", func() {
				mu.Lock()
				for !ready {
					c.Wait()
				}
				mu.Unlock()
				wg.Done()
			})
			GoNamed("prod", func() {
				mu.Lock()
				ready = true
				mu.Unlock()
				if signal {
					c.Broadcast()
				}
				wg.Done()
			})
			wg.Wait()
		}
	}
	if r := Explore(ExploreCfg{Bound: 2, Check: check(func(ex *Exec) string { return "" })}, mk(true)); r.Failure != nil {
		t.Fatal(r.Failure.Msg)
	}
	r := Explore(ExploreCfg{Bound: 2, Check: check(func(ex *Exec) string { return "" })}, mk(false))
	if r.Failure == nil || !strings.Contains(r.Failure.Msg, "deadlock") {
		t.Fatalf("lost wake-up not reported: %+v", r.Failure)
	}
}

// pool: an item handed back while another thread still uses it is a race on its contents
func TestPoolReuseRace(t *testing.T) {
	body := func() {
		p := &Pool{New: func() any { return new(int) }}
		var wg WaitGroup
		wg.Add(2)
		GoNamed("a", func() {
			b := p.Get().(*int)
			p.Put(b) // returned too early
			*b = 1
			W(b)
			wg.Done()
		})
		GoNamed("b", func() {
			b := p.Get().(*int)
			*b = 2
			W(b)
			p.Put(b)
			wg.Done()
		})
		wg.Wait()
	}
	r := Explore(ExploreCfg{Bound: 1, Check: check(func(ex *Exec) string { return "" })}, body)
	if r.Failure == nil || !strings.Contains(r.Failure.Msg, "data race") {
		t.Fatalf("race through a pooled buffer not reported: %+v", r.Failure)
	}
}

func TestCtxAfterFunc(t *testing.T) {
	ran := false
	body := func() {
		ran = false
		ctx, cancel := WithCancel(context.Background())
		done := MakeChan[struct{}](0)
		CtxAfterFunc(ctx, func() { ran = true; done.Close() })
		cancel()
		done.Recv()
	}
	r := Explore(ExploreCfg{Bound: 2, Check: check(func(ex *Exec) string {
		if !ran {
			return "after-func did not run"
		}
		return ""
	})}, body)
	if r.Failure != nil {
		t.Fatal(r.Failure.Msg)
	}
	// a context that never ends leaves no thread behind
	r = Explore(ExploreCfg{Bound: 1, Check: check(func(ex *Exec) string { return "" })}, func() {
		ctx, _ := WithCancel(context.Background())
		CtxAfterFunc(ctx, func() {})
	})
	if r.Failure != nil {
		t.Fatal(r.Failure.Msg)
	}
}

func TestSyncMap(t *testing.T) {
	body := func() {
		var m Map
		var wg WaitGroup
		wg.Add(2)
		for i := 0; i < 2; i++ {
			i := i
			GoNamed("w", func() { m.LoadOrStore("k", i); wg.Done() })
		}
		wg.Wait()
		n := 0
		m.Range(func(k, v any) bool { n++; return true })
		if n != 1 {
			panic("two entries for one key")
		}
	}
	if r := Explore(ExploreCfg{Bound: 2, Check: check(func(ex *Exec) string { return "" })}, body); r.Failure != nil {
		t.Fatal(r.Failure.Msg)
	}
}
