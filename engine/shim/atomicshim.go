package vs

import "unsafe"

// Same-name replacements for the sync/atomic functions and types. Every
// operation is a scheduling point and an acquire+release on the cell's clock.

func atomPoint(p unsafe.Pointer) { atomPointRW(p, true) }

func atomPointRW(p unsafe.Pointer, write bool) {
	t := yield(pendingOp{kind: opAtomic})
	// mixed atomic / plain accesses to the same word are data races: record the atomic access
	// in the shadow memory before the clocks are joined
	access(uintptr(p), p, write, kindAtomic)
	k := uintptr(p)
	v := S.atoms[k]
	if v == nil {
		v = &VC{}
		S.atoms[k] = v
		S.keep = append(S.keep, p)
	}
	acquire(t, *v)
	v.join(release(t))
}

func LoadUint32(p *uint32) uint32           { atomPointRW(unsafe.Pointer(p), false); return *p }
func LoadInt32(p *int32) int32              { atomPoint(unsafe.Pointer(p)); return *p }
func LoadUint64(p *uint64) uint64           { atomPointRW(unsafe.Pointer(p), false); return *p }
func LoadInt64(p *int64) int64              { atomPoint(unsafe.Pointer(p)); return *p }
func StoreUint32(p *uint32, v uint32)       { atomPoint(unsafe.Pointer(p)); *p = v }
func StoreInt32(p *int32, v int32)          { atomPoint(unsafe.Pointer(p)); *p = v }
func StoreUint64(p *uint64, v uint64)       { atomPoint(unsafe.Pointer(p)); *p = v }
func StoreInt64(p *int64, v int64)          { atomPoint(unsafe.Pointer(p)); *p = v }
func AddUint32(p *uint32, d uint32) uint32  { atomPoint(unsafe.Pointer(p)); *p += d; return *p }
func AddInt32(p *int32, d int32) int32      { atomPoint(unsafe.Pointer(p)); *p += d; return *p }
func AddUint64(p *uint64, d uint64) uint64  { atomPoint(unsafe.Pointer(p)); *p += d; return *p }
func AddInt64(p *int64, d int64) int64      { atomPoint(unsafe.Pointer(p)); *p += d; return *p }
func SwapUint32(p *uint32, v uint32) uint32 { atomPoint(unsafe.Pointer(p)); o := *p; *p = v; return o }
func SwapInt32(p *int32, v int32) int32     { atomPoint(unsafe.Pointer(p)); o := *p; *p = v; return o }
func SwapUint64(p *uint64, v uint64) uint64 { atomPoint(unsafe.Pointer(p)); o := *p; *p = v; return o }
func SwapInt64(p *int64, v int64) int64     { atomPoint(unsafe.Pointer(p)); o := *p; *p = v; return o }

func CompareAndSwapUint32(p *uint32, o, n uint32) bool {
	atomPoint(unsafe.Pointer(p))
	if *p == o {
		*p = n
		return true
	}
	return false
}
func CompareAndSwapInt32(p *int32, o, n int32) bool {
	atomPoint(unsafe.Pointer(p))
	if *p == o {
		*p = n
		return true
	}
	return false
}
func CompareAndSwapUint64(p *uint64, o, n uint64) bool {
	atomPoint(unsafe.Pointer(p))
	if *p == o {
		*p = n
		return true
	}
	return false
}
func CompareAndSwapInt64(p *int64, o, n int64) bool {
	atomPoint(unsafe.Pointer(p))
	if *p == o {
		*p = n
		return true
	}
	return false
}

// Typed atomics (sync/atomic.Bool, Int32, Uint32, Int64, Uint64, Value, Pointer).
type Bool struct{ v bool }

func (b *Bool) Load() bool   { atomPoint(unsafe.Pointer(b)); return b.v }
func (b *Bool) Store(v bool) { atomPoint(unsafe.Pointer(b)); b.v = v }
func (b *Bool) Swap(v bool) bool {
	atomPoint(unsafe.Pointer(b))
	o := b.v
	b.v = v
	return o
}
func (b *Bool) CompareAndSwap(o, n bool) bool {
	atomPoint(unsafe.Pointer(b))
	if b.v == o {
		b.v = n
		return true
	}
	return false
}

type Int32 struct{ v int32 }

func (x *Int32) Load() int32                    { return LoadInt32(&x.v) }
func (x *Int32) Store(v int32)                  { StoreInt32(&x.v, v) }
func (x *Int32) Add(d int32) int32              { return AddInt32(&x.v, d) }
func (x *Int32) Swap(v int32) int32             { return SwapInt32(&x.v, v) }
func (x *Int32) CompareAndSwap(o, n int32) bool { return CompareAndSwapInt32(&x.v, o, n) }

type Uint32 struct{ v uint32 }

func (x *Uint32) Load() uint32                    { return LoadUint32(&x.v) }
func (x *Uint32) Store(v uint32)                  { StoreUint32(&x.v, v) }
func (x *Uint32) Add(d uint32) uint32             { return AddUint32(&x.v, d) }
func (x *Uint32) Swap(v uint32) uint32            { return SwapUint32(&x.v, v) }
func (x *Uint32) CompareAndSwap(o, n uint32) bool { return CompareAndSwapUint32(&x.v, o, n) }

type Int64 struct{ v int64 }

func (x *Int64) Load() int64                    { return LoadInt64(&x.v) }
func (x *Int64) Store(v int64)                  { StoreInt64(&x.v, v) }
func (x *Int64) Add(d int64) int64              { return AddInt64(&x.v, d) }
func (x *Int64) Swap(v int64) int64             { return SwapInt64(&x.v, v) }
func (x *Int64) CompareAndSwap(o, n int64) bool { return CompareAndSwapInt64(&x.v, o, n) }

type Uint64 struct{ v uint64 }

func (x *Uint64) Load() uint64                    { return LoadUint64(&x.v) }
func (x *Uint64) Store(v uint64)                  { StoreUint64(&x.v, v) }
func (x *Uint64) Add(d uint64) uint64             { return AddUint64(&x.v, d) }
func (x *Uint64) Swap(v uint64) uint64            { return SwapUint64(&x.v, v) }
func (x *Uint64) CompareAndSwap(o, n uint64) bool { return CompareAndSwapUint64(&x.v, o, n) }

type Value struct{ v any }

func (x *Value) Load() any   { atomPoint(unsafe.Pointer(x)); return x.v }
func (x *Value) Store(v any) { atomPoint(unsafe.Pointer(x)); x.v = v }

type Pointer[T any] struct{ p *T }

func (x *Pointer[T]) Load() *T   { atomPoint(unsafe.Pointer(x)); return x.p }
func (x *Pointer[T]) Store(p *T) { atomPoint(unsafe.Pointer(x)); x.p = p }
func (x *Pointer[T]) Swap(p *T) *T {
	atomPoint(unsafe.Pointer(x))
	o := x.p
	x.p = p
	return o
}
func (x *Pointer[T]) CompareAndSwap(o, n *T) bool {
	atomPoint(unsafe.Pointer(x))
	if x.p == o {
		x.p = n
		return true
	}
	return false
}
