package vs

import (
	"fmt"
	"strings"
	"testing"
	"time"
)

func check(f func(ex *Exec) string) func(ex *Exec) (string, string) {
	return func(ex *Exec) (string, string) {
		if len(ex.Panics) > 0 {
			return "panic: " + ex.Panics[0], "panic"
		}
		if ex.Deadlock {
			return "deadlock: " + strings.Join(ex.Blocked, "; "), "deadlock"
		}
		if len(ex.Races) > 0 {
			return ex.Races[0], "race"
		}
		v := f(ex)
		return v, v
	}
}

// lost update: two threads do load; store(load+1) with atomics -> needs 1 preemption.
func TestLostUpdate(t *testing.T) {
	var final uint32
	body := func() {
		var x uint32
		var wg WaitGroup
		wg.Add(2)
		for i := 0; i < 2; i++ {
			GoNamed("inc", func() {
				v := LoadUint32(&x)
				StoreUint32(&x, v+1)
				wg.Done()
			})
		}
		wg.Wait()
		final = x
	}
	r0 := Explore(ExploreCfg{Bound: 0, Check: check(func(ex *Exec) string {
		if final != 2 {
			return fmt.Sprintf("lost update: x=%d", final)
		}
		return ""
	})}, body)
	if r0.Failure != nil {
		t.Fatalf("bound 0 must not find the lost update: %v", r0.Failure.Msg)
	}
	r1 := Explore(ExploreCfg{Bound: 1, Check: check(func(ex *Exec) string {
		if final != 2 {
			return fmt.Sprintf("lost update: x=%d", final)
		}
		return ""
	})}, body)
	if r1.Failure == nil || !strings.Contains(r1.Failure.Msg, "lost update") {
		t.Fatalf("bound 1 must find the lost update, got %+v", r1)
	}
	// replay reproduces
	for i := 0; i < 3; i++ {
		RunOnce(Config{}, r1.Failure.Choices, body)
		if final == 2 {
			t.Fatal("replay does not reproduce")
		}
	}
	t.Logf("bound0 execs=%d bound1 execs=%d choices=%v", r0.Executions, r1.Executions, r1.Failure.Choices)
}

// the same with a mutex is correct at bound 2, and has no race on the plain counter
func TestMutexCorrect(t *testing.T) {
	var final int
	body := func() {
		var mu Mutex
		x := 0
		var wg WaitGroup
		wg.Add(3)
		for i := 0; i < 3; i++ {
			GoNamed("inc", func() {
				mu.Lock()
				*RP(&x) = *RP(&x) + 1
				W(&x)
				mu.Unlock()
				wg.Done()
			})
		}
		wg.Wait()
		final = x
	}
	r := Explore(ExploreCfg{Bound: 2, Check: check(func(ex *Exec) string {
		if final != 3 {
			return "wrong"
		}
		return ""
	})}, body)
	if r.Failure != nil {
		t.Fatal(r.Failure.Msg)
	}
	t.Logf("execs=%d perbound=%v", r.Executions, r.PerBound)
}

// unsynchronised plain access is reported by the HB monitor even at bound 0
func TestRaceDetected(t *testing.T) {
	body := func() {
		x := 0
		var wg WaitGroup
		wg.Add(2)
		for i := 0; i < 2; i++ {
			GoNamed("w", func() {
				x++
				W(&x)
				wg.Done()
			})
		}
		wg.Wait()
	}
	r := Explore(ExploreCfg{Bound: 0, Check: check(func(ex *Exec) string { return "" })}, body)
	if r.Failure == nil || !strings.Contains(r.Failure.Msg, "data race") {
		t.Fatalf("race not reported: %+v", r)
	}
}

// lock-order inversion deadlock needs 1 preemption
func TestDeadlock(t *testing.T) {
	body := func() {
		var a, b Mutex
		var wg WaitGroup
		wg.Add(2)
		GoNamed("ab", func() { a.Lock(); b.Lock(); b.Unlock(); a.Unlock(); wg.Done() })
		GoNamed("ba", func() { b.Lock(); a.Lock(); a.Unlock(); b.Unlock(); wg.Done() })
		wg.Wait()
	}
	r0 := Explore(ExploreCfg{Bound: 0, Check: check(func(ex *Exec) string { return "" })}, body)
	if r0.Failure != nil {
		t.Fatal("bound 0 should pass: " + r0.Failure.Msg)
	}
	r1 := Explore(ExploreCfg{Bound: 1, Check: check(func(ex *Exec) string { return "" })}, body)
	if r1.Failure == nil || !strings.Contains(r1.Failure.Msg, "deadlock") {
		t.Fatalf("deadlock not found: %+v", r1)
	}
}

// channels: buffered, unbuffered rendezvous, close, select with timer, virtual time
func TestChannelsAndTime(t *testing.T) {
	var got []int
	var when int64
	var sel []int
	body := func() {
		got, sel = nil, nil
		c := MakeChan[int](0)
		d := MakeChan[int](2)
		var wg WaitGroup
		wg.Add(1)
		GoNamed("prod", func() {
			for i := 1; i <= 3; i++ {
				c.Send(i)
			}
			c.Close()
			d.Send(7)
			wg.Done()
		})
		for {
			v, ok := c.Recv2()
			if !ok {
				break
			}
			got = append(got, v)
		}
		wg.Wait()
		tm := After(5 * time.Second)
		s := Select(false, RecvCase(tm), RecvCase(d))
		sel = append(sel, s.I)
		if s.I == 1 && Val(d, s) != 7 {
			panic("bad value")
		}
		s = Select(false, RecvCase(tm), RecvCase(d))
		sel = append(sel, s.I)
		when = NowTicks()
		s = Select(true, RecvCase(d))
		sel = append(sel, s.I)
	}
	r := Explore(ExploreCfg{Bound: 2, Check: check(func(ex *Exec) string {
		if fmt.Sprint(got) != "[1 2 3]" {
			return fmt.Sprint("got ", got)
		}
		if fmt.Sprint(sel) != "[1 0 -1]" || when != int64(5*time.Second) {
			return fmt.Sprint("sel ", sel, " when ", when)
		}
		return ""
	})}, body)
	if r.Failure != nil {
		t.Fatal(r.Failure.Msg, r.Failure.Choices)
	}
	t.Logf("execs=%d states=%d", r.Executions, len(r.States))
}

// a select with two ready cases explores both without preemptions
func TestSelectBothExplored(t *testing.T) {
	seen := map[int]bool{}
	body := func() {
		a := MakeChan[int](1)
		b := MakeChan[int](1)
		a.Send(1)
		b.Send(2)
		s := Select(false, RecvCase(a), RecvCase(b))
		seen[s.I] = true
	}
	Explore(ExploreCfg{Bound: 0, Check: check(func(ex *Exec) string { return "" })}, body)
	if !seen[0] || !seen[1] {
		t.Fatalf("select alternatives not explored: %v", seen)
	}
}

// simultaneous events: both orders explored at bound 0
func TestSimultaneousEvents(t *testing.T) {
	orders := map[string]bool{}
	body := func() {
		a := After(10)
		b := After(10)
		s1 := Select(false, RecvCase(a), RecvCase(b))
		orders[fmt.Sprint(s1.I)] = true
	}
	Explore(ExploreCfg{Bound: 0, Check: check(func(ex *Exec) string { return "" })}, body)
	if len(orders) != 2 {
		t.Fatalf("event orders: %v", orders)
	}
}

// leaked thread blocked forever is reported
func TestLeak(t *testing.T) {
	body := func() {
		c := MakeChan[int](0)
		Go(func() { c.Recv() })
	}
	ex := RunOnce(Config{}, nil, body)
	if !ex.Deadlock || len(ex.LeakedTh) != 1 {
		t.Fatalf("leak not reported: %+v", ex)
	}
}

func BenchmarkExec(b *testing.B) {
	body := func() {
		var mu Mutex
		var wg WaitGroup
		wg.Add(2)
		for i := 0; i < 2; i++ {
			GoNamed("w", func() {
				for k := 0; k < 10; k++ {
					mu.Lock()
					mu.Unlock()
				}
				wg.Done()
			})
		}
		wg.Wait()
	}
	for i := 0; i < b.N; i++ {
		RunOnce(Config{}, nil, body)
	}
}

// a plain read racing with an atomic write is reported; atomic vs atomic is not
func TestMixedAtomicPlainRace(t *testing.T) {
	body := func(plain bool) func() {
		return func() {
			var x uint32
			var wg WaitGroup
			wg.Add(2)
			GoNamed("w", func() { StoreUint32(&x, 1); wg.Done() })
			GoNamed("r", func() {
				if plain {
					_ = *RP(&x)
				} else {
					_ = LoadUint32(&x)
				}
				wg.Done()
			})
			wg.Wait()
		}
	}
	r := Explore(ExploreCfg{Bound: 1, Check: check(func(ex *Exec) string { return "" })}, body(true))
	if r.Failure == nil || !strings.Contains(r.Failure.Msg, "data race") {
		t.Fatalf("mixed atomic/plain race not reported: %+v", r)
	}
	r = Explore(ExploreCfg{Bound: 1, Check: check(func(ex *Exec) string { return "" })}, body(false))
	if r.Failure != nil {
		t.Fatalf("atomic/atomic wrongly reported: %v", r.Failure.Msg)
	}
}
