// Package vs is the verification shim: a cooperative scheduler that owns every
// source of nondeterminism of the code rewritten onto it (goroutine scheduling,
// select choice, channels, mutexes, wait groups, atomics, timers, the clock,
// context cancellation), a virtual clock, a vector-clock happens-before race
// monitor and a stateless preemption-bounded DFS explorer.
//
// Exactly one logical thread runs at a time. Before every visible operation a
// thread publishes the operation it is about to perform and calls schedule();
// the scheduler computes the enabled set and picks one (thread, alternative).
package vs

import (
	"fmt"
	"sync/atomic"
	"time"
	"runtime/debug"
	"sort"
	"strings"
	"sync"
)

type opKind uint8

const (
	opNone opKind = iota
	opStart
	opResume // operation already completed by a partner (rendezvous); just continue
	opLock
	opRLock
	opSend
	opRecv
	opClose
	opSelect
	opWGWait
	opAtomic
	opYield
	opIO
	opOnce
	opCondWait
)

var opNames = [...]string{"none", "start", "resume", "lock", "rlock", "send", "recv", "close", "select", "wgwait", "atomic", "yield", "io", "once", "condwait"}

func (k opKind) String() string { return opNames[k] }

type selCase struct {
	ch   chanCore
	send bool
	val  any
}

type pendingOp struct {
	kind  opKind
	obj   any // *Mutex, chanCore, *WaitGroup, ...
	cases []selCase
	deflt bool
	val   any    // value to send
	label string // for logs
}

type thread struct {
	id       int
	name     string
	wake     chan struct{}
	op       pendingOp
	finished bool
	parked   bool
	vc       VC
	// results handed over by the scheduler
	selIdx  int  // chosen select case (or -1 for default)
	recvVal any  // value received
	recvOK  bool // false if channel closed
	partner *thread
	panicV  any
	panicSt string
	spawned bool // spawned by code under test (not by the harness)
	daemon  bool // not a goroutine of its own in real Go (e.g. a context.AfterFunc registration): ignored at the end while blocked
}

// abortSentinel is the panic value used to unwind parked threads at the end of an execution.
type abortSentinel struct{}

type event struct {
	at    int64
	seq   int
	fire  func()
	label string
	vc    VC
	dead  bool
	idle  func() bool // non-nil for periodic events (tickers): true when firing would change nothing
}

// Point is one recorded scheduling decision with more than one alternative.
type Point struct {
	N      int    // number of alternatives
	Chosen int    // index taken
	Costs  []int8 // preemption cost of each alternative (0/1)
	Sig    uint64 // signature of the alternative list (divergence check)
	Step   int
}

// Exec is everything observed in one execution.
type Exec struct {
	Choices     []int
	Points      []Point
	Steps       int
	Deadlock    bool
	Horizon     bool
	Blocked     []string // blocked thread descriptions at the end (deadlock / leak)
	Panics      []string
	Races       []string
	Log         []LogEntry
	StateHashes map[uint64]struct{}
	Diverged    string
	EndTime     int64
	LeakedTh    []string // threads spawned by code under test still alive at the end
}

type LogEntry struct {
	Step int
	T    int64
	Th   int
	What string
}

type sched struct {
	threads     []*thread
	cur         *thread // thread holding the baton (nil = clock)
	curIsClock  bool
	now         int64
	events      []*event
	evSeq       int
	step        int
	maxSteps    int
	prefix      []int
	pos         int // number of recorded points so far
	ex          *Exec
	aborting    bool
	ended       bool
	endOnce     sync.Once
	done        chan struct{}
	live        sync.WaitGroup
	objSeq      int
	shadow      map[uintptr]*shadowCell
	keep        []any
	trackStates bool
	logOn       bool
	userData    any
	mainDone    bool
	atoms       map[uintptr]*VC
	sites       bool
}

// S is the scheduler of the execution in progress (one execution at a time per process).
var S *sched

func cur() *thread {
	if S == nil {
		panic("vs: shim operation outside a controlled execution")
	}
	if S.aborting {
		panic(abortSentinel{})
	}
	return S.cur
}

// Logf appends to the execution log (harness observations carry step and virtual time).
func Logf(format string, a ...any) {
	if S == nil || S.aborting {
		return
	}
	id := -1
	if S.cur != nil {
		id = S.cur.id
	}
	S.ex.Log = append(S.ex.Log, LogEntry{S.step, S.now, id, fmt.Sprintf(format, a...)})
}

// Step returns the global step counter; NowTicks the virtual instant.
func Step() int       { return S.step }
func NowTicks() int64 { return S.now }
func ThreadID() int {
	if S == nil || S.cur == nil {
		return -1
	}
	return S.cur.id
}

type choice struct {
	th      *thread // nil = clock
	alt     int     // select case / event index / partner selector
	partner *thread
	pcase   int
	ev      *event
}

func (s *sched) chanReadyRecv(c chanCore, self *thread) (bool, []*thread) {
	if c == nil || c.isNil() {
		return false, nil
	}
	if c.length() > 0 || c.isClosed() {
		return true, nil
	}
	if c.capacity() == 0 {
		var ps []*thread
		for _, u := range s.threads {
			if u == self || u.finished || !u.parked {
				continue
			}
			if u.op.kind == opSend && u.op.obj.(chanCore) == c {
				ps = append(ps, u)
			} else if u.op.kind == opSelect {
				for _, sc := range u.op.cases {
					if sc.send && sc.ch == c {
						ps = append(ps, u)
						break
					}
				}
			}
		}
		return len(ps) > 0, ps
	}
	return false, nil
}

func (s *sched) chanReadySend(c chanCore, self *thread) (bool, []*thread) {
	if c == nil || c.isNil() {
		return false, nil
	}
	if c.isClosed() {
		return true, nil // will panic, as in Go
	}
	if c.capacity() > 0 {
		return c.length() < c.capacity(), nil
	}
	var ps []*thread
	for _, u := range s.threads {
		if u == self || u.finished || !u.parked {
			continue
		}
		if u.op.kind == opRecv && u.op.obj.(chanCore) == c {
			ps = append(ps, u)
		} else if u.op.kind == opSelect {
			for _, sc := range u.op.cases {
				if !sc.send && sc.ch == c {
					ps = append(ps, u)
					break
				}
			}
		}
	}
	return len(ps) > 0, ps
}

// choicesFor lists the enabled alternatives of thread t.
func (s *sched) choicesFor(t *thread, out []choice) []choice {
	op := &t.op
	switch op.kind {
	case opStart, opResume, opAtomic, opYield, opIO, opClose:
		out = append(out, choice{th: t})
	case opLock:
		if op.obj.(lockable).canLock(t) {
			out = append(out, choice{th: t})
		}
	case opRLock:
		if op.obj.(*RWMutex).canRLock() {
			out = append(out, choice{th: t})
		}
	case opOnce:
		if !op.obj.(*Once).running {
			out = append(out, choice{th: t})
		}
	case opWGWait:
		if op.obj.(*WaitGroup).n == 0 {
			out = append(out, choice{th: t})
		}
	case opCondWait:
		// never enabled until signalled (signal turns the op into opResume)
	case opRecv:
		ok, ps := s.chanReadyRecv(op.obj.(chanCore), t)
		if ok {
			if len(ps) == 0 {
				out = append(out, choice{th: t})
			}
			for _, p := range ps {
				out = append(out, choice{th: t, partner: p})
			}
		}
	case opSend:
		ok, ps := s.chanReadySend(op.obj.(chanCore), t)
		if ok {
			if len(ps) == 0 {
				out = append(out, choice{th: t})
			}
			for _, p := range ps {
				out = append(out, choice{th: t, partner: p})
			}
		}
	case opSelect:
		n0 := len(out)
		for i, sc := range op.cases {
			var ok bool
			var ps []*thread
			if sc.send {
				ok, ps = s.chanReadySend(sc.ch, t)
			} else {
				ok, ps = s.chanReadyRecv(sc.ch, t)
			}
			if !ok {
				continue
			}
			if len(ps) == 0 {
				out = append(out, choice{th: t, alt: i})
			}
			for _, p := range ps {
				out = append(out, choice{th: t, alt: i, partner: p})
			}
		}
		if len(out) == n0 && op.deflt {
			out = append(out, choice{th: t, alt: -1})
		}
	}
	return out
}

func (s *sched) dueEvents() []*event {
	var d []*event
	for _, e := range s.events {
		if !e.dead && e.at <= s.now {
			d = append(d, e)
		}
	}
	return d
}

func (s *sched) addEvent(at int64, label string, fire func()) *event {
	if at < s.now {
		at = s.now
	}
	s.evSeq++
	e := &event{at: at, seq: s.evSeq, fire: fire, label: label}
	if s.cur != nil {
		e.vc = s.cur.vc.clone()
	}
	// keep sorted by (at, seq)
	i := sort.Search(len(s.events), func(i int) bool {
		x := s.events[i]
		return x.at > at || (x.at == at && x.seq > e.seq)
	})
	s.events = append(s.events, nil)
	copy(s.events[i+1:], s.events[i:])
	s.events[i] = e
	return e
}

// liveEvents: is there a pending event that can still change something? Periodic events whose
// tick would be dropped (ticker channel already full) do not count: with only those left, and
// no thread enabled, the state is a fixed point (every later instant looks the same).
func (s *sched) liveEvents() bool {
	for _, e := range s.events {
		if !e.dead && (e.idle == nil || !e.idle()) {
			return true
		}
	}
	return false
}

func (s *sched) removeDead() {
	j := 0
	for _, e := range s.events {
		if !e.dead {
			s.events[j] = e
			j++
		}
	}
	for k := j; k < len(s.events); k++ {
		s.events[k] = nil
	}
	s.events = s.events[:j]
}

func (s *sched) describe(t *thread) string {
	d := fmt.Sprintf("T%d(%s) blocked in %s", t.id, t.name, t.op.kind)
	if t.op.label != "" {
		d += "[" + t.op.label + "]"
	}
	return d
}

// schedule is called by the thread holding the baton after it published its
// pending op (or finished). It returns when that thread has been chosen again.
func (s *sched) schedule(me *thread) {
	if s.aborting {
		panic(abortSentinel{})
	}
	var buf [16]choice
	for {
		s.step++
		if s.step > s.maxSteps {
			s.ex.Horizon = true
			s.endExecution(me)
			return
		}
		// environment events that are due fire at once, atomically and in (instant, seq)
		// order: each only makes channels ready, so their mutual order is unobservable;
		// what the woken threads do next is explored by the thread choices below.
		for {
			due := s.dueEvents()
			if len(due) == 0 {
				break
			}
			for _, e := range due {
				e.dead = true
				prev := s.cur
				s.cur = nil
				if s.logOn {
					s.ex.Log = append(s.ex.Log, LogEntry{s.step, s.now, -1, "event " + e.label})
				}
				evVC = e.vc
				e.fire()
				evVC = nil
				s.cur = prev
			}
			s.removeDead()
		}
		// canonical order: running thread first, then ascending ids
		chs := buf[:0]
		curEnabled := false
		if me != nil && !me.finished && !s.curIsClock {
			n := len(chs)
			chs = s.choicesFor(me, chs)
			curEnabled = len(chs) > n
		}
		for _, t := range s.threads {
			if t.finished {
				continue
			}
			if t == me {
				if !s.curIsClock {
					continue // already listed first
				}
			} else if !t.parked {
				continue
			}
			chs = s.choicesFor(t, chs)
		}
		if len(chs) == 0 {
			// quiescent: advance virtual time or end
			s.removeDead()
			if s.liveEvents() {
				s.now = s.events[0].at
				s.curIsClock = true
				continue
			}
			allDone := true
			for _, t := range s.threads {
				if !t.finished && !t.daemon {
					allDone = false
					s.ex.Blocked = append(s.ex.Blocked, s.describe(t))
					if t.spawned {
						s.ex.LeakedTh = append(s.ex.LeakedTh, s.describe(t))
					}
				}
			}
			if !allDone {
				s.ex.Deadlock = true
			}
			s.endExecution(me)
			return
		}
		idx := 0
		if len(chs) > 1 {
			// recorded decision point
			var costs []int8
			var sig uint64 = 1469598103934665603
			for _, c := range chs {
				var cost int8
				if curEnabled && !s.curIsClock && c.th != me {
					cost = 1
				}
				costs = append(costs, cost)
				id := uint64(255)
				k := uint64(0)
				if c.th != nil {
					id = uint64(c.th.id)
					k = uint64(c.th.op.kind)
				}
				sig = (sig ^ (id<<16 | k<<8 | uint64(uint8(c.alt)))) * 1099511628211
			}
			if s.pos < len(s.prefix) {
				idx = s.prefix[s.pos]
				if idx >= len(chs) {
					s.ex.Diverged = fmt.Sprintf("replay divergence at point %d: choice %d of %d alternatives", s.pos, idx, len(chs))
					s.endExecution(me)
					return
				}
			}
			s.ex.Points = append(s.ex.Points, Point{N: len(chs), Chosen: idx, Costs: costs, Sig: sig, Step: s.step})
			s.ex.Choices = append(s.ex.Choices, idx)
			s.pos++
		}
		c := chs[idx]
		if s.trackStates {
			s.ex.StateHashes[s.stateHash()] = struct{}{}
		}
		t := c.th
		s.curIsClock = false
		s.apply(t, c)
		if t == me {
			s.cur = me
			return
		}
		// hand the baton over
		s.cur = t
		t.parked = false
		if me != nil && !me.finished {
			me.parked = true
			t.wake <- struct{}{}
			<-me.wake
			if s.aborting {
				panic(abortSentinel{})
			}
			return
		}
		t.wake <- struct{}{}
		return
	}
}

// apply performs the scheduler-side part of the chosen operation (partner hand-over, select index).
func (s *sched) apply(t *thread, c choice) {
	op := &t.op
	if op.kind == opResume {
		return // completed earlier by a rendezvous partner; results already handed over
	}
	t.partner = nil
	switch op.kind {
	case opSelect:
		t.selIdx = c.alt
		if c.partner != nil {
			sc := op.cases[c.alt]
			s.rendezvous(t, sc.ch, sc.send, sc.val, c.partner)
		}
	case opSend:
		if c.partner != nil {
			s.rendezvous(t, op.obj.(chanCore), true, op.val, c.partner)
		}
	case opRecv:
		if c.partner != nil {
			s.rendezvous(t, op.obj.(chanCore), false, nil, c.partner)
		}
	}
}

// rendezvous completes an unbuffered channel operation of t with partner p: p's
// operation is completed on its behalf and turned into opResume.
func (s *sched) rendezvous(t *thread, ch chanCore, tSends bool, val any, p *thread) {
	t.partner = p
	var v any
	pi := -1
	if p.op.kind == opSelect {
		for i, sc := range p.op.cases {
			if sc.ch == ch && sc.send != tSends {
				pi = i
				if sc.send {
					v = sc.val
				}
				break
			}
		}
		p.selIdx = pi
	} else if p.op.kind == opSend {
		v = p.op.val
	}
	if tSends {
		p.recvVal, p.recvOK = val, true
	} else {
		t.recvVal, t.recvOK = v, true
	}
	// unbuffered: both directions synchronise
	j := t.vc.clone()
	j.join(p.vc)
	t.vc = j.clone()
	p.vc = j
	t.vc.tick(t.id)
	p.vc.tick(p.id)
	p.op = pendingOp{kind: opResume, label: "rendezvous"}
	p.partner = t
}

func (s *sched) endExecution(me *thread) {
	s.ended = true
	s.ex.Steps = s.step
	s.ex.EndTime = s.now
	s.aborting = true
	for _, t := range s.threads {
		if t != me && !t.finished && t.parked {
			t.parked = false
			select {
			case t.wake <- struct{}{}:
			default:
			}
		}
	}
	close(s.done)
	if me != nil && !me.finished {
		panic(abortSentinel{})
	}
}

func (s *sched) stateHash() uint64 {
	var h uint64 = 1469598103934665603
	mix := func(x uint64) { h = (h ^ x) * 1099511628211 }
	for _, t := range s.threads {
		if t.finished {
			mix(0xff)
			continue
		}
		mix(uint64(t.op.kind) + 1)
		if c, ok := t.op.obj.(chanCore); ok && c != nil && !c.isNil() {
			mix(uint64(c.id())<<8 | uint64(c.length())<<1 | b2u(c.isClosed()))
		}
		if m, ok := t.op.obj.(*Mutex); ok {
			mix(uint64(m.id))
		}
	}
	mix(uint64(s.now))
	mix(uint64(len(s.events)))
	return h
}

func b2u(b bool) uint64 {
	if b {
		return 1
	}
	return 0
}

// yield publishes op for the current thread and reschedules.
func yield(op pendingOp) *thread {
	t := cur()
	t.op = op
	S.schedule(t)
	return t
}

func (s *sched) newThread(name string, spawned bool, f func()) *thread {
	t := &thread{id: len(s.threads), name: name, wake: make(chan struct{}, 1), spawned: spawned, parked: true}
	t.op = pendingOp{kind: opStart}
	if s.cur != nil {
		t.vc = s.cur.vc.clone()
		s.cur.vc.tick(s.cur.id)
	}
	t.vc.tick(t.id)
	s.threads = append(s.threads, t)
	s.live.Add(1)
	go func() {
		defer s.live.Done()
		<-t.wake
		if s.aborting {
			return
		}
		defer func() {
			r := recover()
			if _, ok := r.(abortSentinel); ok {
				return
			}
			if s.aborting {
				return
			}
			if r != nil {
				t.panicV = r
				st := shortStack(string(debug.Stack()))
				s.ex.Panics = append(s.ex.Panics, fmt.Sprintf("T%d(%s) panicked: %v at %s", t.id, t.name, r, st))
			}
			t.finished = true
			t.op = pendingOp{}
			// exit edge for joins is carried by WaitGroup.Done; nothing else to do
			func() {
				defer func() {
					if r := recover(); r != nil {
						if _, ok := r.(abortSentinel); !ok {
							panic(r)
						}
					}
				}()
				s.schedule(t)
			}()
		}()
		f()
	}()
	return t
}

func shortStack(st string) string {
	lines := strings.Split(st, "\n")
	var out []string
	for _, l := range lines {
		l = strings.TrimSpace(l)
		if strings.HasPrefix(l, "/") && !strings.Contains(l, "/verifshim/") && !strings.Contains(l, "/runtime/") && !strings.Contains(l, "engine/shim") {
			if i := strings.LastIndex(l, " +0x"); i > 0 {
				l = l[:i]
			}
			out = append(out, l)
			if len(out) >= 6 {
				break
			}
		}
	}
	return strings.Join(out, " <- ")
}

// Go spawns a thread on behalf of the code under test.
func Go(f func()) {
	cur()
	S.newThread("go", true, f)
}

// GoNamed spawns a harness thread (not counted as "left behind by the code under test").
func GoNamed(name string, f func()) {
	cur()
	S.newThread(name, false, f)
}

// Yield is an explicit scheduling point.
func Yield() { yield(pendingOp{kind: opYield}) }

// IOPoint is a scheduling point for an environment interaction (e.g. a WriteTo).
func IOPoint(label string) { yield(pendingOp{kind: opIO, label: label}) }

// Config of one execution.
type Config struct {
	MaxSteps    int
	TrackStates bool
	Log         bool
	Sites       bool // capture source locations of accesses (slow; used when re-running a failing schedule)
}

// execStart is the wall-clock instant (unix nanoseconds) at which the execution in progress began, 0 between
// executions: lets the harness notice an execution that never ends because the code under test spins without
// reaching a synchronisation operation (the step horizon only counts scheduling points).
var execStart atomic.Int64

// ExecRunningSince returns when the execution in progress started (zero time if none).
func ExecRunningSince() int64 { return execStart.Load() }

// RunOnce runs body as thread 0 under the scheduler, following prefix then default choices.
func RunOnce(cfg Config, prefix []int, body func()) *Exec {
	execStart.Store(time.Now().UnixNano())
	defer execStart.Store(0)
	s := &sched{prefix: prefix, maxSteps: cfg.MaxSteps, done: make(chan struct{}), ex: &Exec{StateHashes: map[uint64]struct{}{}},
		shadow: map[uintptr]*shadowCell{}, atoms: map[uintptr]*VC{}, trackStates: cfg.TrackStates, logOn: cfg.Log, sites: cfg.Sites}
	if s.maxSteps == 0 {
		s.maxSteps = 20000
	}
	S = s
	t := s.newThread("main", false, body)
	s.cur = t
	t.parked = false
	t.wake <- struct{}{}
	<-s.done
	s.live.Wait()
	S = nil
	return s.ex
}
