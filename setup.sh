#!/bin/bash
# Build everything from files on disk (offline) and warm the Go build cache.
set -e
cd "$(dirname "$0")"
export GOFLAGS=-mod=mod GOPROXY=off GOSUMDB=off GOTOOLCHAIN=local
mkdir -p .work/bin evidence replays
cp /repo/go.sum seq/go.sum
(cd seq && go build -o ../.work/bin/seqmc.setup ./cmd/seqmc && rm -f ../.work/bin/seqmc.setup)
if [ -x conc/setup.sh ]; then conc/setup.sh; fi
echo setup ok
