#!/bin/bash
# Build everything from files on disk (offline) and warm the Go build cache.
set -e
cd "$(dirname "$0")"
ROOT=$(pwd)
export GOFLAGS=-mod=mod GOPROXY=off GOSUMDB=off GOTOOLCHAIN=local
mkdir -p .work/bin evidence replays
cp /repo/go.sum seq/go.sum
cp /repo/go.sum conc/go.sum
(cd seq && go build -o "$ROOT/.work/bin/seqmc.setup" ./cmd/seqmc && rm -f "$ROOT/.work/bin/seqmc.setup")
(cd engine/instrument && go build -o "$ROOT/.work/bin/instrument" .)
W="$ROOT/.work/setup.$$"
mkdir -p "$W"
"$ROOT/.work/bin/instrument" -repo /repo -shim "$ROOT/engine/shim" -out "$W/inst" dhcpv4/nclient4 dhcpv6/nclient6 dhcpv4/server4 dhcpv6/server6
(cd conc && go build -overlay "$W/inst/overlay.json" -o "$W/schedmc" .)
(cd engine/shim && go test -count=1 . >/dev/null)
rm -rf "$W"
echo setup ok
