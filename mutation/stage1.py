#!/usr/bin/env python3
"""stage 1 of the mutation campaign: which one-token mutants does the repository's own test suite let through?
usage: stage1.py <mutants dir (from mutgen, one sub-directory per source file)> <out.tsv> [parallel jobs]
Uses go's -overlay: /repo is never modified."""
import json, os, subprocess, sys, glob, tempfile
from concurrent.futures import ThreadPoolExecutor
root, out = sys.argv[1], sys.argv[2]
jobs = int(sys.argv[3]) if len(sys.argv) > 3 else 6
env = dict(os.environ, GOFLAGS="-mod=mod", GOPROXY="off", GOSUMDB="off", GOTOOLCHAIN="local")
done = set()
if os.path.exists(out):
    for l in open(out):
        p = l.split("\t")
        done.add((p[0], p[1]))
tasks = []
for d in sorted(glob.glob(root + "/*/")):
    name = os.path.basename(d.rstrip("/"))
    idx = os.path.join(d, "index.tsv")
    if not os.path.exists(idx):
        continue
    for l in open(idx):
        n, line, col, op, detail = l.rstrip("\n").split("\t")
        if (name, n) not in done:
            tasks.append((name, n, line, col, op, detail))
def srcpath(name):
    # dhcpv4_nclient4_client.go -> dhcpv4/nclient4/client.go (directories never contain '_', file names may)
    parts = name.split("_")
    for k in range(len(parts) - 1, 0, -1):
        cand = "/".join(parts[:k]) + "/" + "_".join(parts[k:])
        if os.path.exists("/repo/" + cand):
            return cand
    raise SystemExit("cannot map " + name)
def run(t):
    name, n, line, col, op, detail = t
    src = srcpath(name)
    with tempfile.NamedTemporaryFile("w", suffix=".json", delete=False) as f:
        json.dump({"Replace": {"/repo/" + src: os.path.join(root, name, n + ".go")}}, f)
        ov = f.name
    try:
        pkg = "./" + os.path.dirname(src) + "/"
        r = subprocess.run(["go", "build", "-overlay", ov, "./..."], cwd="/repo", env=env, capture_output=True, text=True)
        if r.returncode != 0:
            return t, "nobuild"
        r = subprocess.run(["go", "test", "-overlay", ov, "-vet=off", "-count=1", "-timeout", "90s", pkg], cwd="/repo", env=env, capture_output=True, text=True, timeout=600)
        if r.returncode != 0:
            return t, "killed-pkg"
        if os.environ.get("MUT_FULL_SUITE"):
            # the whole suite (tests of dependent packages); by default only applied later, to mutants no check reports
            r = subprocess.run(["go", "test", "-overlay", ov, "-vet=off", "-count=1", "./..."], cwd="/repo", env=env, capture_output=True, text=True, timeout=1200)
            if r.returncode != 0:
                return t, "killed-suite"
        return t, "survives"
    except subprocess.TimeoutExpired:
        return t, "killed-timeout"
    finally:
        os.unlink(ov)
with ThreadPoolExecutor(jobs) as ex, open(out, "a") as o:
    for t, verdict in ex.map(run, tasks):
        o.write("\t".join(t) + "\t" + verdict + "\n")
        o.flush()
print("done")
