module verif/mutation/mutgen

go 1.21
