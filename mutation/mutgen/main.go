// mutgen enumerates one-token mutants of a Go source file (a mechanical complement to the hand-written and
// sub-agent-written property-breaking changes): relational / arithmetic / logical operator replacement, integer
// literal +-1, negated if-conditions, deleted statements. Functions whose only job is printing are skipped.
//
// usage: mutgen -file <path> -out <dir> [-list]    writes <dir>/<n>.go and <dir>/index.tsv (n, line, col, operator, detail)
package main

import (
	"bytes"
	"flag"
	"fmt"
	"go/ast"
	"go/parser"
	"go/printer"
	"go/token"
	"os"
	"path/filepath"
	"strconv"
)

var skipFuncs = map[string]bool{"String": true, "Summary": true, "LongString": true, "Error": true, "GoString": true, "Printf": true, "PrintMessage": true}

type site struct {
	apply  func()
	undo   func()
	pos    token.Pos
	op     string
	detail string
}

func main() {
	file := flag.String("file", "", "source file")
	out := flag.String("out", "", "output directory")
	flag.Parse()
	fset := token.NewFileSet()
	f, err := parser.ParseFile(fset, *file, nil, parser.ParseComments)
	if err != nil {
		fmt.Fprintln(os.Stderr, err)
		os.Exit(2)
	}
	var sites []site
	rel := map[token.Token][]token.Token{token.LSS: {token.LEQ}, token.LEQ: {token.LSS}, token.GTR: {token.GEQ}, token.GEQ: {token.GTR},
		token.EQL: {token.NEQ}, token.NEQ: {token.EQL}, token.ADD: {token.SUB}, token.SUB: {token.ADD}, token.LAND: {token.LOR}, token.LOR: {token.LAND},
		token.SHL: {token.SHR}, token.SHR: {token.SHL}, token.AND: {token.OR}, token.OR: {token.AND}}
	for _, d := range f.Decls {
		fd, ok := d.(*ast.FuncDecl)
		if !ok || fd.Body == nil || skipFuncs[fd.Name.Name] {
			continue
		}
		var inErrorf int
		var visit func(n ast.Node) bool
		visit = func(n ast.Node) bool {
			switch x := n.(type) {
			case *ast.CallExpr:
				// arguments of fmt.Errorf / logger calls are messages, not behaviour
				if se, ok := x.Fun.(*ast.SelectorExpr); ok && (se.Sel.Name == "Errorf" || se.Sel.Name == "Printf" || se.Sel.Name == "Sprintf" || se.Sel.Name == "PrintMessage" || se.Sel.Name == "New" && isIdent(se.X, "errors")) {
					inErrorf++
					for _, a := range x.Args {
						ast.Inspect(a, visit)
					}
					inErrorf--
					return false
				}
			case *ast.BinaryExpr:
				if inErrorf == 0 {
					if alts, ok := rel[x.Op]; ok {
						if x.Op == token.ADD && isString(x) {
							break
						}
						for _, alt := range alts {
							x, orig, alt := x, x.Op, alt
							sites = append(sites, site{func() { x.Op = alt }, func() { x.Op = orig }, x.OpPos, "binop", orig.String() + " -> " + alt.String()})
						}
					}
				}
			case *ast.BasicLit:
				if inErrorf == 0 && x.Kind == token.INT {
					if v, err := strconv.ParseInt(x.Value, 0, 64); err == nil {
						for _, dlt := range []int64{1, -1} {
							if v+dlt < 0 {
								continue
							}
							x, orig, nv := x, x.Value, strconv.FormatInt(v+dlt, 10)
							sites = append(sites, site{func() { x.Value = nv }, func() { x.Value = orig }, x.Pos(), "intlit", orig + " -> " + nv})
						}
					}
				}
			case *ast.IfStmt:
				if inErrorf == 0 {
					x, orig := x, x.Cond
					sites = append(sites, site{func() { x.Cond = &ast.UnaryExpr{Op: token.NOT, X: &ast.ParenExpr{X: orig}} }, func() { x.Cond = orig }, x.Cond.Pos(), "negate-if", ""})
				}
			case *ast.BlockStmt:
				for i, st := range x.List {
					switch s := st.(type) {
					case *ast.ExprStmt, *ast.IncDecStmt:
						_ = s
					case *ast.AssignStmt:
						if s.Tok == token.DEFINE {
							continue
						}
					default:
						continue
					}
					if es, ok := st.(*ast.ExprStmt); ok {
						if ce, ok := es.X.(*ast.CallExpr); ok {
							if se, ok := ce.Fun.(*ast.SelectorExpr); ok && (se.Sel.Name == "Printf" || se.Sel.Name == "PrintMessage" || se.Sel.Name == "Println") {
								continue
							}
						}
					}
					x, i, orig := x, i, st
					sites = append(sites, site{func() { x.List[i] = &ast.EmptyStmt{Implicit: false, Semicolon: orig.Pos()} }, func() { x.List[i] = orig }, st.Pos(), "delete-stmt", ""})
				}
			}
			return true
		}
		ast.Inspect(fd.Body, visit)
	}
	if err := os.MkdirAll(*out, 0o755); err != nil {
		panic(err)
	}
	idx, _ := os.Create(filepath.Join(*out, "index.tsv"))
	defer idx.Close()
	n := 0
	for _, s := range sites {
		s.apply()
		var buf bytes.Buffer
		err := printer.Fprint(&buf, fset, f)
		s.undo()
		if err != nil {
			continue
		}
		p := fset.Position(s.pos)
		os.WriteFile(filepath.Join(*out, fmt.Sprintf("%d.go", n)), buf.Bytes(), 0o644)
		fmt.Fprintf(idx, "%d\t%d\t%d\t%s\t%s\n", n, p.Line, p.Column, s.op, s.detail)
		n++
	}
	fmt.Println(n, "mutants of", *file)
}

func isIdent(e ast.Expr, name string) bool {
	id, ok := e.(*ast.Ident)
	return ok && id.Name == name
}

func isString(b *ast.BinaryExpr) bool {
	for _, e := range []ast.Expr{b.X, b.Y} {
		if l, ok := e.(*ast.BasicLit); ok && l.Kind == token.STRING {
			return true
		}
	}
	return false
}
