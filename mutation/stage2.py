#!/usr/bin/env python3
"""stage 2 of the mutation campaign: run the registered quick checks against every mutant the repository's test
suite lets through; a mutant no check reports is listed as MISSED for manual triage (equivalent mutant, outside
every listed property, or a blind spot).
usage: stage2.py <mutants dir> <stage1.tsv> <out.tsv> <scratch dir> [parallel workers]"""
import os, subprocess, sys, threading, queue, shutil, re
root, s1, out, scratch = sys.argv[1:5]
workers = int(sys.argv[5]) if len(sys.argv) > 5 else 3
env = dict(os.environ, GOFLAGS="-mod=mod", GOPROXY="off", GOSUMDB="off", GOTOOLCHAIN="local")
def srcpath(name):
    parts = name.split("_")
    for k in range(len(parts) - 1, 0, -1):
        cand = "/".join(parts[:k]) + "/" + "_".join(parts[k:])
        if os.path.exists("/repo/" + cand):
            return cand
    raise SystemExit("cannot map " + name)
def checks_for(src):
    d, f = os.path.dirname(src), os.path.basename(src)
    if d == "dhcpv4":
        if f == "dhcpv4.go": return "C04 C01 C07 C15 C06 C17 C08"
        if f == "options.go": return "C04 C01 C07 C17 C06 C08 C09"
        if f == "modifiers.go": return "C15 C17 C01 C20"
        return "C17 C01 C04 C06 C15"
    if d == "dhcpv6": return "C05 C02 C06 C16 C08 C09"
    if d == "rfc1035label": return "C19 C05 C17 C02 C08 C09"
    if d == "dhcpv4/nclient4":
        if f in ("conn_unix.go", "ipv4.go"): return "C18 C03 C10"
        return "C12 C13 C10 C11"
    if d == "dhcpv6/nclient6": return "C12 C13 C10 C11"
    if d in ("dhcpv4/server4", "dhcpv6/server6"): return "C14"
    if d in ("dhcpv4/ztpv4", "dhcpv6/ztpv6"): return "C03 C20"
    if d == "iana": return "C17 C02 C01 C20"
    return "C03"
done = set()
if os.path.exists(out):
    for l in open(out):
        p = l.split("\t"); done.add((p[0], p[1]))
# functions no check executes by design (they talk to the operating system, the clock or the random source - DESIGN 11.6b)
UNREACHED = set("BindToInterface IPv4AddrsForInterface GetExternalIPv4Addrs NewWithContext NewDiscoveryForInterface NewInformForInterface New "
                "NewRawUDPConn NewIPv4UDPConn NewIPv6UDPConn GetLinkLocalAddr GetGlobalAddr interfaceAddresses getMatchingAddr WithUnicast NewSolicit "
                "GetTime GenerateTransactionID NewServer".split())
def enclosing(src, line):
    name = ""
    for i, l in enumerate(open("/repo/" + src), 1):
        if i > line: break
        m = re.match(r"func (?:\([^)]*\) )?([A-Za-z0-9_]+)", l)
        if m: name = m.group(1)
    return name
PRIO = ["dhcpv4_nclient4_ipv4.go", "rfc1035label_label.go", "dhcpv4_options.go", "dhcpv4_option_", "dhcpv6_option_", "dhcpv6_duid.go", "dhcpv6_iputils.go", "dhcpv6_dhcpv6.go",
        "dhcpv6_dhcpv6relay.go", "dhcpv4_modifiers.go", "dhcpv6_modifiers.go", "dhcpv6_options.go", "dhcpv4_nclient4_lease.go", "dhcpv4_nclient4_conn_unix.go",
        "dhcpv4_server4_server.go", "dhcpv6_server6_server.go", "dhcpv6_nclient6_client.go", "dhcpv4_nclient4_client.go", "dhcpv6_dhcpv6message.go", "dhcpv4_dhcpv4.go"]
def prio(name):
    for i, pfx in enumerate(PRIO):
        if name.startswith(pfx): return i
    return len(PRIO)
q = queue.Queue()
rows = [l for l in open(s1)]
rows.sort(key=lambda l: prio(l.split("\t")[0]))
for l in rows:
    p = l.rstrip("\n").split("\t")
    if p[6] == "survives" and (p[0], p[1]) not in done:
        fn = enclosing(srcpath(p[0]), int(p[2]))
        if p[0] in ("dhcpv4_server4_conn_unix.go", "dhcpv6_server6_conn_unix.go"):
            fn = "NewIPv4UDPConn"
        if fn in UNREACHED:
            with open(out, "a") as o:
                o.write("\t".join(p[:6]) + "\tskipped\tin " + fn + " (never executed by design)\n")
            continue
        q.put(p)
lock = threading.Lock()
def work(k):
    tree, vroot = f"{scratch}/w{k}", f"{scratch}/root{k}"
    if not os.path.exists(tree):
        subprocess.run(["git", "-C", "/repo", "worktree", "add", "-q", "--detach", tree, "HEAD"], check=True)
    os.makedirs(vroot, exist_ok=True)
    shutil.copy("/verif/known_findings.txt", vroot)
    while True:
        try: p = q.get_nowait()
        except queue.Empty: return
        name, n = p[0], p[1]
        src = srcpath(name)
        shutil.copy(os.path.join(root, name, n + ".go"), os.path.join(tree, src))
        verdict, detail = "MISSED", ""
        for c in checks_for(src).split():
            r = subprocess.run(["/verif/check", c, "quick"], env=dict(env, VERIF_REPO=tree, VERIF_ROOT=vroot), capture_output=True, text=True)
            if r.returncode == 1:
                cls = re.findall(r"^  class: (.*)$", r.stdout, re.M)
                verdict, detail = "caught:" + c, (cls[0] if cls else "")[:160]
                break
            if r.returncode != 0:
                verdict, detail = "infra:" + c, (r.stderr or r.stdout)[-160:].replace("\n", " ")
                break
        subprocess.run(["git", "-C", tree, "checkout", "--", src], check=True)
        with lock, open(out, "a") as o:
            o.write("\t".join(p[:6]) + "\t" + verdict + "\t" + detail + "\n")
ts = [threading.Thread(target=work, args=(k,)) for k in range(workers)]
[t.start() for t in ts]; [t.join() for t in ts]
for k in range(workers):
    subprocess.run(["git", "-C", "/repo", "worktree", "remove", "--force", f"{scratch}/w{k}"])
print("done")
