import os,collections
def srcpath(name):
    parts = name.split("_")
    for k in range(len(parts) - 1, 0, -1):
        cand = "/".join(parts[:k]) + "/" + "_".join(parts[k:])
        if os.path.exists("/repo/" + cand): return cand
EQ="equivalent"; OUT="outside every listed property"; TWO="inside a two-valued class of the oracle"; UNR="unreached by design (operating-system interface)"; LOG="log / printed output only"
def cat(src, ln, op, det):
    f=os.path.basename(src)
    if src=="dhcpv4/dhcpv4.go":
        if ln in (343,570): return EQ, "both sides clamp to 16 / pad of zero bytes"
        if ln==392: return LOG, "FlagsToString text"
        if ln==410: return OUT, "IsUnicast/IsBroadcast with reserved bits set"
        if ln in (548,552): return "blind spot, closed afterwards", "names longer than their field: C07 scope a' (round 7)"
    if src=="dhcpv4/modifiers.go" and ln==61: return EQ, "New() already builds a BOOTREQUEST"
    if src=="dhcpv4/nclient4/client.go":
        if 196<=ln<=222: return UNR, "interface lookup / raw socket part of new()"
        if ln in (253,264,321,331,341): return LOG, "only decides what is logged"
        if ln==376: return EQ, "unexported buffer-capacity option, not used by the checks' hook"
        if ln==447: return OUT, "value of InterfaceAddr()"
        if ln==475: return LOG, "error text"
        if ln==543: return OUT, "Lease.CreationTime"
        if ln==590: return EQ, "channel is unreachable afterwards"
        if ln==247: return EQ, "the receive loop ends at the same virtual instant"
        if ln==230: return EQ, "closed becomes 2; every reader tests != 0"
    if src=="dhcpv4/nclient4/ipv4.go":
        if ln in (108,109): return EQ, "callers have checked the length"
        if ln in (168,180,182,183,186,282): return EQ, "the field is zero / rewritten afterwards"
        if ln in (193,199): return EQ, "the frame is rejected by a later test"
        if ln in (269,332): return EQ, "scratch size / capacity hint"
        if ln==338: return OUT, "TTL value (the statement asks for a well-formed frame)"
    if src=="dhcpv4/nclient4/conn_unix.go": return EQ, "every bound is checked against n; n is ignored on error"
    if src=="dhcpv4/nclient4/lease.go": return LOG, "log after RELEASE"
    if src=="dhcpv4/options.go":
        if ln in (291,292): return LOG, "Summary layout"
        return EQ, "End/Pad keys are skipped by Marshal; clamp; capacity"
    if src.startswith("dhcpv4/option_"):
        if f=="option_autoconfigure.go": return OUT, "AutoConfiguration.FromBytes is not what the accessor uses"
        return EQ, "FinError() rejects the tail either way / capacity / comparator"
    if src=="rfc1035label/label.go": return EQ, "n/a"
    if f in ("option_bootfileparam.go","option_userclass.go","option_vendorclass.go") and op=="intlit" and ln>40: return TWO, "a list whose last item is empty is MAY-REJECT"
    if f=="option_bootfileparam.go": return OUT, "parameters of 32 KiB and more"
    if f in ("option_iaprefix.go","option_vendorclass.go"): return EQ, "fresh receiver"
    if f=="duid.go":
        if ln==276: return TWO, "a 2-byte DUID is MAY-REJECT"
        return OUT, "DUID.Equal helpers"
    if f=="iputils.go": return OUT, "the value ExtractMAC returns"
    if src=="dhcpv6/dhcpv6.go": return EQ, "zero default / value returned together with an error"
    if src=="dhcpv6/dhcpv6relay.go": return EQ, "value returned with 'absent'; only differs for addresses that are neither 4 nor 16 bytes"
    if src=="dhcpv6/modifiers.go": return OUT, "DHCPv6 modifiers"
    if src=="dhcpv6/options.go": return EQ, "capacity hint"
    if src=="dhcpv6/dhcpv6message.go": return OUT, "options the REQUEST builder adds beyond those the statement names; default of an absent elapsed time"
    if "server" in src:
        if op=="intlit": return EQ, "read size 4097"
        return LOG, "logger selection (the servers only Printf)"
    if src=="dhcpv6/nclient6/client.go":
        if ln in (151,152,154): return OUT, "nclient6 defaults are literals no property or exported constant names"
        if ln==194: return EQ, "the receive loop ends at the same virtual instant"
        if ln==177: return EQ, "closed becomes 2; every reader tests != 0"
        if ln==426: return EQ, "channel is unreachable afterwards"
        if ln==212: return EQ, "read size 1501"
        if ln in (215,224,225,226,244,268,298,307): return LOG, "dropped-packet logging"
        if ln==342: return OUT, "value of InterfaceAddr()"
    if src=="iana/archtype.go":
        if ln==109: return OUT, "Archs.Contains"
        if ln==139: return TWO, "zero-length option value"
        return EQ, "capacity hint"
    return "?", ""
rows=[l.rstrip("\n").split("\t") for l in open('/tmp/mut_stage2.tsv')]
out=[];cnt=collections.Counter()
for r in rows:
    if r[6]!="MISSED": continue
    src=srcpath(r[0]); ln=int(r[2])
    line=open('/repo/'+src).read().split("\n")[ln-1].strip()
    c,why=cat(src,ln,r[4],r[5]); cnt[c]+=1
    out.append("\t".join([src,str(ln),r[3],r[4],r[5],c,why,line[:100]]))
open('/tmp/missed_triage.tsv','w').write("\n".join(out)+"\n")
print(cnt)
