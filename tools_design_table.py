#!/usr/bin/env python3
"""Regenerates the seeded-change detection table inside DESIGN.md (between the SEED-TABLE markers)."""
import subprocess, os, re
root = os.path.dirname(os.path.abspath(__file__))
t = subprocess.run(["python3", os.path.join(root, "seeded", "table.py")], capture_output=True, text=True).stdout
p = os.path.join(root, "DESIGN.md")
s = open(p).read()
s = re.sub(r"<!-- SEED-TABLE-BEGIN -->.*?<!-- SEED-TABLE-END -->", "<!-- SEED-TABLE-BEGIN -->\n" + t + "<!-- SEED-TABLE-END -->", s, flags=re.S)
open(p, "w").write(s)
print("table rows:", t.count("\n| C"))
