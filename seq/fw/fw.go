// Package fw is the small framework shared by all E1 (seqmc) checks:
// parallel complete enumeration of an index range, violation collection with
// fingerprints, known-findings handling, replay and evidence files.
package fw

import (
	"bufio"
	"crypto/sha1"
	"encoding/hex"
	"encoding/json"
	"fmt"
	"net"
	"os"
	"path/filepath"
	"runtime"
	"runtime/debug"
	"sort"
	"strconv"
	"strings"
	"sync"
	"sync/atomic"
	"syscall"
	"time"
	"unsafe"
)

// Root is the /verif directory (overridable for tests).
var Root = func() string {
	if r := os.Getenv("VERIF_ROOT"); r != "" {
		return r
	}
	return "/verif"
}()

// Violation is one concrete counterexample.
type Violation struct {
	// Fingerprint identifies the *class* of failure (observer | clause | input class).
	Fingerprint string `json:"fingerprint"`
	// Order is the enumeration index (smaller = simpler); the smallest per fingerprint is kept.
	Order    int64  `json:"order"`
	Scope    string `json:"scope"`
	Input    string `json:"input"` // hex bytes, action list, ...
	Observed string `json:"observed"`
	Expected string `json:"expected"`
	Explain  string `json:"explanation"`
	GoTest   string `json:"go_test,omitempty"`
}

// Ctx carries the state of one check run.
type Ctx struct {
	Prop  string
	Tier  string
	Level string
	Seed  int64
	Start time.Time
	// Budget is the internal wall-clock budget; when exceeded, enumerations stop and
	// the run is reported exhaustive:false (never a violation).
	Budget time.Duration

	evals    atomic.Int64
	nontriv  atomic.Int64
	capped   atomic.Bool
	mu       sync.Mutex
	viol     map[string]*Violation
	violN    map[string]int64
	samples  []any
	scopes   []map[string]any
	extra    map[string]any
	assume   []string
	rule     string
	states   int64
	trans    int64
	traces   int64
	distinct map[string]struct{}
	unspec   map[string]int64
}

// ---- non-termination watchdog ------------------------------------------------------------
//
// A worker goroutine stuck inside the library (an endless loop a change introduced) can be neither
// recovered nor killed, and would make the check hang. Every Range worker therefore notes which index
// it is working on and when (in ticks of a coarse clock); a monitor reports the case as a violation
// ("the call does not return") once it has been running for VERIF_HANG_S seconds (default 120, thorough 600), writes
// the evidence and ends the process with status 1. Hand-rolled worker loops use Track/Untrack (and Beat between the
// library calls of one long case).
//
// The clock is not the wall clock: on a loaded machine (other checks running next to this one) a legitimate case takes
// several times longer, and a wall-clock limit would then report a hang that is not one. A tick is a millisecond of
// processor time *per busy worker*: each second the monitor looks at the processor time the process consumed and
// advances the clock by min(1 s, consumed / busy workers) - a stuck worker burns its share, so its case ages at the
// rate at which the process is actually being run (never slower than 1/20 of real time, so that a worker that sleeps
// forever is still reported).

type wslot struct {
	since atomic.Int64 // tick at which the current case started; 0 = idle
	idx   atomic.Int64
	rng   atomic.Int64
	desc  atomic.Pointer[func() string]
}

var (
	wslots  [512]wslot
	wtick   atomic.Int64
	rangeNo atomic.Int64
	slotSeq atomic.Int64
)

// Track notes that the calling worker (slot w, from NewSlot) starts a case; desc may be nil.
func Track(w int, idx int64, desc func() string) {
	s := &wslots[w%len(wslots)]
	s.idx.Store(idx)
	if desc != nil {
		s.desc.Store(&desc)
	} else {
		s.desc.Store(nil)
	}
	s.since.Store(wtick.Load() + 1)
}

// Beat notes progress within a tracked case (a library call returned): the case's age starts again.
func Beat(w int) {
	s := &wslots[w%len(wslots)]
	if s.since.Load() != 0 {
		s.since.Store(wtick.Load() + 1)
	}
}

// memoryGuard: a change that makes the library allocate without bound (an endless loop that appends) would have the
// process killed by the operating system long before the non-termination limit is reached - report it instead.
func (c *Ctx) memoryGuard() {
	memLimit := int64(16 << 10) // MiB
	if c.Tier == "thorough" {
		memLimit = 32 << 10
	}
	if v, err := strconv.Atoi(os.Getenv("VERIF_MEM_MIB")); err == nil && v > 0 {
		memLimit = int64(v)
	}
	for {
		time.Sleep(100 * time.Millisecond)
		if rss := rssMiB(); rss > memLimit {
			buf := make([]byte, 1<<20)
			buf = buf[:runtime.Stack(buf, true)]
			site := "unknown"
			for _, l := range strings.Split(string(buf), "\n") {
				if strings.HasPrefix(l, "github.com/insomniacslk/dhcp/") {
					site = strings.TrimPrefix(l, "github.com/insomniacslk/dhcp/")
					if i := strings.LastIndexByte(site, '('); i > 0 {
						site = site[:i]
					}
					break
				}
			}
			in := "one of the cases running when the limit was reached"
			for w := range wslots {
				if s := &wslots[w]; s.since.Load() != 0 {
					if d := s.desc.Load(); d != nil {
						func() {
							defer func() { recover() }()
							in = (*d)() + " (or one of the other cases running at that moment)"
						}()
						break
					}
				}
			}
			c.Report(Violation{Fingerprint: "memory-exhaustion|" + site, Order: 0, Scope: "watchdog", Input: in,
				Observed: fmt.Sprintf("the process holds %d MiB (limit %d MiB; the unchanged library stays far below); innermost library frame of a running goroutine: %s", rss, memLimit, site),
				Expected: "decoding, encoding and reading a value need memory proportionate to its size",
				Explain:  "the run ends here with what was checked so far"})
			c.capped.Store(true)
			os.Exit(c.Finish())
		}
	}
}

// rssMiB is the resident set size of the process (0 when /proc is not readable).
func rssMiB() int64 {
	b, err := os.ReadFile("/proc/self/statm")
	if err != nil {
		return 0
	}
	f := strings.Fields(string(b))
	if len(f) < 2 {
		return 0
	}
	pages, _ := strconv.ParseInt(f[1], 10, 64)
	return pages * int64(os.Getpagesize()) >> 20
}

// CPUMillis is the processor time (user + system) this process has consumed, in milliseconds.
func CPUMillis() int64 { return cpuMillis() }

func cpuMillis() int64 {
	var ru syscall.Rusage
	if syscall.Getrusage(syscall.RUSAGE_SELF, &ru) != nil {
		return 0
	}
	return (ru.Utime.Sec+ru.Stime.Sec)*1000 + int64(ru.Utime.Usec+ru.Stime.Usec)/1000
}

// Untrack notes that the worker is idle.
func Untrack(w int) { wslots[w%len(wslots)].since.Store(0) }

// NewSlot hands out a watchdog slot for a hand-rolled worker goroutine.
func NewSlot() int { return int(slotSeq.Add(1)-1) % len(wslots) }

func (c *Ctx) watchdog() {
	limit := int64(120)
	if c.Tier == "thorough" {
		limit = 600 // the longest legitimate single case (a C20 value with the full action set) takes seconds; leave two orders of magnitude
	}
	if v, err := strconv.Atoi(os.Getenv("VERIF_HANG_S")); err == nil && v > 0 {
		limit = int64(v)
	}
	limit *= 1000
	lastCPU := cpuMillis()
	go c.memoryGuard()
	for {
		time.Sleep(time.Second)
		busy := int64(0)
		for w := range wslots {
			if wslots[w].since.Load() != 0 {
				busy++
			}
		}
		cpu := cpuMillis()
		adv := int64(1000)
		if busy > 0 && (cpu-lastCPU)/busy < adv {
			adv = (cpu - lastCPU) / busy
		}
		if adv < 50 {
			adv = 50
		}
		lastCPU = cpu
		now := wtick.Add(adv)
		for w := range wslots {
			s := &wslots[w]
			since := s.since.Load()
			if since == 0 || now-since < limit {
				continue
			}
			idx := s.idx.Load()
			time.Sleep(50 * time.Millisecond)
			if s.since.Load() != since || s.idx.Load() != idx {
				continue // it moved on after all
			}
			in := fmt.Sprintf("case %d of enumeration #%d of this check (the enumerations are deterministic)", idx, s.rng.Load())
			if d := s.desc.Load(); d != nil {
				func() {
					defer func() { recover() }()
					in = (*d)() + " — " + in
				}()
			}
			buf := make([]byte, 1<<20)
			buf = buf[:runtime.Stack(buf, true)]
			site := "unknown"
			for _, l := range strings.Split(string(buf), "\n") {
				if strings.HasPrefix(l, "github.com/insomniacslk/dhcp/") {
					site = strings.TrimPrefix(l, "github.com/insomniacslk/dhcp/")
					if i := strings.LastIndexByte(site, '('); i > 0 {
						site = site[:i]
					}
					break
				}
			}
			c.Report(Violation{Fingerprint: "non-termination|" + site, Order: idx, Scope: "watchdog", Input: in,
				Observed: fmt.Sprintf("a library call made for this case has not returned after %d s of processor time (innermost library frame of a running goroutine: %s)", limit/1000, site),
				Expected: "every call returns (a value or an error)",
				Explain:  "the worker goroutine cannot be stopped; the run ends here with what was checked so far"})
			c.capped.Store(true)
			os.Exit(c.Finish())
		}
	}
}

func New(prop, tier, level string) *Ctx {
	seed, _ := strconv.ParseInt(os.Getenv("VERIF_SEED"), 10, 64)
	c := &Ctx{Prop: prop, Tier: tier, Level: level, Seed: seed, Start: time.Now(),
		viol: map[string]*Violation{}, violN: map[string]int64{}, extra: map[string]any{},
		distinct: map[string]struct{}{}, unspec: map[string]int64{}}
	c.Budget = 20 * time.Minute
	if tier == "thorough" {
		c.Budget = 3 * time.Hour
	}
	if b := os.Getenv("VERIF_BUDGET_S"); b != "" {
		if n, err := strconv.Atoi(b); err == nil {
			c.Budget = time.Duration(n) * time.Second
		}
	}
	go c.watchdog()
	return c
}

func (c *Ctx) Thorough() bool { return c.Tier == "thorough" }

// Eval counts n evaluated cases.
func (c *Ctx) Eval(n int64) { c.evals.Add(n) }

// Nontrivial counts n cases that are non-trivial by the check's stated rule and
// distinct by construction (injective enumeration).
func (c *Ctx) Nontrivial(n int64) { c.nontriv.Add(n) }

// Distinct records a distinct outcome class (small sets only).
func (c *Ctx) Distinct(key string) {
	c.mu.Lock()
	if len(c.distinct) < 1<<20 {
		c.distinct[key] = struct{}{}
	}
	c.mu.Unlock()
}

func (c *Ctx) Unspecified(class string, n int64) {
	c.mu.Lock()
	c.unspec[class] += n
	c.mu.Unlock()
}

func (c *Ctx) SetRule(r string)      { c.rule = r }
func (c *Ctx) Assume(a ...string)    { c.assume = append(c.assume, a...) }
func (c *Ctx) Extra(k string, v any) { c.mu.Lock(); c.extra[k] = v; c.mu.Unlock() }
func (c *Ctx) AddStates(s, t, tr int64) {
	c.mu.Lock()
	c.states += s
	c.trans += t
	c.traces += tr
	c.mu.Unlock()
}

// Scope records one enumerated sub-space in the evidence.
func (c *Ctx) Scope(name string, kv ...any) {
	m := map[string]any{"name": name}
	for i := 0; i+1 < len(kv); i += 2 {
		m[fmt.Sprint(kv[i])] = kv[i+1]
	}
	c.mu.Lock()
	c.scopes = append(c.scopes, m)
	c.mu.Unlock()
}

// Sample keeps up to 12 written-out cases for the evidence file.
func (c *Ctx) Sample(s any) {
	c.mu.Lock()
	if len(c.samples) < 12 {
		c.samples = append(c.samples, s)
	}
	c.mu.Unlock()
}

// Over reports whether the budget is exhausted (and marks the run as capped).
func (c *Ctx) Over() bool {
	if time.Since(c.Start) > c.Budget {
		c.capped.Store(true)
		return true
	}
	return false
}

// Report records a violation; the smallest Order per fingerprint is kept.
func (c *Ctx) Report(v Violation) {
	c.mu.Lock()
	defer c.mu.Unlock()
	c.violN[v.Fingerprint]++
	old, ok := c.viol[v.Fingerprint]
	if !ok || v.Order < old.Order {
		if !ok && len(c.viol) >= 200 {
			return
		}
		vv := v
		c.viol[v.Fingerprint] = &vv
	}
}

func (c *Ctx) NumViolations() int { c.mu.Lock(); defer c.mu.Unlock(); return len(c.viol) }

// Workers is the number of worker goroutines.
func Workers() int {
	n := runtime.NumCPU()
	if w := os.Getenv("VERIF_WORKERS"); w != "" {
		if k, err := strconv.Atoi(w); err == nil && k > 0 {
			n = k
		}
	}
	return n
}

// Range enumerates every index in [0,n) exactly once, in parallel chunks.
// f must be safe for concurrent use. Returns false if the budget capped the run.
func (c *Ctx) Range(n int64, f func(i int64)) bool {
	if n <= 0 {
		return true
	}
	w := int64(Workers())
	chunk := n / (w * 64)
	if chunk < 1 {
		chunk = 1
	}
	if chunk > 1<<16 {
		chunk = 1 << 16
	}
	var next atomic.Int64
	var wg sync.WaitGroup
	complete := atomic.Bool{}
	complete.Store(true)
	rno := rangeNo.Add(1)
	for k := int64(0); k < w; k++ {
		wg.Add(1)
		slot := &wslots[NewSlot()]
		go func() {
			defer wg.Done()
			defer slot.since.Store(0)
			slot.rng.Store(rno)
			slot.desc.Store(nil)
			for {
				lo := next.Add(chunk) - chunk
				if lo >= n {
					return
				}
				if c.Over() {
					complete.Store(false)
					return
				}
				hi := lo + chunk
				if hi > n {
					hi = n
				}
				for i := lo; i < hi; i++ {
					slot.idx.Store(i)
					slot.since.Store(wtick.Load() + 1)
					f(i)
				}
				slot.since.Store(0)
				c.evals.Add(hi - lo)
			}
		}()
	}
	wg.Wait()
	return complete.Load()
}

// StdShared reports whether b is (a window of) one of the standard library's shared address
// values (net.IPv4zero, net.IPv4bcast, net.IPv6unspecified, ...). A library may hand those out
// - they are immutable by convention - so the harness never writes into them when it overwrites
// values in place.
func StdShared(b []byte) bool {
	if len(b) == 0 {
		return false
	}
	p := uintptr(unsafe.Pointer(&b[0]))
	for _, g := range []net.IP{net.IPv4zero, net.IPv4bcast, net.IPv4allsys, net.IPv4allrouter, net.IPv6zero, net.IPv6unspecified,
		net.IPv6loopback, net.IPv6interfacelocalallnodes, net.IPv6linklocalallnodes, net.IPv6linklocalallrouters} {
		if len(g) == 0 {
			continue
		}
		lo := uintptr(unsafe.Pointer(&g[0]))
		if p >= lo && p < lo+uintptr(len(g)) {
			return true
		}
	}
	return false
}

// Safe runs f and returns the recovered panic (with a short stack) if any.
func Safe(f func()) (pv any, stack string) {
	defer func() {
		if r := recover(); r != nil {
			pv = r
			stack = shortStack(string(debug.Stack()))
		}
	}()
	f()
	return nil, ""
}

func shortStack(s string) string {
	lines := strings.Split(s, "\n")
	var out []string
	for _, l := range lines {
		if strings.Contains(l, "insomniacslk/dhcp") || strings.Contains(l, "/repo/") {
			out = append(out, strings.TrimSpace(l))
		}
		if len(out) >= 8 {
			break
		}
	}
	return strings.Join(out, " <- ")
}

// PanicSite extracts a stable "function" site for fingerprints from a stack string.
func PanicSite(stack string) string {
	for _, p := range strings.Split(stack, " <- ") {
		if strings.Contains(p, "(") && !strings.HasPrefix(p, "/") {
			if i := strings.LastIndex(p, "("); i > 0 {
				p = p[:i]
			}
			if j := strings.LastIndex(p, "/"); j >= 0 {
				p = p[j+1:]
			}
			return p
		}
	}
	return "unknown"
}

func Hex(b []byte) string { return hex.EncodeToString(b) }

// HexShort renders long inputs abbreviated for messages (full bytes go in Input).
func HexShort(b []byte) string {
	if len(b) <= 96 {
		return hex.EncodeToString(b)
	}
	return fmt.Sprintf("%s…(%d bytes)…%s", hex.EncodeToString(b[:40]), len(b), hex.EncodeToString(b[len(b)-24:]))
}

type known struct {
	prop, key, text string
}

func loadKnown() []known {
	f, err := os.Open(filepath.Join(Root, "known_findings.txt"))
	if err != nil {
		return nil
	}
	defer f.Close()
	var out []known
	sc := bufio.NewScanner(f)
	sc.Buffer(make([]byte, 1<<20), 1<<20)
	for sc.Scan() {
		l := strings.TrimSpace(sc.Text())
		if !strings.HasPrefix(l, "known:") {
			continue // "fixed:" entries and comments suppress nothing
		}
		l = strings.TrimSpace(strings.TrimPrefix(l, "known:"))
		var k known
		for _, f := range strings.Fields(l) {
			if strings.HasPrefix(f, "property=") && k.prop == "" {
				k.prop = strings.TrimPrefix(f, "property=")
			} else if strings.HasPrefix(f, "key=") && k.key == "" {
				k.key = strings.TrimPrefix(f, "key=")
			}
		}
		if i := strings.Index(l, "key="+k.key); i >= 0 {
			k.text = strings.TrimSpace(l[i+len("key="+k.key):])
		}
		if k.prop != "" && k.key != "" {
			out = append(out, k)
		}
	}
	return out
}

// FPKey normalises a fingerprint into the token used in known_findings.txt.
func FPKey(fp string) string {
	r := strings.NewReplacer(" ", "_", "\t", "_", "\n", "_")
	return r.Replace(fp)
}

// Finish writes replays and evidence, prints VIOLATION / KNOWN-FINDING lines and
// returns the process exit code.
func (c *Ctx) Finish() int {
	kn := loadKnown()
	isKnown := func(fp string) (known, bool) {
		for _, k := range kn {
			if k.prop == c.Prop && k.key == FPKey(fp) {
				return k, true
			}
		}
		return known{}, false
	}
	c.mu.Lock()
	fps := make([]string, 0, len(c.viol))
	for fp := range c.viol {
		fps = append(fps, fp)
	}
	c.mu.Unlock()
	sort.Slice(fps, func(i, j int) bool {
		a, b := c.viol[fps[i]], c.viol[fps[j]]
		if a.Order != b.Order {
			return a.Order < b.Order
		}
		return fps[i] < fps[j]
	})
	newViol, knownViol := 0, 0
	var vlist []map[string]any
	os.MkdirAll(filepath.Join(Root, "replays"), 0o755)
	for _, fp := range fps {
		v := c.viol[fp]
		if k, ok := isKnown(fp); ok {
			knownViol++
			fmt.Printf("KNOWN-FINDING: property=%s key=%s %s\n", c.Prop, k.key, k.text)
			vlist = append(vlist, map[string]any{"fingerprint": fp, "known": true, "count": c.violN[fp]})
			continue
		}
		newViol++
		h := sha1.Sum([]byte(fp))
		path := filepath.Join(Root, "replays", fmt.Sprintf("%s-%s.json", c.Prop, hex.EncodeToString(h[:5])))
		rep := map[string]any{"property": c.Prop, "engine": "seqmc", "tier": c.Tier, "violation": v, "count_in_class": c.violN[fp]}
		b, _ := json.MarshalIndent(rep, "", " ")
		os.WriteFile(path, b, 0o644)
		fmt.Printf("VIOLATION property=%s replay=%s\n", c.Prop, path)
		fmt.Printf("  class: %s (%d cases)\n  input: %s\n  observed: %s\n  expected: %s\n  %s\n", fp, c.violN[fp], trunc(v.Input, 400), trunc(v.Observed, 600), trunc(v.Expected, 600), trunc(v.Explain, 600))
		vlist = append(vlist, map[string]any{"fingerprint": fp, "known": false, "count": c.violN[fp], "replay": path})
	}
	c.writeEvidence(newViol, knownViol, vlist)
	wall := time.Since(c.Start).Seconds()
	fmt.Printf("%s %s: evaluations=%d nontrivial=%d violations=%d known=%d exhaustive=%v wall=%.1fs\n",
		c.Prop, c.Tier, c.evals.Load(), c.nontrivial(), newViol, knownViol, !c.capped.Load(), wall)
	if newViol > 0 {
		return 1
	}
	return 0
}

func (c *Ctx) nontrivial() int64 {
	n := c.nontriv.Load()
	if n == 0 {
		n = int64(len(c.distinct))
	}
	return n
}

func trunc(s string, n int) string {
	if len(s) <= n {
		return s
	}
	return s[:n] + "…"
}

func (c *Ctx) writeEvidence(newViol, knownViol int, vlist []map[string]any) {
	cov := map[string]any{
		"evaluations":         c.evals.Load(),
		"distinct_nontrivial": c.nontrivial(),
		"rule":                c.rule,
		"samples":             c.samples,
		"exhaustive":          !c.capped.Load(),
		"scopes":              c.scopes,
		"distinct_outcomes":   len(c.distinct),
	}
	if len(c.samples) == 0 {
		cov["samples"] = []any{"(none)"}
	}
	if c.states > 0 {
		cov["states"] = c.states
		cov["transitions"] = c.trans
		cov["traces_validated_against_impl"] = c.traces
	}
	if len(c.unspec) > 0 {
		cov["unspecified_cases"] = c.unspec
	}
	if len(vlist) > 0 {
		cov["violation_classes"] = vlist
	}
	for k, v := range c.extra {
		cov[k] = v
	}
	ev := map[string]any{
		"property_id":             c.Prop,
		"tier":                    c.Tier,
		"seed":                    c.Seed,
		"level":                   c.Level,
		"coverage":                cov,
		"assumptions":             c.assume,
		"wall_s":                  time.Since(c.Start).Seconds(),
		"violations":              newViol,
		"known_findings_reported": knownViol,
	}
	b, _ := json.MarshalIndent(ev, "", " ")
	os.MkdirAll(filepath.Join(Root, "evidence"), 0o755)
	if err := os.WriteFile(filepath.Join(Root, "evidence", c.Prop+".json"), b, 0o644); err != nil {
		fmt.Fprintln(os.Stderr, "cannot write evidence:", err)
	}
}
