// Package ipref is an independent reference for IPv4 (RFC 791) + UDP (RFC 768)
// frames with the Internet checksum of RFC 1071: a byte-driven parser and
// classifier, a header-checksum verifier, a pseudo-header UDP checksum
// verifier and a frame builder. Standard library only; it shares no code with
// the library under test.
//
// A "frame" is what a SOCK_DGRAM packet socket bound to ETH_P_IP hands over:
// the IP datagram starting at its first header byte, possibly followed by
// link-layer padding (Ethernet pads to a 46-byte minimum payload).
package ipref

import (
	"errors"
	"fmt"
)

// Reasons a frame is not a well-formed IPv4 datagram / IPv4+UDP datagram.
// The strings are used as stable input-class names in fingerprints.
const (
	RShortHeader   = "frame-shorter-than-20-bytes"
	RVersion       = "version-not-4"
	RIHLSmall      = "ihl-less-than-5"
	RHeaderBeyond  = "ip-header-exceeds-frame"
	RTotalLtHeader = "total-length-less-than-ip-header"
	RTotalGtFrame  = "total-length-exceeds-frame"
	RNotUDP        = "protocol-not-17"
	RFragment      = "fragment"
	RNoUDPHeader   = "total-length-leaves-less-than-udp-header"
)

// Malformed is the error type returned by the parsers; Reason is one of the R… constants.
type Malformed struct{ Reason string }

func (m *Malformed) Error() string { return m.Reason }

// ReasonOf returns the reason class of a parser error ("" for nil).
func ReasonOf(err error) string {
	var m *Malformed
	if errors.As(err, &m) {
		return m.Reason
	}
	if err != nil {
		return err.Error()
	}
	return ""
}

// IPv4 is a parsed IPv4 datagram (RFC 791 §3.1).
type IPv4 struct {
	Version  int
	IHL      int // in 32-bit words
	TOS      byte
	TotalLen int
	ID       uint16
	Flags    byte // 3 bits: reserved, DF, MF
	FragOff  int  // 13 bits, units of 8 octets
	TTL      byte
	Proto    byte
	Checksum uint16
	Src, Dst [4]byte
	Header   []byte // IHL*4 bytes
	Options  []byte // Header[20:]
	Body     []byte // frame[IHL*4 : TotalLen] — bounded by the total length
	Padding  []byte // frame[TotalLen:] — link-layer padding, not part of the datagram
}

// ParseIPv4 classifies a frame as a well-formed IPv4 datagram or says why not.
// Well-formed here is structural (RFC 791): 20 header bytes present, version 4,
// IHL >= 5, header inside the frame, header <= total length <= frame length.
// Checksums are *not* part of this predicate (see HeaderChecksumOK).
func ParseIPv4(frame []byte) (*IPv4, error) {
	if len(frame) < 20 {
		return nil, &Malformed{RShortHeader}
	}
	p := &IPv4{}
	p.Version = int(frame[0] >> 4)
	p.IHL = int(frame[0] & 0x0f)
	if p.Version != 4 {
		return nil, &Malformed{RVersion}
	}
	if p.IHL < 5 {
		return nil, &Malformed{RIHLSmall}
	}
	hl := p.IHL * 4
	if hl > len(frame) {
		return nil, &Malformed{RHeaderBeyond}
	}
	p.TOS = frame[1]
	p.TotalLen = int(frame[2])<<8 | int(frame[3])
	if p.TotalLen < hl {
		return nil, &Malformed{RTotalLtHeader}
	}
	if p.TotalLen > len(frame) {
		return nil, &Malformed{RTotalGtFrame}
	}
	p.ID = uint16(frame[4])<<8 | uint16(frame[5])
	p.Flags = frame[6] >> 5
	p.FragOff = int(frame[6]&0x1f)<<8 | int(frame[7])
	p.TTL = frame[8]
	p.Proto = frame[9]
	p.Checksum = uint16(frame[10])<<8 | uint16(frame[11])
	copy(p.Src[:], frame[12:16])
	copy(p.Dst[:], frame[16:20])
	p.Header = frame[:hl]
	p.Options = frame[20:hl]
	p.Body = frame[hl:p.TotalLen]
	p.Padding = frame[p.TotalLen:]
	return p, nil
}

// IsFragment reports MF set or a non-zero fragment offset.
func (p *IPv4) IsFragment() bool { return p.Flags&1 != 0 || p.FragOff != 0 }

// UDP is a parsed UDP datagram (RFC 768) inside an IPv4 datagram.
type UDP struct {
	SrcPort, DstPort uint16
	Length           int // the UDP length field as transmitted
	Checksum         uint16
	// Payload is everything after the 8-byte UDP header up to the end given by
	// the IP total length (never link padding).
	Payload []byte
}

// ParseUDP interprets the body of a well-formed IPv4 datagram as UDP.
// The UDP length *field* is reported but not validated (see LengthConsistent).
func (p *IPv4) ParseUDP() (*UDP, error) {
	if p.Proto != 17 {
		return nil, &Malformed{RNotUDP}
	}
	if p.IsFragment() {
		return nil, &Malformed{RFragment}
	}
	if len(p.Body) < 8 {
		return nil, &Malformed{RNoUDPHeader}
	}
	b := p.Body
	return &UDP{
		SrcPort:  uint16(b[0])<<8 | uint16(b[1]),
		DstPort:  uint16(b[2])<<8 | uint16(b[3]),
		Length:   int(b[4])<<8 | int(b[5]),
		Checksum: uint16(b[6])<<8 | uint16(b[7]),
		Payload:  b[8:],
	}, nil
}

// ParseFrame = ParseIPv4 + ParseUDP.
func ParseFrame(frame []byte) (*IPv4, *UDP, error) {
	ip, err := ParseIPv4(frame)
	if err != nil {
		return nil, nil, err
	}
	u, err := ip.ParseUDP()
	if err != nil {
		return ip, nil, err
	}
	return ip, u, nil
}

// LengthConsistent: the UDP length field equals the IP payload length.
func LengthConsistent(ip *IPv4, u *UDP) bool { return u.Length == len(ip.Body) }

// Shape names the structural variety of a well-formed IPv4/UDP frame.
func Shape(ip *IPv4, u *UDP) string {
	s := "plain"
	switch {
	case ip.IHL > 5 && len(ip.Padding) > 0:
		s = "ip-options+link-padding"
	case ip.IHL > 5:
		s = "ip-options"
	case len(ip.Padding) > 0:
		s = "link-padding"
	}
	if len(u.Payload) == 0 {
		s += "/empty-payload"
	}
	return s
}

// ---- RFC 1071 ----

// Sum adds the 16-bit big-endian words of data to acc (one's-complement sum
// kept unfolded in 64 bits; a trailing odd byte is padded with a zero byte on
// the right, RFC 1071 §4.1).
func Sum(acc uint64, data []byte) uint64 {
	i := 0
	for ; i+1 < len(data); i += 2 {
		acc += uint64(data[i])<<8 | uint64(data[i+1])
	}
	if i < len(data) {
		acc += uint64(data[i]) << 8
	}
	return acc
}

// Fold reduces an unfolded sum to 16 bits with end-around carry.
func Fold(acc uint64) uint16 {
	for acc>>16 != 0 {
		acc = acc&0xffff + acc>>16
	}
	return uint16(acc)
}

// HeaderChecksumOK verifies the IPv4 header checksum: the one's-complement sum
// of all header words, checksum included, is all ones.
func HeaderChecksumOK(hdr []byte) bool { return Fold(Sum(0, hdr)) == 0xffff }

// HeaderChecksum computes the value for the checksum field (bytes 10,11 are
// taken as zero).
func HeaderChecksum(hdr []byte) uint16 {
	acc := Sum(0, hdr[:10])
	acc = Sum(acc, hdr[12:])
	return ^Fold(acc)
}

// UDPVerdict is the result of verifying a UDP checksum.
type UDPVerdict int

const (
	UDPOK         UDPVerdict = iota // non-zero checksum that verifies
	UDPNoChecksum                   // transmitted 0: "no checksum" (RFC 768) — verifies by definition
	UDPBad                          // non-zero checksum that does not verify
	UDPBadLength                    // UDP length field < 8 or beyond the IP payload: cannot be summed
)

func (v UDPVerdict) String() string {
	return [...]string{"ok", "zero(no-checksum)", "bad", "bad-length"}[v]
}

func pseudo(src, dst [4]byte, proto byte, udpLen int) uint64 {
	acc := Sum(0, src[:])
	acc = Sum(acc, dst[:])
	acc += uint64(proto)
	acc += uint64(udpLen & 0xffff)
	return acc
}

// VerifyUDP verifies the UDP checksum over the RFC 768 pseudo-header (source,
// destination, zero, protocol, UDP length) + UDP header + data (UDP length
// octets, padded with a zero octet if odd).
func VerifyUDP(ip *IPv4, u *UDP) UDPVerdict {
	if u.Checksum == 0 {
		return UDPNoChecksum
	}
	if u.Length < 8 || u.Length > len(ip.Body) {
		return UDPBadLength
	}
	acc := pseudo(ip.Src, ip.Dst, ip.Proto, u.Length)
	acc = Sum(acc, ip.Body[:u.Length])
	if Fold(acc) == 0xffff {
		return UDPOK
	}
	return UDPBad
}

// UDPChecksum computes what an RFC 768 sender transmits for the given
// addresses and UDP header+data (bytes 6,7 of seg taken as zero): the
// complement of the one's-complement sum, with a computed zero transmitted as
// all ones. raw is the value before the zero→ffff substitution.
func UDPChecksum(src, dst [4]byte, seg []byte) (transmit, raw uint16) {
	acc := pseudo(src, dst, 17, len(seg))
	acc = Sum(acc, seg[:6])
	acc = Sum(acc, seg[8:])
	raw = ^Fold(acc)
	transmit = raw
	if transmit == 0 {
		transmit = 0xffff
	}
	return
}

// ---- builder ----

// Spec describes a frame to build. Zero values give a plain valid datagram:
// version 4, IHL 5 (+options), TTL 64, protocol 17, consistent lengths, correct
// checksums. Options must be a multiple of 4 bytes (at most 40).
type Spec struct {
	TOS       byte
	ID        uint16
	Flags     byte // 3 bits
	FragOff   int
	TTL       byte // 0 => 64
	Src, Dst  [4]byte
	Options   []byte
	SrcPort   uint16
	DstPort   uint16
	Payload   []byte
	Padding   []byte // link padding appended after the datagram
	ZeroUDPCk bool   // transmit "no checksum"
}

// Build returns the frame for s.
func Build(s Spec) []byte {
	if len(s.Options)%4 != 0 || len(s.Options) > 40 {
		panic(fmt.Sprintf("ipref.Build: bad options length %d", len(s.Options)))
	}
	hl := 20 + len(s.Options)
	total := hl + 8 + len(s.Payload)
	if total > 0xffff {
		panic("ipref.Build: datagram too long")
	}
	f := make([]byte, total+len(s.Padding))
	f[0] = 4<<4 | byte(hl/4)
	f[1] = s.TOS
	f[2], f[3] = byte(total>>8), byte(total)
	f[4], f[5] = byte(s.ID>>8), byte(s.ID)
	f[6] = s.Flags<<5 | byte(s.FragOff>>8)&0x1f
	f[7] = byte(s.FragOff)
	f[8] = s.TTL
	if s.TTL == 0 {
		f[8] = 64
	}
	f[9] = 17
	copy(f[12:16], s.Src[:])
	copy(f[16:20], s.Dst[:])
	copy(f[20:hl], s.Options)
	u := f[hl:total]
	u[0], u[1] = byte(s.SrcPort>>8), byte(s.SrcPort)
	u[2], u[3] = byte(s.DstPort>>8), byte(s.DstPort)
	ul := 8 + len(s.Payload)
	u[4], u[5] = byte(ul>>8), byte(ul)
	copy(u[8:], s.Payload)
	copy(f[total:], s.Padding)
	FixHeaderChecksum(f)
	if !s.ZeroUDPCk {
		FixUDPChecksum(f)
	}
	return f
}

// The patch helpers below overwrite single fields of an existing frame; they
// do nothing if the field lies outside the frame.

func SetVersion(f []byte, v int) {
	if len(f) > 0 {
		f[0] = byte(v)<<4 | f[0]&0x0f
	}
}
func SetIHL(f []byte, ihl int) {
	if len(f) > 0 {
		f[0] = f[0]&0xf0 | byte(ihl)&0x0f
	}
}
func SetTotalLen(f []byte, n int) {
	if len(f) >= 4 {
		f[2], f[3] = byte(n>>8), byte(n)
	}
}
func SetProto(f []byte, p byte) {
	if len(f) >= 10 {
		f[9] = p
	}
}

// SetUDPLen overwrites the UDP length field located after an IHL-word header.
func SetUDPLen(f []byte, ihl, n int) {
	o := ihl*4 + 4
	if len(f) >= o+2 {
		f[o], f[o+1] = byte(n>>8), byte(n)
	}
}

// FixHeaderChecksum recomputes the header checksum over IHL words (as far as
// the header lies inside the frame and IHL >= 5).
func FixHeaderChecksum(f []byte) {
	if len(f) < 20 {
		return
	}
	hl := int(f[0]&0x0f) * 4
	if hl < 20 || hl > len(f) {
		hl = 20
	}
	c := HeaderChecksum(f[:hl])
	f[10], f[11] = byte(c>>8), byte(c)
}

// FixUDPChecksum recomputes the UDP checksum of a structurally well-formed
// frame over the IP payload (does nothing otherwise).
func FixUDPChecksum(f []byte) {
	ip, err := ParseIPv4(f)
	if err != nil || len(ip.Body) < 8 {
		return
	}
	c, _ := UDPChecksum(ip.Src, ip.Dst, ip.Body)
	ip.Body[6], ip.Body[7] = byte(c>>8), byte(c)
}
