// Package v6chain is the reference model for property C16: a DHCPv6 relay
// chain as a plain list of levels around an inner message, with the operations
// the property statement talks about (encapsulate, decapsulate, index, build a
// relay-reply chain, the advertise/request/reply builder rules) and an RFC 8415
// §7/§9/§21 wire encoder and decoder for exactly this shape.
//
// Standard library only; nothing is shared with the library under test.
package v6chain

import (
	"bytes"
	"encoding/binary"
	"encoding/hex"
	"errors"
	"fmt"
)

// Message types (RFC 8415 §7.3).
const (
	Solicit            = 1
	Advertise          = 2
	Request            = 3
	Confirm            = 4
	Renew              = 5
	Rebind             = 6
	Reply              = 7
	Release            = 8
	Decline            = 9
	Reconfigure        = 10
	InformationRequest = 11
	RelayForw          = 12
	RelayRepl          = 13
)

// Option codes (RFC 8415 §21, RFC 4649).
const (
	OptClientID    = 1
	OptServerID    = 2
	OptIANA        = 3
	OptRelayMsg    = 9
	OptRapidCommit = 14
	OptVendorClass = 16
	OptInterfaceID = 18
	OptIAPD        = 25
	OptRemoteID    = 37
)

// Level is one relay header. IID / RID are the value bytes of the
// interface-id (18) and remote-id (37) options; nil pointer = option absent.
type Level struct {
	Type byte
	Hop  byte
	Link [16]byte
	Peer [16]byte
	IID  *[]byte
	RID  *[]byte
}

// Opt is one option of the inner message (raw value bytes).
type Opt struct {
	Code uint16
	Val  []byte
}

// Inner describes a plain (non-relay) message.
type Inner struct {
	Type byte
	XID  [3]byte
	Opts []Opt
}

// Chain is a relay chain: Levels[0] is the innermost relay (the one that wraps
// the inner message directly), Levels[len-1] the outermost. len(Levels)==0 is
// the plain message itself.
type Chain struct {
	Levels []Level
	Inner  Inner
}

func (c Chain) Depth() int { return len(c.Levels) }

// First returns the first option with the given code.
func (in Inner) First(code uint16) *Opt {
	for i := range in.Opts {
		if in.Opts[i].Code == code {
			return &in.Opts[i]
		}
	}
	return nil
}

func (in Inner) Has(code uint16) bool { return in.First(code) != nil }

func cloneBytesPtr(p *[]byte) *[]byte {
	if p == nil {
		return nil
	}
	b := append([]byte{}, (*p)...)
	return &b
}

// Clone makes a deep copy.
func (c Chain) Clone() Chain {
	out := Chain{Inner: Inner{Type: c.Inner.Type, XID: c.Inner.XID}}
	for _, o := range c.Inner.Opts {
		out.Inner.Opts = append(out.Inner.Opts, Opt{o.Code, append([]byte{}, o.Val...)})
	}
	for _, l := range c.Levels {
		l.IID = cloneBytesPtr(l.IID)
		l.RID = cloneBytesPtr(l.RID)
		out.Levels = append(out.Levels, l)
	}
	return out
}

// Encapsulate wraps c in one more relay header. The type must be RELAY-FORW or
// RELAY-REPL; the hop count is 0 around a plain message and one more than the
// wrapped relay's otherwise ("the hop count grows by one per level").
func Encapsulate(c Chain, typ byte, link, peer [16]byte) (Chain, error) {
	if typ != RelayForw && typ != RelayRepl {
		return Chain{}, errors.New("relay type must be RELAY-FORW or RELAY-REPL")
	}
	out := c.Clone()
	hop := byte(0)
	if n := len(out.Levels); n > 0 {
		hop = out.Levels[n-1].Hop + 1
	}
	out.Levels = append(out.Levels, Level{Type: typ, Hop: hop, Link: link, Peer: peer})
	return out, nil
}

// Decapsulate removes the outermost relay header; a plain message is returned
// unchanged.
func (c Chain) Decapsulate() Chain {
	out := c.Clone()
	if n := len(out.Levels); n > 0 {
		out.Levels = out.Levels[:n-1]
	}
	return out
}

// Verdict of a reference rule.
type Verdict int

const (
	Accept      Verdict = iota // the operation must succeed with the described result
	Reject                     // the operation must return an error
	Unspecified                // statement / documented contract gives no verdict
)

func (v Verdict) String() string {
	return [...]string{"accept", "reject", "unspecified"}[v]
}

// Index models DecapsulateRelayIndex: index i = i+1 decapsulations (0 removes
// the outermost header), -1 = the innermost relay, below -1 an error. On a
// plain message the message itself. Reaching beyond the chain (i >= depth) is
// not covered by the documented contract.
func (c Chain) Index(i int) (Chain, Verdict) {
	n, v := c.IndexLevels(i)
	if v != Accept {
		return Chain{}, v
	}
	out := c.Clone()
	out.Levels = out.Levels[:n]
	return out, Accept
}

// IndexLevels is Index reduced to the number of levels (counted from the
// innermost) that remain in the result.
func (c Chain) IndexLevels(i int) (int, Verdict) {
	d := len(c.Levels)
	if d == 0 {
		if i < -1 {
			return 0, Unspecified // documented both as "invalid index" and as "returns the original"
		}
		return 0, Accept
	}
	switch {
	case i < -1:
		return 0, Reject
	case i == -1:
		return 1, Accept
	case i >= d:
		return 0, Unspecified
	}
	return d - (i + 1), Accept
}

// ReplyChain models NewRelayReplFromRelayForw for a chain whose every level is
// RELAY-FORW: same depth, every level RELAY-REPL with that level's hop count,
// link, peer, interface-id and remote-id, the reply innermost.
//
// Verdict: Reject if the chain has no level or its outermost level is not
// RELAY-FORW; Unspecified if the outermost is RELAY-FORW but a deeper level is
// not (the statement only speaks of relay-forward chains); Accept otherwise.
// For Unspecified the returned chain is what an accepting implementation
// should still produce.
func (c Chain) ReplyChain(reply Inner) (Chain, Verdict) {
	d := len(c.Levels)
	if d == 0 || c.Levels[d-1].Type != RelayForw {
		return Chain{}, Reject
	}
	v := Accept
	out := c.Clone()
	out.Inner = Chain{Inner: reply}.Clone().Inner
	for i := range out.Levels {
		if out.Levels[i].Type != RelayForw {
			v = Unspecified
		}
		out.Levels[i].Type = RelayRepl
	}
	return out, v
}

// ---- wire format -----------------------------------------------------------

func putOpt(b []byte, code uint16, val []byte) []byte {
	var h [4]byte
	binary.BigEndian.PutUint16(h[0:], code)
	binary.BigEndian.PutUint16(h[2:], uint16(len(val)))
	b = append(b, h[:]...)
	return append(b, val...)
}

// Encode serialises a plain message: type, 3-byte transaction id, options.
func (in Inner) Encode() []byte {
	b := []byte{in.Type, in.XID[0], in.XID[1], in.XID[2]}
	for _, o := range in.Opts {
		b = putOpt(b, o.Code, o.Val)
	}
	return b
}

// Encode serialises the chain, outermost header first. Per level the options
// are written in the order relay-msg, interface-id, remote-id (the order in
// which the checks add them); Decode does not depend on the order.
func (c Chain) Encode() []byte {
	all := c.EncodeAll()
	return all[len(all)-1]
}

// EncodeAll returns the encoding of every sub-chain: element j is the chain cut
// down to its j innermost levels (element 0 is the inner message alone).
func (c Chain) EncodeAll() [][]byte {
	payload := c.Inner.Encode()
	out := [][]byte{payload}
	for _, l := range c.Levels {
		b := make([]byte, 0, 34+4+len(payload)+32)
		b = append(b, l.Type, l.Hop)
		b = append(b, l.Link[:]...)
		b = append(b, l.Peer[:]...)
		b = putOpt(b, OptRelayMsg, payload)
		if l.IID != nil {
			b = putOpt(b, OptInterfaceID, *l.IID)
		}
		if l.RID != nil {
			b = putOpt(b, OptRemoteID, *l.RID)
		}
		payload = b
		out = append(out, b)
	}
	return out
}

type rawOpt struct {
	code uint16
	val  []byte
}

func parseOpts(b []byte) ([]rawOpt, error) {
	var out []rawOpt
	for len(b) > 0 {
		if len(b) < 4 {
			return nil, errors.New("truncated option header")
		}
		code := binary.BigEndian.Uint16(b[0:])
		n := int(binary.BigEndian.Uint16(b[2:]))
		if len(b) < 4+n {
			return nil, errors.New("truncated option value")
		}
		out = append(out, rawOpt{code, b[4 : 4+n]})
		b = b[4+n:]
	}
	return out, nil
}

// ErrNoRelayMsg is returned by Decode for a relay header without a relay-msg option.
var ErrNoRelayMsg = errors.New("relay message without relay-msg option")

// Decode reads a relay chain (or a plain message) from wire bytes. In every
// relay header the first relay-msg, interface-id and remote-id options are
// taken, whatever their order.
func Decode(b []byte) (Chain, error) {
	var rev []Level // outermost first
	for depth := 0; ; depth++ {
		if depth > 64 {
			return Chain{}, errors.New("too deep")
		}
		if len(b) < 1 {
			return Chain{}, errors.New("empty message")
		}
		if b[0] != RelayForw && b[0] != RelayRepl {
			if len(b) < 4 {
				return Chain{}, errors.New("truncated message header")
			}
			in := Inner{Type: b[0]}
			copy(in.XID[:], b[1:4])
			opts, err := parseOpts(b[4:])
			if err != nil {
				return Chain{}, err
			}
			for _, o := range opts {
				in.Opts = append(in.Opts, Opt{o.code, append([]byte{}, o.val...)})
			}
			c := Chain{Inner: in}
			for i := len(rev) - 1; i >= 0; i-- {
				c.Levels = append(c.Levels, rev[i])
			}
			return c, nil
		}
		if len(b) < 34 {
			return Chain{}, errors.New("truncated relay header")
		}
		l := Level{Type: b[0], Hop: b[1]}
		copy(l.Link[:], b[2:18])
		copy(l.Peer[:], b[18:34])
		opts, err := parseOpts(b[34:])
		if err != nil {
			return Chain{}, err
		}
		var next []byte
		found := false
		for _, o := range opts {
			switch o.code {
			case OptRelayMsg:
				if !found {
					next, found = o.val, true
				}
			case OptInterfaceID:
				if l.IID == nil {
					v := append([]byte{}, o.val...)
					l.IID = &v
				}
			case OptRemoteID:
				if l.RID == nil {
					v := append([]byte{}, o.val...)
					l.RID = &v
				}
			}
		}
		rev = append(rev, l)
		if !found {
			return Chain{}, ErrNoRelayMsg
		}
		b = next
	}
}

func ptrEq(a, b *[]byte) bool {
	if (a == nil) != (b == nil) {
		return false
	}
	return a == nil || bytes.Equal(*a, *b)
}

func ptrStr(p *[]byte) string {
	if p == nil {
		return "absent"
	}
	return hex.EncodeToString(*p)
}

// DiffLevels compares the relay headers of two chains and returns the name of
// the first differing field ("" if none) with a description. Field names are
// stable classes (no level numbers) so they can be used in fingerprints.
func DiffLevels(got, want Chain) (field, detail string) {
	if len(got.Levels) != len(want.Levels) {
		return "depth", fmt.Sprintf("depth %d, expected %d", len(got.Levels), len(want.Levels))
	}
	for i := range want.Levels {
		g, w := got.Levels[i], want.Levels[i]
		at := fmt.Sprintf("level %d (0 = innermost) of %d", i, len(want.Levels))
		switch {
		case g.Type != w.Type:
			return "type", fmt.Sprintf("%s: type %d, expected %d", at, g.Type, w.Type)
		case g.Hop != w.Hop:
			return "hop-count", fmt.Sprintf("%s: hop count %d, expected %d", at, g.Hop, w.Hop)
		case g.Link != w.Link:
			return "link-address", fmt.Sprintf("%s: link %x, expected %x", at, g.Link, w.Link)
		case g.Peer != w.Peer:
			return "peer-address", fmt.Sprintf("%s: peer %x, expected %x", at, g.Peer, w.Peer)
		case !ptrEq(g.IID, w.IID):
			return "interface-id", fmt.Sprintf("%s: interface-id %s, expected %s", at, ptrStr(g.IID), ptrStr(w.IID))
		case !ptrEq(g.RID, w.RID):
			return "remote-id", fmt.Sprintf("%s: remote-id %s, expected %s", at, ptrStr(g.RID), ptrStr(w.RID))
		}
	}
	return "", ""
}

// DiffInner compares two plain messages (type, transaction id, option list).
func DiffInner(got, want Inner) (field, detail string) {
	if got.Type != want.Type {
		return "inner-type", fmt.Sprintf("inner type %d, expected %d", got.Type, want.Type)
	}
	if got.XID != want.XID {
		return "inner-xid", fmt.Sprintf("inner transaction id %x, expected %x", got.XID, want.XID)
	}
	if len(got.Opts) != len(want.Opts) {
		return "inner-options", fmt.Sprintf("%d inner options, expected %d", len(got.Opts), len(want.Opts))
	}
	for i := range want.Opts {
		if got.Opts[i].Code != want.Opts[i].Code || !bytes.Equal(got.Opts[i].Val, want.Opts[i].Val) {
			return "inner-options", fmt.Sprintf("inner option #%d: code %d value %x, expected code %d value %x",
				i, got.Opts[i].Code, got.Opts[i].Val, want.Opts[i].Code, want.Opts[i].Val)
		}
	}
	return "", ""
}

// Diff compares two chains completely.
func Diff(got, want Chain) (field, detail string) {
	if f, d := DiffLevels(got, want); f != "" {
		return f, d
	}
	return DiffInner(got.Inner, want.Inner)
}

// ---- builder rules (DESIGN.md Appendix E, RFC 8415 §16, §18) ---------------

// Expect describes what the property statement fixes about a builder's result.
type Expect struct {
	Type    byte  // message type of the result
	KeepXID bool  // result carries the input's transaction id
	Echo    []Opt // options that must appear in the result with these exact bytes (first instance)
}

func echo(in Inner, codes ...uint16) []Opt {
	var out []Opt
	for _, c := range codes {
		if o := in.First(c); o != nil {
			out = append(out, Opt{o.Code, append([]byte{}, o.Val...)})
		}
	}
	return out
}

// AdvertiseFromSolicit: reject unless the input is a SOLICIT carrying a client
// id; the ADVERTISE keeps the transaction id (RFC 8415 §18.3.9) and echoes the
// client id.
//
// The third result names the failed precondition (a stable class for
// fingerprints) when the verdict is Reject.
func AdvertiseFromSolicit(s Inner) (Expect, Verdict, string) {
	if s.Type != Solicit {
		return Expect{}, Reject, "wrong-message-type"
	}
	if !s.Has(OptClientID) {
		return Expect{}, Reject, "no-client-id"
	}
	return Expect{Type: Advertise, KeepXID: true, Echo: echo(s, OptClientID)}, Accept, ""
}

// RequestFromAdvertise: reject unless the input is an ADVERTISE with client id,
// server id and an identity association; the REQUEST has a fresh transaction id
// (RFC 8415 §18.2.2, §16.1) and echoes client id, server id, the IA_NA and the
// IA_PD if present. An ADVERTISE that carries an IA_PD but no IA_NA does have an
// identity association, so the statement does not decide whether it must be
// refused: Unspecified (if accepted, the options that are present must be echoed).
func RequestFromAdvertise(a Inner) (Expect, Verdict, string) {
	switch {
	case a.Type != Advertise:
		return Expect{}, Reject, "wrong-message-type"
	case !a.Has(OptClientID):
		return Expect{}, Reject, "no-client-id"
	case !a.Has(OptServerID):
		return Expect{}, Reject, "no-server-id"
	}
	e := Expect{Type: Request, KeepXID: false, Echo: echo(a, OptClientID, OptServerID, OptIANA, OptIAPD)}
	if !a.Has(OptIANA) {
		if a.Has(OptIAPD) {
			return e, Unspecified, "IA_PD-without-IA_NA"
		}
		return Expect{}, Reject, "no-identity-association"
	}
	return e, Accept, ""
}

// ReplyFromMessage: reject unless the input is a REQUEST, CONFIRM, RENEW,
// REBIND, RELEASE, INFORMATION-REQUEST, or a SOLICIT with rapid-commit, and
// carries a client id; the REPLY keeps the transaction id and echoes the client
// id.
func ReplyFromMessage(x Inner) (Expect, Verdict, string) {
	switch x.Type {
	case Request, Confirm, Renew, Rebind, Release, InformationRequest:
	case Solicit:
		if !x.Has(OptRapidCommit) {
			return Expect{}, Reject, "solicit-without-rapid-commit"
		}
	default:
		return Expect{}, Reject, "wrong-message-type"
	}
	if !x.Has(OptClientID) {
		return Expect{}, Reject, "no-client-id"
	}
	return Expect{Type: Reply, KeepXID: true, Echo: echo(x, OptClientID)}, Accept, ""
}

// CheckResult compares a builder result (as decoded from its wire bytes) with
// the expectation; in is the builder's input.
func CheckResult(got Inner, in Inner, e Expect) (field, detail string) {
	if got.Type != e.Type {
		return "type", fmt.Sprintf("result type %d, expected %d", got.Type, e.Type)
	}
	if e.KeepXID && got.XID != in.XID {
		return "transaction-id", fmt.Sprintf("result transaction id %x, expected the input's %x", got.XID, in.XID)
	}
	for _, w := range e.Echo {
		g := got.First(w.Code)
		if g == nil {
			return fmt.Sprintf("option-%d-missing", w.Code), fmt.Sprintf("result lacks option %d, expected value %x", w.Code, w.Val)
		}
		if !bytes.Equal(g.Val, w.Val) {
			return fmt.Sprintf("option-%d-differs", w.Code), fmt.Sprintf("result option %d = %x, expected the input's %x", w.Code, g.Val, w.Val)
		}
	}
	return "", ""
}
