// Package v4opt is the reference interpretation of DHCPv4 option values, one
// reading per option type, written from the RFCs (2132, 3442, 3004, 3925,
// 3046, 4578, 3397, 8925, 2563). Stdlib only; it shares no code with the
// library under test.
//
// Every reading maps (present, raw) to a Result:
//
//	OK          raw is well-formed for the type; the typed fields hold the RFC
//	            interpretation
//	Default     the option is absent or raw is malformed for the type; the
//	            caller must see exactly the documented absent/default result
//	            (never a prefix or a partial value). Why says which.
//	Unspecified the RFC assigns no reading (fixed a priori, DESIGN.md §8a):
//	            relay-agent sub-option streams with 0 or 255 in code
//	            position; for search lists everything that is the business
//	            of the label check (pointers, reserved label types,
//	            unterminated tail, names > 255 octets, '.' inside a label).
//
// Canon is a canonical text form of the expected result, so that a harness can
// render the library's result in the same form and compare strings. Empty
// lists render as "nil" (nil and empty lists are identified).
package v4opt

import (
	"encoding/hex"
	"fmt"
	"sort"
	"strconv"
	"strings"
)

type Class int

const (
	OK Class = iota
	Default
	Unspecified
)

func (c Class) String() string { return [...]string{"OK", "Default", "Unspecified"}[c] }

// Kind is the value type of an option.
type Kind int

const (
	KIP        Kind = iota // exactly 4 bytes, an address (RFC 2132 §5.3, §9.1, §9.7)
	KIPs                   // 4k bytes, k>=1 (RFC 2132 §3.5, §3.8, §8.3, §8.5)
	KMask                  // exactly 4 bytes (RFC 2132 §3.3)
	KU32                   // exactly 4 bytes, seconds (RFC 2132 §9.2, §9.11, §9.12; RFC 8925 §3.1)
	KU16                   // exactly 2 bytes (RFC 2132 §9.10)
	KU8                    // exactly 1 byte (RFC 2563 §2)
	KMsgType               // exactly 1 byte (RFC 2132 §9.6); default is 0 (no message type)
	KString                // any bytes, as a string (RFC 2132 §3.17, §3.19, §9.13, §9.9)
	KStringNUL             // any bytes, trailing NULs removed (RFC 2132 §3.14, §9.4, §9.5: "may be NUL terminated")
	KCodes                 // any bytes, one code each (RFC 2132 §9.8)
	KRoutes                // RFC 3442 tiling
	KUserClass             // RFC 3004 (len>=1,data[len])+ ; documented fallback: the whole value as one string
	KVIVC                  // RFC 3925 (ent:u32 len:u8 data[len])* exact tiling
	KArchs                 // 2k bytes, k>=1 (RFC 4578 §2.1)
	KNames                 // RFC 3397 search list (plain names only decided here)
	KRelay                 // RFC 3046 (sub:u8 len:u8 data[len])* exact tiling
)

var kindNames = [...]string{"ip", "ips", "mask", "u32", "u16", "u8", "msgtype", "string", "string-nul", "codes", "routes", "userclass", "vivc", "archs", "names", "relay"}

func (k Kind) String() string { return kindNames[k] }

// Route is one RFC 3442 classless static route.
type Route struct {
	Width  uint8   // prefix length w
	Dest   [4]byte // the ceil(w/8) significant octets, zero-extended
	Router [4]byte
}

// VIVCItem is one RFC 3925 vendor class.
type VIVCItem struct {
	Ent  uint32
	Data []byte
}

// Result is the expected reading.
type Result struct {
	Class Class
	Why   string // stable class of the reason (for fingerprints): "absent", "too-short", ...
	Canon string

	IPs    [][4]byte // KIP (one), KIPs, KMask (one)
	U32    uint32    // KU32, KU16, KU8, KMsgType
	Str    string    // KString, KStringNUL
	Strs   []string  // KUserClass (also on Default/malformed: the fallback), KNames
	Codes  []byte    // KCodes
	U16s   []uint16  // KArchs
	Routes []Route
	VIVC   []VIVCItem
	Relay  map[uint8][]byte
}

// Accessor describes one typed accessor of the packet.
type Accessor struct {
	Name string
	Code uint8
	Kind Kind
	RFC  string
	// DefaultDoc is the documented absent/default result.
	DefaultDoc string
}

// HelperCode is the (otherwise untyped) option code on which the exported
// GetX helpers are exercised.
const HelperCode = 224

// Accessors is Appendix C of DESIGN.md.
var Accessors = []Accessor{
	{"BroadcastAddress", 28, KIP, "RFC 2132 §5.3", "nil"},
	{"RequestedIPAddress", 50, KIP, "RFC 2132 §9.1", "nil"},
	{"ServerIdentifier", 54, KIP, "RFC 2132 §9.7", "nil"},
	{"Router", 3, KIPs, "RFC 2132 §3.5", "nil"},
	{"DNS", 6, KIPs, "RFC 2132 §3.8", "nil"},
	{"NTPServers", 42, KIPs, "RFC 2132 §8.3", "nil"},
	{"NetBIOSNameServers", 44, KIPs, "RFC 2132 §8.5", "nil"},
	{"SubnetMask", 1, KMask, "RFC 2132 §3.3", "nil"},
	{"IPAddressLeaseTime", 51, KU32, "RFC 2132 §9.2", "the caller's default"},
	{"IPAddressRenewalTime", 58, KU32, "RFC 2132 §9.11", "the caller's default"},
	{"IPAddressRebindingTime", 59, KU32, "RFC 2132 §9.12", "the caller's default"},
	{"IPv6OnlyPreferred", 108, KU32, "RFC 8925 §3.1", "(0, false)"},
	{"MaxMessageSize", 57, KU16, "RFC 2132 §9.10", "(0, error)"},
	{"AutoConfigure", 116, KU8, "RFC 2563 §2", "(0, false)"},
	{"MessageType", 53, KMsgType, "RFC 2132 §9.6", "MessageTypeNone"},
	{"DomainName", 15, KString, "RFC 2132 §3.17", `""`},
	{"RootPath", 17, KString, "RFC 2132 §3.19", `""`},
	{"ClassIdentifier", 60, KString, "RFC 2132 §9.13", `""`},
	{"Message", 56, KString, "RFC 2132 §9.9", `""`},
	{"HostName", 12, KStringNUL, "RFC 2132 §3.14", `""`},
	{"BootFileNameOption", 67, KStringNUL, "RFC 2132 §9.5", `""`},
	{"TFTPServerName", 66, KStringNUL, "RFC 2132 §9.4", `""`},
	{"ParameterRequestList", 55, KCodes, "RFC 2132 §9.8", "nil"},
	{"ClasslessStaticRoute", 121, KRoutes, "RFC 3442", "nil"},
	{"UserClass", 77, KUserClass, "RFC 3004", "nil when absent; the whole value as one string when not RFC 3004"},
	{"VIVC", 124, KVIVC, "RFC 3925 §3", "nil"},
	{"ClientArch", 93, KArchs, "RFC 4578 §2.1", "nil"},
	{"DomainSearch", 119, KNames, "RFC 3397 §2", "nil"},
	{"RelayAgentInfo", 82, KRelay, "RFC 3046 §2.0", "nil"},
	// exported helpers, on a code no accessor owns
	{"GetIP", HelperCode, KIP, "RFC 2132", "nil"},
	{"GetIPs", HelperCode, KIPs, "RFC 2132", "nil"},
	{"GetString", HelperCode, KString, "RFC 2132", `""`},
	{"GetUint16", HelperCode, KU16, "RFC 2132", "(0, error)"},
	{"GetByte", HelperCode, KU8, "RFC 2132", "(0, error)"},
}

// ---- canonical forms --------------------------------------------------------

func CanonIP(a [4]byte) string { return fmt.Sprintf("ip:%d.%d.%d.%d", a[0], a[1], a[2], a[3]) }

func CanonIPs(as [][4]byte) string {
	if len(as) == 0 {
		return "nil"
	}
	var sb strings.Builder
	sb.WriteString("ips:")
	for i, a := range as {
		if i > 0 {
			sb.WriteByte(',')
		}
		fmt.Fprintf(&sb, "%d.%d.%d.%d", a[0], a[1], a[2], a[3])
	}
	return sb.String()
}

func CanonMask(a [4]byte) string { return "mask:" + hex.EncodeToString(a[:]) }
func CanonU32(v uint32) string   { return "u32:" + strconv.FormatUint(uint64(v), 10) }
func CanonU16(v uint16) string   { return "u16:" + strconv.FormatUint(uint64(v), 10) }
func CanonU8(v uint8) string     { return "u8:" + strconv.FormatUint(uint64(v), 10) }
func CanonStr(s string) string   { return "str:" + strconv.Quote(s) }

func CanonCodes(b []byte) string {
	if len(b) == 0 {
		return "nil"
	}
	return "codes:" + hex.EncodeToString(b)
}

func CanonStrs(prefix string, ss []string) string {
	if len(ss) == 0 {
		return "nil"
	}
	var sb strings.Builder
	sb.WriteString(prefix)
	sb.WriteString(":[")
	for i, s := range ss {
		if i > 0 {
			sb.WriteByte(',')
		}
		sb.WriteString(strconv.Quote(s))
	}
	sb.WriteByte(']')
	return sb.String()
}

func CanonU16s(v []uint16) string {
	if len(v) == 0 {
		return "nil"
	}
	var sb strings.Builder
	sb.WriteString("u16s:")
	for i, x := range v {
		if i > 0 {
			sb.WriteByte(',')
		}
		sb.WriteString(strconv.FormatUint(uint64(x), 10))
	}
	return sb.String()
}

// CanonRoute renders destination/mask>router, all as 4 hex octets.
func CanonRoute(sb *strings.Builder, dest, mask, router []byte) {
	sb.WriteString(hex.EncodeToString(dest))
	sb.WriteByte('/')
	sb.WriteString(hex.EncodeToString(mask))
	sb.WriteByte('>')
	sb.WriteString(hex.EncodeToString(router))
}

// MaskOf is the 4-byte netmask of prefix length w (w <= 32).
func MaskOf(w uint8) [4]byte {
	var m [4]byte
	for i := uint8(0); i < w && i < 32; i++ {
		m[i/8] |= 0x80 >> (i % 8)
	}
	return m
}

func CanonRoutes(rs []Route) string {
	if len(rs) == 0 {
		return "nil"
	}
	var sb strings.Builder
	sb.WriteString("routes:")
	for i, r := range rs {
		if i > 0 {
			sb.WriteByte(';')
		}
		m := MaskOf(r.Width)
		CanonRoute(&sb, r.Dest[:], m[:], r.Router[:])
	}
	return sb.String()
}

func CanonVIVC(v []VIVCItem) string {
	if len(v) == 0 {
		return "nil"
	}
	var sb strings.Builder
	sb.WriteString("vivc:")
	for i, it := range v {
		if i > 0 {
			sb.WriteByte(';')
		}
		sb.WriteString(strconv.FormatUint(uint64(it.Ent), 10))
		sb.WriteByte('=')
		sb.WriteString(hex.EncodeToString(it.Data))
	}
	return sb.String()
}

func CanonRelay(m map[uint8][]byte) string {
	if len(m) == 0 {
		return "nil"
	}
	keys := make([]int, 0, len(m))
	for k := range m {
		keys = append(keys, int(k))
	}
	sort.Ints(keys)
	var sb strings.Builder
	sb.WriteString("relay:")
	for i, k := range keys {
		if i > 0 {
			sb.WriteByte(';')
		}
		sb.WriteString(strconv.Itoa(k))
		sb.WriteByte('=')
		sb.WriteString(hex.EncodeToString(m[uint8(k)]))
	}
	return sb.String()
}

// DefaultCanon is the canonical form of the documented absent/default result of a kind.
func DefaultCanon(k Kind) string {
	switch k {
	case KU32:
		return "default"
	case KU16:
		return "error"
	case KU8:
		return "default"
	case KMsgType:
		return "u8:0"
	case KString, KStringNUL:
		return `str:""`
	}
	return "nil"
}

// ---- the readings -----------------------------------------------------------

func dflt(k Kind, why string) Result { return Result{Class: Default, Why: why, Canon: DefaultCanon(k)} }

func fixed(k Kind, raw []byte, n int) (Result, bool) {
	if len(raw) < n {
		return dflt(k, "too-short"), false
	}
	if len(raw) > n {
		return dflt(k, "too-long"), false
	}
	return Result{}, true
}

// Interpret is the reference reading of an option value of kind k.
// present=false means the option is not in the packet (raw is ignored).
func Interpret(k Kind, present bool, raw []byte) Result {
	if !present {
		return dflt(k, "absent")
	}
	switch k {
	case KIP:
		if r, ok := fixed(k, raw, 4); !ok {
			return r
		}
		a := [4]byte(raw)
		return Result{Class: OK, IPs: [][4]byte{a}, Canon: CanonIP(a)}
	case KMask:
		if r, ok := fixed(k, raw, 4); !ok {
			return r
		}
		a := [4]byte(raw)
		return Result{Class: OK, IPs: [][4]byte{a}, Canon: CanonMask(a)}
	case KU32:
		if r, ok := fixed(k, raw, 4); !ok {
			return r
		}
		v := uint32(raw[0])<<24 | uint32(raw[1])<<16 | uint32(raw[2])<<8 | uint32(raw[3])
		return Result{Class: OK, U32: v, Canon: CanonU32(v)}
	case KU16:
		if r, ok := fixed(k, raw, 2); !ok {
			return r
		}
		v := uint16(raw[0])<<8 | uint16(raw[1])
		return Result{Class: OK, U32: uint32(v), Canon: CanonU16(v)}
	case KU8, KMsgType:
		if r, ok := fixed(k, raw, 1); !ok {
			return r
		}
		return Result{Class: OK, U32: uint32(raw[0]), Canon: CanonU8(raw[0])}
	case KIPs:
		if len(raw) == 0 {
			return dflt(k, "empty")
		}
		if len(raw)%4 != 0 {
			return dflt(k, "not-multiple-of-4")
		}
		var as [][4]byte
		for i := 0; i < len(raw); i += 4 {
			as = append(as, [4]byte(raw[i:i+4]))
		}
		return Result{Class: OK, IPs: as, Canon: CanonIPs(as)}
	case KArchs:
		if len(raw) == 0 {
			return dflt(k, "empty")
		}
		if len(raw)%2 != 0 {
			return dflt(k, "not-multiple-of-2")
		}
		var vs []uint16
		for i := 0; i < len(raw); i += 2 {
			vs = append(vs, uint16(raw[i])<<8|uint16(raw[i+1]))
		}
		return Result{Class: OK, U16s: vs, Canon: CanonU16s(vs)}
	case KString:
		s := string(raw)
		return Result{Class: OK, Str: s, Canon: CanonStr(s)}
	case KStringNUL:
		n := len(raw)
		for n > 0 && raw[n-1] == 0 {
			n--
		}
		s := string(raw[:n])
		return Result{Class: OK, Str: s, Canon: CanonStr(s)}
	case KCodes:
		b := append([]byte(nil), raw...)
		return Result{Class: OK, Codes: b, Canon: CanonCodes(b)}
	case KRoutes:
		return routes(raw)
	case KUserClass:
		return userClass(raw)
	case KVIVC:
		return vivc(raw)
	case KNames:
		return names(raw)
	case KRelay:
		return relay(raw)
	}
	panic("v4opt: unknown kind")
}

// RFC 3442: each route is a width octet w <= 32, ceil(w/8) significant
// destination octets, 4 router octets; the value is tiled exactly.
func routes(raw []byte) Result {
	var rs []Route
	for pos := 0; pos < len(raw); {
		w := raw[pos]
		if w > 32 {
			return dflt(KRoutes, "mask>32")
		}
		n := (int(w) + 7) / 8
		if pos+1+n+4 > len(raw) {
			return dflt(KRoutes, "truncated-route")
		}
		r := Route{Width: w}
		copy(r.Dest[:], raw[pos+1:pos+1+n])
		copy(r.Router[:], raw[pos+1+n:pos+1+n+4])
		rs = append(rs, r)
		pos += 1 + n + 4
	}
	if len(rs) == 0 {
		return dflt(KRoutes, "empty")
	}
	return Result{Class: OK, Routes: rs, Canon: CanonRoutes(rs)}
}

// RFC 3004 §4: one or more (UC_Len >= 1, UC_Data[UC_Len]) instances tiling the
// value exactly. Anything else: the accessor documents the fallback "the whole
// value as one string".
func userClass(raw []byte) Result {
	bad := func(why string) Result {
		whole := []string{string(raw)}
		return Result{Class: Default, Why: why, Strs: whole, Canon: CanonStrs("strs", whole)}
	}
	if len(raw) == 0 {
		return bad("empty")
	}
	var items []string
	for pos := 0; pos < len(raw); {
		l := int(raw[pos])
		if l == 0 {
			return bad("zero-length-item")
		}
		if pos+1+l > len(raw) {
			return bad("truncated-item")
		}
		items = append(items, string(raw[pos+1:pos+1+l]))
		pos += 1 + l
	}
	return Result{Class: OK, Strs: items, Canon: CanonStrs("strs", items)}
}

// RFC 3925 §3: (enterprise-number:u32, data-len:u8, data[data-len])* tiling exactly.
func vivc(raw []byte) Result {
	var items []VIVCItem
	for pos := 0; pos < len(raw); {
		if pos+5 > len(raw) {
			return dflt(KVIVC, "truncated-header")
		}
		ent := uint32(raw[pos])<<24 | uint32(raw[pos+1])<<16 | uint32(raw[pos+2])<<8 | uint32(raw[pos+3])
		l := int(raw[pos+4])
		if pos+5+l > len(raw) {
			return dflt(KVIVC, "truncated-data")
		}
		items = append(items, VIVCItem{Ent: ent, Data: append([]byte(nil), raw[pos+5:pos+5+l]...)})
		pos += 5 + l
	}
	if len(items) == 0 {
		return dflt(KVIVC, "empty")
	}
	return Result{Class: OK, VIVC: items, Canon: CanonVIVC(items)}
}

// RFC 3046 §2.0: a sequence of SubOpt/Len/Value tuples tiling the value
// exactly. Repeated sub-option codes are concatenated (DESIGN.md Appendix C).
// 0 or 255 in sub-option code position: Unspecified.
func relay(raw []byte) Result {
	m := map[uint8][]byte{}
	for pos := 0; pos < len(raw); {
		code := raw[pos]
		if code == 0 || code == 255 {
			return Result{Class: Unspecified, Why: "suboption-code-0-or-255"}
		}
		if pos+1 >= len(raw) {
			return dflt(KRelay, "code-without-length")
		}
		l := int(raw[pos+1])
		if pos+2+l > len(raw) {
			return dflt(KRelay, "truncated-data")
		}
		m[code] = append(m[code], raw[pos+2:pos+2+l]...)
		if m[code] == nil {
			m[code] = []byte{}
		}
		pos += 2 + l
	}
	return Result{Class: OK, Relay: m, Canon: CanonRelay(m)}
}

// RFC 3397 §2 / RFC 1035 §3.1: a search list is a sequence of domain names,
// each a sequence of labels (1..63 octets) ended by the zero label. Only plain
// names are decided here; the rest belongs to the label check (C19).
func names(raw []byte) Result {
	unspec := func(why string) Result { return Result{Class: Unspecified, Why: why} }
	var out []string
	var cur []string
	curLen := 0
	inName := false
	for pos := 0; pos < len(raw); {
		l := int(raw[pos])
		switch {
		case l == 0:
			out = append(out, strings.Join(cur, "."))
			cur, curLen, inName = nil, 0, false
			pos++
		case l&0xc0 != 0:
			return unspec("pointer-or-reserved-label-type")
		default:
			if pos+1+l > len(raw) {
				return dflt(KNames, "truncated-label")
			}
			lab := string(raw[pos+1 : pos+1+l])
			if strings.IndexByte(lab, '.') >= 0 {
				return unspec("dot-inside-label")
			}
			cur = append(cur, lab)
			curLen += 1 + l
			inName = true
			if curLen+1 > 255 {
				return dflt(KNames, "name-longer-than-255") // RFC 1035 §3.1: not a name, the option is malformed
			}
			pos += 1 + l
		}
	}
	if inName {
		return unspec("unterminated-name")
	}
	if len(out) == 0 {
		return dflt(KNames, "empty")
	}
	return Result{Class: OK, Strs: out, Canon: CanonStrs("names", out)}
}

// ---- encoders (the RFC layouts) --------------------------------------------

func EncIPs(as ...[4]byte) []byte {
	var b []byte
	for _, a := range as {
		b = append(b, a[:]...)
	}
	return b
}

func EncU32(v uint32) []byte { return []byte{byte(v >> 24), byte(v >> 16), byte(v >> 8), byte(v)} }
func EncU16(v uint16) []byte { return []byte{byte(v >> 8), byte(v)} }

func EncU16s(vs ...uint16) []byte {
	var b []byte
	for _, v := range vs {
		b = append(b, byte(v>>8), byte(v))
	}
	return b
}

func EncRoutes(rs ...Route) []byte {
	var b []byte
	for _, r := range rs {
		n := (int(r.Width) + 7) / 8
		b = append(b, r.Width)
		b = append(b, r.Dest[:n]...)
		b = append(b, r.Router[:]...)
	}
	return b
}

// EncUserClass is the RFC 3004 layout (items must be 1..255 bytes).
func EncUserClass(items ...string) []byte {
	var b []byte
	for _, s := range items {
		b = append(b, byte(len(s)))
		b = append(b, s...)
	}
	return b
}

func EncVIVC(items ...VIVCItem) []byte {
	var b []byte
	for _, it := range items {
		b = append(b, EncU32(it.Ent)...)
		b = append(b, byte(len(it.Data)))
		b = append(b, it.Data...)
	}
	return b
}

// EncNames is the uncompressed RFC 1035 encoding of plain names ("" = root).
func EncNames(ns ...string) []byte {
	var b []byte
	for _, n := range ns {
		if n != "" {
			for _, l := range strings.Split(n, ".") {
				b = append(b, byte(len(l)))
				b = append(b, l...)
			}
		}
		b = append(b, 0)
	}
	return b
}

// SubOpt is one relay-agent sub-option for EncRelay.
type SubOpt struct {
	Code uint8
	Data []byte
}

// EncRelay is one RFC 3046 layout (order as given; data <= 255 bytes each).
func EncRelay(subs ...SubOpt) []byte {
	var b []byte
	for _, s := range subs {
		b = append(b, s.Code, byte(len(s.Data)))
		b = append(b, s.Data...)
	}
	return b
}
