// Package v4ref is an independent RFC 2131 / 2132 / 3396 DHCPv4 decoder and a
// canonical-form validator. It shares no code with the library under test
// (stdlib only).
package v4ref

import (
	"bytes"
	"errors"
	"fmt"
)

var Cookie = [4]byte{0x63, 0x82, 0x53, 0x63}

// Packet is the reference reading of a DHCPv4 datagram.
type Packet struct {
	Op, HType, HLen, Hops          uint8
	Xid                            [4]byte
	Secs, Flags                    uint16
	CIAddr, YIAddr, SIAddr, GIAddr [4]byte
	CHAddr                         []byte // clipped to min(hlen,16)
	CHAddrRaw                      [16]byte
	SName, File                    string // cut at the first NUL
	Opts                           map[uint8][]byte
	Order                          []uint8 // codes in order of first appearance
	Instances                      []Instance
	EndAt                          int // offset of the End option in the datagram, -1 if the options area is empty
}

type Instance struct {
	Code uint8
	Len  int
}

var (
	ErrShortHeader = errors.New("v4ref: shorter than the 236-byte BOOTP header plus cookie")
	ErrCookie      = errors.New("v4ref: magic cookie mismatch")
	ErrNoLen       = errors.New("v4ref: option code without length byte")
	ErrOverrun     = errors.New("v4ref: option value overruns the buffer")
	ErrNoEnd       = errors.New("v4ref: options area not terminated by End")
)

func cutNul(b []byte) string {
	if i := bytes.IndexByte(b, 0); i >= 0 {
		return string(b[:i])
	}
	return string(b)
}

// Decode is the reference decoder. requireEnd selects packet rules (true) versus
// bare option-list rules (false).
func Decode(b []byte) (*Packet, error) {
	if len(b) < 240 {
		return nil, ErrShortHeader
	}
	p := &Packet{}
	p.Op, p.HType, p.HLen, p.Hops = b[0], b[1], b[2], b[3]
	copy(p.Xid[:], b[4:8])
	p.Secs = uint16(b[8])<<8 | uint16(b[9])
	p.Flags = uint16(b[10])<<8 | uint16(b[11])
	copy(p.CIAddr[:], b[12:16])
	copy(p.YIAddr[:], b[16:20])
	copy(p.SIAddr[:], b[20:24])
	copy(p.GIAddr[:], b[24:28])
	copy(p.CHAddrRaw[:], b[28:44])
	n := int(p.HLen)
	if n > 16 {
		n = 16
	}
	p.CHAddr = append([]byte{}, b[28:28+n]...)
	p.SName = cutNul(b[44:108])
	p.File = cutNul(b[108:236])
	if !bytes.Equal(b[236:240], Cookie[:]) {
		return nil, ErrCookie
	}
	opts, order, inst, endAt, err := DecodeOptions(b[240:], true)
	if err != nil {
		return nil, err
	}
	p.Opts, p.Order, p.Instances = opts, order, inst
	p.EndAt = -1
	if endAt >= 0 {
		p.EndAt = 240 + endAt
	}
	return p, nil
}

// DecodeOptions walks an options area. With requireEnd an empty area is fine,
// a non-empty one must reach an End option. Returns the per-code concatenation.
func DecodeOptions(a []byte, requireEnd bool) (map[uint8][]byte, []uint8, []Instance, int, error) {
	opts := map[uint8][]byte{}
	var order []uint8
	var inst []Instance
	i := 0
	for i < len(a) {
		code := a[i]
		if code == 0 {
			i++
			continue
		}
		if code == 255 {
			return opts, order, inst, i, nil
		}
		if i+1 >= len(a) {
			return nil, nil, nil, -1, ErrNoLen
		}
		l := int(a[i+1])
		if i+2+l > len(a) {
			return nil, nil, nil, -1, ErrOverrun
		}
		if _, ok := opts[code]; !ok {
			order = append(order, code)
			opts[code] = []byte{}
		}
		opts[code] = append(opts[code], a[i+2:i+2+l]...)
		inst = append(inst, Instance{code, l})
		i += 2 + l
	}
	if requireEnd && len(a) > 0 {
		return nil, nil, nil, -1, ErrNoEnd
	}
	return opts, order, inst, -1, nil
}

// ValidateCanonical checks the layout promised for every encoding produced by the
// library (property C07): >= 300 bytes, header, cookie, options in strictly
// ascending code order with 82 last, every instance <= 255 bytes (trivially) and
// only a non-final instance of a split value may be shorter... (RFC 3396 does not
// require maximal chunks, so only <=255 is checked), exactly one End, then only
// zero padding.
func ValidateCanonical(b []byte) (*Packet, error) {
	if len(b) < 300 {
		return nil, fmt.Errorf("encoding is %d bytes, below the 300-byte BOOTP minimum", len(b))
	}
	p, err := Decode(b)
	if err != nil {
		return nil, fmt.Errorf("reference decoder rejects the encoding: %v", err)
	}
	if p.EndAt < 0 {
		return nil, errors.New("no End option")
	}
	for i := p.EndAt + 1; i < len(b); i++ {
		if b[i] != 0 {
			return nil, fmt.Errorf("non-zero byte %#02x after End at offset %d", b[i], i)
		}
	}
	// no pad bytes between the cookie and End: the walk must tile exactly
	pos := 240
	for _, in := range p.Instances {
		if b[pos] != in.Code {
			return nil, fmt.Errorf("pad byte inside the options area at offset %d", pos)
		}
		pos += 2 + in.Len
	}
	if pos != p.EndAt {
		return nil, fmt.Errorf("pad bytes before End (options end at %d, End at %d)", pos, p.EndAt)
	}
	// order of codes: instances of one code contiguous; codes ascending; 82 last
	var seq []uint8
	for _, in := range p.Instances {
		if len(seq) == 0 || seq[len(seq)-1] != in.Code {
			seq = append(seq, in.Code)
		}
	}
	seen := map[uint8]bool{}
	for i, c := range seq {
		if seen[c] {
			return nil, fmt.Errorf("instances of option %d are not contiguous", c)
		}
		seen[c] = true
		if c == 82 && i != len(seq)-1 {
			return nil, fmt.Errorf("option 82 is not last (sequence %v)", seq)
		}
		if i > 0 && c != 82 && seq[i-1] >= c {
			return nil, fmt.Errorf("option codes not ascending (sequence %v)", seq)
		}
	}
	// split rule: a value travels as consecutive instances; an instance shorter than 255
	// may only be the last one of its code (otherwise a decoder still concatenates, but
	// the library promises maximal chunks implicitly via identical bytes for equal contents;
	// we do not require it here).
	return p, nil
}

// Encode is the canonical RFC 2132 serialisation used as the model for C07
// (sorted codes, 82 last, <=255-byte chunks, zero-length options kept, End, pad to 300).
func Encode(p *Packet) []byte {
	b := make([]byte, 240, 300)
	b[0], b[1], b[2], b[3] = p.Op, p.HType, p.HLen, p.Hops
	copy(b[4:8], p.Xid[:])
	b[8], b[9] = byte(p.Secs>>8), byte(p.Secs)
	b[10], b[11] = byte(p.Flags>>8), byte(p.Flags)
	copy(b[12:16], p.CIAddr[:])
	copy(b[16:20], p.YIAddr[:])
	copy(b[20:24], p.SIAddr[:])
	copy(b[24:28], p.GIAddr[:])
	copy(b[28:44], p.CHAddrRaw[:])
	copy(b[44:107], p.SName)
	copy(b[108:235], p.File)
	copy(b[236:240], Cookie[:])
	b = append(b, EncodeOptions(p.Opts)...)
	b = append(b, 255)
	for len(b) < 300 {
		b = append(b, 0)
	}
	return b
}

// EncodeOptions serialises an option map canonically (no End).
func EncodeOptions(m map[uint8][]byte) []byte {
	var out []byte
	emit := func(c uint8) {
		v := m[c]
		if len(v) == 0 {
			out = append(out, c, 0)
			return
		}
		for len(v) > 0 {
			n := len(v)
			if n > 255 {
				n = 255
			}
			out = append(out, c, byte(n))
			out = append(out, v[:n]...)
			v = v[n:]
		}
	}
	for c := 1; c < 255; c++ {
		if c == 82 {
			continue
		}
		if _, ok := m[uint8(c)]; ok {
			emit(uint8(c))
		}
	}
	if _, ok := m[82]; ok {
		emit(82)
	}
	return out
}
