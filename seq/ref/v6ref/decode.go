package v6ref

import (
	"sort"

	"verif/seq/ref/v4ref"
)

// DecodeMessage decodes a complete DHCPv6 message (or relay message). The tree
// is non-nil exactly when the verdict HasTree(). why names the deciding rule
// ("<option name>: <what>") for every verdict other than Accept.
func DecodeMessage(b []byte) (*Msg, Verdict, string) {
	d := dec{build: true}
	return d.message(b)
}

// VerdictOfMessage is DecodeMessage without building the tree (allocation-free
// except for an embedded DHCPv4 message).
func VerdictOfMessage(b []byte) (Verdict, string) {
	d := dec{}
	_, v, why := d.message(b)
	return v, why
}

// DecodeOption decodes one top-level-table option value (without code/length).
func DecodeOption(code uint16, payload []byte) (*Node, Verdict, string) {
	d := dec{build: true}
	return d.option(code, payload, tableTop)
}

// VerdictOfOption is DecodeOption without building the tree.
func VerdictOfOption(code uint16, payload []byte) (Verdict, string) {
	d := dec{}
	_, v, why := d.option(code, payload, tableTop)
	return v, why
}

// DecodeOptions decodes an option area (top-level code table).
func DecodeOptions(b []byte) ([]*Node, Verdict, string) {
	d := dec{build: true}
	return d.options(b, tableTop)
}

// DecodeNTPSuboptions decodes the value of option 56 (RFC 5908 sub-option table).
func DecodeNTPSuboptions(b []byte) ([]*Node, Verdict, string) {
	d := dec{build: true}
	return d.options(b, tableNTP)
}

// DecodeNames exposes the RFC 1035 name-list reader used for options 24, 39
// and 56/3.
func DecodeNames(b []byte) ([]string, Verdict, string) {
	n, v, why, _ := nameList(b, true)
	return n, v, why
}

const (
	tableTop    = iota // RFC 8415 option space
	tableNTP           // RFC 5908 sub-options of option 56
	tableOpaque        // vendor-specific sub-options of option 17: never interpreted
)

type dec struct{ build bool }

// soften raises an Accept verdict to MayReject with the given reason.
func soften(v Verdict, why, reason string) (Verdict, string) {
	if v == Accept {
		return MayReject, reason
	}
	return v, why
}

// countCode reports how many options of a well-framed area carry the code.
func countCode(b []byte, code uint16) int {
	n := 0
	for len(b) >= 4 {
		l := int(u16(b[2:]))
		if u16(b) == code {
			n++
		}
		if 4+l > len(b) {
			break
		}
		b = b[4+l:]
	}
	return n
}

func u16(b []byte) uint16 { return uint16(b[0])<<8 | uint16(b[1]) }
func u32(b []byte) uint64 {
	return uint64(b[0])<<24 | uint64(b[1])<<16 | uint64(b[2])<<8 | uint64(b[3])
}
func cp(b []byte) []byte { return append(make([]byte, 0, len(b)), b...) }

func (d *dec) message(b []byte) (*Msg, Verdict, string) {
	if len(b) < 1 {
		return nil, Reject, "header: empty message"
	}
	t := b[0]
	var m *Msg
	var rest []byte
	if t == 12 || t == 13 {
		// RFC 8415 §9: msg-type, hop-count, link-address[16], peer-address[16], options
		if len(b) < 34 {
			return nil, Reject, "header: relay header shorter than 34 octets"
		}
		if d.build {
			m = &Msg{Relay: true, Type: t, Hop: b[1]}
			copy(m.Link[:], b[2:18])
			copy(m.Peer[:], b[18:34])
		}
		rest = b[34:]
	} else {
		// RFC 8415 §8: msg-type, transaction-id[3], options
		if len(b) < 4 {
			return nil, Reject, "header: message header shorter than 4 octets"
		}
		if d.build {
			m = &Msg{Type: t}
			copy(m.Xid[:], b[1:4])
		}
		rest = b[4:]
	}
	opts, v, why := d.options(rest, tableTop)
	if !v.HasTree() {
		return nil, v, why
	}
	if (t == 12 || t == 13) && countCode(rest, CodeRelayMsg) == 0 {
		// RFC 8415 §9.1 / §21.10: a relay message carries the relayed message in a Relay Message option
		v, why = soften(v, why, WhyRelayNoMsg)
	}
	if d.build {
		m.Options = opts
	}
	return m, v, why
}

// options walks code:u16 len:u16 value[len] triples that must tile b exactly.
func (d *dec) options(b []byte, table int) ([]*Node, Verdict, string) {
	var out []*Node
	if d.build {
		out = []*Node{}
	}
	v, why := Accept, ""
	for len(b) > 0 {
		if len(b) < 4 {
			return nil, Reject, "framing: 1-3 trailing octets after the last option"
		}
		code := u16(b)
		l := int(u16(b[2:]))
		if 4+l > len(b) {
			return nil, Reject, "framing: option value overruns its container"
		}
		n, ov, owhy := d.option(code, b[4:4+l], table)
		if ov == Reject {
			return nil, Reject, owhy
		}
		if ov > v {
			v, why = ov, owhy
		}
		if d.build && v.HasTree() {
			out = append(out, n)
		}
		b = b[4+l:]
	}
	if !v.HasTree() {
		return nil, v, why
	}
	return out, v, why
}

func (d *dec) node(code uint16, name string, p []byte) *Node {
	if !d.build {
		return nil
	}
	return &Node{Code: code, Name: name, Raw: cp(p)}
}

func (d *dec) opaque(code uint16, p []byte) *Node {
	if !d.build {
		return nil
	}
	return &Node{Code: code, Name: NameOpaque, Raw: cp(p), Fields: []Field{{"Data", cp(p)}}}
}

// container decodes a fixed part of `fixed` octets followed by nested options.
func (d *dec) container(n *Node, p []byte, fixed int) (*Node, Verdict, string) {
	ch, v, why := d.options(p[fixed:], tableTop)
	if !v.HasTree() {
		return nil, v, why
	}
	if d.build {
		n.Children = ch
	}
	return n, v, why
}

func (d *dec) option(code uint16, p []byte, table int) (*Node, Verdict, string) {
	switch table {
	case tableOpaque:
		return d.opaque(code, p), Accept, ""
	case tableNTP:
		return d.ntpSub(code, p)
	}
	switch code {
	case CodeClientID, CodeServerID:
		return d.duid(code, p)

	case CodeIANA, CodeIAPD:
		// RFC 8415 §21.4 / §21.21: IAID[4] T1:u32 T2:u32 options
		if len(p) < 12 {
			if code == CodeIANA {
				return nil, Reject, "IA_NA: shorter than 12 octets"
			}
			return nil, Reject, "IA_PD: shorter than 12 octets"
		}
		n := d.node(code, names[code], p)
		if d.build {
			n.Fields = []Field{{"IAID", cp(p[0:4])}, {"T1", u32(p[4:])}, {"T2", u32(p[8:])}}
		}
		return d.container(n, p, 12)

	case CodeIATA:
		// RFC 8415 §21.5: IAID[4] options
		if len(p) < 4 {
			return nil, Reject, "IA_TA: shorter than 4 octets"
		}
		n := d.node(code, names[code], p)
		if d.build {
			n.Fields = []Field{{"IAID", cp(p[0:4])}}
		}
		return d.container(n, p, 4)

	case CodeIAAddr:
		// RFC 8415 §21.6: address[16] preferred:u32 valid:u32 options
		if len(p) < 24 {
			return nil, Reject, "IAADDR: shorter than 24 octets"
		}
		n := d.node(code, names[code], p)
		if d.build {
			n.Fields = []Field{{"Addr", cp(p[0:16])}, {"Preferred", u32(p[16:])}, {"Valid", u32(p[20:])}}
		}
		return d.container(n, p, 24)

	case CodeIAPrefix:
		// RFC 8415 §21.22: preferred:u32 valid:u32 prefix-length:u8 prefix[16] options
		if len(p) < 25 {
			return nil, Reject, "IAPREFIX: shorter than 25 octets"
		}
		n := d.node(code, names[code], p)
		if d.build {
			n.Fields = []Field{{"Preferred", u32(p[0:])}, {"Valid", u32(p[4:])}, {"PrefixLen", uint64(p[8])}, {"Prefix", cp(p[9:25])}}
		}
		n, v, why := d.container(n, p, 25)
		if v == Reject {
			return nil, v, why
		}
		uv, uwhy := Accept, ""
		if p[8] > 128 {
			uv, uwhy = Unspecified, WhyPrefixLenRange
		} else if p[8] == 0 && !allZero(p[9:25]) {
			uv, uwhy = Unspecified, WhyPrefixZeroLenBits
		}
		if uv > v {
			return nil, uv, uwhy
		}
		return n, v, why

	case CodeORO:
		// RFC 8415 §21.7: requested-option-code:u16 *
		if len(p)%2 != 0 {
			return nil, Reject, "ORO: odd length"
		}
		n := d.node(code, names[code], p)
		if d.build {
			n.Fields = []Field{{"Codes", u16list(p)}}
		}
		if len(p) == 0 {
			return n, MayReject, WhyOROEmpty
		}
		return n, Accept, ""

	case CodeElapsed:
		// RFC 8415 §21.9: elapsed-time:u16 in hundredths of a second, option-len 2
		if len(p) != 2 {
			return nil, Reject, "elapsed-time: length is not 2"
		}
		n := d.node(code, names[code], p)
		if d.build {
			n.Fields = []Field{{"Centis", uint64(u16(p))}}
		}
		return n, Accept, ""

	case CodeRelayMsg:
		// RFC 8415 §21.10: a complete DHCP message
		inner, v, why := d.message(p)
		if !v.HasTree() {
			return nil, v, why
		}
		n := d.node(code, names[code], p)
		if d.build {
			n.Inner = inner
		}
		return n, v, why

	case CodeStatus:
		// RFC 8415 §21.13: status-code:u16 status-message (UTF-8, not NUL-terminated)
		if len(p) < 2 {
			return nil, Reject, "status-code: shorter than 2 octets"
		}
		n := d.node(code, names[code], p)
		if d.build {
			n.Fields = []Field{{"Status", uint64(u16(p))}, {"Message", string(p[2:])}}
		}
		return n, Accept, ""

	case CodeUserClass:
		// RFC 8415 §21.15: one or more (user-class-len:u16 opaque-data[len])
		if len(p) == 0 {
			return nil, Reject, "user-class: no user class data instance"
		}
		items, ok, zero := d.lenItems(p)
		if !ok {
			return nil, Reject, "user-class: length-prefixed items do not tile the option"
		}
		n := d.node(code, names[code], p)
		if d.build {
			n.Fields = []Field{{"Items", items}}
		}
		if zero {
			return n, MayReject, WhyUserClassZeroItem
		}
		return n, Accept, ""

	case CodeVendorClass:
		// RFC 8415 §21.16: enterprise-number:u32, one or more (vendor-class-len:u16 opaque-data[len])
		if len(p) < 4 {
			return nil, Reject, "vendor-class: shorter than 4 octets"
		}
		if len(p) == 4 {
			return nil, Reject, "vendor-class: no vendor class data item"
		}
		items, ok, zero := d.lenItems(p[4:])
		if !ok {
			return nil, Reject, "vendor-class: length-prefixed items do not tile the option"
		}
		n := d.node(code, names[code], p)
		if d.build {
			n.Fields = []Field{{"Enterprise", u32(p)}, {"Items", items}}
		}
		if zero {
			return n, MayReject, WhyVendorClassZeroItem
		}
		return n, Accept, ""

	case CodeVendorOpts:
		// RFC 8415 §21.17: enterprise-number:u32, (sub-opt-code:u16 sub-option-len:u16 data)*
		if len(p) < 4 {
			return nil, Reject, "vendor-opts: shorter than 4 octets"
		}
		ch, v, _ := d.options(p[4:], tableOpaque)
		if v == Reject {
			return nil, Reject, "vendor-opts: sub-options do not tile the option"
		}
		n := d.node(code, names[code], p)
		if d.build {
			n.Fields = []Field{{"Enterprise", u32(p)}}
			n.Children = ch
		}
		if len(p) == 4 {
			return n, MayReject, WhyVendorOptsEmpty
		}
		return n, Accept, ""

	case CodeInterfaceID:
		// RFC 8415 §21.18: opaque
		n := d.node(code, names[code], p)
		if d.build {
			n.Fields = []Field{{"ID", cp(p)}}
		}
		return n, Accept, ""

	case CodeDNS, CodeDHCP4o6Srv:
		// RFC 3646 §3 / RFC 7341 §7.2: IPv6 address[16] *
		if len(p)%16 != 0 {
			if code == CodeDNS {
				return nil, Reject, "dns-servers: length is not a multiple of 16"
			}
			return nil, Reject, "dhcp4o6-servers: length is not a multiple of 16"
		}
		n := d.node(code, names[code], p)
		if d.build {
			n.Fields = []Field{{"Addrs", cp(p)}}
		}
		if len(p) == 0 && code == CodeDNS {
			// option 88 may be empty by RFC 7341 §7.2 ("Minimal length of this option is 0")
			return n, MayReject, WhyDNSEmpty
		}
		return n, Accept, ""

	case CodeDomainList:
		// RFC 3646 §4: list of domain names, RFC 1035 §3.1 encoding
		nm, v, why, info := nameList(p, d.build)
		if !v.HasTree() {
			if v == Reject {
				return nil, v, "domain-list: " + why[len("name: "):]
			}
			return nil, v, why
		}
		n := d.node(code, names[code], p)
		if d.build {
			n.Fields = []Field{{"Names", nm}}
		}
		if info.count == 0 {
			v, why = soften(v, why, WhyDomainListEmpty)
		}
		if info.partial {
			// RFC 3646 §4: each name is a complete RFC 1035 §3.1 name; only RFC 4704 defines a partial name
			v, why = soften(v, why, WhyNamePartial)
		}
		return n, v, why

	case CodeInfoRefresh:
		// RFC 8415 §21.23: information-refresh-time:u32, option-len 4
		if len(p) != 4 {
			return nil, Reject, "info-refresh-time: length is not 4"
		}
		n := d.node(code, names[code], p)
		if d.build {
			n.Fields = []Field{{"Seconds", u32(p)}}
		}
		return n, Accept, ""

	case CodeRemoteID:
		// RFC 4649 §3: enterprise-number:u32 remote-id
		if len(p) < 4 {
			return nil, Reject, "remote-id: shorter than 4 octets"
		}
		n := d.node(code, names[code], p)
		if d.build {
			n.Fields = []Field{{"Enterprise", u32(p)}, {"ID", cp(p[4:])}}
		}
		return n, Accept, ""

	case CodeFQDN:
		// RFC 4704 §4: flags:u8 domain-name (RFC 1035 §3.1; may be partial, §4.2)
		if len(p) < 1 {
			return nil, Reject, "FQDN: shorter than 1 octet"
		}
		nm, v, why, info := nameList(p[1:], d.build)
		if !v.HasTree() {
			if v == Reject {
				return nil, v, "FQDN: " + why[len("name: "):]
			}
			return nil, v, why
		}
		n := d.node(code, names[code], p)
		if d.build {
			n.Fields = []Field{{"Flags", uint64(p[0])}, {"Names", nm}}
		}
		if info.count > 1 {
			// RFC 4704 §4: the Domain Name field holds one (possibly partial, possibly empty) name
			v, why = soften(v, why, WhyNameMultiple)
		}
		return n, v, why

	case CodeNTP:
		// RFC 5908 §4: (suboption-code:u16 suboption-len:u16 value)*
		ch, v, why := d.options(p, tableNTP)
		if !v.HasTree() {
			if v == Reject && len(why) > 8 && why[:8] == "framing:" {
				return nil, v, "NTP: sub-options do not tile the option"
			}
			return nil, v, why
		}
		n := d.node(code, names[code], p)
		if d.build {
			n.Children = ch
		}
		if v.HasTree() && countCode(p, 1)+countCode(p, 2)+countCode(p, 3) != 1 {
			// RFC 5908 §4: "This option MUST include one, and only one, time source suboption"
			v, why = soften(v, why, WhyNTPSourceCount)
		}
		return n, v, why

	case CodeBootURL:
		// RFC 5970 §3.1: boot-file URL string (not NUL-terminated)
		n := d.node(code, names[code], p)
		if d.build {
			n.Fields = []Field{{"URL", string(p)}}
		}
		return n, Accept, ""

	case CodeBootParam:
		// RFC 5970 §3.2: (param-len:u16 parameter[len])*
		items, ok, zero := d.lenItems(p)
		if !ok {
			return nil, Reject, "bootfile-param: length-prefixed items do not tile the option"
		}
		n := d.node(code, names[code], p)
		if d.build {
			n.Fields = []Field{{"Params", items}}
		}
		if len(p) == 0 {
			return n, MayReject, WhyBootParamEmpty
		}
		if zero {
			return n, MayReject, WhyBootParamZeroItem
		}
		return n, Accept, ""

	case CodeClientArch:
		// RFC 5970 §3.3: one or more architecture-type:u16
		if len(p) == 0 {
			return nil, Reject, "client-arch: no architecture type"
		}
		if len(p)%2 != 0 {
			return nil, Reject, "client-arch: odd length"
		}
		n := d.node(code, names[code], p)
		if d.build {
			n.Fields = []Field{{"Archs", u16list(p)}}
		}
		return n, Accept, ""

	case CodeNII:
		// RFC 5970 §3.4: type:u8 major:u8 minor:u8, option-len 3
		if len(p) != 3 {
			return nil, Reject, "NII: length is not 3"
		}
		n := d.node(code, names[code], p)
		if d.build {
			n.Fields = []Field{{"Type", uint64(p[0])}, {"Major", uint64(p[1])}, {"Minor", uint64(p[2])}}
		}
		return n, Accept, ""

	case CodeClientLLAddr:
		// RFC 6939 §4: link-layer type:u16 link-layer address
		if len(p) < 2 {
			return nil, Reject, "client-lladdr: shorter than 2 octets"
		}
		n := d.node(code, names[code], p)
		if d.build {
			n.Fields = []Field{{"HWType", uint64(u16(p))}, {"LLAddr", cp(p[2:])}}
		}
		return n, Accept, ""

	case CodeDHCPv4Msg:
		// RFC 7341 §7.1: a complete DHCPv4 message
		pk, err := v4ref.Decode(p)
		if err != nil {
			return nil, Reject, "DHCPv4-msg: embedded DHCPv4 message malformed"
		}
		n := d.node(code, names[code], p)
		if d.build {
			n.Fields, n.Children = V4Tree(pk)
		}
		// shapes that only v4ref's own leniencies accept (RFC 2131 §2/§4.1): no End option at
		// all, non-zero octets after End, hlen beyond the 16-octet chaddr field
		if pk.EndAt < 0 || pk.HLen > 16 || !allZero(p[pk.EndAt+1:]) {
			return n, MayReject, WhyV4Lenient
		}
		return n, Accept, ""

	case Code4RD:
		// RFC 7600 §4.9: encapsulated options
		n := d.node(code, names[code], p)
		n, v, why := d.container(n, p, 0)
		if v.HasTree() && (countCode(p, Code4RDMap) == 0 || countCode(p, Code4RDNonMap) > 1) {
			// RFC 7600 §4.9: "at least one encapsulated OPTION_4RD_MAP_RULE option and a maximum
			// of one encapsulated OPTION_4RD_NON_MAP_RULE option"
			v, why = soften(v, why, Why4RDRuleCount)
		}
		return n, v, why

	case Code4RDMap:
		// RFC 7600 §4.9: prefix4-len prefix6-len ea-len W|reserved rule-ipv4-prefix[4] rule-ipv6-prefix[16]; option-len 24
		if len(p) != 24 {
			return nil, Reject, "4RD-map-rule: length is not 24"
		}
		if p[0] > 32 || p[1] > 128 {
			return nil, Unspecified, Why4RDPrefixLenRange
		}
		n := d.node(code, names[code], p)
		if d.build {
			n.Fields = []Field{{"Prefix4Len", uint64(p[0])}, {"Prefix6Len", uint64(p[1])}, {"EALen", uint64(p[2])},
				{"WKP", p[3]&0x80 != 0}, {"Prefix4", cp(p[4:8])}, {"Prefix6", cp(p[8:24])}}
		}
		return n, Accept, ""

	case Code4RDNonMap:
		// RFC 7600 §4.9: H|reserved|T traffic-class domain-pmtu:u16; option-len 4
		if len(p) != 4 {
			return nil, Reject, "4RD-non-map-rule: length is not 4"
		}
		n := d.node(code, names[code], p)
		if d.build {
			t := p[0]&0x01 != 0
			tc := uint64(0)
			if t {
				tc = uint64(p[1])
			}
			n.Fields = []Field{{"HubAndSpoke", p[0]&0x80 != 0}, {"HasTClass", t}, {"TClass", tc}, {"PMTU", uint64(u16(p[2:]))}}
		}
		return n, Accept, ""

	case CodeRelayPort:
		// RFC 8357 §4: downstream source port:u16, option-len 2
		if len(p) != 2 {
			return nil, Reject, "relay-port: length is not 2"
		}
		n := d.node(code, names[code], p)
		if d.build {
			n.Fields = []Field{{"Port", uint64(u16(p))}}
		}
		return n, Accept, ""
	}
	return d.opaque(code, p), Accept, ""
}

// ntpSub: RFC 5908 §4.1-4.3 sub-options.
func (d *dec) ntpSub(code uint16, p []byte) (*Node, Verdict, string) {
	switch code {
	case 1, 2:
		if len(p) != 16 {
			if code == 1 {
				return nil, Reject, "NTP: server address sub-option length is not 16"
			}
			return nil, Reject, "NTP: multicast address sub-option length is not 16"
		}
		name := NameNTPSrvAddr
		if code == 2 {
			name = NameNTPMCAddr
		}
		n := d.node(code, name, p)
		if d.build {
			n.Fields = []Field{{"Addr", cp(p)}}
		}
		return n, Accept, ""
	case 3:
		nm, v, why, info := nameList(p, d.build)
		if !v.HasTree() {
			if v == Reject {
				return nil, v, "NTP: server FQDN " + why[len("name: "):]
			}
			return nil, v, why
		}
		n := d.node(code, NameNTPSrvFQDN, p)
		if d.build {
			n.Fields = []Field{{"Names", nm}}
		}
		// RFC 5908 §4.3: one fully qualified name, RFC 1035 §3.1 encoding
		if info.count != 1 {
			v, why = soften(v, why, WhyNameMultiple)
		}
		if info.partial {
			v, why = soften(v, why, WhyNamePartial)
		}
		return n, v, why
	}
	return d.opaque(code, p), Accept, ""
}

// duid: RFC 8415 §11, RFC 6355.
func (d *dec) duid(code uint16, p []byte) (*Node, Verdict, string) {
	cid := code == CodeClientID
	rej := func(c, s string) (*Node, Verdict, string) {
		if cid {
			return nil, Reject, c
		}
		return nil, Reject, s
	}
	if len(p) < 2 {
		return rej("client-id: DUID shorter than its 2-octet type", "server-id: DUID shorter than its 2-octet type")
	}
	t := u16(p)
	r := p[2:]
	var f []Field
	switch t {
	case 1: // DUID-LLT: hardware type:u16 time:u32 link-layer address
		if len(r) < 6 {
			return rej("client-id: DUID-LLT fixed part short", "server-id: DUID-LLT fixed part short")
		}
		if d.build {
			f = []Field{{"DUIDType", uint64(t)}, {"HWType", uint64(u16(r))}, {"Time", u32(r[2:])}, {"LLAddr", cp(r[6:])}}
		}
	case 2: // DUID-EN: enterprise-number:u32 identifier
		if len(r) < 4 {
			return rej("client-id: DUID-EN fixed part short", "server-id: DUID-EN fixed part short")
		}
		if d.build {
			f = []Field{{"DUIDType", uint64(t)}, {"Enterprise", u32(r)}, {"ID", cp(r[4:])}}
		}
	case 3: // DUID-LL: hardware type:u16 link-layer address
		if len(r) < 2 {
			return rej("client-id: DUID-LL fixed part short", "server-id: DUID-LL fixed part short")
		}
		if d.build {
			f = []Field{{"DUIDType", uint64(t)}, {"HWType", uint64(u16(r))}, {"LLAddr", cp(r[2:])}}
		}
	case 4: // DUID-UUID: 128-bit UUID
		if len(r) != 16 {
			return rej("client-id: DUID-UUID is not 16 octets", "server-id: DUID-UUID is not 16 octets")
		}
		if d.build {
			f = []Field{{"DUIDType", uint64(t)}, {"UUID", cp(r)}}
		}
	default:
		if d.build {
			f = []Field{{"DUIDType", uint64(t)}, {"Data", cp(r)}}
		}
	}
	n := d.node(code, names[code], p)
	if d.build {
		n.Fields = f
	}
	// RFC 8415 §11.1: "The length of the DUID (not including the type code) is at least 1
	// octet and at most 128 octets"; §11.2-11.4: the link-layer address / identifier is the
	// point of the DUID, an empty one identifies nothing
	variable := len(r)
	switch t {
	case 1:
		variable = len(r) - 6
	case 2:
		variable = len(r) - 4
	case 3:
		variable = len(r) - 2
	}
	if len(r) > 128 || variable == 0 {
		return n, MayReject, WhyDUIDLength
	}
	return n, Accept, ""
}

// lenItems reads (len:u16 data[len])* which must tile p exactly.
func (d *dec) lenItems(p []byte) (items []string, ok bool, zeroItem bool) {
	var out []string
	if d.build {
		out = []string{}
	}
	for len(p) > 0 {
		if len(p) < 2 {
			return nil, false, false
		}
		l := int(u16(p))
		if 2+l > len(p) {
			return nil, false, false
		}
		if l == 0 {
			zeroItem = true
		}
		if d.build {
			out = append(out, string(p[2:2+l]))
		}
		p = p[2+l:]
	}
	return out, true, zeroItem
}

func u16list(p []byte) []uint16 {
	out := make([]uint16, 0, len(p)/2)
	for i := 0; i+1 < len(p); i += 2 {
		out = append(out, u16(p[i:]))
	}
	return out
}

func allZero(b []byte) bool {
	for _, x := range b {
		if x != 0 {
			return false
		}
	}
	return true
}

// V4Tree renders a reference DHCPv4 packet as the fields/children of the
// DHCPv4-msg node: header fields in wire order, options as children sorted by
// code (per-code concatenation, RFC 3396), each {Data}.
func V4Tree(p *v4ref.Packet) ([]Field, []*Node) {
	f := []Field{
		{"Op", uint64(p.Op)}, {"HType", uint64(p.HType)}, {"Hops", uint64(p.Hops)}, {"Xid", cp(p.Xid[:])},
		{"Secs", uint64(p.Secs)}, {"Flags", uint64(p.Flags)},
		{"CIAddr", cp(p.CIAddr[:])}, {"YIAddr", cp(p.YIAddr[:])}, {"SIAddr", cp(p.SIAddr[:])}, {"GIAddr", cp(p.GIAddr[:])},
		{"CHAddr", cp(p.CHAddr)}, {"SName", p.SName}, {"File", p.File},
	}
	codes := make([]int, 0, len(p.Opts))
	for c := range p.Opts {
		codes = append(codes, int(c))
	}
	sort.Ints(codes)
	ch := make([]*Node, 0, len(codes))
	for _, c := range codes {
		ch = append(ch, &Node{Code: uint16(c), Name: NameV4Option, Fields: []Field{{"Data", cp(p.Opts[uint8(c)])}}})
	}
	return f, ch
}
