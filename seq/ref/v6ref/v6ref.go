// Package v6ref is an independent DHCPv6 reference decoder written from the
// RFC texts (RFC 8415 and the per-option RFCs 3319/3646/4649/4704/5908/5970/
// 6355/6939/7341/7600/8357); it shares no code with the library under test
// (stdlib plus the sibling reference model v4ref only).
//
// It turns a byte string into a generic *value tree* (Msg / Node / Field) and a
// four-valued Verdict:
//
//	Accept       well-formed; the tree is what the RFCs say the bytes mean
//	MayReject    framing and field layout are satisfied and a tree exists, but an
//	             RFC sentence makes refusing the input defensible (compressed
//	             names, empty "one or more" lists, zero-length class items, DUID
//	             length outside 1..128, relay message without relay-msg, … — see
//	             MayRejectClasses). A decoder may fail; if it accepts it must
//	             produce exactly this tree.
//	Unspecified  the RFC text assigns no reading (see UnspecifiedClasses); a
//	             decoder may do either, only stability is demanded of it
//	Reject       malformed: every conforming decoder must return an error
//
// Combination inside a message: Reject > Unspecified > MayReject > Accept, i.e.
// a message holding an Unspecified option is Unspecified unless something else
// in it is malformed, in which case it is Reject.
//
// Layout rules are those of Appendix B of /verif/DESIGN.md. Framing everywhere:
// code:u16 len:u16 value[len]; options tile their container exactly; 1–3
// trailing bytes or an overrun is a Reject. Message header 4 bytes; relay header
// 34 bytes for types 12 and 13. Unknown codes are opaque, kept verbatim and are
// never rejected.
package v6ref

import (
	"bytes"
	"fmt"
	"sort"
	"strings"
)

// Verdict is the outcome class of decoding.
type Verdict int

const (
	Accept Verdict = iota
	MayReject
	Unspecified
	Reject
)

func (v Verdict) String() string {
	switch v {
	case Accept:
		return "ACCEPT"
	case MayReject:
		return "MAY-REJECT"
	case Unspecified:
		return "UNSPECIFIED"
	}
	return "REJECT"
}

// HasTree reports whether a tree accompanies the verdict (Accept or MayReject).
func (v Verdict) HasTree() bool { return v == Accept || v == MayReject }

func worse(a, b Verdict) Verdict {
	if b > a {
		return b
	}
	return a
}

// Field is one typed leaf of an option. Val is one of: uint64, string, []byte,
// bool, []string, []uint16.
type Field struct {
	Name string
	Val  any
}

// Node is one decoded option (or sub-option, or embedded DHCPv4 option).
type Node struct {
	Code     uint16
	Name     string  // layout name: "IA_NA", "status-code", … ; "opaque" for unknown codes
	Fields   []Field // typed leaves in wire order
	Children []*Node // nested options in wire order (DHCPv4 options: ascending code)
	Inner    *Msg    // option 9 (relay-msg): the encapsulated message
	Raw      []byte  // the option payload as found on the wire (informational; not compared by Equal)
}

// Msg is a decoded DHCPv6 message or relay message.
type Msg struct {
	Relay      bool // type 12 or 13: Hop/Link/Peer are meaningful, Xid is not
	Type       uint8
	Xid        [3]byte
	Hop        uint8
	Link, Peer [16]byte
	Options    []*Node
}

// Option codes known to the reference decoder (Appendix B).
const (
	CodeClientID     = 1
	CodeServerID     = 2
	CodeIANA         = 3
	CodeIATA         = 4
	CodeIAAddr       = 5
	CodeORO          = 6
	CodeElapsed      = 8
	CodeRelayMsg     = 9
	CodeStatus       = 13
	CodeUserClass    = 15
	CodeVendorClass  = 16
	CodeVendorOpts   = 17
	CodeInterfaceID  = 18
	CodeDNS          = 23
	CodeDomainList   = 24
	CodeIAPD         = 25
	CodeIAPrefix     = 26
	CodeInfoRefresh  = 32
	CodeRemoteID     = 37
	CodeFQDN         = 39
	CodeNTP          = 56
	CodeBootURL      = 59
	CodeBootParam    = 60
	CodeClientArch   = 61
	CodeNII          = 62
	CodeClientLLAddr = 79
	CodeDHCPv4Msg    = 87
	CodeDHCP4o6Srv   = 88
	Code4RD          = 97
	Code4RDMap       = 98
	Code4RDNonMap    = 99
	CodeRelayPort    = 135
)

var names = map[uint16]string{
	CodeClientID: "client-id", CodeServerID: "server-id", CodeIANA: "IA_NA", CodeIATA: "IA_TA",
	CodeIAAddr: "IAADDR", CodeORO: "ORO", CodeElapsed: "elapsed-time", CodeRelayMsg: "relay-msg",
	CodeStatus: "status-code", CodeUserClass: "user-class", CodeVendorClass: "vendor-class",
	CodeVendorOpts: "vendor-opts", CodeInterfaceID: "interface-id", CodeDNS: "dns-servers",
	CodeDomainList: "domain-list", CodeIAPD: "IA_PD", CodeIAPrefix: "IAPREFIX",
	CodeInfoRefresh: "info-refresh-time", CodeRemoteID: "remote-id", CodeFQDN: "FQDN", CodeNTP: "NTP",
	CodeBootURL: "bootfile-url", CodeBootParam: "bootfile-param", CodeClientArch: "client-arch",
	CodeNII: "NII", CodeClientLLAddr: "client-lladdr", CodeDHCPv4Msg: "DHCPv4-msg",
	CodeDHCP4o6Srv: "dhcp4o6-servers", Code4RD: "4RD", Code4RDMap: "4RD-map-rule",
	Code4RDNonMap: "4RD-non-map-rule", CodeRelayPort: "relay-port",
}

// Names of nodes that do not live in the top-level code space.
const (
	NameOpaque     = "opaque"       // unknown code, any level: Fields = {Data []byte}
	NameNTPSrvAddr = "ntp-srv-addr" // NTP sub-option 1
	NameNTPMCAddr  = "ntp-mc-addr"  // NTP sub-option 2
	NameNTPSrvFQDN = "ntp-srv-fqdn" // NTP sub-option 3
	NameV4Option   = "v4-option"    // option of an embedded DHCPv4 message: Fields = {Data []byte}
)

// KnownCodes returns the top-level option codes with a typed layout, ascending.
func KnownCodes() []uint16 {
	out := make([]uint16, 0, len(names))
	for c := range names {
		out = append(out, c)
	}
	sort.Slice(out, func(i, j int) bool { return out[i] < out[j] })
	return out
}

// KnownNTPSubCodes returns the NTP (option 56) sub-option codes with a typed layout.
func KnownNTPSubCodes() []uint16 { return []uint16{1, 2, 3} }

// OptionName returns the layout name of a top-level code ("opaque" if unknown).
func OptionName(code uint16) string {
	if n, ok := names[code]; ok {
		return n
	}
	return NameOpaque
}

// UnspecifiedClasses lists the a-priori input classes for which the verdict is
// Unspecified (DESIGN.md §2.2 / §8a.1), by the reason tag returned as `why`.
func UnspecifiedClasses() []string {
	return []string{
		WhyNameReserved, WhyNamePtrOutside, WhyNamePtrUnterminated, WhyNamePtrLoop, WhyNameLong,
		WhyPrefixLenRange, WhyPrefixZeroLenBits, Why4RDPrefixLenRange,
	}
}

// Reason tags of the Unspecified classes.
const (
	WhyNameReserved        = "name: reserved label type (top bits 01/10)"
	WhyNamePtrOutside      = "name: compression pointer leaves the option"
	WhyNamePtrUnterminated = "name: compression pointer lands on an unterminated tail"
	WhyNamePtrLoop         = "name: compression pointers loop"
	WhyNameLong            = "name: longer than 255 octets"
	WhyPrefixLenRange      = "IAPREFIX: prefix length > 128"
	WhyPrefixZeroLenBits   = "IAPREFIX: prefix length 0 with non-zero address bits"
	Why4RDPrefixLenRange   = "4RD-map-rule: prefix4 length > 32 or prefix6 length > 128"
)

// Reason tags of the MayReject classes: the framing and the option's field
// layout are satisfied and a reading exists, but a sentence of the RFC makes
// refusing the input defensible. A decoder may reject; if it accepts, its value
// must equal the reference tree.
const (
	WhyNamePtrChain        = "name: compression pointer chain"                           // RFC 8415 §10: names MUST NOT be compressed; §8a.7
	WhyNameCompressed      = "name: compression pointer"                                 // RFC 8415 §10 (RFC 3315 §8)
	WhyNameRoot            = "name: root name (zero labels)"                             // not a usable search domain / host name
	WhyNamePartial         = "name: trailing partial name outside the FQDN option"       // RFC 3646 §4, RFC 5908 §4.3: complete names; only RFC 4704 §4.2 defines partial names
	WhyNameMultiple        = "name: not exactly one name where a single name is defined" // RFC 4704 §4 (more than one), RFC 5908 §4.3 (zero or more than one)
	WhyDomainListEmpty     = "domain-list: no name"                                      // RFC 3646 §4: "list of domain names"
	WhyDUIDLength          = "DUID: empty variable part or longer than 128 octets"       // RFC 8415 §11.1
	WhyOROEmpty            = "ORO: no requested option code"                             // RFC 8415 §21.7
	WhyDNSEmpty            = "dns-servers: no address"                                   // RFC 3646 §3
	Why4o6Empty            = "dhcp4o6-servers: no address"                               // RFC 7341 §7.2 explicitly allows it, kept two-valued for symmetry with option 23
	WhyUserClassZeroItem   = "user-class: zero-length user class data item"              // RFC 8415 §21.15
	WhyVendorClassZeroItem = "vendor-class: zero-length vendor class data item"          // RFC 8415 §21.16
	WhyVendorOptsEmpty     = "vendor-opts: no sub-option"                                // RFC 8415 §21.17: the option exists to carry vendor options
	WhyBootParamEmpty      = "bootfile-param: no parameter"                              // RFC 5970 §3.2
	WhyBootParamZeroItem   = "bootfile-param: zero-length parameter"                     // RFC 5970 §3.2
	WhyNTPSourceCount      = "NTP: not exactly one time source sub-option"               // RFC 5908 §4: "MUST include one, and only one, time source suboption"
	Why4RDRuleCount        = "4RD: no map rule or more than one non-map rule"            // RFC 7600 §4.9
	WhyRelayNoMsg          = "relay message without a relay-msg option"                  // RFC 8415 §9.1, §21.10
	WhyV4Lenient           = "DHCPv4-msg: no End option, octets after End, or hlen > 16" // RFC 2131 §2, §4.1
)

// MayRejectClasses lists the reason tags of the MayReject verdict.
func MayRejectClasses() []string {
	return []string{
		WhyNamePtrChain, WhyNameCompressed, WhyNameRoot, WhyNamePartial, WhyNameMultiple, WhyDomainListEmpty,
		WhyDUIDLength, WhyOROEmpty, WhyDNSEmpty, WhyUserClassZeroItem, WhyVendorClassZeroItem,
		WhyVendorOptsEmpty, WhyBootParamEmpty, WhyBootParamZeroItem, WhyNTPSourceCount, Why4RDRuleCount,
		WhyRelayNoMsg, WhyV4Lenient,
	}
}

// Leniencies documents what this decoder still *requires* a library to accept
// (verdict Accept) although a reader might expect a stricter rule; everything
// for which an RFC sentence makes rejection defensible is MayReject instead
// (see MayRejectClasses).
func Leniencies() []string {
	return []string{
		"dhcp4o6-servers (88) with no address is Accept: RFC 7341 §7.2 gives the option a minimal length of 0 (the client then uses the well-known multicast address)",
		"empty opaque values are Accept: interface-id, remote-id (enterprise number only), bootfile-url, status message, client link-layer address (type only), unknown options of length 0",
		"FQDN (39): an empty Domain Name field and a trailing partial name are Accept (RFC 4704 §4.2)",
		"not layout, hence never a reason to reject or to allow rejection: FQDN flags, 4RD reserved flag bits and the traffic-class octet when T=0, status code values, message type values (any type other than 12/13 is a plain message), hop count, which option may appear in which message/container, repeated options",
		"a relay message may carry options after (or several) relay-msg options",
		"DUID-UUID: exactly 16 octets required (RFC 6355 §4) — strict, listed for completeness",
	}
}

// ---------------------------------------------------------------- equality

// Equal compares two message trees. path locates the first difference
// (e.g. "options[1](IA_NA).children[0](IAADDR).Valid"), desc says what differs.
func Equal(a, b *Msg) (ok bool, path string, desc string) {
	return equalMsg(a, b, "")
}

func equalMsg(a, b *Msg, p string) (bool, string, string) {
	if a == nil || b == nil {
		if a == b {
			return true, "", ""
		}
		return false, p + "message", fmt.Sprintf("nil vs non-nil (%v / %v)", a == nil, b == nil)
	}
	if a.Relay != b.Relay {
		return false, p + "relay", fmt.Sprintf("%v vs %v", a.Relay, b.Relay)
	}
	if a.Type != b.Type {
		return false, p + "type", fmt.Sprintf("%d vs %d", a.Type, b.Type)
	}
	if a.Relay {
		if a.Hop != b.Hop {
			return false, p + "hop", fmt.Sprintf("%d vs %d", a.Hop, b.Hop)
		}
		if a.Link != b.Link {
			return false, p + "link", fmt.Sprintf("%x vs %x", a.Link, b.Link)
		}
		if a.Peer != b.Peer {
			return false, p + "peer", fmt.Sprintf("%x vs %x", a.Peer, b.Peer)
		}
	} else if a.Xid != b.Xid {
		return false, p + "xid", fmt.Sprintf("%x vs %x", a.Xid, b.Xid)
	}
	return equalList(a.Options, b.Options, p+"options")
}

func equalList(a, b []*Node, p string) (bool, string, string) {
	for i := 0; i < len(a) && i < len(b); i++ {
		if ok, pp, d := equalNode(a[i], b[i], fmt.Sprintf("%s[%d]", p, i)); !ok {
			return false, pp, d
		}
	}
	if len(a) != len(b) {
		return false, p + ".len", fmt.Sprintf("%d vs %d options (%s / %s)", len(a), len(b), listCodes(a), listCodes(b))
	}
	return true, "", ""
}

func listCodes(l []*Node) string {
	var s []string
	for _, n := range l {
		if n == nil {
			s = append(s, "nil")
		} else {
			s = append(s, fmt.Sprint(n.Code))
		}
	}
	return "[" + strings.Join(s, " ") + "]"
}

// EqualNode compares two option trees (Raw is ignored).
func EqualNode(a, b *Node) (ok bool, path string, desc string) {
	return equalNode(a, b, "option")
}

func equalNode(a, b *Node, p string) (bool, string, string) {
	if a == nil || b == nil {
		if a == b {
			return true, "", ""
		}
		return false, p, fmt.Sprintf("nil vs non-nil (%v / %v)", a == nil, b == nil)
	}
	if a.Code != b.Code || a.Name != b.Name {
		return false, p + ".kind", fmt.Sprintf("%d(%s) vs %d(%s)", a.Code, a.Name, b.Code, b.Name)
	}
	p = p + "(" + a.Name + ")"
	for i := 0; i < len(a.Fields) && i < len(b.Fields); i++ {
		fa, fb := a.Fields[i], b.Fields[i]
		if fa.Name != fb.Name {
			return false, p + ".fields", fmt.Sprintf("field %d is %q vs %q", i, fa.Name, fb.Name)
		}
		if !valEqual(fa.Val, fb.Val) {
			return false, p + "." + fa.Name, fmt.Sprintf("%s vs %s", valString(fa.Val), valString(fb.Val))
		}
	}
	if len(a.Fields) != len(b.Fields) {
		return false, p + ".fields", fmt.Sprintf("%d vs %d fields (%s / %s)", len(a.Fields), len(b.Fields), fieldNames(a), fieldNames(b))
	}
	if (a.Inner == nil) != (b.Inner == nil) {
		return false, p + ".inner", "embedded message present on one side only"
	}
	if a.Inner != nil {
		if ok, pp, d := equalMsg(a.Inner, b.Inner, p+".inner."); !ok {
			return false, pp, d
		}
	}
	return equalList(a.Children, b.Children, p+".children")
}

func fieldNames(n *Node) string {
	var s []string
	for _, f := range n.Fields {
		s = append(s, f.Name)
	}
	return strings.Join(s, ",")
}

func valEqual(a, b any) bool {
	switch x := a.(type) {
	case uint64:
		y, ok := b.(uint64)
		return ok && x == y
	case string:
		y, ok := b.(string)
		return ok && x == y
	case bool:
		y, ok := b.(bool)
		return ok && x == y
	case []byte:
		y, ok := b.([]byte)
		return ok && bytes.Equal(x, y) // nil ≡ empty
	case []string:
		y, ok := b.([]string)
		if !ok || len(x) != len(y) {
			return false
		}
		for i := range x {
			if x[i] != y[i] {
				return false
			}
		}
		return true
	case []uint16:
		y, ok := b.([]uint16)
		if !ok || len(x) != len(y) {
			return false
		}
		for i := range x {
			if x[i] != y[i] {
				return false
			}
		}
		return true
	}
	return false
}

func valString(v any) string {
	switch x := v.(type) {
	case uint64:
		return fmt.Sprint(x)
	case string:
		if len(x) > 40 {
			return fmt.Sprintf("%q…(%d)", x[:32], len(x))
		}
		return fmt.Sprintf("%q", x)
	case bool:
		return fmt.Sprint(x)
	case []byte:
		if len(x) > 40 {
			return fmt.Sprintf("%x…(%d)", x[:32], len(x))
		}
		return fmt.Sprintf("%x", x)
	case []string:
		var s []string
		for _, e := range x {
			if len(e) > 40 {
				s = append(s, fmt.Sprintf("%q…(%d)", e[:32], len(e)))
			} else {
				s = append(s, fmt.Sprintf("%q", e))
			}
		}
		return "[" + strings.Join(s, " ") + "]"
	case []uint16:
		return fmt.Sprint(x)
	}
	return fmt.Sprintf("?%T(%v)", v, v)
}

// ---------------------------------------------------------------- rendering

// String is a compact deterministic rendering of the whole tree.
func (m *Msg) String() string {
	var sb strings.Builder
	m.write(&sb)
	return sb.String()
}

func (m *Msg) write(sb *strings.Builder) {
	if m == nil {
		sb.WriteString("<nil>")
		return
	}
	if m.Relay {
		fmt.Fprintf(sb, "relay{type=%d hop=%d link=%x peer=%x", m.Type, m.Hop, m.Link, m.Peer)
	} else {
		fmt.Fprintf(sb, "msg{type=%d xid=%x", m.Type, m.Xid)
	}
	writeList(sb, m.Options)
	sb.WriteString("}")
}

func writeList(sb *strings.Builder, l []*Node) {
	sb.WriteString(" [")
	for i, n := range l {
		if i > 0 {
			sb.WriteString(" ")
		}
		n.write(sb)
	}
	sb.WriteString("]")
}

// String is a compact deterministic rendering of the option tree.
func (n *Node) String() string {
	var sb strings.Builder
	n.write(&sb)
	return sb.String()
}

func (n *Node) write(sb *strings.Builder) {
	if n == nil {
		sb.WriteString("<nil>")
		return
	}
	fmt.Fprintf(sb, "%d:%s{", n.Code, n.Name)
	for i, f := range n.Fields {
		if i > 0 {
			sb.WriteString(" ")
		}
		sb.WriteString(f.Name)
		sb.WriteString("=")
		sb.WriteString(valString(f.Val))
	}
	if n.Inner != nil {
		sb.WriteString(" inner=")
		n.Inner.write(sb)
	}
	if len(n.Children) > 0 {
		writeList(sb, n.Children)
	}
	sb.WriteString("}")
}

// ---------------------------------------------------------------- measures

// Depth is the maximum option nesting depth of a message: 0 without options, 1
// for flat options, IA_NA→IAADDR→status-code = 3; the options of a message
// embedded in a relay-msg option count one level below that option.
func Depth(m *Msg) int {
	if m == nil {
		return 0
	}
	return listDepth(m.Options)
}

func listDepth(l []*Node) int {
	d := 0
	for _, n := range l {
		if x := NodeDepth(n); x > d {
			d = x
		}
	}
	return d
}

// NodeDepth is 1 + the depth of whatever the option contains.
func NodeDepth(n *Node) int {
	if n == nil {
		return 0
	}
	d := listDepth(n.Children)
	if n.Inner != nil {
		if x := Depth(n.Inner); x > d {
			d = x
		}
	}
	return 1 + d
}

// Count returns the total number of option nodes in the tree (all levels).
func Count(m *Msg) int {
	if m == nil {
		return 0
	}
	return countList(m.Options)
}

func countList(l []*Node) int {
	c := 0
	for _, n := range l {
		if n == nil {
			continue
		}
		c += 1 + countList(n.Children)
		if n.Inner != nil {
			c += Count(n.Inner)
		}
	}
	return c
}

// Walk calls f for every option node of the tree, parents before children.
func Walk(m *Msg, f func(n *Node)) {
	if m == nil {
		return
	}
	walkList(m.Options, f)
}

func walkList(l []*Node, f func(n *Node)) {
	for _, n := range l {
		if n == nil {
			continue
		}
		f(n)
		walkList(n.Children, f)
		if n.Inner != nil {
			Walk(n.Inner, f)
		}
	}
}

// DedupORO removes repeated codes (keeping first occurrences) from every ORO
// node of the tree, in place: the normalisation the C06 statement allows
// ("duplicate requested-option codes"). It returns m.
func DedupORO(m *Msg) *Msg {
	Walk(m, DedupORONode)
	return m
}

// DedupORONode applies the ORO normalisation to one node (no recursion).
func DedupORONode(n *Node) {
	if n == nil || n.Code != CodeORO || n.Name != names[CodeORO] {
		return
	}
	for i := range n.Fields {
		if l, ok := n.Fields[i].Val.([]uint16); ok && n.Fields[i].Name == "Codes" {
			seen := map[uint16]bool{}
			out := make([]uint16, 0, len(l))
			for _, c := range l {
				if !seen[c] {
					seen[c] = true
					out = append(out, c)
				}
			}
			n.Fields[i].Val = out
		}
	}
}

// PathClass strips the list indices from a path returned by Equal, giving a
// stable class for fingerprints: "options[3](IA_NA).children[0](IAADDR).Valid"
// becomes "options(IA_NA).children(IAADDR).Valid".
func PathClass(path string) string {
	var sb strings.Builder
	skip := false
	for i := 0; i < len(path); i++ {
		switch {
		case path[i] == '[':
			skip = true
		case path[i] == ']' && skip:
			skip = false
		case !skip:
			sb.WriteByte(path[i])
		}
	}
	return sb.String()
}

// DedupOROTree applies the ORO normalisation to n and everything below it.
func DedupOROTree(n *Node) {
	if n == nil {
		return
	}
	DedupORONode(n)
	for _, ch := range n.Children {
		DedupOROTree(ch)
	}
	if n.Inner != nil {
		DedupORO(n.Inner)
	}
}
