package v6ref

// Private RFC 1035 name-list reader (RFC 1035 §3.1 labels, §4.1.4 compression,
// RFC 4704 §4.2 trailing partial name). Everything that reads names goes through
// nameList, so the shared model verif/seq/ref/labelref can be swapped in there.
//
// Representation: a name is its labels joined with "."; the root name (a bare
// 00) is ""; a trailing partial name (labels running exactly to the end of the
// buffer without the terminating 00) is represented like a complete one.
//
// Classes:
//
//	Accept       plain labels (1..63 octets each) ended by 00; a name ended by a
//	             single-level compression pointer whose target holds plain
//	             labels ended by 00 inside the buffer; a trailing partial name;
//	             the empty buffer (no names)
//	MayReject    the target of a pointer itself ends in a pointer (chain)
//	Reject       a label or the second pointer octet overruns the buffer
//	Unspecified  label types 01/10; a pointer whose offset is outside the
//	             buffer; a target whose labels run to the end of the buffer
//	             without 00; pointers that loop; a name longer than 255 octets
func nameList(b []byte, build bool) (names []string, v Verdict, why string) {
	n := len(b)
	pos := 0
	var cur []byte // joined labels of the name being read (build only)
	labels := 0    // labels in the name being read
	octets := 0    // wire octets of those labels
	long, chain := false, false
	finish := func() {
		if octets+1 > 255 {
			long = true
		}
		if build {
			names = append(names, string(cur))
			cur = cur[:0]
		}
		labels, octets = 0, 0
	}
	label := func(l []byte) {
		if build {
			if labels > 0 {
				cur = append(cur, '.')
			}
			cur = append(cur, l...)
		}
		labels++
		octets += 1 + len(l)
	}
	for pos < n {
		x := int(b[pos])
		switch {
		case x == 0:
			pos++
			finish()
		case x&0xc0 == 0xc0:
			if pos+1 >= n {
				return nil, Reject, "name: compression pointer lacks its second octet"
			}
			q := (x&0x3f)<<8 | int(b[pos+1])
			if q >= n {
				return nil, Unspecified, WhyNamePtrOutside
			}
			hops := 0
		target:
			for {
				if q >= n {
					return nil, Unspecified, WhyNamePtrUnterminated
				}
				y := int(b[q])
				switch {
				case y == 0:
					break target
				case y&0xc0 == 0xc0:
					if q+1 >= n {
						return nil, Reject, "name: compression pointer lacks its second octet"
					}
					chain = true
					hops++
					if hops > n {
						return nil, Unspecified, WhyNamePtrLoop
					}
					q = (y&0x3f)<<8 | int(b[q+1])
					if q >= n {
						return nil, Unspecified, WhyNamePtrOutside
					}
				case y&0xc0 != 0:
					return nil, Unspecified, WhyNameReserved
				default:
					if q+1+y > n {
						return nil, Reject, "name: label overruns the option"
					}
					label(b[q+1 : q+1+y])
					q += 1 + y
				}
			}
			pos += 2
			finish()
		case x&0xc0 != 0:
			return nil, Unspecified, WhyNameReserved
		default:
			if pos+1+x > n {
				return nil, Reject, "name: label overruns the option"
			}
			label(b[pos+1 : pos+1+x])
			pos += 1 + x
		}
	}
	if labels > 0 {
		finish() // trailing partial name
	}
	switch {
	case long:
		return nil, Unspecified, WhyNameLong
	case chain:
		return names, MayReject, WhyNamePtrChain
	}
	if build && names == nil {
		names = []string{}
	}
	return names, Accept, ""
}

// EncodeNames writes names (labels joined with ".", "" = root) in the plain
// uncompressed RFC 1035 form. Labels must be 1..63 octets.
func EncodeNames(names []string) []byte {
	var out []byte
	for _, nm := range names {
		start := 0
		for i := 0; i <= len(nm); i++ {
			if i == len(nm) || nm[i] == '.' {
				if i > start {
					out = append(out, byte(i-start))
					out = append(out, nm[start:i]...)
				}
				start = i + 1
			}
		}
		out = append(out, 0)
	}
	return out
}
