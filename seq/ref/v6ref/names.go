package v6ref

// Private RFC 1035 name-list reader (RFC 1035 §3.1 labels, §4.1.4 compression,
// RFC 4704 §4.2 trailing partial name). Everything that reads names goes through
// nameList, so the shared model verif/seq/ref/labelref can be swapped in there.
//
// Representation: a name is its labels joined with "."; the root name (a bare
// 00) is ""; a trailing partial name (labels running exactly to the end of the
// buffer without the terminating 00) is represented like a complete one.
//
// Classes decided here (context-free):
//
//	Accept       plain labels (1..63 octets each) ended by 00; a trailing partial
//	             name (reported in nameInfo, the option decides); the empty
//	             buffer (no names)
//	MayReject    any compression pointer whose target resolves (RFC 8415 §10:
//	             names in DHCP "MUST NOT be stored in compressed form"; a decoder
//	             may still follow them) — single level or chain; a root name
//	             (zero labels)
//	Reject       a label or the second pointer octet overruns the buffer
//	Unspecified  label types 01/10; a pointer whose offset is outside the
//	             buffer; a target whose labels run to the end of the buffer
//	             without 00; pointers that loop
//	(a name longer than 255 octets is a Reject: RFC 1035 §3.1)
//
// The option-specific two-valued classes (partial name outside option 39, more
// than one name in 39 and 56/3, empty list in 24) are applied by the caller from
// nameInfo.
type nameInfo struct {
	count   int  // number of names
	partial bool // the last name has no terminating 00
}

func nameList(b []byte, build bool) (names []string, v Verdict, why string, info nameInfo) {
	n := len(b)
	pos := 0
	var cur []byte // joined labels of the name being read (build only)
	labels := 0    // labels in the name being read
	octets := 0    // wire octets of those labels
	long, chain, ptr, root := false, false, false, false
	finish := func() {
		if octets+1 > 255 {
			long = true
		}
		if labels == 0 {
			root = true
		}
		if build {
			names = append(names, string(cur))
			cur = cur[:0]
		}
		info.count++
		labels, octets = 0, 0
	}
	label := func(l []byte) {
		if build {
			if labels > 0 {
				cur = append(cur, '.')
			}
			cur = append(cur, l...)
		}
		labels++
		octets += 1 + len(l)
	}
	for pos < n {
		x := int(b[pos])
		switch {
		case x == 0:
			pos++
			finish()
		case x&0xc0 == 0xc0:
			if pos+1 >= n {
				return nil, Reject, "name: compression pointer lacks its second octet", info
			}
			q := (x&0x3f)<<8 | int(b[pos+1])
			if q >= n {
				return nil, Unspecified, WhyNamePtrOutside, info
			}
			ptr = true
			hops, walked := 0, 0
		target:
			for {
				if q >= n {
					return nil, Unspecified, WhyNamePtrUnterminated, info
				}
				y := int(b[q])
				switch {
				case y == 0:
					break target
				case y&0xc0 == 0xc0:
					if q+1 >= n {
						return nil, Reject, "name: compression pointer lacks its second octet", info
					}
					chain = true
					hops++
					if hops > n || hops > 255 {
						// more hops than a 255-octet name can have labels: a loop (or a pathological chain);
						// bounding this keeps the reference linear on adversarial inputs
						return nil, Unspecified, WhyNamePtrLoop, info
					}
					q = (y&0x3f)<<8 | int(b[q+1])
					if q >= n {
						return nil, Unspecified, WhyNamePtrOutside, info
					}
				case y&0xc0 != 0:
					return nil, Unspecified, WhyNameReserved, info
				default:
					if q+1+y > n {
						return nil, Reject, "name: label overruns the option", info
					}
					label(b[q+1 : q+1+y])
					q += 1 + y
					walked++
					if walked > 130 {
						// the name under construction already exceeds 255 octets
						return nil, Reject, WhyNameLong, info
					}
				}
			}
			pos += 2
			finish()
		case x&0xc0 != 0:
			return nil, Unspecified, WhyNameReserved, info
		default:
			if pos+1+x > n {
				return nil, Reject, "name: label overruns the option", info
			}
			label(b[pos+1 : pos+1+x])
			pos += 1 + x
		}
	}
	if labels > 0 {
		finish() // trailing partial name
		info.partial = true
	}
	if build && names == nil {
		names = []string{}
	}
	switch {
	case long:
		return nil, Reject, WhyNameLong, info
	case chain:
		return names, MayReject, WhyNamePtrChain, info
	case ptr:
		return names, MayReject, WhyNameCompressed, info
	case root:
		return names, MayReject, WhyNameRoot, info
	}
	return names, Accept, "", info
}

// EncodeNames writes names (labels joined with ".", "" = root) in the plain
// uncompressed RFC 1035 form. Labels must be 1..63 octets.
func EncodeNames(names []string) []byte {
	var out []byte
	for _, nm := range names {
		start := 0
		for i := 0; i <= len(nm); i++ {
			if i == len(nm) || nm[i] == '.' {
				if i > start {
					out = append(out, byte(i-start))
					out = append(out, nm[start:i]...)
				}
				start = i + 1
			}
		}
		out = append(out, 0)
	}
	return out
}
