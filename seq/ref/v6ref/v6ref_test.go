package v6ref

import (
	"encoding/hex"
	"strings"
	"testing"
)

func hx(s string) []byte {
	b, err := hex.DecodeString(strings.ReplaceAll(s, " ", ""))
	if err != nil {
		panic(err)
	}
	return b
}

// Hand-assembled vectors (from the RFC diagrams, not from any implementation).
func TestVectors(t *testing.T) {
	for _, tc := range []struct {
		name, in string
		v        Verdict
		want     string // substring of the rendering, "" = don't care
	}{
		{"empty", "", Reject, ""},
		{"hdr3", "01 0102", Reject, ""},
		{"hdr4", "01 010203", Accept, "msg{type=1 xid=010203 []}"},
		{"relay33", "0c" + strings.Repeat("00", 32), Reject, ""},
		{"relay34", "0d 05" + strings.Repeat("11", 16) + strings.Repeat("22", 16), MayReject, "relay{type=13 hop=5 link=11111111111111111111111111111111 peer=22222222222222222222222222222222 []}"},
		{"elapsed", "01 010203 0008 0002 0102", Accept, "8:elapsed-time{Centis=258}"},
		{"elapsed3", "01 010203 0008 0003 010203", Reject, ""},
		{"elapsed1", "01 010203 0008 0001 01", Reject, ""},
		{"trailing1", "01 010203 0008 0002 0102 00", Reject, ""},
		{"trailing3", "01 010203 0008 0002 0102 000800", Reject, ""},
		{"overrun", "01 010203 0008 0003 0102", Reject, ""},
		{"unknown", "01 010203 00e0 0003 010203", Accept, "224:opaque{Data=010203}"},
		{"unknown-empty", "01 010203 ffff 0000", Accept, "65535:opaque{Data=}"},
		{"duid-llt", "01 010203 0001 000e 0001 0001 01020304 a0a1a2a3a4a5", Accept, "1:client-id{DUIDType=1 HWType=1 Time=16909060 LLAddr=a0a1a2a3a4a5}"},
		{"duid-llt-short", "01 010203 0001 0007 0001 0001 010203", Reject, ""},
		{"duid-en", "01 010203 0002 0008 0002 00000009 beef", Accept, "2:server-id{DUIDType=2 Enterprise=9 ID=beef}"},
		{"duid-uuid17", "01 010203 0001 0013 0004" + strings.Repeat("aa", 17), Reject, ""},
		{"duid-1byte", "01 010203 0001 0001 00", Reject, ""},
		{"ia_na", "01 010203 0003 0028 01020304 00000e10 00001518" +
			"0005 0018 20010db8000000000000000000000001 00000e10 00001c20", Accept,
			"3:IA_NA{IAID=01020304 T1=3600 T2=5400 [5:IAADDR{Addr=20010db8000000000000000000000001 Preferred=3600 Valid=7200}]}"},
		{"ia_na-11", "01 010203 0003 000b 01020304 00000e10 000015", Reject, ""},
		{"ia_na-nested-trailing", "01 010203 0003 000d 01020304 00000e10 00001518 00", Reject, ""},
		{"ia_na-nested-overrun", "01 010203 0003 0010 01020304 00000e10 00001518 000d0002", Reject, ""},
		{"status", "01 010203 000d 0004 0002 6e6f", Accept, `13:status-code{Status=2 Message="no"}`},
		{"status1", "01 010203 000d 0001 00", Reject, ""},
		{"oro", "01 010203 0006 0004 0017 0018", Accept, "6:ORO{Codes=[23 24]}"},
		{"oro-odd", "01 010203 0006 0003 0017 00", Reject, ""},
		{"userclass-empty", "01 010203 000f 0000", Reject, ""},
		{"userclass", "01 010203 000f 0005 0001 61 0000", MayReject, `15:user-class{Items=["a" ""]}`},
		{"vendorclass-noitem", "01 010203 0010 0004 00000009", Reject, ""},
		{"vendoropts", "01 010203 0011 000a 00000009 0001 0002 abcd", Accept, "17:vendor-opts{Enterprise=9 [1:opaque{Data=abcd}]}"},
		{"vendoropts-bad", "01 010203 0011 0007 00000009 000100", Reject, ""},
		{"dns15", "01 010203 0017 000f" + strings.Repeat("00", 15), Reject, ""},
		{"domains", "01 010203 0018 000d 076578616d706c65 03636f6d 00", Accept, `24:domain-list{Names=["example.com"]}`},
		{"domains-ptr", "01 010203 0018 0007 0161 00 0162 c000", MayReject, `24:domain-list{Names=["a" "b.a"]}`},
		{"domains-overrun", "01 010203 0018 0003 056162", Reject, ""},
		{"domains-reserved", "01 010203 0018 0002 4000", Unspecified, ""},
		{"domains-ptr-out", "01 010203 0018 0002 c005", Unspecified, ""},
		{"domains-chain", "01 010203 0018 0007 0161 00 c000 c003", MayReject, `Names=["a" "a" "a"]`},
		{"domains-loop", "01 010203 0018 0002 c000", Unspecified, ""},
		{"fqdn-partial", "01 010203 0027 0006 01 0468 6f73 74", Accept, `39:FQDN{Flags=1 Names=["host"]}`},
		{"fqdn-empty", "01 010203 0027 0000", Reject, ""},
		{"iaprefix", "01 010203 001a 0019 00000e10 00001c20 38 20010db8000100000000000000000000", Accept, "26:IAPREFIX{Preferred=3600 Valid=7200 PrefixLen=56 Prefix=20010db8000100000000000000000000}"},
		{"iaprefix-129", "01 010203 001a 0019 00000e10 00001c20 81 20010db8000100000000000000000000", Unspecified, ""},
		{"iaprefix-0-bits", "01 010203 001a 0019 00000e10 00001c20 00 20010db8000100000000000000000000", Unspecified, ""},
		{"iaprefix-129-and-trailing", "01 010203 001a 0019 00000e10 00001c20 81 20010db8000100000000000000000000 00", Reject, ""},
		{"iaprefix-24", "01 010203 001a 0018 00000e10 00001c20 38 20010db80001000000000000000000", Reject, ""},
		{"ntp", "01 010203 0038 0014 0001 0010 20010db8000000000000000000000001", Accept, "56:NTP{ [1:ntp-srv-addr{Addr=20010db8000000000000000000000001}]}"},
		{"ntp-addr15", "01 010203 0038 0013 0001 000f 20010db80000000000000000000000", Reject, ""},
		{"nii", "01 010203 003e 0003 010203", Accept, "62:NII{Type=1 Major=2 Minor=3}"},
		{"nii4", "01 010203 003e 0004 01020304", Reject, ""},
		{"4rd-nonmap", "01 010203 0063 0004 81 2a 0500", Accept, "99:4RD-non-map-rule{HubAndSpoke=true HasTClass=true TClass=42 PMTU=1280}"},
		{"4rd-nonmap-noT", "01 010203 0063 0004 00 2a 0500", Accept, "99:4RD-non-map-rule{HubAndSpoke=false HasTClass=false TClass=0 PMTU=1280}"},
		{"4rd-map-33", "01 010203 0062 0018 21 40 10 80 c0000200 20010db8000000000000000000000000", Unspecified, ""},
		{"relay-msg", "0c 00" + strings.Repeat("00", 32) + "0009 0004 01 aabbcc", Accept, "9:relay-msg{ inner=msg{type=1 xid=aabbcc []}}"},
		{"relay-msg-empty", "0c 00" + strings.Repeat("00", 32) + "0009 0000", Reject, ""},
		{"relay-msg-inner-bad", "0c 00" + strings.Repeat("00", 32) + "0009 0005 01 aabbcc 00", Reject, ""},
		{"relay-port", "0c 00" + strings.Repeat("00", 32) + "0087 0002 0223", MayReject, "135:relay-port{Port=547}"},
		{"relay-port-with-msg", "0c 00" + strings.Repeat("00", 32) + "0087 0002 0223 0009 0004 01 aabbcc", Accept, "135:relay-port{Port=547}"},
		{"userclass-ok", "01 010203 000f 0003 0001 61", Accept, `15:user-class{Items=["a"]}`},
		{"oro-empty", "01 010203 0006 0000", MayReject, "6:ORO{Codes=[]}"},
		{"dns-empty", "01 010203 0017 0000", MayReject, ""},
		{"4o6-empty", "01 010203 0058 0000", Accept, "88:dhcp4o6-servers{Addrs=}"},
		{"domains-empty", "01 010203 0018 0000", MayReject, ""},
		{"domains-partial", "01 010203 0018 0002 0161", MayReject, `Names=["a"]`},
		{"domains-root", "01 010203 0018 0001 00", MayReject, `Names=[""]`},
		{"fqdn-flags-only", "01 010203 0027 0001 00", Accept, "39:FQDN{Flags=0 Names=[]}"},
		{"fqdn-two", "01 010203 0027 0007 00 0161 00 0162 00", MayReject, `Names=["a" "b"]`},
		{"fqdn-ptr", "01 010203 0027 0006 00 0161 00 c000", MayReject, ""},
		{"ntp-empty", "01 010203 0038 0000", MayReject, ""},
		{"ntp-two-sources", "01 010203 0038 0028 0001 0010 20010db8000000000000000000000001 0002 0010 ff050000000000000000000000000101", MayReject, ""},
		{"ntp-fqdn", "01 010203 0038 0007 0003 0003 0161 00", Accept, `3:ntp-srv-fqdn{Names=["a"]}`},
		{"ntp-fqdn-partial", "01 010203 0038 0006 0003 0002 0161", MayReject, ""},
		{"ntp-fqdn-none", "01 010203 0038 0004 0003 0000", MayReject, ""},
		{"vendoropts-empty", "01 010203 0011 0004 00000009", MayReject, ""},
		{"bootparam-empty", "01 010203 003c 0000", MayReject, ""},
		{"bootparam-zero-item", "01 010203 003c 0002 0000", MayReject, ""},
		{"vendorclass-zero-item", "01 010203 0010 0006 00000009 0000", MayReject, ""},
		{"duid-type-only", "01 010203 0001 0002 0005", MayReject, "1:client-id{DUIDType=5 Data=}"},
		{"duid-ll-no-addr", "01 010203 0001 0004 0003 0001", MayReject, ""},
		{"duid-129", "01 010203 0001 0083 0005" + strings.Repeat("ab", 129), MayReject, ""},
		{"duid-128", "01 010203 0001 0082 0005" + strings.Repeat("ab", 128), Accept, ""},
		{"4rd-empty", "01 010203 0061 0000", MayReject, ""},
		{"4rd-map", "01 010203 0061 001c 0062 0018 18 30 10 00 c0000200 20010db8000000000000000000000000", Accept, ""},
		{"4rd-two-nonmap", "01 010203 0061 002c 0062 0018 18 30 10 00 c0000200 20010db8000000000000000000000000 0063 0004 00000500 0063 0004 00000500", MayReject, ""},
		{"mayreject-and-trailing", "01 010203 0006 0000 00", Reject, ""},
		{"mayreject-and-unspecified", "01 010203 0006 0000 0018 0002 4000", Unspecified, ""},
	} {
		m, v, why := DecodeMessage(hx(tc.in))
		if v != tc.v {
			t.Errorf("%s: verdict %v (%s), want %v", tc.name, v, why, tc.v)
			continue
		}
		if fv, _ := VerdictOfMessage(hx(tc.in)); fv != v {
			t.Errorf("%s: fast path verdict %v != %v", tc.name, fv, v)
		}
		if (m != nil) != v.HasTree() {
			t.Errorf("%s: tree presence %v with verdict %v", tc.name, m != nil, v)
		}
		if tc.want != "" && !strings.Contains(m.String(), tc.want) {
			t.Errorf("%s: rendering %s lacks %s", tc.name, m, tc.want)
		}
	}
}

func TestDepthAndEqual(t *testing.T) {
	in := hx("01 010203 0003 0028 01020304 00000e10 00001518 0005 0018 20010db8000000000000000000000001 00000e10 00001c20")
	in = append(in[:len(in)-44+2], in[len(in)-44+2:]...)
	m, v, _ := DecodeMessage(in)
	if v != Accept || Depth(m) != 2 || Count(m) != 2 {
		t.Fatalf("v=%v depth=%d count=%d", v, Depth(m), Count(m))
	}
	m2, _, _ := DecodeMessage(in)
	if ok, _, _ := Equal(m, m2); !ok {
		t.Fatal("not equal to itself")
	}
	m2.Options[0].Children[0].Fields[2].Val = uint64(1)
	ok, p, _ := Equal(m, m2)
	if ok || PathClass(p) != "options(IA_NA).children(IAADDR).Valid" {
		t.Fatalf("ok=%v path=%s", ok, p)
	}
}
