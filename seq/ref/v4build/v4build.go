// Package v4build is the reference model for the DHCPv4 builders (property C15,
// DESIGN.md Appendix E). Plain struct + plain map, stdlib only; it does not
// import the library. It provides
//
//   - Packet: header fields and an option map;
//   - Verify: the facts Appendix E asserts about a builder's result *before*
//     caller modifiers (only those; a builder may add further options);
//   - Mod / Fold: an independent re-implementation of the modifier alphabet as
//     plain field / option setters, written from each modifier's documented
//     meaning;
//   - Diff: equality on every header field and the whole option map.
package v4build

import (
	"bytes"
	"fmt"
	"sort"
)

// Packet is a BOOTP/DHCP message as a plain value. Addresses are the four
// octets that go on the wire (an unset address is 0.0.0.0).
type Packet struct {
	Op     uint8
	HType  uint8
	Hops   uint8
	Xid    [4]byte
	Secs   uint16
	Flags  uint16
	CI     [4]byte
	YI     [4]byte
	SI     [4]byte
	GI     [4]byte
	CHAddr []byte // hlen = len(CHAddr)
	SName  string
	File   string
	// Opts: key present = option present; a nil or zero-length value is
	// "present with an empty value". On an *input* packet the two are kept
	// apart: nil is what the decoder stores for a zero-length option (and a
	// hand-built nil slice), non-nil zero-length is a hand-built []byte{}
	// (see echo). Everywhere else they are the same value.
	Opts map[uint8][]byte
}

func cp(b []byte) []byte {
	if b == nil {
		return nil
	}
	return append([]byte{}, b...)
}

// Clone returns a deep copy.
func (p *Packet) Clone() *Packet {
	q := *p
	q.CHAddr = cp(p.CHAddr)
	q.Opts = make(map[uint8][]byte, len(p.Opts))
	for k, v := range p.Opts {
		q.Opts[k] = cp(v)
	}
	return &q
}

// BOOTP opcodes and DHCP message types (RFC 2131 / 2132 §9.6).
const (
	OpRequest = 1
	OpReply   = 2

	TypeDiscover = 1
	TypeRequest  = 3
	TypeRelease  = 7
	TypeInform   = 8

	OptRequestedIP = 50
	OptMsgType     = 53
	OptServerID    = 54
	OptPRL         = 55
	OptClientID    = 61
	OptRelayInfo   = 82

	FlagBroadcast = 0x8000
)

// DefaultPRL are the codes every requesting builder asks for (subnet mask,
// router, domain name, DNS).
var DefaultPRL = []uint8{1, 3, 15, 6}

// Builder identifies one of the six builders.
type Builder int

const (
	Reply Builder = iota
	RequestFromOffer
	RenewFromAck
	ReleaseFromAck
	Inform
	Discovery
	NumBuilders
)

func (b Builder) String() string {
	return [...]string{"NewReplyFromRequest", "NewRequestFromOffer", "NewRenewFromAck", "NewReleaseFromACK", "NewInform", "NewDiscovery"}[b]
}

// XidFixed reports whether the builder itself fixes the transaction id (to the
// input's); otherwise it is fresh and not compared.
func (b Builder) XidFixed() bool { return b == Reply || b == RequestFromOffer || b == RenewFromAck }

// Mismatch is one violated clause of Appendix E.
type Mismatch struct {
	Clause   string // stable name, used in fingerprints
	Observed string
	Expected string
}

// Opposite is the opcode a packet answering one with opcode op carries:
// reply if op is request, request in every other case.
func Opposite(op uint8) uint8 {
	if op == OpRequest {
		return OpReply
	}
	return OpRequest
}

type verifier struct {
	out *Packet
	mm  []Mismatch
}

func (v *verifier) add(clause, obs, exp string) {
	v.mm = append(v.mm, Mismatch{clause, obs, exp})
}

func (v *verifier) u8(clause string, got, want uint8) {
	if got != want {
		v.add(clause, fmt.Sprint(got), fmt.Sprint(want))
	}
}

func (v *verifier) ip(clause string, got, want [4]byte) {
	if got != want {
		v.add(clause, ipStr(got), ipStr(want))
	}
}

func (v *verifier) bytesEq(clause string, got, want []byte) {
	if !bytes.Equal(got, want) {
		v.add(clause, fmt.Sprintf("%d bytes %s", len(got), short(got)), fmt.Sprintf("%d bytes %s", len(want), short(want)))
	}
}

// optIs: option code present with exactly these bytes.
func (v *verifier) optIs(clause string, code uint8, want []byte) {
	got, ok := v.out.Opts[code]
	if !ok {
		v.add(clause, fmt.Sprintf("option %d absent", code), fmt.Sprintf("option %d = %d bytes %s", code, len(want), short(want)))
		return
	}
	if !bytes.Equal(got, want) {
		v.add(clause, fmt.Sprintf("option %d = %d bytes %s", code, len(got), short(got)), fmt.Sprintf("option %d = %d bytes %s", code, len(want), short(want)))
	}
}

func (v *verifier) optAbsent(clause string, code uint8) {
	if got, ok := v.out.Opts[code]; ok {
		v.add(clause, fmt.Sprintf("option %d present, %d bytes %s", code, len(got), short(got)), fmt.Sprintf("option %d absent", code))
	}
}

// echo: the rule for an option copied from the input.
//
//   - non-empty in the input            => same bytes;
//   - absent                            => absent (only when absentMeansAbsent);
//   - present with a nil value          => absent. This is what the decoder
//     stores for a zero-length option on the wire ("3d 00"), and a hand-built
//     nil slice: the statement says "omits them otherwise";
//   - present with a non-nil zero-length value (only a hand-built []byte{})
//     => absent or empty (DESIGN §8a-3).
func (v *verifier) echo(clause string, in *Packet, code uint8, absentMeansAbsent bool) {
	iv, ok := in.Opts[code]
	switch {
	case ok && len(iv) > 0:
		v.optIs(clause+":nonempty", code, iv)
	case ok && iv == nil:
		v.optAbsent(clause+":empty-nil", code)
	case ok:
		if got, has := v.out.Opts[code]; has && len(got) != 0 {
			v.add(clause+":empty", fmt.Sprintf("option %d = %d bytes %s", code, len(got), short(got)), fmt.Sprintf("option %d absent or empty", code))
		}
	default:
		if absentMeansAbsent {
			v.optAbsent(clause+":absent", code)
		}
	}
}

func (v *verifier) prl(clause string) {
	got, ok := v.out.Opts[OptPRL]
	if !ok {
		v.add(clause, "option 55 absent", "option 55 ⊇ {1,3,15,6}")
		return
	}
	for _, c := range DefaultPRL {
		if bytes.IndexByte(got, c) < 0 {
			v.add(clause, fmt.Sprintf("option 55 = %v", got), "option 55 ⊇ {1,3,15,6}")
			return
		}
	}
}

// Verify checks the result `out` of builder b against Appendix E.
// in is the packet answered (Reply, RequestFromOffer, RenewFromAck,
// ReleaseFromAck); hw and ip are the arguments of Inform / Discovery.
func Verify(b Builder, in *Packet, hw []byte, ip [4]byte, out *Packet) []Mismatch {
	v := &verifier{out: out}
	switch b {
	case Reply:
		v.u8("opcode", out.Op, Opposite(in.Op))
		v.bytesEq("xid", out.Xid[:], in.Xid[:])
		v.u8("hwtype", out.HType, in.HType)
		v.bytesEq("chaddr", out.CHAddr, in.CHAddr)
		if out.Flags != in.Flags {
			v.add("flags", fmt.Sprintf("%#04x", out.Flags), fmt.Sprintf("%#04x", in.Flags))
		}
		v.ip("giaddr", out.GI, in.GI)
		v.echo("opt82", in, OptRelayInfo, true)
		v.echo("opt61", in, OptClientID, true)
	case RequestFromOffer:
		v.u8("opcode", out.Op, Opposite(in.Op))
		v.bytesEq("xid", out.Xid[:], in.Xid[:])
		v.u8("hwtype", out.HType, in.HType)
		v.bytesEq("chaddr", out.CHAddr, in.CHAddr)
		if out.Flags != in.Flags {
			v.add("flags", fmt.Sprintf("%#04x", out.Flags), fmt.Sprintf("%#04x", in.Flags))
		}
		v.optIs("type", OptMsgType, []byte{TypeRequest})
		v.ip("ciaddr", out.CI, in.CI)
		v.optIs("opt50", OptRequestedIP, in.YI[:])
		v.echo("opt54", in, OptServerID, false)
		v.prl("prl")
	case RenewFromAck:
		v.u8("opcode", out.Op, Opposite(in.Op))
		v.bytesEq("xid", out.Xid[:], in.Xid[:])
		v.u8("hwtype", out.HType, in.HType)
		v.bytesEq("chaddr", out.CHAddr, in.CHAddr)
		v.optIs("type", OptMsgType, []byte{TypeRequest})
		v.ip("ciaddr", out.CI, in.YI)
		if want := in.Flags &^ FlagBroadcast; out.Flags != want {
			v.add("flags", fmt.Sprintf("%#04x", out.Flags), fmt.Sprintf("%#04x (ack's flags with the broadcast bit clear)", want))
		}
		v.prl("prl")
		v.optAbsent("opt50", OptRequestedIP)
		v.optAbsent("opt54", OptServerID)
	case ReleaseFromAck:
		v.optIs("type", OptMsgType, []byte{TypeRelease})
		v.ip("ciaddr", out.CI, in.YI)
		v.bytesEq("chaddr", out.CHAddr, in.CHAddr)
		if out.Flags&FlagBroadcast != 0 {
			v.add("flags", fmt.Sprintf("%#04x", out.Flags), "broadcast bit clear")
		}
		v.echo("opt54", in, OptServerID, false)
	case Inform:
		v.u8("opcode", out.Op, OpRequest)
		v.bytesEq("chaddr", out.CHAddr, hw)
		v.optIs("type", OptMsgType, []byte{TypeInform})
		v.ip("ciaddr", out.CI, ip)
	case Discovery:
		v.u8("opcode", out.Op, OpRequest)
		v.bytesEq("chaddr", out.CHAddr, hw)
		v.optIs("type", OptMsgType, []byte{TypeDiscover})
		v.prl("prl")
	}
	return v.mm
}

// ---- modifiers ----------------------------------------------------------

// ModKind names one exported With* function.
type ModKind int

const (
	MMessageType      ModKind = iota // WithMessageType(T): option 53 := [T]
	MBroadcast                       // WithBroadcast(B): set / clear the broadcast bit only
	MClientIP                        // WithClientIP(IP): ciaddr := IP
	MYourIP                          // WithYourIP(IP)
	MServerIP                        // WithServerIP(IP)
	MGatewayIP                       // WithGatewayIP(IP)
	MTransactionID                   // WithTransactionID(Xid)
	MHwAddr                          // WithHwAddr(HW): chaddr := HW
	MWithoutOption                   // WithoutOption(Code): remove the option
	MServerIdentifier                // WithOption(OptServerIdentifier(IP)): option 54 := 4 octets
	MRequestedOptions                // WithRequestedOptions(Codes...): existing list, then the new codes not yet present
	MGeneric                         // WithGeneric(Code, Val): option Code := Val
	MRelay                           // WithRelay(IP): clear the broadcast bit, giaddr := IP (whatever it was), one more hop
	MHWType                          // WithHWType(T): htype := T
)

// Mod is one modifier instance.
type Mod struct {
	Kind  ModKind
	T     uint8
	B     bool
	IP    [4]byte
	Xid   [4]byte
	HW    []byte
	Code  uint8
	Val   []byte
	Codes []uint8
	// Label names the exported function a MGeneric / MRequestedOptions instance stands for when it is not
	// WithGeneric / WithRequestedOptions itself (WithNetmask, WithLeaseTime, … set one option to a fixed encoding)
	Label string
}

func (m Mod) String() string {
	if m.Label != "" {
		return m.Label
	}
	switch m.Kind {
	case MMessageType:
		return fmt.Sprintf("WithMessageType(%d)", m.T)
	case MBroadcast:
		return fmt.Sprintf("WithBroadcast(%v)", m.B)
	case MClientIP:
		return "WithClientIP(" + ipStr(m.IP) + ")"
	case MYourIP:
		return "WithYourIP(" + ipStr(m.IP) + ")"
	case MServerIP:
		return "WithServerIP(" + ipStr(m.IP) + ")"
	case MGatewayIP:
		return "WithGatewayIP(" + ipStr(m.IP) + ")"
	case MTransactionID:
		return fmt.Sprintf("WithTransactionID(%x)", m.Xid[:])
	case MHwAddr:
		return fmt.Sprintf("WithHwAddr(%x)", m.HW)
	case MWithoutOption:
		return fmt.Sprintf("WithoutOption(%d)", m.Code)
	case MServerIdentifier:
		return "WithOption(OptServerIdentifier(" + ipStr(m.IP) + "))"
	case MRequestedOptions:
		return fmt.Sprintf("WithRequestedOptions(%v)", m.Codes)
	case MGeneric:
		return fmt.Sprintf("WithGeneric(%d, %x)", m.Code, m.Val)
	case MRelay:
		return "WithRelay(" + ipStr(m.IP) + ")"
	case MHWType:
		return fmt.Sprintf("WithHWType(%d)", m.T)
	}
	return "?"
}

// Apply performs the modifier on p.
func (m Mod) Apply(p *Packet) {
	if p.Opts == nil {
		p.Opts = map[uint8][]byte{}
	}
	switch m.Kind {
	case MMessageType:
		p.Opts[OptMsgType] = []byte{m.T}
	case MBroadcast:
		if m.B {
			p.Flags |= FlagBroadcast
		} else {
			p.Flags &^= FlagBroadcast
		}
	case MClientIP:
		p.CI = m.IP
	case MYourIP:
		p.YI = m.IP
	case MServerIP:
		p.SI = m.IP
	case MGatewayIP:
		p.GI = m.IP
	case MTransactionID:
		p.Xid = m.Xid
	case MHwAddr:
		p.CHAddr = cp(m.HW)
	case MWithoutOption:
		delete(p.Opts, m.Code)
	case MServerIdentifier:
		p.Opts[OptServerID] = cp(m.IP[:])
	case MRequestedOptions:
		list := cp(p.Opts[OptPRL])
		for _, c := range m.Codes {
			if bytes.IndexByte(list, c) < 0 {
				list = append(list, c)
			}
		}
		p.Opts[OptPRL] = list
	case MGeneric:
		p.Opts[m.Code] = cp(m.Val)
	case MRelay:
		p.Flags &^= FlagBroadcast
		p.GI = m.IP
		p.Hops++
	case MHWType:
		p.HType = m.T
	}
}

// Fold applies ms left to right to a copy of p.
func Fold(p *Packet, ms []Mod) *Packet {
	q := p.Clone()
	for _, m := range ms {
		m.Apply(q)
	}
	return q
}

// FixesXid reports whether some modifier of the list fixes the transaction id.
func FixesXid(ms []Mod) bool {
	for _, m := range ms {
		if m.Kind == MTransactionID {
			return true
		}
	}
	return false
}

// Diff compares two packets on every header field and on the whole option map
// (nil and zero-length option values are the same value). The transaction id
// is compared only when withXid. It returns "" when equal, else a stable field
// name and a description.
func Diff(got, want *Packet, withXid bool) (field, desc string) {
	type u struct {
		n    string
		g, w uint64
	}
	for _, f := range []u{{"opcode", uint64(got.Op), uint64(want.Op)}, {"hwtype", uint64(got.HType), uint64(want.HType)},
		{"hops", uint64(got.Hops), uint64(want.Hops)}, {"secs", uint64(got.Secs), uint64(want.Secs)}, {"flags", uint64(got.Flags), uint64(want.Flags)}} {
		if f.g != f.w {
			return f.n, fmt.Sprintf("got %#x want %#x", f.g, f.w)
		}
	}
	if withXid && got.Xid != want.Xid {
		return "xid", fmt.Sprintf("got %x want %x", got.Xid[:], want.Xid[:])
	}
	for _, f := range []struct {
		n    string
		g, w [4]byte
	}{{"ciaddr", got.CI, want.CI}, {"yiaddr", got.YI, want.YI}, {"siaddr", got.SI, want.SI}, {"giaddr", got.GI, want.GI}} {
		if f.g != f.w {
			return f.n, "got " + ipStr(f.g) + " want " + ipStr(f.w)
		}
	}
	if !bytes.Equal(got.CHAddr, want.CHAddr) {
		return "chaddr", fmt.Sprintf("got %x want %x", got.CHAddr, want.CHAddr)
	}
	if got.SName != want.SName {
		return "sname", fmt.Sprintf("got %q want %q", got.SName, want.SName)
	}
	if got.File != want.File {
		return "file", fmt.Sprintf("got %q want %q", got.File, want.File)
	}
	for _, ci := range Codes(want.Opts) {
		c := uint8(ci)
		gv, ok := got.Opts[c]
		if !ok {
			return fmt.Sprintf("option%d.missing", c), fmt.Sprintf("got codes %v want codes %v", Codes(got.Opts), Codes(want.Opts))
		}
		if !bytes.Equal(gv, want.Opts[c]) {
			return fmt.Sprintf("option%d.value", c), fmt.Sprintf("option %d: got %d bytes %s want %d bytes %s", c, len(gv), short(gv), len(want.Opts[c]), short(want.Opts[c]))
		}
	}
	for _, ci := range Codes(got.Opts) {
		if _, ok := want.Opts[uint8(ci)]; !ok {
			return fmt.Sprintf("option%d.extra", ci), fmt.Sprintf("got codes %v want codes %v", Codes(got.Opts), Codes(want.Opts))
		}
	}
	return "", ""
}

// Codes lists the option codes of m in ascending order.
func Codes(m map[uint8][]byte) []int {
	var k []int
	for c := range m {
		k = append(k, int(c))
	}
	sort.Ints(k)
	return k
}

func ipStr(a [4]byte) string { return fmt.Sprintf("%d.%d.%d.%d", a[0], a[1], a[2], a[3]) }

func short(b []byte) string {
	if len(b) <= 24 {
		return fmt.Sprintf("%x", b)
	}
	return fmt.Sprintf("%x…%x", b[:12], b[len(b)-8:])
}

// Describe renders a packet compactly for messages.
func (p *Packet) Describe() string {
	s := fmt.Sprintf("op=%d htype=%d hops=%d xid=%x secs=%d flags=%#04x ci=%s yi=%s si=%s gi=%s chaddr=%x opts={", p.Op, p.HType, p.Hops, p.Xid[:], p.Secs, p.Flags,
		ipStr(p.CI), ipStr(p.YI), ipStr(p.SI), ipStr(p.GI), p.CHAddr)
	for i, c := range Codes(p.Opts) {
		if i > 0 {
			s += " "
		}
		s += fmt.Sprintf("%d:%s", c, short(p.Opts[uint8(c)]))
	}
	return s + "}"
}
