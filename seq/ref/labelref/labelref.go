// Package labelref is an independent reference model for lists of domain names
// in the RFC 1035 wire format as they appear in DHCP options (DHCPv6 options 24,
// 39, 56/sub-option 3; DHCPv4 option 119). It is written from the RFC text
// (RFC 1035 §3.1 "Name space definitions", §4.1.4 "Message compression",
// RFC 4704 §4.2 partial names) and uses the standard library only.
//
// # Representation
//
// A name is the list of its labels joined with "." (the representation the
// library under test uses, so that results compare directly). Consequences:
// the root name (zero labels, wire form 00) is the empty string; a trailing
// partial name (RFC 4704 §4.2: labels without the terminating zero byte at the
// very end of the buffer) is represented like a complete name; a label that
// contains the byte '.' is not distinguishable from two labels (callers keep
// 0x2e out of their alphabets; DecodeLabels returns the labels un-joined).
//
// # Classification of an arbitrary byte string
//
// The buffer is walked from offset 0, name after name. The first *hard event*
// met in decoding order decides REJECT or UNSPECIFIED; without a hard event the
// *soft flags* collected on the way decide between MUST-ACCEPT, MAY-REJECT and
// UNSPECIFIED.
//
// MUST-ACCEPT(names): every name is a sequence of labels, each `len(1..63)
// data[len]`, ended by
//   - a zero byte, or
//   - a compression pointer `11xxxxxx xxxxxxxx` whose 14-bit offset lies inside
//     the buffer and at which a sequence of plain labels followed by a zero
//     byte starts (single-level pointer; backward, forward and mid-label targets
//     alike — §4.1.4 defines the OFFSET field without restricting it), or
//   - the end of the buffer after at least one label (trailing partial name).
//
// Each name has at least one label and at most 255 octets on the wire. The
// empty buffer is MUST-ACCEPT with no names.
//
// MAY-REJECT(names): RFC 1035 assigns names, but the property statement does not
// promise acceptance; a decoder may fail, and if it accepts it must yield
// exactly these names. Soft flags:
//   - "pointer-chain": the target of a pointer itself ends in a pointer (allowed
//     by §4.1.4, the statement promises a single level only);
//   - "root-name": some name has zero labels (a bare 00, or a pointer at the
//     start of a name to a 00). RFC 1035 reads it as the root; the statement's
//     round-trip promise covers names of 1..8 labels only and a search list /
//     FQDN option has no use for the root, so refusing it is tolerated.
//
// REJECT: no reading exists under the RFC. Hard events:
//   - "label-overruns-buffer": a label length byte 1..63 announces more bytes
//     than the buffer holds (at top level or inside a pointer target);
//   - "truncated-pointer": the first pointer byte is the last byte of the buffer
//     (top level), or a pointer met inside a target lacks its second byte;
//   - "pointer-loop": following pointers returns to a pointer already visited;
//     the name would be infinite. (A loop is a pointer chain for which no
//     names exist, so "error or exactly those names" leaves only "error".)
//
// UNSPECIFIED: the RFC text assigns no reading or leaves it open; only
// stability is demanded of a decoder (no panic, deterministic, re-encodes to
// the same bytes if accepted). Hard events:
//   - "reserved-label-type": a length byte with top bits 01 or 10 (§4.1.4:
//     "reserved for future use"); nothing can be said about what follows;
//   - "pointer-leaves-buffer": pointer offset ≥ len(buffer) (in a DNS message
//     the offset is relative to the message, a DHCP option has nothing there);
//   - "pointer-to-unterminated-name": the labels at the target run exactly to
//     the end of the buffer without a zero byte (the target would be the
//     trailing partial name).
//
// and one soft flag, applied when no hard event occurs:
//   - "name-over-255-octets": some name needs more than 255 octets. §3.1 restricts
//     names to 255 octets or less, so such bytes have no reading: REJECT. (Until the
//     library bounded its decoding cost - fix f2111b1 - this was left open.)
//
// Soft flags do not stop the walk; a later REJECT event still gives REJECT
// (every decoder fails there, whether or not it accepted the chain / root /
// long name before). A later UNSPECIFIED event gives UNSPECIFIED.
package labelref

import (
	"errors"
	"strings"
)

// Class is the verdict on a byte string.
type Class int

const (
	MustAccept Class = iota
	MayReject
	Reject
	Unspecified
)

func (c Class) String() string {
	switch c {
	case MustAccept:
		return "MUST-ACCEPT"
	case MayReject:
		return "MAY-REJECT"
	case Reject:
		return "REJECT"
	}
	return "UNSPECIFIED"
}

// Stable reason tags (see the package comment).
const (
	WhyOverrun    = "label-overruns-buffer"
	WhyTruncPtr   = "truncated-pointer"
	WhyLoop       = "pointer-loop"
	WhyReserved   = "reserved-label-type"
	WhyPtrOutside = "pointer-leaves-buffer"
	WhyPtrUnterm  = "pointer-to-unterminated-name"
	WhyLong       = "name-over-255-octets"
	WhyChain      = "pointer-chain"
	WhyRoot       = "root-name"
)

const (
	// MaxNameOctets is the RFC 1035 §3.1 limit on the wire length of a name.
	MaxNameOctets = 255
	// MaxLabelOctets is the RFC 1035 §3.1 limit on one label.
	MaxLabelOctets = 63
	pointerMask    = 0xc0
)

// Result is the full outcome of decoding.
type Result struct {
	Class Class
	// Why is the deciding reason tag ("" for MUST-ACCEPT).
	Why string
	// Names (labels joined with ".") — set for MUST-ACCEPT and MAY-REJECT only.
	Names []string
	// Labels holds the un-joined labels of every name (same condition as Names).
	Labels [][]string
	// Partial: the last name is a trailing partial name (no terminator).
	Partial bool
	// Pointers is the number of top-level compression pointers followed.
	Pointers int
	// Roots is the number of names with zero labels.
	Roots int
	// Chain: some pointer target ended in another pointer.
	Chain bool
	// Long: some name exceeds 255 octets.
	Long bool
}

// Features is a short stable description of the shape of an accepted input
// ("plain", "ptr", "partial", "ptr+partial", "empty"), for fingerprints.
func (r *Result) Features() string {
	var f []string
	if r.Pointers > 0 {
		f = append(f, "ptr")
	}
	if r.Partial {
		f = append(f, "partial")
	}
	if r.Chain {
		f = append(f, "chain")
	}
	if r.Roots > 0 {
		f = append(f, "root")
	}
	if r.Long {
		f = append(f, "long")
	}
	if len(f) == 0 {
		if len(r.Names) == 0 {
			return "empty"
		}
		return "plain"
	}
	return strings.Join(f, "+")
}

// Decode classifies b and returns the names RFC 1035 assigns to it.
// names is nil for REJECT and UNSPECIFIED. why is a stable reason tag.
func Decode(b []byte) (class Class, names []string, why string) {
	r := DecodeFull(b)
	return r.Class, r.Names, r.Why
}

// DecodeFull is Decode with all details.
func DecodeFull(b []byte) Result {
	var r Result
	n := len(b)
	pos := 0
	// labels of the name being read; start offsets into b (labels are substrings of b)
	var cur []string
	curOctets := 0 // octets of the labels so far (len byte + data each)
	finish := func(partial bool) {
		if len(cur) == 0 {
			r.Roots++
		}
		if curOctets+1 > MaxNameOctets {
			r.Long = true
		}
		r.Labels = append(r.Labels, cur)
		r.Names = append(r.Names, strings.Join(cur, "."))
		r.Partial = partial
		cur = nil
		curOctets = 0
	}
	hard := func(c Class, why string) Result {
		return Result{Class: c, Why: why}
	}
	for pos < n {
		x := int(b[pos])
		switch {
		case x == 0:
			pos++
			finish(false)
		case x&pointerMask == pointerMask:
			if pos+1 >= n {
				return hard(Reject, WhyTruncPtr)
			}
			off := (x&0x3f)<<8 | int(b[pos+1])
			r.Pointers++
			// resolve the target: plain labels up to a zero byte; a pointer there is a chain
			if off >= n {
				return hard(Unspecified, WhyPtrOutside)
			}
			var seen []bool // pointer offsets visited inside this name (allocated on the first chain hop)
			q := off
		target:
			for {
				if q == n {
					// plain labels ran exactly to the end of the buffer
					return hard(Unspecified, WhyPtrUnterm)
				}
				y := int(b[q])
				switch {
				case y == 0:
					break target
				case y&pointerMask == pointerMask:
					if q+1 >= n {
						return hard(Reject, WhyTruncPtr)
					}
					if seen == nil {
						seen = make([]bool, n)
						seen[pos] = true
					}
					if seen[q] {
						return hard(Reject, WhyLoop)
					}
					seen[q] = true
					r.Chain = true
					q = (y&0x3f)<<8 | int(b[q+1])
					if q >= n {
						return hard(Unspecified, WhyPtrOutside)
					}
				case y&pointerMask != 0:
					return hard(Unspecified, WhyReserved)
				default:
					if q+1+y > n {
						return hard(Reject, WhyOverrun)
					}
					cur = append(cur, string(b[q+1:q+1+y]))
					curOctets += 1 + y
					q += 1 + y
				}
			}
			pos += 2
			finish(false)
		case x&pointerMask != 0:
			return hard(Unspecified, WhyReserved)
		default:
			if pos+1+x > n {
				return hard(Reject, WhyOverrun)
			}
			cur = append(cur, string(b[pos+1:pos+1+x]))
			curOctets += 1 + x
			pos += 1 + x
		}
	}
	if len(cur) > 0 {
		finish(true)
	}
	switch {
	case r.Long:
		r.Class, r.Why = Reject, WhyLong
		r.Names, r.Labels = nil, nil
	case r.Chain:
		r.Class, r.Why = MayReject, WhyChain
	case r.Roots > 0:
		r.Class, r.Why = MayReject, WhyRoot
	default:
		r.Class = MustAccept
	}
	return r
}

// ValidName reports whether name (labels joined with ".") is a domain name
// with 1..N labels of 1..63 octets and at most 255 octets on the wire.
// The empty string (root) is not valid in this sense.
func ValidName(name string) bool {
	if name == "" {
		return false
	}
	oct := 1
	for _, l := range strings.Split(name, ".") {
		if len(l) < 1 || len(l) > MaxLabelOctets {
			return false
		}
		oct += 1 + len(l)
	}
	return oct <= MaxNameOctets
}

// Encodable reports whether every name can be written in the wire format at
// all: labels of 1..63 octets (any total length); the empty string is the root.
func Encodable(names []string) bool {
	for _, nm := range names {
		if nm == "" {
			continue
		}
		for _, l := range strings.Split(nm, ".") {
			if len(l) < 1 || len(l) > MaxLabelOctets {
				return false
			}
		}
	}
	return true
}

// ValidList reports whether all names are valid (ValidName).
func ValidList(names []string) bool {
	for _, nm := range names {
		if !ValidName(nm) {
			return false
		}
	}
	return true
}

// ErrNotEncodable is returned by EncodeChecked for labels of 0 or more than 63 octets.
var ErrNotEncodable = errors.New("labelref: label length outside 1..63")

// EncodeChecked is the canonical encoder: every name as its labels
// (length byte, data) followed by a zero byte, no compression. The empty
// string encodes as the root (a single zero byte).
func EncodeChecked(names []string) ([]byte, error) {
	size := 0
	for _, nm := range names {
		size += len(nm) + 2
	}
	out := make([]byte, 0, size)
	for _, nm := range names {
		if nm != "" {
			start := 0
			for i := 0; i <= len(nm); i++ {
				if i == len(nm) || nm[i] == '.' {
					l := i - start
					if l < 1 || l > MaxLabelOctets {
						return nil, ErrNotEncodable
					}
					out = append(out, byte(l))
					out = append(out, nm[start:i]...)
					start = i + 1
				}
			}
		}
		out = append(out, 0)
	}
	return out, nil
}

// Encode is EncodeChecked for lists known to be Encodable; it returns nil for
// a list that is not.
func Encode(names []string) []byte {
	b, err := EncodeChecked(names)
	if err != nil {
		return nil
	}
	return b
}
