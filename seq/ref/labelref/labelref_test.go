package labelref

import (
	"bytes"
	"reflect"
	"strings"
	"testing"
)

func TestDecodeHandWritten(t *testing.T) {
	l63 := append([]byte{63}, bytes.Repeat([]byte{'x'}, 63)...)
	l64 := append([]byte{64}, bytes.Repeat([]byte{'x'}, 64)...)
	x63 := strings.Repeat("x", 63)
	cat := func(p ...[]byte) []byte { return bytes.Join(p, nil) }
	long255 := cat(l63, l63, l63, append([]byte{61}, bytes.Repeat([]byte{'y'}, 61)...), []byte{0})
	long256 := cat(l63, l63, l63, append([]byte{62}, bytes.Repeat([]byte{'y'}, 62)...), []byte{0})
	cases := []struct {
		name  string
		in    []byte
		class Class
		why   string
		names []string
	}{
		{"empty", nil, MustAccept, "", nil},
		{"one name", []byte{1, 'a', 2, 'b', 'c', 0}, MustAccept, "", []string{"a.bc"}},
		{"two names", []byte{1, 'a', 0, 2, 'b', 'c', 0}, MustAccept, "", []string{"a", "bc"}},
		{"partial", []byte{1, 'a', 2, 'b', 'c'}, MustAccept, "", []string{"a.bc"}},
		{"name then partial", []byte{1, 'a', 0, 1, 'b'}, MustAccept, "", []string{"a", "b"}},
		{"63 ok", cat(l63, []byte{0}), MustAccept, "", []string{x63}},
		{"64 reserved", cat(l64, []byte{0}), Unspecified, WhyReserved, nil},
		{"0x80 reserved", []byte{0x80, 0}, Unspecified, WhyReserved, nil},
		{"overrun", []byte{3, 'a', 'b'}, Reject, WhyOverrun, nil},
		{"overrun at end", []byte{1, 'a', 0, 1}, Reject, WhyOverrun, nil},
		{"backward pointer", []byte{1, 'a', 0, 1, 'b', 0xc0, 0}, MustAccept, "", []string{"a", "b.a"}},
		{"pure pointer", []byte{1, 'a', 0, 0xc0, 0}, MustAccept, "", []string{"a", "a"}},
		{"forward pointer", []byte{0xc0, 2, 1, 'a', 0}, MustAccept, "", []string{"a", "a"}},
		{"pointer mid-name", []byte{1, 'a', 1, 'b', 0, 1, 'c', 0xc0, 2}, MustAccept, "", []string{"a.b", "c.b"}},
		{"pointer into label data", []byte{3, 1, 'q', 0, 0, 0xc0, 1}, MustAccept, "", []string{"\x01q\x00", "q"}},
		{"pointer then more", []byte{1, 'a', 0, 0xc0, 0, 1, 'z', 0}, MustAccept, "", []string{"a", "a", "z"}},
		{"pointer then partial", []byte{1, 'a', 0, 0xc0, 0, 1, 'z'}, MustAccept, "", []string{"a", "a", "z"}},
		{"14-bit offset", append(append(append(make([]byte, 0), fill(0x123)...), 1, 't', 0), 0xc1, 0x23), MustAccept, "", append(fillNames(0x123), "t", "t")},
		{"truncated pointer", []byte{1, 'a', 0, 0xc0}, Reject, WhyTruncPtr, nil},
		{"pointer outside", []byte{1, 'a', 0, 0xc0, 5}, Unspecified, WhyPtrOutside, nil},
		{"pointer outside far", []byte{1, 'a', 0, 0xff, 0xff}, Unspecified, WhyPtrOutside, nil},
		{"pointer to tail", []byte{0xc0, 2, 1, 'a'}, Unspecified, WhyPtrUnterm, nil},
		{"pointer to overrun", []byte{2, 5, 'a', 0, 0xc0, 1}, Reject, WhyOverrun, nil},
		{"self pointer", []byte{0xc0, 0}, Reject, WhyLoop, nil},
		{"label then self loop", []byte{1, 'a', 0xc0, 0}, Reject, WhyLoop, nil},
		{"two-pointer loop", []byte{0xc0, 2, 0xc0, 0}, Reject, WhyLoop, nil},
		{"chain", []byte{1, 'a', 0, 1, 'b', 0xc0, 0, 1, 'c', 0xc0, 3}, MayReject, WhyChain, []string{"a", "b.a", "c.b.a"}},
		{"chain then overrun", []byte{1, 'a', 0, 0xc0, 0, 0xc0, 3, 9}, Reject, WhyOverrun, nil},
		{"chain then reserved", []byte{1, 'a', 0, 0xc0, 0, 0xc0, 3, 0x41}, Unspecified, WhyReserved, nil},
		{"root", []byte{0}, MayReject, WhyRoot, []string{""}},
		{"root between", []byte{1, 'a', 0, 0, 1, 'b', 0}, MayReject, WhyRoot, []string{"a", "", "b"}},
		{"pointer to terminator as suffix", []byte{1, 'a', 0, 1, 'b', 0xc0, 2}, MustAccept, "", []string{"a", "b"}},
		{"pointer to terminator alone", []byte{1, 'a', 0, 0xc0, 2}, MayReject, WhyRoot, []string{"a", ""}},
		{"255 octets", long255, MustAccept, "", []string{x63 + "." + x63 + "." + x63 + "." + strings.Repeat("y", 61)}},
		{"256 octets", long256, Reject, WhyLong, nil},
		{"256 octets then overrun", cat(long256, []byte{4, 'a'}), Reject, WhyOverrun, nil},
		{"reserved before overrun", []byte{0x40, 3, 'a'}, Unspecified, WhyReserved, nil},
		{"label bytes look like pointer", []byte{2, 0xc0, 0x00, 0}, MustAccept, "", []string{"\xc0\x00"}},
	}
	for _, tc := range cases {
		class, names, why := Decode(tc.in)
		if class != tc.class || why != tc.why || !reflect.DeepEqual(names, tc.names) {
			t.Errorf("%s: % x: got %v %q %q, want %v %q %q", tc.name, tc.in, class, why, names, tc.class, tc.why, tc.names)
		}
		if class == MustAccept {
			// a MUST-ACCEPT input without pointers and partial name is canonical
			if r := DecodeFull(tc.in); r.Pointers == 0 && !r.Partial && !bytes.Equal(Encode(names), tc.in) {
				t.Errorf("%s: Encode(Decode) = % x", tc.name, Encode(names))
			}
		}
	}
}

// fill returns single-label names occupying exactly n bytes (n ≥ 3), fillNames their names.
func fill(n int) []byte {
	var out []byte
	for n > 0 {
		s := n
		if s > 10 {
			s = 10
		}
		if r := n - s; r == 1 || r == 2 {
			s -= 3
		}
		out = append(out, byte(s-2))
		out = append(out, bytes.Repeat([]byte{'f'}, s-2)...)
		out = append(out, 0)
		n -= s
	}
	return out
}

func fillNames(n int) []string {
	_, names, _ := Decode(fill(n))
	return names
}

func TestFillIsPlain(t *testing.T) {
	b := fill(0x123)
	if len(b) != 0x123 {
		t.Fatal(len(b))
	}
	// checked without the decoder: walk length bytes
	for p := 0; p < len(b); {
		l := int(b[p])
		if l < 1 || l > 8 || b[p+1+l] != 0 {
			t.Fatalf("bad filler at %d", p)
		}
		p += l + 2
	}
}

func TestEncode(t *testing.T) {
	got := Encode([]string{"a.bc", "", "\xc0"})
	want := []byte{1, 'a', 2, 'b', 'c', 0, 0, 1, 0xc0, 0}
	if !bytes.Equal(got, want) {
		t.Fatalf("% x", got)
	}
	if Encode(nil) == nil || len(Encode(nil)) != 0 {
		t.Fatal("empty list must encode to an empty non-nil slice")
	}
	if _, err := EncodeChecked([]string{"a..b"}); err == nil {
		t.Fatal("empty label accepted")
	}
	if _, err := EncodeChecked([]string{strings.Repeat("x", 64)}); err == nil {
		t.Fatal("64-byte label accepted")
	}
	if !ValidName(strings.Repeat("x", 63)) || ValidName("") || ValidName("a.") || ValidName(strings.Repeat("x", 64)) {
		t.Fatal("ValidName")
	}
}
