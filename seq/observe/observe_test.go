package observe

import (
	"reflect"
	"strings"
	"testing"
)

// fake "library" types (the test package path is used as the library prefix)

type Leaf uint8

func (l Leaf) String() string { return "leaf" }
func (l Leaf) Boom() int {
	if l == 7 {
		panic("leaf 7")
	}
	return int(l)
}

type Node struct {
	Name     string
	Kids     []*Node
	Self     *Node // cycle
	Leaves   []Leaf
	hidden   *Node
	Mutated  int
	Iface    any
	calls    *int
	deepNext *Node
}

func (n *Node) Summary() string        { *n.calls++; return n.Name }
func (n *Node) Children() []*Node      { return n.Kids }
func (n *Node) SetName()               { n.Mutated++ }
func (n *Node) AddChild(c *Node)       { n.Kids = append(n.Kids, c) }
func (n *Node) Indent(k int) string    { return strings.Repeat(" ", k) }
func (n *Node) Two(a, b int) int       { return a + b }
func (n *Node) Variadic(x ...int) int  { return len(x) }
func (n *Node) Next() *Node            { return n.deepNext }
func (n Node) ByValue() (Leaf, error)  { return 3, nil }
func (n *Node) Lookup(s string) string { return s }

func newObs(cfg Config) *Observer {
	cfg.Prefixes = []string{reflect.TypeOf(Node{}).PkgPath()}
	return New(cfg)
}

func TestSweepCallsNiladicMethodsAndSkipsMutators(t *testing.T) {
	calls := 0
	root := &Node{Name: "root", calls: &calls, Leaves: []Leaf{1, 7}}
	kid := &Node{Name: "kid", calls: &calls}
	root.Kids = []*Node{kid, kid}
	root.Self = root
	root.Iface = kid
	root.hidden = &Node{Name: "hidden", calls: &calls}
	o := newObs(Config{Args: IntArgs(0, 2)})
	var panics []Panic
	st := o.Sweep(root, func(p Panic) { panics = append(panics, p) }, nil)
	if calls != 2 {
		t.Fatalf("Summary called %d times, want once per distinct node (2)", calls)
	}
	if root.Mutated != 0 || kid.Mutated != 0 {
		t.Fatal("a mutator was called")
	}
	if len(panics) != 1 || panics[0].Method != "(*observe.Leaf).Boom" || st.Panics != 1 {
		t.Fatalf("panics = %+v", panics)
	}
	if got := PathString(panics[0].Path); got != "v.Leaves[1]" {
		t.Fatalf("path = %s", got)
	}
	steps, ok := WalkerSteps(panics[0].Path, panics[0].Method, panics[0].Arg)
	if !ok || strings.Join(steps, " ") != "F:Leaves I:1 M:Boom:0" {
		t.Fatalf("steps = %v %v", steps, ok)
	}
	names := map[string]bool{}
	for _, m := range o.Methods() {
		names[m.Method] = true
	}
	for _, want := range []string{"(*observe.Node).Summary", "(*observe.Node).Children", "(*observe.Node).ByValue", "(*observe.Node).Indent(int(0)|int(2))", "(*observe.Leaf).String"} {
		if !names[want] {
			t.Errorf("method %s not invoked; got %v", want, names)
		}
	}
	for _, not := range []string{"(*observe.Node).Two", "(*observe.Node).Variadic", "(*observe.Node).Lookup", "(*observe.Node).SetName", "(*observe.Node).AddChild"} {
		if names[not] {
			t.Errorf("method %s must not be invoked", not)
		}
	}
	sk := strings.Join(o.Skipped(), " ")
	if !strings.Contains(sk, "SetName") || !strings.Contains(sk, "AddChild") {
		t.Errorf("skipped = %s", sk)
	}
}

func TestDepthAndBudget(t *testing.T) {
	calls := 0
	var head *Node
	for i := 0; i < 100; i++ {
		head = &Node{Name: "n", calls: &calls, deepNext: head}
	}
	o := newObs(Config{MaxDepth: 5})
	st := o.Sweep(head, nil, nil)
	if !st.Truncated || calls != 5 {
		t.Fatalf("depth limit: calls=%d truncated=%v", calls, st.Truncated)
	}
	calls = 0
	o = newObs(Config{MaxCalls: 7})
	st = o.Sweep(head, nil, nil)
	if !st.Truncated || st.Calls != 7 {
		t.Fatalf("budget: %+v", st)
	}
}
