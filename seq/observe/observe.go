// Package observe is a reflective "read-only use" driver: given any decoded
// library value it calls every exported method that takes no argument (and,
// optionally, every exported method with exactly one argument for which the
// caller supplies candidate values) on the value and, recursively, on every
// library-typed value reachable from it through method results, exported struct
// fields, slice/array elements, map values, pointers and interfaces.
//
// It never interprets results; it exists to answer "does any read-only
// operation reachable from this value panic or hang?" (C03) and to enumerate the
// read-only surface of a value (the set of methods it found). It does not
// import the library: which types count as "library values" is decided by a
// package-path prefix.
//
// Protection: a visited set (pointer / slice-header / map identity + type) cuts
// cycles and shared sub-values, MaxDepth bounds the nesting of library values,
// MaxCalls bounds the work of one sweep. Every call runs under recover().
package observe

import (
	"fmt"
	"reflect"
	"runtime/debug"
	"sort"
	"strings"
	"sync"
	"sync/atomic"
	"unicode"
)

// DefaultPrefix is the import-path prefix of the library under test.
const DefaultPrefix = "github.com/insomniacslk/dhcp"

// MutatorPrefixes are method-name prefixes that are never called: the methods
// change their receiver (or consume input) and are therefore not read-only uses.
var MutatorPrefixes = []string{"Set", "Add", "Update", "Del", "Delete", "Remove", "Reset", "Clear", "Close",
	"Write", "Put", "Append", "Insert", "Unmarshal", "FromBytes", "Marshal", "Apply", "Send", "Serve"}

// DefaultSkip reports whether a method is a mutator by name.
func DefaultSkip(recv reflect.Type, name string) bool {
	for _, p := range MutatorPrefixes {
		if strings.HasPrefix(name, p) {
			// "Settings"-like false friends: require the prefix to end at a word boundary
			rest := name[len(p):]
			if rest == "" || unicode.IsUpper(rune(rest[0])) || unicode.IsDigit(rune(rest[0])) {
				return true
			}
		}
	}
	return false
}

// Step is one element of the path from the swept root to a value.
type Step struct {
	Kind  byte   // 'M' method result, 'F' field, 'I' index, 'K' map key
	Name  string // method or field name, or the formatted map key
	Index int    // element index ('I'), result index ('M')
	Arg   string // Go literal of the single argument of a one-argument method ("" for niladic)
}

func (s Step) String() string {
	switch s.Kind {
	case 'M':
		r := ""
		if s.Index > 0 {
			r = fmt.Sprintf("#%d", s.Index)
		}
		return fmt.Sprintf(".%s(%s)%s", s.Name, s.Arg, r)
	case 'F':
		return "." + s.Name
	case 'I':
		return fmt.Sprintf("[%d]", s.Index)
	}
	return fmt.Sprintf("[key %s]", s.Name)
}

// PathString renders a path.
func PathString(p []Step) string {
	var b strings.Builder
	b.WriteString("v")
	for _, s := range p {
		b.WriteString(s.String())
	}
	return b.String()
}

// Panic describes a panicking call.
type Panic struct {
	Method string // "(*dhcpv6.Message).Summary"
	Arg    string // argument literal for one-argument methods
	Path   []Step // path from the root to the receiver
	Value  any    // recovered value
	Stack  string // full debug.Stack() text
}

// Config configures an Observer. The zero value is usable.
type Config struct {
	Prefixes []string // package-path prefixes of library types (default: DefaultPrefix)
	MaxDepth int      // maximal nesting of library values below the root (default 24)
	MaxCalls int      // maximal number of method calls per sweep (default 20000)
	// Skip, when non-nil, replaces DefaultSkip.
	Skip func(recv reflect.Type, method string) bool
	// Args, when non-nil, supplies candidate values for the single parameter of
	// one-argument methods (nil result: the method is not called). Methods with
	// two or more parameters and variadic methods are never called.
	Args func(param reflect.Type) []reflect.Value
}

// IntArgs returns an Args function that feeds the given values to every
// parameter of integer kind (named types included) and nothing else.
func IntArgs(vals ...int64) func(reflect.Type) []reflect.Value {
	return func(t reflect.Type) []reflect.Value {
		var out []reflect.Value
		switch t.Kind() {
		case reflect.Int, reflect.Int8, reflect.Int16, reflect.Int32, reflect.Int64:
			for _, v := range vals {
				x := reflect.New(t).Elem()
				x.SetInt(v)
				if x.Int() == v {
					out = append(out, x)
				}
			}
		case reflect.Uint, reflect.Uint8, reflect.Uint16, reflect.Uint32, reflect.Uint64:
			for _, v := range vals {
				if v < 0 {
					continue
				}
				x := reflect.New(t).Elem()
				x.SetUint(uint64(v))
				if x.Uint() == uint64(v) {
					out = append(out, x)
				}
			}
		}
		return out
	}
}

type methodInfo struct {
	index int
	name  string // "(*pkg.T).Name"
	short string
	args  []reflect.Value // nil: niladic
	lits  []string
	calls atomic.Int64
	// results worth descending into
	descend []int
}

type typeInfo struct {
	ptrType reflect.Type // method set used (pointer to the named type, or the pointer type itself)
	methods []*methodInfo
	skipped []string
}

// Observer holds the per-type method tables and the global call statistics. It
// is safe for concurrent use.
type Observer struct {
	cfg      Config
	types    sync.Map // reflect.Type (named, non-pointer) -> *typeInfo
	interest sync.Map // reflect.Type -> bool
}

// New returns an Observer.
func New(cfg Config) *Observer {
	if len(cfg.Prefixes) == 0 {
		cfg.Prefixes = []string{DefaultPrefix}
	}
	if cfg.MaxDepth <= 0 {
		cfg.MaxDepth = 24
	}
	if cfg.MaxCalls <= 0 {
		cfg.MaxCalls = 20000
	}
	if cfg.Skip == nil {
		cfg.Skip = DefaultSkip
	}
	return &Observer{cfg: cfg}
}

func (o *Observer) isLib(t reflect.Type) bool {
	p := t.PkgPath()
	if p == "" || t.Name() == "" {
		return false
	}
	for _, pre := range o.cfg.Prefixes {
		if p == pre || strings.HasPrefix(p, pre+"/") {
			return true
		}
	}
	return false
}

// interesting reports whether a value of type t can be, or can contain, a
// library-typed value (so that it is worth traversing).
func (o *Observer) interesting(t reflect.Type) bool {
	if v, ok := o.interest.Load(t); ok {
		return v.(bool)
	}
	r := o.interesting0(t, map[reflect.Type]bool{})
	o.interest.Store(t, r)
	return r
}

func (o *Observer) interesting0(t reflect.Type, seen map[reflect.Type]bool) bool {
	if o.isLib(t) {
		return true
	}
	if seen[t] {
		return false
	}
	seen[t] = true
	switch t.Kind() {
	case reflect.Interface:
		return true // dynamic type unknown
	case reflect.Ptr, reflect.Slice, reflect.Array:
		return o.interesting0(t.Elem(), seen)
	case reflect.Map:
		return o.interesting0(t.Elem(), seen) || o.interesting0(t.Key(), seen)
	case reflect.Struct:
		if t.PkgPath() != "" && !o.isLib(t) {
			return false // foreign structs (time.Time, net.IPNet, ...) are leaves
		}
		for i := 0; i < t.NumField(); i++ {
			if f := t.Field(i); f.IsExported() && o.interesting0(f.Type, seen) {
				return true
			}
		}
	}
	return false
}

var errType = reflect.TypeOf((*error)(nil)).Elem()

// info returns the method table for the named library type t (non-pointer).
func (o *Observer) info(t reflect.Type) *typeInfo {
	if v, ok := o.types.Load(t); ok {
		return v.(*typeInfo)
	}
	pt := reflect.PointerTo(t)
	ti := &typeInfo{ptrType: pt}
	tn := "(*" + t.String() + ")"
	for i := 0; i < pt.NumMethod(); i++ {
		m := pt.Method(i)
		if o.cfg.Skip(pt, m.Name) {
			ti.skipped = append(ti.skipped, tn+"."+m.Name)
			continue
		}
		mt := m.Type // includes the receiver
		if mt.IsVariadic() {
			continue
		}
		mi := &methodInfo{index: i, name: tn + "." + m.Name, short: m.Name}
		switch mt.NumIn() {
		case 1:
		case 2:
			if o.cfg.Args == nil {
				continue
			}
			vals := o.cfg.Args(mt.In(1))
			if len(vals) == 0 {
				continue
			}
			mi.args = vals
			for _, v := range vals {
				switch {
				case v.CanInt():
					mi.lits = append(mi.lits, fmt.Sprintf("%s(%d)", mt.In(1).String(), v.Int()))
				case v.CanUint():
					mi.lits = append(mi.lits, fmt.Sprintf("%s(%d)", mt.In(1).String(), v.Uint()))
				default:
					mi.lits = append(mi.lits, fmt.Sprintf("%s(%v)", mt.In(1).String(), v.Interface()))
				}
			}
		default:
			continue
		}
		for r := 0; r < mt.NumOut(); r++ {
			if rt := mt.Out(r); rt != errType && o.interesting(rt) {
				mi.descend = append(mi.descend, r)
			}
		}
		ti.methods = append(ti.methods, mi)
	}
	act, _ := o.types.LoadOrStore(t, ti)
	return act.(*typeInfo)
}

// Stats describes one sweep.
type Stats struct {
	Calls     int  // method calls made
	Values    int  // library-typed values on which methods were called
	Panics    int  // calls that panicked
	Truncated bool // MaxCalls or MaxDepth cut the sweep short
}

type visitKey struct {
	t reflect.Type
	p uintptr
	n int
}

type sweep struct {
	o       *Observer
	st      Stats
	seen    map[visitKey]struct{}
	path    []Step
	onPanic func(Panic)
	stage   *atomic.Pointer[string]
	frames  int
}

// Sweep calls every callable method reachable from v. onPanic (may be nil) is
// invoked for every panicking call; the sweep continues afterwards. stage (may
// be nil) is updated with the name of the method about to be called.
func (o *Observer) Sweep(v any, onPanic func(Panic), stage *atomic.Pointer[string]) Stats {
	s := &sweep{o: o, seen: make(map[visitKey]struct{}, 16), onPanic: onPanic, stage: stage}
	s.visit(reflect.ValueOf(v), 0, false)
	return s.st
}

func (s *sweep) mark(k visitKey) bool {
	if _, ok := s.seen[k]; ok {
		return false
	}
	s.seen[k] = struct{}{}
	return true
}

// visit traverses v. depth counts enclosing library values. viaPtr: the methods
// of v (a pointee) were already called through the pointer.
func (s *sweep) visit(v reflect.Value, depth int, viaPtr bool) {
	if !v.IsValid() {
		return
	}
	if s.st.Calls >= s.o.cfg.MaxCalls {
		s.st.Truncated = true
		return
	}
	s.frames++
	defer func() { s.frames-- }()
	if s.frames > 40*s.o.cfg.MaxDepth {
		s.st.Truncated = true
		return
	}
	t := v.Type()
	switch v.Kind() {
	case reflect.Interface:
		if !v.IsNil() {
			s.visit(v.Elem(), depth, false)
		}
		return
	case reflect.Ptr:
		if v.IsNil() || !s.o.interesting(t) {
			return
		}
		if !s.mark(visitKey{t, v.Pointer(), 0}) {
			return
		}
		et := t.Elem()
		if s.o.isLib(et) {
			if depth >= s.o.cfg.MaxDepth {
				s.st.Truncated = true
				return
			}
			s.callAll(v, et, depth)
			s.visit(v.Elem(), depth+1, true)
			return
		}
		s.visit(v.Elem(), depth, false)
		return
	}
	lib := s.o.isLib(t)
	if !lib && !s.o.interesting(t) {
		return
	}
	// identity-based cut for reference kinds
	switch v.Kind() {
	case reflect.Slice:
		if v.IsNil() {
			if !lib {
				return
			}
		} else if !s.mark(visitKey{t, v.Pointer(), v.Len()}) {
			return
		}
	case reflect.Map:
		if v.IsNil() {
			if !lib {
				return
			}
		} else if !s.mark(visitKey{t, v.Pointer(), 0}) {
			return
		}
	case reflect.Func, reflect.Chan, reflect.UnsafePointer:
		return
	}
	if lib && !viaPtr {
		if depth >= s.o.cfg.MaxDepth {
			s.st.Truncated = true
			return
		}
		// methods with pointer receivers need an addressable value: use v itself
		// when addressable, else a copy (what a caller holding the value would do)
		var pv reflect.Value
		if v.CanAddr() {
			pv = v.Addr()
		} else {
			pv = reflect.New(t)
			pv.Elem().Set(v)
		}
		s.callAll(pv, t, depth)
		depth++
	}
	switch v.Kind() {
	case reflect.Struct:
		for i := 0; i < t.NumField(); i++ {
			f := t.Field(i)
			if !f.IsExported() || !s.o.interesting(f.Type) {
				continue
			}
			s.path = append(s.path, Step{Kind: 'F', Name: f.Name})
			s.visit(v.Field(i), depth, false)
			s.path = s.path[:len(s.path)-1]
		}
	case reflect.Slice, reflect.Array:
		if !s.o.interesting(t.Elem()) {
			return
		}
		for i := 0; i < v.Len(); i++ {
			if s.st.Calls >= s.o.cfg.MaxCalls {
				s.st.Truncated = true
				return
			}
			s.path = append(s.path, Step{Kind: 'I', Index: i})
			s.visit(v.Index(i), depth, false)
			s.path = s.path[:len(s.path)-1]
		}
	case reflect.Map:
		if !s.o.interesting(t.Elem()) && !s.o.interesting(t.Key()) {
			return
		}
		keys := v.MapKeys()
		sort.Slice(keys, func(i, j int) bool { return fmt.Sprint(keys[i].Interface()) < fmt.Sprint(keys[j].Interface()) })
		for _, k := range keys {
			s.path = append(s.path, Step{Kind: 'K', Name: fmt.Sprint(k.Interface())})
			if s.o.interesting(t.Key()) {
				s.visit(k, depth, false)
			}
			s.visit(v.MapIndex(k), depth, false)
			s.path = s.path[:len(s.path)-1]
		}
	}
}

// callAll calls every callable method of the pointer value pv (pointing to a
// library value of named type t) and descends into the results.
func (s *sweep) callAll(pv reflect.Value, t reflect.Type, depth int) {
	ti := s.o.info(t)
	s.st.Values++
	for _, mi := range ti.methods {
		if mi.args == nil {
			s.call(pv, mi, -1, depth)
			continue
		}
		for k := range mi.args {
			s.call(pv, mi, k, depth)
		}
	}
}

func (s *sweep) call(pv reflect.Value, mi *methodInfo, argIdx int, depth int) {
	if s.st.Calls >= s.o.cfg.MaxCalls {
		s.st.Truncated = true
		return
	}
	s.st.Calls++
	mi.calls.Add(1)
	if s.stage != nil {
		s.stage.Store(&mi.name)
	}
	var in []reflect.Value
	lit := ""
	if argIdx >= 0 {
		in = []reflect.Value{mi.args[argIdx]}
		lit = mi.lits[argIdx]
	}
	var out []reflect.Value
	func() {
		defer func() {
			if r := recover(); r != nil {
				s.st.Panics++
				if s.onPanic != nil {
					s.onPanic(Panic{Method: mi.name, Arg: lit, Path: append([]Step(nil), s.path...), Value: r, Stack: string(debug.Stack())})
				}
				out = nil
			}
		}()
		out = pv.Method(mi.index).Call(in)
	}()
	if out == nil {
		return
	}
	for _, r := range mi.descend {
		s.path = append(s.path, Step{Kind: 'M', Name: mi.short, Index: r, Arg: lit})
		s.visit(out[r], depth+1, false)
		s.path = s.path[:len(s.path)-1]
	}
}

// MethodCount is one entry of the surface report.
type MethodCount struct {
	Method string `json:"method"`
	Calls  int64  `json:"calls"`
}

// Methods returns every method the observer has called so far, sorted by name,
// with call counts.
func (o *Observer) Methods() []MethodCount {
	var out []MethodCount
	o.types.Range(func(_, v any) bool {
		for _, mi := range v.(*typeInfo).methods {
			if n := mi.calls.Load(); n > 0 {
				name := mi.name
				if mi.args != nil {
					name += "(" + strings.Join(mi.lits, "|") + ")"
				}
				out = append(out, MethodCount{name, n})
			}
		}
		return true
	})
	sort.Slice(out, func(i, j int) bool { return out[i].Method < out[j].Method })
	return out
}

// Skipped returns the methods that were found but never called because the
// skip rule classified them as mutators.
func (o *Observer) Skipped() []string {
	var out []string
	o.types.Range(func(_, v any) bool {
		out = append(out, v.(*typeInfo).skipped...)
		return true
	})
	sort.Strings(out)
	return out
}

// WalkerSource is the source of a small path interpreter that reproducers can
// paste next to their test: walk(root, steps...) follows a path recorded in
// Panic.Path ("M:Name[:result]", "A:Name:intarg[:result]", "F:Name", "I:n").
const WalkerSource = `func walk(v reflect.Value, steps ...string) reflect.Value {
	for _, st := range steps {
		for v.Kind() == reflect.Interface {
			v = v.Elem()
		}
		p := strings.Split(st, ":")
		switch p[0] {
		case "M", "A": // method call on the value (through a pointer when needed)
			if v.Kind() != reflect.Ptr {
				if v.CanAddr() {
					v = v.Addr()
				} else {
					c := reflect.New(v.Type())
					c.Elem().Set(v)
					v = c
				}
			}
			m := v.MethodByName(p[1])
			var in []reflect.Value
			rest := p[2:]
			if p[0] == "A" {
				n, _ := strconv.ParseInt(p[2], 10, 64)
				a := reflect.New(m.Type().In(0)).Elem()
				if a.CanInt() {
					a.SetInt(n)
				} else {
					a.SetUint(uint64(n))
				}
				in, rest = []reflect.Value{a}, p[3:]
			}
			out := m.Call(in)
			r := 0
			if len(rest) > 0 {
				r, _ = strconv.Atoi(rest[0])
			}
			if len(out) == 0 {
				return reflect.Value{}
			}
			v = out[r]
		case "F":
			for v.Kind() == reflect.Ptr {
				v = v.Elem()
			}
			v = v.FieldByName(p[1])
		case "I":
			for v.Kind() == reflect.Ptr {
				v = v.Elem()
			}
			i, _ := strconv.Atoi(p[1])
			v = v.Index(i)
		}
	}
	return v
}
`

// WalkerSteps converts a path plus the final (panicking) method into the step
// strings understood by WalkerSource's walk. ok is false when the path goes
// through a map key or a non-integer argument (not expressible).
func WalkerSteps(path []Step, method, arg string) (steps []string, ok bool) {
	conv := func(kind byte, name string, idx int, arg string) (string, bool) {
		switch kind {
		case 'M':
			if arg == "" {
				return fmt.Sprintf("M:%s:%d", name, idx), true
			}
			// arg literal is "type(value)"
			i, j := strings.LastIndex(arg, "("), strings.LastIndex(arg, ")")
			if i < 0 || j < i {
				return "", false
			}
			val := arg[i+1 : j]
			for _, ch := range val {
				if !unicode.IsDigit(ch) && ch != '-' {
					return "", false
				}
			}
			return fmt.Sprintf("A:%s:%s:%d", name, val, idx), true
		case 'F':
			return "F:" + name, true
		case 'I':
			return fmt.Sprintf("I:%d", idx), true
		}
		return "", false
	}
	for _, s := range path {
		x, k := conv(s.Kind, s.Name, s.Index, s.Arg)
		if !k {
			return nil, false
		}
		steps = append(steps, x)
	}
	name := method
	if i := strings.LastIndex(name, "."); i >= 0 {
		name = name[i+1:]
	}
	x, k := conv('M', name, 0, arg)
	if !k {
		return nil, false
	}
	return append(steps, x), true
}
