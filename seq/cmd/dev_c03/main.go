package main

import (
	"os"

	"verif/seq/fw"
	"verif/seq/props/c03"
)

func main() {
	c := fw.New("C03", os.Args[1], "exploration")
	c03.Run(c)
	os.Exit(c.Finish())
}
