// dev_c15: private test main for the C15 check (the shared dispatcher is
// cmd/seqmc). usage: dev_c15 <quick|thorough>
package main

import (
	"os"

	"verif/seq/fw"
	"verif/seq/props/c15"
)

func main() {
	c := fw.New("C15", os.Args[1], "exploration")
	c15.Run(c)
	os.Exit(c.Finish())
}
