// dev_c17: private test main for property C17 (the integrator wires c17.Run into seqmc).
package main

import (
	"os"

	"verif/seq/fw"
	"verif/seq/props/c17"
)

func main() {
	c := fw.New("C17", os.Args[1], "exploration")
	c17.Run(c)
	os.Exit(c.Finish())
}
