package main

import (
	"os"

	"verif/seq/fw"
	"verif/seq/props/c19"
)

func main() {
	c := fw.New("C19", os.Args[1], "exploration")
	c19.Run(c)
	os.Exit(c.Finish())
}
