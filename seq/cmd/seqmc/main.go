// seqmc: engine E1 — bounded-exhaustive sequential exploration against
// independent reference models. usage: seqmc <property> <quick|thorough>
package main

import (
	"fmt"
	"os"

	"verif/seq/fw"
	"verif/seq/props/c01"
	"verif/seq/props/c02"
	"verif/seq/props/c03"
	"verif/seq/props/c04"
	"verif/seq/props/c05"
	"verif/seq/props/c06"
	"verif/seq/props/c07"
	"verif/seq/props/c08"
	"verif/seq/props/c09"
	"verif/seq/props/c15"
	"verif/seq/props/c16"
	"verif/seq/props/c17"
	"verif/seq/props/c18"
	"verif/seq/props/c19"
	"verif/seq/props/c20"
)

type entry struct {
	level string
	run   func(*fw.Ctx)
}

var table = map[string]entry{
	"C01": {"exploration", c01.Run},
	"C02": {"exploration", c02.Run},
	"C03": {"exploration", c03.Run},
	"C04": {"exploration", c04.Run},
	"C05": {"exploration", c05.Run},
	"C06": {"exploration", c06.Run},
	"C07": {"model_checking", c07.Run},
	"C08": {"exploration", c08.Run},
	"C09": {"exploration", c09.Run},
	"C15": {"exploration", c15.Run},
	"C16": {"exploration", c16.Run},
	"C17": {"exploration", c17.Run},
	"C18": {"exploration", c18.Run},
	"C19": {"exploration", c19.Run},
	"C20": {"model_checking", c20.Run},
}

func main() {
	c09.MaybeWorker() // C09 measures in re-exec'd worker subprocesses of this binary
	if len(os.Args) < 3 {
		fmt.Fprintln(os.Stderr, "usage: seqmc <property> <quick|thorough>")
		os.Exit(2)
	}
	id, tier := os.Args[1], os.Args[2]
	e, ok := table[id]
	if !ok {
		fmt.Fprintln(os.Stderr, "seqmc: unknown property", id)
		os.Exit(2)
	}
	if tier != "quick" && tier != "thorough" {
		fmt.Fprintln(os.Stderr, "seqmc: tier must be quick or thorough")
		os.Exit(2)
	}
	c := fw.New(id, tier, e.level)
	e.run(c)
	os.Exit(c.Finish())
}
