// seqmc: engine E1 — bounded-exhaustive sequential exploration against
// independent reference models. usage: seqmc <property> <quick|thorough>
package main

import (
	"fmt"
	"os"

	"verif/seq/fw"
	"verif/seq/props/c04"
)

type entry struct {
	level string
	run   func(*fw.Ctx)
}

var table = map[string]entry{
	"C04": {"exploration", c04.Run},
}

func main() {
	if len(os.Args) < 3 {
		fmt.Fprintln(os.Stderr, "usage: seqmc <property> <quick|thorough>")
		os.Exit(2)
	}
	id, tier := os.Args[1], os.Args[2]
	e, ok := table[id]
	if !ok {
		fmt.Fprintln(os.Stderr, "seqmc: unknown property", id)
		os.Exit(2)
	}
	if tier != "quick" && tier != "thorough" {
		fmt.Fprintln(os.Stderr, "seqmc: tier must be quick or thorough")
		os.Exit(2)
	}
	c := fw.New(id, tier, e.level)
	e.run(c)
	os.Exit(c.Finish())
}
