package main

import (
	"os"

	"verif/seq/fw"
	"verif/seq/props/c09"
)

func main() {
	c09.MaybeWorker() // measurement worker re-exec (VERIF_C09_WORKER=1): serves requests and exits
	c := fw.New("C09", os.Args[1], "exploration")
	c09.Run(c)
	os.Exit(c.Finish())
}
