package main

import (
	"os"

	"verif/seq/fw"
	"verif/seq/props/c02"
)

func main() { c := fw.New("C02", os.Args[1], "exploration"); c02.Run(c); os.Exit(c.Finish()) }
