package main

import (
	"os"

	"verif/seq/fw"
	"verif/seq/props/c05"
)

func main() { c := fw.New("C05", os.Args[1], "exploration"); c05.Run(c); os.Exit(c.Finish()) }
