package main

import (
	"os"

	"verif/seq/fw"
	"verif/seq/props/c06"
)

func main() { c := fw.New("C06", os.Args[1], "exploration"); c06.Run(c); os.Exit(c.Finish()) }
