// dev_c20 runs check C20 alone: go run ./cmd/dev_c20 quick|thorough
package main

import (
	"os"
	"runtime/pprof"

	"verif/seq/fw"
	"verif/seq/props/c20"
)

func main() {
	tier := "quick"
	if len(os.Args) > 1 {
		tier = os.Args[1]
	}
	if f := os.Getenv("C20_CPUPROFILE"); f != "" { // development aid
		w, err := os.Create(f)
		if err == nil {
			pprof.StartCPUProfile(w)
		}
	}
	c := fw.New("C20", tier, "model_checking")
	c20.Run(c)
	pprof.StopCPUProfile()
	os.Exit(c.Finish())
}
