// dev_c20 runs check C20 alone: go run ./cmd/dev_c20 quick|thorough
package main

import (
	"os"

	"verif/seq/fw"
	"verif/seq/props/c20"
)

func main() {
	tier := "quick"
	if len(os.Args) > 1 {
		tier = os.Args[1]
	}
	c := fw.New("C20", tier, "model_checking")
	c20.Run(c)
	os.Exit(c.Finish())
}
