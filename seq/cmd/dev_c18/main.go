// dev_c18: private test main for property C18 (the integrator wires c18.Run into seqmc).
package main

import (
	"os"

	"verif/seq/fw"
	"verif/seq/props/c18"
)

func main() {
	tier := "quick"
	if len(os.Args) > 1 {
		tier = os.Args[1]
	}
	c := fw.New("C18", tier, "exploration")
	c18.Run(c)
	os.Exit(c.Finish())
}
