package main

import (
	"os"

	"verif/seq/fw"
	"verif/seq/props/c16"
)

func main() {
	c := fw.New("C16", os.Args[1], "exploration")
	c16.Run(c)
	os.Exit(c.Finish())
}
