package main

import (
	"os"
	"runtime/pprof"

	"verif/seq/fw"
	"verif/seq/props/c16"
)

func main() {
	if p := os.Getenv("C16_PROF"); p != "" { // private profiling aid
		f, _ := os.Create(p)
		pprof.StartCPUProfile(f)
		defer pprof.StopCPUProfile()
	}
	c := fw.New("C16", os.Args[1], "exploration")
	c16.Run(c)
	code := c.Finish()
	pprof.StopCPUProfile()
	os.Exit(code)
}
