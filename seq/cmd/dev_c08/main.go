package main

import (
	"fmt"
	"os"

	"github.com/insomniacslk/dhcp/dhcpv4"
	"github.com/insomniacslk/dhcp/dhcpv6"
	"verif/seq/corpus6"
	"verif/seq/snap"
)

func main() {
	if len(os.Args) > 1 && os.Args[1] == "show" {
		m := corpus6.RelayChain(1, corpus6.InnerMessage(2), 3)
		d, _ := dhcpv6.FromBytes(m.ToBytes())
		fmt.Print(snap.V6(d))
		p, _ := dhcpv4.FromBytes(corpus6.V4Packet(1).ToBytes())
		fmt.Print(snap.V4(p))
		return
	}
}
