package main

import (
	"os"

	"verif/seq/fw"
	"verif/seq/props/c08"
)

func main() { c := fw.New("C08", os.Args[1], "exploration"); c08.Run(c); os.Exit(c.Finish()) }
