package corpus6_test

import (
	"fmt"
	"testing"

	"github.com/insomniacslk/dhcp/dhcpv6"
	"verif/seq/adapt"
	"verif/seq/corpus6"
	"verif/seq/ref/v6ref"
)

// Self-test of the machinery on the tree under test: every instance round-trips
// through library and reference with equal trees.
func TestInstances(t *testing.T) {
	ins := corpus6.Instances()
	t.Logf("%d instances", len(ins))
	per := map[uint16]int{}
	for _, in := range ins {
		per[in.Code]++
		o := in.Build()
		if uint16(o.Code()) != in.Code {
			t.Errorf("%s: code %d", in.Name, o.Code())
		}
		m := corpus6.NewMessage(1, [3]byte{1, 2, 3}, o)
		b := m.ToBytes()
		rt, v, why := v6ref.DecodeMessage(b)
		if !v.HasTree() {
			t.Errorf("%s: ref %v %s (%x)", in.Name, v, why, b)
			continue
		}
		bt := adapt.TreeOfMessage(m)
		if ok, p, d := v6ref.Equal(bt, rt); !ok {
			t.Errorf("%s: built vs ref: %s: %s\n built %s\n ref   %s", in.Name, p, d, bt, rt)
		}
		lm, err := dhcpv6.FromBytes(append([]byte{}, b...))
		if err != nil {
			t.Errorf("%s: lib rejects: %v", in.Name, err)
			continue
		}
		lt := adapt.TreeOfMessage(lm)
		if ok, p, d := v6ref.Equal(lt, rt); !ok {
			t.Errorf("%s: decoded vs ref: %s: %s", in.Name, p, d)
		}
		if u := adapt.V6Unadapted(lt); len(u) > 0 {
			t.Errorf("%s: unadapted %v", in.Name, u)
		}
	}
	t.Log(fmt.Sprint(per))
}

func TestBinding(t *testing.T) {
	tab, err := adapt.ExtractV6OptionTable()
	if err != nil {
		t.Fatal(err)
	}
	t.Logf("dir=%s top=%v ntp=%v", tab.Dir, tab.Top, tab.NTP)
	c := adapt.CompareV6Tables(tab)
	t.Logf("uncovered=%v lost=%v", c.Uncovered, c.Lost)
	seen := map[uint16]bool{}
	for _, in := range corpus6.Instances() {
		seen[in.Code] = true
	}
	for _, k := range tab.Top {
		if !seen[k] {
			t.Errorf("no instance for parsed code %d", k)
		}
	}
}

func TestMessages(t *testing.T) {
	ms := corpus6.Messages(true)
	t.Logf("%d messages", len(ms))
	for _, mc := range ms {
		m := mc.Build()
		b := m.ToBytes()
		rt, v, why := v6ref.DecodeMessage(b)
		if !v.HasTree() {
			t.Errorf("%s: ref %v %s", mc.Name, v, why)
			continue
		}
		if ok, p, d := v6ref.Equal(adapt.TreeOfMessage(m), rt); !ok {
			t.Errorf("%s: built vs ref: %s: %s", mc.Name, p, d)
		}
	}
}
