// Package corpus6 is the DHCPv6 option-instance corpus shared by the E1 checks
// (C02, C05 and the checks built on them): for every option type the library's
// ParseOption switch names, a small set of *values* with each field over its
// boundary alphabet, plus unknown codes; wrappers that nest an option in every
// container that may hold options; and message generators.
//
// Every value is built afresh by a function (the library may retain or mutate
// what it is given), and every value lies inside the domain of the C02
// statement: durations in whole seconds < 2^32, elapsed time in whole 10 ms
// units ≤ 655.35 s, prefix lengths 0..128 / 0..32, 16-byte addresses, valid
// domain names, at least one element where the option's layout requires one.
package corpus6

import (
	"fmt"
	"net"
	"strings"
	"time"

	"github.com/insomniacslk/dhcp/dhcpv4"
	"github.com/insomniacslk/dhcp/dhcpv6"
	"github.com/insomniacslk/dhcp/iana"
	"github.com/insomniacslk/dhcp/rfc1035label"
)

// Instance is one option value of the corpus.
type Instance struct {
	Name  string
	Code  uint16
	Build func() dhcpv6.Option // a fresh value on every call
}

const maxSec = time.Duration(1<<32-1) * time.Second

// Addresses with pairwise distinct bytes so that swaps and shifts show.
var (
	AddrZero = net.IP(make([]byte, 16))
	AddrA    = net.IP{0x20, 0x01, 0x0d, 0xb8, 0x11, 0x12, 0x13, 0x14, 0x15, 0x16, 0x17, 0x18, 0x19, 0x1a, 0x1b, 0x1c}
	AddrB    = net.IP{0xfe, 0x80, 0x21, 0x22, 0x23, 0x24, 0x25, 0x26, 0x27, 0x28, 0x29, 0x2a, 0x2b, 0x2c, 0x2d, 0x2e}
	AddrOnes = net.IP{0xff, 0xff, 0xff, 0xff, 0xff, 0xff, 0xff, 0xff, 0xff, 0xff, 0xff, 0xff, 0xff, 0xff, 0xff, 0xff}
)

func ipc(ip net.IP) net.IP { return append(net.IP{}, ip...) }

// Bytes returns n position-dependent bytes (b[i] = (i*7+seed) mod 251, never all equal).
func Bytes(n int, seed int) []byte {
	b := make([]byte, n)
	for i := range b {
		b[i] = byte((i*7 + seed) % 251)
	}
	return b
}

// Text returns n printable bytes.
func Text(n int, seed int) string {
	b := make([]byte, n)
	for i := range b {
		b[i] = byte('a' + (i*5+seed)%26)
	}
	return string(b)
}

func labels(n ...string) *rfc1035label.Labels {
	return &rfc1035label.Labels{Labels: append([]string{}, n...)}
}

// Label63 is a maximal 63-octet label.
var Label63 = strings.Repeat("x", 62) + "y"

func status(code uint16, msg string) *dhcpv6.OptStatusCode {
	return &dhcpv6.OptStatusCode{StatusCode: iana.StatusCode(code), StatusMessage: msg}
}

func iaaddr(ip net.IP, p, v time.Duration, opts ...dhcpv6.Option) *dhcpv6.OptIAAddress {
	return &dhcpv6.OptIAAddress{IPv6Addr: ipc(ip), PreferredLifetime: p, ValidLifetime: v, Options: dhcpv6.AddressOptions{Options: opts}}
}

func iaprefix(ip net.IP, plen int, p, v time.Duration, opts ...dhcpv6.Option) *dhcpv6.OptIAPrefix {
	o := &dhcpv6.OptIAPrefix{PreferredLifetime: p, ValidLifetime: v, Options: dhcpv6.PrefixOptions{Options: opts}}
	if ip != nil {
		o.Prefix = &net.IPNet{IP: ipc(ip), Mask: net.CIDRMask(plen, 128)}
	}
	return o
}

func iana_(iaid [4]byte, t1, t2 time.Duration, opts ...dhcpv6.Option) *dhcpv6.OptIANA {
	return &dhcpv6.OptIANA{IaId: iaid, T1: t1, T2: t2, Options: dhcpv6.IdentityOptions{Options: opts}}
}

func iata(iaid [4]byte, opts ...dhcpv6.Option) *dhcpv6.OptIATA {
	return &dhcpv6.OptIATA{IaId: iaid, Options: dhcpv6.IdentityOptions{Options: opts}}
}

func iapd(iaid [4]byte, t1, t2 time.Duration, opts ...dhcpv6.Option) *dhcpv6.OptIAPD {
	return &dhcpv6.OptIAPD{IaId: iaid, T1: t1, T2: t2, Options: dhcpv6.PDOptions{Options: opts}}
}

func generic(code uint16, data []byte) *dhcpv6.OptionGeneric {
	return &dhcpv6.OptionGeneric{OptionCode: dhcpv6.OptionCode(code), OptionData: data}
}

func mapRule(p4 net.IP, l4 int, p6 net.IP, l6 int, ea uint8, wkp bool) *dhcpv6.Opt4RDMapRule {
	return &dhcpv6.Opt4RDMapRule{
		Prefix4:       net.IPNet{IP: append(net.IP{}, p4...), Mask: net.CIDRMask(l4, 32)},
		Prefix6:       net.IPNet{IP: ipc(p6), Mask: net.CIDRMask(l6, 128)},
		EABitsLength:  ea,
		WKPAuthorized: wkp,
	}
}

func nonMapRule(h bool, tc int, pmtu uint16) *dhcpv6.Opt4RDNonMapRule {
	o := &dhcpv6.Opt4RDNonMapRule{HubAndSpoke: h, DomainPMTU: pmtu}
	if tc >= 0 {
		v := uint8(tc)
		o.TrafficClass = &v
	}
	return o
}

// V4Packet builds one of three embedded DHCPv4 packets.
func V4Packet(kind int) *dhcpv4.DHCPv4 {
	switch kind {
	case 0:
		return &dhcpv4.DHCPv4{OpCode: dhcpv4.OpcodeBootRequest, HWType: iana.HWTypeEthernet, TransactionID: dhcpv4.TransactionID{0x11, 0x22, 0x33, 0x44},
			ClientHWAddr: net.HardwareAddr{0xa0, 0xa1, 0xa2, 0xa3, 0xa4, 0xa5}, Options: dhcpv4.Options{}}
	case 1:
		return &dhcpv4.DHCPv4{OpCode: dhcpv4.OpcodeBootRequest, HWType: iana.HWTypeEthernet, HopCount: 3, TransactionID: dhcpv4.TransactionID{0x01, 0x02, 0x03, 0x04},
			NumSeconds: 0x0102, Flags: 0x8000,
			ClientIPAddr: net.IP{10, 1, 0, 1}, YourIPAddr: net.IP{10, 2, 0, 2}, ServerIPAddr: net.IP{10, 3, 0, 3}, GatewayIPAddr: net.IP{10, 4, 0, 4},
			ClientHWAddr:   net.HardwareAddr{0xa0, 0xa1, 0xa2, 0xa3, 0xa4, 0xa5},
			ServerHostName: "srv.example", BootFileName: "boot/file.efi",
			Options: dhcpv4.Options{53: {1}, 55: {1, 3, 6, 15}, 61: {1, 0xa0, 0xa1, 0xa2, 0xa3, 0xa4, 0xa5}, 12: []byte("host")}}
	}
	return &dhcpv4.DHCPv4{OpCode: dhcpv4.OpcodeBootReply, HWType: iana.HWType(0xff), HopCount: 255, TransactionID: dhcpv4.TransactionID{0xff, 0xff, 0xff, 0xff},
		NumSeconds: 0xffff, Flags: 0xffff,
		ClientIPAddr: net.IP{255, 255, 255, 255}, YourIPAddr: net.IP{0, 0, 0, 0}, ServerIPAddr: net.IP{1, 2, 3, 4}, GatewayIPAddr: net.IP{5, 6, 7, 8},
		ClientHWAddr:   net.HardwareAddr(Bytes(16, 0xb0)),
		ServerHostName: Text(63, 1), BootFileName: Text(127, 2),
		Options: dhcpv4.Options{53: {5}, 51: {0, 0, 0x0e, 0x10}, 82: {1, 2, 'a', 'b'}, 43: Bytes(300, 9), 254: {}}}
}

func duids() []struct {
	name string
	mk   func() dhcpv6.DUID
} {
	type e = struct {
		name string
		mk   func() dhcpv6.DUID
	}
	mac := func() net.HardwareAddr { return net.HardwareAddr{0xa0, 0xa1, 0xa2, 0xa3, 0xa4, 0xa5} }
	return []e{
		{"llt", func() dhcpv6.DUID {
			return &dhcpv6.DUIDLLT{HWType: iana.HWTypeEthernet, Time: 0x01020304, LinkLayerAddr: mac()}
		}},
		{"llt-max-empty", func() dhcpv6.DUID { return &dhcpv6.DUIDLLT{HWType: iana.HWType(0xffff), Time: 0xffffffff} }},
		{"llt-zero-1", func() dhcpv6.DUID { return &dhcpv6.DUIDLLT{HWType: 0, Time: 0, LinkLayerAddr: net.HardwareAddr{0x7f}} }},
		{"en", func() dhcpv6.DUID {
			return &dhcpv6.DUIDEN{EnterpriseNumber: 0x01020304, EnterpriseIdentifier: Bytes(8, 3)}
		}},
		{"en-zero-empty", func() dhcpv6.DUID { return &dhcpv6.DUIDEN{EnterpriseNumber: 0} }},
		{"en-max-16", func() dhcpv6.DUID {
			return &dhcpv6.DUIDEN{EnterpriseNumber: 0xffffffff, EnterpriseIdentifier: Bytes(16, 5)}
		}},
		{"ll", func() dhcpv6.DUID { return &dhcpv6.DUIDLL{HWType: iana.HWTypeEthernet, LinkLayerAddr: mac()} }},
		{"ll-max-empty", func() dhcpv6.DUID { return &dhcpv6.DUIDLL{HWType: iana.HWType(0xffff)} }},
		{"ll-0102-17", func() dhcpv6.DUID {
			return &dhcpv6.DUIDLL{HWType: iana.HWType(0x0102), LinkLayerAddr: net.HardwareAddr(Bytes(17, 1))}
		}},
		{"uuid", func() dhcpv6.DUID {
			d := &dhcpv6.DUIDUUID{}
			copy(d.UUID[:], Bytes(16, 0x30))
			return d
		}},
		{"uuid-ones", func() dhcpv6.DUID {
			d := &dhcpv6.DUIDUUID{}
			copy(d.UUID[:], AddrOnes)
			return d
		}},
		{"opaque0-len0", func() dhcpv6.DUID { return &dhcpv6.DUIDOpaque{Type: 0} }},
		{"opaque5-len1", func() dhcpv6.DUID { return &dhcpv6.DUIDOpaque{Type: 5, Data: []byte{0x42}} }},
		{"opaqueffff-len16", func() dhcpv6.DUID { return &dhcpv6.DUIDOpaque{Type: 0xffff, Data: Bytes(16, 7)} }},
		{"opaque5-len17", func() dhcpv6.DUID { return &dhcpv6.DUIDOpaque{Type: 5, Data: Bytes(17, 8)} }},
		{"en-nul-tail", func() dhcpv6.DUID {
			return &dhcpv6.DUIDEN{EnterpriseNumber: 9, EnterpriseIdentifier: []byte{0xee, 0, 0}}
		}},
	}
}

var (
	iaid0 = [4]byte{0, 0, 0, 0}
	iaid1 = [4]byte{1, 2, 3, 4}
	iaidF = [4]byte{0xff, 0xff, 0xff, 0xff}
)

// distinct-byte durations so that swapped/shifted fields show
const (
	durA = time.Duration(0x00010e10) * time.Second
	durB = time.Duration(0x00021518) * time.Second
)

// Instances returns the whole corpus (about 250 values), simplest first within
// each type; types in ascending code order, unknown codes last.
func Instances() []Instance {
	var out []Instance
	add := func(code uint16, name string, f func() dhcpv6.Option) {
		out = append(out, Instance{Name: fmt.Sprintf("%d/%s", code, name), Code: code, Build: f})
	}
	// 1, 2: client / server identifier — every DUID kind
	for _, d := range duids() {
		d := d
		add(1, "client-id/"+d.name, func() dhcpv6.Option { return dhcpv6.OptClientID(d.mk()) })
	}
	for _, d := range duids() {
		d := d
		add(2, "server-id/"+d.name, func() dhcpv6.Option { return dhcpv6.OptServerID(d.mk()) })
	}
	// 3: IA_NA
	add(3, "IA_NA/zero", func() dhcpv6.Option { return iana_(iaid0, 0, 0) })
	add(3, "IA_NA/1s-max", func() dhcpv6.Option { return iana_(iaid1, time.Second, maxSec) })
	add(3, "IA_NA/max-1s", func() dhcpv6.Option { return iana_(iaidF, maxSec, time.Second) })
	add(3, "IA_NA/distinct", func() dhcpv6.Option { return iana_(iaid1, durA, durB) })
	add(3, "IA_NA/addr", func() dhcpv6.Option { return iana_(iaid1, durA, durB, iaaddr(AddrA, durA, durB)) })
	add(3, "IA_NA/addr-status", func() dhcpv6.Option {
		return iana_(iaid1, durA, durB, iaaddr(AddrA, durA, durB, status(0, "ok")), status(2, "NoAddrsAvail"))
	})
	add(3, "IA_NA/two-addrs", func() dhcpv6.Option {
		return iana_(iaidF, 0, maxSec, iaaddr(AddrA, 0, time.Second), iaaddr(AddrB, maxSec, maxSec))
	})
	add(3, "IA_NA/status-only", func() dhcpv6.Option { return iana_(iaid0, time.Second, time.Second, status(2, "NoAddrsAvail")) })
	add(3, "IA_NA/unknown-nested", func() dhcpv6.Option { return iana_(iaid1, durB, durA, generic(65535, Bytes(5, 1)), generic(14, nil)) })
	// 4: IA_TA
	add(4, "IA_TA/zero", func() dhcpv6.Option { return iata(iaid0) })
	add(4, "IA_TA/distinct", func() dhcpv6.Option { return iata(iaid1) })
	add(4, "IA_TA/ones", func() dhcpv6.Option { return iata(iaidF) })
	add(4, "IA_TA/addr", func() dhcpv6.Option { return iata(iaid1, iaaddr(AddrB, durA, durB)) })
	add(4, "IA_TA/addr-status", func() dhcpv6.Option { return iata(iaid1, iaaddr(AddrB, durA, durB, status(1, "x")), status(0, "")) })
	add(4, "IA_TA/two-addrs", func() dhcpv6.Option { return iata(iaid0, iaaddr(AddrA, 0, 0), iaaddr(AddrOnes, maxSec, maxSec)) })
	// 5: IAADDR
	add(5, "IAADDR/zero", func() dhcpv6.Option { return iaaddr(AddrZero, 0, 0) })
	add(5, "IAADDR/v4-mapped", func() dhcpv6.Option { return iaaddr(net.ParseIP("::ffff:192.0.2.33"), durA, durB) })
	add(5, "IAADDR/distinct", func() dhcpv6.Option { return iaaddr(AddrA, durA, durB) })
	add(5, "IAADDR/ones-max", func() dhcpv6.Option { return iaaddr(AddrOnes, maxSec, maxSec) })
	add(5, "IAADDR/1s-max", func() dhcpv6.Option { return iaaddr(AddrB, time.Second, maxSec) })
	add(5, "IAADDR/max-0", func() dhcpv6.Option { return iaaddr(AddrA, maxSec, 0) })
	add(5, "IAADDR/0-1s", func() dhcpv6.Option { return iaaddr(AddrB, 0, time.Second) })
	add(5, "IAADDR/status", func() dhcpv6.Option { return iaaddr(AddrA, durA, durB, status(0, "fine")) })
	add(5, "IAADDR/unknown-nested", func() dhcpv6.Option { return iaaddr(AddrB, durB, durA, generic(256, Bytes(3, 2))) })
	// 6: ORO (no repeated codes: the decoder drops repeats, a C06 normalisation)
	add(6, "ORO/empty", func() dhcpv6.Option { return dhcpv6.OptRequestedOption() })
	add(6, "ORO/one", func() dhcpv6.Option { return dhcpv6.OptRequestedOption(dhcpv6.OptionDNSRecursiveNameServer) })
	add(6, "ORO/two", func() dhcpv6.Option {
		return dhcpv6.OptRequestedOption(dhcpv6.OptionDomainSearchList, dhcpv6.OptionDNSRecursiveNameServer)
	})
	add(6, "ORO/bounds", func() dhcpv6.Option { return dhcpv6.OptRequestedOption(0, 65535, 256, 255, 1) })
	add(6, "ORO/descending", func() dhcpv6.Option { return dhcpv6.OptRequestedOption(59, 24, 23, 3) })
	add(6, "ORO/twenty", func() dhcpv6.Option {
		var l []dhcpv6.OptionCode
		for i := 0; i < 20; i++ {
			l = append(l, dhcpv6.OptionCode(0x0101*(i+1)))
		}
		return dhcpv6.OptRequestedOption(l...)
	})
	// 8: elapsed time
	add(8, "elapsed/0", func() dhcpv6.Option { return dhcpv6.OptElapsedTime(0) })
	add(8, "elapsed/10ms", func() dhcpv6.Option { return dhcpv6.OptElapsedTime(10 * time.Millisecond) })
	add(8, "elapsed/2580ms", func() dhcpv6.Option { return dhcpv6.OptElapsedTime(0x0102 * 10 * time.Millisecond) })
	add(8, "elapsed/1s", func() dhcpv6.Option { return dhcpv6.OptElapsedTime(time.Second) })
	add(8, "elapsed/655.35s", func() dhcpv6.Option { return dhcpv6.OptElapsedTime(65535 * 10 * time.Millisecond) })
	add(8, "elapsed/20ms", func() dhcpv6.Option { return dhcpv6.OptElapsedTime(20 * time.Millisecond) })
	add(8, "elapsed/652.8s", func() dhcpv6.Option { return dhcpv6.OptElapsedTime(0xff00 * 10 * time.Millisecond) })
	// 9: relay message
	add(9, "relay-msg/empty-solicit", func() dhcpv6.Option {
		return dhcpv6.OptRelayMessage(&dhcpv6.Message{MessageType: dhcpv6.MessageTypeSolicit, TransactionID: dhcpv6.TransactionID{1, 2, 3}})
	})
	add(9, "relay-msg/solicit", func() dhcpv6.Option { return dhcpv6.OptRelayMessage(InnerMessage(1)) })
	add(9, "relay-msg/reply", func() dhcpv6.Option { return dhcpv6.OptRelayMessage(InnerMessage(2)) })
	add(9, "relay-msg/relay", func() dhcpv6.Option { return dhcpv6.OptRelayMessage(RelayChain(1, InnerMessage(1), 3)) })
	add(9, "relay-msg/info-request", func() dhcpv6.Option { return dhcpv6.OptRelayMessage(InnerMessage(3)) })
	add(9, "relay-msg/dhcpv4-query", func() dhcpv6.Option { return dhcpv6.OptRelayMessage(InnerMessage(4)) })
	add(9, "relay-msg/relay-depth3", func() dhcpv6.Option { return dhcpv6.OptRelayMessage(RelayChain(3, InnerMessage(2), 0x39)) })
	// 13: status code
	add(13, "status/0-empty", func() dhcpv6.Option { return status(0, "") })
	add(13, "status/1-a", func() dhcpv6.Option { return status(1, "a") })
	add(13, "status/0102-ab", func() dhcpv6.Option { return status(0x0102, "ab") })
	add(13, "status/6-text", func() dhcpv6.Option { return status(6, "NoPrefixAvail") })
	add(13, "status/ffff-255", func() dhcpv6.Option { return status(0xffff, Text(255, 3)) })
	add(13, "status/2-NoAddrsAvail", func() dhcpv6.Option { return status(2, "NoAddrsAvail") })
	add(13, "status/5-16", func() dhcpv6.Option { return status(5, Text(16, 1)) })
	add(13, "status/ff00-17", func() dhcpv6.Option { return status(0xff00, Text(17, 2)) })
	add(13, "status/3-nul-tail", func() dhcpv6.Option { return status(3, "x\x00") })
	add(13, "status/4-space-tail", func() dhcpv6.Option { return status(4, " y \n") })
	add(13, "status/1-300", func() dhcpv6.Option { return status(1, Text(300, 9)) })
	// 15: user class (at least one item)
	add(15, "user-class/empty-item", func() dhcpv6.Option { return &dhcpv6.OptUserClass{UserClasses: [][]byte{{}}} })
	add(15, "user-class/a", func() dhcpv6.Option { return &dhcpv6.OptUserClass{UserClasses: [][]byte{[]byte("a")}} })
	add(15, "user-class/two", func() dhcpv6.Option {
		return &dhcpv6.OptUserClass{UserClasses: [][]byte{[]byte("ab"), []byte("c")}}
	})
	add(15, "user-class/255", func() dhcpv6.Option { return &dhcpv6.OptUserClass{UserClasses: [][]byte{Bytes(255, 1)}} })
	add(15, "user-class/empty-then-x", func() dhcpv6.Option {
		return &dhcpv6.OptUserClass{UserClasses: [][]byte{{}, []byte("x"), {}}}
	})
	add(15, "user-class/16-17", func() dhcpv6.Option {
		return &dhcpv6.OptUserClass{UserClasses: [][]byte{Bytes(16, 3), Bytes(17, 4)}}
	})
	add(15, "user-class/nul", func() dhcpv6.Option { return &dhcpv6.OptUserClass{UserClasses: [][]byte{{0}, []byte("u\x00")}} })
	add(15, "user-class/256-300", func() dhcpv6.Option {
		return &dhcpv6.OptUserClass{UserClasses: [][]byte{Bytes(256, 5), Bytes(300, 6)}}
	})
	// 16: vendor class (at least one item)
	add(16, "vendor-class/0-empty-item", func() dhcpv6.Option { return &dhcpv6.OptVendorClass{EnterpriseNumber: 0, Data: [][]byte{{}}} })
	add(16, "vendor-class/distinct-a", func() dhcpv6.Option {
		return &dhcpv6.OptVendorClass{EnterpriseNumber: 0x01020304, Data: [][]byte{[]byte("a")}}
	})
	add(16, "vendor-class/max-two", func() dhcpv6.Option {
		return &dhcpv6.OptVendorClass{EnterpriseNumber: 0xffffffff, Data: [][]byte{[]byte("ab"), []byte("c")}}
	})
	add(16, "vendor-class/255", func() dhcpv6.Option {
		return &dhcpv6.OptVendorClass{EnterpriseNumber: 4491, Data: [][]byte{Bytes(255, 2)}}
	})
	add(16, "vendor-class/256-item", func() dhcpv6.Option {
		return &dhcpv6.OptVendorClass{EnterpriseNumber: 1, Data: [][]byte{Bytes(256, 2), {}}}
	})
	add(16, "vendor-class/16-17", func() dhcpv6.Option {
		return &dhcpv6.OptVendorClass{EnterpriseNumber: 0x00ff00ff, Data: [][]byte{Bytes(16, 3), Bytes(17, 4), []byte("x")}}
	})
	add(16, "vendor-class/nul-tail", func() dhcpv6.Option {
		return &dhcpv6.OptVendorClass{EnterpriseNumber: 9, Data: [][]byte{[]byte("v\x00 "), {0, 0}}}
	})
	// 17: vendor options (sub-options are opaque)
	add(17, "vendor-opts/0-none", func() dhcpv6.Option { return &dhcpv6.OptVendorOpts{EnterpriseNumber: 0} })
	add(17, "vendor-opts/distinct-one", func() dhcpv6.Option {
		return &dhcpv6.OptVendorOpts{EnterpriseNumber: 0x01020304, VendorOpts: dhcpv6.Options{generic(1, []byte("a"))}}
	})
	add(17, "vendor-opts/max-bounds", func() dhcpv6.Option {
		return &dhcpv6.OptVendorOpts{EnterpriseNumber: 0xffffffff, VendorOpts: dhcpv6.Options{generic(0, nil), generic(65535, []byte{1, 2}), generic(3, Bytes(12, 1))}}
	})
	add(17, "vendor-opts/255", func() dhcpv6.Option {
		return &dhcpv6.OptVendorOpts{EnterpriseNumber: 4491, VendorOpts: dhcpv6.Options{generic(256, Bytes(255, 4))}}
	})
	add(17, "vendor-opts/option-like-data", func() dhcpv6.Option {
		return &dhcpv6.OptVendorOpts{EnterpriseNumber: 0x00ff00ff, VendorOpts: dhcpv6.Options{generic(3, []byte{0, 8, 0, 3, 1, 2, 3}), generic(8, []byte{1, 2, 3})}}
	})
	// 18: interface id
	for _, n := range []int{0, 1, 2, 16, 17, 255} {
		n := n
		add(18, fmt.Sprintf("interface-id/len%d", n), func() dhcpv6.Option { return dhcpv6.OptInterfaceID(Bytes(n, 0x11)) })
	}
	add(18, "interface-id/zeros", func() dhcpv6.Option { return dhcpv6.OptInterfaceID([]byte{0, 0}) })
	add(18, "interface-id/len256", func() dhcpv6.Option { return dhcpv6.OptInterfaceID(Bytes(256, 0x12)) })
	// 23: DNS servers
	add(23, "dns/none", func() dhcpv6.Option { return dhcpv6.OptDNS() })
	add(23, "dns/zero", func() dhcpv6.Option { return dhcpv6.OptDNS(ipc(AddrZero)) })
	add(23, "dns/distinct", func() dhcpv6.Option { return dhcpv6.OptDNS(ipc(AddrA)) })
	add(23, "dns/ones", func() dhcpv6.Option { return dhcpv6.OptDNS(ipc(AddrOnes)) })
	add(23, "dns/three", func() dhcpv6.Option { return dhcpv6.OptDNS(ipc(AddrB), ipc(AddrA), ipc(AddrZero)) })
	add(23, "dns/two-same", func() dhcpv6.Option { return dhcpv6.OptDNS(ipc(AddrA), ipc(AddrA)) })
	// 24: domain search list
	add(24, "domains/none", func() dhcpv6.Option { return dhcpv6.OptDomainSearchList(labels()) })
	add(24, "domains/a", func() dhcpv6.Option { return dhcpv6.OptDomainSearchList(labels("a")) })
	add(24, "domains/two", func() dhcpv6.Option { return dhcpv6.OptDomainSearchList(labels("a.b", "c")) })
	add(24, "domains/63", func() dhcpv6.Option { return dhcpv6.OptDomainSearchList(labels(Label63)) })
	add(24, "domains/example", func() dhcpv6.Option {
		return dhcpv6.OptDomainSearchList(labels("example.com", "sub.example.org", Label63+".net"))
	})
	add(24, "domains/eight-labels", func() dhcpv6.Option { return dhcpv6.OptDomainSearchList(labels("a.b.c.d.e.f.g.h", "h.g.f")) })
	add(24, "domains/253", func() dhcpv6.Option {
		return dhcpv6.OptDomainSearchList(labels(Label63 + "." + Label63 + "." + Label63 + "." + Label63[:61]))
	})
	add(24, "domains/six-of-51-octets", func() dhcpv6.Option {
		// every name is short, their wire lengths add up to 306 octets: a limit that applies per name must not accumulate
		var ns []string
		for i := 0; i < 6; i++ {
			ns = append(ns, strings.Repeat(string(rune('a'+i)), 49))
		}
		return dhcpv6.OptDomainSearchList(labels(ns...))
	})
	add(24, "domains/compressed-pointer-to-offset-256", func() dhcpv6.Option {
		// nine 32-octet names, then "www" + a pointer to offset 256 (the ninth name): parsed from bytes so that the
		// option re-emits the compressed form
		var raw []byte
		for i := 0; i < 9; i++ {
			raw = append(raw, 30)
			for k := 0; k < 30; k++ {
				raw = append(raw, byte('a'+i))
			}
			raw = append(raw, 0)
		}
		raw = append(raw, 3, 'w', 'w', 'w', 0xc1, 0x00)
		l, err := rfc1035label.FromBytes(raw)
		if err != nil {
			return dhcpv6.OptDomainSearchList(labels("fallback.example"))
		}
		return dhcpv6.OptDomainSearchList(l)
	})
	add(24, "domains/repeat", func() dhcpv6.Option { return dhcpv6.OptDomainSearchList(labels("example.com", "example.com")) })
	// 25: IA_PD
	add(25, "IA_PD/zero", func() dhcpv6.Option { return iapd(iaid0, 0, 0) })
	add(25, "IA_PD/1s-max", func() dhcpv6.Option { return iapd(iaid1, time.Second, maxSec) })
	add(25, "IA_PD/max-1s", func() dhcpv6.Option { return iapd(iaidF, maxSec, time.Second) })
	add(25, "IA_PD/distinct", func() dhcpv6.Option { return iapd(iaid1, durA, durB) })
	add(25, "IA_PD/prefix", func() dhcpv6.Option { return iapd(iaid1, durA, durB, iaprefix(AddrA, 64, durA, durB)) })
	add(25, "IA_PD/prefix-status", func() dhcpv6.Option {
		return iapd(iaid1, durA, durB, iaprefix(AddrA, 56, durA, durB, status(0, "ok")), status(6, "NoPrefixAvail"))
	})
	add(25, "IA_PD/two-prefixes", func() dhcpv6.Option {
		return iapd(iaidF, 0, maxSec, iaprefix(AddrA, 48, 0, time.Second), iaprefix(AddrB, 64, maxSec, maxSec))
	})
	add(25, "IA_PD/unknown-nested", func() dhcpv6.Option { return iapd(iaid0, durB, durA, generic(67, Bytes(4, 3))) })
	// 26: IAPREFIX
	add(26, "IAPREFIX/v4-mapped-96", func() dhcpv6.Option { return iaprefix(net.ParseIP("::ffff:0:0"), 96, durA, durB) })
	add(26, "IAPREFIX/nil", func() dhcpv6.Option { return iaprefix(nil, 0, 0, 0) })
	add(26, "IAPREFIX/zero-len0", func() dhcpv6.Option { return iaprefix(AddrZero, 0, time.Second, maxSec) })
	add(26, "IAPREFIX/len1", func() dhcpv6.Option { return iaprefix(AddrA, 1, maxSec, time.Second) })
	add(26, "IAPREFIX/len64", func() dhcpv6.Option { return iaprefix(AddrA, 64, durA, durB) })
	add(26, "IAPREFIX/len127", func() dhcpv6.Option { return iaprefix(AddrB, 127, 0, maxSec) })
	add(26, "IAPREFIX/len128-ones", func() dhcpv6.Option { return iaprefix(AddrOnes, 128, maxSec, maxSec) })
	add(26, "IAPREFIX/len64-zero", func() dhcpv6.Option { return iaprefix(AddrZero, 64, durB, durA) })
	add(26, "IAPREFIX/status", func() dhcpv6.Option { return iaprefix(AddrA, 48, durA, durB, status(0, "fine")) })
	add(26, "IAPREFIX/len32", func() dhcpv6.Option { return iaprefix(AddrA, 32, time.Second, time.Second) })
	add(26, "IAPREFIX/len48", func() dhcpv6.Option { return iaprefix(AddrB, 48, durB, durA) })
	add(26, "IAPREFIX/len96-ones", func() dhcpv6.Option { return iaprefix(AddrOnes, 96, 0, 0) })
	add(26, "IAPREFIX/nil+status", func() dhcpv6.Option { return iaprefix(nil, 0, durA, durB, status(6, "NoPrefixAvail")) })
	add(26, "IAPREFIX/unknown-nested", func() dhcpv6.Option { return iaprefix(AddrA, 56, durA, durB, generic(67, Bytes(4, 3))) })
	// 32: information refresh time
	add(32, "irt/0", func() dhcpv6.Option { return dhcpv6.OptInformationRefreshTime(0) })
	add(32, "irt/1s", func() dhcpv6.Option { return dhcpv6.OptInformationRefreshTime(time.Second) })
	add(32, "irt/distinct", func() dhcpv6.Option { return dhcpv6.OptInformationRefreshTime(0x01020304 * time.Second) })
	add(32, "irt/max", func() dhcpv6.Option { return dhcpv6.OptInformationRefreshTime(maxSec) })
	add(32, "irt/ffff0000", func() dhcpv6.Option { return dhcpv6.OptInformationRefreshTime(0xffff0000 * time.Second) })
	add(32, "irt/86400", func() dhcpv6.Option { return dhcpv6.OptInformationRefreshTime(86400 * time.Second) })
	// 37: remote id
	add(37, "remote-id/0-empty", func() dhcpv6.Option { return &dhcpv6.OptRemoteID{EnterpriseNumber: 0} })
	add(37, "remote-id/distinct-1", func() dhcpv6.Option {
		return &dhcpv6.OptRemoteID{EnterpriseNumber: 0x01020304, RemoteID: []byte{0x42}}
	})
	add(37, "remote-id/max-2", func() dhcpv6.Option {
		return &dhcpv6.OptRemoteID{EnterpriseNumber: 0xffffffff, RemoteID: []byte{1, 2}}
	})
	add(37, "remote-id/255", func() dhcpv6.Option { return &dhcpv6.OptRemoteID{EnterpriseNumber: 1, RemoteID: Bytes(255, 6)} })
	add(37, "remote-id/16", func() dhcpv6.Option { return &dhcpv6.OptRemoteID{EnterpriseNumber: 0x00ff00ff, RemoteID: Bytes(16, 6)} })
	add(37, "remote-id/17", func() dhcpv6.Option { return &dhcpv6.OptRemoteID{EnterpriseNumber: 3561, RemoteID: Bytes(17, 7)} })
	add(37, "remote-id/nul-tail", func() dhcpv6.Option { return &dhcpv6.OptRemoteID{EnterpriseNumber: 9, RemoteID: []byte{0xee, 0}} })
	// 39: FQDN
	add(39, "fqdn/0-none", func() dhcpv6.Option { return &dhcpv6.OptFQDN{Flags: 0, DomainName: labels()} })
	add(39, "fqdn/1-a", func() dhcpv6.Option { return &dhcpv6.OptFQDN{Flags: 1, DomainName: labels("a")} })
	add(39, "fqdn/4-a.b", func() dhcpv6.Option { return &dhcpv6.OptFQDN{Flags: 4, DomainName: labels("a.b")} })
	add(39, "fqdn/ff-63", func() dhcpv6.Option { return &dhcpv6.OptFQDN{Flags: 0xff, DomainName: labels(Label63 + ".example")} })
	add(39, "fqdn/2-two", func() dhcpv6.Option { return &dhcpv6.OptFQDN{Flags: 2, DomainName: labels("a.b", "c")} })
	add(39, "fqdn/1-example", func() dhcpv6.Option { return &dhcpv6.OptFQDN{Flags: 1, DomainName: labels("host.example.com")} })
	add(39, "fqdn/80-eight-labels", func() dhcpv6.Option { return &dhcpv6.OptFQDN{Flags: 0x80, DomainName: labels("a.b.c.d.e.f.g.h")} })
	// 56: NTP server
	srv := func(ip net.IP) dhcpv6.Option { a := dhcpv6.NTPSuboptionSrvAddr(ipc(ip)); return &a }
	mc := func(ip net.IP) dhcpv6.Option { a := dhcpv6.NTPSuboptionMCAddr(ipc(ip)); return &a }
	fq := func(n ...string) dhcpv6.Option {
		return &dhcpv6.NTPSuboptionSrvFQDN{Labels: rfc1035label.Labels{Labels: append([]string{}, n...)}}
	}
	add(56, "ntp/none", func() dhcpv6.Option { return &dhcpv6.OptNTPServer{} })
	add(56, "ntp/srv", func() dhcpv6.Option { return &dhcpv6.OptNTPServer{Suboptions: dhcpv6.Options{srv(AddrA)}} })
	add(56, "ntp/mc", func() dhcpv6.Option { return &dhcpv6.OptNTPServer{Suboptions: dhcpv6.Options{mc(AddrOnes)}} })
	add(56, "ntp/fqdn", func() dhcpv6.Option { return &dhcpv6.OptNTPServer{Suboptions: dhcpv6.Options{fq("ntp.example.com")}} })
	add(56, "ntp/fqdn-63", func() dhcpv6.Option { return &dhcpv6.OptNTPServer{Suboptions: dhcpv6.Options{fq(Label63)}} })
	add(56, "ntp/all", func() dhcpv6.Option {
		return &dhcpv6.OptNTPServer{Suboptions: dhcpv6.Options{srv(AddrZero), mc(AddrB), fq("a.b"), generic(4, []byte("x")), srv(AddrA)}}
	})
	add(56, "ntp/unknown-subs", func() dhcpv6.Option {
		return &dhcpv6.OptNTPServer{Suboptions: dhcpv6.Options{generic(0, nil), generic(65535, Bytes(2, 1))}}
	})
	add(56, "ntp/two-fqdn", func() dhcpv6.Option { return &dhcpv6.OptNTPServer{Suboptions: dhcpv6.Options{fq("a"), fq("b.c", "d")}} })
	add(56, "ntp/srv-srv-mc", func() dhcpv6.Option {
		return &dhcpv6.OptNTPServer{Suboptions: dhcpv6.Options{srv(AddrA), srv(AddrB), mc(AddrZero)}}
	})
	// 59: boot file URL
	for _, n := range []int{0, 1, 2, 16, 17, 255} {
		n := n
		add(59, fmt.Sprintf("bootfile-url/len%d", n), func() dhcpv6.Option { return dhcpv6.OptBootFileURL(Text(n, 4)) })
	}
	add(59, "bootfile-url/http", func() dhcpv6.Option { return dhcpv6.OptBootFileURL("http://[2001:db8::1]/boot.efi") })
	add(59, "bootfile-url/nul-tail", func() dhcpv6.Option { return dhcpv6.OptBootFileURL("tftp://h/f\x00") })
	// 60: boot file parameters
	add(60, "bootfile-param/none", func() dhcpv6.Option { return dhcpv6.OptBootFileParam() })
	add(60, "bootfile-param/a", func() dhcpv6.Option { return dhcpv6.OptBootFileParam("a") })
	add(60, "bootfile-param/two", func() dhcpv6.Option { return dhcpv6.OptBootFileParam("ab", "c") })
	add(60, "bootfile-param/255", func() dhcpv6.Option { return dhcpv6.OptBootFileParam(Text(255, 5)) })
	add(60, "bootfile-param/empty-then-x", func() dhcpv6.Option { return dhcpv6.OptBootFileParam("", "x", "") })
	add(60, "bootfile-param/five", func() dhcpv6.Option {
		return dhcpv6.OptBootFileParam("root=/dev/nfs", "ip=dhcp", "", Text(16, 1), Text(17, 2))
	})
	add(60, "bootfile-param/nul", func() dhcpv6.Option { return dhcpv6.OptBootFileParam("p\x00", "\x00", " ") })
	add(60, "bootfile-param/256-300", func() dhcpv6.Option { return dhcpv6.OptBootFileParam(Text(256, 7), Text(300, 8)) })
	// 61: client architecture type (at least one)
	add(61, "arch/0", func() dhcpv6.Option { return dhcpv6.OptClientArchType(iana.INTEL_X86PC) })
	add(61, "arch/7", func() dhcpv6.Option { return dhcpv6.OptClientArchType(iana.EFI_X86_64) })
	add(61, "arch/bounds", func() dhcpv6.Option { return dhcpv6.OptClientArchType(iana.Arch(0xffff), 0, 16, iana.Arch(0x0102)) })
	add(61, "arch/repeat", func() dhcpv6.Option { return dhcpv6.OptClientArchType(7, 7) })
	add(61, "arch/five", func() dhcpv6.Option { return dhcpv6.OptClientArchType(0, 6, 7, 9, 0xff00) })
	// 62: network interface identifier
	add(62, "nii/zero", func() dhcpv6.Option { return &dhcpv6.OptNetworkInterfaceID{} })
	add(62, "nii/distinct", func() dhcpv6.Option { return &dhcpv6.OptNetworkInterfaceID{Typ: 1, Major: 2, Minor: 3} })
	add(62, "nii/ones", func() dhcpv6.Option { return &dhcpv6.OptNetworkInterfaceID{Typ: 0xff, Major: 0xff, Minor: 0xff} })
	add(62, "nii/0-ff-0", func() dhcpv6.Option { return &dhcpv6.OptNetworkInterfaceID{Typ: 0, Major: 0xff, Minor: 0} })
	add(62, "nii/undi", func() dhcpv6.Option {
		return &dhcpv6.OptNetworkInterfaceID{Typ: dhcpv6.NII_UNDI_EFI_GEN_II, Major: 3, Minor: 16}
	})
	// 79: client link-layer address
	add(79, "client-ll/0-empty", func() dhcpv6.Option { return dhcpv6.OptClientLinkLayerAddress(0, nil) })
	add(79, "client-ll/eth-mac", func() dhcpv6.Option {
		return dhcpv6.OptClientLinkLayerAddress(iana.HWTypeEthernet, net.HardwareAddr{0xa0, 0xa1, 0xa2, 0xa3, 0xa4, 0xa5})
	})
	add(79, "client-ll/0102-1", func() dhcpv6.Option {
		return dhcpv6.OptClientLinkLayerAddress(iana.HWType(0x0102), net.HardwareAddr{0x42})
	})
	add(79, "client-ll/max-255", func() dhcpv6.Option {
		return dhcpv6.OptClientLinkLayerAddress(iana.HWType(0xffff), net.HardwareAddr(Bytes(255, 3)))
	})
	add(79, "client-ll/ib-16", func() dhcpv6.Option {
		return dhcpv6.OptClientLinkLayerAddress(iana.HWType(32), net.HardwareAddr(Bytes(16, 5)))
	})
	add(79, "client-ll/ff00-17", func() dhcpv6.Option {
		return dhcpv6.OptClientLinkLayerAddress(iana.HWType(0xff00), net.HardwareAddr(Bytes(17, 6)))
	})
	add(79, "client-ll/zero-mac", func() dhcpv6.Option {
		return dhcpv6.OptClientLinkLayerAddress(iana.HWTypeEthernet, net.HardwareAddr{0, 0, 0, 0, 0, 0})
	})
	// 87: DHCPv4 message
	for k := 0; k < 3; k++ {
		k := k
		add(87, fmt.Sprintf("dhcpv4-msg/%d", k), func() dhcpv6.Option { return &dhcpv6.OptDHCPv4Msg{Msg: V4Packet(k)} })
	}
	// 88: DHCP 4o6 servers
	add(88, "4o6/none", func() dhcpv6.Option { return &dhcpv6.OptDHCP4oDHCP6Server{} })
	add(88, "4o6/zero", func() dhcpv6.Option { return &dhcpv6.OptDHCP4oDHCP6Server{DHCP4oDHCP6Servers: []net.IP{ipc(AddrZero)}} })
	add(88, "4o6/distinct", func() dhcpv6.Option { return &dhcpv6.OptDHCP4oDHCP6Server{DHCP4oDHCP6Servers: []net.IP{ipc(AddrA)}} })
	add(88, "4o6/ones", func() dhcpv6.Option { return &dhcpv6.OptDHCP4oDHCP6Server{DHCP4oDHCP6Servers: []net.IP{ipc(AddrOnes)}} })
	add(88, "4o6/three", func() dhcpv6.Option {
		return &dhcpv6.OptDHCP4oDHCP6Server{DHCP4oDHCP6Servers: []net.IP{ipc(AddrA), ipc(AddrB), ipc(AddrOnes)}}
	})
	add(88, "4o6/two", func() dhcpv6.Option {
		return &dhcpv6.OptDHCP4oDHCP6Server{DHCP4oDHCP6Servers: []net.IP{ipc(AddrB), ipc(AddrZero)}}
	})
	// 97: 4RD container
	p4 := net.IP{192, 0, 2, 17}
	add(97, "4rd/none", func() dhcpv6.Option { return &dhcpv6.Opt4RD{} })
	add(97, "4rd/map", func() dhcpv6.Option {
		return &dhcpv6.Opt4RD{FourRDOptions: dhcpv6.FourRDOptions{Options: dhcpv6.Options{mapRule(p4, 24, AddrA, 48, 16, false)}}}
	})
	add(97, "4rd/map-nonmap", func() dhcpv6.Option {
		return &dhcpv6.Opt4RD{FourRDOptions: dhcpv6.FourRDOptions{Options: dhcpv6.Options{mapRule(p4, 24, AddrA, 48, 16, true), nonMapRule(true, 7, 1280)}}}
	})
	add(97, "4rd/nonmap", func() dhcpv6.Option {
		return &dhcpv6.Opt4RD{FourRDOptions: dhcpv6.FourRDOptions{Options: dhcpv6.Options{nonMapRule(false, -1, 1500)}}}
	})
	add(97, "4rd/two-maps", func() dhcpv6.Option {
		return &dhcpv6.Opt4RD{FourRDOptions: dhcpv6.FourRDOptions{Options: dhcpv6.Options{mapRule(p4, 24, AddrA, 48, 16, false), mapRule(net.IP{198, 51, 100, 0}, 25, AddrB, 56, 7, true)}}}
	})
	add(97, "4rd/unknown-nested", func() dhcpv6.Option {
		return &dhcpv6.Opt4RD{FourRDOptions: dhcpv6.FourRDOptions{Options: dhcpv6.Options{generic(100, Bytes(2, 2)), nonMapRule(true, 0, 0xffff)}}}
	})
	// 98: 4RD map rule
	add(98, "4rd-map/zero", func() dhcpv6.Option { return mapRule(net.IP{0, 0, 0, 0}, 0, AddrZero, 0, 0, false) })
	add(98, "4rd-map/1-1", func() dhcpv6.Option { return mapRule(p4, 1, AddrA, 1, 1, true) })
	add(98, "4rd-map/31-127", func() dhcpv6.Option { return mapRule(p4, 31, AddrB, 127, 255, false) })
	add(98, "4rd-map/32-128", func() dhcpv6.Option { return mapRule(net.IP{255, 255, 255, 255}, 32, AddrOnes, 128, 0x42, true) })
	add(98, "4rd-map/24-64", func() dhcpv6.Option { return mapRule(p4, 24, AddrA, 64, 8, false) })
	add(98, "4rd-map/0-64-addr", func() dhcpv6.Option { return mapRule(p4, 0, AddrA, 0, 8, false) })
	add(98, "4rd-map/8-32", func() dhcpv6.Option { return mapRule(net.IP{10, 0, 0, 0}, 8, AddrA, 32, 24, true) })
	add(98, "4rd-map/16-96", func() dhcpv6.Option { return mapRule(net.IP{172, 16, 0, 0}, 16, AddrB, 96, 0xff, false) })
	// the IPv4 prefix in Go's 16-byte form (net.IPv4 / net.ParseIP results): the same address value
	add(98, "4rd-map/24-64/ip4-in-16-bytes", func() dhcpv6.Option { return mapRule(net.IPv4(198, 51, 100, 0), 24, AddrA, 64, 8, false) })
	add(98, "4rd-map/32-128/ip4-in-16-bytes", func() dhcpv6.Option { return mapRule(net.IPv4(100, 64, 0, 238), 32, AddrB, 128, 1, true) })
	// 99: 4RD non-map rule
	add(99, "4rd-nonmap/zero", func() dhcpv6.Option { return nonMapRule(false, -1, 0) })
	add(99, "4rd-nonmap/h", func() dhcpv6.Option { return nonMapRule(true, -1, 1280) })
	add(99, "4rd-nonmap/t0", func() dhcpv6.Option { return nonMapRule(false, 0, 0x0102) })
	add(99, "4rd-nonmap/ht-ff", func() dhcpv6.Option { return nonMapRule(true, 255, 0xffff) })
	add(99, "4rd-nonmap/t-42", func() dhcpv6.Option { return nonMapRule(false, 0x42, 1) })
	add(99, "4rd-nonmap/h-t1-1500", func() dhcpv6.Option { return nonMapRule(true, 1, 1500) })
	add(99, "4rd-nonmap/t80-ff00", func() dhcpv6.Option { return nonMapRule(false, 0x80, 0xff00) })
	// 135: relay port
	for _, p := range []uint16{0, 1, 0x0102, 547, 0x8000, 0xffff} {
		p := p
		add(135, fmt.Sprintf("relay-port/%d", p), func() dhcpv6.Option { return dhcpv6.OptRelayPort(p) })
	}
	// unknown codes: opaque payloads kept verbatim
	for _, u := range []struct {
		code uint16
		n    int
	}{{0, 0}, {0, 1}, {7, 1}, {14, 0}, {255, 2}, {256, 255}, {65535, 0}, {65535, 2}, {20, 0}, {82, 4},
		{10, 3}, {11, 16}, {12, 16}, {19, 1}, {21, 17}, {22, 16}, {31, 32}, {64, 13}, {136, 2}, {143, 16}, {144, 0}, {0x0100, 1}, {0x0800, 4}, {0x0e00, 2}, {0xff00, 17}, {0xfffe, 255}, {7, 0}} {
		u := u
		add(u.code, fmt.Sprintf("unknown/len%d", u.n), func() dhcpv6.Option { return generic(u.code, Bytes(u.n, int(u.code)%200+1)) })
	}
	return out
}

// NTPSubInstances returns values of the NTP (option 56) sub-option code space:
// server address, multicast address, server FQDN and unknown sub-options. Code
// is the sub-option code; the values only make sense inside an OptNTPServer.
func NTPSubInstances() []Instance {
	var out []Instance
	add := func(code uint16, name string, f func() dhcpv6.Option) {
		out = append(out, Instance{Name: fmt.Sprintf("ntp-sub%d/%s", code, name), Code: code, Build: f})
	}
	srv := func(ip net.IP) dhcpv6.Option { a := dhcpv6.NTPSuboptionSrvAddr(ipc(ip)); return &a }
	mc := func(ip net.IP) dhcpv6.Option { a := dhcpv6.NTPSuboptionMCAddr(ipc(ip)); return &a }
	fq := func(n ...string) dhcpv6.Option {
		return &dhcpv6.NTPSuboptionSrvFQDN{Labels: rfc1035label.Labels{Labels: append([]string{}, n...)}}
	}
	add(1, "srv-zero", func() dhcpv6.Option { return srv(AddrZero) })
	add(1, "srv-distinct", func() dhcpv6.Option { return srv(AddrA) })
	add(1, "srv-ones", func() dhcpv6.Option { return srv(AddrOnes) })
	add(2, "mc-zero", func() dhcpv6.Option { return mc(AddrZero) })
	add(2, "mc-distinct", func() dhcpv6.Option { return mc(AddrB) })
	add(2, "mc-ones", func() dhcpv6.Option { return mc(AddrOnes) })
	add(3, "fqdn-none", func() dhcpv6.Option { return fq() })
	add(3, "fqdn-a", func() dhcpv6.Option { return fq("a") })
	add(3, "fqdn-example", func() dhcpv6.Option { return fq("ntp.example.com") })
	add(3, "fqdn-two", func() dhcpv6.Option { return fq("a.b", "c") })
	add(3, "fqdn-63", func() dhcpv6.Option { return fq(Label63) })
	add(0, "unknown0-empty", func() dhcpv6.Option { return generic(0, nil) })
	add(4, "unknown4-16", func() dhcpv6.Option { return generic(4, Bytes(16, 1)) })
	add(65535, "unknownffff-2", func() dhcpv6.Option { return generic(65535, Bytes(2, 1)) })
	return out
}

// NTPWrap returns an NTP server option holding the given sub-options.
func NTPWrap(subs ...dhcpv6.Option) dhcpv6.Option {
	return &dhcpv6.OptNTPServer{Suboptions: dhcpv6.Options(subs)}
}

// Reduced returns one "typical" and one "boundary" instance per option code
// (about 70 values), for enumerations whose size is cubic in the instance set.
func Reduced() []Instance {
	all := Instances()
	var out []Instance
	perCode := map[uint16][]Instance{}
	var order []uint16
	for _, in := range all {
		if _, ok := perCode[in.Code]; !ok {
			order = append(order, in.Code)
		}
		perCode[in.Code] = append(perCode[in.Code], in)
	}
	for _, c := range order {
		l := perCode[c]
		// first (simplest) and last (largest / most nested) of each code
		out = append(out, l[0])
		if len(l) > 1 {
			out = append(out, l[len(l)-1])
		}
	}
	return out
}

// ---------------------------------------------------------------- containers

// Container nests an option one level inside an option that may hold options.
type Container struct {
	Name string
	Code uint16
	// Wrap returns a fresh container holding inner as its only nested option, or
	// nil when inner cannot legally travel in this container (the NTP sub-option
	// space gives codes 1..3 a different meaning).
	Wrap func(inner dhcpv6.Option) dhcpv6.Option
	// Opaque: the container does not interpret nested options; inner is carried
	// as an OptionGeneric with the same code and the encoded value.
	Opaque bool
}

func asGeneric(inner dhcpv6.Option) *dhcpv6.OptionGeneric {
	return generic(uint16(inner.Code()), append([]byte{}, inner.ToBytes()...))
}

// Containers returns every container kind.
func Containers() []Container {
	return []Container{
		{Name: "IA_NA", Code: 3, Wrap: func(in dhcpv6.Option) dhcpv6.Option { return iana_(iaid1, durA, durB, in) }},
		{Name: "IA_TA", Code: 4, Wrap: func(in dhcpv6.Option) dhcpv6.Option { return iata(iaid1, in) }},
		{Name: "IA_PD", Code: 25, Wrap: func(in dhcpv6.Option) dhcpv6.Option { return iapd(iaid1, durA, durB, in) }},
		{Name: "IAADDR", Code: 5, Wrap: func(in dhcpv6.Option) dhcpv6.Option { return iaaddr(AddrA, durA, durB, in) }},
		{Name: "IAPREFIX", Code: 26, Wrap: func(in dhcpv6.Option) dhcpv6.Option { return iaprefix(AddrA, 56, durA, durB, in) }},
		{Name: "IAPREFIX(no prefix)", Code: 26, Wrap: func(in dhcpv6.Option) dhcpv6.Option { return iaprefix(nil, 0, durA, durB, in) }},
		{Name: "vendor-opts", Code: 17, Opaque: true, Wrap: func(in dhcpv6.Option) dhcpv6.Option {
			return &dhcpv6.OptVendorOpts{EnterpriseNumber: 0x01020304, VendorOpts: dhcpv6.Options{asGeneric(in)}}
		}},
		{Name: "NTP", Code: 56, Opaque: true, Wrap: func(in dhcpv6.Option) dhcpv6.Option {
			if c := in.Code(); c >= 1 && c <= 3 {
				return nil
			}
			return &dhcpv6.OptNTPServer{Suboptions: dhcpv6.Options{asGeneric(in)}}
		}},
		{Name: "4RD", Code: 97, Wrap: func(in dhcpv6.Option) dhcpv6.Option {
			return &dhcpv6.Opt4RD{FourRDOptions: dhcpv6.FourRDOptions{Options: dhcpv6.Options{in}}}
		}},
		{Name: "relay-msg", Code: 9, Wrap: func(in dhcpv6.Option) dhcpv6.Option {
			return dhcpv6.OptRelayMessage(&dhcpv6.Message{MessageType: dhcpv6.MessageTypeRequest, TransactionID: dhcpv6.TransactionID{0x0a, 0x0b, 0x0c},
				Options: dhcpv6.MessageOptions{Options: dhcpv6.Options{in}}})
		}},
	}
}

// Chain is a deterministic multi-level nesting.
type Chain struct {
	Name  string
	Build func() dhcpv6.Option
}

// Chains returns the three-level (and deeper) nestings: IA→IAADDR→status,
// IA_PD→IAPREFIX→status, relay-msg→relay→message→IA→IAADDR→status, and an
// IA_NA nested in itself to depth 6.
func Chains() []Chain {
	return []Chain{
		{"IA_NA>IAADDR>status", func() dhcpv6.Option { return iana_(iaid1, durA, durB, iaaddr(AddrA, durA, durB, status(0, "ok"))) }},
		{"IA_TA>IAADDR>status", func() dhcpv6.Option {
			return iata(iaidF, iaaddr(AddrB, time.Second, maxSec, status(5, "UseMulticast")))
		}},
		{"IA_PD>IAPREFIX>status", func() dhcpv6.Option { return iapd(iaid1, durA, durB, iaprefix(AddrA, 60, durA, durB, status(6, ""))) }},
		{"IA_NA>IAADDR>status+status", func() dhcpv6.Option {
			return iana_(iaid0, 0, 0, iaaddr(AddrZero, 0, 0, status(0, ""), status(1, "second")), iaaddr(AddrOnes, maxSec, maxSec), status(4, "NotOnLink"))
		}},
		{"relay-msg>relay>msg>IA_NA>IAADDR>status", func() dhcpv6.Option {
			inner := &dhcpv6.Message{MessageType: dhcpv6.MessageTypeReply, TransactionID: dhcpv6.TransactionID{9, 8, 7},
				Options: dhcpv6.MessageOptions{Options: dhcpv6.Options{iana_(iaid1, durA, durB, iaaddr(AddrA, durA, durB, status(0, "deep")))}}}
			return dhcpv6.OptRelayMessage(RelayChain(2, inner, 1))
		}},
		{"IA_NA^6", func() dhcpv6.Option {
			var o dhcpv6.Option = status(0, "bottom")
			for i := 0; i < 6; i++ {
				o = iana_([4]byte{byte(i), 2, 3, 4}, durA, durB, o)
			}
			return o
		}},
		{"4RD>map+nonmap in IA_PD", func() dhcpv6.Option {
			return iapd(iaid1, durA, durB, &dhcpv6.Opt4RD{FourRDOptions: dhcpv6.FourRDOptions{Options: dhcpv6.Options{
				mapRule(net.IP{192, 0, 2, 1}, 24, AddrA, 48, 16, true), nonMapRule(true, 3, 1400)}}})
		}},
	}
}

// ---------------------------------------------------------------- messages

// Types returns the message-type alphabet: every type 1..13 plus 0 and 255.
func Types() []uint8 {
	return []uint8{1, 2, 3, 4, 5, 6, 7, 8, 9, 10, 11, 12, 13, 0, 255}
}

// Xids returns the transaction-id alphabet.
func Xids() [][3]byte { return [][3]byte{{0, 0, 0}, {1, 2, 3}, {0xff, 0xff, 0xff}} }

// NewMessage builds a message of any type with the given options: a
// RelayMessage for types 12/13 (hop/link/peer derived from xid so that the three
// "xid" values give three distinct relay headers), else a Message.
func NewMessage(t uint8, xid [3]byte, opts ...dhcpv6.Option) dhcpv6.DHCPv6 {
	if t == 12 || t == 13 {
		r := &dhcpv6.RelayMessage{MessageType: dhcpv6.MessageType(t), HopCount: xid[1]}
		switch xid[0] {
		case 0:
			r.LinkAddr, r.PeerAddr = ipc(AddrZero), ipc(AddrZero)
		case 1:
			r.LinkAddr, r.PeerAddr = ipc(AddrA), ipc(AddrB)
		default:
			r.LinkAddr, r.PeerAddr = ipc(AddrOnes), ipc(AddrOnes)
		}
		r.Options = dhcpv6.RelayOptions{Options: opts}
		return r
	}
	return &dhcpv6.Message{MessageType: dhcpv6.MessageType(t), TransactionID: dhcpv6.TransactionID(xid), Options: dhcpv6.MessageOptions{Options: opts}}
}

// InnerMessage returns one of the representative inner messages:
// 0 empty solicit, 1 solicit (client-id, ORO, elapsed, IA_NA), 2 reply
// (client-id, server-id, IA_NA>IAADDR>status, DNS, domains), 3 information-request
// with unknown options, 4 DHCPv4-query carrying a DHCPv4 message.
func InnerMessage(kind int) *dhcpv6.Message {
	ds := duids()
	switch kind {
	case 0:
		return &dhcpv6.Message{MessageType: dhcpv6.MessageTypeSolicit, TransactionID: dhcpv6.TransactionID{0, 0, 0}}
	case 1:
		return &dhcpv6.Message{MessageType: dhcpv6.MessageTypeSolicit, TransactionID: dhcpv6.TransactionID{1, 2, 3},
			Options: dhcpv6.MessageOptions{Options: dhcpv6.Options{
				dhcpv6.OptClientID(ds[0].mk()), dhcpv6.OptRequestedOption(23, 24), dhcpv6.OptElapsedTime(0x0102 * 10 * time.Millisecond), iana_(iaid1, durA, durB)}}}
	case 2:
		return &dhcpv6.Message{MessageType: dhcpv6.MessageTypeReply, TransactionID: dhcpv6.TransactionID{0xff, 0xfe, 0xfd},
			Options: dhcpv6.MessageOptions{Options: dhcpv6.Options{
				dhcpv6.OptClientID(ds[0].mk()), dhcpv6.OptServerID(ds[3].mk()),
				iana_(iaid1, durA, durB, iaaddr(AddrA, durA, durB, status(0, "ok"))),
				dhcpv6.OptDNS(ipc(AddrB)), dhcpv6.OptDomainSearchList(labels("example.com"))}}}
	case 3:
		return &dhcpv6.Message{MessageType: dhcpv6.MessageTypeInformationRequest, TransactionID: dhcpv6.TransactionID{4, 5, 6},
			Options: dhcpv6.MessageOptions{Options: dhcpv6.Options{generic(14, nil), generic(65535, Bytes(3, 1)), dhcpv6.OptClientID(ds[9].mk())}}}
	}
	return &dhcpv6.Message{MessageType: dhcpv6.MessageTypeDHCPv4Query, TransactionID: dhcpv6.TransactionID{7, 7, 7},
		Options: dhcpv6.MessageOptions{Options: dhcpv6.Options{&dhcpv6.OptDHCPv4Msg{Msg: V4Packet(1)}}}}
}

// InnerKinds is the number of InnerMessage kinds.
const InnerKinds = 5

// RelayChain wraps inner in `depth` relay levels (depth 0 returns inner).
// Level i (1 = innermost relay) gets link/peer addresses and a hop count derived
// from i, and the subset of {interface-id, remote-id} selected by bits
// (2*(i-1)) and (2*(i-1)+1) of idMask — so every level can carry its own subset.
// Odd levels put relay-msg first, even levels put it last.
func RelayChain(depth int, inner dhcpv6.DHCPv6, idMask uint32) dhcpv6.DHCPv6 {
	cur := inner
	for i := 1; i <= depth; i++ {
		t := dhcpv6.MessageTypeRelayForward
		if inner.Type() == dhcpv6.MessageTypeReply || inner.Type() == dhcpv6.MessageTypeAdvertise {
			t = dhcpv6.MessageTypeRelayReply
		}
		link, peer := ipc(AddrA), ipc(AddrB)
		link[15], peer[15] = byte(i), byte(0x80+i)
		if i == 2 {
			// an IPv4-mapped address is a legal 16-octet value of these fields
			link, peer = net.ParseIP("::ffff:192.0.2.33"), net.ParseIP("::ffff:198.51.100.7")
		}
		if i == 3 {
			// Go's 4-byte form of an IPv4 address: the encoder writes its 16-byte (IPv4-mapped) form
			link, peer = net.IP{192, 0, 2, 34}, net.IP{198, 51, 100, 8}
		}
		if i == 1 && depth%2 == 1 {
			// the client's link-local address in modified EUI-64 form (what ExtractMAC reads the MAC from);
			// chains of even depth keep a non-EUI-64 peer, so the DUID fallback is exercised as well
			peer = net.ParseIP("fe80::225:90ff:fe12:3456")
		}
		r := &dhcpv6.RelayMessage{MessageType: t, HopCount: uint8(i - 1), LinkAddr: link, PeerAddr: peer}
		var ids dhcpv6.Options
		if idMask>>(2*uint(i-1))&1 != 0 {
			ids = append(ids, dhcpv6.OptInterfaceID(append([]byte("if"), byte('0'+i))))
		}
		if idMask>>(2*uint(i-1)+1)&1 != 0 {
			ids = append(ids, &dhcpv6.OptRemoteID{EnterpriseNumber: uint32(0x01020300 + i), RemoteID: []byte{byte(i), 0xee}})
		}
		rm := dhcpv6.OptRelayMessage(cur)
		if i%2 == 1 {
			r.Options = dhcpv6.RelayOptions{Options: append(dhcpv6.Options{rm}, ids...)}
		} else {
			r.Options = dhcpv6.RelayOptions{Options: append(ids, rm)}
		}
		cur = r
	}
	return cur
}

// MsgCase is one generated message.
type MsgCase struct {
	Name  string
	Build func() dhcpv6.DHCPv6
}

// Messages returns the deterministic message families that are not plain
// products over the instance set (those are enumerated by index in the checks):
//
//   - every message type × xid with no option and with one representative option list;
//   - relay chains of every depth 0..8 around every InnerMessage kind, with
//     per-level interface-id/remote-id subsets (quick: masks none / all /
//     alternating; thorough: additionally every mask for depths ≤ 3);
//   - DHCPv4-in-DHCPv6 (DHCPv4-query/response with each V4Packet, also relayed);
//   - the long lists: all instances once, reversed, each doubled.
func Messages(thorough bool) []MsgCase {
	var out []MsgCase
	for _, t := range Types() {
		for _, x := range Xids() {
			t, x := t, x
			out = append(out, MsgCase{fmt.Sprintf("type%d/xid%x/empty", t, x), func() dhcpv6.DHCPv6 { return NewMessage(t, x) }})
			out = append(out, MsgCase{fmt.Sprintf("type%d/xid%x/typical", t, x), func() dhcpv6.DHCPv6 {
				return NewMessage(t, x, InnerMessage(2).Options.Options...)
			}})
		}
	}
	for depth := 0; depth <= 8; depth++ {
		masks := []uint32{0, 0xffffffff, 0x66666666, 0x99999999}
		if thorough && depth <= 3 {
			masks = nil
			for m := uint32(0); m < 1<<(2*uint(depth)); m++ {
				masks = append(masks, m)
			}
		}
		for kind := 0; kind < InnerKinds; kind++ {
			for _, m := range masks {
				depth, kind, m := depth, kind, m
				out = append(out, MsgCase{fmt.Sprintf("relay-chain/depth%d/inner%d/ids%x", depth, kind, m), func() dhcpv6.DHCPv6 {
					return RelayChain(depth, InnerMessage(kind), m)
				}})
			}
		}
	}
	for k := 0; k < 3; k++ {
		for _, t := range []dhcpv6.MessageType{dhcpv6.MessageTypeDHCPv4Query, dhcpv6.MessageTypeDHCPv4Response} {
			for depth := 0; depth <= 2; depth++ {
				k, t, depth := k, t, depth
				out = append(out, MsgCase{fmt.Sprintf("dhcpv4-in-dhcpv6/type%d/v4packet%d/relay%d", t, k, depth), func() dhcpv6.DHCPv6 {
					m := &dhcpv6.Message{MessageType: t, TransactionID: dhcpv6.TransactionID{0, 0, byte(k)},
						Options: dhcpv6.MessageOptions{Options: dhcpv6.Options{&dhcpv6.OptDHCPv4Msg{Msg: V4Packet(k)}}}}
					return RelayChain(depth, m, 0xffffffff)
				}})
			}
		}
	}
	ins := Instances()
	build := func(idx []int) func() dhcpv6.DHCPv6 {
		return func() dhcpv6.DHCPv6 {
			opts := make(dhcpv6.Options, 0, len(idx))
			for _, i := range idx {
				opts = append(opts, ins[i].Build())
			}
			return NewMessage(7, [3]byte{1, 2, 3}, opts...)
		}
	}
	var once, rev, dbl []int
	for i := range ins {
		once = append(once, i)
		rev = append(rev, len(ins)-1-i)
		dbl = append(dbl, i, i)
	}
	// maximal option values: one option whose value is 65535 octets (the largest a length field can carry)
	out = append(out,
		MsgCase{"max-length/unknown-65535", func() dhcpv6.DHCPv6 { return NewMessage(1, [3]byte{1, 2, 3}, generic(224, Bytes(65535, 1))) }},
		MsgCase{"max-length/interface-id-65535-in-relay", func() dhcpv6.DHCPv6 {
			return NewMessage(12, [3]byte{1, 2, 3}, dhcpv6.OptInterfaceID(Bytes(65535, 2)), dhcpv6.OptRelayMessage(InnerMessage(1)))
		}},
		MsgCase{"max-length/user-class-item-65533", func() dhcpv6.DHCPv6 {
			return NewMessage(1, [3]byte{1, 2, 3}, &dhcpv6.OptUserClass{UserClasses: [][]byte{Bytes(65533, 3)}})
		}},
		MsgCase{"max-length/bootfile-url-65535", func() dhcpv6.DHCPv6 { return NewMessage(7, [3]byte{1, 2, 3}, dhcpv6.OptBootFileURL(Text(65535, 4))) }},
		MsgCase{"max-length/IA_NA-filled-65535", func() dhcpv6.DHCPv6 {
			return NewMessage(7, [3]byte{1, 2, 3}, iana_(iaid1, durA, durB, generic(224, Bytes(65535-12-4, 5))))
		}},
	)
	out = append(out, MsgCase{"long/all-once", build(once)}, MsgCase{"long/reversed", build(rev)}, MsgCase{"long/each-doubled", build(dbl)})
	// sliding windows of 20 and 21 options (the "0..20 options" of the statement)
	for start := 0; start < len(ins); start += 10 {
		var w []int
		for k := 0; k < 21 && start+k < len(ins); k++ {
			w = append(w, start+k)
		}
		out = append(out, MsgCase{fmt.Sprintf("long/window%d", start), build(w)})
	}
	return out
}
