package roview

import (
	"net"
	"reflect"
	"strings"
	"testing"

	"github.com/insomniacslk/dhcp/dhcpv4"
	"github.com/insomniacslk/dhcp/dhcpv6"
)

func exprs(as []Action) map[string]Action {
	m := map[string]Action{}
	for _, a := range as {
		m[a.Expr] = a
	}
	return m
}

func TestActionsOfAPacket(t *testing.T) {
	p := &dhcpv4.DHCPv4{Options: dhcpv4.Options{}}
	p.UpdateOption(dhcpv4.OptParameterRequestList(dhcpv4.OptionRouter, dhcpv4.OptionSubnetMask))
	m := exprs(Discover(p, DefaultConfig()))
	for _, want := range []string{".String()", ".Summary()", ".ToBytes()", ".ParameterRequestList()", ".ParameterRequestList().String()",
		".ParameterRequestList()[0].Code()", ".Options.String()", ".Options.ToBytes()", ".OpCode.String()", ".IsBroadcast()", ".MaxMessageSize()"} {
		if _, ok := m[want]; !ok {
			t.Errorf("action %s not found", want)
		}
	}
	for e := range m {
		for _, bad := range []string{"SetBroadcast", "SetUnicast", "UpdateOption", "DeleteOption", "FromBytes", "GetOneOption", "IsOptionRequested", "IPAddressLeaseTime", ".Add(", ".Has("} {
			if strings.Contains(e, bad) {
				t.Errorf("%s must not be an action (mutator, result-less or takes arguments)", e)
			}
		}
		if strings.Contains(e, "To4") || strings.Contains(e, "MarshalText") {
			t.Errorf("%s: standard-library methods are not actions", e)
		}
	}
	a := m[".ParameterRequestList()"]
	if !a.ListResult || !a.NonEmpty || a.Method != "dhcpv4.DHCPv4.ParameterRequestList" {
		t.Errorf("ParameterRequestList: %+v", a)
	}
	if c := m[".ParameterRequestList().String()"]; c.Calls != 2 || c.Via != "dhcpv4.DHCPv4.ParameterRequestList" || c.Method != "dhcpv4.OptionCodeList.String" {
		t.Errorf("composite: %+v", c)
	}
}

func TestActionsOfAMessage(t *testing.T) {
	msg := &dhcpv6.Message{MessageType: dhcpv6.MessageTypeSolicit}
	msg.AddOption(&dhcpv6.OptIANA{IaId: [4]byte{1, 2, 3, 4}})
	msg.AddOption(dhcpv6.OptRequestedOption(23, 24))
	m := exprs(Discover(msg, DefaultConfig()))
	for _, want := range []string{".String()", ".Summary()", ".ToBytes()", ".Options.IANA()", ".Options.IANA()[0].String()", ".Options.OneIANA().Options.Addresses()",
		".Options.RequestedOptions().String()", ".Options.Options[0].ToBytes()", ".Options.Options[1].String()", ".GetInnerMessage()"} {
		if _, ok := m[want]; !ok {
			t.Errorf("action %s not found", want)
		}
	}
	for e := range m {
		if strings.Contains(e, "LongString") || strings.Contains(e, "AddOption") || strings.Contains(e, "UpdateOption") || strings.Contains(e, "GetOption") {
			t.Errorf("%s must not be an action", e)
		}
	}
}

func TestReadOnlyName(t *testing.T) {
	for n, want := range map[string]bool{"String": true, "Addresses": true, "Address": true, "Settings": true, "Delta": true, "Withdrawn": true,
		"AddOption": false, "Add": false, "SetBroadcast": false, "UpdateOption": false, "Del": false, "DeleteOption": false, "WithReply": false} {
		if ReadOnlyName(n) != want {
			t.Errorf("ReadOnlyName(%q) = %v", n, !want)
		}
	}
}

func TestExecAndRender(t *testing.T) {
	codes := []dhcpv4.OptionCode{dhcpv4.OptionRouter, dhcpv4.OptionSubnetMask}
	o := dhcpv4.OptParameterRequestList(codes...)
	as := exprs(Discover(o, DefaultConfig()))
	// (Discover called the accessors of o; execute on a value nothing was called on)
	o = dhcpv4.OptParameterRequestList(dhcpv4.OptionRouter, dhcpv4.OptionSubnetMask)
	r := Exec(o, as[".Value.ToBytes()"])
	if r.Panic != nil || r.Text != "[]uint8{hex:0301}" {
		t.Fatalf("ToBytes: %+v", r)
	}
	// a path that cannot be followed is an observation, not an error
	gone := Action{Steps: []Step{{Kind: Field, Name: "Value"}, {Kind: Index, I: 7}, {Kind: Call, Name: "String"}}}
	if r := Exec(o, gone); !strings.HasPrefix(r.Text, "<unreachable") {
		t.Fatalf("unreachable: %+v", r)
	}
	// rendering: maps sorted, pointers followed, no addresses, nil vs empty distinguished
	type T struct {
		M map[uint8][]byte
		P *net.IPNet
		S []string
		x int
	}
	v := T{M: map[uint8][]byte{9: {1}, 3: nil, 200: {}}, P: &net.IPNet{IP: net.IP{10, 0, 0, 0}, Mask: net.CIDRMask(8, 32)}, x: 5}
	a, b := Render(reflect.ValueOf(v)), Render(reflect.ValueOf(v))
	if a != b || strings.Contains(a, "0xc0") || strings.Contains(a, " x:") {
		t.Fatalf("render: %s", a)
	}
	if !strings.Contains(a, "uint8(3): []uint8(nil), uint8(9): []uint8{hex:01}, uint8(200): []uint8{hex:}") || !strings.Contains(a, "S:[]string(nil)") {
		t.Fatalf("render: %s", a)
	}
}
