// Package roview enumerates, by reflection, the read-only "view" actions of a
// library value and executes them: every niladic exported method with at least
// one result found on the value itself, on the values held in its exported
// fields / slice elements, and on the values its accessors return (composite
// actions "call accessor X, then call method Y on what it returned").
//
// It is deliberately small and self-contained (no dependency on any other
// observer in this tree) and it never calls a method to *render* a result: the
// renderer walks results structurally, so that rendering cannot itself be the
// read that changes a value.
//
// Not actions, by the contract of C20: methods without results
// (SetBroadcast/SetUnicast), methods that take arguments, and methods whose
// name starts with Set/Add/Update/Del/Delete/With (mutators by name).
package roview

import (
	"encoding/hex"
	"fmt"
	"reflect"
	"runtime/debug"
	"sort"
	"strconv"
	"strings"
	"sync"
)

// StepKind is the kind of one step of an action path.
type StepKind uint8

const (
	Field StepKind = iota // .Name
	Index                 // [I]
	Call                  // .Name()
	Func                  // Name(root): a registered package-level read-only helper applied to the root value (first step only)
)

// Step is one step of an action path.
type Step struct {
	Kind StepKind
	Name string
	I    int
	// Multi: the call returns more than one result (only the first is followed).
	Multi bool
	// Assert: the value this step is applied to is held in an interface that
	// does not offer the step (a field, an index, a method of the dynamic type
	// only); Assert is the dynamic type to assert to in Go source.
	Assert string
}

// Action is a path from a root value to one niladic method call. It is plain
// data, valid for any value of the same shape, so it can be replayed on a
// freshly built value.
type Action struct {
	Steps []Step
	// Expr is the Go selector expression of the path, e.g.
	// ".Options.IANA()[0].String()"; prefixed with a variable name it compiles.
	Expr string
	// Method is "<pkg>.<Type>.<Method>" of the last call (receiver type as found
	// by reflection, pointer star removed), e.g. "dhcpv4.OptionCodeList.String".
	Method string
	// Via is Method of the first call for composite actions, "" otherwise.
	Via string
	// Calls is the number of Call steps (1 = direct, 2 = composite).
	Calls int
	// ListResult: the (first) result of the last call is a slice, array or a
	// pointer to a struct wrapping a list, of a library type with methods of its
	// own or with elements that have methods ("list-typed accessor").
	ListResult bool
	// NonEmpty: that list result had at least one element at discovery time.
	NonEmpty bool
	// Reflective: the path passes through an interface whose dynamic type is
	// unexported and uses a member the interface does not offer (e.g. an exported
	// field of an unexported option type): only reflection can follow it
	// literally, GoExpr does not compile for it.
	Reflective bool
}

// GoExpr renders the path as a compilable Go expression on variable v. A call
// in the middle of the path that returns several results is wrapped in
// first(...), to be declared as
//
//	func first[T any](v T, _ ...any) T { return v }
func (a Action) GoExpr(v string) string {
	e := v
	for k, s := range a.Steps {
		switch s.Kind {
		case Field:
			if s.Assert != "" {
				e += ".(" + s.Assert + ")"
			}
			e += "." + s.Name
		case Index:
			if s.Assert != "" {
				e += ".(" + s.Assert + ")"
			}
			e += "[" + strconv.Itoa(s.I) + "]"
		case Call:
			if s.Assert != "" {
				e += ".(" + s.Assert + ")"
			}
			e += "." + s.Name + "()"
			if s.Multi && k < len(a.Steps)-1 {
				e = "first(" + e + ")"
			}
		}
	}
	return e
}

// Prefix returns the steps without the final call (the receiver's location).
func (a Action) Prefix() []Step { return a.Steps[:len(a.Steps)-1] }

// LastName is the method name of the final call.
func (a Action) LastName() string { return a.Steps[len(a.Steps)-1].Name }

// Config bounds the enumeration.
type Config struct {
	// PkgPrefix: only types declared under this import path have their methods
	// enumerated (methods of net.IP, time.Duration … are the standard
	// library's, not the library under test).
	PkgPrefix string
	// MaxCalls is the maximal number of calls per action (2 = accessor + one
	// method on its result).
	MaxCalls int
	// PreSteps / MidSteps: maximal number of field/index steps before the first
	// call and between two calls (embedded fields are free).
	PreSteps, MidSteps int
	// IndexCap: at most this many elements of any slice are visited (the first
	// IndexCap-1 and the last).
	IndexCap int
}

// DefaultConfig is the configuration used by C20.
func DefaultConfig() Config {
	return Config{PkgPrefix: "github.com/insomniacslk/dhcp", MaxCalls: 2, PreSteps: 2, MidSteps: 1, IndexCap: 3}
}

var mutatorPrefixes = []string{"Set", "Add", "Update", "Delete", "Del", "With"}

// ReadOnlyName reports whether a method name is not a mutator by name: it does
// not start with the *word* Set/Add/Update/Delete/Del/With (CamelCase word
// boundary: AddOption is a mutator, Addresses is not).
func ReadOnlyName(n string) bool {
	for _, p := range mutatorPrefixes {
		if strings.HasPrefix(n, p) {
			rest := n[len(p):]
			if rest == "" || !(rest[0] >= 'a' && rest[0] <= 'z') {
				return false
			}
		}
	}
	return true
}

func (c Config) libType(t reflect.Type) bool {
	for t.Kind() == reflect.Ptr {
		t = t.Elem()
	}
	return t.PkgPath() != "" && (t.PkgPath() == c.PkgPrefix || strings.HasPrefix(t.PkgPath(), c.PkgPrefix+"/"))
}

// mayHoldLib: a value of static type t may lead to library values.
func (c Config) mayHoldLib(t reflect.Type, depth int) bool {
	if depth > 4 {
		return false
	}
	if c.libType(t) {
		return true
	}
	switch t.Kind() {
	case reflect.Ptr, reflect.Slice, reflect.Array:
		return c.mayHoldLib(t.Elem(), depth+1)
	case reflect.Interface:
		return t.NumMethod() > 0 && t.PkgPath() != "" && c.libType(t) // named library interfaces only
	}
	return false
}

// TypeName renders a type as "<pkg>.<Name>" with the pointer star removed.
func TypeName(t reflect.Type) string {
	for t.Kind() == reflect.Ptr {
		t = t.Elem()
	}
	s := t.String()
	return s
}

// receiver returns the value methods are looked up on: the address of an
// addressable non-pointer value (a user can call pointer-receiver methods on an
// addressable field), else the value itself. ok=false for nil.
func receiver(cur reflect.Value) (reflect.Value, bool) {
	if !cur.IsValid() {
		return cur, false
	}
	if cur.Kind() == reflect.Interface {
		if cur.IsNil() {
			return cur, false
		}
		cur = cur.Elem()
	}
	if cur.Kind() == reflect.Ptr {
		if cur.IsNil() {
			return cur, false
		}
		return cur, true
	}
	if cur.CanAddr() {
		return cur.Addr(), true
	}
	return cur, true
}

// under returns the value to navigate into (interfaces and pointers followed).
func under(cur reflect.Value) (reflect.Value, bool) {
	for i := 0; i < 4; i++ {
		if !cur.IsValid() {
			return cur, false
		}
		switch cur.Kind() {
		case reflect.Interface, reflect.Ptr:
			if cur.IsNil() {
				return cur, false
			}
			cur = cur.Elem()
		default:
			return cur, true
		}
	}
	return cur, cur.IsValid()
}

func (c Config) indices(n int) []int {
	if n <= c.IndexCap {
		out := make([]int, n)
		for i := range out {
			out[i] = i
		}
		return out
	}
	out := make([]int, 0, c.IndexCap)
	for i := 0; i < c.IndexCap-1; i++ {
		out = append(out, i)
	}
	return append(out, n-1)
}

func exprOf(steps []Step) string {
	var b strings.Builder
	for _, s := range steps {
		switch s.Kind {
		case Field:
			b.WriteString("." + s.Name)
		case Index:
			b.WriteString("[" + strconv.Itoa(s.I) + "]")
		case Call:
			b.WriteString("." + s.Name + "()")
		case Func:
			b.WriteString(" passed to " + s.Name)
		}
	}
	return b.String()
}

// Helper is a package-level read-only function of the library that takes the root value (a packet or message):
// Applies says whether it takes this value, Call renders its results into one value.
type Helper struct {
	Name    string // e.g. "dhcpv6.ExtractMAC(v)"
	Applies func(v any) bool
	Call    func(v any) any
}

var helpers []Helper

// RegisterHelper adds h to the actions Discover returns for root values it applies to (call before any Discover).
func RegisterHelper(h Helper) { helpers = append(helpers, h) }

type walker struct {
	cfg  Config
	out  []Action
	seen map[string]bool
}

func isList(c Config, v reflect.Value) (list, nonEmpty bool) {
	u, ok := under(v)
	if !ok {
		// nil result: list-typed by static type?
		t := v.Type()
		for t.Kind() == reflect.Ptr {
			t = t.Elem()
		}
		return (t.Kind() == reflect.Slice || t.Kind() == reflect.Array) && c.mayHoldLib(t, 0), false
	}
	switch u.Kind() {
	case reflect.Slice, reflect.Array:
		if c.mayHoldLib(u.Type(), 0) {
			return true, u.Len() > 0
		}
	case reflect.Struct:
		// a struct wrapping one list (e.g. *rfc1035label.Labels{Labels []string}, *RelayOptions{Options})
		if c.libType(u.Type()) {
			for i := 0; i < u.NumField(); i++ {
				f := u.Type().Field(i)
				if f.PkgPath == "" && (f.Type.Kind() == reflect.Slice || f.Type.Kind() == reflect.Map) {
					return true, u.Field(i).Len() > 0
				}
			}
		}
	}
	return false, false
}

// nameable: the type can be written in Go source outside its package.
func nameable(t reflect.Type) bool {
	for t.Kind() == reflect.Ptr {
		t = t.Elem()
	}
	n := t.Name()
	return n != "" && t.PkgPath() != "" && n[0] >= 'A' && n[0] <= 'Z'
}

func (w *walker) walk(cur reflect.Value, steps []Step, calls, nonCall int, via string, skipMethods, refl bool) {
	if !cur.IsValid() {
		return
	}
	// how a step on cur is written in source: through an assertion when cur is an interface value
	// (or the root, whose static type the caller may only know as an interface)
	iface := cur.Kind() == reflect.Interface && !cur.IsNil()
	var ifaceT, dynT reflect.Type
	if iface {
		ifaceT, dynT = cur.Type(), cur.Elem().Type()
	}
	if len(steps) == 0 && !nameable(cur.Type()) {
		// root of an unexported type: the caller holds it as the library interface it was returned as;
		// only String/ToBytes/Code are assumed to be offered
		iface, ifaceT, dynT = true, nil, cur.Type()
	}
	// need returns the assertion for a step and whether the path stays expressible
	need := func(kind StepKind, name string) (string, bool) {
		if !iface {
			return "", true
		}
		if kind == Call {
			if ifaceT != nil {
				if _, ok := ifaceT.MethodByName(name); ok {
					return "", true
				}
			} else if name == "String" || name == "ToBytes" || name == "Code" {
				return "", true
			}
		}
		if nameable(dynT) {
			return dynT.String(), true
		}
		return "", false
	}
	limit := w.cfg.PreSteps
	if calls > 0 {
		limit = w.cfg.MidSteps
	}
	// methods on the value
	if recv, ok := receiver(cur); ok && !skipMethods && w.cfg.libType(recv.Type()) {
		t := recv.Type()
		for i := 0; i < t.NumMethod(); i++ {
			m := t.Method(i)
			if m.PkgPath != "" || m.Type.NumIn() != 1 || m.Type.NumOut() < 1 || !ReadOnlyName(m.Name) {
				continue
			}
			as, expressible := need(Call, m.Name)
			st := append(append([]Step{}, steps...), Step{Kind: Call, Name: m.Name, Multi: m.Type.NumOut() > 1, Assert: as})
			a := Action{Steps: st, Expr: exprOf(st), Method: TypeName(t) + "." + m.Name, Via: via, Calls: calls + 1, Reflective: refl || !expressible}
			if w.seen[a.Expr] {
				continue
			}
			w.seen[a.Expr] = true
			var res []reflect.Value
			if calls+1 <= w.cfg.MaxCalls {
				func() {
					defer func() { recover() }()
					res = recv.Method(i).Call(nil)
				}()
			}
			if len(res) > 0 {
				a.ListResult, a.NonEmpty = isList(w.cfg, res[0])
			}
			w.out = append(w.out, a)
			if len(res) > 0 && calls+1 < w.cfg.MaxCalls && w.cfg.mayHoldLib(res[0].Type(), 0) {
				first := via
				if first == "" {
					first = a.Method
				}
				w.walk(res[0], st, calls+1, 0, first, false, a.Reflective)
			}
		}
	}
	// navigation
	u, ok := under(cur)
	if !ok {
		return
	}
	switch u.Kind() {
	case reflect.Struct:
		if !w.cfg.libType(u.Type()) {
			return
		}
		for i := 0; i < u.NumField(); i++ {
			f := u.Type().Field(i)
			if f.PkgPath != "" || !w.cfg.mayHoldLib(f.Type, 0) {
				continue
			}
			cost := 1
			if f.Anonymous {
				cost = 0
			}
			if nonCall+cost > limit {
				continue
			}
			as, expressible := need(Field, f.Name)
			st := append(append([]Step{}, steps...), Step{Kind: Field, Name: f.Name, Assert: as})
			w.walk(u.Field(i), st, calls, nonCall+cost, via, f.Anonymous, refl || !expressible)
		}
	case reflect.Slice, reflect.Array:
		if nonCall+1 > limit || !w.cfg.mayHoldLib(u.Type().Elem(), 0) {
			return
		}
		for _, i := range w.cfg.indices(u.Len()) {
			as, expressible := need(Index, "")
			st := append(append([]Step{}, steps...), Step{Kind: Index, I: i, Assert: as})
			w.walk(u.Index(i), st, calls, nonCall+1, via, false, refl || !expressible)
		}
	}
}

// Discover enumerates the actions of v. It *calls* accessors (to learn what
// they return), so hand it a value that is thrown away afterwards.
func Discover(v any, cfg Config) []Action {
	w := &walker{cfg: cfg, seen: map[string]bool{}}
	w.walk(root(v), nil, 0, 0, "", false, false)
	for _, h := range helpers {
		if h.Applies(v) {
			st := []Step{{Kind: Func, Name: h.Name}}
			w.out = append(w.out, Action{Steps: st, Expr: exprOf(st), Method: h.Name, Calls: 1})
		}
	}
	return w.out
}

func root(v any) reflect.Value { return reflect.ValueOf(v) }

type methodKey struct {
	t    reflect.Type
	name string
}

var methodCache sync.Map // methodKey -> int (index in the method set, -1: absent or not niladic)

func methodIndex(t reflect.Type, name string) int {
	k := methodKey{t, name}
	if v, ok := methodCache.Load(k); ok {
		return v.(int)
	}
	idx := -1
	if m, ok := t.MethodByName(name); ok && m.Type.NumIn() == 1 && m.Type.NumOut() >= 1 {
		idx = m.Index
	}
	methodCache.Store(k, idx)
	return idx
}

// Result of executing one action.
type Result struct {
	Text  string // deterministic rendering of all results (or of why the path could not be followed)
	Panic any
	Stack string
}

// Exec follows the path on v and renders what the final call returns. A path
// that cannot be followed any more (nil, index out of range, method missing on
// a changed dynamic type) yields a "<unreachable …>" text rather than an error,
// so that it simply shows up as a changed observation.
func Exec(v any, a Action) (r Result) {
	defer func() {
		if p := recover(); p != nil {
			r.Panic = p
			r.Stack = string(debug.Stack())
			r.Text = fmt.Sprintf("<panic: %v>", p)
		}
	}()
	cur := root(v)
	for k, s := range a.Steps {
		switch s.Kind {
		case Func:
			for _, h := range helpers {
				if h.Name == s.Name {
					return Result{Text: Render(reflect.ValueOf(h.Call(v)))}
				}
			}
			return Result{Text: "<unreachable: helper " + s.Name + " is not registered>"}
		case Field:
			u, ok := under(cur)
			if !ok || u.Kind() != reflect.Struct {
				return Result{Text: "<unreachable at " + exprOf(a.Steps[:k+1]) + ": nil>"}
			}
			f := u.FieldByName(s.Name)
			if !f.IsValid() {
				return Result{Text: "<unreachable at " + exprOf(a.Steps[:k+1]) + ": no such field on " + u.Type().String() + ">"}
			}
			cur = f
		case Index:
			u, ok := under(cur)
			if !ok || (u.Kind() != reflect.Slice && u.Kind() != reflect.Array) || s.I >= u.Len() {
				return Result{Text: "<unreachable at " + exprOf(a.Steps[:k+1]) + ": index out of range>"}
			}
			cur = u.Index(s.I)
		case Call:
			recv, ok := receiver(cur)
			if !ok {
				return Result{Text: "<unreachable at " + exprOf(a.Steps[:k+1]) + ": nil receiver>"}
			}
			mi := methodIndex(recv.Type(), s.Name)
			if mi < 0 {
				return Result{Text: "<unreachable at " + exprOf(a.Steps[:k+1]) + ": no niladic method on " + recv.Type().String() + ">"}
			}
			m := recv.Method(mi)
			res := m.Call(nil)
			if k == len(a.Steps)-1 {
				parts := make([]string, len(res))
				for i, x := range res {
					parts[i] = Render(x)
				}
				return Result{Text: strings.Join(parts, " , ")}
			}
			if len(res) == 0 {
				return Result{Text: "<unreachable: no result>"}
			}
			cur = res[0]
		}
	}
	return Result{Text: "<empty path>"}
}

// ---------------------------------------------------------------- rendering

// Render renders a value structurally and deterministically: no method of the
// value is called (except Error() on non-library error values), pointers are
// followed (no addresses are printed), map keys are sorted, byte slices are
// hex, nil and empty slices are distinguished, struct fields are the
// *exported* ones (the observable state of a value; a private cache is not an
// observation).
func Render(v reflect.Value) string {
	var b strings.Builder
	render(&b, v, 0)
	return b.String()
}

func render(b *strings.Builder, v reflect.Value, depth int) {
	if !v.IsValid() {
		b.WriteString("<invalid>")
		return
	}
	if depth > 24 {
		b.WriteString("<depth>")
		return
	}
	t := v.Type()
	switch v.Kind() {
	case reflect.Bool:
		b.WriteString(t.String())
		b.WriteByte('(')
		b.WriteString(strconv.FormatBool(v.Bool()))
		b.WriteByte(')')
	case reflect.Int, reflect.Int8, reflect.Int16, reflect.Int32, reflect.Int64:
		b.WriteString(t.String())
		b.WriteByte('(')
		b.WriteString(strconv.FormatInt(v.Int(), 10))
		b.WriteByte(')')
	case reflect.Uint, reflect.Uint8, reflect.Uint16, reflect.Uint32, reflect.Uint64, reflect.Uintptr:
		b.WriteString(t.String())
		b.WriteByte('(')
		b.WriteString(strconv.FormatUint(v.Uint(), 10))
		b.WriteByte(')')
	case reflect.Float32, reflect.Float64:
		fmt.Fprintf(b, "%s(%v)", t, v.Float())
	case reflect.String:
		// raw, length-prefixed (unambiguous without the cost of quoting; reports are JSON-escaped anyway)
		str := v.String()
		b.WriteString(t.String())
		b.WriteByte('(')
		b.WriteString(strconv.Itoa(len(str)))
		b.WriteString(":\"")
		b.WriteString(str)
		b.WriteString("\")")
	case reflect.Slice:
		if v.IsNil() {
			fmt.Fprintf(b, "%s(nil)", t)
			return
		}
		if t.Elem().Kind() == reflect.Uint8 {
			b.WriteString(t.String())
			b.WriteString("{hex:")
			b.WriteString(hex.EncodeToString(v.Bytes()))
			b.WriteByte('}')
			return
		}
		fmt.Fprintf(b, "%s{", t)
		for i := 0; i < v.Len(); i++ {
			if i > 0 {
				b.WriteString(", ")
			}
			render(b, v.Index(i), depth+1)
		}
		b.WriteString("}")
	case reflect.Array:
		if t.Elem().Kind() == reflect.Uint8 {
			fmt.Fprintf(b, "%s{hex:", t)
			for i := 0; i < v.Len(); i++ {
				fmt.Fprintf(b, "%02x", v.Index(i).Uint())
			}
			b.WriteString("}")
			return
		}
		fmt.Fprintf(b, "%s{", t)
		for i := 0; i < v.Len(); i++ {
			if i > 0 {
				b.WriteString(", ")
			}
			render(b, v.Index(i), depth+1)
		}
		b.WriteString("}")
	case reflect.Map:
		if v.IsNil() {
			fmt.Fprintf(b, "%s(nil)", t)
			return
		}
		type kv struct{ k, v string }
		var items []kv
		it := v.MapRange()
		for it.Next() {
			items = append(items, kv{Render(it.Key()), Render(it.Value())})
		}
		sort.Slice(items, func(i, j int) bool {
			if len(items[i].k) != len(items[j].k) {
				return len(items[i].k) < len(items[j].k)
			}
			return items[i].k < items[j].k
		})
		fmt.Fprintf(b, "%s{", t)
		for i, e := range items {
			if i > 0 {
				b.WriteString(", ")
			}
			b.WriteString(e.k + ": " + e.v)
		}
		b.WriteString("}")
	case reflect.Ptr:
		if v.IsNil() {
			fmt.Fprintf(b, "%s(nil)", t)
			return
		}
		b.WriteString("&")
		render(b, v.Elem(), depth+1)
	case reflect.Interface:
		if v.IsNil() {
			fmt.Fprintf(b, "%s(nil)", t)
			return
		}
		e := v.Elem()
		if v.CanInterface() {
			// error values (standard library or fmt-wrapped): their text is the observation
			if err, ok := v.Interface().(error); ok {
				fmt.Fprintf(b, "error(%q)", err.Error())
				return
			}
		}
		render(b, e, depth+1)
	case reflect.Struct:
		b.WriteString(t.String())
		b.WriteByte('{')
		n := 0
		for i := 0; i < v.NumField(); i++ {
			f := t.Field(i)
			if f.PkgPath != "" && !f.Anonymous {
				continue
			}
			if f.PkgPath != "" && f.Anonymous {
				// embedded unexported type: its exported fields are observable
				if f.Type.Kind() != reflect.Struct {
					continue
				}
			}
			if n > 0 {
				b.WriteString(", ")
			}
			n++
			b.WriteString(f.Name + ":")
			render(b, v.Field(i), depth+1)
		}
		if n == 0 && v.NumField() > 0 && v.CanInterface() && t.PkgPath() != "" && !strings.Contains(t.PkgPath(), "insomniacslk") {
			// opaque standard-library struct (e.g. time.Time): fall back to %v
			fmt.Fprintf(b, "%v", v.Interface())
		}
		b.WriteString("}")
	default:
		fmt.Fprintf(b, "<%s>", t)
	}
}
