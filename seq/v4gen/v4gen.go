// Package v4gen enumerates DHCPv4 packet values of the C01 domain.
package v4gen

import (
	"net"

	"github.com/insomniacslk/dhcp/dhcpv4"
	"github.com/insomniacslk/dhcp/iana"
)

// OptBytes is the position- and code-dependent filler so that a dropped, duplicated
// or reordered chunk changes the value.
func OptBytes(code uint8, n int) []byte {
	b := make([]byte, n)
	for i := range b {
		b[i] = byte((i*7 + int(code)) % 251)
	}
	return b
}

var (
	Opcodes = []uint8{0, 1, 2, 255}
	HWTypes = []uint16{0, 1, 255}
	Hops    = []uint8{0, 255}
	Xids    = [][4]byte{{0, 0, 0, 0}, {1, 2, 3, 4}, {255, 255, 255, 255}}
	Secs    = []uint16{0, 1, 0xffff}
	Flags   = []uint16{0, 0x8000, 0xffff}
	SNameL  = []int{0, 1, 62, 63}
	FileL   = []int{0, 1, 126, 127}
)

// AddrForm: 0 nil, 1 0.0.0.0 (4-byte), 2 a.b.c.d 4-byte, 3 a.b.c.d IPv4-mapped 16-byte.
func Addr(field, form int) net.IP {
	switch form {
	case 0:
		return nil
	case 1:
		return net.IP{0, 0, 0, 0}
	case 2:
		return net.IP{10, byte(field + 1), 0, byte(field + 11)}
	}
	return net.IPv4(10, byte(field+1), 0, byte(field+11)) // 16-byte mapped
}

func name(n int, base byte) string {
	b := make([]byte, n)
	for i := range b {
		b[i] = base + byte(i%26)
	}
	return string(b)
}

var formSel = map[int][]int{4: {0, 1, 2, 3}, 3: {0, 2, 3}, 2: {0, 3}, 1: {2}}

// HeaderSpace returns the size of the S1 product for the given number of address forms.
func HeaderSpace(forms int) int64 {
	n := int64(len(Opcodes) * len(HWTypes) * len(Hops) * len(Xids) * len(Secs) * len(Flags))
	for i := 0; i < 4; i++ {
		n *= int64(forms)
	}
	return n * 17 * int64(len(SNameL)*len(FileL))
}

// Header builds the i-th packet of the S1 product (no options).
func Header(i int64, forms int) *dhcpv4.DHCPv4 {
	pick := func(n int) int { k := int(i % int64(n)); i /= int64(n); return k }
	p := &dhcpv4.DHCPv4{Options: dhcpv4.Options{}}
	p.OpCode = dhcpv4.OpcodeType(Opcodes[pick(len(Opcodes))])
	p.HWType = iana.HWType(HWTypes[pick(len(HWTypes))])
	p.HopCount = Hops[pick(len(Hops))]
	p.TransactionID = Xids[pick(len(Xids))]
	p.NumSeconds = Secs[pick(len(Secs))]
	p.Flags = Flags[pick(len(Flags))]
	p.ClientIPAddr = Addr(0, formSel[forms][pick(forms)])
	p.YourIPAddr = Addr(1, formSel[forms][pick(forms)])
	p.ServerIPAddr = Addr(2, formSel[forms][pick(forms)])
	p.GatewayIPAddr = Addr(3, formSel[forms][pick(forms)])
	hl := pick(17)
	p.ClientHWAddr = make(net.HardwareAddr, hl)
	for k := range p.ClientHWAddr {
		p.ClientHWAddr[k] = byte(0xa1 + k)
	}
	p.ServerHostName = name(SNameL[pick(len(SNameL))], 'a')
	p.BootFileName = name(FileL[pick(len(FileL))], 'A')
	return p
}

// Base is a fixed header used with the option scopes.
func Base() *dhcpv4.DHCPv4 {
	return &dhcpv4.DHCPv4{OpCode: 1, HWType: 1, HopCount: 1, TransactionID: [4]byte{9, 8, 7, 6}, NumSeconds: 3, Flags: 0x8000,
		ClientIPAddr: net.IP{10, 0, 0, 1}, YourIPAddr: net.IP{10, 0, 0, 2}, ServerIPAddr: net.IP{10, 0, 0, 3}, GatewayIPAddr: net.IP{10, 0, 0, 4},
		ClientHWAddr: net.HardwareAddr{2, 0, 0, 0, 0, 1}, ServerHostName: "s", BootFileName: "f", Options: dhcpv4.Options{}}
}

var BoundaryLens = []int{0, 1, 254, 255, 256, 509, 510, 511, 764, 765, 766}

// OptionSets enumerates the S2-S4 option maps: calls f(order, description, options).
func OptionSets(thorough bool, f func(ord int64, desc string, o dhcpv4.Options)) int64 {
	var ord int64
	emit := func(desc string, o dhcpv4.Options) { f(ord, desc, o); ord++ }
	// S2: one option, every value length
	lens := []int{}
	for l := 0; l <= 1026; l++ {
		lens = append(lens, l)
	}
	lens = append(lens, 1275, 1276, 2040, 4096)
	for _, code := range []uint8{1, 53, 82, 254} {
		for _, l := range lens {
			emit("S2", dhcpv4.Options{code: OptBytes(code, l)})
		}
	}
	// S3: pairs and triples over the boundary lengths
	for _, cs := range [][2]uint8{{1, 53}, {53, 82}, {1, 254}, {82, 254}} {
		for _, a := range BoundaryLens {
			for _, b := range BoundaryLens {
				emit("S3-pair", dhcpv4.Options{cs[0]: OptBytes(cs[0], a), cs[1]: OptBytes(cs[1], b)})
			}
		}
	}
	triples := [][3]uint8{{1, 82, 254}}
	if thorough {
		triples = append(triples, [3]uint8{50, 53, 54}, [3]uint8{1, 53, 82})
	}
	for _, cs := range triples {
		for _, a := range BoundaryLens {
			for _, b := range BoundaryLens {
				for _, c := range BoundaryLens {
					emit("S3-triple", dhcpv4.Options{cs[0]: OptBytes(cs[0], a), cs[1]: OptBytes(cs[1], b), cs[2]: OptBytes(cs[2], c)})
				}
			}
		}
	}
	// S4: all subsets of a code set, values of length code%5 (includes empty values)
	codes := []uint8{1, 50, 53, 54, 55, 61, 82, 254}
	for m := 0; m < 1<<len(codes); m++ {
		o := dhcpv4.Options{}
		for k, c := range codes {
			if m&(1<<k) != 0 {
				o[c] = OptBytes(c, int(c)%5)
			}
		}
		emit("S4", o)
	}
	// all 254 codes at once, short values; and with one long value
	o := dhcpv4.Options{}
	for c := 1; c <= 254; c++ {
		o[uint8(c)] = OptBytes(uint8(c), c%4)
	}
	emit("S4-all-codes", o)
	return ord
}
