package snap

import (
	"strings"
	"testing"

	"github.com/insomniacslk/dhcp/dhcpv4"
	"github.com/insomniacslk/dhcp/dhcpv6"
	"verif/seq/corpus6"
)

// Snapshots are deterministic and taking one does not change the next.
func TestDeterministic(t *testing.T) {
	for _, mc := range corpus6.Messages(false) {
		if strings.HasPrefix(mc.Name, "max-length/") {
			continue
		}
		d, err := dhcpv6.FromBytes(mc.Build().ToBytes())
		if err != nil {
			t.Fatalf("%s: %v", mc.Name, err)
		}
		a, b := V6(d), V6(d)
		if a != b {
			p, x, y, n := Diff(a, b)
			t.Fatalf("%s: %d lines differ, %s: %s / %s", mc.Name, n, p, x, y)
		}
		if strings.Contains(a, "<depth limit>") || strings.Contains(a, "panic:") {
			t.Fatalf("%s: snapshot incomplete", mc.Name)
		}
	}
	for k := 0; k < 3; k++ {
		p, err := dhcpv4.FromBytes(corpus6.V4Packet(k).ToBytes())
		if err != nil {
			t.Fatal(err)
		}
		if a, b := V4(p), V4(p); a != b {
			t.Fatalf("v4 packet %d: snapshot not deterministic", k)
		}
	}
}

// A change of one nested field is located and attributed to the option holding it.
func TestDiffObserver(t *testing.T) {
	build := func(msg string) dhcpv6.DHCPv6 {
		m := corpus6.InnerMessage(2)
		m.Options.Options[2].(*dhcpv6.OptIANA).Options.Options[0].(*dhcpv6.OptIAAddress).Options.Options[0].(*dhcpv6.OptStatusCode).StatusMessage = msg
		return corpus6.RelayChain(2, m, 3)
	}
	a, b := V6(build("ok")), V6(build("no"))
	path, _, _, n := Diff(a, b)
	if n == 0 || Observer(path) != "dhcpv6.OptStatusCode" {
		t.Fatalf("n=%d path=%s observer=%s", n, path, Observer(path))
	}
	if p, _, _, n := Diff(a, a); p != "" || n != 0 {
		t.Fatal("equal snapshots reported different")
	}
	if got := Observer(".DomainSearch()"); got != "DomainSearch()" {
		t.Fatal(got)
	}
	if got := Observer("(*dhcpv6.Message).TransactionID"); got != "dhcpv6.Message.TransactionID" {
		t.Fatal(got)
	}
}
