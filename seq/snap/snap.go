// Package snap renders everything that is *observable through the public API*
// of a decoded DHCPv4 / DHCPv6 message as one deterministic string, so that two
// snapshots can be compared for equality (C08: before/after overwriting a
// buffer; C20: before/after a read-only call).
//
// A snapshot is a list of lines "path = value":
//
//	ToBytes()                 the re-encoding (hex)
//	Summary() / String()      the printed forms
//	.<Field>…                 every exported field, recursively (pointers and
//	                          interfaces are followed and annotated with the Go
//	                          type, e.g. ".Options.Options[2](*dhcpv6.optDomainSearchList)")
//	.<Method>()               the result of EVERY exported zero-argument method
//	                          with at least one result of every value of a type
//	                          declared in the library (typed accessors such as
//	                          DomainSearch(), Options.IANA(), Addresses(), DUID
//	                          String()/ToBytes(), Labels.ToBytes(), …), found by
//	                          reflection so that new accessors are picked up
//	                          automatically; results are rendered in full depth
//	                          (exported fields, plus ToBytes()/String() of every
//	                          library value inside the result)
//	plus the accessors that take an argument: DHCPv4 IPAddressLeaseTime /
//	RenewalTime / RebindingTime (two defaults), GetOneOption for every code
//	present; DHCPv6 GetOption / GetOneOption for every code present.
//
// Unexported fields are never read: they are not observable. Methods are called
// under recover; a panic is rendered as "panic: …" (deterministic). Map keys are
// sorted. Nothing in here modifies the value (only zero-argument methods with
// results are called; names starting with Set/Add/Update/Del/From/Unmarshal/
// With/Generate are skipped whatever their signature).
package snap

import (
	"encoding/hex"
	"fmt"
	"reflect"
	"sort"
	"strings"
	"sync"
	"time"

	"github.com/insomniacslk/dhcp/dhcpv4"
	"github.com/insomniacslk/dhcp/dhcpv6"
)

const libPrefix = "github.com/insomniacslk/dhcp"

// V4 is the snapshot of a DHCPv4 packet.
func V4(p *dhcpv4.DHCPv4) string {
	w := &walker{}
	if p == nil {
		return "<nil>\n"
	}
	w.line("ToBytes()", call(func() string { return hex.EncodeToString(p.ToBytes()) }))
	w.walk("", reflect.ValueOf(p).Elem(), true, 0)
	for _, def := range []time.Duration{0, 7 * time.Second} {
		def := def
		w.line(fmt.Sprintf(".IPAddressLeaseTime(%d)", def), call(func() string { return fmt.Sprint(int64(p.IPAddressLeaseTime(def))) }))
		w.line(fmt.Sprintf(".IPAddressRenewalTime(%d)", def), call(func() string { return fmt.Sprint(int64(p.IPAddressRenewalTime(def))) }))
		w.line(fmt.Sprintf(".IPAddressRebindingTime(%d)", def), call(func() string { return fmt.Sprint(int64(p.IPAddressRebindingTime(def))) }))
	}
	codes := make([]int, 0, len(p.Options))
	for c := range p.Options {
		codes = append(codes, int(c))
	}
	sort.Ints(codes)
	for _, c := range codes {
		c := c
		w.line(fmt.Sprintf(".GetOneOption(%d)", c), call(func() string {
			return hex.EncodeToString(p.GetOneOption(dhcpv4.GenericOptionCode(c)))
		}))
	}
	// a second encoding at the end: a read that changed the value shows up inside one snapshot
	w.line("ToBytes()#2", call(func() string { return hex.EncodeToString(p.ToBytes()) }))
	return w.sb.String()
}

// V6 is the snapshot of a DHCPv6 message or relay message.
func V6(d dhcpv6.DHCPv6) string {
	w := &walker{}
	if d == nil || (reflect.ValueOf(d).Kind() == reflect.Ptr && reflect.ValueOf(d).IsNil()) {
		return "<nil>\n"
	}
	w.line("ToBytes()", call(func() string { return hex.EncodeToString(d.ToBytes()) }))
	w.line("LongString(2)", call(func() string { return fmt.Sprintf("%q", d.LongString(2)) }))
	w.walk("", reflect.ValueOf(d), true, 0)
	// accessors with an argument: every code present at this level
	seen := map[dhcpv6.OptionCode]bool{}
	var codes []int
	var top dhcpv6.Options
	switch m := d.(type) {
	case *dhcpv6.Message:
		top = m.Options.Options
	case *dhcpv6.RelayMessage:
		top = m.Options.Options
	}
	for _, o := range top {
		if o == nil {
			continue
		}
		var c dhcpv6.OptionCode
		if pv := safely(func() { c = o.Code() }); pv != "" {
			continue
		}
		if !seen[c] {
			seen[c] = true
			codes = append(codes, int(c))
		}
	}
	sort.Ints(codes)
	for _, c := range codes {
		c := dhcpv6.OptionCode(c)
		w.lineV(fmt.Sprintf(".GetOption(%d)", int(c)), func() reflect.Value { return reflect.ValueOf(d.GetOption(c)) })
		w.lineV(fmt.Sprintf(".GetOneOption(%d)", int(c)), func() reflect.Value { return reflect.ValueOf(d.GetOneOption(c)) })
	}
	w.line("ToBytes()#2", call(func() string { return hex.EncodeToString(d.ToBytes()) }))
	return w.sb.String()
}

// Option is the snapshot of a single DHCPv6 option (same rendering as inside V6).
func Option(o dhcpv6.Option) string {
	w := &walker{}
	w.walk("", reflect.ValueOf(o), true, 0)
	return w.sb.String()
}

// Diff compares two snapshots line by line. It returns "" paths when equal;
// otherwise the most specific (longest) path whose line differs, with both
// values, and the number of differing lines.
func Diff(a, b string) (path, av, bv string, n int) {
	if a == b {
		return "", "", "", 0
	}
	la, lb := strings.Split(a, "\n"), strings.Split(b, "\n")
	ma := map[string]string{}
	var order []string
	for _, l := range la {
		if k, v, ok := strings.Cut(l, " = "); ok {
			if _, dup := ma[k]; !dup {
				order = append(order, k)
			}
			ma[k] = v
		}
	}
	mb := map[string]string{}
	for _, l := range lb {
		if k, v, ok := strings.Cut(l, " = "); ok {
			if _, in := ma[k]; !in {
				if _, dup := mb[k]; !dup {
					order = append(order, k)
				}
			}
			mb[k] = v
		}
	}
	best := -1
	for _, k := range order {
		x, inA := ma[k]
		y, inB := mb[k]
		if inA && inB && x == y {
			continue
		}
		n++
		if !inA {
			x = "<absent>"
		}
		if !inB {
			y = "<absent>"
		}
		// most specific = deepest path; ties: first in snapshot order
		d := 2000*strings.Count(k, "](") + 2*(strings.Count(k, ".")+strings.Count(k, "["))
		if !strings.HasSuffix(k, ")") { // at equal depth a field is more telling than a method result
			d++
		}
		if d > best {
			best, path, av, bv = d, k, x, y
		}
	}
	if n == 0 {
		return "<line order>", "", "", 1
	}
	return path, av, bv, n
}

// Observer extracts a stable name for fingerprints from a Diff path: the Go type
// of the innermost *list element* on the path — options are always elements of
// an option list, so for
// "….Options[4](*dhcpv6.optDomainSearchList).DomainSearchList(*rfc1035label.Labels).ToBytes()"
// it is "dhcpv6.optDomainSearchList" — or, when the path holds no such element,
// its first segment ("DomainSearch()", "ClientHWAddr").
func Observer(path string) string {
	last := ""
	for i := 0; i+1 < len(path); i++ {
		if path[i] != ']' || path[i+1] != '(' {
			continue
		}
		j := strings.IndexByte(path[i+1:], ')')
		if j < 0 {
			break
		}
		tok := path[i+2 : i+1+j]
		if strings.Contains(tok, ".") && !strings.ContainsAny(tok, " ,") {
			last = strings.TrimLeft(tok, "*")
		}
	}
	if last != "" {
		return last
	}
	p := strings.TrimPrefix(path, ".")
	if strings.HasPrefix(p, "(") { // "(*dhcpv6.Message).Field…"
		if k := strings.IndexByte(p, ')'); k > 0 {
			head := strings.TrimLeft(p[1:k], "*")
			rest := strings.TrimPrefix(p[k+1:], ".")
			if m := strings.IndexAny(rest, ".[("); m > 0 {
				rest = rest[:m]
			}
			if rest == "" {
				return head
			}
			return head + "." + rest
		}
	}
	if k := strings.IndexAny(p, ".["); k > 0 {
		p = p[:k]
	}
	return p
}

// ---------------------------------------------------------------- walker

type walker struct {
	sb strings.Builder
}

func (w *walker) line(path, val string) {
	w.sb.WriteString(path)
	w.sb.WriteString(" = ")
	w.sb.WriteString(strings.ReplaceAll(val, "\n", "\\n"))
	w.sb.WriteByte('\n')
}

// lineV renders the value returned by f in one line (compact mode).
func (w *walker) lineV(path string, f func() reflect.Value) {
	var v reflect.Value
	if pv := safely(func() { v = f() }); pv != "" {
		w.line(path, pv)
		return
	}
	w.line(path, compact(v))
}

func safely(f func()) (pv string) {
	defer func() {
		if r := recover(); r != nil {
			pv = fmt.Sprintf("panic: %v", r)
		}
	}()
	f()
	return ""
}

func call(f func() string) string {
	var s string
	if pv := safely(func() { s = f() }); pv != "" {
		return pv
	}
	return s
}

func isLib(t reflect.Type) bool {
	return strings.HasPrefix(t.PkgPath(), libPrefix)
}

var skipPrefixes = []string{"Set", "Add", "Update", "Del", "From", "Unmarshal", "Marshal", "With", "Generate", "Test", "Setup", "TearDown"}

func callable(m reflect.Method, mt reflect.Type, hasRecv bool) bool {
	if m.PkgPath != "" { // unexported
		return false
	}
	recv := 0
	if hasRecv {
		recv = 1
	}
	for _, p := range skipPrefixes {
		if strings.HasPrefix(m.Name, p) {
			return false
		}
	}
	return mt.NumIn() == recv && mt.NumOut() >= 1 && !mt.IsVariadic()
}

// methods calls every zero-argument method with results of v (pointer receiver
// set when addressable) and emits one line per method; only for library types.
func (w *walker) methods(path string, v reflect.Value) {
	t := v.Type()
	if !isLib(t) {
		return
	}
	rv := v
	if v.Kind() != reflect.Ptr && v.Kind() != reflect.Interface && v.CanAddr() {
		rv = v.Addr()
	}
	if !rv.CanInterface() {
		return
	}
	for _, mi := range callableMethods(rv.Type()) {
		mv := rv.Method(mi.idx)
		var outs []reflect.Value
		if pv := safely(func() { outs = mv.Call(nil) }); pv != "" {
			w.line(path+"."+mi.name+"()", pv)
			continue
		}
		if len(outs) == 1 {
			w.line(path+"."+mi.name+"()", compact(outs[0]))
			continue
		}
		parts := make([]string, 0, len(outs))
		for _, o := range outs {
			parts = append(parts, compact(o))
		}
		w.line(path+"."+mi.name+"()", strings.Join(parts, " , "))
	}
}

type methodInfo struct {
	idx  int
	name string
}

var methodCache sync.Map // reflect.Type -> []methodInfo

func callableMethods(rt reflect.Type) []methodInfo {
	if v, ok := methodCache.Load(rt); ok {
		return v.([]methodInfo)
	}
	var l []methodInfo
	for i := 0; i < rt.NumMethod(); i++ {
		m := rt.Method(i)
		if callable(m, m.Type, rt.Kind() != reflect.Interface) {
			l = append(l, methodInfo{i, m.Name})
		}
	}
	methodCache.Store(rt, l)
	return l
}

var printCache sync.Map // reflect.Type -> []methodInfo (ToBytes, String with the right signature)

func printMethods(rt reflect.Type) []methodInfo {
	if v, ok := printCache.Load(rt); ok {
		return v.([]methodInfo)
	}
	var l []methodInfo
	recv := 1
	if rt.Kind() == reflect.Interface {
		recv = 0
	}
	for _, name := range []string{"ToBytes", "String"} {
		if m, ok := rt.MethodByName(name); ok && m.PkgPath == "" && m.Type.NumIn() == recv && m.Type.NumOut() == 1 {
			l = append(l, methodInfo{m.Index, name})
		}
	}
	printCache.Store(rt, l)
	return l
}

const maxDepth = 400

// walk emits lines for v. full: call the methods of library-typed values.
func (w *walker) walk(path string, v reflect.Value, full bool, depth int) {
	if !v.IsValid() {
		w.line(path, "<invalid>")
		return
	}
	if depth > maxDepth {
		w.line(path, "<depth limit>")
		return
	}
	switch v.Kind() {
	case reflect.Interface:
		if v.IsNil() {
			w.line(path, "nil")
			return
		}
		w.walk(path, v.Elem(), full, depth+1)
	case reflect.Ptr:
		if v.IsNil() {
			w.line(path, "nil")
			return
		}
		e := v.Elem()
		p := path + "(*" + typeName(e.Type()) + ")"
		if e.Kind() == reflect.Struct {
			w.structure(p, e, full, depth)
		} else {
			w.walk(p, e, full, depth+1) // addressable: walk uses the pointer method set
		}
	case reflect.Struct:
		p := path
		if isLib(v.Type()) && depth > 0 && !strings.HasSuffix(path, ")") {
			p = path + "(" + typeName(v.Type()) + ")"
		}
		w.structure(p, v, full, depth)
	case reflect.Slice, reflect.Array:
		if v.Kind() == reflect.Slice && v.IsNil() {
			// nil and empty are told apart: a decoded value must not flip between them
			w.line(path, "nil-slice")
			return
		}
		if v.Type().Elem().Kind() == reflect.Uint8 {
			w.line(path, "hex:"+hexOf(v))
			if full && isLib(v.Type()) {
				w.methods(path, v)
			}
			return
		}
		if full && isLib(v.Type()) {
			w.methods(path, v)
		}
		w.line(path+".len", fmt.Sprint(v.Len()))
		for i := 0; i < v.Len(); i++ {
			w.walk(fmt.Sprintf("%s[%d]", path, i), v.Index(i), full, depth+1)
		}
	case reflect.Map:
		if v.IsNil() {
			w.line(path, "nil-map")
			return
		}
		if full && isLib(v.Type()) {
			w.methods(path, v)
		}
		keys := v.MapKeys()
		sort.Slice(keys, func(i, j int) bool { return keyString(keys[i]) < keyString(keys[j]) })
		w.line(path+".len", fmt.Sprint(len(keys)))
		for _, k := range keys {
			w.walk(fmt.Sprintf("%s[%v]", path, k), v.MapIndex(k), full, depth+1)
		}
	case reflect.String:
		w.line(path, fmt.Sprintf("%q", v.String()))
		if full && isLib(v.Type()) {
			w.methods(path, v)
		}
	case reflect.Bool:
		w.line(path, fmt.Sprint(v.Bool()))
	case reflect.Int, reflect.Int8, reflect.Int16, reflect.Int32, reflect.Int64:
		w.line(path, fmt.Sprint(v.Int()))
		if full && isLib(v.Type()) {
			w.methods(path, v)
		}
	case reflect.Uint, reflect.Uint8, reflect.Uint16, reflect.Uint32, reflect.Uint64, reflect.Uintptr:
		w.line(path, fmt.Sprint(v.Uint()))
		if full && isLib(v.Type()) {
			w.methods(path, v)
		}
	case reflect.Float32, reflect.Float64:
		w.line(path, fmt.Sprint(v.Float()))
	default:
		w.line(path, "<"+v.Kind().String()+">")
	}
}

func (w *walker) structure(path string, v reflect.Value, full bool, depth int) {
	t := v.Type()
	if full {
		w.methods(path, v)
	}
	n := 0
	for i := 0; i < t.NumField(); i++ {
		f := t.Field(i)
		if f.PkgPath != "" { // unexported: not observable
			continue
		}
		n++
		w.walk(path+"."+f.Name, v.Field(i), full, depth+1)
	}
	if n == 0 && !full {
		w.line(path, "{}")
	}
}

func typeName(t reflect.Type) string {
	s := t.String() // "dhcpv6.OptIANA"
	return s
}

func hexOf(v reflect.Value) string {
	n := v.Len()
	b := make([]byte, n)
	for i := 0; i < n; i++ {
		b[i] = byte(v.Index(i).Uint())
	}
	return hex.EncodeToString(b)
}

func keyString(k reflect.Value) string {
	switch k.Kind() {
	case reflect.Int, reflect.Int8, reflect.Int16, reflect.Int32, reflect.Int64:
		return fmt.Sprintf("%020d", k.Int()+1<<62)
	case reflect.Uint, reflect.Uint8, reflect.Uint16, reflect.Uint32, reflect.Uint64:
		return fmt.Sprintf("%020d", k.Uint())
	case reflect.String:
		return fmt.Sprintf("%q", k.String())
	}
	return fmt.Sprint(k)
}

// compact renders a method result in one string: exported fields in full depth,
// plus ToBytes()/String() of every library value met on the way.
func compact(v reflect.Value) string {
	var sb strings.Builder
	compactInto(&sb, v, 0)
	return sb.String()
}

func compactInto(sb *strings.Builder, v reflect.Value, depth int) {
	if !v.IsValid() {
		sb.WriteString("<invalid>")
		return
	}
	if depth > maxDepth {
		sb.WriteString("<depth limit>")
		return
	}
	switch v.Kind() {
	case reflect.Interface:
		if v.IsNil() {
			sb.WriteString("nil")
			return
		}
		if v.Type().Name() == "error" && v.Type().PkgPath() == "" {
			if e, ok := v.Interface().(error); ok {
				fmt.Fprintf(sb, "error(%q)", e.Error())
				return
			}
		}
		compactInto(sb, v.Elem(), depth+1)
	case reflect.Ptr:
		if v.IsNil() {
			sb.WriteString("nil")
			return
		}
		sb.WriteString("&")
		e := v.Elem()
		if e.Kind() == reflect.Struct {
			compactStruct(sb, e, v, depth)
		} else {
			compactInto(sb, e, depth+1)
		}
	case reflect.Struct:
		rv := v
		if v.CanAddr() {
			rv = v.Addr()
		}
		compactStruct(sb, v, rv, depth)
	case reflect.Slice, reflect.Array:
		if v.Kind() == reflect.Slice && v.IsNil() {
			sb.WriteString("nil-slice")
			return
		}
		if v.Type().Elem().Kind() == reflect.Uint8 {
			sb.WriteString("hex:" + hexOf(v))
			return
		}
		sb.WriteString("[")
		for i := 0; i < v.Len(); i++ {
			if i > 0 {
				sb.WriteString(" ")
			}
			compactInto(sb, v.Index(i), depth+1)
		}
		sb.WriteString("]")
	case reflect.Map:
		if v.IsNil() {
			sb.WriteString("nil-map")
			return
		}
		keys := v.MapKeys()
		sort.Slice(keys, func(i, j int) bool { return keyString(keys[i]) < keyString(keys[j]) })
		sb.WriteString("map[")
		for i, k := range keys {
			if i > 0 {
				sb.WriteString(" ")
			}
			sb.WriteString(fmt.Sprint(k) + ":")
			compactInto(sb, v.MapIndex(k), depth+1)
		}
		sb.WriteString("]")
	case reflect.String:
		fmt.Fprintf(sb, "%q", v.String())
	case reflect.Bool:
		fmt.Fprint(sb, v.Bool())
	case reflect.Int, reflect.Int8, reflect.Int16, reflect.Int32, reflect.Int64:
		fmt.Fprint(sb, v.Int())
	case reflect.Uint, reflect.Uint8, reflect.Uint16, reflect.Uint32, reflect.Uint64, reflect.Uintptr:
		fmt.Fprint(sb, v.Uint())
	case reflect.Float32, reflect.Float64:
		fmt.Fprint(sb, v.Float())
	default:
		sb.WriteString("<" + v.Kind().String() + ">")
	}
}

// compactStruct: v is the struct, rv the value whose method set is used.
func compactStruct(sb *strings.Builder, v, rv reflect.Value, depth int) {
	t := v.Type()
	sb.WriteString(typeName(t) + "{")
	first := true
	sep := func() {
		if !first {
			sb.WriteString(" ")
		}
		first = false
	}
	if isLib(t) && rv.CanInterface() {
		for _, mi := range printMethods(rv.Type()) {
			name := mi.name
			m := rv.Method(mi.idx)
			var out []reflect.Value
			sep()
			if pv := safely(func() { out = m.Call(nil) }); pv != "" {
				sb.WriteString(name + "()=" + pv)
				continue
			}
			sb.WriteString(name + "()=")
			compactInto(sb, out[0], depth+1)
		}
	}
	for i := 0; i < t.NumField(); i++ {
		f := t.Field(i)
		if f.PkgPath != "" {
			continue
		}
		sep()
		sb.WriteString(f.Name + ":")
		compactInto(sb, v.Field(i), depth+1)
	}
	sb.WriteString("}")
}

// Any is the snapshot of an arbitrary library value (a typed option value, a DUID, a label
// set, an option list): the same rendering as inside V4 / V6.
func Any(v any) string {
	w := &walker{}
	w.walk("", reflect.ValueOf(v), true, 0)
	return w.sb.String()
}
