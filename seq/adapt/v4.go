// Package adapt converts library values into the reference models' shapes.
package adapt

import (
	"bytes"
	"fmt"
	"net"
	"sort"

	"github.com/insomniacslk/dhcp/dhcpv4"
	"verif/seq/ref/v4ref"
)

func ip4(ip net.IP) (out [4]byte, ok bool) {
	if ip == nil {
		return out, true
	}
	v := ip.To4()
	if v == nil {
		return out, false
	}
	copy(out[:], v)
	return out, true
}

// DiffV4 compares a decoded library packet with the reference reading. It
// returns "" when equal, else "field: description" (the field name is stable
// and used in fingerprints).
func DiffV4(l *dhcpv4.DHCPv4, r *v4ref.Packet) (field, desc string) {
	if uint8(l.OpCode) != r.Op {
		return "opcode", fmt.Sprintf("lib %d ref %d", l.OpCode, r.Op)
	}
	if uint16(l.HWType) != uint16(r.HType) {
		return "hwtype", fmt.Sprintf("lib %d ref %d", l.HWType, r.HType)
	}
	if l.HopCount != r.Hops {
		return "hops", fmt.Sprintf("lib %d ref %d", l.HopCount, r.Hops)
	}
	if [4]byte(l.TransactionID) != r.Xid {
		return "xid", fmt.Sprintf("lib %x ref %x", l.TransactionID[:], r.Xid[:])
	}
	if l.NumSeconds != r.Secs {
		return "secs", fmt.Sprintf("lib %d ref %d", l.NumSeconds, r.Secs)
	}
	if l.Flags != r.Flags {
		return "flags", fmt.Sprintf("lib %#x ref %#x", l.Flags, r.Flags)
	}
	for _, f := range []struct {
		n string
		l net.IP
		r [4]byte
	}{{"ciaddr", l.ClientIPAddr, r.CIAddr}, {"yiaddr", l.YourIPAddr, r.YIAddr}, {"siaddr", l.ServerIPAddr, r.SIAddr}, {"giaddr", l.GatewayIPAddr, r.GIAddr}} {
		v, ok := ip4(f.l)
		if !ok || v != f.r {
			return f.n, fmt.Sprintf("lib %v ref %v", f.l, net.IP(f.r[:]))
		}
	}
	if !bytes.Equal(l.ClientHWAddr, r.CHAddr) {
		return "chaddr", fmt.Sprintf("lib %x ref %x", []byte(l.ClientHWAddr), r.CHAddr)
	}
	if l.ServerHostName != r.SName {
		return "sname", fmt.Sprintf("lib %q ref %q", l.ServerHostName, r.SName)
	}
	if l.BootFileName != r.File {
		return "file", fmt.Sprintf("lib %q ref %q", l.BootFileName, r.File)
	}
	return DiffV4Opts(l.Options, r.Opts)
}

// DiffV4Opts compares option maps as sets of (code, bytes); nil == empty value.
func DiffV4Opts(l dhcpv4.Options, r map[uint8][]byte) (field, desc string) {
	if len(l) != len(r) {
		return "options.codes", fmt.Sprintf("lib codes %v ref codes %v", keysL(l), keysR(r))
	}
	for c, rv := range r {
		lv, ok := l[c]
		if !ok {
			return "options.codes", fmt.Sprintf("lib lacks code %d; lib codes %v ref codes %v", c, keysL(l), keysR(r))
		}
		if !bytes.Equal(lv, rv) {
			return "options.value", fmt.Sprintf("code %d: lib %d bytes %s ref %d bytes %s", c, len(lv), short(lv), len(rv), short(rv))
		}
	}
	return "", ""
}

func short(b []byte) string {
	if len(b) <= 24 {
		return fmt.Sprintf("%x", b)
	}
	return fmt.Sprintf("%x…%x", b[:12], b[len(b)-8:])
}

func keysL(l dhcpv4.Options) []int {
	var k []int
	for c := range l {
		k = append(k, int(c))
	}
	sort.Ints(k)
	return k
}
func keysR(l map[uint8][]byte) []int {
	var k []int
	for c := range l {
		k = append(k, int(c))
	}
	sort.Ints(k)
	return k
}
