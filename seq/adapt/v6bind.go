package adapt

// Binding of the reference option table to the source tree under test.
//
// At check time the Go sources of the dhcpv6 package that was *compiled into
// this binary* (located through the file name the runtime records for
// dhcpv6.ParseOption, so a scratch worktree is followed automatically) are
// parsed with go/parser; the case constants of the ParseOption switch and of
// the NTP sub-option switch are extracted and resolved to numbers through the
// package's own const declarations.

import (
	"fmt"
	"go/ast"
	"go/parser"
	"go/token"
	"path/filepath"
	"reflect"
	"runtime"
	"sort"
	"strconv"

	"github.com/insomniacslk/dhcp/dhcpv6"
	"verif/seq/ref/v6ref"
)

// V6OptionTable is what the source tree says the library parses.
type V6OptionTable struct {
	Dir      string            // directory of the dhcpv6 package that was compiled
	Top      []uint16          // codes with a case in ParseOption, ascending
	NTP      []uint16          // codes with a case in parseNTPSuboption, ascending
	TopNames map[uint16]string // code -> constant name
	NTPNames map[uint16]string
	// cross-check: what the source text of ParseOption / parseNTPSuboption lists (nil when the sources no longer have a switch)
	SourceTop, SourceNTP []uint16
	SourceNote           string
}

// V6SourceDir returns the directory holding the dhcpv6 sources compiled into this binary.
func V6SourceDir() string {
	f := runtime.FuncForPC(reflect.ValueOf(dhcpv6.ParseOption).Pointer())
	if f == nil {
		return "/repo/dhcpv6"
	}
	file, _ := f.FileLine(f.Entry())
	return filepath.Dir(file)
}

// ExtractV6OptionTable returns the set of option codes the library under test gives a typed
// reading. The set is measured on the compiled library itself, so it follows any refactoring of
// the parser (switch, table, registry): code k is "parsed" iff ParseOption(k, <empty value>)
// returns an error or a value that is not the generic opaque option - an unknown code is always
// kept verbatim. NTP sub-option codes are probed the same way inside an NTP server option.
// The source-level extraction (case constants of the ParseOption switch) is kept as a
// cross-check where the sources still have that shape; a disagreement is reported in the
// evidence, never as a verdict.
func ExtractV6OptionTable() (*V6OptionTable, error) {
	t := &V6OptionTable{Dir: V6SourceDir(), TopNames: map[uint16]string{}, NTPNames: map[uint16]string{}}
	typed := func(o dhcpv6.Option, err error) bool {
		if err != nil {
			return true
		}
		_, generic := o.(*dhcpv6.OptionGeneric)
		return !generic
	}
	for k := 0; k <= 0xffff; k++ {
		var o dhcpv6.Option
		var err error
		func() {
			defer func() {
				if recover() != nil {
					err = fmt.Errorf("panic")
				}
			}()
			o, err = dhcpv6.ParseOption(dhcpv6.OptionCode(k), []byte{})
		}()
		if typed(o, err) {
			t.Top = append(t.Top, uint16(k))
			t.TopNames[uint16(k)] = dhcpv6.OptionCode(k).String()
		}
	}
	for k := 0; k <= 0xffff; k++ {
		var o dhcpv6.Option
		var err error
		func() {
			defer func() {
				if recover() != nil {
					err = fmt.Errorf("panic")
				}
			}()
			o, err = dhcpv6.ParseOption(dhcpv6.OptionNTPServer, []byte{byte(k >> 8), byte(k), 0, 0})
		}()
		is := err != nil
		if n, ok := o.(*dhcpv6.OptNTPServer); ok && err == nil {
			is = len(n.Suboptions) != 1 || typed(n.Suboptions[0], nil)
		}
		if is {
			t.NTP = append(t.NTP, uint16(k))
			t.NTPNames[uint16(k)] = fmt.Sprintf("NTP sub-option %d", k)
		}
	}
	if len(t.Top) == 0 {
		return nil, fmt.Errorf("ParseOption gives no code a typed reading")
	}
	if st, err := ExtractV6OptionTableFromSource(); err == nil {
		for k, n := range st.TopNames {
			if _, ok := t.TopNames[k]; ok {
				t.TopNames[k] = n
			}
		}
		t.SourceTop, t.SourceNTP = st.Top, st.NTP
	} else {
		t.SourceNote = err.Error()
	}
	return t, nil
}

// ExtractV6OptionTableFromSource parses the sources and returns the switch tables.
func ExtractV6OptionTableFromSource() (*V6OptionTable, error) {
	dir := V6SourceDir()
	fset := token.NewFileSet()
	pkgs, err := parser.ParseDir(fset, dir, nil, 0)
	if err != nil {
		return nil, fmt.Errorf("parse %s: %v", dir, err)
	}
	return v6extractFrom(dir, fset, pkgs)
}

func v6extractFrom(dir string, fset *token.FileSet, pkgs map[string]*ast.Package) (*V6OptionTable, error) {
	pkg, ok := pkgs["dhcpv6"]
	if !ok {
		return nil, fmt.Errorf("package dhcpv6 not found in %s", dir)
	}
	consts := map[string]uint16{}
	var topCases, ntpCases []string
	lit := func(e ast.Expr) (uint16, bool) {
		switch x := e.(type) {
		case *ast.BasicLit:
			if x.Kind == token.INT {
				n, err := strconv.ParseUint(x.Value, 0, 16)
				return uint16(n), err == nil
			}
		case *ast.CallExpr: // OptionCode(3)
			if id, ok := x.Fun.(*ast.Ident); ok && id.Name == "OptionCode" && len(x.Args) == 1 {
				if b, ok := x.Args[0].(*ast.BasicLit); ok && b.Kind == token.INT {
					n, err := strconv.ParseUint(b.Value, 0, 16)
					return uint16(n), err == nil
				}
			}
		}
		return 0, false
	}
	cases := func(fn *ast.FuncDecl) []string {
		var out []string
		ast.Inspect(fn, func(n ast.Node) bool {
			sw, ok := n.(*ast.SwitchStmt)
			if !ok {
				return true
			}
			if id, ok := sw.Tag.(*ast.Ident); !ok || id.Name != "code" {
				return true
			}
			for _, st := range sw.Body.List {
				cc := st.(*ast.CaseClause)
				for _, e := range cc.List {
					switch x := e.(type) {
					case *ast.Ident:
						out = append(out, x.Name)
					case *ast.BasicLit:
						out = append(out, x.Value)
					case *ast.CallExpr:
						if v, ok := lit(x); ok {
							out = append(out, strconv.Itoa(int(v)))
						}
					}
				}
			}
			return false
		})
		return out
	}
	for name, file := range pkg.Files {
		if len(name) > 8 && name[len(name)-8:] == "_test.go" {
			continue
		}
		for _, d := range file.Decls {
			switch x := d.(type) {
			case *ast.GenDecl:
				if x.Tok != token.CONST {
					continue
				}
				for _, s := range x.Specs {
					vs := s.(*ast.ValueSpec)
					isOC := false
					if id, ok := vs.Type.(*ast.Ident); ok && id.Name == "OptionCode" {
						isOC = true
					}
					for i, n := range vs.Names {
						if i >= len(vs.Values) {
							continue
						}
						if _, isCall := vs.Values[i].(*ast.CallExpr); !isOC && !isCall {
							continue
						}
						if v, ok := lit(vs.Values[i]); ok && n.Name != "_" {
							consts[n.Name] = v
						}
					}
				}
			case *ast.FuncDecl:
				if x.Recv != nil {
					continue
				}
				switch x.Name.Name {
				case "ParseOption":
					topCases = cases(x)
				case "parseNTPSuboption":
					ntpCases = cases(x)
				}
			}
		}
	}
	if len(topCases) == 0 {
		return nil, fmt.Errorf("no `switch code` with cases found in ParseOption (%s)", dir)
	}
	t := &V6OptionTable{Dir: dir, TopNames: map[uint16]string{}, NTPNames: map[uint16]string{}}
	resolve := func(l []string, names map[uint16]string) ([]uint16, error) {
		var out []uint16
		for _, n := range l {
			v, ok := consts[n]
			if !ok {
				u, err := strconv.ParseUint(n, 0, 16)
				if err != nil {
					return nil, fmt.Errorf("case constant %s not resolved", n)
				}
				v = uint16(u)
			}
			names[v] = n
			out = append(out, v)
		}
		sort.Slice(out, func(i, j int) bool { return out[i] < out[j] })
		return out, nil
	}
	var err error
	if t.Top, err = resolve(topCases, t.TopNames); err != nil {
		return nil, err
	}
	if t.NTP, err = resolve(ntpCases, t.NTPNames); err != nil {
		return nil, err
	}
	return t, nil
}

// V6Coverage compares the extracted table with the reference decoder's table.
type V6Coverage struct {
	// Uncovered: parsed by the library, unknown to v6ref (coverage gap, reported
	// as uncovered_option_types; such codes are compared as opaque and would
	// show up as tree differences, never as silent passes).
	Uncovered []string
	// Lost: known to v6ref but without a case in the switch (the library treats
	// them as unknown; typed comparison then fails wherever they are exercised).
	Lost []string
}

// CompareV6Tables intersects the source-tree table with v6ref's.
func CompareV6Tables(t *V6OptionTable) V6Coverage {
	var c V6Coverage
	known := map[uint16]bool{}
	for _, k := range v6ref.KnownCodes() {
		known[k] = true
	}
	inTop := map[uint16]bool{}
	for _, k := range t.Top {
		inTop[k] = true
		if !known[k] {
			c.Uncovered = append(c.Uncovered, fmt.Sprintf("%d (%s)", k, t.TopNames[k]))
		}
	}
	for _, k := range v6ref.KnownCodes() {
		if !inTop[k] {
			c.Lost = append(c.Lost, fmt.Sprintf("%d (%s)", k, v6ref.OptionName(k)))
		}
	}
	knownNTP := map[uint16]bool{}
	for _, k := range v6ref.KnownNTPSubCodes() {
		knownNTP[k] = true
	}
	inNTP := map[uint16]bool{}
	for _, k := range t.NTP {
		inNTP[k] = true
		if !knownNTP[k] {
			c.Uncovered = append(c.Uncovered, fmt.Sprintf("NTP sub-option %d (%s)", k, t.NTPNames[k]))
		}
	}
	for _, k := range v6ref.KnownNTPSubCodes() {
		if !inNTP[k] {
			c.Lost = append(c.Lost, fmt.Sprintf("NTP sub-option %d", k))
		}
	}
	return c
}
