package adapt

// Library DHCPv6 value → v6ref value tree.
//
// The v6adapter reads *values* (exported fields, or unexported leaf fields through
// reflect without Interface()); it never calls ToBytes/FromBytes of the library.
// It dispatches on the Go type of each option, not on its code, so that a
// library that decodes a code into the wrong type (or stops decoding it and
// returns OptionGeneric) produces a tree that differs from the reference.
//
// Normalisations (the ones the property statements allow):
//   - nil ≡ empty for byte strings and lists;
//   - durations are rendered in whole seconds (elapsed time: whole 10 ms units);
//     a non-zero remainder is kept as an extra field so it cannot go unnoticed;
//   - a nil IA prefix ≡ ::/0 (length 0, all-zero address); a nil address ≡ ::;
//     a 4-byte address ≡ its IPv4-mapped 16-byte form;
//   - V6Opts.DedupORO: requested-option codes compared modulo removal of repeated
//     codes (C06 statement). Off by default.
//
// An option type the v6adapter does not know is returned as a node named
// "UNADAPTED:<Go type>" (see V6Unadapted), never silently skipped.

import (
	"fmt"
	"net"
	"reflect"
	"sort"
	"strings"
	"time"

	"github.com/insomniacslk/dhcp/dhcpv4"
	"github.com/insomniacslk/dhcp/dhcpv6"
	"github.com/insomniacslk/dhcp/iana"
	"github.com/insomniacslk/dhcp/rfc1035label"
	"verif/seq/ref/v6ref"
)

// V6Opts selects optional normalisations.
type V6Opts struct {
	// DedupORO removes repeated requested-option codes (first occurrence kept).
	DedupORO bool
}

// UnadaptedPrefix starts the Name of a node whose Go type the v6adapter does not know.
const UnadaptedPrefix = "UNADAPTED:"

// TreeOfMessage converts a library message (built or decoded) to the reference shape.
func TreeOfMessage(d dhcpv6.DHCPv6) *v6ref.Msg { return TreeOfMessageWith(d, V6Opts{}) }

// TreeOfOption converts one library option to the reference shape.
func TreeOfOption(o dhcpv6.Option) *v6ref.Node { return TreeOfOptionWith(o, V6Opts{}) }

func TreeOfMessageWith(d dhcpv6.DHCPv6, o V6Opts) *v6ref.Msg {
	a := v6adapter{o}
	return a.message(d)
}

func TreeOfOptionWith(op dhcpv6.Option, o V6Opts) *v6ref.Node {
	a := v6adapter{o}
	return a.option(op, v6spaceTop)
}

// TreeOfOptions converts an option list (top-level code space).
func TreeOfOptions(l dhcpv6.Options, o V6Opts) []*v6ref.Node {
	a := v6adapter{o}
	return a.list(l, v6spaceTop)
}

// V6Unadapted lists the distinct "UNADAPTED:<type>" names in a tree.
func V6Unadapted(m *v6ref.Msg) []string {
	set := map[string]bool{}
	v6ref.Walk(m, func(n *v6ref.Node) {
		if strings.HasPrefix(n.Name, UnadaptedPrefix) {
			set[n.Name] = true
		}
	})
	out := make([]string, 0, len(set))
	for k := range set {
		out = append(out, k)
	}
	sort.Strings(out)
	return out
}

const (
	v6spaceTop = iota
	v6spaceNTP
)

type v6adapter struct{ o V6Opts }

type v6F = v6ref.Field

func (a *v6adapter) message(d dhcpv6.DHCPv6) *v6ref.Msg {
	switch m := d.(type) {
	case nil:
		return nil
	case *dhcpv6.Message:
		if m == nil {
			return nil
		}
		return &v6ref.Msg{Type: uint8(m.MessageType), Xid: [3]byte(m.TransactionID), Options: a.list(m.Options.Options, v6spaceTop)}
	case *dhcpv6.RelayMessage:
		if m == nil {
			return nil
		}
		out := &v6ref.Msg{Relay: true, Type: uint8(m.MessageType), Hop: m.HopCount, Options: a.list(m.Options.Options, v6spaceTop)}
		copy(out.Link[:], v6ip16(m.LinkAddr))
		copy(out.Peer[:], v6ip16(m.PeerAddr))
		if len(v6ip16(m.LinkAddr)) != 16 || len(v6ip16(m.PeerAddr)) != 16 {
			out.Options = append(out.Options, &v6ref.Node{Name: UnadaptedPrefix + "relay address of invalid length"})
		}
		return out
	}
	return &v6ref.Msg{Type: 0xff, Options: []*v6ref.Node{{Name: UnadaptedPrefix + fmt.Sprintf("%T", d)}}}
}

func (a *v6adapter) list(l dhcpv6.Options, space int) []*v6ref.Node {
	out := make([]*v6ref.Node, 0, len(l))
	for _, o := range l {
		out = append(out, a.option(o, space))
	}
	return out
}

// ip16: nil → ::, 4-byte → IPv4-mapped, 16-byte as is; any other length is
// returned unchanged (and then differs from every reference value).
func v6ip16(ip net.IP) []byte {
	switch len(ip) {
	case 0:
		return make([]byte, 16)
	case 4:
		return []byte{0, 0, 0, 0, 0, 0, 0, 0, 0, 0, 0xff, 0xff, ip[0], ip[1], ip[2], ip[3]}
	}
	return append([]byte{}, ip...)
}

func v6ip4(ip net.IP) []byte {
	switch len(ip) {
	case 0:
		return make([]byte, 4)
	case 16:
		if v := ip.To4(); v != nil {
			return append([]byte{}, v...)
		}
	}
	return append([]byte{}, ip...)
}

func v6bs(b []byte) []byte { return append([]byte{}, b...) }

// seconds renders a duration in whole units; a remainder becomes an extra field.
func v6dur(name string, d time.Duration, unit time.Duration) []v6F {
	f := []v6F{{Name: name, Val: uint64(d / unit)}}
	if d%unit != 0 || d < 0 {
		f = append(f, v6F{Name: name + ".remainder", Val: fmt.Sprint(d)})
	}
	return f
}

func v6joinF(parts ...[]v6F) []v6F {
	var out []v6F
	for _, p := range parts {
		out = append(out, p...)
	}
	return out
}

func v6strs(l [][]byte) []string {
	out := make([]string, 0, len(l))
	for _, x := range l {
		out = append(out, string(x))
	}
	return out
}

func v6labels(l *rfc1035label.Labels) []string {
	if l == nil {
		return []string{"<nil Labels>"}
	}
	return append([]string{}, l.Labels...)
}

func (a *v6adapter) codes(l dhcpv6.OptionCodes) []uint16 {
	out := make([]uint16, 0, len(l))
	seen := map[uint16]bool{}
	for _, c := range l {
		if a.o.DedupORO {
			if seen[uint16(c)] {
				continue
			}
			seen[uint16(c)] = true
		}
		out = append(out, uint16(c))
	}
	return out
}

func v6name(code uint16) string { return v6ref.OptionName(code) }

func v6node(o dhcpv6.Option, typeCode uint16, f []v6F) *v6ref.Node {
	return &v6ref.Node{Code: uint16(o.Code()), Name: v6name(typeCode), Fields: f}
}

// prefixFields renders an IP network as (length, address); a mask that is not
// a canonical CIDR mask of the right width is flagged.
func v6plen(m net.IPMask, bits int) (uint64, bool) {
	ones, b := m.Size()
	return uint64(ones), b == bits
}

func (a *v6adapter) option(o dhcpv6.Option, space int) *v6ref.Node {
	if o == nil || (reflect.ValueOf(o).Kind() == reflect.Ptr && reflect.ValueOf(o).IsNil()) {
		return &v6ref.Node{Name: UnadaptedPrefix + fmt.Sprintf("nil %T", o)}
	}
	switch x := o.(type) {
	case *dhcpv6.OptionGeneric:
		return &v6ref.Node{Code: uint16(x.OptionCode), Name: v6ref.NameOpaque, Fields: []v6F{{Name: "Data", Val: v6bs(x.OptionData)}}}
	case *dhcpv6.OptIANA:
		n := v6node(o, v6ref.CodeIANA, v6joinF([]v6F{{Name: "IAID", Val: v6bs(x.IaId[:])}}, v6dur("T1", x.T1, time.Second), v6dur("T2", x.T2, time.Second)))
		n.Children = a.list(x.Options.Options, v6spaceTop)
		return n
	case *dhcpv6.OptIAPD:
		n := v6node(o, v6ref.CodeIAPD, v6joinF([]v6F{{Name: "IAID", Val: v6bs(x.IaId[:])}}, v6dur("T1", x.T1, time.Second), v6dur("T2", x.T2, time.Second)))
		n.Children = a.list(x.Options.Options, v6spaceTop)
		return n
	case *dhcpv6.OptIATA:
		n := v6node(o, v6ref.CodeIATA, []v6F{{Name: "IAID", Val: v6bs(x.IaId[:])}})
		n.Children = a.list(x.Options.Options, v6spaceTop)
		return n
	case *dhcpv6.OptIAAddress:
		n := v6node(o, v6ref.CodeIAAddr, v6joinF([]v6F{{Name: "Addr", Val: v6ip16(x.IPv6Addr)}}, v6dur("Preferred", x.PreferredLifetime, time.Second), v6dur("Valid", x.ValidLifetime, time.Second)))
		n.Children = a.list(x.Options.Options, v6spaceTop)
		return n
	case *dhcpv6.OptIAPrefix:
		f := v6joinF(v6dur("Preferred", x.PreferredLifetime, time.Second), v6dur("Valid", x.ValidLifetime, time.Second))
		if x.Prefix == nil {
			f = append(f, v6F{Name: "PrefixLen", Val: uint64(0)}, v6F{Name: "Prefix", Val: make([]byte, 16)})
		} else {
			l, ok := v6plen(x.Prefix.Mask, 128)
			f = append(f, v6F{Name: "PrefixLen", Val: l}, v6F{Name: "Prefix", Val: v6ip16(x.Prefix.IP)})
			if !ok {
				f = append(f, v6F{Name: "MaskInvalid", Val: true})
			}
		}
		n := v6node(o, v6ref.CodeIAPrefix, f)
		n.Children = a.list(x.Options.Options, v6spaceTop)
		return n
	case *dhcpv6.OptStatusCode:
		return v6node(o, v6ref.CodeStatus, []v6F{{Name: "Status", Val: uint64(x.StatusCode)}, {Name: "Message", Val: x.StatusMessage}})
	case *dhcpv6.OptUserClass:
		return v6node(o, v6ref.CodeUserClass, []v6F{{Name: "Items", Val: v6strs(x.UserClasses)}})
	case *dhcpv6.OptVendorClass:
		return v6node(o, v6ref.CodeVendorClass, []v6F{{Name: "Enterprise", Val: uint64(x.EnterpriseNumber)}, {Name: "Items", Val: v6strs(x.Data)}})
	case *dhcpv6.OptVendorOpts:
		n := v6node(o, v6ref.CodeVendorOpts, []v6F{{Name: "Enterprise", Val: uint64(x.EnterpriseNumber)}})
		n.Children = a.list(x.VendorOpts, v6spaceTop) // sub-options must be OptionGeneric to compare equal
		return n
	case *dhcpv6.OptRemoteID:
		return v6node(o, v6ref.CodeRemoteID, []v6F{{Name: "Enterprise", Val: uint64(x.EnterpriseNumber)}, {Name: "ID", Val: v6bs(x.RemoteID)}})
	case *dhcpv6.OptFQDN:
		return v6node(o, v6ref.CodeFQDN, []v6F{{Name: "Flags", Val: uint64(x.Flags)}, {Name: "Names", Val: v6labels(x.DomainName)}})
	case *dhcpv6.OptNTPServer:
		n := v6node(o, v6ref.CodeNTP, nil)
		n.Children = a.list(x.Suboptions, v6spaceNTP)
		return n
	case *dhcpv6.NTPSuboptionSrvAddr:
		return &v6ref.Node{Code: uint16(o.Code()), Name: v6ref.NameNTPSrvAddr, Fields: []v6F{{Name: "Addr", Val: v6ip16(net.IP(*x))}}}
	case *dhcpv6.NTPSuboptionMCAddr:
		return &v6ref.Node{Code: uint16(o.Code()), Name: v6ref.NameNTPMCAddr, Fields: []v6F{{Name: "Addr", Val: v6ip16(net.IP(*x))}}}
	case *dhcpv6.NTPSuboptionSrvFQDN:
		return &v6ref.Node{Code: uint16(o.Code()), Name: v6ref.NameNTPSrvFQDN, Fields: []v6F{{Name: "Names", Val: append([]string{}, x.Labels.Labels...)}}}
	case *dhcpv6.OptNetworkInterfaceID:
		return v6node(o, v6ref.CodeNII, []v6F{{Name: "Type", Val: uint64(x.Typ)}, {Name: "Major", Val: uint64(x.Major)}, {Name: "Minor", Val: uint64(x.Minor)}})
	case *dhcpv6.OptDHCPv4Msg:
		n := v6node(o, v6ref.CodeDHCPv4Msg, nil)
		if x.Msg == nil {
			n.Fields = []v6F{{Name: "nil DHCPv4 message", Val: true}}
			return n
		}
		n.Fields, n.Children = V4TreeOf(x.Msg)
		return n
	case *dhcpv6.OptDHCP4oDHCP6Server:
		return v6node(o, v6ref.CodeDHCP4o6Srv, []v6F{{Name: "Addrs", Val: v6ipList(x.DHCP4oDHCP6Servers)}})
	case *dhcpv6.Opt4RD:
		n := v6node(o, v6ref.Code4RD, nil)
		n.Children = a.list(x.Options, v6spaceTop)
		return n
	case *dhcpv6.Opt4RDMapRule:
		l4, ok4 := v6plen(x.Prefix4.Mask, 32)
		l6, ok6 := v6plen(x.Prefix6.Mask, 128)
		f := []v6F{{Name: "Prefix4Len", Val: l4}, {Name: "Prefix6Len", Val: l6}, {Name: "EALen", Val: uint64(x.EABitsLength)},
			{Name: "WKP", Val: x.WKPAuthorized}, {Name: "Prefix4", Val: v6ip4(x.Prefix4.IP)}, {Name: "Prefix6", Val: v6ip16(x.Prefix6.IP)}}
		if !ok4 || !ok6 {
			f = append(f, v6F{Name: "MaskInvalid", Val: true})
		}
		return v6node(o, v6ref.Code4RDMap, f)
	case *dhcpv6.Opt4RDNonMapRule:
		tc := uint64(0)
		if x.TrafficClass != nil {
			tc = uint64(*x.TrafficClass)
		}
		return v6node(o, v6ref.Code4RDNonMap, []v6F{{Name: "HubAndSpoke", Val: x.HubAndSpoke}, {Name: "HasTClass", Val: x.TrafficClass != nil},
			{Name: "TClass", Val: tc}, {Name: "PMTU", Val: uint64(x.DomainPMTU)}})
	}
	return a.unexported(o)
}

func v6ipList(l []net.IP) []byte {
	out := []byte{}
	for _, ip := range l {
		out = append(out, v6ip16(ip)...)
	}
	return out
}

const v6pkg = "github.com/insomniacslk/dhcp/dhcpv6"

// unexported handles the option types the library does not export, by type name.
func (a *v6adapter) unexported(o dhcpv6.Option) *v6ref.Node {
	rv := reflect.Indirect(reflect.ValueOf(o))
	t := rv.Type()
	un := &v6ref.Node{Code: uint16(o.Code()), Name: UnadaptedPrefix + fmt.Sprintf("%T", o)}
	if t.PkgPath() != v6pkg || t.Kind() != reflect.Struct {
		return un
	}
	if n := a.unexportedByName(o, rv, t, un); n != un {
		return n
	}
	// the type or one of its fields was renamed: read the value through the exported typed getters
	// (they assert on the concrete type themselves), or through the only field of the expected kind
	if n := a.unexportedByGetter(o, rv); n != nil {
		return n
	}
	return un
}

// unexportedByGetter reads an option of an unexported type through the exported accessors of
// MessageOptions / RelayOptions applied to a one-element list. nil if the code has no accessor
// or the accessor does not recognise the value.
func (a *v6adapter) unexportedByGetter(o dhcpv6.Option, rv reflect.Value) *v6ref.Node {
	mo := dhcpv6.MessageOptions{Options: dhcpv6.Options{o}}
	ro := dhcpv6.RelayOptions{Options: dhcpv6.Options{o}}
	onlyField := func(k reflect.Kind) (reflect.Value, bool) {
		var f reflect.Value
		n := 0
		for i := 0; i < rv.NumField(); i++ {
			if rv.Field(i).Kind() == k {
				f = rv.Field(i)
				n++
			}
		}
		return f, n == 1
	}
	switch uint16(o.Code()) {
	case v6ref.CodeClientID, v6ref.CodeServerID:
		d := mo.ClientID()
		if uint16(o.Code()) == v6ref.CodeServerID {
			d = mo.ServerID()
		}
		if df, ok := v6duid(d); ok {
			return v6node(o, uint16(o.Code()), df)
		}
	case v6ref.CodeORO:
		// an empty list and an unrecognised option both give nil: only trust a non-empty answer or a struct holding one slice
		if l := mo.RequestedOptions(); l != nil {
			return v6node(o, v6ref.CodeORO, []v6F{{Name: "Codes", Val: a.codes(l)}})
		}
		if f, ok := onlyField(reflect.Slice); ok && f.Len() == 0 {
			return v6node(o, v6ref.CodeORO, []v6F{{Name: "Codes", Val: []uint16{}}})
		}
	case v6ref.CodeElapsed:
		if f, ok := onlyField(reflect.Int64); ok {
			return v6node(o, v6ref.CodeElapsed, v6dur("Centis", time.Duration(f.Int()), 10*time.Millisecond))
		}
	case v6ref.CodeRelayMsg:
		if f, ok := onlyField(reflect.Interface); ok && f.IsNil() {
			n := v6node(o, v6ref.CodeRelayMsg, nil)
			return n
		}
		if inner := ro.RelayMessage(); inner != nil {
			n := v6node(o, v6ref.CodeRelayMsg, nil)
			n.Inner = a.message(inner)
			return n
		}
	case v6ref.CodeInterfaceID:
		if f, ok := onlyField(reflect.Slice); ok && f.Type().Elem().Kind() == reflect.Uint8 {
			return v6node(o, v6ref.CodeInterfaceID, []v6F{{Name: "ID", Val: v6bs(f.Bytes())}})
		}
	case v6ref.CodeDNS:
		if f, ok := onlyField(reflect.Slice); ok {
			if l := mo.DNS(); len(l) == f.Len() {
				return v6node(o, v6ref.CodeDNS, []v6F{{Name: "Addrs", Val: v6ipList(l)}})
			}
		}
	case v6ref.CodeDomainList:
		if l := mo.DomainSearchList(); l != nil {
			return v6node(o, v6ref.CodeDomainList, []v6F{{Name: "Names", Val: v6labels(l)}})
		}
	case v6ref.CodeInfoRefresh:
		if f, ok := onlyField(reflect.Int64); ok {
			return v6node(o, v6ref.CodeInfoRefresh, v6dur("Seconds", time.Duration(f.Int()), time.Second))
		}
	case v6ref.CodeBootURL:
		if f, ok := onlyField(reflect.String); ok {
			return v6node(o, v6ref.CodeBootURL, []v6F{{Name: "URL", Val: f.String()}})
		}
	case v6ref.CodeBootParam:
		if f, ok := onlyField(reflect.Slice); ok && f.Type().Elem().Kind() == reflect.String {
			l := make([]string, 0, f.Len())
			for i := 0; i < f.Len(); i++ {
				l = append(l, f.Index(i).String())
			}
			return v6node(o, v6ref.CodeBootParam, []v6F{{Name: "Params", Val: l}})
		}
	case v6ref.CodeClientArch:
		if f, ok := onlyField(reflect.Slice); ok {
			if l := mo.ArchTypes(); len(l) == f.Len() {
				out := make([]uint16, 0, len(l))
				for _, x := range l {
					out = append(out, uint16(x))
				}
				return v6node(o, v6ref.CodeClientArch, []v6F{{Name: "Archs", Val: out}})
			}
		}
	case v6ref.CodeClientLLAddr:
		if f, ok := onlyField(reflect.Slice); ok && f.Type().Elem().Kind() == reflect.Uint8 {
			ht, la := ro.ClientLinkLayerAddress()
			if len(la) == f.Len() {
				return v6node(o, v6ref.CodeClientLLAddr, []v6F{{Name: "HWType", Val: uint64(ht)}, {Name: "LLAddr", Val: v6bs(la)}})
			}
		}
	case v6ref.CodeRelayPort:
		if f, ok := onlyField(reflect.Uint16); ok {
			return v6node(o, v6ref.CodeRelayPort, []v6F{{Name: "Port", Val: f.Uint()}})
		}
	}
	return nil
}

func (a *v6adapter) unexportedByName(o dhcpv6.Option, rv reflect.Value, t reflect.Type, un *v6ref.Node) *v6ref.Node {
	field := func(n string) (reflect.Value, bool) {
		f := rv.FieldByName(n)
		return f, f.IsValid()
	}
	switch t.Name() {
	case "optClientID", "optServerID":
		f, ok := field("DUID")
		if !ok || !f.CanInterface() {
			return un
		}
		code := uint16(v6ref.CodeClientID)
		if t.Name() == "optServerID" {
			code = v6ref.CodeServerID
		}
		d, _ := f.Interface().(dhcpv6.DUID)
		df, ok := v6duid(d)
		if !ok {
			un.Name = UnadaptedPrefix + fmt.Sprintf("%T in %T", d, o)
			return un
		}
		return v6node(o, code, df)
	case "optRequestedOption":
		f, ok := field("OptionCodes")
		if !ok || !f.CanInterface() {
			return un
		}
		l, _ := f.Interface().(dhcpv6.OptionCodes)
		return v6node(o, v6ref.CodeORO, []v6F{{Name: "Codes", Val: a.codes(l)}})
	case "optElapsedTime":
		f, ok := field("ElapsedTime")
		if !ok || f.Kind() != reflect.Int64 {
			return un
		}
		return v6node(o, v6ref.CodeElapsed, v6dur("Centis", time.Duration(f.Int()), 10*time.Millisecond))
	case "optRelayMsg":
		f, ok := field("Msg")
		if !ok || !f.CanInterface() {
			return un
		}
		n := v6node(o, v6ref.CodeRelayMsg, nil)
		inner, _ := f.Interface().(dhcpv6.DHCPv6)
		n.Inner = a.message(inner)
		return n
	case "optInterfaceID":
		f, ok := field("ID")
		if !ok || f.Kind() != reflect.Slice {
			return un
		}
		return v6node(o, v6ref.CodeInterfaceID, []v6F{{Name: "ID", Val: v6bs(f.Bytes())}})
	case "optDNS":
		f, ok := field("NameServers")
		if !ok || !f.CanInterface() {
			return un
		}
		l, _ := f.Interface().([]net.IP)
		return v6node(o, v6ref.CodeDNS, []v6F{{Name: "Addrs", Val: v6ipList(l)}})
	case "optDomainSearchList":
		f, ok := field("DomainSearchList")
		if !ok || !f.CanInterface() {
			return un
		}
		l, _ := f.Interface().(*rfc1035label.Labels)
		return v6node(o, v6ref.CodeDomainList, []v6F{{Name: "Names", Val: v6labels(l)}})
	case "optInformationRefreshTime":
		f, ok := field("InformationRefreshtime")
		if !ok || f.Kind() != reflect.Int64 {
			return un
		}
		return v6node(o, v6ref.CodeInfoRefresh, v6dur("Seconds", time.Duration(f.Int()), time.Second))
	case "optBootFileURL":
		f, ok := field("url")
		if !ok || f.Kind() != reflect.String {
			return un
		}
		return v6node(o, v6ref.CodeBootURL, []v6F{{Name: "URL", Val: f.String()}})
	case "optBootFileParam":
		f, ok := field("params")
		if !ok || f.Kind() != reflect.Slice {
			return un
		}
		l := make([]string, 0, f.Len())
		for i := 0; i < f.Len(); i++ {
			l = append(l, f.Index(i).String())
		}
		return v6node(o, v6ref.CodeBootParam, []v6F{{Name: "Params", Val: l}})
	case "optClientArchType":
		f, ok := field("Archs")
		if !ok || !f.CanInterface() {
			return un
		}
		l, _ := f.Interface().(iana.Archs)
		out := make([]uint16, 0, len(l))
		for _, x := range l {
			out = append(out, uint16(x))
		}
		return v6node(o, v6ref.CodeClientArch, []v6F{{Name: "Archs", Val: out}})
	case "optClientLinkLayerAddress":
		ht, ok1 := field("LinkLayerType")
		la, ok2 := field("LinkLayerAddress")
		if !ok1 || !ok2 || la.Kind() != reflect.Slice {
			return un
		}
		return v6node(o, v6ref.CodeClientLLAddr, []v6F{{Name: "HWType", Val: ht.Uint()}, {Name: "LLAddr", Val: v6bs(la.Bytes())}})
	case "optRelayPort":
		f, ok := field("DownstreamSourcePort")
		if !ok || f.Kind() != reflect.Uint16 {
			return un
		}
		return v6node(o, v6ref.CodeRelayPort, []v6F{{Name: "Port", Val: f.Uint()}})
	}
	return un
}

func v6duid(d dhcpv6.DUID) ([]v6F, bool) {
	switch x := d.(type) {
	case *dhcpv6.DUIDLLT:
		return []v6F{{Name: "DUIDType", Val: uint64(1)}, {Name: "HWType", Val: uint64(x.HWType)}, {Name: "Time", Val: uint64(x.Time)}, {Name: "LLAddr", Val: v6bs(x.LinkLayerAddr)}}, true
	case *dhcpv6.DUIDEN:
		return []v6F{{Name: "DUIDType", Val: uint64(2)}, {Name: "Enterprise", Val: uint64(x.EnterpriseNumber)}, {Name: "ID", Val: v6bs(x.EnterpriseIdentifier)}}, true
	case *dhcpv6.DUIDLL:
		return []v6F{{Name: "DUIDType", Val: uint64(3)}, {Name: "HWType", Val: uint64(x.HWType)}, {Name: "LLAddr", Val: v6bs(x.LinkLayerAddr)}}, true
	case *dhcpv6.DUIDUUID:
		return []v6F{{Name: "DUIDType", Val: uint64(4)}, {Name: "UUID", Val: v6bs(x.UUID[:])}}, true
	case *dhcpv6.DUIDOpaque:
		return []v6F{{Name: "DUIDType", Val: uint64(x.Type)}, {Name: "Data", Val: v6bs(x.Data)}}, true
	}
	return nil, false
}

// V4TreeOf renders a library DHCPv4 packet in the shape of v6ref.V4Tree.
func V4TreeOf(p *dhcpv4.DHCPv4) ([]v6F, []*v6ref.Node) {
	f := []v6F{
		{Name: "Op", Val: uint64(p.OpCode)}, {Name: "HType", Val: uint64(p.HWType)}, {Name: "Hops", Val: uint64(p.HopCount)}, {Name: "Xid", Val: v6bs(p.TransactionID[:])},
		{Name: "Secs", Val: uint64(p.NumSeconds)}, {Name: "Flags", Val: uint64(p.Flags)},
		{Name: "CIAddr", Val: v6ip4(p.ClientIPAddr)}, {Name: "YIAddr", Val: v6ip4(p.YourIPAddr)}, {Name: "SIAddr", Val: v6ip4(p.ServerIPAddr)}, {Name: "GIAddr", Val: v6ip4(p.GatewayIPAddr)},
		{Name: "CHAddr", Val: v6bs(p.ClientHWAddr)}, {Name: "SName", Val: p.ServerHostName}, {Name: "File", Val: p.BootFileName},
	}
	codes := make([]int, 0, len(p.Options))
	for c := range p.Options {
		codes = append(codes, int(c))
	}
	sort.Ints(codes)
	ch := make([]*v6ref.Node, 0, len(codes))
	for _, c := range codes {
		ch = append(ch, &v6ref.Node{Code: uint16(c), Name: v6ref.NameV4Option, Fields: []v6F{{Name: "Data", Val: v6bs(p.Options[uint8(c)])}}})
	}
	return f, ch
}
