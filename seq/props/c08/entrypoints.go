package c08

// Other decoding entry points. dhcpv4.FromBytes / dhcpv6.FromBytes are not the only way bytes
// become values: the clients use MessageFromBytes, relays decode single options and option lists,
// and every option value type has an exported FromBytes. Ownership must hold for each of them
// (a private copy taken in one entry point only is exactly the kind of change this catches).

import (
	"fmt"
	"reflect"
	"sort"

	"github.com/insomniacslk/dhcp/dhcpv4"
	"github.com/insomniacslk/dhcp/dhcpv6"
	"github.com/insomniacslk/dhcp/rfc1035label"
	"verif/seq/corpus6"
	"verif/seq/fw"
	"verif/seq/props/c03"
)

var (
	epMessage = &entryPoint{name: "dhcpv6.MessageFromBytes", goStmt: "\tv, err := dhcpv6.MessageFromBytes(buf)",
		decode: func(b []byte) (any, error) { return dhcpv6.MessageFromBytes(b) }}
	epRelay = &entryPoint{name: "dhcpv6.RelayMessageFromBytes", goStmt: "\tv, err := dhcpv6.RelayMessageFromBytes(buf)",
		decode: func(b []byte) (any, error) { return dhcpv6.RelayMessageFromBytes(b) }}
	epOptions6 = &entryPoint{name: "dhcpv6.Options.FromBytes", goStmt: "\tv := new(dhcpv6.Options)\n\terr := v.FromBytes(buf)",
		decode: func(b []byte) (any, error) { o := new(dhcpv6.Options); return o, o.FromBytes(b) }}
	epOptions4 = &entryPoint{name: "dhcpv4.Options.FromBytes", goStmt: "\tv := make(dhcpv4.Options)\n\terr := v.FromBytes(buf)",
		decode: func(b []byte) (any, error) { o := make(dhcpv4.Options); return o, o.FromBytes(b) }}
	epRelayOptions4 = &entryPoint{name: "dhcpv4.RelayOptions.FromBytes", goStmt: "\tv := new(dhcpv4.RelayOptions)\n\terr := v.FromBytes(buf)",
		decode: func(b []byte) (any, error) { o := new(dhcpv4.RelayOptions); return o, o.FromBytes(b) }}
	epDUID = &entryPoint{name: "dhcpv6.DUIDFromBytes", goStmt: "\tv, err := dhcpv6.DUIDFromBytes(buf)",
		decode: func(b []byte) (any, error) { return dhcpv6.DUIDFromBytes(b) }}
	epLabels = &entryPoint{name: "rfc1035label.FromBytes", goStmt: "\tv, err := rfc1035label.FromBytes(buf)",
		decode: func(b []byte) (any, error) { return rfc1035label.FromBytes(b) }}
)

func epParseOption(code uint16) *entryPoint {
	return &entryPoint{name: fmt.Sprintf("dhcpv6.ParseOption(%d)", code), goStmt: fmt.Sprintf("\tv, err := dhcpv6.ParseOption(%d, buf)", code),
		decode: func(b []byte) (any, error) { return dhcpv6.ParseOption(dhcpv6.OptionCode(code), b) }}
}

var bytesToErr = reflect.TypeOf(func([]byte) error { return nil })

func epTyped(t c03.TypedDecoder) *entryPoint {
	return &entryPoint{name: t.Name + ".FromBytes", goStmt: "\tv := " + t.Expr + "\n\terr := v.FromBytes(buf)",
		decode: func(b []byte) (any, error) {
			p := t.New()
			m := reflect.ValueOf(p).MethodByName("FromBytes")
			if !m.IsValid() || m.Type() != bytesToErr {
				return nil, fmt.Errorf("no FromBytes([]byte) error")
			}
			if e := m.Call([]reflect.Value{reflect.ValueOf(b)})[0]; !e.IsNil() {
				return nil, e.Interface().(error)
			}
			return p, nil
		}}
}

// entryPointCorpus derives inputs for the other entry points from the packet corpus and from
// the option instances: whole messages through the message-level decoders, option areas through
// the list decoders, every corpus6 instance value through ParseOption, and a pool of value
// strings (every instance value, every DHCPv4 option value of the accessor packets, DUIDs, name
// lists) offered to every typed decoder - a (type, string) pair becomes an input when the type
// accepts the string; the longest accepted strings are kept per type (aliasing needs bytes to alias).
func entryPointCorpus(packets []Input) []Input {
	var out []Input
	seen := map[string]bool{}
	add := func(ep *entryPoint, name string, b []byte, v6 bool) {
		k := ep.name + "|" + string(b)
		if seen[k] || len(b) == 0 {
			return
		}
		seen[k] = true
		out = append(out, Input{Name: name + " via " + ep.name, V6: v6, B: b, EP: ep})
	}
	// whole DHCPv6 messages and their option areas; DHCPv4 option areas
	for i, in := range packets {
		if in.V6 && len(in.B) >= 4 {
			relay := in.B[0] == 12 || in.B[0] == 13
			if relay {
				if i%2 == 0 {
					add(epRelay, in.Name, in.B, true)
				}
				if len(in.B) > 34 && i%4 == 1 {
					add(epOptions6, in.Name, in.B[34:], true)
				}
			} else {
				if i%2 == 0 {
					add(epMessage, in.Name, in.B, true)
				}
				if i%4 == 1 {
					add(epOptions6, in.Name, in.B[4:], true)
				}
			}
		}
		if !in.V6 && len(in.B) > 240 {
			add(epOptions4, in.Name, in.B[240:], false)
		}
	}
	// single options
	pool := map[string][]byte{}
	for _, in := range corpus6.Instances() {
		var val []byte
		if pv, _ := fw.Safe(func() { val = in.Build().ToBytes() }); pv != nil {
			continue
		}
		add(epParseOption(in.Code), in.Name, val, true)
		pool["v6:"+in.Name] = val
		if in.Code == 1 || in.Code == 2 {
			add(epDUID, in.Name, val, true)
		}
		if in.Code == 24 {
			add(epLabels, in.Name, val, true)
		}
	}
	for _, in := range corpus6.NTPSubInstances() {
		var val []byte
		if pv, _ := fw.Safe(func() { val = in.Build().ToBytes() }); pv == nil {
			pool["ntp:"+in.Name] = val
		}
	}
	for _, in := range V4Accessors() {
		if p, err := dhcpv4.FromBytes(in.B); err == nil {
			for code, v := range p.Options {
				pool[fmt.Sprintf("v4:%s/opt%d", in.Name, code)] = append([]byte(nil), v...)
				if code == 82 {
					add(epRelayOptions4, in.Name, append([]byte(nil), v...), false)
				}
			}
		}
	}
	pool["relay-agent-info(repeated sub-option)"] = []byte{1, 3, 'a', 'b', 'c', 2, 2, 'd', 'e', 1, 2, 'f', 'g'}
	add(epRelayOptions4, "relay-agent-info(repeated sub-option)", pool["relay-agent-info(repeated sub-option)"], false)
	names := make([]string, 0, len(pool))
	for k := range pool {
		names = append(names, k)
	}
	sort.Slice(names, func(i, j int) bool {
		if len(pool[names[i]]) != len(pool[names[j]]) {
			return len(pool[names[i]]) > len(pool[names[j]])
		}
		return names[i] < names[j]
	})
	const perType = 10
	for _, t := range c03.TypedDecoders() {
		ep := epTyped(t)
		kept := 0
		for _, n := range names {
			if kept >= perType {
				break
			}
			b := pool[n]
			if len(b) == 0 || len(b) > 600 {
				continue
			}
			ok := false
			fw.Safe(func() { _, err := ep.decode(append([]byte(nil), b...)); ok = err == nil })
			if ok {
				before := len(out)
				add(ep, n, b, false)
				if len(out) > before {
					kept++
				}
			}
		}
	}
	return out
}
