// Package c08: decoded messages own their memory; encoded output is a fresh
// buffer.
//
// Every accepted corpus input × overwrite pattern × history:
//
//	H1  buf := copy(input); m := decode(buf); s0 := snap(m);
//	    overwrite buf with the pattern;            snap(m) must equal s0
//	H2  m := decode(copy(input)); b1 := encode(m); keep := copy(b1); s0 := snap(m);
//	    overwrite b1 with the pattern;             encode(m) must equal keep, snap(m) must equal s0
//	H3  buf := copy(input); m := decode(buf); s0 := snap(m);
//	    copy another corpus input over buf and decode it from the same buffer;
//	                                               snap(m) must equal s0
//
// snap is verif/seq/snap: re-encoding, Summary/String, every exported field and
// the result of every typed accessor (found by reflection). Nothing unexported is
// looked at: the statement speaks about what is observable.
//
// Before any buffer is touched the snapshot is taken twice; if the two differ
// (a read changed the value, or rendering is not deterministic — C20's subject,
// not this property's) the case is counted under "unstable_snapshots" and skipped.
package c08

import (
	"bytes"
	"fmt"
	"os"
	"runtime/debug"
	"sort"
	"strings"
	"sync"
	"sync/atomic"

	"github.com/insomniacslk/dhcp/dhcpv4"
	"github.com/insomniacslk/dhcp/dhcpv6"
	"verif/seq/corpus6"
	"verif/seq/fw"
	"verif/seq/props/c06"
	"verif/seq/snap"
)

// Input is one corpus entry.
type Input struct {
	Name string
	V6   bool
	B    []byte
	EP   *entryPoint // nil: the packet decoder of the protocol version (dhcpv4.FromBytes / dhcpv6.FromBytes)
}

// entryPoint is any other exported decoding entry point: the message-level variants, single
// options, option lists, DUIDs, label sets and every exported value type with a FromBytes method.
type entryPoint struct {
	name   string
	goStmt string // Go statements decoding `buf` into v (for the emitted test)
	decode func(buf []byte) (any, error)
}

type anyMsg struct{ v any }

func (m anyMsg) snap() string { return snap.Any(m.v) }
func (m anyMsg) encode() []byte {
	if e, ok := m.v.(interface{ ToBytes() []byte }); ok {
		return e.ToBytes()
	}
	return nil
}

func decodeIn(in Input, buf []byte) (message, error) {
	if in.EP == nil {
		return decode(in.V6, buf)
	}
	v, err := in.EP.decode(buf)
	if err != nil {
		return nil, err
	}
	return anyMsg{v}, nil
}

// pattern overwrites b in place.
type pattern struct {
	name  string
	apply func(b []byte)
}

func fixedPatterns() []pattern {
	var out []pattern
	for _, k := range []byte{0x00, 0xff, 0x01, 0x02, 0x03, 0x05, 0x3f, 0x40, 0xc0} {
		k := k
		out = append(out, pattern{fmt.Sprintf("const-%02x", k), func(b []byte) {
			for i := range b {
				b[i] = k
			}
		}})
	}
	out = append(out,
		pattern{"ramp", func(b []byte) {
			for i := range b {
				b[i] = byte(i)
			}
		}},
		pattern{"complement", func(b []byte) {
			for i := range b {
				b[i] = ^b[i]
			}
		}},
	)
	return out
}

func nextPattern(name string, other []byte) pattern {
	return pattern{"next-packet(" + name + ")", func(b []byte) { copy(b, other) }}
}

// message abstracts over the two protocol versions.
type message interface {
	snap() string
	encode() []byte
}

type m4 struct{ p *dhcpv4.DHCPv4 }
type m6 struct{ d dhcpv6.DHCPv6 }

func (m m4) snap() string   { return snap.V4(m.p) }
func (m m4) encode() []byte { return m.p.ToBytes() }
func (m m6) snap() string   { return snap.V6(m.d) }
func (m m6) encode() []byte { return m.d.ToBytes() }

// editMessage changes a header field and adds an option (what a caller does when it reuses the object for its next message).
func editMessage(m message) bool {
	var v any
	switch x := m.(type) {
	case m4:
		v = x.p
	case m6:
		v = x.d
	case anyMsg:
		v = x.v
	}
	switch x := v.(type) {
	case *dhcpv4.DHCPv4:
		x.TransactionID[0] ^= 0xff
		x.UpdateOption(dhcpv4.OptGeneric(dhcpv4.GenericOptionCode(224), []byte("edited")))
	case *dhcpv6.Message:
		x.TransactionID[0] ^= 0xff
		x.AddOption(&dhcpv6.OptionGeneric{OptionCode: 65010, OptionData: []byte("edited")})
	case *dhcpv6.RelayMessage:
		x.HopCount ^= 0x5a
		x.AddOption(&dhcpv6.OptionGeneric{OptionCode: 65010, OptionData: []byte("edited")})
	default:
		return false
	}
	return true
}

func decode(v6 bool, buf []byte) (message, error) {
	if v6 {
		d, err := dhcpv6.FromBytes(buf)
		if err != nil {
			return nil, err
		}
		return m6{d}, nil
	}
	p, err := dhcpv4.FromBytes(buf)
	if err != nil {
		return nil, err
	}
	return m4{p}, nil
}

func goTest(in Input, hist string, over []byte) string {
	if in.EP != nil {
		return fmt.Sprintf(`func TestReplay(t *testing.T) {
	in, _ := hex.DecodeString(%%q)
	over, _ := hex.DecodeString(%%q) // what the buffer holds afterwards (%%s)
	buf := append([]byte(nil), in...)
%%s
	if err != nil {
		t.Fatal(err)
	}
	before := fmt.Sprintf("%%%%+v", v)
	copy(buf, over) // the caller reuses its buffer (history %%s; for H2 overwrite the bytes returned by v.ToBytes() instead)
	if after := fmt.Sprintf("%%%%+v", v); after != before {
		t.Errorf("value changed:\n before %%%%s\n after  %%%%s", before, after)
	}
}`, fw.Hex(in.B), fw.Hex(over), hist, in.EP.goStmt, hist)
	}
	dec := "dhcpv4.FromBytes"
	if in.V6 {
		dec = "dhcpv6.FromBytes"
	}
	switch hist {
	case "H2":
		return fmt.Sprintf(`func TestReplay(t *testing.T) {
	in, _ := hex.DecodeString(%q)
	over, _ := hex.DecodeString(%q)
	m, err := %s(in)
	if err != nil {
		t.Fatal(err)
	}
	b1 := m.ToBytes()
	keep := append([]byte(nil), b1...)
	before := m.Summary()
	copy(b1, over) // the caller modifies the bytes it was given
	if b2 := m.ToBytes(); !bytes.Equal(b2, keep) {
		t.Errorf("second encoding differs:\n want %%x\n got  %%x", keep, b2)
	}
	if after := m.Summary(); after != before {
		t.Errorf("message changed:\n before %%s\n after  %%s", before, after)
	}
}`, fw.Hex(in.B), fw.Hex(over), dec)
	}
	return fmt.Sprintf(`func TestReplay(t *testing.T) {
	in, _ := hex.DecodeString(%q)
	over, _ := hex.DecodeString(%q) // what the buffer holds afterwards (%s)
	buf := append([]byte(nil), in...)
	m, err := %s(buf)
	if err != nil {
		t.Fatal(err)
	}
	enc, sum := m.ToBytes(), m.Summary()
	copy(buf, over) // the caller reuses its receive buffer
	if got := m.ToBytes(); !bytes.Equal(got, enc) {
		t.Errorf("re-encoding changed:\n before %%x\n after  %%x", enc, got)
	}
	if got := m.Summary(); got != sum {
		t.Errorf("printed form changed:\n before %%s\n after  %%s", sum, got)
	}
}`, fw.Hex(in.B), fw.Hex(over), hist, dec)
}

type counters struct {
	cases, compared, unstable, notAccepted atomic.Int64
}

var cnt counters

func versionOf(in Input) string {
	if in.EP != nil {
		return in.EP.name
	}
	return version(in.V6)
}

func version(v6 bool) string {
	if v6 {
		return "dhcpv6"
	}
	return "dhcpv4"
}

func report(c *fw.Ctx, in Input, order int64, hist, pat, clause string, s0, s1 string, over []byte, extra string) {
	path, av, bv, n := snap.Diff(s0, s1)
	obs := snap.Observer(path)
	if extra != "" { // the second encoding itself differs: the observer is the encoder
		obs = versionOf(in) + ".ToBytes"
	}
	if in.EP != nil {
		obs = in.EP.name
	} else if obs == "" {
		obs = version(in.V6)
	} else if !strings.Contains(obs, ".") {
		obs = version(in.V6) + "." + obs
	}
	short := func(s string) string {
		if len(s) > 300 {
			return s[:300] + "…"
		}
		return s
	}
	c.Report(fw.Violation{
		Fingerprint: obs + "|" + clause,
		Order:       order, Scope: hist + " " + pat + " (" + in.Name + ")", Input: fw.Hex(in.B),
		Observed: fmt.Sprintf("%d snapshot lines differ; most specific: %s\n before: %s\n after:  %s%s", n, path, short(av), short(bv), extra),
		Expected: "the snapshot (re-encoding, printed forms, fields, every accessor result) is unchanged",
		Explain:  explain(hist),
		GoTest:   goTest(in, hist, over),
	})
}

func explain(hist string) string {
	switch hist {
	case "H1":
		return "the decoded message still refers to the caller's source buffer: overwriting the buffer changed the message"
	case "H2":
		return "the bytes returned by ToBytes are still referred to by the message: modifying them changed the message or its next encoding"
	}
	return "the decoded message still refers to the caller's source buffer: decoding the next packet into the same buffer changed the first message"
}

// runInput runs every pattern × history on one input. same: other corpus entries of
// the same length (for the next-packet pattern), others: entries decoded into the
// same buffer (H3).
func runInput(c *fw.Ctx, idx int, in Input, fixed []pattern, same []Input, others []Input) {
	order := int64(len(in.B))<<24 | int64(idx)
	var n int64
	defer func() { cnt.cases.Add(n) }()
	// acceptance + snapshot stability (control)
	var m message
	var err error
	buf := append([]byte(nil), in.B...)
	if pv, stk := fw.Safe(func() { m, err = decodeIn(in, buf) }); pv != nil {
		c.Report(fw.Violation{Fingerprint: version(in.V6) + ".FromBytes|panic|" + fw.PanicSite(stk), Order: order, Scope: in.Name, Input: fw.Hex(in.B),
			Observed: fmt.Sprintf("panic: %v at %s", pv, stk), Expected: "value or error"})
		return
	}
	if err != nil {
		cnt.notAccepted.Add(1)
		return
	}
	var s0 string
	stable := true
	if pv, stk := fw.Safe(func() {
		s0 = m.snap()
		if m.snap() != s0 {
			stable = false
		}
	}); pv != nil {
		c.Report(fw.Violation{Fingerprint: "snapshot|panic|" + fw.PanicSite(stk), Order: order, Scope: in.Name, Input: fw.Hex(in.B),
			Observed: fmt.Sprintf("panic: %v at %s", pv, stk), Expected: "a rendering"})
		return
	}
	if !stable {
		cnt.unstable.Add(1)
		return
	}
	guard := func(hist, pat string, f func()) {
		if pv, stk := fw.Safe(f); pv != nil {
			c.Report(fw.Violation{Fingerprint: version(in.V6) + "|panic|" + fw.PanicSite(stk), Order: order, Scope: hist + " " + pat + " (" + in.Name + ")", Input: fw.Hex(in.B),
				Observed: fmt.Sprintf("panic: %v at %s", pv, stk), Expected: "no panic while re-reading / re-encoding a decoded message after a buffer was overwritten"})
		}
	}
	pats := append([]pattern{}, fixed...)
	for _, o := range same {
		pats = append(pats, nextPattern(o.Name, o.B))
	}
	for _, pt := range pats {
		// H1
		n++
		guard("H1", pt.name, func() {
			buf := append([]byte(nil), in.B...)
			m, err := decodeIn(in, buf)
			if err != nil {
				return
			}
			pt.apply(buf)
			if s1 := m.snap(); s1 != s0 {
				report(c, in, order, "H1", pt.name, "source-aliasing", s0, s1, buf, "")
			}
			cnt.compared.Add(1)
		})
		// H2
		n++
		guard("H2", pt.name, func() {
			m, err := decodeIn(in, append([]byte(nil), in.B...))
			if err != nil {
				return
			}
			if in.EP != nil && in.EP != epMessage && in.EP != epRelay {
				return // the statement's second clause is about the encoding of a message; option values may hand out their bytes
			}
			b1 := m.encode()
			keep := append([]byte(nil), b1...)
			pt.apply(b1)
			b2 := m.encode()
			s1 := m.snap()
			if !bytes.Equal(b2, keep) || s1 != s0 {
				extra := ""
				if !bytes.Equal(b2, keep) {
					extra = fmt.Sprintf("\n second encoding %s, first was %s", fw.HexShort(b2), fw.HexShort(keep))
				}
				report(c, in, order, "H2", pt.name, "output-aliasing", s0, s1, b1, extra)
			}
			cnt.compared.Add(1)
		})
	}
	// H4: the bytes an encoding returned stay what they were while the library goes on working
	// (other messages are decoded and encoded, the same message is encoded again)
	if in.EP == nil || in.EP == epMessage || in.EP == epRelay {
		for _, o := range others {
			n++
			guard("H4", "then-encode("+o.Name+")", func() {
				m, err := decodeIn(in, append([]byte(nil), in.B...))
				if err != nil {
					return
				}
				b1 := m.encode()
				keep := append([]byte(nil), b1...)
				if m2, err := decodeIn(o, append([]byte(nil), o.B...)); err == nil {
					_ = m2.encode()
					_ = m2.snap()
				}
				_ = m.encode()
				if !bytes.Equal(b1, keep) {
					c.Report(fw.Violation{Fingerprint: versionOf(in) + ".ToBytes|returned-bytes-changed-by-later-calls", Order: order, Scope: "H4 then-encode(" + o.Name + ") (" + in.Name + ")", Input: fw.Hex(in.B),
						Observed: fmt.Sprintf("bytes returned by ToBytes were %s and are now %s", fw.HexShort(keep), fw.HexShort(b1)),
						Expected: "the encoding handed to the caller is the caller's: later decoding / encoding does not write into it",
						Explain:  "ToBytes returned memory the library keeps using (a pooled or shared buffer)"})
				}
				cnt.compared.Add(1)
			})
		}
	}
	// H5: two encodings of one message are two pieces of memory, and an encoding handed out earlier survives an edit of
	// the message followed by another encoding (bytes queued for sending, then the same object reused for the next message)
	if in.EP == nil || in.EP == epMessage || in.EP == epRelay {
		n++
		guard("H5", "two-encodings", func() {
			m, err := decodeIn(in, append([]byte(nil), in.B...))
			if err != nil {
				return
			}
			b1 := m.encode()
			b2 := m.encode()
			keep := append([]byte(nil), b1...)
			for i := range b1 {
				b1[i] ^= 0xa5
			}
			if !bytes.Equal(b2, keep) {
				c.Report(fw.Violation{Fingerprint: versionOf(in) + ".ToBytes|two-encodings-share-memory", Order: order, Scope: "H5 two-encodings (" + in.Name + ")", Input: fw.Hex(in.B),
					Observed: fmt.Sprintf("b1 := m.ToBytes(); b2 := m.ToBytes(); after overwriting b1, b2 reads %s (was %s)", fw.HexShort(b2), fw.HexShort(keep)),
					Expected: "b2 unchanged: every call returns bytes of its own",
					Explain:  "ToBytes returns memory the message keeps and hands out again"})
				return
			}
			b3 := m.encode()
			keep3 := append([]byte(nil), b3...)
			if !editMessage(m) {
				return
			}
			_ = m.encode()
			if !bytes.Equal(b3, keep3) {
				c.Report(fw.Violation{Fingerprint: versionOf(in) + ".ToBytes|returned-bytes-changed-by-edit-and-reencode", Order: order, Scope: "H5 encode-edit-encode (" + in.Name + ")", Input: fw.Hex(in.B),
					Observed: fmt.Sprintf("bytes returned by ToBytes were %s; after the message was edited and encoded again they read %s", fw.HexShort(keep3), fw.HexShort(b3)),
					Expected: "unchanged: the encoding handed to the caller is the caller's",
					Explain:  "ToBytes serialises into storage kept inside the message"})
			}
			cnt.compared.Add(1)
		})
	}
	// H3
	for _, o := range others {
		n++
		guard("H3", "then-decode("+o.Name+")", func() {
			buf := append([]byte(nil), in.B...)
			m, err := decodeIn(in, buf)
			if err != nil {
				return
			}
			k := copy(buf, o.B)
			fw.Safe(func() { decodeIn(o, buf[:k]) }) // whatever it yields
			if s1 := m.snap(); s1 != s0 {
				report(c, in, order, "H3", "then-decode("+o.Name+")", "source-aliasing", s0, s1, buf, "")
			}
			cnt.compared.Add(1)
		})
	}
}

// Corpus builds the input list: simplest (shortest) entries of each family first.
func Corpus(thorough bool) []Input {
	var out []Input
	add6 := func(name string, b []byte) { out = append(out, Input{Name: name, V6: true, B: b}) }
	// (1) every corpus6 instance at top level (message and relay) and nested in each container and stack
	ins := corpus6.Instances()
	for _, x := range c06.Contexts6() {
		for _, in := range ins {
			if x.NTP && in.Code >= 1 && in.Code <= 3 {
				continue
			}
			add6(in.Name+" "+x.Name, x.Wrap(in.Code, append([]byte{}, in.Build().ToBytes()...)))
		}
	}
	for _, x := range c06.NTPContexts6() {
		for _, in := range corpus6.NTPSubInstances() {
			add6(in.Name+" "+x.Name, x.Wrap(in.Code, append([]byte{}, in.Build().ToBytes()...)))
		}
	}
	// (2) messages, relay chains, DHCPv4-in-DHCPv6, long lists, chains
	for _, mc := range corpus6.Messages(thorough) {
		var b []byte
		if pv, _ := fw.Safe(func() { b = mc.Build().ToBytes() }); pv == nil {
			add6("msg/"+mc.Name, b)
		}
	}
	for _, ch := range corpus6.Chains() {
		for _, t := range []uint8{1, 12} {
			ch, t := ch, t
			var b []byte
			if pv, _ := fw.Safe(func() { b = corpus6.NewMessage(t, [3]byte{1, 2, 3}, ch.Build()).ToBytes() }); pv == nil {
				add6(fmt.Sprintf("chain/%s/type%d", ch.Name, t), b)
			}
		}
	}
	// (3) non-canonical DHCPv6: compressed names, trailing partial names, duplicate ORO, out-of-range fields (a thinned selection of the C06 list)
	for i, n := range c06.V6OutOfRange() {
		keep := false
		switch {
		case has(n.Name, "/names/"):
			keep = true
		case has(n.Name, "/ORO/") || has(n.Name, "/duid/") || has(n.Name, "/status/"):
			keep = i%3 == 0
		case has(n.Name, "/IAPREFIX/len") || has(n.Name, "/4RD-") || has(n.Name, "/FQDN/") || has(n.Name, "/relay/") || has(n.Name, "/type"):
			keep = i%37 == 0
		default:
			keep = i%5 == 0
		}
		if keep {
			add6(n.Name, n.B)
		}
	}
	// (4) DHCPv4
	for _, n := range V4Accessors() {
		out = append(out, Input{Name: n.Name, B: n.B})
	}
	for i, n := range c06.V4Structural() {
		keep := false
		switch {
		case has(n.Name, "/split") || has(n.Name, "/after-end") || has(n.Name, "/zero-length") || has(n.Name, "/repeat") || has(n.Name, "/size/") || has(n.Name, "no-nul"):
			keep = true
		case has(n.Name, "/order") || has(n.Name, "/pads/"):
			keep = i%7 == 0
		case has(n.Name, "/sname/") || has(n.Name, "/file/") || has(n.Name, "/hlen/"):
			keep = i%16 == 0
		case has(n.Name, "/code"):
			keep = has(n.Name, "/len1")
		}
		if keep {
			out = append(out, Input{Name: n.Name, B: n.B})
		}
	}
	// DHCPv4 inside DHCPv6
	for _, n := range c06.V4In6(V4Accessors()) {
		add6(n.Name, n.B)
	}
	return append(out, entryPointCorpus(out)...)
}

func has(s, sub string) bool { return strings.Contains(s, sub) }

func Run(c *fw.Ctx) {
	if os.Getenv("GOGC") == "" {
		defer debug.SetGCPercent(debug.SetGCPercent(400))
	}
	c.SetRule("every (input, pattern, history) triple is enumerated once; non-trivial = the input is accepted by the library, its snapshot is stable before any buffer is touched, and the snapshots before and after the overwrite were compared")
	corpus := Corpus(c.Thorough())
	fixed := fixedPatterns()
	// same-length groups for the next-packet pattern
	byLen := map[int][]int{}
	for i, in := range corpus {
		byLen[len(in.B)] = append(byLen[len(in.B)], i)
	}
	kNext, kH3 := 3, 3
	if c.Thorough() {
		kNext, kH3 = 1<<30, 24
	}
	type job struct {
		idx    int
		same   []Input
		others []Input
	}
	jobs := make([]job, len(corpus))
	pos := map[int]int{} // index in its length group
	for _, g := range byLen {
		for p, i := range g {
			pos[i] = p
		}
	}
	var nextTotal int64
	for i, in := range corpus {
		g := byLen[len(in.B)]
		var same []Input
		for k := 1; k < len(g) && len(same) < kNext; k++ {
			o := corpus[g[(pos[i]+k)%len(g)]]
			if o.V6 == in.V6 {
				same = append(same, o)
			}
		}
		var others []Input
		for k := 1; k < len(corpus) && len(others) < kH3; k++ {
			// alternate near neighbours (similar shape) and far entries (different shape)
			j := (i + k) % len(corpus)
			if k%2 == 0 {
				j = (i + k*len(corpus)/(2*kH3+1)) % len(corpus)
			}
			if j != i {
				others = append(others, corpus[j])
			}
		}
		nextTotal += int64(len(same))
		jobs[i] = job{i, same, others}
	}
	// heavy inputs first so that the tail of the parallel loop is short
	orderIdx := make([]int, len(corpus))
	for i := range orderIdx {
		orderIdx[i] = i
	}
	sort.SliceStable(orderIdx, func(a, b int) bool { return len(corpus[orderIdx[a]].B) > len(corpus[orderIdx[b]].B) })
	var wg sync.WaitGroup
	var next atomic.Int64
	for w := 0; w < fw.Workers(); w++ {
		wg.Add(1)
		slot := fw.NewSlot()
		go func() {
			defer wg.Done()
			defer fw.Untrack(slot)
			for {
				k := next.Add(1) - 1
				if k >= int64(len(orderIdx)) || c.Over() {
					return
				}
				j := jobs[orderIdx[k]]
				in := corpus[j.idx]
				fw.Track(slot, int64(j.idx), func() string { return "input " + in.Name + " = " + fw.HexShort(in.B) })
				runInput(c, j.idx, in, fixed, j.same, j.others)
			}
		}()
	}
	wg.Wait()
	c.Eval(cnt.cases.Load())
	c.Nontrivial(cnt.compared.Load())
	nv4, nv6 := 0, 0
	for _, in := range corpus {
		if in.V6 {
			nv6++
		} else {
			nv4++
		}
	}
	var pn []string
	for _, p := range fixed {
		pn = append(pn, p.name)
	}
	nextDesc := "the next 3 corpus entries of the same length"
	if c.Thorough() {
		nextDesc = "every other corpus entry of the same length"
	}
	c.Scope("inputs", "dhcpv6", nv6, "dhcpv4", nv4, "not_accepted_by_the_library", cnt.notAccepted.Load(),
		"families", "every corpus6 instance x {top of message, top of relay, 9 containers, 3 stacks}; NTP sub-option instances; corpus6.Messages (types x xids, relay chains depth 0..8, DHCPv4-in-DHCPv6, maximal lengths, long lists); chains; written-out compressed / partial names in options 24, 39, 56/3; selections of the C06 out-of-range list; DHCPv4 packets with every option read by a typed accessor (one per packet, all in one packet, split > 255, option 119 compressed), structural non-canonical DHCPv4 packets; the accessor packets inside option 87")
	c.Scope("patterns", "fixed", pn, "next_packet", nextDesc, "next_packet_cases_per_history", nextTotal)
	c.Scope("histories", "H1", "decode, snapshot, overwrite source, snapshot", "H2", "decode, encode, snapshot, overwrite the encoding, encode again + snapshot", "H3", fmt.Sprintf("decode, snapshot, decode one of %d other corpus entries into the same buffer, snapshot", kH3),
		"H4", fmt.Sprintf("decode, encode and keep the bytes, decode+encode+print one of %d other corpus entries, encode the first again: the kept bytes are unchanged", kH3))
	c.Extra("unstable_snapshots_skipped", cnt.unstable.Load())
	for i := 0; i < len(corpus); i += 1 + len(corpus)/8 {
		c.Sample(map[string]any{"input": corpus[i].Name, "bytes": fw.HexShort(corpus[i].B)})
	}
	c.Assume("observable = what verif/seq/snap renders: ToBytes, Summary, String, LongString, exported fields, every zero-argument accessor found by reflection, lease-time accessors, GetOption/GetOneOption per code present; unexported state is not inspected",
		"slices handed out by accessors are not scribbled over (the statement only promises independence from the source buffer and from encoded output)")
}
