package c08

import (
	"fmt"

	"verif/seq/corpus6"
	"verif/seq/props/c06"
)

func cat(parts ...[]byte) []byte {
	var out []byte
	for _, p := range parts {
		out = append(out, p...)
	}
	return out
}

// V4Accessors returns DHCPv4 packets (hand-assembled bytes) that together hold
// every option a typed accessor of *dhcpv4.DHCPv4 reads: one option per packet
// (two values each where it matters), all of them in one packet, values longer
// than 255 octets split over instances, option 119 with compressed names, full
// sname/file fields.
func V4Accessors() []c06.Named {
	type ov struct {
		code byte
		name string
		v    []byte
	}
	ip := func(a, b, c, d byte) []byte { return []byte{a, b, c, d} }
	example := []byte{7, 'e', 'x', 'a', 'm', 'p', 'l', 'e', 3, 'c', 'o', 'm', 0}
	opts := []ov{
		{1, "subnet-mask", ip(255, 255, 255, 0)},
		{3, "router", cat(ip(10, 0, 0, 1), ip(10, 0, 0, 2))},
		{6, "dns", cat(ip(10, 0, 0, 53), ip(10, 0, 1, 53), ip(8, 8, 8, 8))},
		{12, "hostname", []byte("host-a")},
		{15, "domain-name", []byte("example.org")},
		{17, "root-path", []byte("/srv/nfs/root")},
		{28, "broadcast", ip(10, 0, 0, 255)},
		{42, "ntp", cat(ip(10, 0, 0, 123), ip(10, 0, 1, 123))},
		{43, "vendor-specific", []byte{1, 2, 'a', 'b', 2, 1, 'c'}},
		{44, "netbios-ns", ip(10, 0, 0, 137)},
		{50, "requested-ip", ip(10, 0, 0, 50)},
		{51, "lease-time", []byte{0, 0, 0x0e, 0x10}},
		{53, "message-type", []byte{5}},
		{54, "server-id", ip(10, 0, 0, 1)},
		{55, "parameter-request-list", []byte{3, 1, 15, 6, 119, 121}},
		{56, "message", []byte("no address available")},
		{57, "max-message-size", []byte{0x05, 0xdc}},
		{58, "renewal-time", []byte{0, 0, 0x07, 0x08}},
		{59, "rebinding-time", []byte{0, 0, 0x0c, 0x4e}},
		{60, "class-id", []byte("PXEClient:Arch:00007")},
		{61, "client-id", []byte{1, 0xa0, 0xa1, 0xa2, 0xa3, 0xa4, 0xa5}},
		{66, "tftp-server-name", []byte("tftp.example.org")},
		{67, "bootfile-name", []byte("pxelinux.0")},
		{77, "user-class", []byte{4, 'i', 'P', 'X', 'E', 2, 'u', '2'}},
		{77, "user-class-raw", []byte("iPXE")},
		{82, "relay-agent-info", []byte{1, 4, 'e', 't', 'h', '0', 2, 6, 1, 2, 3, 4, 5, 6, 9, 3, 'x', 'y', 'z'}},
		{93, "client-arch", []byte{0, 7, 0, 9}},
		{97, "client-machine-id", cat([]byte{0}, corpus6.Bytes(16, 3))},
		{108, "ipv6-only-preferred", []byte{0, 0, 0x07, 0x08}},
		{116, "auto-configure", []byte{1}},
		{119, "domain-search", cat(example, []byte{3, 's', 'u', 'b', 7, 'e', 'x', 'a', 'm', 'p', 'l', 'e', 3, 'o', 'r', 'g', 0})},
		{119, "domain-search-compressed", cat(example, []byte{3, 's', 'u', 'b', 0xc0, 0, 1, 'a', 0xc0, 8})},
		{119, "domain-search-partial", cat(example, []byte{3, 's', 'u', 'b'})},
		{121, "classless-static-route", []byte{24, 10, 1, 2, 10, 0, 0, 1, 0, 10, 0, 0, 254, 32, 192, 0, 2, 1, 10, 0, 0, 2, 9, 10, 128, 10, 0, 0, 3}},
		{124, "vivc", cat([]byte{0, 0, 0x11, 0x8b}, []byte{5, 'd', 'o', 'c', 's', 'i'}, []byte{0, 0, 0, 9}, []byte{2, 'x', 'y'})},
		{125, "vivs", cat([]byte{0, 0, 0x11, 0x8b}, []byte{4, 1, 2, 'a', 'b'})},
		{175, "etherboot", []byte{1, 1, 1}},
		{224, "site-specific", corpus6.Bytes(9, 5)},
	}
	var out []c06.Named
	end := []byte{0xff}
	o53 := c06.V4Opt(53, []byte{1})
	for _, o := range opts {
		out = append(out, c06.Named{Name: fmt.Sprintf("v4/accessor/%d-%s", o.code, o.name), B: c06.V4Packet(c06.V4Opt(o.code, o.v), end)})
		if o.code != 53 {
			out = append(out, c06.Named{Name: fmt.Sprintf("v4/accessor/%d-%s+53", o.code, o.name), B: c06.V4Packet(o53, c06.V4Opt(o.code, o.v), end)})
		}
	}
	// everything in one packet (first value of each code), canonical order and reversed
	var all, rev []byte
	seen := map[byte]bool{}
	for _, o := range opts {
		if seen[o.code] {
			continue
		}
		seen[o.code] = true
		all = append(all, c06.V4Opt(o.code, o.v)...)
		rev = append(c06.V4Opt(o.code, o.v), rev...)
	}
	out = append(out, c06.Named{Name: "v4/accessor/all", B: c06.V4Packet(all, end)}, c06.Named{Name: "v4/accessor/all-reversed", B: c06.V4Packet(rev, end)})
	// long values split over instances: a 40-name search list, 60 routes, 70 DNS servers, a 600-octet vendor blob
	var search []byte
	for i := 0; i < 40; i++ {
		search = append(search, 4, 'h', byte('a'+i%26), byte('a'+i/26), 'x')
		if i == 0 {
			search = append(search, example...)
		} else {
			search = append(search, 0xc0, 5) // …example.com
		}
	}
	var routes, dns []byte
	for i := 0; i < 60; i++ {
		routes = append(routes, 24, 10, byte(i), 0, 10, 0, 0, byte(i+1))
	}
	for i := 0; i < 70; i++ {
		dns = append(dns, 10, 9, byte(i), 53)
	}
	blob := corpus6.Bytes(600, 11)
	chunk := func(code byte, v []byte, first int) []byte {
		var l []int
		rem := len(v)
		if first > 0 && first < rem {
			l = append(l, first)
			rem -= first
		}
		for rem > 255 {
			l = append(l, 255)
			rem -= 255
		}
		l = append(l, rem)
		return c06.V4Chunks(code, v, l...)
	}
	for _, first := range []int{0, 100} {
		out = append(out,
			c06.Named{Name: fmt.Sprintf("v4/long/119-search-%d/first%d", len(search), first), B: c06.V4Packet(o53, chunk(119, search, first), end)},
			c06.Named{Name: fmt.Sprintf("v4/long/121-routes-%d/first%d", len(routes), first), B: c06.V4Packet(o53, chunk(121, routes, first), end)},
			c06.Named{Name: fmt.Sprintf("v4/long/6-dns-%d/first%d", len(dns), first), B: c06.V4Packet(o53, chunk(6, dns, first), end)},
			c06.Named{Name: fmt.Sprintf("v4/long/43-blob-%d/first%d", len(blob), first), B: c06.V4Packet(o53, chunk(43, blob, first), end)},
		)
	}
	// full sname / file, hlen 16, all address fields set, option overload flag present (not interpreted by the library)
	{
		b := c06.V4Packet(o53, c06.V4Opt(52, []byte{3}), c06.V4Opt(12, []byte("h")), end)
		for i := 0; i < 63; i++ {
			b[44+i] = byte('a' + i%26)
		}
		for i := 0; i < 127; i++ {
			b[108+i] = byte('A' + i%26)
		}
		b[2] = 16
		out = append(out, c06.Named{Name: "v4/full-names-hlen16", B: b})
	}
	return out
}
