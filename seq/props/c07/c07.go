// Package c07: DHCPv4 encoding is deterministic, canonical and readable by any RFC decoder.
// (a) every encoding of the C01 value scopes passes the independent wire-format validator;
// (b) explicit-state search over construction orders: states = option-map contents,
// transitions = API calls, invariant = bytes equal the canonical serialisation of the model.
package c07

import (
	"bytes"
	"fmt"
	"sort"
	"strings"

	"github.com/insomniacslk/dhcp/dhcpv4"
	"verif/seq/adapt"
	"verif/seq/fw"
	"verif/seq/ref/v4ref"
	"verif/seq/v4gen"
)

func validate(c *fw.Ctx, scope string, ord int64, p *dhcpv4.DHCPv4, in string) {
	var enc []byte
	if pv, st := fw.Safe(func() { enc = p.ToBytes() }); pv != nil {
		c.Report(fw.Violation{Fingerprint: "dhcpv4.ToBytes|panic|" + fw.PanicSite(st), Order: ord, Scope: scope, Input: in, Observed: fmt.Sprint(pv)})
		return
	}
	if rp, err := v4ref.ValidateCanonical(enc); err == nil {
		// "an independent decoder recovers exactly the packet's fields and option values"
		if f, d := adapt.DiffV4(p, rp); f != "" {
			c.Report(fw.Violation{Fingerprint: "dhcpv4.ToBytes|reference-reading-differs|" + f, Order: ord, Scope: scope, Input: in, Observed: d,
				Expected: "the reference decoder reads the packet's own field values from the encoding", Explain: fw.HexShort(enc)})
			return
		}
	}
	if _, err := v4ref.ValidateCanonical(enc); err != nil {
		cls := err.Error()
		if i := strings.IndexAny(cls, "(0123456789"); i > 0 {
			cls = strings.TrimSpace(cls[:i])
		}
		c.Report(fw.Violation{Fingerprint: "dhcpv4.ToBytes|layout|" + cls, Order: ord, Scope: scope, Input: in, Observed: err.Error(), Expected: "header, cookie, ascending options with 82 last, one End, zero padding, >= 300 bytes", Explain: fw.HexShort(enc)})
		return
	}
	for k := 0; k < 3; k++ {
		if e2 := p.ToBytes(); !bytes.Equal(e2, enc) {
			c.Report(fw.Violation{Fingerprint: "dhcpv4.ToBytes|nondeterministic", Order: ord, Scope: scope, Input: in, Observed: "two encodings of the same packet differ", Explain: fw.HexShort(enc) + " vs " + fw.HexShort(e2)})
			return
		}
	}
}

// ---- explicit-state search over construction orders ----

type action struct {
	name  string
	apply func(p *dhcpv4.DHCPv4)
	model func(m map[uint8][]byte)
}

func actions() []action {
	var as []action
	vals := map[uint8][2][]byte{
		1:   {{255, 255, 255, 0}, {255, 0, 0, 0}},
		12:  {[]byte("host"), {}},
		53:  {{1}, {5}},
		55:  {{1, 3, 6}, {6}},
		82:  {{1, 2, 'a', 'b'}, v4gen.OptBytes(82, 300)},
		255: {{7}, {}},
		0:   {{9}, {}},
		200: {v4gen.OptBytes(200, 256), {1}},
	}
	var codes []int
	for c := range vals {
		codes = append(codes, int(c))
	}
	sort.Ints(codes)
	for _, ci := range codes {
		code := uint8(ci)
		for k, v := range vals[code] {
			v := v
			as = append(as, action{
				name: fmt.Sprintf("Update(%d,v%d)", code, k),
				apply: func(p *dhcpv4.DHCPv4) {
					p.UpdateOption(dhcpv4.OptGeneric(dhcpv4.GenericOptionCode(code), append([]byte(nil), v...)))
				},
				model: func(m map[uint8][]byte) { m[code] = append([]byte{}, v...) },
			})
		}
		as = append(as, action{
			name:  fmt.Sprintf("Del(%d)", code),
			apply: func(p *dhcpv4.DHCPv4) { p.DeleteOption(dhcpv4.GenericOptionCode(code)) },
			model: func(m map[uint8][]byte) { delete(m, code) },
		})
	}
	// exported modifiers
	as = append(as,
		action{"WithMessageType(Offer)", func(p *dhcpv4.DHCPv4) { dhcpv4.WithMessageType(dhcpv4.MessageTypeOffer)(p) }, func(m map[uint8][]byte) { m[53] = []byte{2} }},
		action{"WithNetmask(/24)", func(p *dhcpv4.DHCPv4) { dhcpv4.WithNetmask([]byte{255, 255, 255, 0})(p) }, func(m map[uint8][]byte) { m[1] = []byte{255, 255, 255, 0} }},
		action{"WithoutOption(53)", func(p *dhcpv4.DHCPv4) { dhcpv4.WithoutOption(dhcpv4.OptionDHCPMessageType)(p) }, func(m map[uint8][]byte) { delete(m, 53) }},
		action{"WithGeneric(12,'x')", func(p *dhcpv4.DHCPv4) { dhcpv4.WithGeneric(dhcpv4.OptionHostName, []byte("x"))(p) }, func(m map[uint8][]byte) { m[12] = []byte("x") }},
		action{"WithOption(OptHostName('y'))", func(p *dhcpv4.DHCPv4) { dhcpv4.WithOption(dhcpv4.OptHostName("y"))(p) }, func(m map[uint8][]byte) { m[12] = []byte("y") }},
	)
	return as
}

func modelKey(m map[uint8][]byte) string {
	var ks []int
	for k := range m {
		ks = append(ks, int(k))
	}
	sort.Ints(ks)
	var b strings.Builder
	for _, k := range ks {
		fmt.Fprintf(&b, "%d=%x;", k, m[uint8(k)])
	}
	return b.String()
}

// expected bytes: canonical encoding of the model; keys 0 and 255 are never emitted as options.
func expectBytes(base *dhcpv4.DHCPv4, m map[uint8][]byte) []byte {
	rp := &v4ref.Packet{Op: uint8(base.OpCode), HType: uint8(base.HWType), HLen: uint8(len(base.ClientHWAddr)), Hops: base.HopCount, Xid: base.TransactionID,
		Secs: base.NumSeconds, Flags: base.Flags, SName: base.ServerHostName, File: base.BootFileName, Opts: map[uint8][]byte{}}
	copy(rp.CIAddr[:], base.ClientIPAddr.To4())
	copy(rp.YIAddr[:], base.YourIPAddr.To4())
	copy(rp.SIAddr[:], base.ServerIPAddr.To4())
	copy(rp.GIAddr[:], base.GatewayIPAddr.To4())
	copy(rp.CHAddrRaw[:], base.ClientHWAddr)
	for k, v := range m {
		if k != 0 && k != 255 {
			rp.Opts[k] = v
		}
	}
	return v4ref.Encode(rp)
}

func Run(c *fw.Ctx) {
	c.SetRule("(a) every packet value of the C01 scopes: its encoding must pass the independent canonical-form validator and be repeatable; (b) BFS over API action sequences: state = option-map contents (model), transition = one call on the real packet; invariant: ToBytes == canonical serialisation of the model state, identical for every path reaching that state; non-trivial = distinct model states / distinct packet values")
	forms := 2
	stride := int64(7)
	if c.Thorough() {
		forms, stride = 3, 1
	}
	n := v4gen.HeaderSpace(forms)
	c.Range((n+stride-1)/stride, func(i int64) {
		p := v4gen.Header(i*stride, forms)
		validate(c, "a:S1-header-product", i, p, fmt.Sprintf("header product index %d (forms=%d)", i*stride, forms))
		c.Nontrivial(1)
	})
	c.Scope("a:S1-header-product", "cases", (n+stride-1)/stride, "stride", stride)
	cnt := v4gen.OptionSets(c.Thorough(), func(ord int64, desc string, o dhcpv4.Options) {
		p := v4gen.Base()
		p.Options = o
		var lens []string
		for code, v := range o {
			lens = append(lens, fmt.Sprintf("%d:%d", code, len(v)))
		}
		sort.Strings(lens)
		validate(c, "a:"+desc, n+ord, p, "options code:len "+strings.Join(lens, " "))
		c.Eval(1)
		c.Nontrivial(1)
	})
	c.Scope("a:option-sets", "cases", cnt)
	// (a') names longer than their fields: the 64-octet sname and 128-octet file fields stay NUL-terminated (the name is
	// cut to the field's capacity - the normalisation C06 lists), everything behind them stays where it belongs
	{
		base := int64(1) << 40
		k := int64(0)
		for _, sl := range []int{63, 64, 65, 200} {
			for _, fl := range []int{127, 128, 129, 300} {
				p, _ := dhcpv4.New(dhcpv4.WithTransactionID(dhcpv4.TransactionID{1, 2, 3, 4}), dhcpv4.WithMessageType(dhcpv4.MessageTypeOffer))
				p.ServerHostName = strings.Repeat("s", sl)
				p.BootFileName = strings.Repeat("f", fl)
				b := p.ToBytes()
				c.Eval(1)
				cut := func(n, capa int) int {
					if n > capa {
						return capa
					}
					return n
				}
				problem := ""
				switch {
				case len(b) < 300:
					problem = fmt.Sprintf("encoding has %d bytes", len(b))
				case string(b[44:44+cut(sl, 63)]) != strings.Repeat("s", cut(sl, 63)) || b[44+cut(sl, 63)] != 0 || b[107] != 0:
					problem = fmt.Sprintf("sname field %x", b[44:108])
				case string(b[108:108+cut(fl, 127)]) != strings.Repeat("f", cut(fl, 127)) || b[108+cut(fl, 127)] != 0 || b[235] != 0:
					problem = fmt.Sprintf("file field %x", b[108:236])
				case string(b[236:240]) != "\x63\x82\x53\x63":
					problem = fmt.Sprintf("magic cookie position holds %x", b[236:240])
				case b[240] != 53 || b[241] != 1 || b[242] != 2 || b[243] != 255:
					problem = fmt.Sprintf("options area starts %x", b[240:244])
				}
				if problem != "" {
					c.Report(fw.Violation{Fingerprint: "dhcpv4.ToBytes|layout|name-longer-than-its-field", Order: base + k, Scope: "a':over-long names",
						Input:    fmt.Sprintf("OFFER with ServerHostName of %d octets and BootFileName of %d octets", sl, fl),
						Observed: problem, Expected: "sname = the first 63 octets and a NUL, file = the first 127 octets and a NUL, then the magic cookie and the options",
						Explain:  "a name that does not fit is cut to its NUL-terminated capacity; the fields behind it are not disturbed"})
				} else {
					c.Nontrivial(1)
				}
				k++
			}
		}
		c.Scope("a':over-long names", "sname_len", "63, 64, 65, 200", "file_len", "127, 128, 129, 300", "cases", k)
	}

	// (b1) all permutations of k distinct updates, k = 1..6, several code sets
	sets := [][]uint8{{1, 12, 53, 55, 82, 200}, {82, 54, 53, 3, 2, 1}, {254, 253, 100, 82, 81, 83}, {255, 82, 0, 1, 60, 61}}
	var perms int64
	var statesB1, transB1 int64
	for si, set := range sets {
		for k := 1; k <= len(set); k++ {
			sub := set[:k]
			idx := make([]int, k)
			for i := range idx {
				idx[i] = i
			}
			var first []byte
			permute(idx, 0, func(order []int) {
				p := v4gen.Base()
				m := map[uint8][]byte{}
				var names []string
				for _, j := range order {
					code := sub[j]
					v := v4gen.OptBytes(code, int(code)%7)
					p.UpdateOption(dhcpv4.OptGeneric(dhcpv4.GenericOptionCode(code), v))
					m[code] = v
					names = append(names, fmt.Sprint(code))
					transB1++
				}
				enc := p.ToBytes()
				perms++
				want := expectBytes(v4gen.Base(), m)
				in := fmt.Sprintf("set %d: UpdateOption order %s", si, strings.Join(names, ","))
				if !bytes.Equal(enc, want) {
					c.Report(fw.Violation{Fingerprint: "dhcpv4.ToBytes|construction-order|differs-from-canonical", Order: perms, Scope: "b1:permutations", Input: in,
						Observed: fw.HexShort(enc[240:]), Expected: fw.HexShort(want[240:]), Explain: "options area after inserting the same options in this order"})
				}
				if first == nil {
					first = enc
				} else if !bytes.Equal(first, enc) {
					c.Report(fw.Violation{Fingerprint: "dhcpv4.ToBytes|construction-order|depends-on-order", Order: perms, Scope: "b1:permutations", Input: in,
						Observed: fw.HexShort(enc[240:]), Expected: fw.HexShort(first[240:])})
				}
				for r := 0; r < 8; r++ {
					if e2 := p.ToBytes(); !bytes.Equal(e2, enc) {
						c.Report(fw.Violation{Fingerprint: "dhcpv4.ToBytes|nondeterministic", Order: perms, Scope: "b1:permutations", Input: in, Observed: "repeated encodings differ"})
						break
					}
				}
			})
			statesB1++
		}
	}
	c.Eval(perms)
	c.Scope("b1:update-permutations", "sets", len(sets), "orders", perms)

	// (b2) BFS over action sequences
	acts := actions()
	depth := 4
	if c.Thorough() {
		depth = 5
	}
	type node struct {
		path []int
	}
	seen := map[string][]byte{}
	frontier := []node{{nil}}
	seen[modelKey(map[uint8][]byte{})] = v4gen.Base().ToBytes()
	var states, trans, paths int64 = 1, 0, 0
	for d := 0; d < depth; d++ {
		var next []node
		for _, nd := range frontier {
			for ai := range acts {
				// successor = replay the path on a fresh packet + one action
				p := v4gen.Base()
				m := map[uint8][]byte{}
				path := append(append([]int{}, nd.path...), ai)
				var names []string
				for _, k := range path {
					acts[k].apply(p)
					acts[k].model(m)
					names = append(names, acts[k].name)
				}
				trans++
				paths++
				enc := p.ToBytes()
				want := expectBytes(v4gen.Base(), m)
				in := strings.Join(names, " ; ")
				if !bytes.Equal(enc, want) {
					c.Report(fw.Violation{Fingerprint: "dhcpv4.ToBytes|state-invariant|bytes-differ-from-model", Order: 1 << 40, Scope: "b2:action-bfs", Input: in,
						Observed: fw.HexShort(enc[240:]), Expected: fw.HexShort(want[240:]), Explain: "model state " + modelKey(m)})
				}
				if _, err := v4ref.ValidateCanonical(enc); err != nil {
					c.Report(fw.Violation{Fingerprint: "dhcpv4.ToBytes|state-invariant|layout", Order: 1 << 40, Scope: "b2:action-bfs", Input: in, Observed: err.Error()})
				}
				key := modelKey(m)
				if prev, ok := seen[key]; ok {
					if !bytes.Equal(prev, enc) {
						c.Report(fw.Violation{Fingerprint: "dhcpv4.ToBytes|state-invariant|same-state-different-bytes", Order: 1 << 40, Scope: "b2:action-bfs", Input: in,
							Observed: fw.HexShort(enc[240:]), Expected: fw.HexShort(prev[240:])})
					}
					continue
				}
				seen[key] = enc
				states++
				next = append(next, node{path})
				if states%97 == 1 {
					c.Sample(map[string]any{"path": in, "options_area": fw.HexShort(enc[240:])})
				}
			}
		}
		frontier = next
	}
	c.Eval(paths)
	c.Nontrivial(states)
	c.AddStates(states+statesB1, trans+transB1, paths+perms)
	c.Scope("b2:action-bfs", "actions", len(acts), "depth", depth, "states", states, "transitions", trans)
	c.Assume("reference validator/encoder v4ref (stdlib only)", "keys 0 and 255 in the option map are never emitted as options (exactly one End)")
}

func permute(a []int, k int, f func([]int)) {
	if k == len(a) {
		f(a)
		return
	}
	for i := k; i < len(a); i++ {
		a[k], a[i] = a[i], a[k]
		permute(a, k+1, f)
		a[k], a[i] = a[i], a[k]
	}
}
