#!/usr/bin/env python3
"""Generates values_gen.go: the hand-listed C20 values (typed option values,
Opt* constructors, With* modifiers applied to a fresh packet/message, built
DHCPv4 packets).  Every entry is a few Go statements that end by declaring `v`;
the same text is (a) compiled into the build closure and (b) kept as a string
so that a violation can print a ready-to-paste test.  `held` names the caller
side slices the harness keeps a handle on.

Run:  python3 gen_values.py > values_gen.go   (from this directory)
"""
import sys

E = []  # (kind, name, code, held)


def add(kind, name, code, held=()):
    E.append((kind, name, code.strip("\n"), list(held)))


BASE4 = ('&dhcpv4.DHCPv4{OpCode: dhcpv4.OpcodeBootRequest, HWType: iana.HWTypeEthernet, '
         'TransactionID: dhcpv4.TransactionID{0x11, 0x22, 0x33, 0x44}, NumSeconds: 0x0102, Flags: 0x8000, '
         'ClientIPAddr: net.IP{10, 1, 0, 1}, YourIPAddr: net.IP{10, 2, 0, 2}, ServerIPAddr: net.IP{10, 3, 0, 3}, '
         'GatewayIPAddr: net.IP{10, 4, 0, 4}, ClientHWAddr: net.HardwareAddr{0xa0, 0xa1, 0xa2, 0xa3, 0xa4, 0xa5}, '
         'ServerHostName: "srv.example", BootFileName: "boot/file.efi", Options: dhcpv4.Options{}}')
BASE6 = '&dhcpv6.Message{MessageType: dhcpv6.MessageTypeSolicit, TransactionID: dhcpv6.TransactionID{1, 2, 3}}'

ROUTES = '''routes := []*dhcpv4.Route{
	{Dest: &net.IPNet{IP: net.IP{10, 2, 0, 0}, Mask: net.CIDRMask(16, 32)}, Router: net.IP{10, 0, 0, 2}},
	{Dest: &net.IPNet{IP: net.IP{0, 0, 0, 0}, Mask: net.CIDRMask(0, 32)}, Router: net.IP{10, 0, 0, 1}},
	{Dest: &net.IPNet{IP: net.IP{192, 168, 1, 7}, Mask: net.CIDRMask(32, 32)}, Router: net.IP{10, 0, 0, 3}},
}'''
VIVC = 'ids := []dhcpv4.VIVCIdentifier{{EntID: 4491, Data: []byte("docsis")}, {EntID: 9, Data: []byte{3, 2, 1}}}'
CODES = 'codes := []dhcpv4.OptionCode{dhcpv4.OptionRouter, dhcpv4.OptionSubnetMask, dhcpv4.OptionDomainName}'
DESC = '''var codes []dhcpv4.OptionCode
for i := 60; i > 40; i-- {
	codes = append(codes, dhcpv4.GenericOptionCode(i))
}'''

# ------------------------------------------------------------ typed values (v4, iana, rfc1035label)
K = "v4-typed-value"
add(K, "OptionCodeList/unsorted-3-1-15", CODES + "\nv := dhcpv4.OptionCodeList(codes)", ["codes"])
add(K, "OptionCodeList/sorted-1-3-15", "codes := []dhcpv4.OptionCode{dhcpv4.OptionSubnetMask, dhcpv4.OptionRouter, dhcpv4.OptionDomainName}\nv := dhcpv4.OptionCodeList(codes)", ["codes"])
add(K, "OptionCodeList/one", "codes := []dhcpv4.OptionCode{dhcpv4.OptionRouter}\nv := dhcpv4.OptionCodeList(codes)", ["codes"])
add(K, "OptionCodeList/empty", "codes := []dhcpv4.OptionCode{}\nv := dhcpv4.OptionCodeList(codes)", ["codes"])
add(K, "OptionCodeList/nil", "var v dhcpv4.OptionCodeList")
add(K, "OptionCodeList/descending-20-generic", DESC + "\nv := dhcpv4.OptionCodeList(codes)", ["codes"])
add(K, "OptionCodeList/duplicates-3-3-1", "codes := []dhcpv4.OptionCode{dhcpv4.OptionRouter, dhcpv4.OptionRouter, dhcpv4.OptionSubnetMask}\nv := dhcpv4.OptionCodeList(codes)", ["codes"])
add(K, "OptionCodeList/mixed-generic-224-6", "codes := []dhcpv4.OptionCode{dhcpv4.GenericOptionCode(224), dhcpv4.OptionDomainNameServer}\nv := dhcpv4.OptionCodeList(codes)", ["codes"])
add(K, "OptionCodeList/decoded-3-1-15", "buf := []byte{3, 1, 15}\nv := &dhcpv4.OptionCodeList{}\nif err := v.FromBytes(buf); err != nil {\n\tpanic(err)\n}", ["buf"])
add(K, "IPs/two-descending", "ips := []net.IP{{10, 0, 0, 2}, {10, 0, 0, 1}}\nv := dhcpv4.IPs(ips)", ["ips"])
add(K, "IPs/16-byte-form", 'ips := []net.IP{net.ParseIP("10.0.0.2"), net.ParseIP("10.0.0.1")}\nv := dhcpv4.IPs(ips)', ["ips"])
add(K, "IPs/empty", "ips := []net.IP{}\nv := dhcpv4.IPs(ips)", ["ips"])
add(K, "IPs/decoded", "buf := []byte{10, 0, 0, 2, 10, 0, 0, 1}\nv := &dhcpv4.IPs{}\nif err := v.FromBytes(buf); err != nil {\n\tpanic(err)\n}", ["buf"])
add(K, "IP/4-byte", "ip := net.IP{192, 168, 0, 1}\nv := dhcpv4.IP(ip)", ["ip"])
add(K, "IP/16-byte", 'ip := net.ParseIP("192.168.0.1")\nv := dhcpv4.IP(ip)', ["ip"])
add(K, "IPMask/24", "mask := net.IPMask{255, 255, 255, 0}\nv := dhcpv4.IPMask(mask)", ["mask"])
add(K, "Routes/three", ROUTES + "\nv := dhcpv4.Routes(routes)", ["routes"])
add(K, "Routes/empty", "routes := []*dhcpv4.Route{}\nv := dhcpv4.Routes(routes)", ["routes"])
add(K, "Routes/decoded", "buf := []byte{16, 10, 2, 10, 0, 0, 2, 0, 10, 0, 0, 1, 32, 192, 168, 1, 7, 10, 0, 0, 3}\nv := &dhcpv4.Routes{}\nif err := v.FromBytes(buf); err != nil {\n\tpanic(err)\n}", ["buf"])
add(K, "Routes/host-bits-set", "routes := []*dhcpv4.Route{\n\t{Dest: &net.IPNet{IP: net.IP{10, 17, 0, 0}, Mask: net.CIDRMask(12, 32)}, Router: net.IP{10, 0, 0, 1}},\n\t{Dest: &net.IPNet{IP: net.IP{172, 16, 5, 0}, Mask: net.CIDRMask(22, 32)}, Router: net.IP{10, 0, 0, 2}},\n\t{Dest: &net.IPNet{IP: net.IP{192, 168, 1, 7}, Mask: net.CIDRMask(31, 32)}, Router: net.IP{10, 0, 0, 3}},\n}\nv := dhcpv4.Routes(routes)", ["routes"])
add(K, "Routes/decoded-host-bits-set", "buf := []byte{12, 10, 17, 10, 0, 0, 1, 22, 172, 16, 5, 10, 0, 0, 2, 31, 192, 168, 1, 7, 10, 0, 0, 3, 1, 0xff, 10, 0, 0, 4}\nv := &dhcpv4.Routes{}\nif err := v.FromBytes(buf); err != nil {\n\tpanic(err)\n}", ["buf"])
add(K, "Route/one", "v := &dhcpv4.Route{Dest: &net.IPNet{IP: net.IP{10, 2, 0, 0}, Mask: net.CIDRMask(16, 32)}, Router: net.IP{10, 0, 0, 2}}")
add(K, "Strings/three-unsorted", 'ss := []string{"linuxboot", "b", "a"}\nv := dhcpv4.Strings(ss)', ["ss"])
add(K, "Strings/decoded", "buf := []byte{1, 'b', 2, 'a', 'c'}\nv := &dhcpv4.Strings{}\nif err := v.FromBytes(buf); err != nil {\n\tpanic(err)\n}", ["buf"])
add(K, "VIVCIdentifiers/two", VIVC + "\nv := dhcpv4.VIVCIdentifiers(ids)", ["ids"])
add(K, "VIVCIdentifiers/empty", "v := dhcpv4.VIVCIdentifiers{}")
add(K, "VIVCIdentifiers/decoded", "buf := []byte{0, 0, 0x11, 0x8b, 2, 'a', 'b', 0, 0, 0, 9, 0}\nv := &dhcpv4.VIVCIdentifiers{}\nif err := v.FromBytes(buf); err != nil {\n\tpanic(err)\n}", ["buf"])
add(K, "Archs/unsorted-7-0-11", "archs := []iana.Arch{iana.EFI_X86_64, iana.INTEL_X86PC, iana.EFI_ARM64}\nv := iana.Archs(archs)", ["archs"])
add(K, "Archs/unknown-and-repeat", "archs := []iana.Arch{iana.Arch(0xffff), iana.EFI_BC, iana.EFI_BC, iana.INTEL_X86PC}\nv := iana.Archs(archs)", ["archs"])
add(K, "Archs/decoded", "buf := []byte{0, 7, 0, 0, 0, 11}\nv := &iana.Archs{}\nif err := v.FromBytes(buf); err != nil {\n\tpanic(err)\n}", ["buf"])
add(K, "Labels/built-unsorted", 'names := []string{"b.example.org", "a.example.com"}\nv := &rfc1035label.Labels{Labels: names}', ["names"])
add(K, "Labels/new-empty", "v := rfc1035label.NewLabels()")
add(K, "Labels/decoded-with-pointer", "buf := []byte{7, 'e', 'x', 'a', 'm', 'p', 'l', 'e', 3, 'c', 'o', 'm', 0, 3, 's', 'u', 'b', 0xc0, 0}\nv, err := rfc1035label.FromBytes(buf)\nif err != nil {\n\tpanic(err)\n}", ["buf"])
add(K, "Labels/decoded-then-edited", "buf := []byte{1, 'b', 0, 1, 'a', 0}\nv, err := rfc1035label.FromBytes(buf)\nif err != nil {\n\tpanic(err)\n}\nv.Labels = append(v.Labels, \"c.d\")", ["buf"])
add(K, "Labels/decoded-partial-name", "buf := []byte{4, 'h', 'o', 's', 't'}\nv, err := rfc1035label.FromBytes(buf)\nif err != nil {\n\tpanic(err)\n}", ["buf"])
add(K, "Duration/3600s", "v := dhcpv4.Duration(3600 * time.Second)")
add(K, "String/host", 'v := dhcpv4.String("host")')
add(K, "Uint16/1500", "v := dhcpv4.Uint16(1500)")
add(K, "MessageType/discover", "v := dhcpv4.MessageTypeDiscover")
add(K, "MessageType/unknown-200", "v := dhcpv4.MessageType(200)")
add(K, "AutoConfiguration/1", "v := dhcpv4.AutoConfigure")
add(K, "OptionGeneric/4-bytes", "data := []byte{4, 3, 2, 1}\nv := dhcpv4.OptionGeneric{Data: data}", ["data"])
add(K, "RelayOptions/5-2-1", 'circuit, remote, link := []byte("eth0/1"), []byte{0xee, 0x01}, []byte{10, 9, 0, 1}\nv := dhcpv4.RelayOptions{Options: dhcpv4.Options{5: link, 2: remote, 1: circuit}}', ["circuit", "remote", "link"])
add(K, "Options-map/zero-length-and-long", 'prl, long := []byte{3, 1, 15}, bytes.Repeat([]byte{0xab}, 300)\nv := dhcpv4.Options{55: prl, 12: []byte("host"), 254: {}, 224: long, 82: {1, 2, \'a\', \'b\'}}', ["prl", "long"])
add(K, "Options-map/pad-and-end-keys", "v := dhcpv4.Options{0: {1}, 255: {2}, 53: {1}}")
add(K, "OpcodeType/request", "v := dhcpv4.OpcodeBootRequest")
add(K, "TransactionID", "v := dhcpv4.TransactionID{0x11, 0x22, 0x33, 0x44}")
add(K, "OptionCode/router", "v := dhcpv4.OptionRouter")
add(K, "GenericOptionCode/224", "v := dhcpv4.GenericOptionCode(224)")
add(K, "iana.HWType/ethernet", "v := iana.HWTypeEthernet")
add(K, "iana.Arch/7", "v := iana.EFI_X86_64")
add(K, "iana.StatusCode/2", "v := iana.StatusNoAddrsAvail")
add(K, "iana.EnterpriseID/4491", "v := iana.EnterpriseID(4491)")

# ------------------------------------------------------------ dhcpv4.Option from every Opt* constructor
K = "v4-option"
add(K, "OptParameterRequestList/unsorted-3-1-15", CODES + "\nv := dhcpv4.OptParameterRequestList(codes...)", ["codes"])
add(K, "OptParameterRequestList/descending-20", DESC + "\nv := dhcpv4.OptParameterRequestList(codes...)", ["codes"])
add(K, "OptParameterRequestList/sorted", "codes := []dhcpv4.OptionCode{dhcpv4.OptionSubnetMask, dhcpv4.OptionRouter}\nv := dhcpv4.OptParameterRequestList(codes...)", ["codes"])
add(K, "OptParameterRequestList/none", "v := dhcpv4.OptParameterRequestList()")
for ctor in ["OptRouter", "OptNTPServers", "OptNetBIOSNameServers", "OptDNS"]:
    add(K, ctor + "/two-descending", "ips := []net.IP{{10, 0, 0, 2}, {10, 0, 0, 1}}\nv := dhcpv4.%s(ips...)" % ctor, ["ips"])
add(K, "OptRouter/16-byte-form", 'ips := []net.IP{net.ParseIP("10.0.0.2")}\nv := dhcpv4.OptRouter(ips...)', ["ips"])
add(K, "OptClasslessStaticRoute/three", ROUTES + "\nv := dhcpv4.OptClasslessStaticRoute(routes...)", ["routes"])
add(K, "OptUserClass/linuxboot", 'v := dhcpv4.OptUserClass("linuxboot")')
add(K, "OptRFC3004UserClass/three", 'ss := []string{"linuxboot", "b", "a"}\nv := dhcpv4.OptRFC3004UserClass(ss)', ["ss"])
add(K, "OptVIVC/two", VIVC + "\nv := dhcpv4.OptVIVC(ids...)", ["ids"])
add(K, "OptClientArch/unsorted", "archs := []iana.Arch{iana.EFI_X86_64, iana.INTEL_X86PC, iana.EFI_ARM64}\nv := dhcpv4.OptClientArch(archs...)", ["archs"])
add(K, "OptDomainSearch/two", 'names := []string{"b.example.org", "a.example.com"}\nv := dhcpv4.OptDomainSearch(&rfc1035label.Labels{Labels: names})', ["names"])
add(K, "OptRelayAgentInfo/descending-subs", 'circuit, remote := []byte("eth0/1"), []byte{0xee, 0x01}\nv := dhcpv4.OptRelayAgentInfo(dhcpv4.OptGeneric(dhcpv4.GenericOptionCode(5), []byte{10, 9, 0, 1}), dhcpv4.OptGeneric(dhcpv4.AgentRemoteIDSubOption, remote), dhcpv4.OptGeneric(dhcpv4.AgentCircuitIDSubOption, circuit))', ["circuit", "remote"])
add(K, "OptMessageType/request", "v := dhcpv4.OptMessageType(dhcpv4.MessageTypeRequest)")
for ctor in ["OptDomainName", "OptHostName", "OptRootPath", "OptBootFileName", "OptTFTPServerName", "OptClassIdentifier", "OptMessage"]:
    add(K, ctor, 'v := dhcpv4.%s("some.text/value")' % ctor)
for ctor in ["OptIPAddressLeaseTime", "OptRenewTimeValue", "OptRebindingTimeValue", "OptIPv6OnlyPreferred"]:
    add(K, ctor, "v := dhcpv4.%s(0x00010e10 * time.Second)" % ctor)
for ctor in ["OptBroadcastAddress", "OptRequestedIPAddress", "OptServerIdentifier"]:
    add(K, ctor, "ip := net.IP{192, 168, 0, 1}\nv := dhcpv4.%s(ip)" % ctor, ["ip"])
add(K, "OptSubnetMask", "mask := net.IPMask{255, 255, 255, 0}\nv := dhcpv4.OptSubnetMask(mask)", ["mask"])
add(K, "OptMaxMessageSize", "v := dhcpv4.OptMaxMessageSize(1500)")
add(K, "OptAutoConfigure", "v := dhcpv4.OptAutoConfigure(dhcpv4.AutoConfigure)")
add(K, "OptGeneric/224", "data := []byte{4, 3, 2, 1}\nv := dhcpv4.OptGeneric(dhcpv4.GenericOptionCode(224), data)", ["data"])
add(K, "OptGeneric/empty", "v := dhcpv4.OptGeneric(dhcpv4.GenericOptionCode(254), nil)")
add(K, "OptClientIdentifier", "ident := []byte{1, 0xa0, 0xa1, 0xa2, 0xa3, 0xa4, 0xa5}\nv := dhcpv4.OptClientIdentifier(ident)", ["ident"])

# ------------------------------------------------------------ With* modifiers applied to a fresh packet
K = "v4-packet"
def mod4(name, pre, call, held=()):
    code = (pre + "\n" if pre else "") + "v := " + BASE4 + "\n" + call + "(v)"
    add(K, "modifier/" + name, code, held)

mod4("WithTransactionID", "", "dhcpv4.WithTransactionID(dhcpv4.TransactionID{9, 8, 7, 6})")
for m in ["WithClientIP", "WithYourIP", "WithServerIP", "WithGatewayIP", "WithRelay"]:
    mod4(m, "ip := net.IP{172, 16, 0, 9}", "dhcpv4.%s(ip)" % m, ["ip"])
mod4("WithClientIP-16-byte", 'ip := net.ParseIP("172.16.0.9")', "dhcpv4.WithClientIP(ip)", ["ip"])
REQ = 'req := ' + BASE4 + '\nreq.UpdateOption(dhcpv4.OptParameterRequestList(dhcpv4.OptionRouter, dhcpv4.OptionSubnetMask, dhcpv4.OptionDomainName))\nreq.UpdateOption(dhcpv4.OptClientIdentifier([]byte{1, 2, 3}))'
mod4("WithOptionCopied-55", REQ, "dhcpv4.WithOptionCopied(req, dhcpv4.OptionParameterRequestList)", ["req"])
mod4("WithReply", REQ, "dhcpv4.WithReply(req)", ["req"])
mod4("WithHWType", "", "dhcpv4.WithHWType(iana.HWTypeInfiniband)")
mod4("WithBroadcast-true", "", "dhcpv4.WithBroadcast(true)")
mod4("WithBroadcast-false", "", "dhcpv4.WithBroadcast(false)")
mod4("WithHwAddr", "mac := net.HardwareAddr{2, 4, 6, 8, 10, 12}", "dhcpv4.WithHwAddr(mac)", ["mac"])
mod4("WithOption-PRL-unsorted", CODES, "dhcpv4.WithOption(dhcpv4.OptParameterRequestList(codes...))", ["codes"])
mod4("WithoutOption", "", "dhcpv4.WithoutOption(dhcpv4.OptionRouter)")
mod4("WithUserClass-plain", "", 'dhcpv4.WithUserClass("linuxboot", false)')
mod4("WithUserClass-rfc3004", "", 'dhcpv4.WithUserClass("linuxboot", true)')
mod4("WithNetboot", "", "dhcpv4.WithNetboot")
mod4("WithMessageType", "", "dhcpv4.WithMessageType(dhcpv4.MessageTypeInform)")
mod4("WithRequestedOptions-unsorted", CODES, "dhcpv4.WithRequestedOptions(codes...)", ["codes"])
mod4("WithNetmask", "mask := net.IPMask{255, 255, 0, 0}", "dhcpv4.WithNetmask(mask)", ["mask"])
mod4("WithLeaseTime", "", "dhcpv4.WithLeaseTime(3600)")
mod4("WithIPv6OnlyPreferred", "", "dhcpv4.WithIPv6OnlyPreferred(300)")
mod4("WithDomainSearchList", 'names := []string{"b.example.org", "a.example.com"}', "dhcpv4.WithDomainSearchList(names...)", ["names"])
mod4("WithGeneric", "data := []byte{4, 3, 2, 1}", "dhcpv4.WithGeneric(dhcpv4.GenericOptionCode(224), data)", ["data"])
mod4("WithRouter", "ips := []net.IP{{10, 0, 0, 2}, {10, 0, 0, 1}}", "dhcpv4.WithRouter(ips...)", ["ips"])
mod4("WithDNS", "ips := []net.IP{{10, 0, 0, 2}, {10, 0, 0, 1}}", "dhcpv4.WithDNS(ips...)", ["ips"])

# ------------------------------------------------------------ built DHCPv4 packets
def pkt(name, body, held=(), pre=""):
    code = (pre + "\n" if pre else "") + "v := " + BASE4 + ("\n" + body if body else "")
    add(K, "built/" + name, code, held)

U = "v.UpdateOption(dhcpv4.%s)"
pkt("no-options", "")
add(K, "built/zero-value-packet", "v := &dhcpv4.DHCPv4{}")
add(K, "built/new-with-fixed-xid", "v, err := dhcpv4.New(dhcpv4.WithTransactionID(dhcpv4.TransactionID{1, 2, 3, 4}))\nif err != nil {\n\tpanic(err)\n}")
pkt("message-type-discover", U % "OptMessageType(dhcpv4.MessageTypeDiscover)")
pkt("PRL-unsorted-3-1-15", U % "OptParameterRequestList(codes...)", ["codes"], pre=CODES)
pkt("PRL-descending-20", U % "OptParameterRequestList(codes...)", ["codes"], pre=DESC)
pkt("PRL-empty", U % "OptParameterRequestList()")
pkt("PRL-300-codes-split", "var codes []dhcpv4.OptionCode\nfor i := 0; i < 300; i++ {\n\tcodes = append(codes, dhcpv4.GenericOptionCode(255-i%250))\n}\n" + U % "OptParameterRequestList(codes...)")
pkt("router-one", U % "OptRouter(net.IP{10, 0, 0, 1})")
pkt("router-three-descending", U % "OptRouter(ips...)", ["ips"], pre="ips := []net.IP{{10, 0, 0, 3}, {10, 0, 0, 2}, {10, 0, 0, 1}}")
pkt("dns-ntp-netbios", "\n".join([U % "OptDNS(net.IP{8, 8, 8, 8}, net.IP{1, 1, 1, 1})", U % "OptNTPServers(net.IP{10, 0, 0, 5})", U % "OptNetBIOSNameServers(net.IP{10, 0, 0, 6}, net.IP{10, 0, 0, 7})"]))
pkt("classless-routes", U % "OptClasslessStaticRoute(routes...)", ["routes"], pre=ROUTES)
pkt("user-class-plain", U % 'OptUserClass("linuxboot")')
pkt("user-class-rfc3004", U % 'OptRFC3004UserClass([]string{"linuxboot", "b", "a"})')
pkt("vivc", U % "OptVIVC(ids...)", ["ids"], pre=VIVC)
pkt("client-arch-unsorted", U % "OptClientArch(iana.EFI_X86_64, iana.INTEL_X86PC, iana.EFI_ARM64)")
pkt("domain-search", U % 'OptDomainSearch(&rfc1035label.Labels{Labels: []string{"b.example.org", "a.example.com"}})')
pkt("relay-agent-info", U % 'OptRelayAgentInfo(dhcpv4.OptGeneric(dhcpv4.GenericOptionCode(5), []byte{10, 9, 0, 1}), dhcpv4.OptGeneric(dhcpv4.AgentRemoteIDSubOption, []byte{0xee, 1}), dhcpv4.OptGeneric(dhcpv4.AgentCircuitIDSubOption, []byte("eth0/1")))')
pkt("strings-all", "\n".join(U % ('%s("%s")' % (c, t)) for c, t in [("OptHostName", "host"), ("OptDomainName", "example.org"), ("OptRootPath", "/srv/root"), ("OptBootFileName", "pxelinux.0"), ("OptTFTPServerName", "tftp.example.org"), ("OptClassIdentifier", "PXEClient"), ("OptMessage", "no lease")]))
pkt("durations-all", "\n".join(U % ("%s(%s * time.Second)" % (c, t)) for c, t in [("OptIPAddressLeaseTime", "0x00010e10"), ("OptRenewTimeValue", "0x00008708"), ("OptRebindingTimeValue", "0x0000ec4e"), ("OptIPv6OnlyPreferred", "300")]))
pkt("addresses-and-mask", "\n".join([U % "OptBroadcastAddress(net.IP{10, 0, 0, 255})", U % "OptRequestedIPAddress(net.IP{10, 0, 0, 9})", U % "OptServerIdentifier(net.IP{10, 0, 0, 1})", U % "OptSubnetMask(net.IPMask{255, 255, 255, 0})"]))
pkt("maxsize-autoconf", "\n".join([U % "OptMaxMessageSize(1500)", U % "OptAutoConfigure(dhcpv4.AutoConfigure)"]))
pkt("generic-unknown", "\n".join([U % "OptGeneric(dhcpv4.GenericOptionCode(224), []byte{4, 3, 2, 1})", U % "OptGeneric(dhcpv4.GenericOptionCode(254), nil)", U % "OptGeneric(dhcpv4.OptionVendorSpecificInformation, []byte{1, 2, 0xaa, 0xbb})"]))
pkt("split-300-and-600", "long := bytes.Repeat([]byte{0xab, 0xcd, 0xef}, 100)\n" + U % "OptGeneric(dhcpv4.GenericOptionCode(224), long)" + "\n" + U % "OptGeneric(dhcpv4.OptionVendorSpecificInformation, bytes.Repeat([]byte{7}, 600))")
pkt("inserted-descending", "\n".join(U % x for x in ["OptGeneric(dhcpv4.GenericOptionCode(254), []byte{1})", "OptRelayAgentInfo(dhcpv4.OptGeneric(dhcpv4.AgentCircuitIDSubOption, []byte(\"c\")))", "OptClientIdentifier([]byte{1, 2, 3})", "OptParameterRequestList(dhcpv4.OptionDomainName, dhcpv4.OptionRouter, dhcpv4.OptionSubnetMask)", "OptMessageType(dhcpv4.MessageTypeRequest)", 'OptHostName("h")', "OptSubnetMask(net.IPMask{255, 0, 0, 0})"]))
pkt("typical-discover", "\n".join(U % x for x in ["OptMessageType(dhcpv4.MessageTypeDiscover)", "OptParameterRequestList(dhcpv4.OptionDomainName, dhcpv4.OptionDomainNameServer, dhcpv4.OptionRouter, dhcpv4.OptionSubnetMask)", "OptClientIdentifier([]byte{1, 0xa0, 0xa1, 0xa2, 0xa3, 0xa4, 0xa5})", 'OptHostName("client7")', "OptMaxMessageSize(1500)"]))
pkt("typical-ack", "\n".join(U % x for x in ["OptMessageType(dhcpv4.MessageTypeAck)", "OptServerIdentifier(net.IP{10, 0, 0, 1})", "OptIPAddressLeaseTime(3600 * time.Second)", "OptSubnetMask(net.IPMask{255, 255, 255, 0})", "OptRouter(net.IP{10, 0, 0, 1})", "OptDNS(net.IP{10, 0, 0, 2}, net.IP{10, 0, 0, 3})", 'OptDomainName("example.org")', "OptClasslessStaticRoute(&dhcpv4.Route{Dest: &net.IPNet{IP: net.IP{10, 9, 0, 0}, Mask: net.CIDRMask(16, 32)}, Router: net.IP{10, 0, 0, 4}})"]))
pkt("everything-typed", "\n".join(U % x for x in ["OptMessageType(dhcpv4.MessageTypeOffer)", "OptParameterRequestList(dhcpv4.OptionDomainName, dhcpv4.OptionRouter, dhcpv4.OptionSubnetMask)", "OptRouter(net.IP{10, 0, 0, 2}, net.IP{10, 0, 0, 1})", "OptDNS(net.IP{10, 0, 0, 3})", "OptClasslessStaticRoute(&dhcpv4.Route{Dest: &net.IPNet{IP: net.IP{10, 9, 0, 0}, Mask: net.CIDRMask(16, 32)}, Router: net.IP{10, 0, 0, 4}})", 'OptRFC3004UserClass([]string{"b", "a"})', "OptVIVC(dhcpv4.VIVCIdentifier{EntID: 9, Data: []byte{3, 2, 1}})", "OptClientArch(iana.EFI_X86_64, iana.INTEL_X86PC)", 'OptDomainSearch(&rfc1035label.Labels{Labels: []string{"b.example.org", "a.example.com"}})', "OptRelayAgentInfo(dhcpv4.OptGeneric(dhcpv4.AgentRemoteIDSubOption, []byte{0xee}), dhcpv4.OptGeneric(dhcpv4.AgentCircuitIDSubOption, []byte(\"c\")))", "OptIPAddressLeaseTime(3600 * time.Second)", "OptSubnetMask(net.IPMask{255, 255, 255, 0})", "OptMaxMessageSize(576)", "OptAutoConfigure(dhcpv4.DoNotAutoConfigure)", 'OptHostName("h")', "OptGeneric(dhcpv4.GenericOptionCode(224), []byte{9})"]))
add(K, "built/malformed-typed-values", "v := " + BASE4 + "\nv.Options = dhcpv4.Options{55: {}, 3: {10, 0, 0}, 121: {24, 10}, 82: {1}, 77: {5, 'a'}, 124: {0, 0, 0, 9, 7, 1}, 93: {0}, 119: {0xc0}, 53: {1, 2}, 51: {0, 0, 1}, 1: {255, 255}, 57: {1}, 116: {}, 54: {1, 2, 3, 4, 5}}")
add(K, "built/relay-agent-info-repeated-suboptions", "v := " + BASE4 + "\nv.Options = dhcpv4.Options{82: {1, 2, 'a', 'b', 1, 3, 'c', 'd', 'e', 2, 1, 'r'}, 53: {1}}")
add(K, "built/relay-agent-info-interleaved-suboptions", "v := " + BASE4 + "\nv.Options = dhcpv4.Options{82: {1, 2, 'a', 'b', 2, 2, 'r', 's', 1, 3, 'c', 'd', 'e', 9, 0}, 43: {1, 1, 'x', 1, 2, 'y', 'z'}, 53: {1}}")
add(K, "built/zero-length-values", "v := " + BASE4 + "\nv.Options = dhcpv4.Options{12: {}, 254: {}, 55: {}, 82: {}, 43: nil}")
add(K, "built/pad-and-end-keys-in-map", "v := " + BASE4 + "\nv.Options = dhcpv4.Options{0: {1}, 255: {2}, 53: {1}}")
add(K, "built/nil-options-map", "v := " + BASE4 + "\nv.Options = nil")
add(K, "built/header-16-byte-ips", 'v := ' + BASE4 + '\nv.ClientIPAddr, v.YourIPAddr, v.ServerIPAddr, v.GatewayIPAddr = net.ParseIP("10.1.0.1"), net.ParseIP("10.2.0.2"), net.ParseIP("10.3.0.3"), net.ParseIP("10.4.0.4")')
add(K, "built/header-maximal-fields", 'v := ' + BASE4 + '\nv.ClientHWAddr = net.HardwareAddr{1, 2, 3, 4, 5, 6, 7, 8, 9, 10, 11, 12, 13, 14, 15, 16}\nv.ServerHostName = strings.Repeat("s", 63)\nv.BootFileName = strings.Repeat("f", 127)\nv.Flags = 0xffff\nv.HopCount = 255\nv.OpCode = dhcpv4.OpcodeBootReply')
add(K, "built/header-nil-addresses", "v := &dhcpv4.DHCPv4{OpCode: dhcpv4.OpcodeBootReply, TransactionID: dhcpv4.TransactionID{1, 2, 3, 4}, Options: dhcpv4.Options{53: {2}}}")

# ------------------------------------------------------------ DHCPv6 typed values
K = "v6-typed-value"
add(K, "OptionCodes/descending", "codes := []dhcpv6.OptionCode{dhcpv6.OptionBootfileURL, dhcpv6.OptionDomainSearchList, dhcpv6.OptionDNSRecursiveNameServer}\nv := dhcpv6.OptionCodes(codes)", ["codes"])
add(K, "OptionCodes/empty", "v := dhcpv6.OptionCodes{}")
add(K, "DUIDLLT", "mac := net.HardwareAddr{0xa0, 0xa1, 0xa2, 0xa3, 0xa4, 0xa5}\nv := &dhcpv6.DUIDLLT{HWType: iana.HWTypeEthernet, Time: 0x01020304, LinkLayerAddr: mac}", ["mac"])
add(K, "DUIDLL", "mac := net.HardwareAddr{0xa0, 0xa1, 0xa2, 0xa3, 0xa4, 0xa5}\nv := &dhcpv6.DUIDLL{HWType: iana.HWTypeEthernet, LinkLayerAddr: mac}", ["mac"])
add(K, "DUIDEN", "id := []byte{8, 7, 6, 5}\nv := &dhcpv6.DUIDEN{EnterpriseNumber: 0x01020304, EnterpriseIdentifier: id}", ["id"])
add(K, "DUIDUUID", "v := &dhcpv6.DUIDUUID{UUID: [16]byte{1, 2, 3, 4, 5, 6, 7, 8, 9, 10, 11, 12, 13, 14, 15, 16}}")
add(K, "DUIDOpaque", "data := []byte{9, 8, 7}\nv := &dhcpv6.DUIDOpaque{Type: 5, Data: data}", ["data"])
add(K, "DUIDLLT-by-value", "mac := net.HardwareAddr{0xa0, 0xa1, 0xa2, 0xa3, 0xa4, 0xa5}\nv := dhcpv6.DUIDLLT{HWType: iana.HWTypeEthernet, Time: 0x01020304, LinkLayerAddr: mac}", ["mac"])
add(K, "DUID-decoded-llt", "buf := []byte{0, 1, 0, 1, 1, 2, 3, 4, 0xa0, 0xa1, 0xa2, 0xa3, 0xa4, 0xa5}\nv, err := dhcpv6.DUIDFromBytes(buf)\nif err != nil {\n\tpanic(err)\n}", ["buf"])
add(K, "DUID-decoded-en", "buf := []byte{0, 2, 1, 2, 3, 4, 8, 7, 6, 5}\nv, err := dhcpv6.DUIDFromBytes(buf)\nif err != nil {\n\tpanic(err)\n}", ["buf"])
add(K, "Options-slice", 'opts := []dhcpv6.Option{dhcpv6.OptElapsedTime(10 * time.Millisecond), dhcpv6.OptDNS(net.ParseIP("2001:db8::2"), net.ParseIP("2001:db8::1")), dhcpv6.OptRequestedOption(59, 24, 23)}\nv := dhcpv6.Options(opts)', ["opts"])
add(K, "MessageOptions", 'opts := []dhcpv6.Option{dhcpv6.OptRequestedOption(59, 24, 23), dhcpv6.OptClientArchType(iana.EFI_X86_64, iana.INTEL_X86PC), &dhcpv6.OptIANA{IaId: [4]byte{1, 2, 3, 4}}}\nv := dhcpv6.MessageOptions{Options: opts}', ["opts"])
add(K, "RelayOptions", 'id := []byte("if7")\nv := dhcpv6.RelayOptions{Options: dhcpv6.Options{dhcpv6.OptInterfaceID(id), &dhcpv6.OptRemoteID{EnterpriseNumber: 9, RemoteID: []byte{1, 2}}}}', ["id"])
add(K, "MessageType", "v := dhcpv6.MessageTypeSolicit")
add(K, "TransactionID", "v := dhcpv6.TransactionID{1, 2, 3}")
add(K, "OptionCode", "v := dhcpv6.OptionDNSRecursiveNameServer")
add(K, "DUIDType", "v := dhcpv6.DUID_LLT")
add(K, "NetworkInterfaceType", "v := dhcpv6.NII_PXE_GEN_I")

# ------------------------------------------------------------ DHCPv6 option constructors with caller-held arguments
K = "v6-option"
add(K, "ctor/OptClientID-llt", "mac := net.HardwareAddr{0xa0, 0xa1, 0xa2, 0xa3, 0xa4, 0xa5}\nv := dhcpv6.OptClientID(&dhcpv6.DUIDLLT{HWType: iana.HWTypeEthernet, Time: 0x01020304, LinkLayerAddr: mac})", ["mac"])
add(K, "ctor/OptServerID-en", "id := []byte{8, 7, 6, 5}\nv := dhcpv6.OptServerID(&dhcpv6.DUIDEN{EnterpriseNumber: 0x01020304, EnterpriseIdentifier: id})", ["id"])
add(K, "ctor/OptRequestedOption-descending", "codes := []dhcpv6.OptionCode{dhcpv6.OptionBootfileURL, dhcpv6.OptionDomainSearchList, dhcpv6.OptionDNSRecursiveNameServer}\nv := dhcpv6.OptRequestedOption(codes...)", ["codes"])
add(K, "ctor/OptElapsedTime", "v := dhcpv6.OptElapsedTime(2580 * time.Millisecond)")
add(K, "ctor/OptRelayMessage", "inner := &dhcpv6.Message{MessageType: dhcpv6.MessageTypeSolicit, TransactionID: dhcpv6.TransactionID{1, 2, 3}, Options: dhcpv6.MessageOptions{Options: dhcpv6.Options{dhcpv6.OptRequestedOption(59, 24, 23), dhcpv6.OptElapsedTime(0)}}}\nv := dhcpv6.OptRelayMessage(inner)")
add(K, "ctor/OptInterfaceID", 'id := []byte("if7")\nv := dhcpv6.OptInterfaceID(id)', ["id"])
add(K, "ctor/OptDNS-descending", 'ips := []net.IP{net.ParseIP("2001:db8::2"), net.ParseIP("2001:db8::1")}\nv := dhcpv6.OptDNS(ips...)', ["ips"])
add(K, "ctor/OptDomainSearchList", 'names := []string{"b.example.org", "a.example.com"}\nv := dhcpv6.OptDomainSearchList(&rfc1035label.Labels{Labels: names})', ["names"])
add(K, "ctor/OptBootFileURL", 'v := dhcpv6.OptBootFileURL("http://[2001:db8::1]/boot.efi")')
add(K, "ctor/OptBootFileParam", 'params := []string{"root=/dev/nfs", "ip=dhcp", "a"}\nv := dhcpv6.OptBootFileParam(params...)', ["params"])
add(K, "ctor/OptClientArchType-unsorted", "archs := []iana.Arch{iana.EFI_X86_64, iana.INTEL_X86PC, iana.EFI_ARM64}\nv := dhcpv6.OptClientArchType(archs...)", ["archs"])
add(K, "ctor/OptClientLinkLayerAddress", "mac := net.HardwareAddr{0xa0, 0xa1, 0xa2, 0xa3, 0xa4, 0xa5}\nv := dhcpv6.OptClientLinkLayerAddress(iana.HWTypeEthernet, mac)", ["mac"])
add(K, "ctor/OptInformationRefreshTime", "v := dhcpv6.OptInformationRefreshTime(86400 * time.Second)")
add(K, "ctor/OptRelayPort", "v := dhcpv6.OptRelayPort(547)")
add(K, "ctor/OptIANA-T1-greater-than-T2", 'v := &dhcpv6.OptIANA{IaId: [4]byte{1, 2, 3, 4}, T1: 7200 * time.Second, T2: 3600 * time.Second, Options: dhcpv6.IdentityOptions{Options: dhcpv6.Options{&dhcpv6.OptIAAddress{IPv6Addr: net.ParseIP("2001:db8::9"), PreferredLifetime: 7200 * time.Second, ValidLifetime: 3600 * time.Second}, &dhcpv6.OptStatusCode{StatusCode: iana.StatusSuccess, StatusMessage: "ok"}}}}')
add(K, "ctor/OptIAPD-T1-greater-than-T2", 'v := &dhcpv6.OptIAPD{IaId: [4]byte{1, 2, 3, 4}, T1: 7200 * time.Second, T2: 3600 * time.Second, Options: dhcpv6.PDOptions{Options: dhcpv6.Options{&dhcpv6.OptIAPrefix{PreferredLifetime: 7200 * time.Second, ValidLifetime: 3600 * time.Second, Prefix: &net.IPNet{IP: net.ParseIP("2001:db8:0:ff00::"), Mask: net.CIDRMask(56, 128)}}}}}')
add(K, "ctor/OptIAPrefix-host-bits-set", 'v := &dhcpv6.OptIAPrefix{PreferredLifetime: time.Second, ValidLifetime: 2 * time.Second, Prefix: &net.IPNet{IP: net.ParseIP("2001:db8::ffff"), Mask: net.CIDRMask(32, 128)}}')
add(K, "ctor/OptUserClass", 'uc := [][]byte{[]byte("b"), []byte("a")}\nv := &dhcpv6.OptUserClass{UserClasses: uc}', ["uc"])
add(K, "ctor/OptVendorClass", 'data := [][]byte{[]byte("b"), []byte("a")}\nv := &dhcpv6.OptVendorClass{EnterpriseNumber: 9, Data: data}', ["data"])
add(K, "ctor/OptVendorOpts-descending", 'v := &dhcpv6.OptVendorOpts{EnterpriseNumber: 9, VendorOpts: dhcpv6.Options{&dhcpv6.OptionGeneric{OptionCode: 3, OptionData: []byte{1}}, &dhcpv6.OptionGeneric{OptionCode: 1, OptionData: []byte{2}}}}')
add(K, "ctor/OptFQDN", 'names := []string{"host.example.com"}\nv := &dhcpv6.OptFQDN{Flags: 1, DomainName: &rfc1035label.Labels{Labels: names}}', ["names"])
add(K, "ctor/OptDHCP4oDHCP6Server-descending", 'ips := []net.IP{net.ParseIP("2001:db8::2"), net.ParseIP("2001:db8::1")}\nv := &dhcpv6.OptDHCP4oDHCP6Server{DHCP4oDHCP6Servers: ips}', ["ips"])
add(K, "ctor/OptNTPServer-mixed", 'srv := dhcpv6.NTPSuboptionSrvAddr(net.ParseIP("2001:db8::2"))\nmc := dhcpv6.NTPSuboptionMCAddr(net.ParseIP("ff02::101"))\nv := &dhcpv6.OptNTPServer{Suboptions: dhcpv6.Options{&dhcpv6.NTPSuboptionSrvFQDN{Labels: rfc1035label.Labels{Labels: []string{"ntp.example.com"}}}, &mc, &srv}}')
add(K, "ctor/OptionGeneric", "data := []byte{3, 2, 1}\nv := &dhcpv6.OptionGeneric{OptionCode: 65535, OptionData: data}", ["data"])
add(K, "ctor/OptDHCPv4Msg-PRL-unsorted", "inner := " + BASE4 + "\ninner.UpdateOption(dhcpv4.OptParameterRequestList(dhcpv4.OptionDomainName, dhcpv4.OptionRouter, dhcpv4.OptionSubnetMask))\nv := &dhcpv6.OptDHCPv4Msg{Msg: inner}")

# ------------------------------------------------------------ DHCPv6 With* modifiers applied to a fresh message
K = "v6-message"
def mod6(name, pre, call, held=()):
    code = (pre + "\n" if pre else "") + "v := " + BASE6 + "\n" + call + "(v)"
    add(K, "modifier/" + name, code, held)

mod6("WithOption", "", "dhcpv6.WithOption(dhcpv6.OptElapsedTime(10 * time.Millisecond))")
mod6("WithClientID", "mac := net.HardwareAddr{0xa0, 0xa1, 0xa2, 0xa3, 0xa4, 0xa5}", "dhcpv6.WithClientID(&dhcpv6.DUIDLL{HWType: iana.HWTypeEthernet, LinkLayerAddr: mac})", ["mac"])
mod6("WithServerID", "id := []byte{8, 7, 6, 5}", "dhcpv6.WithServerID(&dhcpv6.DUIDEN{EnterpriseNumber: 9, EnterpriseIdentifier: id})", ["id"])
mod6("WithNetboot", "", "dhcpv6.WithNetboot")
mod6("WithFQDN", "", 'dhcpv6.WithFQDN(1, "host.example.com")')
mod6("WithUserClass", 'uc := []byte("linuxboot")', "dhcpv6.WithUserClass(uc)", ["uc"])
mod6("WithArchType", "", "dhcpv6.WithArchType(iana.EFI_X86_64)")
mod6("WithIANA", 'addr := dhcpv6.OptIAAddress{IPv6Addr: net.ParseIP("2001:db8::9"), PreferredLifetime: 3600 * time.Second, ValidLifetime: 7200 * time.Second}', "dhcpv6.WithIANA(addr)")
mod6("WithIAID", "", "dhcpv6.WithIAID([4]byte{1, 2, 3, 4})")
mod6("WithIATA", 'addr := dhcpv6.OptIAAddress{IPv6Addr: net.ParseIP("2001:db8::9"), PreferredLifetime: 3600 * time.Second, ValidLifetime: 7200 * time.Second}', "dhcpv6.WithIATA([4]byte{1, 2, 3, 4}, addr)")
mod6("WithDNS-descending", 'ips := []net.IP{net.ParseIP("2001:db8::2"), net.ParseIP("2001:db8::1")}', "dhcpv6.WithDNS(ips...)", ["ips"])
mod6("WithDomainSearchList", 'names := []string{"b.example.org", "a.example.com"}', "dhcpv6.WithDomainSearchList(names...)", ["names"])
mod6("WithRapidCommit", "", "dhcpv6.WithRapidCommit")
mod6("WithRequestedOptions-descending", "codes := []dhcpv6.OptionCode{dhcpv6.OptionBootfileURL, dhcpv6.OptionDomainSearchList, dhcpv6.OptionDNSRecursiveNameServer}", "dhcpv6.WithRequestedOptions(codes...)", ["codes"])
mod6("WithDHCP4oDHCP6Server", 'ips := []net.IP{net.ParseIP("2001:db8::2"), net.ParseIP("2001:db8::1")}', "dhcpv6.WithDHCP4oDHCP6Server(ips...)", ["ips"])
mod6("WithIAPD", 'prefix := &dhcpv6.OptIAPrefix{PreferredLifetime: 3600 * time.Second, ValidLifetime: 7200 * time.Second, Prefix: &net.IPNet{IP: net.ParseIP("2001:db8:0:ff00::"), Mask: net.CIDRMask(56, 128)}}', "dhcpv6.WithIAPD([4]byte{1, 2, 3, 4}, prefix)")
mod6("WithClientLinkLayerAddress", "mac := net.HardwareAddr{0xa0, 0xa1, 0xa2, 0xa3, 0xa4, 0xa5}", "dhcpv6.WithClientLinkLayerAddress(iana.HWTypeEthernet, mac)", ["mac"])
mod6("WithInformationRefreshTime", "", "dhcpv6.WithInformationRefreshTime(86400 * time.Second)")
add(K, "modifier/all-typed-accessors", 'v := ' + BASE6 + '''
for _, m := range []dhcpv6.Modifier{
	dhcpv6.WithClientID(&dhcpv6.DUIDLL{HWType: iana.HWTypeEthernet, LinkLayerAddr: net.HardwareAddr{0xa0, 0xa1, 0xa2, 0xa3, 0xa4, 0xa5}}),
	dhcpv6.WithServerID(&dhcpv6.DUIDEN{EnterpriseNumber: 9, EnterpriseIdentifier: []byte{8, 7}}),
	dhcpv6.WithRequestedOptions(dhcpv6.OptionBootfileURL, dhcpv6.OptionDomainSearchList, dhcpv6.OptionDNSRecursiveNameServer),
	dhcpv6.WithArchType(iana.EFI_X86_64), dhcpv6.WithIAID([4]byte{1, 2, 3, 4}), dhcpv6.WithIATA([4]byte{4, 3, 2, 1}),
	dhcpv6.WithIAPD([4]byte{9, 9, 9, 9}), dhcpv6.WithDNS(net.ParseIP("2001:db8::2"), net.ParseIP("2001:db8::1")),
	dhcpv6.WithDomainSearchList("b.example.org", "a.example.com"), dhcpv6.WithFQDN(1, "host.example.com"),
	dhcpv6.WithUserClass([]byte("uc")), dhcpv6.WithDHCP4oDHCP6Server(net.ParseIP("2001:db8::4")),
	dhcpv6.WithOption(dhcpv6.OptElapsedTime(10 * time.Millisecond)), dhcpv6.WithOption(dhcpv6.OptBootFileURL("tftp://h/f")),
	dhcpv6.WithOption(dhcpv6.OptBootFileParam("b", "a")), dhcpv6.WithOption(&dhcpv6.OptStatusCode{StatusCode: iana.StatusSuccess, StatusMessage: "ok"}),
	dhcpv6.WithOption(&dhcpv6.OptVendorClass{EnterpriseNumber: 9, Data: [][]byte{[]byte("b"), []byte("a")}}),
	dhcpv6.WithOption(&dhcpv6.OptVendorOpts{EnterpriseNumber: 9, VendorOpts: dhcpv6.Options{&dhcpv6.OptionGeneric{OptionCode: 3, OptionData: []byte{1}}}}),
	dhcpv6.WithOption(&dhcpv6.OptNTPServer{}), dhcpv6.WithInformationRefreshTime(86400 * time.Second),
} {
	m(v)
}''')

# ------------------------------------------------------------ "empty element in the middle" shapes
# (an accessor that filters, compacts or sorts its list in place is only visible when an empty /
# zero element is FOLLOWED by a non-empty one)
K = "v6-message"
def msg6(name, opts, held=(), pre=""):
    code = (pre + "\n" if pre else "") + "v := &dhcpv6.Message{MessageType: dhcpv6.MessageTypeRequest, TransactionID: dhcpv6.TransactionID{1, 2, 3}, Options: dhcpv6.MessageOptions{Options: dhcpv6.Options{" + opts + "}}}"
    add(K, "empty-middle/" + name, code, held)

msg6("user-class-a-empty-b", "&dhcpv6.OptUserClass{UserClasses: uc}", ["uc"], 'uc := [][]byte{[]byte("a"), {}, []byte("b")}')
msg6("user-class-empty-first", "&dhcpv6.OptUserClass{UserClasses: uc}", ["uc"], 'uc := [][]byte{{}, []byte("x"), {}, []byte("yz")}')
msg6("vendor-class-a-empty-b", "&dhcpv6.OptVendorClass{EnterpriseNumber: 9, Data: data}", ["data"], 'data := [][]byte{[]byte("a"), {}, []byte("b")}')
msg6("bootfile-param-a-empty-b", "dhcpv6.OptBootFileParam(params...)", ["params"], 'params := []string{"a", "", "b"}')
msg6("dns-unspecified-in-the-middle", "dhcpv6.OptDNS(ips...)", ["ips"], 'ips := []net.IP{net.ParseIP("2001:db8::2"), net.ParseIP("::"), net.ParseIP("2001:db8::1")}')
msg6("oro-code-0-in-the-middle", "dhcpv6.OptRequestedOption(codes...)", ["codes"], "codes := []dhcpv6.OptionCode{dhcpv6.OptionDomainSearchList, 0, dhcpv6.OptionDNSRecursiveNameServer}")
msg6("arch-0-in-the-middle", "dhcpv6.OptClientArchType(archs...)", ["archs"], "archs := []iana.Arch{iana.EFI_X86_64, iana.INTEL_X86PC, iana.EFI_ARM64}")
msg6("4o6-servers-unspecified-in-the-middle", "&dhcpv6.OptDHCP4oDHCP6Server{DHCP4oDHCP6Servers: ips}", ["ips"], 'ips := []net.IP{net.ParseIP("2001:db8::2"), net.ParseIP("::"), net.ParseIP("2001:db8::1")}')
msg6("domain-list-empty-name-in-the-middle", "dhcpv6.OptDomainSearchList(&rfc1035label.Labels{Labels: names})", ["names"], 'names := []string{"b.example.org", "", "a.example.com"}')
msg6("ia-na-zero-lifetime-address-in-the-middle", '&dhcpv6.OptIANA{IaId: [4]byte{1, 2, 3, 4}, T1: time.Second, T2: 2 * time.Second, Options: dhcpv6.IdentityOptions{Options: dhcpv6.Options{&dhcpv6.OptIAAddress{IPv6Addr: net.ParseIP("2001:db8::2"), PreferredLifetime: time.Second, ValidLifetime: time.Second}, &dhcpv6.OptStatusCode{StatusCode: iana.StatusSuccess}, &dhcpv6.OptIAAddress{IPv6Addr: net.ParseIP("::")}, &dhcpv6.OptIAAddress{IPv6Addr: net.ParseIP("2001:db8::1"), PreferredLifetime: time.Second, ValidLifetime: time.Second}}}}')
msg6("vendor-opts-empty-sub-option-in-the-middle", "&dhcpv6.OptVendorOpts{EnterpriseNumber: 9, VendorOpts: dhcpv6.Options{&dhcpv6.OptionGeneric{OptionCode: 3, OptionData: []byte{1}}, &dhcpv6.OptionGeneric{OptionCode: 2}, &dhcpv6.OptionGeneric{OptionCode: 1, OptionData: []byte{2}}}}")
msg6("ntp-empty-fqdn-in-the-middle", '&dhcpv6.OptNTPServer{Suboptions: dhcpv6.Options{&dhcpv6.NTPSuboptionSrvFQDN{Labels: rfc1035label.Labels{Labels: []string{"b.example"}}}, &dhcpv6.NTPSuboptionSrvFQDN{}, &dhcpv6.NTPSuboptionSrvFQDN{Labels: rfc1035label.Labels{Labels: []string{"a.example"}}}}}')
msg6("all-of-them", """&dhcpv6.OptUserClass{UserClasses: [][]byte{[]byte("a"), {}, []byte("b")}}, &dhcpv6.OptVendorClass{EnterpriseNumber: 9, Data: [][]byte{[]byte("a"), {}, []byte("b")}},
	dhcpv6.OptBootFileParam("a", "", "b"), dhcpv6.OptDNS(net.ParseIP("2001:db8::2"), net.ParseIP("::"), net.ParseIP("2001:db8::1")),
	dhcpv6.OptRequestedOption(dhcpv6.OptionDomainSearchList, 0, dhcpv6.OptionDNSRecursiveNameServer), dhcpv6.OptClientArchType(iana.EFI_X86_64, iana.INTEL_X86PC, iana.EFI_ARM64),
	&dhcpv6.OptDHCP4oDHCP6Server{DHCP4oDHCP6Servers: []net.IP{net.ParseIP("2001:db8::2"), net.ParseIP("::"), net.ParseIP("2001:db8::1")}}""")
add(K, "empty-middle/relayed-user-class-a-empty-b", """uc := [][]byte{[]byte("a"), {}, []byte("b")}
inner := &dhcpv6.Message{MessageType: dhcpv6.MessageTypeRequest, TransactionID: dhcpv6.TransactionID{1, 2, 3}, Options: dhcpv6.MessageOptions{Options: dhcpv6.Options{&dhcpv6.OptUserClass{UserClasses: uc}, dhcpv6.OptRequestedOption(24, 0, 23)}}}
v := &dhcpv6.RelayMessage{MessageType: dhcpv6.MessageTypeRelayForward, LinkAddr: net.ParseIP("2001:db8::a"), PeerAddr: net.ParseIP("fe80::b"), Options: dhcpv6.RelayOptions{Options: dhcpv6.Options{dhcpv6.OptInterfaceID([]byte("if1")), dhcpv6.OptRelayMessage(inner)}}}""", ["uc"])

K = "v4-packet"
add(K, "built/empty-middle-elements", "v := " + BASE4 + """
v.UpdateOption(dhcpv4.OptRFC3004UserClass([]string{"a", "", "b"}))
v.UpdateOption(dhcpv4.OptDNS(net.IP{10, 0, 0, 2}, net.IP{0, 0, 0, 0}, net.IP{10, 0, 0, 1}))
v.UpdateOption(dhcpv4.OptParameterRequestList(dhcpv4.OptionDomainName, dhcpv4.GenericOptionCode(0), dhcpv4.OptionRouter))
v.UpdateOption(dhcpv4.OptVIVC(dhcpv4.VIVCIdentifier{EntID: 9, Data: []byte{3}}, dhcpv4.VIVCIdentifier{EntID: 0}, dhcpv4.VIVCIdentifier{EntID: 4491, Data: []byte{1}}))
v.UpdateOption(dhcpv4.OptClientArch(iana.EFI_X86_64, iana.INTEL_X86PC, iana.EFI_ARM64))
v.UpdateOption(dhcpv4.OptDomainSearch(&rfc1035label.Labels{Labels: []string{"b.example.org", "", "a.example.com"}}))
v.UpdateOption(dhcpv4.OptRelayAgentInfo(dhcpv4.OptGeneric(dhcpv4.GenericOptionCode(5), []byte{1}), dhcpv4.OptGeneric(dhcpv4.AgentRemoteIDSubOption, nil), dhcpv4.OptGeneric(dhcpv4.AgentCircuitIDSubOption, []byte("c"))))""")
K = "v4-typed-value"
add(K, "Strings/a-empty-b", 'ss := []string{"a", "", "b"}\nv := dhcpv4.Strings(ss)', ["ss"])
add(K, "IPs/zero-in-the-middle", "ips := []net.IP{{10, 0, 0, 2}, {0, 0, 0, 0}, {10, 0, 0, 1}}\nv := dhcpv4.IPs(ips)", ["ips"])
K = "v6-option"
add(K, "ctor/OptUserClass-a-empty-b", 'uc := [][]byte{[]byte("a"), {}, []byte("b")}\nv := &dhcpv6.OptUserClass{UserClasses: uc}', ["uc"])
add(K, "ctor/OptVendorClass-a-empty-b", 'data := [][]byte{[]byte("a"), {}, []byte("b")}\nv := &dhcpv6.OptVendorClass{EnterpriseNumber: 9, Data: data}', ["data"])
add(K, "ctor/OptBootFileParam-a-empty-b", 'params := []string{"a", "", "b"}\nv := dhcpv6.OptBootFileParam(params...)', ["params"])

# ------------------------------------------------------------ output
def gostr(s):
    assert "`" not in s
    return "`" + s + "`"

out = []
out.append("// Code generated by gen_values.py; DO NOT EDIT.\n")
out.append("package c20\n")
out.append('import (\n\t"bytes"\n\t"net"\n\t"strings"\n\t"time"\n\n\t"github.com/insomniacslk/dhcp/dhcpv4"\n\t"github.com/insomniacslk/dhcp/dhcpv6"\n\t"github.com/insomniacslk/dhcp/iana"\n\t"github.com/insomniacslk/dhcp/rfc1035label"\n)\n')
out.append("var (\n\t_ = bytes.Repeat\n\t_ = strings.Repeat\n\t_ = time.Second\n\t_ net.IP\n\t_ dhcpv4.Option\n\t_ dhcpv6.Option\n\t_ iana.Arch\n\t_ rfc1035label.Labels\n)\n")
out.append("// listed returns the hand-listed values (see gen_values.py).\nfunc listed() []inst {\n\treturn []inst{")
for kind, name, code, held in E:
    body = "\n".join("\t\t\t" + l for l in code.split("\n"))
    hs = ", ".join('hold("%s", %s)' % (h, h) for h in held)
    out.append("\t\t{kind: %s, name: %s, src: %s, build: func() (any, []held) {\n%s\n\t\t\treturn v, []held{%s}\n\t\t}}," % (
        '"%s"' % kind, '"%s"' % name, gostr(code), body, hs))
out.append("\t}\n}")
sys.stdout.write("\n".join(out) + "\n")
