package c20

import (
	"net"

	"github.com/insomniacslk/dhcp/dhcpv4"
	"github.com/insomniacslk/dhcp/dhcpv4/ztpv4"
	"github.com/insomniacslk/dhcp/dhcpv6"
	"github.com/insomniacslk/dhcp/dhcpv6/ztpv6"
	"github.com/insomniacslk/dhcp/netboot"
	"verif/seq/roview"
)

// The library's package-level functions that read a packet or message (extractors, decapsulation, the builders that
// take it as their input): calling them is reading, and C20's statement covers them like the methods. Each becomes one
// more action on root values of the matching type; its rendered results take part in the "repeated calls return equal
// results" and "other observations unchanged" comparisons like any accessor's.

func errText(err error) string {
	if err == nil {
		return "<nil>"
	}
	return "error: " + err.Error()
}

type res struct {
	Value any
	Err   string
}

func init() {
	is6 := func(v any) bool { _, ok := v.(dhcpv6.DHCPv6); return ok && v != nil }
	isMsg := func(v any) bool { m, ok := v.(*dhcpv6.Message); return ok && m != nil }
	isRelay := func(v any) bool { m, ok := v.(*dhcpv6.RelayMessage); return ok && m != nil }
	is4 := func(v any) bool { p, ok := v.(*dhcpv4.DHCPv4); return ok && p != nil }
	reg := func(name string, applies func(any) bool, call func(any) any) {
		roview.RegisterHelper(roview.Helper{Name: name, Applies: applies, Call: call})
	}
	reg("dhcpv6.ExtractMAC(v)", is6, func(v any) any { r, err := dhcpv6.ExtractMAC(v.(dhcpv6.DHCPv6)); return res{[]byte(r), errText(err)} })
	reg("dhcpv6.DecapsulateRelay(v)", is6, func(v any) any { r, err := dhcpv6.DecapsulateRelay(v.(dhcpv6.DHCPv6)); return res{r, errText(err)} })
	reg("dhcpv6.DecapsulateRelayIndex(v, 0)", is6, func(v any) any {
		r, err := dhcpv6.DecapsulateRelayIndex(v.(dhcpv6.DHCPv6), 0)
		return res{r, errText(err)}
	})
	reg("dhcpv6.DecapsulateRelayIndex(v, -1)", is6, func(v any) any {
		r, err := dhcpv6.DecapsulateRelayIndex(v.(dhcpv6.DHCPv6), -1)
		return res{r, errText(err)}
	})
	reg("dhcpv6.GetTransactionID(v)", is6, func(v any) any { r, err := dhcpv6.GetTransactionID(v.(dhcpv6.DHCPv6)); return res{r, errText(err)} })
	reg("ztpv6.ParseVendorData(v)", is6, func(v any) any { r, err := ztpv6.ParseVendorData(v.(dhcpv6.DHCPv6)); return res{r, errText(err)} })
	reg("ztpv6.ParseRemoteID(v)", is6, func(v any) any { r, err := ztpv6.ParseRemoteID(v.(dhcpv6.DHCPv6)); return res{r, errText(err)} })
	reg("netboot.ConversationToNetconf([]dhcpv6.DHCPv6{v})", is6, func(v any) any {
		r, err := netboot.ConversationToNetconf([]dhcpv6.DHCPv6{v.(dhcpv6.DHCPv6)})
		return res{r, errText(err)}
	})
	reg("dhcpv6.EncapsulateRelay(v, RELAY-FORW, link, peer)", is6, func(v any) any {
		r, err := dhcpv6.EncapsulateRelay(v.(dhcpv6.DHCPv6), dhcpv6.MessageTypeRelayForward, net.ParseIP("2001:db8::9"), net.ParseIP("fe80::9"))
		if err != nil || r == nil {
			return res{nil, errText(err)}
		}
		return res{r.ToBytes(), errText(err)}
	})
	reg("netboot.GetNetConfFromPacketv6(v)", isMsg, func(v any) any { r, err := netboot.GetNetConfFromPacketv6(v.(*dhcpv6.Message)); return res{r, errText(err)} })
	for _, b := range []struct {
		n string
		f func(*dhcpv6.Message, ...dhcpv6.Modifier) (*dhcpv6.Message, error)
	}{{"dhcpv6.NewAdvertiseFromSolicit(v)", dhcpv6.NewAdvertiseFromSolicit}, {"dhcpv6.NewRequestFromAdvertise(v)", dhcpv6.NewRequestFromAdvertise}, {"dhcpv6.NewReplyFromMessage(v)", dhcpv6.NewReplyFromMessage}} {
		b := b
		reg(b.n, isMsg, func(v any) any {
			r, err := b.f(v.(*dhcpv6.Message))
			if err != nil || r == nil {
				return res{nil, errText(err)}
			}
			r.TransactionID = dhcpv6.TransactionID{} // some builders draw a fresh random id: not an observation
			return res{r.ToBytes(), errText(err)}
		})
	}
	reg("dhcpv6.NewRelayReplFromRelayForw(v, reply)", isRelay, func(v any) any {
		reply, _ := dhcpv6.MessageFromBytes([]byte{7, 0xaa, 0xbb, 0xcc, 0, 13, 0, 4, 0, 0, 'o', 'k'})
		r, err := dhcpv6.NewRelayReplFromRelayForw(v.(*dhcpv6.RelayMessage), reply)
		if err != nil || r == nil {
			return res{nil, errText(err)}
		}
		return res{r.ToBytes(), errText(err)}
	})
	reg("ztpv4.ParseVendorData(v)", is4, func(v any) any { r, err := ztpv4.ParseVendorData(v.(*dhcpv4.DHCPv4)); return res{r, errText(err)} })
	reg("ztpv4.ParseCircuitID(v)", is4, func(v any) any { r, err := ztpv4.ParseCircuitID(v.(*dhcpv4.DHCPv4)); return res{r, errText(err)} })
	reg("netboot.GetNetConfFromPacketv4(v)", is4, func(v any) any { r, err := netboot.GetNetConfFromPacketv4(v.(*dhcpv4.DHCPv4)); return res{r, errText(err)} })
	for _, b := range []struct {
		n string
		f func(*dhcpv4.DHCPv4, ...dhcpv4.Modifier) (*dhcpv4.DHCPv4, error)
	}{{"dhcpv4.NewReplyFromRequest(v)", dhcpv4.NewReplyFromRequest}, {"dhcpv4.NewRequestFromOffer(v)", dhcpv4.NewRequestFromOffer},
		{"dhcpv4.NewRenewFromAck(v)", dhcpv4.NewRenewFromAck}, {"dhcpv4.NewReleaseFromACK(v)", dhcpv4.NewReleaseFromACK}} {
		b := b
		reg(b.n, is4, func(v any) any {
			r, err := b.f(v.(*dhcpv4.DHCPv4))
			if err != nil || r == nil {
				return res{nil, errText(err)}
			}
			r.TransactionID = dhcpv4.TransactionID{} // some builders draw a fresh random id: not an observation
			return res{r.ToBytes(), errText(err)}
		})
	}
}
