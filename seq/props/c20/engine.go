package c20

import (
	"fmt"
	"hash/fnv"
	"reflect"
	"strconv"
	"strings"

	"verif/seq/fw"
	"verif/seq/roview"
)

// bounds of one tier.
type bounds struct {
	full int // max sequence length over the full action set
	core int // max sequence length over the 5-action core
	// budget: number of method executions per value above which a search level
	// compares the reduced snapshot (core actions + ToBytes + caller-held
	// slices + the results of the sequence's own calls) instead of the full one.
	budget     int64 // for the length-2 search over the full action set
	budgetCore int64 // for the core search
}

type diff struct {
	observer int // index into acts, -1 for a caller-held argument
	heldName string
	step     int // ≥0: the result of path step `step` differed from the baseline; -1: an observation after the path
	want     string
	got      string
}

type outcome struct {
	state uint64
	diffs []diff
	panic any
	stack string
	who   int // action that panicked
}

type explorer struct {
	c     *fw.Ctx
	slot  int // watchdog slot of the worker running this explorer
	idx   int
	in    inst
	acts  []roview.Action
	ok    []bool // action has a deterministic, panic-free baseline
	bad   []bool // action alone violates the invariant (level 1)
	base  []string
	hbase []string
	obs   []int // observers of the full snapshot: ok && !bad
	s0    uint64

	states  map[uint64]bool
	trans   map[[3]uint64]bool
	stateOf map[string]uint64
	paths   int64
	execs   int64
	viol    int
}

func hashTexts(texts []string) uint64 {
	h := fnv.New64a()
	for _, t := range texts {
		h.Write([]byte(t))
		h.Write([]byte{0})
	}
	return h.Sum64()
}

func pathKey(p []int) string {
	var b strings.Builder
	for _, x := range p {
		b.WriteString(strconv.Itoa(x))
		b.WriteByte(',')
	}
	return b.String()
}

// replay builds a fresh value and executes path on it; the results of the
// path's own calls are compared with the baseline.
func (e *explorer) replay(path []int, out *outcome) (any, []held, bool) {
	fw.Beat(e.slot) // progress: the previous replay's calls all returned
	v, hs := e.in.build()
	for k, ai := range path {
		r := roview.Exec(v, e.acts[ai])
		e.execs++
		if r.Panic != nil {
			out.panic, out.stack, out.who = r.Panic, r.Stack, ai
			return nil, nil, false
		}
		if r.Text != e.base[ai] {
			out.diffs = append(out.diffs, diff{observer: ai, step: k, want: e.base[ai], got: r.Text})
		}
	}
	return v, hs, true
}

// run replays path on ONE fresh value and then takes the snapshot with the
// given observers, in order, on that same value, plus the caller-held slices.
// (The snapshot is itself a sequence of read-only calls; any difference is a
// genuine violation, confirm() decides which calls it is attributed to.)
func (e *explorer) run(path []int, observers []int) outcome {
	var out outcome
	e.paths++
	v, hs, ok := e.replay(path, &out)
	if !ok {
		return out
	}
	texts := make([]string, 0, len(observers)+len(hs))
	for _, bi := range observers {
		r := roview.Exec(v, e.acts[bi])
		e.execs++
		if r.Panic != nil {
			out.panic, out.stack, out.who = r.Panic, r.Stack, bi
			return out
		}
		texts = append(texts, r.Text)
		if r.Text != e.base[bi] {
			out.diffs = append(out.diffs, diff{observer: bi, step: -1, want: e.base[bi], got: r.Text})
		}
	}
	for i, h := range hs {
		t := h.get()
		texts = append(texts, t)
		if i < len(e.hbase) && t != e.hbase[i] {
			out.diffs = append(out.diffs, diff{observer: -1, heldName: h.name, step: -1, want: e.hbase[i], got: t})
		}
	}
	out.state = hashTexts(texts)
	return out
}

// isolated observes the state after path with every observer on its OWN fresh
// replay (no observer can disturb another): exact attribution to the path.
func (e *explorer) isolated(path []int, observers []int) outcome {
	var out outcome
	texts := make([]string, 0, len(observers)+len(e.hbase))
	for _, bi := range observers {
		var o outcome
		v, _, ok := e.replay(path, &o)
		if !ok {
			return o
		}
		r := roview.Exec(v, e.acts[bi])
		e.execs++
		if r.Panic != nil {
			out.panic, out.stack, out.who = r.Panic, r.Stack, bi
			return out
		}
		texts = append(texts, r.Text)
		if r.Text != e.base[bi] {
			out.diffs = append(out.diffs, diff{observer: bi, step: -1, want: e.base[bi], got: r.Text})
		}
	}
	var o outcome
	_, hs, ok := e.replay(path, &o)
	if !ok {
		return o
	}
	out.diffs = append(out.diffs, o.diffs...) // the path's own results
	for i, h := range hs {
		t := h.get()
		texts = append(texts, t)
		if i < len(e.hbase) && t != e.hbase[i] {
			out.diffs = append(out.diffs, diff{observer: -1, heldName: h.name, step: -1, want: e.hbase[i], got: t})
		}
	}
	out.state = hashTexts(texts)
	return out
}

func (e *explorer) record(path []int, state uint64) {
	e.states[state] = true
	e.stateOf[pathKey(path)] = state
	if len(path) > 0 {
		from := e.stateOf[pathKey(path[:len(path)-1])]
		e.trans[[3]uint64{from, uint64(path[len(path)-1]), state}] = true
	}
}

func order(idx int, path []int) int64 {
	o := int64(len(path))*1_000_000_000 + int64(idx)*10_000
	if len(path) > 0 {
		o += int64(path[len(path)-1])
	}
	return o
}

// orderOf additionally ranks paths that only reflection can follow literally after all others,
// so that the representative of a violation class is a program a user can write.
func (e *explorer) orderOf(path []int) int64 {
	o := order(e.idx, path)
	for _, ai := range path {
		if e.acts[ai].Reflective {
			return o + 500_000_000
		}
	}
	return o
}

func (e *explorer) exprs(path []int) string {
	parts := make([]string, len(path))
	for i, ai := range path {
		parts[i] = "v" + e.acts[ai].Expr
	}
	return strings.Join(parts, " ; ")
}

func short(s string, n int) string {
	if len(s) <= n {
		return s
	}
	return s[:n] + "…"
}

// bestDiff picks the difference that reads best in a report: the value's own
// ToBytes, then any direct ToBytes, then a caller-held argument, then String.
func (e *explorer) bestDiff(ds []diff) diff {
	score := func(d diff) int {
		if d.observer < 0 {
			return 2
		}
		a := e.acts[d.observer]
		switch {
		case a.Expr == ".ToBytes()":
			return 0
		case a.Calls == 1 && a.LastName() == "ToBytes":
			return 1
		case a.Calls == 1 && a.LastName() == "String":
			return 3
		case a.Calls == 1:
			return 4
		}
		return 5
	}
	best := ds[0]
	for _, d := range ds[1:] {
		if score(d) < score(best) {
			best = d
		}
	}
	return best
}

func (e *explorer) obsName(d diff) string {
	if d.observer < 0 {
		return "caller-held " + d.heldName
	}
	return "v" + e.acts[d.observer].Expr
}

const followSrc = `// follow walks v by reflection: "F:name" selects a field, "I:n" an element, "C:name" calls a niladic
// method (its first result is followed); it returns the last call's results. Needed because the
// path passes through an exported field of an unexported library type.
func follow(v any, steps ...string) []any {
	cur := reflect.ValueOf(v)
	for k, s := range steps {
		for cur.Kind() == reflect.Interface || (cur.Kind() == reflect.Ptr && s[0] != 'C') {
			cur = cur.Elem()
		}
		switch s[0] {
		case 'F':
			cur = cur.FieldByName(s[2:])
		case 'I':
			n, _ := strconv.Atoi(s[2:])
			cur = cur.Index(n)
		case 'C':
			if cur.Kind() != reflect.Ptr && cur.CanAddr() {
				cur = cur.Addr()
			}
			res := cur.MethodByName(s[2:]).Call(nil)
			if k == len(steps)-1 {
				out := make([]any, len(res))
				for i, r := range res {
					out[i] = r.Interface()
				}
				return out
			}
			cur = res[0]
		}
	}
	return nil
}

`

func followExpr(v string, a roview.Action) string {
	parts := make([]string, len(a.Steps))
	for i, s := range a.Steps {
		switch s.Kind {
		case roview.Field:
			parts[i] = fmt.Sprintf("%q", "F:"+s.Name)
		case roview.Index:
			parts[i] = fmt.Sprintf("%q", "I:"+strconv.Itoa(s.I))
		default:
			parts[i] = fmt.Sprintf("%q", "C:"+s.Name)
		}
	}
	return "follow(" + v + ", " + strings.Join(parts, ", ") + ")..."
}

// goTest renders a self-contained test file: the value's construction, the
// read-only calls of the path, and one observation before and after.
func (e *explorer) goTest(path []int, d diff) string {
	// x: the value under its dynamic type, so that exported fields can be selected even when the
	// constructor returns an interface (dhcpv6.DHCPv6, dhcpv6.Option, dhcpv6.DUID)
	x, assert := "v", ""
	if v, _ := e.in.build(); v != nil {
		t := reflect.TypeOf(v)
		el := t
		for el.Kind() == reflect.Ptr {
			el = el.Elem()
		}
		if n := el.Name(); n != "" && n[0] >= 'A' && n[0] <= 'Z' && el.PkgPath() != "" {
			x, assert = "x", fmt.Sprintf("x := any(v).(%s)", t.String())
		}
	}
	expr := func(a roview.Action) string {
		if a.Reflective {
			return followExpr("v", a)
		}
		return a.GoExpr(x)
	}
	obs := d.heldName
	if d.observer >= 0 {
		obs = expr(e.acts[d.observer])
	}
	var body strings.Builder
	for _, l := range strings.Split(e.in.src, "\n") {
		body.WriteString("\t" + l + "\n")
	}
	if assert != "" {
		body.WriteString("\t" + assert + "\n\t_ = x\n")
	}
	fmt.Fprintf(&body, "\tbefore := show(%s)\n", obs)
	for _, ai := range path {
		fmt.Fprintf(&body, "\t_ = show(%s) // read-only call\n", expr(e.acts[ai]))
	}
	fmt.Fprintf(&body, "\tafter := show(%s)\n", obs)
	body.WriteString("\tif before != after {\n\t\tt.Fatalf(\"a read-only call changed the value:\\n before %s\\n after  %s\", before, after)\n\t}\n")
	refl := strings.Contains(body.String(), "follow(")
	var b strings.Builder
	b.WriteString("package c20replay\n\nimport (\n\t\"fmt\"\n\t\"testing\"\n")
	if refl {
		b.WriteString("\t\"reflect\"\n\t\"strconv\"\n")
	}
	for _, im := range [][2]string{{"bytes.", "bytes"}, {"hex.", "encoding/hex"}, {"net.", "net"}, {"strings.", "strings"}, {"time.", "time"},
		{"dhcpv4.", "github.com/insomniacslk/dhcp/dhcpv4"}, {"dhcpv6.", "github.com/insomniacslk/dhcp/dhcpv6"}, {"iana.", "github.com/insomniacslk/dhcp/iana"},
		{"rfc1035label.", "github.com/insomniacslk/dhcp/rfc1035label"}, {"corpus6.", "verif/seq/corpus6"}} {
		if strings.Contains(body.String(), im[0]) {
			fmt.Fprintf(&b, "\t%q\n", im[1])
		}
	}
	b.WriteString(")\n\nfunc show(a ...any) string { return fmt.Sprintf(\"%#v\", a) }\n\n")
	if strings.Contains(body.String(), "first(") {
		b.WriteString("func first[T any](v T, _ ...any) T { return v }\n\n")
	}
	if refl {
		b.WriteString(followSrc)
	}
	b.WriteString("func TestC20Replay(t *testing.T) {\n")
	b.WriteString(body.String())
	b.WriteString("}\n")
	return b.String()
}

func (e *explorer) describe(ds []diff) string {
	var parts []string
	for i, d := range ds {
		if i >= 6 {
			parts = append(parts, fmt.Sprintf("… %d more", len(ds)-i))
			break
		}
		if d.observer >= 0 && d.step >= 0 {
			parts = append(parts, fmt.Sprintf("result of path step %d (v%s)", d.step+1, e.acts[d.observer].Expr))
		} else {
			parts = append(parts, e.obsName(d))
		}
	}
	return strings.Join(parts, ", ")
}

func shortStack(s string) string {
	var outl []string
	for _, l := range strings.Split(s, "\n") {
		if strings.Contains(l, "insomniacslk/dhcp") && !strings.HasPrefix(strings.TrimSpace(l), "/") {
			outl = append(outl, strings.TrimSpace(l))
		}
		if len(outl) >= 6 {
			break
		}
	}
	return strings.Join(outl, " <- ")
}

func (e *explorer) reportPanic(path []int, out outcome) {
	ss := shortStack(out.stack)
	e.viol++
	e.c.Report(fw.Violation{Fingerprint: e.acts[out.who].Method + "|panic|" + fw.PanicSite(ss), Order: order(e.idx, path), Scope: e.in.kind,
		Input:    fmt.Sprintf("value %s (%s):\n%s\ncalls: %s ; then v%s", e.in.name, e.in.kind, e.in.src, e.exprs(path), e.acts[out.who].Expr),
		Observed: fmt.Sprintf("panic: %v at %s", out.panic, ss), Expected: "a result",
		Explain: "a read-only method panicked (reported here rather than crashing the run; the no-panic property proper is C03)"})
}

// clause classifies what a violating action changed.
func clause(a int, ds []diff) string {
	other, self, hld := false, false, false
	for _, d := range ds {
		switch {
		case d.observer < 0:
			hld = true
		case d.observer == a:
			self = true
		default:
			other = true
		}
	}
	switch {
	case other:
		return "mutates-receiver"
	case self:
		return "repeated-call-differs"
	case hld:
		return "mutates-caller-argument"
	}
	return "mutates-receiver"
}

func isPrefix(p, q []roview.Step) bool {
	if len(p) >= len(q) {
		return false
	}
	for i := range p {
		if p[i] != q[i] {
			return false
		}
	}
	return true
}

type stats struct {
	kind                        string
	actions                     int
	states, trans, paths, execs int64
	multi                       bool
	viol                        int
	methods                     map[string]bool
	fullSnapL2, fullSnapCore    bool
	coreLen                     int
	coreExprs                   []string
	subsumed, dropped, notExp   int
}

// reportSeq reports a violation that needs a sequence: no single call of it
// violates alone. The mismatch was seen by run(); it is first re-observed with
// isolated observers to decide whether the path alone is responsible or the
// path plus the observation calls that precede the differing observer.
func (e *explorer) reportSeq(p []int, observers []int, out outcome) {
	iso := e.isolated(p, observers)
	if iso.panic != nil {
		e.reportPanic(p, iso)
		return
	}
	ds, attribution := iso.diffs, "confirmed with each observation made on its own fresh replay of the sequence"
	if len(ds) == 0 {
		ds, attribution = out.diffs, "not reproduced when each observation is made on its own fresh replay: the change needs the sequence plus the observation calls made before the differing one (all read-only calls too), in the order listed in the scope"
	}
	d := e.bestDiff(ds)
	fp := "sequence|mutates-receiver|" + e.in.kind
	if len(p) >= 2 {
		last, prev := e.acts[p[len(p)-1]], e.acts[p[len(p)-2]]
		fp = last.Method + "|" + clause(p[len(p)-1], ds) + "|after:" + prev.Method
	} else if len(p) == 1 {
		fp = e.acts[p[0]].Method + "|" + clause(p[0], ds) + "|with-later-reads"
	}
	e.viol++
	e.c.Report(fw.Violation{Fingerprint: fp, Order: e.orderOf(p), Scope: e.in.kind,
		Input:    fmt.Sprintf("value %s (%s):\n%s\ncalls: %s", e.in.name, e.in.kind, e.in.src, e.exprs(p)),
		Observed: fmt.Sprintf("after the sequence, %d observation(s) differ from the untouched value: %s. E.g. %s: before %s, after %s (%s)", len(ds), e.describe(ds), e.obsName(d), short(d.want, 240), short(d.got, 240), attribution),
		Expected: "snapshot identical before and after any sequence of read-only calls",
		Explain:  "a sequence of read-only calls changed the value although no single call of it does",
		GoTest:   e.goTest(p, d)})
}

func (e *explorer) explore(b bounds) stats {
	st := stats{kind: e.in.kind, methods: map[string]bool{}}
	c := e.c
	// action discovery on a throw-away value
	v0, _ := e.in.build()
	e.acts = roview.Discover(v0, cfg)
	n := len(e.acts)
	st.actions = n
	for _, a := range e.acts {
		st.methods[a.Method] = true
	}
	e.ok, e.bad, e.base = make([]bool, n), make([]bool, n), make([]string, n)
	e.states, e.trans, e.stateOf = map[uint64]bool{}, map[[3]uint64]bool{}, map[string]uint64{}

	// baseline: every action alone on its own untouched value, twice (is the library's output deterministic?)
	for i, a := range e.acts {
		v, _ := e.in.build()
		r := roview.Exec(v, a)
		e.execs++
		if r.Panic != nil {
			e.reportPanic(nil, outcome{panic: r.Panic, stack: r.Stack, who: i})
			st.dropped++
			continue
		}
		v2, _ := e.in.build()
		r2 := roview.Exec(v2, a)
		e.execs++
		if r.Text != r2.Text {
			// twice more: does the output really vary between identically built values?
			seen := map[string]bool{r.Text: true, r2.Text: true}
			for k := 0; k < 2; k++ {
				vk, _ := e.in.build()
				seen[roview.Exec(vk, a).Text] = true
				e.execs++
			}
			e.viol++
			c.Report(fw.Violation{Fingerprint: a.Method + "|nondeterministic-result", Order: order(e.idx, []int{i}), Scope: e.in.kind,
				Input:    fmt.Sprintf("value %s (%s):\n%s\ncall v%s on identically built fresh values", e.in.name, e.in.kind, e.in.src, a.Expr),
				Observed: fmt.Sprintf("%d different results on 4 identically built values, e.g. %s vs %s", len(seen), short(r.Text, 200), short(r2.Text, 200)),
				Expected: "equal results", Explain: "the same read-only call on identical values returns different results (e.g. map iteration order visible in the output)"})
			st.dropped++
			continue
		}
		e.base[i], e.ok[i] = r.Text, true
	}
	_, hs := e.in.build()
	for _, h := range hs {
		e.hbase = append(e.hbase, h.get())
	}
	var okActs []int
	var baseTexts []string
	for i := range e.acts {
		if e.ok[i] {
			okActs = append(okActs, i)
		}
	}

	// level 1: every action a, observed by every action b (b = a included: the repeated call) on its
	// own fresh replay, and by the caller-held slices. Exact attribution, n² replays.
	type l1 struct {
		a  int
		ds []diff
	}
	var bads []l1
	l1state := make(map[int]uint64, n)
	// stage A: the call, then the full snapshot in order on the same value. No difference for any a
	// means every action is clean (and so is every "a, then a prefix of the snapshot" sequence).
	dirty := false
	for _, a := range okActs {
		out := e.run([]int{a}, okActs)
		if out.panic != nil || len(out.diffs) > 0 {
			dirty = true
			break
		}
	}
	// stage B (only when something moved): exact attribution, every observation on its own fresh replay
	if dirty {
		for _, a := range okActs {
			out := e.isolated([]int{a}, okActs)
			if out.panic != nil {
				e.reportPanic([]int{a}, out)
				e.bad[a] = true
				continue
			}
			l1state[a] = out.state
			if len(out.diffs) > 0 {
				e.bad[a] = true
				bads = append(bads, l1{a, out.diffs})
			}
		}
	}
	// observers of the full snapshot from here on: actions that are read-only on this value
	for _, a := range okActs {
		if !e.bad[a] {
			e.obs = append(e.obs, a)
			baseTexts = append(baseTexts, e.base[a])
		}
	}
	baseTexts = append(baseTexts, e.hbase...)
	e.s0 = hashTexts(baseTexts)
	e.states[e.s0] = true
	e.stateOf[""] = e.s0
	for _, a := range okActs {
		if e.bad[a] {
			e.record([]int{a}, l1state[a]^0x9e3779b97f4a7c15) // a violating successor state, distinct from s0 by construction
		} else {
			e.record([]int{a}, e.s0)
		}
	}
	// report level-1 violations, deepest receiver only: a method of a containing value that changes it
	// because a method of a contained value does is the same defect
	for _, x := range bads {
		ax := e.acts[x.a]
		sub := false
		for _, y := range bads {
			ay := e.acts[y.a]
			if y.a == x.a || ay.Calls != 1 {
				continue
			}
			switch {
			case ax.Calls == 1 && isPrefix(ax.Prefix(), ay.Prefix()):
				sub = true // a method of a value contained in x's receiver does it
			case ax.Calls > 1 && ay.Method == ax.Method:
				sub = true // the same method is reported on a directly reachable receiver
			case ax.Calls > 1 && isPrefix(ay.Steps, ax.Steps):
				sub = true // the accessor the composite starts with does it alone
			}
			if sub {
				break
			}
		}
		if sub {
			st.subsumed++
			continue
		}
		a := e.acts[x.a]
		d := e.bestDiff(x.ds)
		fp := a.Method + "|" + clause(x.a, x.ds)
		if a.Calls > 1 {
			fp += "|through:" + a.Via
		}
		e.viol++
		c.Report(fw.Violation{Fingerprint: fp, Order: e.orderOf([]int{x.a}), Scope: e.in.kind,
			Input:    fmt.Sprintf("value %s (%s):\n%s\ncall: v%s", e.in.name, e.in.kind, e.in.src, a.Expr),
			Observed: fmt.Sprintf("after the call, %d observation(s) differ from the untouched value: %s. E.g. %s: before %s, after %s", len(x.ds), e.describe(x.ds), e.obsName(d), short(d.want, 240), short(d.got, 240)),
			Expected: "snapshot (encoding, every accessor result, caller-held argument slices) identical before and after a read-only call",
			Explain:  "a read-only method changed the value it was called on (or the caller's slice the value was built from)",
			GoTest:   e.goTest([]int{x.a}, d)})
	}

	// level 0: the full snapshot taken in order on one untouched value (a sequence of len(obs) reads)
	if out := e.run(nil, e.obs); out.panic != nil {
		e.reportPanic(nil, out)
	} else if len(out.diffs) > 0 {
		e.states[out.state^0x9e3779b97f4a7c15] = true
		e.reportSeq(nil, e.obs, out)
	}

	// core: String, Summary, ToBytes, first non-empty list-typed accessor, a String on its result
	core := e.pickCore()
	for _, ci := range core {
		st.coreExprs = append(st.coreExprs, "v"+e.acts[ci].Expr)
	}
	// reduced snapshot: the core plus the value's own ToBytes
	probe := append([]int{}, core...)
	for _, i := range e.obs {
		if e.acts[i].Expr == ".ToBytes()" {
			dup := false
			for _, p := range probe {
				dup = dup || p == i
			}
			if !dup {
				probe = append(probe, i)
			}
		}
	}

	// level 2 over the full action set
	m := int64(len(e.obs))
	observers := e.obs
	st.fullSnapL2 = true
	if m*m*(m+2) > b.budget {
		observers, st.fullSnapL2 = probe, false
	}
	if b.full >= 2 {
		for _, a1 := range e.obs {
			if c.Over() {
				break
			}
			for _, a2 := range e.obs {
				p := []int{a1, a2}
				out := e.run(p, observers)
				if out.panic != nil {
					e.reportPanic(p, out)
					continue
				}
				s := e.s0
				if len(out.diffs) > 0 {
					s = out.state ^ 0x9e3779b97f4a7c15
					e.reportSeq(p, observers, out)
				}
				e.record(p, s)
			}
		}
		st.notExp = (len(okActs) - len(e.obs)) * len(okActs)
	}

	// sequences over the core up to the tier's length
	st.coreLen = b.core
	if k := int64(len(core)); k > 0 {
		nseq := int64(0)
		for l, pw := 3, k*k*k; l <= b.core; l, pw = l+1, pw*k {
			nseq += pw
		}
		observers = e.obs
		st.fullSnapCore = true
		if nseq*(m+int64(b.core)) > b.budgetCore {
			observers, st.fullSnapCore = probe, false
		}
		var rec func(p []int)
		rec = func(p []int) {
			if len(p) > 0 {
				s, done := e.stateOf[pathKey(p)]
				if !done {
					out := e.run(p, observers)
					if out.panic != nil {
						e.reportPanic(p, out)
						return
					}
					s = e.s0
					if len(out.diffs) > 0 {
						s = out.state ^ 0x9e3779b97f4a7c15
						e.reportSeq(p, observers, out)
					}
					e.record(p, s)
				}
				if s != e.s0 {
					return // violating state: reported, not expanded
				}
			}
			if len(p) == b.core || c.Over() {
				return
			}
			for _, ci := range core {
				rec(append(append([]int{}, p...), ci))
			}
		}
		rec(nil)
	}

	st.states, st.trans, st.paths, st.execs = int64(len(e.states)), int64(len(e.trans)), e.paths, e.execs
	st.multi = len(e.states) > 1
	st.viol = e.viol
	return st
}

func (e *explorer) pickCore() []int {
	var core []int
	has := func(i int) bool {
		for _, c := range core {
			if c == i {
				return true
			}
		}
		return false
	}
	usable := func(i int) bool { return e.ok[i] && !e.bad[i] && !has(i) }
	addExpr := func(expr string) {
		for i, a := range e.acts {
			if a.Expr == expr && usable(i) {
				core = append(core, i)
				return
			}
		}
	}
	addExpr(".String()")
	addExpr(".Summary()")
	addExpr(".ToBytes()")
	// first list-typed accessor (non-empty result preferred) that has a String on its result
	found := false
	for pass := 0; pass < 2 && !found; pass++ {
	search:
		for i, a := range e.acts {
			if a.Calls != 1 || !a.ListResult || !(a.NonEmpty || pass == 1) || !usable(i) || a.LastName() == "ToBytes" {
				continue
			}
			for j, bb := range e.acts {
				if bb.Calls == 2 && strings.HasPrefix(bb.Expr, a.Expr) && bb.LastName() == "String" && usable(j) {
					core = append(core, i, j)
					found = true
					break search
				}
			}
		}
	}
	// fill up to 5 with the first remaining actions
	for i := range e.acts {
		if len(core) >= 5 {
			break
		}
		if usable(i) {
			core = append(core, i)
		}
	}
	if len(core) > 5 {
		core = core[:5]
	}
	return core
}
