// Package c20: reading or printing a message never changes it.
//
// Explicit-state search over sequences of read-only calls on real library
// values. For every initial value (DHCPv4 packets, DHCPv6 messages, standalone
// options and typed option values, built and decoded) the action set is found
// by reflection (package roview): every niladic exported method with at least
// one result on the value, on the values in its exported fields / elements and
// on what its accessors return (composite actions). The state of a value is
// its snapshot: the rendered result of every action (ToBytes is one of them)
// plus the caller-side argument slices the harness kept a handle on.
//
// Search: all action sequences of length ≤ 2 over the full action set and of
// length ≤ 4 (quick) / ≤ 6 (thorough) over a 5-action core; every sequence is
// replayed on a freshly built (or freshly decoded) value, followed by a full
// snapshot. Invariant in every state: the snapshot equals the baseline (each
// action's result on an untouched value), i.e. no read changes the encoding,
// any other accessor's result, a repeated call's result or the caller's
// slices. States whose invariant fails are reported and not expanded.
package c20

import (
	"encoding/hex"
	"fmt"
	"hash/fnv"
	"os"
	"reflect"
	"sort"
	"strings"
	"sync"
	"sync/atomic"
	"time"

	"github.com/insomniacslk/dhcp/dhcpv4"
	"github.com/insomniacslk/dhcp/dhcpv6"
	"verif/seq/corpus6"
	"verif/seq/fw"
	"verif/seq/roview"
)

// held is a caller-side argument the harness keeps a handle on.
type held struct {
	name string
	get  func() string
}

func hold(name string, x any) held {
	return held{name: name, get: func() string { return roview.Render(reflect.ValueOf(x)) }}
}

// inst is one initial value: a recipe that yields a fresh value on every call.
type inst struct {
	kind  string
	name  string
	src   string // Go statements that declare `v` (and the held variables)
	build func() (any, []held)
	size  int // encoded size (0 if the value has no ToBytes)
}

var cfg = roview.DefaultConfig()

// ------------------------------------------------------------------ catalogue

func encLen(v any) int {
	type tb interface{ ToBytes() []byte }
	n := 0
	fw.Safe(func() {
		if x, ok := v.(tb); ok {
			n = len(x.ToBytes())
		}
	})
	return n
}

func hexSrc(b []byte) string {
	return fmt.Sprintf("buf, _ := hex.DecodeString(%q)", hex.EncodeToString(b))
}

// catalogue returns every initial value of the tier.
func catalogue(thorough bool) []inst {
	var out []inst
	add := func(in inst) {
		v, _ := in.build()
		in.size = encLen(v)
		out = append(out, in)
	}
	// decoded twin of a DHCPv4 packet
	addV4Decoded := func(in inst) {
		v, _ := in.build()
		p, ok := v.(*dhcpv4.DHCPv4)
		if !ok {
			return
		}
		var wire []byte
		if pv, _ := fw.Safe(func() { wire = p.ToBytes() }); pv != nil {
			return
		}
		if _, err := dhcpv4.FromBytes(append([]byte(nil), wire...)); err != nil {
			return
		}
		add(inst{kind: "v4-packet-decoded", name: in.name + "/decoded",
			src: hexSrc(wire) + "\nv, err := dhcpv4.FromBytes(buf)\nif err != nil {\n\tpanic(err)\n}",
			build: func() (any, []held) {
				buf := append([]byte(nil), wire...)
				d, err := dhcpv4.FromBytes(buf)
				if err != nil {
					panic(err)
				}
				return d, []held{hold("buf", buf)}
			}})
	}
	for _, in := range listed() {
		add(in)
		if in.kind == "v4-packet" {
			addV4Decoded(in)
		}
	}
	for k := 0; k < 3; k++ {
		k := k
		in := inst{kind: "v4-packet", name: fmt.Sprintf("corpus6.V4Packet(%d)", k),
			src:   fmt.Sprintf("v := corpus6.V4Packet(%d) // import \"verif/seq/corpus6\"", k),
			build: func() (any, []held) { return corpus6.V4Packet(k), nil }}
		add(in)
		addV4Decoded(in)
	}
	// DHCPv6 option instances, standalone, built and decoded
	addV6Opt := func(name, src string, mk func() dhcpv6.Option, decode bool) {
		add(inst{kind: "v6-option", name: name, src: src, build: func() (any, []held) { return mk(), nil }})
		if !decode {
			return
		}
		o := mk()
		var wire []byte
		if pv, _ := fw.Safe(func() { wire = o.ToBytes() }); pv != nil {
			return
		}
		code := o.Code()
		if _, err := dhcpv6.ParseOption(code, append([]byte(nil), wire...)); err != nil {
			return
		}
		add(inst{kind: "v6-option-decoded", name: name + "/decoded",
			src: hexSrc(wire) + fmt.Sprintf("\nv, err := dhcpv6.ParseOption(dhcpv6.OptionCode(%d), buf)\nif err != nil {\n\tpanic(err)\n}", uint16(code)),
			build: func() (any, []held) {
				buf := append([]byte(nil), wire...)
				d, err := dhcpv6.ParseOption(code, buf)
				if err != nil {
					panic(err)
				}
				return d, []held{hold("buf", buf)}
			}})
	}
	for i, ci := range corpus6.Instances() {
		ci := ci
		addV6Opt("corpus6/"+ci.Name, fmt.Sprintf("v := corpus6.Instances()[%d].Build() // %s; import \"verif/seq/corpus6\"", i, ci.Name), ci.Build, true)
	}
	for i, ci := range corpus6.NTPSubInstances() {
		ci := ci
		addV6Opt("corpus6/"+ci.Name, fmt.Sprintf("v := corpus6.NTPSubInstances()[%d].Build() // %s; import \"verif/seq/corpus6\"", i, ci.Name), ci.Build, false)
	}
	for i, ch := range corpus6.Chains() {
		ch := ch
		addV6Opt("corpus6/chain/"+ch.Name, fmt.Sprintf("v := corpus6.Chains()[%d].Build() // %s; import \"verif/seq/corpus6\"", i, ch.Name), ch.Build, true)
	}
	// DHCPv6 messages, built and decoded
	msgs := corpus6.Messages(thorough)
	stride := 1
	if !thorough {
		stride = 2 // deterministic subset: every second case of the quick corpus (all families are kept)
	}
	for i := 0; i < len(msgs); i += stride {
		mc := msgs[i]
		idx := i
		add(inst{kind: "v6-message", name: "corpus6/" + mc.Name,
			src:   fmt.Sprintf("v := corpus6.Messages(%v)[%d].Build() // %s; import \"verif/seq/corpus6\"", thorough, idx, mc.Name),
			build: func() (any, []held) { return mc.Build(), nil }})
		m := mc.Build()
		var wire []byte
		if pv, _ := fw.Safe(func() { wire = m.ToBytes() }); pv != nil {
			continue
		}
		if _, err := dhcpv6.FromBytes(append([]byte(nil), wire...)); err != nil {
			continue
		}
		add(inst{kind: "v6-message-decoded", name: "corpus6/" + mc.Name + "/decoded",
			src: hexSrc(wire) + "\nv, err := dhcpv6.FromBytes(buf)\nif err != nil {\n\tpanic(err)\n}",
			build: func() (any, []held) {
				buf := append([]byte(nil), wire...)
				d, err := dhcpv6.FromBytes(buf)
				if err != nil {
					panic(err)
				}
				return d, []held{hold("buf", buf)}
			}})
	}
	return out
}

// ------------------------------------------------------------------ engine

type bounds struct {
	full      int   // max sequence length over the full action set
	core      int   // max sequence length over the core
	maxExec   int64 // per-value cap on method executions for the length-2 full search
	heavySize int   // encoded size above which a value gets the reduced bounds
}

type diff struct {
	observer int // index into acts, -1 for a held argument
	heldName string
	step     int // ≥0: the result of path step `step` differed; -1: seen in the closing snapshot
	want     string
	got      string
}

type outcome struct {
	state uint64
	diffs []diff
	panic any
	stack string
	pstep int
}

type explorer struct {
	c      *fw.Ctx
	idx    int
	in     inst
	acts   []roview.Action
	ok     []bool
	bad    []bool
	base   []string
	hbase  []string
	hnames []string
	s0     uint64

	states  map[uint64]bool
	trans   map[[3]uint64]bool
	stateOf map[string]uint64
	paths   int64
	execs   int64
	viol    int
}

func (e *explorer) snapshotHash(texts []string) uint64 {
	h := fnv.New64a()
	for _, t := range texts {
		h.Write([]byte(t))
		h.Write([]byte{0})
	}
	return h.Sum64()
}

func pathKey(p []int) string {
	var b strings.Builder
	for _, x := range p {
		fmt.Fprintf(&b, "%d,", x)
	}
	return b.String()
}

// run replays path on a fresh value, then takes the full snapshot.
func (e *explorer) run(path []int) outcome {
	var out outcome
	out.pstep = -1
	v, hs := e.in.build()
	e.paths++
	for k, ai := range path {
		r := roview.Exec(v, e.acts[ai])
		e.execs++
		if r.Panic != nil {
			out.panic, out.stack, out.pstep = r.Panic, r.Stack, k
			return out
		}
		if r.Text != e.base[ai] {
			out.diffs = append(out.diffs, diff{observer: ai, step: k, want: e.base[ai], got: r.Text})
		}
	}
	texts := make([]string, 0, len(e.acts)+len(hs))
	for bi, a := range e.acts {
		if !e.ok[bi] {
			continue
		}
		r := roview.Exec(v, a)
		e.execs++
		if r.Panic != nil {
			out.panic, out.stack, out.pstep = r.Panic, r.Stack, len(path)
			return out
		}
		texts = append(texts, r.Text)
		if r.Text != e.base[bi] {
			out.diffs = append(out.diffs, diff{observer: bi, step: -1, want: e.base[bi], got: r.Text})
		}
	}
	for i, h := range hs {
		t := h.get()
		texts = append(texts, t)
		if i < len(e.hbase) && t != e.hbase[i] {
			out.diffs = append(out.diffs, diff{observer: -1, heldName: h.name, step: -1, want: e.hbase[i], got: t})
		}
	}
	out.state = e.snapshotHash(texts)
	return out
}

func (e *explorer) record(path []int, out outcome) {
	e.states[out.state] = true
	e.stateOf[pathKey(path)] = out.state
	if len(path) > 0 {
		from := e.stateOf[pathKey(path[:len(path)-1])]
		e.trans[[3]uint64{from, uint64(path[len(path)-1]), out.state}] = true
	}
}

func order(idx int, path []int) int64 {
	o := int64(len(path))*1_000_000_000 + int64(idx)*10_000
	if len(path) > 0 {
		o += int64(path[len(path)-1])
	}
	return o
}

func (e *explorer) exprs(path []int) string {
	parts := make([]string, len(path))
	for i, ai := range path {
		parts[i] = "v" + e.acts[ai].Expr
	}
	return strings.Join(parts, " ; ")
}

func short(s string, n int) string {
	if len(s) <= n {
		return s
	}
	return s[:n] + "…"
}

// bestDiff picks the difference that reads best in a report: the value's own
// ToBytes, then any direct ToBytes, then a caller-held argument, then String.
func (e *explorer) bestDiff(ds []diff) diff {
	score := func(d diff) int {
		if d.observer < 0 {
			return 2
		}
		a := e.acts[d.observer]
		switch {
		case a.Expr == ".ToBytes()":
			return 0
		case a.Calls == 1 && a.LastName() == "ToBytes":
			return 1
		case a.Calls == 1 && a.LastName() == "String":
			return 3
		case a.Calls == 1:
			return 4
		}
		return 5
	}
	best := ds[0]
	for _, d := range ds[1:] {
		if score(d) < score(best) {
			best = d
		}
	}
	return best
}

func (e *explorer) goTest(path []int, d diff) string {
	var b strings.Builder
	b.WriteString("// imports: bytes, encoding/hex, fmt, net, strings, testing, time, github.com/insomniacslk/dhcp/{dhcpv4,dhcpv6,iana,rfc1035label}\n")
	b.WriteString("func show(a ...any) string { return fmt.Sprintf(\"%#v\", a) }\n\n")
	b.WriteString("func TestC20Replay(t *testing.T) {\n")
	for _, l := range strings.Split(e.in.src, "\n") {
		b.WriteString("\t" + l + "\n")
	}
	obs := d.heldName
	if d.observer >= 0 {
		obs = "v" + e.acts[d.observer].Expr
	}
	fmt.Fprintf(&b, "\tbefore := show(%s)\n", obs)
	for _, ai := range path {
		fmt.Fprintf(&b, "\t_ = show(v%s) // read-only call\n", e.acts[ai].Expr)
	}
	fmt.Fprintf(&b, "\tafter := show(%s)\n", obs)
	b.WriteString("\tif before != after {\n\t\tt.Fatalf(\"a read-only call changed the value:\\n before %s\\n after  %s\", before, after)\n\t}\n}\n")
	return b.String()
}

func (e *explorer) describe(ds []diff) string {
	var parts []string
	for i, d := range ds {
		if i >= 6 {
			parts = append(parts, fmt.Sprintf("… %d more", len(ds)-i))
			break
		}
		if d.observer < 0 {
			parts = append(parts, "caller-held "+d.heldName)
		} else if d.step >= 0 {
			parts = append(parts, fmt.Sprintf("result of path step %d v%s", d.step+1, e.acts[d.observer].Expr))
		} else {
			parts = append(parts, "v"+e.acts[d.observer].Expr)
		}
	}
	return strings.Join(parts, ", ")
}

func (e *explorer) reportPanic(path []int, out outcome) {
	site := fw.PanicSite(shortStack(out.stack))
	who := "snapshot"
	if out.pstep >= 0 && out.pstep < len(path) {
		who = e.acts[path[out.pstep]].Method
	}
	e.viol++
	e.c.Report(fw.Violation{Fingerprint: who + "|panic|" + site, Order: order(e.idx, path), Scope: e.in.kind,
		Input:    fmt.Sprintf("value %s (%s); calls: %s", e.in.name, e.in.kind, e.exprs(path)),
		Observed: fmt.Sprintf("panic: %v at %s", out.panic, shortStack(out.stack)), Expected: "a result",
		Explain: "a read-only method panicked (reported here, a violation of C03 proper)"})
}

func shortStack(s string) string {
	var outl []string
	for _, l := range strings.Split(s, "\n") {
		if strings.Contains(l, "insomniacslk/dhcp") && !strings.HasPrefix(strings.TrimSpace(l), "/") {
			outl = append(outl, strings.TrimSpace(l))
		}
		if len(outl) >= 6 {
			break
		}
	}
	return strings.Join(outl, " <- ")
}

// clause classifies what a violating action changed.
func clause(a int, ds []diff) string {
	other, self, hld := false, false, false
	for _, d := range ds {
		switch {
		case d.observer < 0:
			hld = true
		case d.observer == a:
			self = true
		default:
			other = true
		}
	}
	switch {
	case other:
		return "mutates-receiver"
	case self:
		return "repeated-call-differs"
	case hld:
		return "mutates-caller-argument"
	}
	return "mutates-receiver"
}

func isPrefix(p, q []roview.Step) bool {
	if len(p) >= len(q) {
		return false
	}
	for i := range p {
		if p[i] != q[i] {
			return false
		}
	}
	return true
}

type stats struct {
	kind                              string
	actions                           int
	states, trans, paths, execs       int64
	multi                             bool
	viol                              int
	methods                           map[string]bool
	full, core                        int
	coreExprs                         []string
	subsumed, dropped, skippedBadPref int
}

func (e *explorer) explore(b bounds) stats {
	st := stats{kind: e.in.kind, methods: map[string]bool{}}
	c := e.c
	// action discovery on a throw-away value
	v0, _ := e.in.build()
	e.acts = roview.Discover(v0, cfg)
	n := len(e.acts)
	st.actions = n
	for _, a := range e.acts {
		st.methods[a.Method] = true
	}
	e.ok, e.bad, e.base = make([]bool, n), make([]bool, n), make([]string, n)
	e.states, e.trans, e.stateOf = map[uint64]bool{}, map[[3]uint64]bool{}, map[string]uint64{}
	// baseline: every action alone on its own untouched value, twice (determinism of the library's output)
	for i, a := range e.acts {
		v, _ := e.in.build()
		r := roview.Exec(v, a)
		e.execs++
		if r.Panic != nil {
			e.reportPanic([]int{i}, outcome{panic: r.Panic, stack: r.Stack, pstep: 0})
			st.dropped++
			continue
		}
		v2, _ := e.in.build()
		r2 := roview.Exec(v2, a)
		e.execs++
		if r.Text != r2.Text {
			// twice more: is the difference the library's output varying between identical fresh values?
			seen := map[string]bool{r.Text: true, r2.Text: true}
			for k := 0; k < 2; k++ {
				vk, _ := e.in.build()
				seen[roview.Exec(vk, a).Text] = true
				e.execs++
			}
			e.viol++
			c.Report(fw.Violation{Fingerprint: a.Method + "|nondeterministic-result", Order: order(e.idx, []int{i}), Scope: e.in.kind,
				Input:    fmt.Sprintf("value %s (%s); call v%s on identically built fresh values", e.in.name, e.in.kind, a.Expr),
				Observed: fmt.Sprintf("%d different results on 4 identically built values, e.g. %s vs %s", len(seen), short(r.Text, 200), short(r2.Text, 200)),
				Expected: "equal results", Explain: "the same read-only call on identical values returns different results (e.g. map iteration order visible)"})
			st.dropped++
			continue
		}
		e.base[i], e.ok[i] = r.Text, true
	}
	_, hs := e.in.build()
	for _, h := range hs {
		e.hbase = append(e.hbase, h.get())
		e.hnames = append(e.hnames, h.name)
	}
	// initial state
	out0 := e.run(nil)
	if out0.panic != nil {
		e.reportPanic(nil, out0)
	}
	baseTexts := make([]string, 0, n+len(e.hbase))
	for i := range e.acts {
		if e.ok[i] {
			baseTexts = append(baseTexts, e.base[i])
		}
	}
	baseTexts = append(baseTexts, e.hbase...)
	e.s0 = e.snapshotHash(baseTexts)
	e.states[e.s0] = true
	e.stateOf[""] = e.s0
	if out0.panic == nil && out0.state != e.s0 {
		e.states[out0.state] = true // the snapshot procedure itself (all actions in order) moved the value; level 1 names the action
	}

	// level 1: every action
	type l1 struct {
		a   int
		out outcome
	}
	var bads []l1
	for a := 0; a < n; a++ {
		if !e.ok[a] {
			continue
		}
		out := e.run([]int{a})
		if out.panic != nil {
			e.reportPanic([]int{a}, out)
			e.bad[a] = true
			continue
		}
		e.record([]int{a}, out)
		if len(out.diffs) > 0 {
			e.bad[a] = true
			bads = append(bads, l1{a, out})
		}
	}
	// report level-1 violations, deepest receiver only (a method of a containing value that fails
	// because a method of a contained value does is the same defect)
	for _, x := range bads {
		sub := false
		for _, y := range bads {
			if y.a != x.a && isPrefix(e.acts[x.a].Prefix(), e.acts[y.a].Prefix()) {
				sub = true
				break
			}
		}
		if sub {
			st.subsumed++
			continue
		}
		a := e.acts[x.a]
		d := e.bestDiff(x.out.diffs)
		fp := a.Method + "|" + clause(x.a, x.out.diffs)
		if a.Calls > 1 {
			fp += "|through:" + a.Via
		}
		e.viol++
		c.Report(fw.Violation{Fingerprint: fp, Order: order(e.idx, []int{x.a}), Scope: e.in.kind,
			Input:    fmt.Sprintf("value %s (%s):\n%s\ncall: v%s", e.in.name, e.in.kind, e.in.src, a.Expr),
			Observed: fmt.Sprintf("after the call, %d observation(s) differ from the untouched value: %s. E.g. %s: before %s, after %s", len(x.out.diffs), e.describe(x.out.diffs), e.obsName(d), short(d.want, 240), short(d.got, 240)),
			Expected: "snapshot (encoding, every accessor result, caller-held argument slices) identical before and after a read-only call",
			Explain:  "a read-only method changed the value it was called on (or the caller's slice it was built from)",
			GoTest:   e.goTest([]int{x.a}, d)})
	}

	// level 2 over the full action set
	full := b.full
	if e.in.size > b.heavySize || int64(n)*int64(n)*int64(n+2) > b.maxExec {
		full = 1
	}
	st.full = full
	if full >= 2 {
		for a1 := 0; a1 < n; a1++ {
			if !e.ok[a1] || e.bad[a1] {
				continue
			}
			if c.Over() {
				break
			}
			for a2 := 0; a2 < n; a2++ {
				if !e.ok[a2] {
					continue
				}
				if e.bad[a2] {
					st.skippedBadPref++ // its effect is already a reported violating transition from the same state
					continue
				}
				p := []int{a1, a2}
				out := e.run(p)
				if out.panic != nil {
					e.reportPanic(p, out)
					continue
				}
				e.record(p, out)
				if len(out.diffs) > 0 {
					e.reportSeq(p, out)
				}
			}
		}
	}

	// core: String, Summary, ToBytes, first non-empty list-typed accessor, that accessor's String
	core := e.pickCore()
	for _, ci := range core {
		st.coreExprs = append(st.coreExprs, "v"+e.acts[ci].Expr)
	}
	maxCore := b.core
	if e.in.size > b.heavySize {
		maxCore = 2
	}
	st.core = maxCore
	if len(core) > 0 {
		var rec func(p []int)
		rec = func(p []int) {
			if len(p) > 0 {
				s, done := e.stateOf[pathKey(p)]
				if !done {
					out := e.run(p)
					if out.panic != nil {
						e.reportPanic(p, out)
						return
					}
					e.record(p, out)
					if len(out.diffs) > 0 && len(p) >= 2 {
						e.reportSeq(p, out)
					}
					s = out.state
				}
				if s != e.s0 {
					return // violating state: reported, not expanded
				}
			}
			if len(p) == maxCore || c.Over() {
				return
			}
			for _, ci := range core {
				rec(append(append([]int{}, p...), ci))
			}
		}
		rec(nil)
	}

	st.states, st.trans, st.paths, st.execs = int64(len(e.states)), int64(len(e.trans)), e.paths, e.execs
	st.multi = len(e.states) > 1
	st.viol = e.viol
	return st
}

func (e *explorer) obsName(d diff) string {
	if d.observer < 0 {
		return "caller-held " + d.heldName
	}
	return "v" + e.acts[d.observer].Expr
}

// reportSeq reports a violation that needs a sequence (no single action of it violates alone).
func (e *explorer) reportSeq(p []int, out outcome) {
	last, prev := e.acts[p[len(p)-1]], e.acts[p[len(p)-2]]
	d := e.bestDiff(out.diffs)
	e.viol++
	e.c.Report(fw.Violation{Fingerprint: last.Method + "|" + clause(p[len(p)-1], out.diffs) + "|after:" + prev.Method, Order: order(e.idx, p), Scope: e.in.kind,
		Input:    fmt.Sprintf("value %s (%s):\n%s\ncalls: %s", e.in.name, e.in.kind, e.in.src, e.exprs(p)),
		Observed: fmt.Sprintf("after the sequence, %d observation(s) differ from the untouched value: %s. E.g. %s: before %s, after %s", len(out.diffs), e.describe(out.diffs), e.obsName(d), short(d.want, 240), short(d.got, 240)),
		Expected: "snapshot identical before and after any sequence of read-only calls (no single call of this sequence changes it alone)",
		Explain:  "a sequence of read-only calls changed the value",
		GoTest:   e.goTest(p, d)})
}

func (e *explorer) pickCore() []int {
	var core []int
	has := func(i int) bool {
		for _, c := range core {
			if c == i {
				return true
			}
		}
		return false
	}
	addExpr := func(expr string) {
		for i, a := range e.acts {
			if a.Expr == expr && e.ok[i] && !e.bad[i] && !has(i) {
				core = append(core, i)
				return
			}
		}
	}
	addExpr(".String()")
	addExpr(".Summary()")
	addExpr(".ToBytes()")
	// first list-typed accessor (non-empty result preferred) and a String on its result
	pick := -1
	for pass := 0; pass < 2 && pick < 0; pass++ {
		for i, a := range e.acts {
			if a.Calls == 1 && a.ListResult && (a.NonEmpty || pass == 1) && e.ok[i] && !e.bad[i] && !has(i) && a.LastName() != "ToBytes" {
				// it must have a composite String
				for j, bb := range e.acts {
					if bb.Calls == 2 && strings.HasPrefix(bb.Expr, a.Expr) && bb.LastName() == "String" && e.ok[j] && !e.bad[j] {
						pick = i
						core = append(core, i, j)
						break
					}
				}
				if pick >= 0 {
					break
				}
			}
		}
	}
	// fill up to 5 with the first remaining actions
	for i := range e.acts {
		if len(core) >= 5 {
			break
		}
		if e.ok[i] && !e.bad[i] && !has(i) {
			core = append(core, i)
		}
	}
	if len(core) > 5 {
		core = core[:5]
	}
	return core
}

// ------------------------------------------------------------------ Run

func Run(c *fw.Ctx) {
	c.SetRule("a case is one action sequence replayed on a freshly built/decoded value followed by a full snapshot; sequences are distinct by construction (distinct (value, sequence) pairs); non-trivial = sequences of length ≥ 1 (at least one read-only method executed on the real object before the snapshot is compared)")
	c.Assume("actions = niladic exported methods with ≥ 1 result found by reflection (package roview); methods without result (SetBroadcast/SetUnicast), with arguments, or named Set*/Add*/Update*/Del*/Delete*/With* are mutators or out of scope",
		"only methods of types declared in github.com/insomniacslk/dhcp are actions (methods of net.IP, time.Duration … are the standard library's)",
		"results are compared through a structural renderer that calls no method of the value: exported fields, pointers followed, map keys sorted; unexported fields (private caches) are not observations",
		"at most 3 elements (first two and last) of any slice are visited when enumerating actions on elements; composite actions are one accessor plus one method on (an element / exported field of) its result",
		"no action depends on the clock: dhcpv6.GetTime()-based constructors are not used, DUID-LLT times are fixed")
	b := bounds{full: 2, core: 4, maxExec: 3_000_000, heavySize: 1500}
	if c.Thorough() {
		b = bounds{full: 2, core: 6, maxExec: 40_000_000, heavySize: 4000}
	}
	ins := catalogue(c.Thorough())
	if f := os.Getenv("C20_ONLY"); f != "" { // development aid: restrict to values whose kind/name contains f
		var sel []inst
		for _, in := range ins {
			if strings.Contains(in.kind+":"+in.name, f) {
				sel = append(sel, in)
			}
		}
		ins = sel
	}
	profile := os.Getenv("C20_PROFILE") != ""

	var mu sync.Mutex
	type agg struct {
		values, multi, reduced         int
		actions, maxActions            int
		states, trans, paths, execs    int64
		methods                        map[string]bool
		subsumed, dropped, skippedPref int
	}
	per := map[string]*agg{}
	var next atomic.Int64
	var wg sync.WaitGroup
	var totalPaths, nontriv atomic.Int64
	sampled := map[string]int{}
	for w := 0; w < fw.Workers(); w++ {
		wg.Add(1)
		go func() {
			defer wg.Done()
			for {
				i := int(next.Add(1) - 1)
				if i >= len(ins) || c.Over() {
					return
				}
				e := &explorer{c: c, idx: i, in: ins[i]}
				var st stats
				t0 := time.Now()
				pv, stack := fw.Safe(func() { st = e.explore(b) })
				if profile {
					fmt.Fprintf(os.Stderr, "profile %-22s %-70s actions=%-4d size=%-6d full=%d paths=%-7d execs=%-9d %.2fs\n", ins[i].kind, short(ins[i].name, 70), st.actions, ins[i].size, st.full, st.paths, st.execs, time.Since(t0).Seconds())
				}
				if pv != nil {
					c.Report(fw.Violation{Fingerprint: "harness|panic|" + fw.PanicSite(stack), Order: int64(i), Scope: ins[i].kind,
						Input: ins[i].name, Observed: fmt.Sprintf("panic: %v at %s", pv, stack), Expected: "no panic"})
					continue
				}
				totalPaths.Add(st.paths)
				nontriv.Add(st.paths - 1)
				mu.Lock()
				a := per[st.kind]
				if a == nil {
					a = &agg{methods: map[string]bool{}}
					per[st.kind] = a
				}
				a.values++
				if st.multi {
					a.multi++
				}
				if st.full < b.full {
					a.reduced++
				}
				a.actions += st.actions
				if st.actions > a.maxActions {
					a.maxActions = st.actions
				}
				a.states += st.states
				a.trans += st.trans
				a.paths += st.paths
				a.execs += st.execs
				a.subsumed += st.subsumed
				a.dropped += st.dropped
				a.skippedPref += st.skippedBadPref
				for m := range st.methods {
					a.methods[m] = true
				}
				if sampled[st.kind] < 1 && len(st.coreExprs) > 1 {
					sampled[st.kind]++
					seq := st.coreExprs
					if len(seq) > b.core {
						seq = seq[:b.core]
					}
					c.Sample(map[string]any{"value": ins[i].name, "kind": st.kind, "actions": st.actions,
						"core": st.coreExprs, "one_core_sequence": strings.Join(seq, " ; ") + " ; <snapshot>",
						"states": st.states, "transitions": st.trans, "paths": st.paths})
				}
				mu.Unlock()
			}
		}()
	}
	wg.Wait()
	c.Eval(totalPaths.Load())
	c.Nontrivial(nontriv.Load())

	kinds := make([]string, 0, len(per))
	for k := range per {
		kinds = append(kinds, k)
	}
	sort.Strings(kinds)
	var S, T, P, X int64
	multi, values := 0, 0
	surface := map[string]any{}
	allMethods := map[string]bool{}
	for _, k := range kinds {
		a := per[k]
		S += a.states
		T += a.trans
		P += a.paths
		X += a.execs
		multi += a.multi
		values += a.values
		names := map[string]bool{}
		for m := range a.methods {
			allMethods[m] = true
			names[m[strings.LastIndex(m, ".")+1:]] = true
		}
		surface[k] = map[string]any{"values": a.values, "distinct_type_methods": len(a.methods), "distinct_method_names": len(names),
			"mean_actions_per_value": float64(a.actions) / float64(max(a.values, 1)), "max_actions_per_value": a.maxActions}
		c.Scope(k, "values", a.values, "actions_total", a.actions, "max_actions_per_value", a.maxActions,
			"full_set_sequence_length", b.full, "values_with_full_set_length_reduced_to_1", a.reduced, "core_sequence_length", b.core,
			"states", a.states, "transitions", a.trans, "paths", a.paths, "method_executions", a.execs,
			"values_with_more_than_one_reachable_state", a.multi, "reports_subsumed_by_deeper_receiver", a.subsumed,
			"actions_dropped_from_snapshot(panic/nondeterministic)", a.dropped, "length2_sequences_not_expanded_past_violating_action", a.skippedPref)
	}
	c.AddStates(S, T, P)
	ml := make([]string, 0, len(allMethods))
	for m := range allMethods {
		ml = append(ml, m)
	}
	sort.Strings(ml)
	c.Extra("initial_values", values)
	c.Extra("initial_values_with_more_than_one_reachable_state", multi)
	c.Extra("max_depth", b.core)
	c.Extra("method_executions_on_real_objects", X)
	c.Extra("action_surface_by_value_kind", surface)
	c.Extra("distinct_type_methods_total", len(ml))
	c.Extra("type_methods", ml)
	c.Extra("bounds", map[string]any{"full_action_set_max_length": b.full, "core_max_length": b.core,
		"per_value_execution_cap_for_length2_full_search": b.maxExec, "encoded_size_above_which_bounds_are_reduced(full 1, core 2)": b.heavySize})
	c.Sample(map[string]any{"sequence_shapes": []string{
		"len 1 (full set): v := fresh(); v.String(); snapshot(v) == baseline",
		"len 2 (full set): v := fresh(); v.Options.IANA(); v.Summary(); snapshot(v) == baseline",
		"len 4 (core): v := fresh(); v.Summary(); v.ToBytes(); v.ParameterRequestList(); v.ParameterRequestList().String(); snapshot(v) == baseline"}})
}
