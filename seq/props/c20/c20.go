// Package c20: reading or printing a message never changes it.
//
// Explicit-state search over sequences of read-only calls on real library
// values. For every initial value (DHCPv4 packets, DHCPv6 messages, standalone
// options and typed option values, built and decoded) the action set is found
// by reflection (package roview): every niladic exported method with at least
// one result on the value, on the values in its exported fields / elements and
// on what its accessors return (composite actions). The state of a value is
// its snapshot: the rendered result of every action (ToBytes is one of them)
// plus the caller-side argument slices the harness kept a handle on.
//
// Search: all action sequences of length ≤ 2 over the full action set and of
// length ≤ 4 (quick) / ≤ 6 (thorough) over a 5-action core; every sequence is
// replayed on a freshly built (or freshly decoded) value, followed by a
// snapshot. Invariant in every state: the snapshot equals the baseline (each
// action's result on an untouched value), i.e. no read changes the encoding,
// any other accessor's result, a repeated call's result or the caller's
// slices. States whose invariant fails are reported and not expanded.
//
// Length-1 sequences always get the full snapshot; when one differs, every
// observation is repeated on its own fresh replay so that the violating
// method is named exactly (the snapshot is itself a sequence of reads). For
// longer sequences a per-value execution budget decides between the full
// snapshot and the reduced one (core actions, ToBytes, caller-held slices, the
// results of the sequence's own calls); the evidence says how many values got
// which.
package c20

import (
	"encoding/hex"
	"fmt"
	"os"
	"reflect"
	"runtime/debug"
	"sort"
	"strings"
	"sync"
	"sync/atomic"
	"time"

	"github.com/insomniacslk/dhcp/dhcpv4"
	"github.com/insomniacslk/dhcp/dhcpv6"
	"verif/seq/corpus6"
	"verif/seq/fw"
	"verif/seq/roview"
)

// held is a caller-side argument the harness keeps a handle on.
type held struct {
	name string
	get  func() string
}

func hold(name string, x any) held {
	return held{name: name, get: func() string { return roview.Render(reflect.ValueOf(x)) }}
}

// inst is one initial value: a recipe that yields a fresh value on every call.
type inst struct {
	kind  string
	name  string
	src   string // Go statements that declare `v` (and the held variables)
	build func() (any, []held)
	size  int // encoded size (0 if the value has no ToBytes)
}

var cfg = roview.DefaultConfig()

// ------------------------------------------------------------------ catalogue

func encLen(v any) int {
	type tb interface{ ToBytes() []byte }
	n := 0
	fw.Safe(func() {
		if x, ok := v.(tb); ok {
			n = len(x.ToBytes())
		}
	})
	return n
}

func hexSrc(b []byte) string {
	return fmt.Sprintf("buf, _ := hex.DecodeString(%q)", hex.EncodeToString(b))
}

// catalogue returns every initial value of the tier.
func catalogue(thorough bool) []inst {
	var out []inst
	add := func(in inst) {
		v, _ := in.build()
		in.size = encLen(v)
		out = append(out, in)
	}
	// decoded twin of a DHCPv4 packet
	addV4Decoded := func(in inst) {
		v, _ := in.build()
		p, ok := v.(*dhcpv4.DHCPv4)
		if !ok {
			return
		}
		var wire []byte
		if pv, _ := fw.Safe(func() { wire = p.ToBytes() }); pv != nil {
			return
		}
		if _, err := dhcpv4.FromBytes(append([]byte(nil), wire...)); err != nil {
			return
		}
		add(inst{kind: "v4-packet-decoded", name: in.name + "/decoded",
			src: hexSrc(wire) + "\nv, err := dhcpv4.FromBytes(buf)\nif err != nil {\n\tpanic(err)\n}",
			build: func() (any, []held) {
				buf := append([]byte(nil), wire...)
				d, err := dhcpv4.FromBytes(buf)
				if err != nil {
					panic(err)
				}
				return d, []held{hold("buf", buf)}
			}})
	}
	// decoded twin of a listed DHCPv6 message
	addV6Decoded := func(in inst) {
		v, _ := in.build()
		m, ok := v.(dhcpv6.DHCPv6)
		if !ok {
			return
		}
		var wire []byte
		if pv, _ := fw.Safe(func() { wire = m.ToBytes() }); pv != nil {
			return
		}
		if _, err := dhcpv6.FromBytes(append([]byte(nil), wire...)); err != nil {
			return
		}
		add(inst{kind: "v6-message-decoded", name: in.name + "/decoded",
			src: hexSrc(wire) + "\nv, err := dhcpv6.FromBytes(buf)\nif err != nil {\n\tpanic(err)\n}",
			build: func() (any, []held) {
				buf := append([]byte(nil), wire...)
				d, err := dhcpv6.FromBytes(buf)
				if err != nil {
					panic(err)
				}
				return d, []held{hold("buf", buf)}
			}})
	}
	for _, in := range listed() {
		add(in)
		if in.kind == "v4-packet" && (thorough || !strings.HasPrefix(in.name, "modifier/")) {
			addV4Decoded(in)
		}
		if in.kind == "v6-message" && (thorough || !strings.HasPrefix(in.name, "modifier/")) {
			addV6Decoded(in)
		}
	}
	// values decoded from hand-assembled, accepted, non-canonical bytes (both tiers, all of them)
	nc, _ := noncanonical()
	for _, in := range nc {
		add(in)
	}
	for k := 0; k < 3; k++ {
		k := k
		in := inst{kind: "v4-packet", name: fmt.Sprintf("corpus6.V4Packet(%d)", k),
			src:   fmt.Sprintf("v := corpus6.V4Packet(%d) // import \"verif/seq/corpus6\"", k),
			build: func() (any, []held) { return corpus6.V4Packet(k), nil }}
		add(in)
		addV4Decoded(in)
	}
	// DHCPv6 option instances, standalone, built and decoded
	addV6Opt := func(name, src string, mk func() dhcpv6.Option, decode bool) {
		add(inst{kind: "v6-option", name: name, src: src, build: func() (any, []held) { return mk(), nil }})
		if !decode {
			return
		}
		o := mk()
		var wire []byte
		if pv, _ := fw.Safe(func() { wire = o.ToBytes() }); pv != nil {
			return
		}
		code := o.Code()
		if _, err := dhcpv6.ParseOption(code, append([]byte(nil), wire...)); err != nil {
			return
		}
		add(inst{kind: "v6-option-decoded", name: name + "/decoded",
			src: hexSrc(wire) + fmt.Sprintf("\nv, err := dhcpv6.ParseOption(dhcpv6.OptionCode(%d), buf)\nif err != nil {\n\tpanic(err)\n}", uint16(code)),
			build: func() (any, []held) {
				buf := append([]byte(nil), wire...)
				d, err := dhcpv6.ParseOption(code, buf)
				if err != nil {
					panic(err)
				}
				return d, []held{hold("buf", buf)}
			}})
	}
	for i, ci := range corpus6.Instances() {
		ci := ci
		addV6Opt("corpus6/"+ci.Name, fmt.Sprintf("v := corpus6.Instances()[%d].Build() // %s; import \"verif/seq/corpus6\"", i, ci.Name), ci.Build, true)
	}
	for i, ci := range corpus6.NTPSubInstances() {
		ci := ci
		addV6Opt("corpus6/"+ci.Name, fmt.Sprintf("v := corpus6.NTPSubInstances()[%d].Build() // %s; import \"verif/seq/corpus6\"", i, ci.Name), ci.Build, false)
	}
	for i, ch := range corpus6.Chains() {
		ch := ch
		addV6Opt("corpus6/chain/"+ch.Name, fmt.Sprintf("v := corpus6.Chains()[%d].Build() // %s; import \"verif/seq/corpus6\"", i, ch.Name), ch.Build, true)
	}
	// DHCPv6 messages, built and decoded
	msgs := corpus6.Messages(thorough)
	stride := 1
	if !thorough {
		stride = 3 // deterministic subset: every third case of the quick corpus (3 is coprime to the family periods 2, 4 and 5, so every family, depth, inner kind and mask is kept)
	}
	for i := 0; i < len(msgs); i += stride {
		mc := msgs[i]
		idx := i
		add(inst{kind: "v6-message", name: "corpus6/" + mc.Name,
			src:   fmt.Sprintf("v := corpus6.Messages(%v)[%d].Build() // %s; import \"verif/seq/corpus6\"", thorough, idx, mc.Name),
			build: func() (any, []held) { return mc.Build(), nil }})
		m := mc.Build()
		var wire []byte
		if pv, _ := fw.Safe(func() { wire = m.ToBytes() }); pv != nil {
			continue
		}
		if _, err := dhcpv6.FromBytes(append([]byte(nil), wire...)); err != nil {
			continue
		}
		add(inst{kind: "v6-message-decoded", name: "corpus6/" + mc.Name + "/decoded",
			src: hexSrc(wire) + "\nv, err := dhcpv6.FromBytes(buf)\nif err != nil {\n\tpanic(err)\n}",
			build: func() (any, []held) {
				buf := append([]byte(nil), wire...)
				d, err := dhcpv6.FromBytes(buf)
				if err != nil {
					panic(err)
				}
				return d, []held{hold("buf", buf)}
			}})
	}
	return out
}

// ------------------------------------------------------------------ Run

func Run(c *fw.Ctx) {
	c.SetRule("a case is one action sequence replayed on a freshly built/decoded value followed by a snapshot comparison; sequences are distinct by construction (distinct (value, sequence) pairs); non-trivial = sequences of length ≥ 1 (at least one read-only method executed on the real object before the snapshot is compared)")
	c.Assume("actions = niladic exported methods with ≥ 1 result found by reflection (package roview); methods without result (SetBroadcast/SetUnicast), with arguments, or whose name starts with the word Set/Add/Update/Del/Delete/With (CamelCase boundary: AddOption yes, Addresses no) are mutators or out of scope",
		"only methods of types declared in github.com/insomniacslk/dhcp are actions (methods of net.IP, time.Duration … are the standard library's)",
		"on packets and messages the package-level functions that read them are actions too (helpers.go): ExtractMAC, DecapsulateRelay(Index), GetTransactionID, the ztpv4/ztpv6/netboot extractors, EncapsulateRelay and the builders that take the value as their input (their result is rendered with the transaction id zeroed: some builders draw a fresh random id)",
		"results are compared through a structural renderer that calls no method of the value: exported fields, pointers followed, map keys sorted; unexported fields (private caches) are not observations",
		"at most 3 elements (first two and last) of any slice are visited when enumerating actions on elements; actions before the first call reach the value, its exported fields and elements of its exported slice fields; composite actions are one accessor plus one method on its result, on an element of the result or on an exported field of the result",
		"no action depends on the clock: dhcpv6.GetTime()-based constructors are not used, DUID-LLT times are fixed")
	b := bounds{full: 2, core: 4, budget: 100_000, budgetCore: 40_000}
	if c.Thorough() {
		b = bounds{full: 2, core: 6, budget: 250_000, budgetCore: 250_000}
	}
	defer debug.SetGCPercent(debug.SetGCPercent(400)) // short-lived garbage only; fewer collections
	ins := catalogue(c.Thorough())
	if f := os.Getenv("C20_ONLY"); f != "" { // development aid: restrict to values whose kind/name contains f
		var sel []inst
		for _, in := range ins {
			if strings.Contains(in.kind+":"+in.name, f) {
				sel = append(sel, in)
			}
		}
		ins = sel
	}
	profile := os.Getenv("C20_PROFILE") != ""
	ordinal := make([]int, len(ins)) // position of a value within its kind
	seenKind := map[string]int{}
	for i, in := range ins {
		ordinal[i] = seenKind[in.kind]
		seenKind[in.kind]++
	}

	// work queue: largest encodings first (the heaviest values must not form the tail); idx stays the catalogue index
	queue := make([]int, len(ins))
	for i := range queue {
		queue[i] = i
	}
	sort.SliceStable(queue, func(a, b int) bool { return ins[queue[a]].size > ins[queue[b]].size })

	var mu sync.Mutex
	type agg struct {
		values, multi, redL2, redCore  int
		coreLen                        map[int]int
		actions, maxActions            int
		states, trans, paths, execs    int64
		methods                        map[string]bool
		subsumed, dropped, skippedPref int
	}
	per := map[string]*agg{}
	var next atomic.Int64
	var wg sync.WaitGroup
	var totalPaths, nontriv atomic.Int64
	type sample struct {
		idx int
		m   map[string]any
	}
	sampled := map[string]sample{}
	for w := 0; w < fw.Workers(); w++ {
		wg.Add(1)
		slot := fw.NewSlot()
		go func() {
			defer wg.Done()
			for {
				q := int(next.Add(1) - 1)
				if q >= len(ins) || c.Over() {
					return
				}
				i := queue[q]
				e := &explorer{c: c, idx: i, in: ins[i], slot: slot}
				var st stats
				t0 := time.Now()
				bi := b
				if b.core > 5 && (ins[i].kind == "v6-message" || ins[i].kind == "v6-message-decoded") && ordinal[i]%8 != 0 {
					bi.core = 5 // thorough: the longest core sequences on every 8th message only (all messages share the Message/RelayMessage printing and encoding code)
				}
				fw.Track(slot, int64(i), func() string { return "value " + ins[i].kind + " " + ins[i].name })
				pv, stack := fw.Safe(func() { st = e.explore(bi) })
				fw.Untrack(slot)
				if profile {
					fmt.Fprintf(os.Stderr, "profile %-22s %-70s actions=%-4d size=%-6d fullsnap=%v/%v paths=%-7d execs=%-9d %.2fs\n", ins[i].kind, short(ins[i].name, 70), st.actions, ins[i].size, st.fullSnapL2, st.fullSnapCore, st.paths, st.execs, time.Since(t0).Seconds())
				}
				if pv != nil {
					c.Report(fw.Violation{Fingerprint: "harness|panic|" + fw.PanicSite(stack), Order: int64(i), Scope: ins[i].kind,
						Input: ins[i].name, Observed: fmt.Sprintf("panic: %v at %s", pv, stack), Expected: "no panic"})
					continue
				}
				totalPaths.Add(st.paths)
				nontriv.Add(st.paths - 1)
				mu.Lock()
				a := per[st.kind]
				if a == nil {
					a = &agg{methods: map[string]bool{}, coreLen: map[int]int{}}
					per[st.kind] = a
				}
				a.values++
				a.coreLen[st.coreLen]++
				if st.multi {
					a.multi++
				}
				if !st.fullSnapL2 {
					a.redL2++
				}
				if !st.fullSnapCore {
					a.redCore++
				}
				a.actions += st.actions
				if st.actions > a.maxActions {
					a.maxActions = st.actions
				}
				a.states += st.states
				a.trans += st.trans
				a.paths += st.paths
				a.execs += st.execs
				a.subsumed += st.subsumed
				a.dropped += st.dropped
				a.skippedPref += st.notExp
				for m := range st.methods {
					a.methods[m] = true
				}
				if cur, seen := sampled[st.kind]; (!seen || i < cur.idx) && len(st.coreExprs) > 1 {
					k := st.coreExprs
					long := make([]string, 0, b.core)
					for j := 0; j < b.core; j++ {
						long = append(long, k[(j*2)%len(k)])
					}
					sampled[st.kind] = sample{i, map[string]any{"value": ins[i].name, "kind": st.kind, "construction": short(ins[i].src, 400), "actions": st.actions, "core_actions": k,
						"sequences_executed_(each_on_a_fresh_value,_then_snapshot)": []string{k[0], k[len(k)-1] + " ; " + k[0], strings.Join(long, " ; ")},
						"states": st.states, "transitions": st.trans, "paths": st.paths, "method_executions": st.execs}}
				}
				mu.Unlock()
			}
		}()
	}
	wg.Wait()
	c.Eval(totalPaths.Load())
	c.Nontrivial(nontriv.Load())

	kinds := make([]string, 0, len(per))
	for k := range per {
		kinds = append(kinds, k)
	}
	sort.Strings(kinds)
	for _, k := range kinds {
		if sm, ok := sampled[k]; ok {
			c.Sample(sm.m)
		}
	}
	var S, T, P, X int64
	multi, values := 0, 0
	surface := map[string]any{}
	allMethods := map[string]bool{}
	for _, k := range kinds {
		a := per[k]
		S += a.states
		T += a.trans
		P += a.paths
		X += a.execs
		multi += a.multi
		values += a.values
		names := map[string]bool{}
		for m := range a.methods {
			allMethods[m] = true
			names[m[strings.LastIndex(m, ".")+1:]] = true
		}
		surface[k] = map[string]any{"values": a.values, "distinct_type_methods": len(a.methods), "distinct_method_names": len(names),
			"mean_actions_per_value": float64(a.actions) / float64(max(a.values, 1)), "max_actions_per_value": a.maxActions}
		c.Scope(k, "values", a.values, "actions_total", a.actions, "max_actions_per_value", a.maxActions,
			"full_set_sequence_length", b.full, "values_by_core_sequence_length", fmt.Sprint(a.coreLen),
			"values_with_reduced_snapshot_at_length2_full_set", a.redL2, "values_with_reduced_snapshot_in_core_search", a.redCore,
			"states", a.states, "transitions", a.trans, "paths", a.paths, "method_executions", a.execs,
			"values_with_more_than_one_reachable_state", a.multi, "reports_subsumed_by_deeper_receiver", a.subsumed,
			"actions_dropped_from_snapshot(panic/nondeterministic)", a.dropped, "length2_sequences_not_expanded_past_violating_action", a.skippedPref)
	}
	c.AddStates(S, T, P)
	ml := make([]string, 0, len(allMethods))
	for m := range allMethods {
		ml = append(ml, m)
	}
	sort.Strings(ml)
	nc, rejected := noncanonical()
	differ, total := reencodes(nc)
	c.Extra("hand_assembled_noncanonical_inputs", map[string]any{"accepted_and_explored": len(nc), "rejected_by_the_library_(not_values)": rejected,
		"accepted_whose_re-encoding_differs_from_the_input": differ, "accepted_with_encoding": total})
	c.Extra("initial_values", values)
	c.Extra("initial_values_with_more_than_one_reachable_state", multi)
	c.Extra("max_depth", b.core)
	c.Extra("method_executions_on_real_objects", X)
	c.Extra("action_surface_by_value_kind", surface)
	c.Extra("distinct_type_methods_total", len(ml))
	c.Extra("type_methods", ml)
	c.Extra("bounds", map[string]any{"full_action_set_max_length": b.full, "core_max_length": b.core,
		"core_max_length_note": "thorough: 6 for every value except the corpus DHCPv6 messages (kinds v6-message, v6-message-decoded), where every 8th gets 6 and the others 5; quick: 4 for every value",
		"per_value_execution_budget_above_which_the_reduced_snapshot_is_compared(length-2 full set)": b.budget,
		"per_value_execution_budget_above_which_the_reduced_snapshot_is_compared(core search)":       b.budgetCore,
		"reduced_snapshot": "core actions + the value's ToBytes + caller-held slices + the results of the sequence's own calls (length-1 sequences always get the full snapshot on the same value; if anything differs every observation is repeated on its own fresh replay for exact attribution)"})
	c.Sample(map[string]any{"sequence_shapes": []string{
		"len 1 (full set): v := fresh(); v.String(); snapshot(v) == baseline",
		"len 2 (full set): v := fresh(); v.Options.IANA(); v.Summary(); snapshot(v) == baseline",
		"len 4 (core): v := fresh(); v.Summary(); v.ToBytes(); v.ParameterRequestList(); v.ParameterRequestList().String(); snapshot(v) == baseline"}})
}
