package c20

// Values decoded from hand-assembled bytes that the library accepts but would
// not produce itself (non-canonical encodings): no library call is involved
// in assembling them. They matter because every other decoded value of the
// catalogue is decoded from the library's own encoding, for which "re-encode"
// and "echo the bytes that were parsed" cannot be told apart — a reader that
// drops, normalises or re-creates something only shows on these.

import (
	"bytes"
	"fmt"

	"github.com/insomniacslk/dhcp/dhcpv4"
	"github.com/insomniacslk/dhcp/dhcpv6"
	"verif/seq/corpus6"
	"verif/seq/fw"
	"verif/seq/props/c04"
)

type wire struct {
	name string
	b    []byte
}

func cat(parts ...[]byte) []byte {
	var out []byte
	for _, p := range parts {
		out = append(out, p...)
	}
	return out
}

// tlv6 is code:u16 len:u16 value.
func tlv6(code uint16, v ...[]byte) []byte {
	val := cat(v...)
	return cat([]byte{byte(code >> 8), byte(code), byte(len(val) >> 8), byte(len(val))}, val)
}

func be32(x uint32) []byte { return []byte{byte(x >> 24), byte(x >> 16), byte(x >> 8), byte(x)} }

func msg6(typ byte, opts ...[]byte) []byte { return cat([]byte{typ, 0x0a, 0x0b, 0x0c}, cat(opts...)) }

func relay6(typ, hop byte, opts ...[]byte) []byte {
	return cat([]byte{typ, hop}, corpus6.AddrA, corpus6.AddrB, cat(opts...))
}

func name(labels ...string) []byte {
	var out []byte
	for _, l := range labels {
		out = append(out, byte(len(l)))
		out = append(out, l...)
	}
	return append(out, 0)
}

// v4opt is one option instance code,len,value.
func v4opt(code byte, v ...byte) []byte { return cat([]byte{code, byte(len(v))}, v) }

func v4pkt(area ...[]byte) []byte { return cat(c04.Prefix(), cat(area...)) }

// wire6 returns the hand-assembled DHCPv6 messages.
func wire6() []wire {
	var out []wire
	duidLL := []byte{0, 3, 0, 1, 0xa0, 0xa1, 0xa2, 0xa3, 0xa4, 0xa5}
	// every message also travels inside one relay-forward (interface-id first, relay-msg second)
	add := func(n string, m []byte) {
		out = append(out, wire{n, m})
		out = append(out, wire{n + "/relayed", relay6(12, 0, tlv6(18, []byte("if1")), tlv6(9, m))})
	}
	oroDup := msg6(1, tlv6(1, duidLL), tlv6(6, []byte{0, 23, 0, 24, 0, 23}), tlv6(8, []byte{0, 0}))
	add("oro-lists-a-code-twice", oroDup)
	r1 := relay6(12, 0, tlv6(9, oroDup), tlv6(18, []byte("if1")))
	out = append(out, wire{"oro-lists-a-code-twice/relay-depth2", relay6(12, 1, tlv6(37, be32(9), []byte{1, 2}), tlv6(9, r1))})
	out = append(out, wire{"oro-lists-a-code-twice/relay-depth3", relay6(12, 2, tlv6(9, relay6(12, 1, tlv6(9, r1))))})
	out = append(out, wire{"oro-lists-a-code-twice/relay-reply", relay6(13, 0, tlv6(9, cat([]byte{7, 1, 2, 3}, tlv6(6, []byte{0, 23, 0, 23}))))})
	add("two-oro-options", msg6(1, tlv6(6, []byte{0, 23}), tlv6(8, []byte{0xff, 0xff}), tlv6(6, []byte{0, 24, 0, 23})))
	add("oro-code-0-in-the-middle", msg6(11, tlv6(6, []byte{0, 24, 0, 0, 0, 23})))
	add("oro-empty", msg6(11, tlv6(6)))
	// names: compression pointer, trailing partial name, both
	ptr := cat(name("example", "com"), []byte{3, 's', 'u', 'b', 0xc0, 0x00})
	partial := cat(name("a", "b"), []byte{4, 'h', 'o', 's', 't'})
	for _, nm := range []struct {
		n string
		b []byte
	}{{"pointer", ptr}, {"partial", partial}, {"pointer-to-middle", cat(name("ntp", "example"), []byte{1, 'x', 0xc0, 0x04})}, {"upper-case", name("ExAmple", "COM")}} {
		add("domain-list/"+nm.n, msg6(7, tlv6(24, nm.b)))
		add("fqdn/"+nm.n, msg6(7, tlv6(39, []byte{1}, nm.b)))
		add("ntp-fqdn/"+nm.n, msg6(7, tlv6(56, tlv6(1, corpus6.AddrA), tlv6(3, nm.b), tlv6(2, corpus6.AddrB))))
	}
	add("fqdn/flags-only", msg6(7, tlv6(39, []byte{0xff})))
	// lists with empty / zero elements in the middle
	add("user-class/a-empty-b", msg6(1, tlv6(15, []byte{0, 1, 'a', 0, 0, 0, 1, 'b'})))
	add("user-class/empty-first-and-last", msg6(1, tlv6(15, []byte{0, 0, 0, 1, 'x', 0, 0, 0, 2, 'y', 'z', 0, 0})))
	add("vendor-class/a-empty-b", msg6(1, tlv6(16, be32(9), []byte{0, 1, 'a', 0, 0, 0, 1, 'b'})))
	add("bootfile-param/a-empty-b", msg6(7, tlv6(59, []byte("tftp://h/f\x00\x00")), tlv6(60, []byte{0, 1, 'a', 0, 0, 0, 1, 'b'})))
	add("dns/unspecified-in-the-middle", msg6(7, tlv6(23, corpus6.AddrB, corpus6.AddrZero, corpus6.AddrA), tlv6(88, corpus6.AddrB, corpus6.AddrZero, corpus6.AddrA)))
	add("dns/empty", msg6(7, tlv6(23), tlv6(88)))
	add("arch/0-in-the-middle-and-repeat", msg6(1, tlv6(61, []byte{0, 7, 0, 0, 0, 11, 0, 7})))
	// identity associations: status before the addresses, nested status, T1 > T2, extreme lifetimes
	iaaddr := func(a []byte, p, v uint32, nested ...[]byte) []byte {
		return tlv6(5, a, be32(p), be32(v), cat(nested...))
	}
	status := func(code byte, m string) []byte { return tlv6(13, []byte{0, code}, []byte(m)) }
	add("ia-na/status-before-addresses", msg6(7, tlv6(3, []byte{1, 2, 3, 4}, be32(7200), be32(3600),
		status(0, "ok"), iaaddr(corpus6.AddrB, 0xffffffff, 0, status(2, "")), tlv6(65535, []byte{1}), iaaddr(corpus6.AddrZero, 0, 0xffffffff), iaaddr(corpus6.AddrA, 1, 1))))
	add("ia-na/two-ia-na-two-status", msg6(7, status(5, "first"), tlv6(3, []byte{0, 0, 0, 1}, be32(0), be32(0)), status(0, "second\x00"), tlv6(3, []byte{0, 0, 0, 1}, be32(0xffffffff), be32(0xffffffff), iaaddr(corpus6.AddrA, 2, 1))))
	add("ia-ta/status-address-status", msg6(7, tlv6(4, []byte{1, 2, 3, 4}, status(0, ""), iaaddr(corpus6.AddrA, 1, 2), status(1, "x"))))
	iaprefix := func(plen byte, a []byte, nested ...[]byte) []byte {
		return tlv6(26, be32(0x00010e10), be32(0x00021518), []byte{plen}, a, cat(nested...))
	}
	add("ia-pd/prefix-forms", msg6(7, tlv6(25, []byte{1, 2, 3, 4}, be32(0xffffffff), be32(1),
		iaprefix(0, corpus6.AddrA), status(6, "NoPrefixAvail"), iaprefix(32, corpus6.AddrOnes), iaprefix(128, corpus6.AddrB, status(0, "ok")), iaprefix(64, corpus6.AddrZero))))
	// durations at the extremes
	add("durations/extremes", msg6(7, tlv6(8, []byte{0xff, 0xff}), tlv6(32, be32(0xffffffff)), tlv6(135, []byte{0xff, 0xff})))
	add("durations/zero", msg6(11, tlv6(8, []byte{0, 0}), tlv6(32, be32(0)), tlv6(135, []byte{0, 0})))
	// identifiers
	add("duid/opaque-type-and-odd-lengths", msg6(1, tlv6(1, []byte{0xff, 0xfe, 1, 2, 3}), tlv6(2, []byte{0, 1, 0, 6, 1, 2, 3, 4, 0xaa})))
	add("duid/en-empty-and-uuid", msg6(1, tlv6(1, []byte{0, 2, 0, 0, 0, 9}), tlv6(2, []byte{0, 4}, corpus6.AddrA)))
	add("duid/two-client-ids", msg6(1, tlv6(1, duidLL), tlv6(1, []byte{0, 3, 0, 6, 1})))
	// opaque and unknown
	add("unknown/zero-length-and-repeated", msg6(11, tlv6(14), tlv6(0xfffe, []byte{1}), tlv6(14), tlv6(0, []byte{0}), tlv6(0xfffe)))
	add("vendor-opts/sub-options", msg6(7, tlv6(17, be32(4491), tlv6(3, []byte{1}), tlv6(2), tlv6(3, []byte{2}), tlv6(1, []byte{3})), tlv6(17, be32(0))))
	add("remote-id-and-interface-id/empty", relay6(12, 0xff, tlv6(37, be32(0)), tlv6(18), tlv6(79, []byte{0, 1}), tlv6(9, msg6(1))))
	add("status/non-utf8-message", msg6(7, tlv6(13, []byte{0xff, 0xff, 0xc3, 0x28, 0, ' ', '\n'})))
	add("4rd/rule-forms", msg6(7, tlv6(97, tlv6(99, []byte{0x81, 0x42, 0x05, 0xdc}), tlv6(98, []byte{0, 0, 7, 0x80, 192, 0, 2, 1}, corpus6.AddrA), tlv6(100, []byte{9}), tlv6(98, []byte{32, 128, 0, 0, 255, 255, 255, 255}, corpus6.AddrOnes))))
	add("nii-and-link-layer", msg6(1, tlv6(62, []byte{0xff, 0xff, 0xff}), tlv6(79, []byte{0xff, 0xff, 1, 2, 3})))
	add("relay-msg/two-relay-msg-options", relay6(12, 3, tlv6(9, msg6(1, tlv6(6, []byte{0, 1, 0, 1}))), tlv6(9, msg6(3))))
	add("message-type-255", msg6(255, tlv6(6, []byte{0, 23, 0, 23})))
	// DHCPv4 inside DHCPv6
	for _, p := range wire4()[:4] {
		add("dhcpv4-query/"+p.name, cat([]byte{20, 0, 0, 1}, tlv6(87, p.b)))
	}
	return out
}

// wire4 returns the hand-assembled DHCPv4 packets.
func wire4() []wire {
	var out []wire
	add := func(n string, b []byte) { out = append(out, wire{n, b}) }
	end := []byte{0xff}
	o53, o1, o12 := v4opt(53, 1), v4opt(1, 255, 255, 255, 0), v4opt(12, []byte("host")...)
	o55 := v4opt(55, 15, 3, 1, 3)
	o82 := v4opt(82, 2, 1, 'r', 1, 2, 'a', 'b')
	add("unsorted-options-82-first", v4pkt(o82, o55, o12, o53, o1, end))
	add("pads-between-options", v4pkt(o53, []byte{0, 0}, o12, []byte{0}, o55, end, []byte{0, 0, 0}))
	add("split-non-maximal-and-zero-length-instances", v4pkt(v4opt(224, 1, 2, 3), v4opt(224), v4opt(224, 4, 5, 6, 7, 8), v4opt(55, 3, 1), o53, v4opt(55, 15), end))
	add("interleaved-repeated-codes", v4pkt(v4opt(12, 'h', 'o'), o53, v4opt(12, 's', 't'), v4opt(55, 3), o1, v4opt(55, 1), v4opt(82, 1, 1, 'a'), v4opt(3, 10, 0, 0, 1), v4opt(82, 2, 1, 'b'), v4opt(3, 10, 0, 0, 2), end))
	add("split-300-as-100-200", v4pkt(cat([]byte{43, 100}, bytes.Repeat([]byte{0xab}, 100)), o53, cat([]byte{43, 200}, bytes.Repeat([]byte{0xcd}, 200)), end))
	add("octets-after-end", v4pkt(o53, o12, end, v4opt(53, 5), []byte{1, 2, 3, 0xff}))
	add("end-only-240+1", v4pkt(end))
	pfx := func(mod func(b []byte)) []byte {
		b := c04.Prefix()
		mod(b)
		return b
	}
	add("sname-and-file-without-nul", cat(pfx(func(b []byte) {
		copy(b[44:108], bytes.Repeat([]byte{'s'}, 64))
		copy(b[108:236], bytes.Repeat([]byte{'f'}, 128))
	}), o53, end))
	add("sname-and-file-junk-after-nul", cat(pfx(func(b []byte) {
		copy(b[44:108], "srv\x00junk")
		b[107] = 'z'
		copy(b[108:236], "\x00boot")
	}), o53, end))
	add("hlen-255", cat(pfx(func(b []byte) { b[2] = 255 }), o53, end))
	add("hlen-17", cat(pfx(func(b []byte) { b[2] = 17 }), o53, end))
	add("hlen-0-over-nonzero-chaddr", cat(pfx(func(b []byte) { b[2] = 0 }), o53, end))
	add("header-extremes", cat(pfx(func(b []byte) {
		b[0], b[1], b[3] = 0, 0xff, 0xff
		b[10], b[11] = 0x7f, 0xff
		copy(b[12:28], bytes.Repeat([]byte{0xff}, 16))
	}), end))
	add("zero-length-values", v4pkt(v4opt(12), v4opt(55), v4opt(53), v4opt(82), v4opt(51), v4opt(3), v4opt(121), v4opt(119), v4opt(254), end))
	add("malformed-typed-values", v4pkt(v4opt(3, 10, 0, 0), v4opt(121, 24, 10), v4opt(82, 1, 5, 'a'), v4opt(77, 5, 'a'), v4opt(124, 0, 0, 0, 9, 7, 1), v4opt(93, 0), v4opt(119, 0xc0), v4opt(53, 1, 2), v4opt(51, 0, 0, 1), v4opt(1, 255, 255), v4opt(57, 1), v4opt(54, 1, 2, 3, 4, 5), end))
	add("names-pointer-and-partial", v4pkt(v4opt(119, cat(name("example", "com"), []byte{3, 's', 'u', 'b', 0xc0, 0x00, 4, 'h', 'o', 's', 't'})...), end))
	add("lists-with-empty-and-zero-elements", v4pkt(v4opt(6, 10, 0, 0, 2, 0, 0, 0, 0, 10, 0, 0, 1), v4opt(55, 15, 0, 3), v4opt(124, 0, 0, 0, 9, 1, 3, 0, 0, 0, 0, 0, 0, 0, 0x11, 0x8b, 1, 1),
		v4opt(93, 0, 7, 0, 0, 0, 11), v4opt(121, 16, 10, 2, 10, 0, 0, 2, 0, 10, 0, 0, 1, 32, 192, 168, 1, 7, 10, 0, 0, 3), v4opt(77, 1, 'a', 1, 'b'), end))
	add("option-82-repeated-sub-options-not-last", v4pkt(v4opt(82, 1, 2, 'a', 'b', 1, 3, 'c', 'd', 'e', 2, 1, 'r', 1, 0), o53, v4opt(82, 9, 1, 'x'), o12, end))
	add("strings-with-nul-and-durations-at-extremes", v4pkt(v4opt(12, 'h', 0, 'x', 0), v4opt(15, 0), v4opt(51, 0xff, 0xff, 0xff, 0xff), v4opt(58, 0, 0, 0, 0), v4opt(59, 0x80, 0, 0, 0), v4opt(108, 0, 0, 0, 1), v4opt(57, 0xff, 0xff), v4opt(116, 2), end))
	add("routes-with-bits-beyond-the-prefix", v4pkt(o53, v4opt(121, 12, 10, 17, 10, 0, 0, 1, 22, 172, 16, 5, 10, 0, 0, 2, 31, 192, 168, 1, 7, 10, 0, 0, 3, 1, 0xff, 10, 0, 0, 4), end))
	add("long-packet-padded-past-300", v4pkt(o53, o55, end, bytes.Repeat([]byte{0}, 80)))
	return out
}

// noncanonical decodes every hand-assembled input and keeps the ones the
// library accepts (and can encode without panicking).
func noncanonical() (out []inst, rejected []string) {
	for _, w := range wire4() {
		w := w
		p, err := dhcpv4.FromBytes(append([]byte(nil), w.b...))
		if err != nil {
			rejected = append(rejected, "v4/"+w.name)
			continue
		}
		if pv, _ := fw.Safe(func() { p.ToBytes() }); pv != nil {
			rejected = append(rejected, "v4/"+w.name+" (encoder panics)")
			continue
		}
		out = append(out, inst{kind: "v4-packet-noncanonical", name: "wire/" + w.name,
			src: hexSrc(w.b) + "\nv, err := dhcpv4.FromBytes(buf)\nif err != nil {\n\tpanic(err)\n}",
			build: func() (any, []held) {
				buf := append([]byte(nil), w.b...)
				d, err := dhcpv4.FromBytes(buf)
				if err != nil {
					panic(err)
				}
				return d, []held{hold("buf", buf)}
			}})
	}
	for _, w := range wire6() {
		w := w
		m, err := dhcpv6.FromBytes(append([]byte(nil), w.b...))
		if err != nil {
			rejected = append(rejected, "v6/"+w.name)
			continue
		}
		if pv, _ := fw.Safe(func() { m.ToBytes() }); pv != nil {
			rejected = append(rejected, "v6/"+w.name+" (encoder panics)")
			continue
		}
		out = append(out, inst{kind: "v6-message-noncanonical", name: "wire/" + w.name,
			src: hexSrc(w.b) + "\nv, err := dhcpv6.FromBytes(buf)\nif err != nil {\n\tpanic(err)\n}",
			build: func() (any, []held) {
				buf := append([]byte(nil), w.b...)
				d, err := dhcpv6.FromBytes(buf)
				if err != nil {
					panic(err)
				}
				return d, []held{hold("buf", buf)}
			}})
	}
	return out, rejected
}

// reencodes reports how many of the accepted hand-assembled inputs the library re-encodes to
// different bytes (the point of having them).
func reencodes(ins []inst) (differ, total int) {
	for _, in := range ins {
		v, hs := in.build()
		type tb interface{ ToBytes() []byte }
		x, ok := v.(tb)
		if !ok || len(hs) == 0 {
			continue
		}
		total++
		if fmt.Sprintf("[]uint8{hex:%x}", x.ToBytes()) != hs[0].get() {
			differ++
		}
	}
	return
}
