// Package c09: decoding cost is bounded — linear size, at most quadratic work.
//
// For every measured input b (n = len(b)) three quantities are taken in a
// single-goroutine worker subprocess with the collector off:
//
//	deepSize(b)     reflective deep size of the decoded value
//	allocDec(b)     bytes allocated by decoding b
//	allocDecEnc(b)  bytes allocated by decoding b and re-encoding the result
//
// and compared with bounds whose constants are fixed here, in the source:
//
//	deepSize    <= Ks*n + C
//	allocDec    <= Kd*n + CqDec*depth*n + C     (CqDec = 1: "one copy of the input per level of option nesting")
//	allocDecEnc <= Ka*n + Cq*depth*n + C        (Cq = 4)
//
// depth = option nesting depth by the independent reference decoder v6ref
// (DHCPv4 and bare label buffers: 1). Inputs are (a) complete small-scope
// enumerations of label strings and DHCPv4 / DHCPv6 option areas and (b)
// adversarial families on full parameter grids, instantiated at ascending
// sizes up to the maximum UDP payload; a family instance stops at its first
// violation; (c) the periodic extension of the small scope (periodic.go): every
// string of length 1..4 (labels) / 1..3 (names inside options, option areas)
// over the small-scope alphabets, repeated to fill the input, with five tails. Every measurement runs in a subprocess under an address-space
// limit and a hard timeout; a worker that is killed by either is a violation
// of the family it was measuring (clause "budget-exceeded").
package c09

import (
	"bufio"
	"bytes"
	"encoding/json"
	"fmt"
	"io"
	"os"
	"os/exec"
	"sort"
	"strings"
	"sync"
	"time"

	"verif/seq/fw"
)

// The constants of the oracle. They were fixed from measurements of the worst
// legitimate families on the unchanged tree (printed again by every run in the
// evidence under "ratios" and "constants"). At n = 65 507 those are, per input
// octet: deep size 52 (thousands of empty 4RD options), decode 88 and decode +
// re-encode 174 (DHCPv4 option 119 made of root names) — so Ks = 512, Kd = Ka =
// 1024 leave 9.8x / 11x / 5.9x on the linear terms — and, per depth·n, decode 0.54 (IA
// options nested 4093..8187 deep) up to 0.98 (the same with a long innermost
// tail: every level copies nearly the whole input, which is exactly the
// statement's "one copy per level") and decode + re-encode 1.62 up to 2.86
// against Cq = 4. The name-decoding blow-up this check exists for is 34 000·n at
// 1 kB and 2.2·10^6·n at 8 kB; the verdicts do not depend on the exact values.
//
// Ks is 512, not 1024: the deep size is computed by this package from logical
// sizes (capacity x element size), so it carries no allocator noise, and its
// worst legitimate values are 52·n on the hand-written families and 136·n for a
// fan of 2-octet pointers to a 253-character name (hand-written and periodic
// alike) — the latter is a hard ceiling of the wire format (2 octets cannot
// expand to more than one 255-octet name), so 512 leaves 3.7x on it and 9.8x on
// everything else, and a retention defect of n^2/42 (a sub-slice of every
// level's transient copy kept alive) shows at 32 k instead of beyond the
// maximum datagram.
const (
	Ks    = 512      // deepSize     <= Ks*n + C
	Kd    = 1024     // allocDec     <= Kd*n + CqDec*depth*n + C
	Ka    = 1024     // allocDecEnc  <= Ka*n + Cq*depth*n + C
	CqDec = 1        // the statement: one copy of the input per level of nesting
	Cq    = 4        // decode + re-encode
	Cadd  = 64 << 10 // additive constant for fixed overheads
	MaxN  = 65507    // maximum UDP payload

	nontrivialMin = 64 // "non-trivial" = accepted and n >= 64
	// RLIMIT_AS of a worker. Sizes up to 8 k (largest bound there: 75 MB) run in
	// long-lived workers under the small limit; every larger measurement runs in a
	// fresh worker under the large limit, which is above the largest bound of any
	// input (4.4 GB at n = 65507, depth 16376), at most bigConcurrent at a time.
	defaultMemMB    = 2048 // the Go runtime itself maps about 1 GiB of address space
	defaultBigMemMB = 6144
	bigSize         = 16384
	bigConcurrent   = 4
	defaultTimeoutS = 240 // a batch takes seconds at most; the margin is for a heavily loaded machine (wall clock)
	defaultProcs    = 16
	smallBatch      = 1 << 13
	perBatch        = 96 // (period, all tails, all sizes) instances per worker request
)

func bounds(n, depth int) (s, d, a uint64) {
	un, ud := uint64(n), uint64(depth)
	return Ks*un + Cadd, Kd*un + CqDec*ud*un + Cadd, Ka*un + Cq*ud*un + Cadd
}

// fractions returns measured/bound for the three clauses.
func fractions(m *meas) [3]float64 {
	s, d, a := bounds(m.N, m.Depth)
	return [3]float64{float64(m.Deep) / float64(s), float64(m.AllocDec) / float64(d), float64(m.AllocDecEnc) / float64(a)}
}

// violatedClauses lists the violated inequalities. allocDecEnc contains
// allocDec, so it is listed only when the decode clause itself holds (the
// re-encoding, not the decoding, broke the bound).
func violatedClauses(m *meas) []string {
	s, d, a := bounds(m.N, m.Depth)
	var out []string
	if m.Deep > s {
		out = append(out, "deepSize")
	}
	if m.AllocDec > d {
		out = append(out, "allocDec")
	} else if m.AllocDecEnc > a {
		out = append(out, "allocDecEnc")
	}
	return out
}

func clauseText(cl string, m *meas) (obs, exp string) {
	s, d, a := bounds(m.N, m.Depth)
	n := float64(m.N)
	if n == 0 {
		n = 1
	}
	switch cl {
	case "deepSize":
		return fmt.Sprintf("deepSize = %d bytes = %.0f·n (n=%d, depth=%d)", m.Deep, float64(m.Deep)/n, m.N, m.Depth),
			fmt.Sprintf("deepSize <= %d·n + %d = %d", Ks, Cadd, s)
	case "allocDec":
		return fmt.Sprintf("allocDec = %d bytes = %.0f·n (n=%d, depth=%d; allocDecEnc=%d, deepSize=%d, decode %.1f ms)", m.AllocDec, float64(m.AllocDec)/n, m.N, m.Depth, m.AllocDecEnc, m.Deep, float64(m.DecNs)/1e6),
			fmt.Sprintf("allocDec <= %d·n + %d·depth·n + %d = %d", Kd, CqDec, Cadd, d)
	}
	return fmt.Sprintf("allocDecEnc = %d bytes = %.0f·n (n=%d, depth=%d; allocDec=%d, deepSize=%d, re-encode %.1f ms)", m.AllocDecEnc, float64(m.AllocDecEnc)/n, m.N, m.Depth, m.AllocDec, m.Deep, float64(m.EncNs)/1e6),
		fmt.Sprintf("allocDecEnc <= %d·n + %d·depth·n + %d = %d", Ka, Cq, Cadd, a)
}

// ---------------------------------------------------------------- worker processes

type proc struct {
	cmd    *exec.Cmd
	in     io.WriteCloser
	out    *bufio.Reader
	stderr *tailBuf
	memMB  int
}

type tailBuf struct {
	mu sync.Mutex
	b  []byte
}

func (t *tailBuf) Write(p []byte) (int, error) {
	t.mu.Lock()
	t.b = append(t.b, p...)
	if len(t.b) > 4096 {
		// keep the head (the runtime prints the reason first)
		t.b = t.b[:4096]
	}
	t.mu.Unlock()
	return len(p), nil
}

func (t *tailBuf) String() string { t.mu.Lock(); defer t.mu.Unlock(); return string(t.b) }

func startProc(memMB int) (*proc, error) {
	exe, err := os.Executable()
	if err != nil {
		return nil, err
	}
	cmd := exec.Command(exe)
	env := []string{}
	for _, e := range os.Environ() {
		if strings.HasPrefix(e, "GOGC=") || strings.HasPrefix(e, "GOMAXPROCS=") || strings.HasPrefix(e, envWorker+"=") || strings.HasPrefix(e, "GOMEMLIMIT=") || strings.HasPrefix(e, envMemMB+"=") {
			continue
		}
		env = append(env, e)
	}
	cmd.Env = append(env, envWorker+"=1", "GOGC=off", "GOMAXPROCS=1", fmt.Sprintf("%s=%d", envMemMB, memMB))
	p := &proc{cmd: cmd, stderr: &tailBuf{}, memMB: memMB}
	cmd.Stderr = p.stderr
	if p.in, err = cmd.StdinPipe(); err != nil {
		return nil, err
	}
	so, err := cmd.StdoutPipe()
	if err != nil {
		return nil, err
	}
	p.out = bufio.NewReaderSize(so, 1<<20)
	if err := cmd.Start(); err != nil {
		return nil, err
	}
	return p, nil
}

func (p *proc) kill() {
	if p == nil {
		return
	}
	p.in.Close()
	p.cmd.Process.Kill()
	p.cmd.Wait()
}

// call sends one request. died != "" means the worker did not answer: it was
// killed by the timeout, by the address-space limit, or crashed; the process is
// gone afterwards.
func (p *proc) call(rq request, timeout time.Duration) (r *response, died string) {
	b, _ := json.Marshal(rq)
	if _, err := p.in.Write(append(b, '\n')); err != nil {
		p.kill()
		return nil, "cannot write to worker: " + err.Error() + " " + firstLines(p.stderr.String(), 2)
	}
	type res struct {
		line []byte
		err  error
	}
	ch := make(chan res, 1)
	go func() {
		l, err := p.out.ReadBytes('\n')
		ch <- res{l, err}
	}()
	select {
	case x := <-ch:
		if x.err != nil {
			p.in.Close()
			werr := p.cmd.Wait()
			se := p.stderr.String()
			why := "worker died"
			if strings.Contains(se, "out of memory") || strings.Contains(se, "cannot allocate memory") {
				why = fmt.Sprintf("worker ran out of memory under its %d MiB address-space limit", p.memMB)
			}
			return nil, fmt.Sprintf("%s (%v): %s", why, werr, firstLines(se, 2))
		}
		r = &response{}
		if err := json.Unmarshal(x.line, r); err != nil {
			p.kill()
			return &response{Fatal: "bad worker answer: " + err.Error()}, ""
		}
		return r, ""
	case <-time.After(timeout):
		p.kill()
		return nil, fmt.Sprintf("worker killed after the hard timeout of %v", timeout)
	}
}

func firstLines(s string, n int) string {
	l := strings.Split(strings.TrimSpace(s), "\n")
	if len(l) > n {
		l = l[:n]
	}
	return strings.Join(l, " | ")
}

// ---------------------------------------------------------------- aggregation

type ratioAgg struct {
	Measurements int     `json:"measurements"`
	Accepted     int     `json:"accepted"`
	MaxDepth     int     `json:"max_depth"`
	DeepPerN     float64 `json:"deepSize_per_n"`
	DecPerN      float64 `json:"allocDec_per_n"`
	DecEncPerN   float64 `json:"allocDecEnc_per_n"`
	// linear parts: what is left for K after removing the allowed depth·n term
	DecLinPerN    float64 `json:"allocDec_minus_depth_n_per_n"`
	DecEncLinPerN float64 `json:"allocDecEnc_minus_4_depth_n_per_n"`
	// quadratic coefficients, taken at the largest size of the tier only (and depth
	// >= 16): at small n the per-level constants of a few hundred bytes are not
	// small against n and would be mistaken for a quadratic term
	DecPerDepthN    float64 `json:"allocDec_per_depth_n"`
	DecEncPerDepthN float64 `json:"allocDecEnc_per_depth_n"`
	FracS           float64 `json:"max_deepSize_over_bound"`
	FracD           float64 `json:"max_allocDec_over_bound"`
	FracA           float64 `json:"max_allocDecEnc_over_bound"`
	WorstAt         string  `json:"worst_at,omitempty"`
	Stopped         int     `json:"instances_stopped_at_first_violation"`
	Legit           bool    `json:"basis_for_constants"`
	MaxDecMs        float64 `json:"max_decode_ms"`
}

func (a *ratioAgg) add(m *meas, where string, maxSize int) {
	a.Measurements++
	if m.Accepted {
		a.Accepted++
	}
	if m.Depth > a.MaxDepth {
		a.MaxDepth = m.Depth
	}
	n := float64(m.N)
	if n == 0 {
		return
	}
	up := func(dst *float64, v float64) bool {
		if v > *dst {
			*dst = v
			return true
		}
		return false
	}
	up(&a.DeepPerN, float64(m.Deep)/n)
	up(&a.DecPerN, float64(m.AllocDec)/n)
	up(&a.DecEncPerN, float64(m.AllocDecEnc)/n)
	dn := float64(m.Depth) * n
	up(&a.DecLinPerN, (float64(m.AllocDec)-CqDec*dn)/n)
	up(&a.DecEncLinPerN, (float64(m.AllocDecEnc)-Cq*dn)/n)
	if m.Depth >= 16 && m.N*100 >= maxSize*95 {
		up(&a.DecPerDepthN, float64(m.AllocDec)/dn)
		up(&a.DecEncPerDepthN, float64(m.AllocDecEnc)/dn)
	}
	fr := fractions(m)
	up(&a.FracS, fr[0])
	w := up(&a.FracD, fr[1])
	if up(&a.FracA, fr[2]) || w {
		a.WorstAt = where
	}
	up(&a.MaxDecMs, float64(m.DecNs)/1e6)
}

func round(a *ratioAgg) {
	r := func(p *float64) { *p = float64(int64(*p*1000+0.5)) / 1000 }
	for _, p := range []*float64{&a.DeepPerN, &a.DecPerN, &a.DecEncPerN, &a.DecLinPerN, &a.DecEncLinPerN, &a.DecPerDepthN, &a.DecEncPerDepthN, &a.FracS, &a.FracD, &a.FracA, &a.MaxDecMs} {
		r(p)
	}
}

// ---------------------------------------------------------------- the check

type runState struct {
	c        *fw.Ctx
	mu       sync.Mutex
	timeout  time.Duration
	fams     []family
	scopes   []smallScope
	pers     []perScope
	perAgg   map[string]*perAgg
	ratios   map[string]*ratioAgg
	small    map[string]*smallAgg
	mism     int64
	fatal    string
	budgetEx int
	samples  int
	memMB    int
	bigMemMB int
	bigSem   chan struct{}
}

type perAgg struct {
	Measurements int64      `json:"measurements"`
	Accepted     int64      `json:"accepted"`
	Stopped      int64      `json:"instances_stopped_at_first_violation"`
	MaxFrac      [3]float64 `json:"max_over_bound_deepSize_allocDec_allocDecEnc"`
	PerN         [3]float64 `json:"max_per_n_deepSize_allocDec_allocDecEnc"`
	WorstAt      string     `json:"worst_at,omitempty"`
	worstFr      float64
}

type smallAgg struct {
	Cases      int64      `json:"cases"`
	Accepted   int64      `json:"accepted"`
	Nontrivial int64      `json:"nontrivial"`
	MaxDeep    uint64     `json:"max_deepSize_bytes"`
	MaxDec     uint64     `json:"max_allocDec_bytes"`
	MaxDecEnc  uint64     `json:"max_allocDecEnc_bytes"`
	MaxFrac    [3]float64 `json:"max_over_bound"`
}

const famOrderBase = int64(1) << 40

func Run(c *fw.Ctx) {
	c.SetRule("evaluations = inputs measured in a worker (each decoded once, re-encoded when accepted, deep-sized); every input is distinct by construction (injective small-scope enumeration; one input per family x parameter point x size); non-trivial = accepted by the library and n >= 64 octets")
	c.Assume(
		"allocation is read from runtime.MemStats.TotalAlloc (stop-the-world, allocation caches flushed: exact) before/after each call, in a single-goroutine subprocess with GOGC=off and GOMAXPROCS=1; calibration windows are in the evidence",
		"depth(b) = v6ref.Depth of the reference tree; for inputs without a reference tree (REJECT/UNSPECIFIED, e.g. names over 255 octets) a structural scan of the same container table; both agree wherever both exist (depth_crosscheck_mismatches)",
		"DHCPv4 packets and bare label buffers have depth 1; DHCPv4 decoding does not parse names, so option 119 is measured as FromBytes + DomainSearch() and re-encoding as ToBytes + Labels.ToBytes",
		"deep size counts every reachable backing array once by address interval (whole capacity), map storage is estimated from the entry count",
		fmt.Sprintf("constants fixed in the source: Ks=%d Kd=%d Ka=%d, quadratic coefficients %d (decode) and %d (decode+re-encode), additive %d bytes", Ks, Kd, Ka, CqDec, Cq, Cadd),
		"a worker killed by the address-space limit or the hard timeout counts as a violation of the instance it was measuring (the limit is above the largest value of any bound)",
		"pretty-printing is not measured (outside the statement)",
	)
	st := &runState{c: c, fams: families(), scopes: smallScopes(), pers: perScopes(), perAgg: map[string]*perAgg{}, ratios: map[string]*ratioAgg{}, small: map[string]*smallAgg{},
		timeout: time.Duration(envInt(envTimeS, defaultTimeoutS)) * time.Second,
		memMB:   envInt(envMemMB, defaultMemMB), bigMemMB: envInt(envBigMemMB, defaultBigMemMB), bigSem: make(chan struct{}, bigConcurrent)}
	nproc := envInt(envProcs, defaultProcs)
	if w := fw.Workers(); w < nproc {
		nproc = w
	}

	// calibration of the measurement harness in a worker
	if p, err := startProc(st.memMB); err != nil {
		st.fatal = "cannot start worker: " + err.Error()
	} else {
		r, died := p.call(request{Kind: "calib"}, st.timeout)
		if died != "" || r.Fatal != "" {
			st.fatal = "calibration failed: " + died
			if r != nil {
				st.fatal += r.Fatal
			}
		} else {
			c.Extra("calibration_bytes", map[string]any{"empty_window": r.Calib[0], "window_with_make_1000": r.Calib[1], "noop_decode_window": r.Calib[2], "expected": "0, 1024, 0"})
			if r.Calib[0] != 0 || r.Calib[2] != 0 || r.Calib[1] < 1000 || r.Calib[1] > 1100 {
				st.fatal = fmt.Sprintf("measurement harness is not exact: calibration %v, expected [0 1024 0]", r.Calib)
			}
		}
		p.kill()
	}
	if st.fatal != "" {
		fmt.Fprintln(os.Stderr, "C09: infrastructure error:", st.fatal)
		os.Exit(2)
	}

	// work list: family instances first (long), then small-scope batches
	type work func(pp **proc)
	var items []work
	sizes := sizesFor(c.Thorough())
	for fi := range st.fams {
		for pi := range st.fams[fi].Params {
			fi, pi := fi, pi
			items = append(items, func(pp **proc) { st.runInstance(pp, fi, pi, sizes) })
		}
	}
	// biggest families first would need a cost model; interleave instead: reverse
	// so that the structure families (largest inputs) start early
	for i, j := 0, len(items)-1; i < j; i, j = i+1, j-1 {
		items[i], items[j] = items[j], items[i]
	}
	// periodic extension of the small scope
	psizes := perSizes(c.Thorough())
	for si := range st.pers {
		ps := &st.pers[si]
		st.perAgg[ps.Name] = &perAgg{}
		var off int64
		for l := 1; l <= ps.MaxPeriod; l++ {
			tot := ipow(len(ps.Alpha), l)
			for lo := int64(0); lo < tot; lo += perBatch {
				hi := lo + perBatch
				if hi > tot {
					hi = tot
				}
				si, l, lo, hi, off := si, l, lo, hi, off
				items = append(items, func(pp **proc) { st.runPer(pp, si, l, lo, hi, off, psizes) })
			}
			off += tot
		}
	}
	var smallOrder int64
	for si := range st.scopes {
		s := &st.scopes[si]
		st.small[s.Name] = &smallAgg{}
		for l := 0; l <= s.max(c.Thorough()); l++ {
			tot := ipow(len(s.Alpha), l)
			for lo := int64(0); lo < tot; lo += smallBatch {
				hi := lo + smallBatch
				if hi > tot {
					hi = tot
				}
				si, l, lo, hi, base := si, l, lo, hi, smallOrder
				items = append(items, func(pp **proc) { st.runSmall(pp, si, l, lo, hi, base) })
			}
			smallOrder += tot
		}
	}

	ch := make(chan work)
	var wg sync.WaitGroup
	for k := 0; k < nproc; k++ {
		wg.Add(1)
		go func() {
			defer wg.Done()
			var p *proc
			for w := range ch {
				w(&p)
			}
			p.kill()
		}()
	}
	for _, w := range items {
		if c.Over() || st.failed() {
			break
		}
		ch <- w
	}
	close(ch)
	wg.Wait()
	if st.fatal != "" {
		fmt.Fprintln(os.Stderr, "C09: infrastructure error:", st.fatal)
		os.Exit(2)
	}
	st.finish(sizes, nproc)
}

func (st *runState) failed() bool { st.mu.Lock(); defer st.mu.Unlock(); return st.fatal != "" }

func (st *runState) setFatal(s string) {
	st.mu.Lock()
	if st.fatal == "" {
		st.fatal = s
	}
	st.mu.Unlock()
}

// ensure returns a live worker.
func (st *runState) ensure(pp **proc) *proc {
	if *pp == nil {
		p, err := startProc(st.memMB)
		if err != nil {
			st.setFatal("cannot start worker: " + err.Error())
			return nil
		}
		*pp = p
	}
	return *pp
}

func (st *runState) agg(name string, legit bool) *ratioAgg {
	a := st.ratios[name]
	if a == nil {
		a = &ratioAgg{Legit: legit}
		st.ratios[name] = a
	}
	return a
}

// runInstance measures one (family, parameter point) at ascending sizes and
// stops at the first violation.
func (st *runState) runInstance(pp **proc, fi, pi int, sizes []int) {
	f := &st.fams[fi]
	par := f.Params[pi]
	var prev *meas
	for zi, n := range sizes {
		if st.c.Over() || st.failed() {
			return
		}
		order := famOrderBase + (int64(fi)*256+int64(pi))*16 + int64(zi)
		var r *response
		var died string
		memMB := st.memMB
		if n >= bigSize {
			// a fresh worker under the large limit, few at a time
			memMB = st.bigMemMB
			st.bigSem <- struct{}{}
			bp, err := startProc(memMB)
			if err != nil {
				<-st.bigSem
				st.setFatal("cannot start worker: " + err.Error())
				return
			}
			r, died = bp.call(request{Kind: "fam", Fam: fi, Param: pi, Size: n}, st.timeout)
			if died == "" {
				bp.kill()
			}
			<-st.bigSem
		} else {
			p := st.ensure(pp)
			if p == nil {
				return
			}
			r, died = p.call(request{Kind: "fam", Fam: fi, Param: pi, Size: n}, st.timeout)
			if died != "" {
				*pp = nil
			}
		}
		st.c.Eval(1)
		where := fmt.Sprintf("%s; n=%d", par.S, n)
		if died != "" {
			in := f.Gen(par, n)
			obs := died
			if prev != nil {
				obs += fmt.Sprintf("; previous size n=%d: allocDec=%d allocDecEnc=%d deepSize=%d", prev.N, prev.AllocDec, prev.AllocDecEnc, prev.Deep)
			}
			_, _, a := bounds(len(in), MaxN/4)
			st.c.Report(fw.Violation{Fingerprint: f.entryName() + "|budget-exceeded|" + f.Class, Order: order, Scope: "family " + f.Name + " (" + where + ")",
				Input: fw.Hex(in), Observed: obs,
				Expected: fmt.Sprintf("decode + re-encode finish inside the worker budget (%d MiB address space, %v); every bound is below %d bytes for this n", memMB, st.timeout, a),
				Explain:  "the measurement did not complete inside the resource budget that exceeds every bound of the oracle",
				GoTest:   goTest(f.Entry, in, 1, "allocDec")})
			st.mu.Lock()
			st.budgetEx++
			st.agg(f.Name, f.Derive).Stopped++
			st.mu.Unlock()
			return
		}
		if r.Fatal != "" {
			st.setFatal(r.Fatal)
			return
		}
		m := r.M
		prev = m
		if m.Accepted && m.N >= nontrivialMin {
			st.c.Nontrivial(1)
		}
		st.mu.Lock()
		st.agg(f.Name, f.Derive).add(m, where, sizes[len(sizes)-1])
		if m.DepthMism {
			st.mism++
		}
		if st.samples < 12 && zi == len(sizes)-1 && pi == 0 {
			st.samples++
			st.c.Sample(map[string]any{"family": f.Name, "param": par.S, "n": m.N, "depth": m.Depth, "accepted": m.Accepted, "deepSize": m.Deep, "allocDec": m.AllocDec, "allocDecEnc": m.AllocDecEnc})
		}
		st.mu.Unlock()
		stop := false
		if m.Panic != "" {
			in := f.Gen(par, n)
			st.c.Report(fw.Violation{Fingerprint: f.entryName() + "|panic|" + m.Stack, Order: order, Scope: "family " + f.Name + " (" + where + ")", Input: fw.Hex(in),
				Observed: "panic: " + m.Panic + " at " + m.Stack, Expected: "value or error", GoTest: goTest(f.Entry, in, m.Depth, "")})
			stop = true
		}
		for _, cl := range violatedClauses(m) {
			in := f.Gen(par, n)
			obs, exp := clauseText(cl, m)
			st.c.Report(fw.Violation{Fingerprint: f.entryName() + "|" + cl + "|" + f.Class, Order: order, Scope: "family " + f.Name + " (" + where + ")",
				Input: fw.Hex(in), Observed: obs, Expected: exp,
				Explain: "cost of this input shape exceeds the fixed bound (family instance stopped at its first violating size)",
				GoTest:  goTest(f.Entry, in, m.Depth, cl)})
			stop = true
		}
		if stop {
			st.mu.Lock()
			st.agg(f.Name, f.Derive).Stopped++
			st.mu.Unlock()
			return
		}
	}
}

func (st *runState) runSmall(pp **proc, si, l int, lo, hi, base int64) {
	if st.c.Over() || st.failed() {
		return
	}
	p := st.ensure(pp)
	if p == nil {
		return
	}
	s := &st.scopes[si]
	r, died := p.call(request{Kind: "small", Scope: si, Len: l, Lo: lo, Hi: hi}, st.timeout)
	if died != "" {
		*pp = nil
		st.c.Eval(hi - lo)
		st.c.Report(fw.Violation{Fingerprint: s.Entry.String() + "|budget-exceeded|small-scope:" + s.Name, Order: base + lo, Scope: "small scope " + s.Name,
			Input:    fmt.Sprintf("batch: length %d, indices [%d,%d) over alphabet %s after header %s", l, lo, hi, fw.Hex(s.Alpha), fw.HexShort(s.Header)),
			Observed: died, Expected: "every input of a few octets is measured in microseconds and kilobytes"})
		return
	}
	if r.Fatal != "" {
		st.setFatal(r.Fatal)
		return
	}
	st.c.Eval(r.Count)
	st.c.Nontrivial(r.Nontrivial)
	st.mu.Lock()
	a := st.small[s.Name]
	a.Cases += r.Count
	a.Accepted += r.Accepted
	a.Nontrivial += r.Nontrivial
	if r.MaxDeep > a.MaxDeep {
		a.MaxDeep = r.MaxDeep
	}
	if r.MaxDec > a.MaxDec {
		a.MaxDec = r.MaxDec
	}
	if r.MaxDecEnc > a.MaxDecEnc {
		a.MaxDecEnc = r.MaxDecEnc
	}
	for k := range a.MaxFrac {
		if r.MaxFrac[k] > a.MaxFrac[k] {
			a.MaxFrac[k] = r.MaxFrac[k]
		}
	}
	st.mism += r.DepthMism
	st.mu.Unlock()
	for _, v := range r.Viol {
		in := s.input(l, v.Index)
		obs, exp := clauseText(v.Clause, &v.M)
		st.c.Report(fw.Violation{Fingerprint: s.Entry.String() + "|" + v.Clause + "|small-scope:" + s.Name, Order: base + v.Index, Scope: "small scope " + s.Name,
			Input: fw.Hex(in), Observed: obs, Expected: exp, Explain: "a few-octet input exceeds the bound", GoTest: goTest(s.Entry, in, v.M.Depth, v.Clause)})
	}
}

const perOrderBase = int64(1) << 41

func (st *runState) runPer(pp **proc, si, l int, lo, hi, off int64, sizes []int) {
	if st.c.Over() || st.failed() {
		return
	}
	p := st.ensure(pp)
	if p == nil {
		return
	}
	s := &st.pers[si]
	order := func(i int64, tail, size int) int64 {
		return perOrderBase + int64(si)<<32 + (off+i)*64 + int64(tail)*8 + int64(size%8)
	}
	r, died := p.call(request{Kind: "per", Scope: si, Len: l, Lo: lo, Hi: hi, Sizes: sizes}, st.timeout)
	if died != "" {
		*pp = nil
		st.c.Eval((hi - lo) * int64(len(perTails)))
		st.c.Report(fw.Violation{Fingerprint: s.entryName() + "|budget-exceeded|periodic:" + s.Name, Order: order(lo, 0, 0), Scope: "periodic " + s.Name,
			Input:    fmt.Sprintf("batch: period strings of length %d with indices [%d,%d) over alphabet %s (first: %s), every tail, sizes %v", l, lo, hi, fw.Hex(s.Alpha), fw.Hex(s.perString(l, lo)), sizes),
			Observed: died, Expected: fmt.Sprintf("every instance finishes inside the worker budget (%d MiB address space, %v), which is far above every bound of these flat inputs", st.memMB, st.timeout),
			Explain: "a periodic input of this batch did not complete inside the resource budget"})
		st.mu.Lock()
		st.budgetEx++
		st.mu.Unlock()
		return
	}
	if r.Fatal != "" {
		st.setFatal(r.Fatal)
		return
	}
	st.c.Eval(r.Count)
	st.c.Nontrivial(r.Nontrivial)
	st.mu.Lock()
	a := st.perAgg[s.Name]
	a.Measurements += r.Count
	a.Accepted += r.Accepted
	a.Stopped += r.Stopped
	for k := range a.MaxFrac {
		if r.MaxFrac[k] > a.MaxFrac[k] {
			a.MaxFrac[k] = r.MaxFrac[k]
		}
		if r.PerN[k] > a.PerN[k] {
			a.PerN[k] = r.PerN[k]
		}
	}
	if r.Worst != nil {
		fr := fractions(r.Worst)
		w := fr[0]
		if fr[1] > w {
			w = fr[1]
		}
		if fr[2] > w {
			w = fr[2]
		}
		if w > a.worstFr {
			a.worstFr = w
			a.WorstAt = fmt.Sprintf("period %s tail %q n=%d: deepSize=%d allocDec=%d allocDecEnc=%d depth=%d accepted=%v", fw.Hex(s.perString(l, r.WorstAt[0])), fw.Hex(perTails[r.WorstAt[1]]), r.Worst.N, r.Worst.Deep, r.Worst.AllocDec, r.Worst.AllocDecEnc, r.Worst.Depth, r.Worst.Accepted)
		}
	}
	st.mism += r.DepthMism
	st.mu.Unlock()
	for _, v := range r.Viol {
		ps := s.perString(l, v.Index)
		in := s.perInput(ps, perTails[v.Tail], v.Size)
		where := fmt.Sprintf("periodic %s (period %s, tail %q, n=%d)", s.Name, fw.Hex(ps), fw.Hex(perTails[v.Tail]), v.Size)
		zi := 0
		for k, z := range sizes {
			if z == v.Size {
				zi = k
			}
		}
		if v.Clause == "panic" {
			st.c.Report(fw.Violation{Fingerprint: s.entryName() + "|panic|" + v.M.Stack, Order: order(v.Index, v.Tail, zi), Scope: where, Input: fw.Hex(in),
				Observed: "panic: " + v.M.Panic + " at " + v.M.Stack, Expected: "value or error", GoTest: goTest(s.Entry, in, v.M.Depth, "")})
			continue
		}
		obs, exp := clauseText(v.Clause, &v.M)
		st.c.Report(fw.Violation{Fingerprint: s.entryName() + "|" + v.Clause + "|periodic:" + s.Name, Order: order(v.Index, v.Tail, zi), Scope: where,
			Input: fw.Hex(in), Observed: obs, Expected: exp,
			Explain: fmt.Sprintf("a short pattern repeated to fill the input exceeds the fixed bound (%d violating measurements in this batch of %d period strings; an instance stops at its first violating size)", r.ViolN, hi-lo),
			GoTest:  goTest(s.Entry, in, v.M.Depth, v.Clause)})
	}
}

func (st *runState) finish(sizes []int, nproc int) {
	c := st.c
	for si := range st.pers {
		s := &st.pers[si]
		a := st.perAgg[s.Name]
		var tails []string
		for _, t := range perTails {
			tails = append(tails, fw.Hex(t))
		}
		c.Scope("c:periodic:"+s.Name, "entry", s.entryName(), "what", "every string over the alphabet of length 1..max_period, repeated (last copy cut) to fill the payload room of an n-octet input, followed by each tail; each (period, tail) instance at ascending sizes, stopped at its first violation",
			"alphabet", fw.Hex(s.Alpha), "alphabet_meaning", s.What, "max_period", s.MaxPeriod, "period_strings", perPeriods(len(s.Alpha), s.MaxPeriod),
			"tails", tails, "instances", perPeriods(len(s.Alpha), s.MaxPeriod)*int64(len(perTails)), "sizes", perSizes(c.Thorough()),
			"measurements", a.Measurements, "accepted", a.Accepted, "instances_stopped_at_first_violation", a.Stopped,
			"max_over_bound_deepSize_allocDec_allocDecEnc", a.MaxFrac, "max_per_n_deepSize_allocDec_allocDecEnc", a.PerN, "worst_at", a.WorstAt)
	}
	c.Extra("periodic_maxima", st.perAgg)
	// scopes
	for si := range st.scopes {
		s := &st.scopes[si]
		a := st.small[s.Name]
		c.Scope("a:small-scope:"+s.Name, "entry", s.Entry.String(), "header", fw.HexShort(s.Header), "alphabet", fw.Hex(s.Alpha), "alphabet_meaning", s.WhatAlpha,
			"max_len", s.max(c.Thorough()), "cases", a.Cases, "accepted", a.Accepted,
			"max_deepSize_bytes", a.MaxDeep, "max_allocDec_bytes", a.MaxDec, "max_allocDecEnc_bytes", a.MaxDecEnc,
			"max_over_bound_deepSize_allocDec_allocDecEnc", a.MaxFrac)
	}
	names := make([]string, 0, len(st.ratios))
	for n := range st.ratios {
		names = append(names, n)
	}
	sort.Strings(names)
	worst := map[string]any{}
	var wS, wD, wA, wQd, wQa float64
	var wSn, wDn, wAn, wQdn, wQan string
	for _, f := range st.fams {
		a := st.ratios[f.Name]
		if a == nil {
			continue
		}
		round(a)
		var ps []string
		for _, p := range f.Params {
			ps = append(ps, p.S)
		}
		c.Scope("b:family:"+f.Name, "entry", f.entryName(), "grid", f.Grid, "parameter_points", len(f.Params), "points", ps, "sizes", sizes,
			"measurements", a.Measurements, "accepted", a.Accepted, "max_depth", a.MaxDepth, "instances_stopped_at_first_violation", a.Stopped)
		if a.Legit {
			if a.DeepPerN > wS {
				wS, wSn = a.DeepPerN, f.Name
			}
			if a.DecLinPerN > wD {
				wD, wDn = a.DecLinPerN, f.Name
			}
			if a.DecEncLinPerN > wA {
				wA, wAn = a.DecEncLinPerN, f.Name
			}
			if a.DecPerDepthN > wQd {
				wQd, wQdn = a.DecPerDepthN, f.Name
			}
			if a.DecEncPerDepthN > wQa {
				wQa, wQan = a.DecEncPerDepthN, f.Name
			}
		}
	}
	hr := func(k, w float64) any {
		if w <= 0 {
			return "n/a"
		}
		return float64(int64(k/w*10)) / 10
	}
	worst["deepSize_per_n"] = map[string]any{"value": wS, "family": wSn, "K": Ks, "headroom": hr(Ks, wS)}
	worst["allocDec_linear_per_n"] = map[string]any{"value": wD, "family": wDn, "K": Kd, "headroom": hr(Kd, wD)}
	worst["allocDecEnc_linear_per_n"] = map[string]any{"value": wA, "family": wAn, "K": Ka, "headroom": hr(Ka, wA)}
	worst["allocDec_per_depth_n"] = map[string]any{"value": wQd, "family": wQdn, "C": CqDec,
		"headroom": "none by construction: the coefficient 1 is the statement's; allocator size-class rounding (up to 12.5 %, 25 % above 32 KiB) and per-level constants are absorbed by Kd*n, see max_allocDec_over_bound"}
	worst["allocDecEnc_per_depth_n"] = map[string]any{"value": wQa, "family": wQan, "C": Cq, "headroom": hr(Cq, wQa)}
	rat := map[string]any{}
	for _, n := range names {
		rat[n] = st.ratios[n]
	}
	c.Extra("ratios", rat)
	c.Extra("small_scope_maxima", st.small)
	c.Extra("constants", map[string]any{"Ks": Ks, "Kd": Kd, "Ka": Ka, "Cq_decode": CqDec, "Cq_decode_encode": Cq, "additive_bytes": Cadd,
		"worst_legitimate_families_this_run": worst,
		"note_quadratic":                     "the decode coefficient 1 is the statement's own ('one copy of the input per level'); nesting with a long innermost tail approaches it from below (every level copies nearly the whole input), so the slack for rounding and per-level constants lives in Kd*n; coefficients are taken at the largest size of the tier",
		"note":                               "worst_legitimate = maxima over the families marked basis_for_constants (valid layouts, no name over 255 octets, no compression pointers to non-trivial names); linear = measured minus the allowed depth·n term, per input octet"})
	c.Extra("worker", map[string]any{"processes": nproc, "address_space_limit_MiB": st.memMB, "address_space_limit_MiB_for_n_ge_16384": st.bigMemMB, "concurrent_large_measurements": bigConcurrent, "hard_timeout_s": int(st.timeout.Seconds()), "GOGC": "off", "GOMAXPROCS": 1, "budget_exceeded": st.budgetEx})
	c.Extra("depth_crosscheck_mismatches", st.mism)
	if st.mism != 0 {
		c.Report(fw.Violation{Fingerprint: "harness|depth|structural-scan-disagrees-with-v6ref", Order: 0, Scope: "harness", Observed: fmt.Sprintf("%d inputs", st.mism),
			Expected: "structural depth scan equals v6ref.Depth wherever the reference builds a tree", Explain: "harness self-check failed; depth of tree-less inputs is not trustworthy"})
	}
}

// ---------------------------------------------------------------- replay tests

// rle renders b as arguments of the rep() helper of the emitted test: pairs of
// (hex unit, repeat count), greedy on the longest periodic run.
func rle(b []byte) string {
	var parts []string
	var lit []byte
	flush := func() {
		if len(lit) > 0 {
			parts = append(parts, fmt.Sprintf("%q, 1", fw.Hex(lit)))
			lit = nil
		}
	}
	for i := 0; i < len(b); {
		bestU, bestC := 0, 0
		for u := 1; u <= 300 && i+2*u <= len(b); u++ {
			c := 1
			for i+(c+1)*u <= len(b) && bytes.Equal(b[i:i+u], b[i+c*u:i+(c+1)*u]) {
				c++
			}
			if c >= 2 && c*u > bestC*bestU && c*u >= 16 {
				bestU, bestC = u, c
			}
			if bestC*bestU >= len(b)-i-u {
				break
			}
		}
		if bestC >= 2 {
			flush()
			parts = append(parts, fmt.Sprintf("%q, %d", fw.Hex(b[i:i+bestU]), bestC))
			i += bestU * bestC
			continue
		}
		lit = append(lit, b[i])
		i++
	}
	flush()
	return strings.Join(parts, ",\n\t\t")
}

func goTest(e entryKind, in []byte, depth int, clause string) string {
	var dec, enc string
	switch e {
	case eLabel:
		dec = "v, err := rfc1035label.FromBytes(in)"
		enc = "_ = v.ToBytes()"
	case eV6:
		dec = "v, err := dhcpv6.FromBytes(in)"
		enc = "_ = v.ToBytes()"
	case eV4:
		dec = "v, err := dhcpv4.FromBytes(in)"
		enc = "_ = v.ToBytes()"
	case eV4DS:
		dec = "v, err := dhcpv4.FromBytes(in)\n\tvar l *rfc1035label.Labels\n\tif err == nil {\n\t\tl = v.DomainSearch()\n\t}"
		enc = "_ = v.ToBytes()\n\t\tif l != nil {\n\t\t\t_ = l.ToBytes()\n\t\t}"
	case eV6V4DS:
		dec = "v, err := dhcpv6.FromBytes(in)\n\tvar l *rfc1035label.Labels\n\tif err == nil {\n\t\tif o, ok := v.GetOneOption(dhcpv6.OptionDHCPv4Msg).(*dhcpv6.OptDHCPv4Msg); ok {\n\t\t\tl = o.Msg.DomainSearch()\n\t\t}\n\t}"
		enc = "_ = v.ToBytes()\n\t\tif l != nil {\n\t\t\t_ = l.ToBytes()\n\t\t}"
	}
	_, bd, ba := bounds(len(in), depth)
	return fmt.Sprintf(`// imports: encoding/hex, runtime, runtime/debug, testing, and the dhcp packages used below
func rep(parts ...any) []byte {
	var b []byte
	for i := 0; i+1 < len(parts); i += 2 {
		u, _ := hex.DecodeString(parts[i].(string))
		for k := 0; k < parts[i+1].(int); k++ {
			b = append(b, u...)
		}
	}
	return b
}

func TestC09Replay(t *testing.T) {
	in := rep(
		%s)
	defer debug.SetGCPercent(debug.SetGCPercent(-1))
	var m0, m1, m2 runtime.MemStats
	runtime.ReadMemStats(&m0)
	%s
	runtime.ReadMemStats(&m1)
	if err == nil {
		%s
	}
	runtime.ReadMemStats(&m2)
	n, depth := len(in), %d
	t.Logf("n=%%d depth=%%d err=%%v allocDec=%%d (bound %d) allocDecEnc=%%d (bound %d)", n, depth, err, m1.TotalAlloc-m0.TotalAlloc, m2.TotalAlloc-m0.TotalAlloc)
	if m1.TotalAlloc-m0.TotalAlloc > %d || m2.TotalAlloc-m0.TotalAlloc > %d {
		t.Fatalf("C09 %s: cost bound exceeded")
	}
}`, rle(in), dec, enc, depth, bd, ba, bd, ba, clause)
}
