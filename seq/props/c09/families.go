package c09

import (
	"fmt"

	"verif/seq/props/c04"
	"verif/seq/ref/v6ref"
)

// entryKind selects the library entry point(s) that are measured.
type entryKind int

const (
	eLabel  entryKind = iota // rfc1035label.FromBytes ; Labels.ToBytes
	eV6                      // dhcpv6.FromBytes ; DHCPv6.ToBytes
	eV4                      // dhcpv4.FromBytes ; DHCPv4.ToBytes
	eV4DS                    // dhcpv4.FromBytes + DomainSearch() ; ToBytes + Labels.ToBytes
	eV6V4DS                  // dhcpv6.FromBytes + option 87 .Msg.DomainSearch() ; ToBytes + Labels.ToBytes
)

func (e entryKind) String() string {
	switch e {
	case eLabel:
		return "rfc1035label.FromBytes"
	case eV6:
		return "dhcpv6.FromBytes"
	case eV4:
		return "dhcpv4.FromBytes"
	case eV4DS:
		return "dhcpv4.FromBytes+DomainSearch"
	}
	return "dhcpv6.FromBytes+opt87.DomainSearch"
}

// param is one point of a family's parameter grid.
type param struct {
	A, B, C int
	S       string // human-readable
}

// family is one adversarial input family: a function of integer parameters
// (full grid in Params) and a target size n; Gen returns an input of at most n
// bytes (as close to n as the shape allows).
type family struct {
	Name   string // unique, e.g. "long-name+pointers@opt24"
	Class  string // input class of the fingerprint, e.g. "long-name+pointers"
	Tag    string // container tag of the fingerprint entry ("" for the bare entry point)
	Entry  entryKind
	Params []param
	Grid   string // description of the grid for the evidence
	Gen    func(p param, n int) []byte
	// Derive: the family is a legitimate shape (valid per the RFC layouts, no
	// name over 255 octets, no compression tricks) whose measured ratios are the
	// basis of the constants K_s, K_d, K_a.
	Derive bool
}

func (f *family) entryName() string {
	if f.Tag == "" {
		return f.Entry.String()
	}
	return f.Entry.String() + "[" + f.Tag + "]"
}

// sizes of the two tiers.
func sizesFor(thorough bool) []int {
	if thorough {
		return []int{256, 512, 1024, 2048, 4096, 8192, 16384, 32768, 65507}
	}
	// quick: fewer intermediate sizes, but the maximum UDP payload is always measured: a cost term of
	// n^2/16 first exceeds the linear bound (K = 1024) beyond n = 16 k
	return []int{256, 1024, 4096, 8192, 65507}
}

// ---------------------------------------------------------------- byte helpers

func be16(b []byte, x int) []byte { return append(b, byte(x>>8), byte(x)) }

func v6opt(code int, payload []byte) []byte {
	b := make([]byte, 0, 4+len(payload))
	b = be16(b, code)
	b = be16(b, len(payload))
	return append(b, payload...)
}

var v6hdr = []byte{1, 0xaa, 0xbb, 0xcc} // SOLICIT, xid aabbcc

func v6msg(opts ...[]byte) []byte {
	b := append([]byte{}, v6hdr...)
	for _, o := range opts {
		b = append(b, o...)
	}
	return b
}

// v4Instances writes val as RFC 3396 instances of code (<= 255 octets each).
func v4Instances(code byte, val []byte) []byte {
	if len(val) == 0 {
		return []byte{code, 0}
	}
	var b []byte
	for len(val) > 0 {
		k := len(val)
		if k > 255 {
			k = 255
		}
		b = append(b, code, byte(k))
		b = append(b, val[:k]...)
		val = val[k:]
	}
	return b
}

// v4Packet = 240-byte header+cookie, options area, End.
func v4Packet(area []byte) []byte {
	b := append([]byte{}, c04.Prefix()...)
	b = append(b, area...)
	return append(b, 0xff)
}

// v4ValueRoom: the longest value that fits, split into instances, into an
// options area of `area` octets.
func v4ValueRoom(area int) int {
	if area < 2 {
		return -1
	}
	full := area / 257
	rem := area - full*257
	m := full * 255
	if rem >= 2 {
		m += rem - 2
	}
	return m
}

// ---------------------------------------------------------------- name shapes

type nameShape struct {
	Class  string
	Params []param
	Grid   string
	Gen    func(p param, m int) []byte // exactly <= m octets of label data
	Derive bool
}

func labelRun(b []byte, l, k int) []byte {
	for i := 0; i < k; i++ {
		b = append(b, byte(l))
		for j := 0; j < l; j++ {
			b = append(b, byte('a'+(i+j)%26))
		}
	}
	return b
}

func pointerFill(b []byte, off, m int) []byte {
	for len(b)+2 <= m {
		b = append(b, 0xc0|byte(off>>8), byte(off))
	}
	if len(b) < m {
		b = append(b, 0) // one odd octet left: a root name
	}
	return b
}

func nameShapes() []nameShape {
	var out []nameShape
	// A: one long name of l-octet labels, then pointers to offset o.
	{
		var ps []param
		for _, l := range []int{1, 2, 63} {
			for _, q := range []int{1, 2, 3} {
				for _, mid := range []int{0, 1} {
					ps = append(ps, param{l, q, mid, fmt.Sprintf("label=%d name=%d/4 of the buffer target=%s", l, q, map[int]string{0: "offset 0", 1: "mid-name"}[mid])})
				}
			}
		}
		out = append(out, nameShape{Class: "long-name+pointers", Params: ps,
			Grid: "label length {1,2,63} x name share {1/4,1/2,3/4} x pointer target {0, mid-name}",
			Gen: func(p param, m int) []byte {
				l, unit := p.A, p.A+1
				k := (m*p.B/4 - 1) / unit
				if k < 1 {
					k = 1
				}
				if k*unit+1 > m {
					return pointerFill(nil, 0, m)
				}
				b := labelRun(make([]byte, 0, m), l, k)
				b = append(b, 0)
				off := 0
				if p.C == 1 {
					off = (k / 2) * unit
					if off > 0x3fff {
						off = (0x3fff / unit) * unit
					}
				}
				return pointerFill(b, off, m)
			}})
	}
	// B: unterminated label chain (a "partial name" that fills the buffer).
	{
		var ps []param
		for _, l := range []int{1, 2, 63} {
			for _, v := range []int{0, 1} {
				ps = append(ps, param{l, v, 0, fmt.Sprintf("label=%d %s", l, map[int]string{0: "chain only", 1: "pointer to the chain first"}[v])})
			}
		}
		out = append(out, nameShape{Class: "unterminated-chain", Params: ps,
			Grid: "label length {1,2,63} x {chain only, one pointer to the chain in front}",
			Gen: func(p param, m int) []byte {
				l, unit := p.A, p.A+1
				b := make([]byte, 0, m)
				if p.B == 1 && m >= 4 {
					b = append(b, 0xc0, 2)
				}
				k := (m - len(b)) / unit
				b = labelRun(b, l, k)
				if r := m - len(b); r >= 2 {
					b = labelRun(b, r-1, 1)
				}
				return b
			}})
	}
	// C: a maximal legal name (<= 255 octets) and a fan of pointers to it.
	{
		var ps []param
		for _, l := range []int{1, 2, 63} {
			for _, mid := range []int{0, 1} {
				ps = append(ps, param{l, mid, 0, fmt.Sprintf("label=%d target=%s", l, map[int]string{0: "offset 0", 1: "mid-name"}[mid])})
			}
		}
		out = append(out, nameShape{Class: "pointer-fan-to-255-octet-name", Params: ps,
			Grid: "label length {1,2,63} x pointer target {0, mid-name}; the name has 254..255 octets",
			Gen: func(p param, m int) []byte {
				l, unit := p.A, p.A+1
				k := 254 / unit
				b := labelRun(make([]byte, 0, m), l, k)
				if r := 254 - k*unit; r >= 2 {
					b = labelRun(b, r-1, 1)
				}
				b = append(b, 0)
				if len(b) > m {
					return pointerFill(nil, 0, m)
				}
				off := 0
				if p.B == 1 {
					off = (k / 2) * unit
				}
				return pointerFill(b, off, m)
			}})
	}
	// D: empty names.
	out = append(out, nameShape{Class: "empty-names", Derive: true,
		Params: []param{{0, 0, 0, "root names (00 octets)"}, {1, 0, 0, "pointers to a root name"}},
		Grid:   "{all 00 octets, 00 followed by pointers to it}",
		Gen: func(p param, m int) []byte {
			if p.A == 0 {
				return make([]byte, m)
			}
			return pointerFill([]byte{0}, 0, m)
		}})
	// E: many short complete names.
	out = append(out, nameShape{Class: "short-names", Derive: true,
		Params: []param{{1, 0, 0, "names of one 1-octet label"}, {63, 0, 0, "names of one 63-octet label"}, {3, 4, 0, "names of four 3-octet labels"}},
		Grid:   "{1 x 1-octet label, 1 x 63-octet label, 4 x 3-octet labels} per name",
		Gen: func(p param, m int) []byte {
			k := p.B
			if k == 0 {
				k = 1
			}
			b := make([]byte, 0, m)
			for len(b)+k*(p.A+1)+1 <= m {
				b = labelRun(b, p.A, k)
				b = append(b, 0)
			}
			for len(b) < m {
				b = append(b, 0)
			}
			return b
		}})
	return out
}

// nameContainers wraps a label buffer into each entry point that parses names.
type nameContainer struct {
	Tag   string
	Entry entryKind
	Room  func(n int) int // label octets available in an input of n octets
	Wrap  func(name []byte) []byte
}

func nameContainers() []nameContainer {
	return []nameContainer{
		{"", eLabel, func(n int) int { return n }, func(nm []byte) []byte { return nm }},
		{"opt24", eV6, func(n int) int { return n - 8 }, func(nm []byte) []byte { return v6msg(v6opt(24, nm)) }},
		{"opt39", eV6, func(n int) int { return n - 9 }, func(nm []byte) []byte { return v6msg(v6opt(39, append([]byte{1}, nm...))) }},
		{"opt56/3", eV6, func(n int) int { return n - 12 }, func(nm []byte) []byte { return v6msg(v6opt(56, v6opt(3, nm))) }},
		{"opt119", eV4DS, func(n int) int { return v4ValueRoom(n - 241) }, func(nm []byte) []byte { return v4Packet(v4Instances(119, nm)) }},
		{"opt87/opt119", eV6V4DS, func(n int) int { return v4ValueRoom(n - 8 - 241) }, func(nm []byte) []byte { return v6msg(v6opt(87, v4Packet(v4Instances(119, nm)))) }},
	}
}

// ---------------------------------------------------------------- structure families

type nestKind struct {
	Name  string
	Codes []int // alternating codes, outermost first
	Fixed []int
}

var nestKinds = []nestKind{
	{"IA_NA", []int{3}, []int{12}},
	{"IA_TA", []int{4}, []int{4}},
	{"IAADDR", []int{5}, []int{24}},
	{"IA_PD", []int{25}, []int{12}},
	{"IAPREFIX", []int{26}, []int{25}},
	{"4RD", []int{97}, []int{0}},
	{"IA_NA/IAADDR", []int{3, 5}, []int{12, 24}},
	{"IA_PD/IAPREFIX", []int{25, 26}, []int{12, 25}},
}

// minimal opaque options (unknown code 0xfff0, empty) filling t octets.
func minimalTail(t int) []byte {
	b := make([]byte, 0, t)
	for len(b)+4 <= t {
		b = append(b, 0xff, 0xf0, 0, 0)
	}
	return b
}

// nestGen nests options of the given kinds as deep as n octets allow; the
// innermost level holds `tail` octets of minimal options.
func nestGen(k nestKind, tailQ, n int) []byte {
	return nestGenX(k, n, minimalTail((n-4)*tailQ/4), nil, false)
}

// nestGenX is the general form: the innermost option list is `tail` (any bytes,
// e.g. minimal options followed by a malformed element), and every level's
// option list holds, beside the container, one sibling option `sib` (before or
// after the container).
func nestGenX(k nestKind, n int, tail, sib []byte, sibBefore bool) []byte {
	room := n - 4 - len(tail)
	d, used := 0, 0
	for {
		c := 4 + k.Fixed[d%len(k.Fixed)] + len(sib)
		if used+c > room {
			break
		}
		used += c
		d++
	}
	b := make([]byte, 0, n)
	b = append(b, v6hdr...)
	remaining := used + len(tail) // octets of the option list at this level
	for i := 0; i < d; i++ {
		fx := k.Fixed[i%len(k.Fixed)]
		if sibBefore {
			b = append(b, sib...)
		}
		b = be16(b, k.Codes[i%len(k.Codes)])
		b = be16(b, remaining-len(sib)-4)
		for j := 0; j < fx; j++ {
			b = append(b, 0)
		}
		remaining -= 4 + fx + len(sib)
	}
	b = append(b, tail...)
	if !sibBefore {
		for i := 0; i < d; i++ {
			b = append(b, sib...)
		}
	}
	return b
}

func relayGen(tailQ, n int) []byte {
	return relayGenX(n, minimalTail((n-4)*tailQ/4), nil, false)
}

// relayGenX nests relay-forward messages as deep as n octets allow around an
// innermost plain message whose options are innerOpts; every relay level holds
// one sibling option beside its relay-msg option.
func relayGenX(n int, innerOpts, sib []byte, sibBefore bool) []byte {
	inner := append([]byte{}, v6hdr...)
	inner = append(inner, innerOpts...)
	per := 38 + len(sib)
	d := (n - len(inner)) / per
	if d < 0 {
		d = 0
	}
	b := make([]byte, 0, n)
	remaining := d*per + len(inner) // octets of the message starting here
	for i := 0; i < d; i++ {
		b = append(b, 12, byte(i)) // RELAY-FORW, hop count
		for j := 0; j < 32; j++ {
			b = append(b, byte(0x20+j%2)) // link / peer address
		}
		if sibBefore {
			b = append(b, sib...)
		}
		b = be16(b, 9)
		b = be16(b, remaining-per)
		remaining -= per
	}
	b = append(b, inner...)
	if !sibBefore {
		for i := 0; i < d; i++ {
			b = append(b, sib...)
		}
	}
	return b
}

// containerKinds = the nestKinds plus the relay chain (index len(nestKinds)).
func containerName(i int) string {
	if i < len(nestKinds) {
		return nestKinds[i].Name
	}
	return "relay-msg"
}

func containerGen(i, n int, tail, sib []byte, sibBefore bool) []byte {
	if i < len(nestKinds) {
		return nestGenX(nestKinds[i], n, tail, sib, sibBefore)
	}
	return relayGenX(n, tail, sib, sibBefore)
}

// failingElements: malformed innermost elements; each makes the whole decode
// fail only after every enclosing level has been entered.
var failingElements = []struct {
	Name string
	B    []byte
}{
	{"empty relay-msg option", []byte{0, 9, 0, 0}},
	{"truncated option header (3 octets)", []byte{0, 1, 0}},
	{"elapsed-time with length 1", []byte{0, 8, 0, 1, 0}},
	{"option length overruns (ffff)", []byte{0xff, 0xf0, 0xff, 0xff}},
	{"DHCPv4-msg holding 10 octets", v6opt(87, make([]byte, 10))},
	{"vendor-opts with a truncated sub-option", v6opt(17, []byte{0, 0, 1, 0x37, 0, 1, 0})},
	{"IA_NA shorter than its fixed part", v6opt(3, make([]byte, 4))},
}

var siblingOptions = []struct {
	Name string
	B    []byte
}{
	{"unknown option 65001, 1 octet", []byte{0xfd, 0xe9, 0, 1, 'x'}},
	{"elapsed-time", []byte{0, 8, 0, 2, 0, 0}},
	{"status-code, empty message", []byte{0, 13, 0, 2, 0, 0}},
}

// minimalPayload is the shortest all-zero payload the reference decoder accepts
// for a top-level option code (DHCPv4-msg: a header-only DHCPv4 packet).
func minimalPayload(code uint16) ([]byte, bool) {
	if code == v6ref.CodeDHCPv4Msg {
		return c04.Prefix(), true
	}
	for l := 0; l <= 64; l++ {
		p := make([]byte, l)
		if v, _ := v6ref.VerdictOfOption(code, p); v.HasTree() {
			return p, true
		}
	}
	return nil, false
}

type listShape struct {
	Name string
	Gen  func(room int) []byte // one option (header included) of at most room octets
}

func repeatUnit(pre []byte, unit func(i int) []byte, room int) []byte {
	b := append([]byte{}, pre...)
	for i := 0; ; i++ {
		u := unit(i)
		if len(b)+len(u) > room {
			break
		}
		b = append(b, u...)
	}
	return b
}

func listShapes() []listShape {
	single := func(code int, pre []byte, unit func(i int) []byte) func(room int) []byte {
		return func(room int) []byte {
			if room < 4+len(pre) {
				return nil
			}
			return v6opt(code, repeatUnit(pre, unit, room-4))
		}
	}
	ent := []byte{0, 0, 0x01, 0x37}
	fixed := func(b ...byte) func(int) []byte { return func(int) []byte { return b } }
	idx16 := func(i int) []byte { return []byte{byte(i >> 8), byte(i)} }
	addr := func(i int) []byte {
		return []byte{0x20, 1, 0xd, 0xb8, 0, 0, 0, 0, 0, 0, 0, 0, 0, 0, byte(i >> 8), byte(i)}
	}
	return []listShape{
		{"user-class, empty items", single(15, nil, fixed(0, 0))},
		{"user-class, 1-octet items", single(15, nil, fixed(0, 1, 'u'))},
		{"vendor-class, empty items", single(16, ent, fixed(0, 0))},
		{"vendor-class, 1-octet items", single(16, ent, fixed(0, 1, 'v'))},
		{"bootfile-param, empty items", single(60, nil, fixed(0, 0))},
		{"bootfile-param, 1-octet items", single(60, nil, fixed(0, 1, 'p'))},
		{"ORO, distinct codes", single(6, nil, idx16)},
		{"ORO, one code repeated", single(6, nil, fixed(0, 23))},
		{"dns-servers", single(23, nil, addr)},
		{"dhcp4o6-servers", single(88, nil, addr)},
		{"client-arch list", single(61, nil, idx16)},
		{"vendor-opts, empty sub-options", single(17, ent, func(i int) []byte { return []byte{byte(i >> 8), byte(i), 0, 0} })},
		{"vendor-opts, 1-octet sub-options", single(17, ent, func(i int) []byte { return []byte{byte(i >> 8), byte(i), 0, 1, 'x'} })},
		{"NTP, unknown empty sub-options", single(56, nil, fixed(0xff, 0, 0, 0))},
		{"NTP, server-address sub-options", single(56, nil, func(i int) []byte { return v6opt(1, addr(i)) })},
		{"NTP, FQDN sub-options with a root name", single(56, nil, fixed(0, 3, 0, 1, 0))},
		{"NTP, FQDN sub-options, empty", single(56, nil, fixed(0, 3, 0, 0))},
		{"interface-id, one long value", single(18, nil, fixed('i'))},
		{"status-code, long message", single(13, []byte{0, 0}, fixed('m'))},
		{"bootfile-url, long", single(59, nil, fixed('u'))},
		{"client-id, long DUID-EN", single(1, []byte{0, 2, 0, 0, 0, 9}, fixed('d'))},
		{"remote-id, long", single(37, ent, fixed('r'))},
		{"unknown option, long", single(0xfff0, nil, fixed('o'))},
		{"4RD with map rules", single(97, nil, func(int) []byte { return v6opt(98, append([]byte{24, 64, 8, 0x80, 192, 0, 2, 0}, make([]byte, 16)...)) })},
		{"IA_NA with addresses", single(3, make([]byte, 12), func(i int) []byte { return v6opt(5, append(addr(i), 0, 0, 0, 1, 0, 0, 0, 2)) })},
		{"IA_PD with prefixes", single(25, make([]byte, 12), func(i int) []byte {
			return v6opt(26, append([]byte{0, 0, 0, 1, 0, 0, 0, 2, 64}, 0x20, 1, 0xd, 0xb8, byte(i>>8), byte(i), 0, 0, 0, 0, 0, 0, 0, 0, 0, 0))
		})},
	}
}

type v4Shape struct {
	Name string
	Gen  func(area int) []byte // options area of at most `area` octets
}

func v4Shapes() []v4Shape {
	var out []v4Shape
	fill := func(code func(i int) byte, ilen int) func(area int) []byte {
		return func(area int) []byte {
			b := make([]byte, 0, area)
			for i := 0; len(b)+2+ilen <= area; i++ {
				b = append(b, code(i), byte(ilen))
				for j := 0; j < ilen; j++ {
					b = append(b, byte('A'+j%26))
				}
			}
			return b
		}
	}
	for _, code := range []int{12, 119, 82, 43} {
		for _, il := range []int{0, 1, 255} {
			c := byte(code)
			out = append(out, v4Shape{fmt.Sprintf("code %d repeated, %d-octet instances", code, il), fill(func(int) byte { return c }, il)})
		}
	}
	for _, il := range []int{0, 1, 255} {
		out = append(out, v4Shape{fmt.Sprintf("all 254 codes cycling, %d-octet instances", il), fill(func(i int) byte { return byte(1 + i%254) }, il)})
	}
	out = append(out, v4Shape{"pad octets only", func(area int) []byte { return make([]byte, area) }})
	return out
}

// ---------------------------------------------------------------- the table

var famCache []family

// families returns the complete family table (identical in the parent and in
// the worker: both are the same binary).
func families() []family {
	if famCache != nil {
		return famCache
	}
	var out []family
	// names x containers
	for _, ct := range nameContainers() {
		for _, sh := range nameShapes() {
			ct, sh := ct, sh
			name := sh.Class
			if ct.Tag != "" {
				name += "@" + ct.Tag
			}
			out = append(out, family{Name: name, Class: sh.Class, Tag: ct.Tag, Entry: ct.Entry, Params: sh.Params, Grid: sh.Grid, Derive: sh.Derive,
				Gen: func(p param, n int) []byte {
					m := ct.Room(n)
					if m < 0 {
						m = 0
					}
					return ct.Wrap(sh.Gen(p, m))
				}})
		}
	}
	// nested identity-association style options
	{
		var ps []param
		for i, k := range nestKinds {
			for _, tq := range []int{0, 2, 3} {
				ps = append(ps, param{i, tq, 0, fmt.Sprintf("%s nested to maximal depth, innermost tail of minimal options = %d/4 of the message", k.Name, tq)})
			}
		}
		out = append(out, family{Name: "nested-options", Class: "nested-options", Entry: eV6, Params: ps, Derive: true,
			Grid: "container {IA_NA, IA_TA, IAADDR, IA_PD, IAPREFIX, 4RD, IA_NA/IAADDR alternating, IA_PD/IAPREFIX alternating} x innermost tail {0, 1/2, 3/4}",
			Gen:  func(p param, n int) []byte { return nestGen(nestKinds[p.A], p.B, n) }})
	}
	// nested relay messages
	out = append(out, family{Name: "nested-relay", Class: "nested-relay", Entry: eV6, Derive: true,
		Params: []param{{0, 0, 0, "relay-forward nested to maximal depth"}, {2, 0, 0, "… innermost message with minimal options = 1/2 of the datagram"}, {3, 0, 0, "… = 3/4 of the datagram"}},
		Grid:   "innermost tail {0, 1/2, 3/4}",
		Gen:    func(p param, n int) []byte { return relayGen(p.A, n) }})
	// nesting whose innermost element is malformed: the error path of every level
	{
		var ps []param
		for ci := 0; ci <= len(nestKinds); ci++ {
			for fi, f := range failingElements {
				for _, tq := range []int{0, 2} {
					ps = append(ps, param{ci, fi, tq, fmt.Sprintf("%s nested to maximal depth, innermost list = minimal options (%d/4 of the message) + %s", containerName(ci), tq, f.Name)})
				}
			}
		}
		out = append(out, family{Name: "nested-failing-innermost", Class: "nested-failing-innermost", Entry: eV6, Params: ps,
			Grid: "container {IA_NA, IA_TA, IAADDR, IA_PD, IAPREFIX, 4RD, IA_NA/IAADDR, IA_PD/IAPREFIX, relay-msg} x malformed innermost element {empty relay-msg, truncated header, wrong fixed length, overrunning length, short DHCPv4-msg, vendor-opts with truncated sub-option, short IA_NA} x innermost tail {0, 1/2}; the decode fails, only allocDec applies",
			Gen: func(p param, n int) []byte {
				f := failingElements[p.B].B
				tail := append(minimalTail((n-4)*p.C/4), f...)
				return containerGen(p.A, n, tail, nil, false)
			}})
	}
	// nesting with one small sibling option beside the container at every level
	{
		var ps []param
		for ci := 0; ci <= len(nestKinds); ci++ {
			for si, sb := range siblingOptions {
				for _, before := range []int{0, 1} {
					ps = append(ps, param{ci, si, before, fmt.Sprintf("%s nested to maximal depth, %s %s the container at every level", containerName(ci), sb.Name, map[int]string{0: "after", 1: "before"}[before])})
				}
			}
		}
		out = append(out, family{Name: "nested+sibling-per-level", Class: "nested+sibling-per-level", Entry: eV6, Params: ps, Derive: true,
			Grid: "container {IA_NA, IA_TA, IAADDR, IA_PD, IAPREFIX, 4RD, IA_NA/IAADDR, IA_PD/IAPREFIX, relay-msg} x sibling {unknown option 65001 with 1 octet, elapsed-time, status-code} x position {after, before}",
			Gen: func(p param, n int) []byte {
				return containerGen(p.A, n, nil, siblingOptions[p.B].B, p.C == 1)
			}})
	}
	// thousands of minimal options, every option type
	{
		var ps []param
		codes := append(v6ref.KnownCodes(), 0xfff0)
		for _, c := range codes {
			if pl, ok := minimalPayload(c); ok {
				ps = append(ps, param{int(c), len(pl), 0, fmt.Sprintf("option %d (%s), %d-octet payload", c, v6ref.OptionName(c), len(pl))})
			}
		}
		out = append(out, family{Name: "minimal-options", Class: "minimal-options", Entry: eV6, Params: ps, Derive: true,
			Grid: "every option code of the reference layout table plus one unknown code, each with the shortest all-zero payload the reference accepts, repeated to fill the message",
			Gen: func(p param, n int) []byte {
				pl, _ := minimalPayload(uint16(p.A))
				o := v6opt(p.A, pl)
				b := append(make([]byte, 0, n), v6hdr...)
				for len(b)+len(o) <= n {
					b = append(b, o...)
				}
				return b
			}})
	}
	// long lists inside one option
	{
		ls := listShapes()
		var ps []param
		for i, l := range ls {
			ps = append(ps, param{i, 0, 0, l.Name})
		}
		out = append(out, family{Name: "long-lists", Class: "long-lists", Entry: eV6, Params: ps, Derive: true,
			Grid: "one option filling the message: user-class / vendor-class / bootfile-param items (0 and 1 octet), ORO, dns-servers, dhcp4o6-servers, client-arch, vendor-opts and NTP sub-options, long opaque values, 4RD rules, IA_NA addresses, IA_PD prefixes",
			Gen:  func(p param, n int) []byte { return v6msg(ls[p.A].Gen(n - 4)) }})
	}
	// DHCPv4 option areas, bare and inside DHCPv4-in-DHCPv6
	{
		vs := v4Shapes()
		var ps []param
		for i, s := range vs {
			ps = append(ps, param{i, 0, 0, s.Name})
		}
		grid := "code {12,119,82,43} repeated x instance length {0,1,255}; all 254 codes cycling x instance length {0,1,255}; pad octets only"
		out = append(out, family{Name: "v4-options", Class: "v4-options", Entry: eV4, Params: ps, Grid: grid, Derive: true,
			Gen: func(p param, n int) []byte {
				a := n - 241
				if a < 0 {
					a = 0
				}
				return v4Packet(vs[p.A].Gen(a))
			}})
		out = append(out, family{Name: "v4-options@opt87", Class: "v4-options", Tag: "opt87", Entry: eV6, Params: ps, Grid: grid, Derive: true,
			Gen: func(p param, n int) []byte {
				a := n - 8 - 241
				if a < 0 {
					a = 0
				}
				return v6msg(v6opt(87, v4Packet(vs[p.A].Gen(a))))
			}})
	}
	famCache = out
	return out
}

// ---------------------------------------------------------------- small scopes

// smallScope is a complete enumeration: every string over Alpha of length
// 0..Max appended to Header, measured through Entry.
type smallScope struct {
	Name      string
	Entry     entryKind
	Header    []byte
	Trailer   []byte
	Alpha     []byte
	MaxQuick  int
	MaxThor   int
	WhatAlpha string
}

var relayHdr = func() []byte {
	b := []byte{12, 1}
	for i := 0; i < 32; i++ {
		b = append(b, byte(0x20+i%2))
	}
	return b
}()

func smallScopes() []smallScope {
	return []smallScope{
		{"labels", eLabel, nil, nil, []byte{0x00, 0x01, 0x02, 0x3f, 0x40, 0xc0, 0xc1, 'a', 0xff}, 7, 8, "label lengths 0/1/2/63, reserved type 40, pointers c0/c1, data 'a', ff"},
		{"v4-area(C04 a)", eV4, c04.Prefix(), nil, []byte{0x00, 0x01, 0x02, 0x03, 0x35, 0x52, 0xff}, 7, 8, "C04 alphabet a"},
		{"v4-area(C04 a2)", eV4, c04.Prefix(), nil, []byte{0x00, 0x0c, 0x04, 0x05, 0x52, 0xfe, 0xff, 0x01}, 6, 7, "C04 alphabet a2"},
		{"v4-area-119+DomainSearch", eV4DS, append(c04.Prefix(), 119), nil, []byte{0x00, 0x01, 0x02, 0x03, 0x77, 0xc0, 'a', 0xff}, 6, 7, "option 119 opened by the header; length bytes, code 119 again, pointer, data, End"},
		{"v6-area(C05 a, msg)", eV6, v6hdr, nil, []byte{0x00, 0x01, 0x02, 0x03, 0x08, 0x0e, 0xff}, 7, 8, "C05 alphabet a"},
		{"v6-area(C05 a, relay)", eV6, relayHdr, nil, []byte{0x00, 0x01, 0x02, 0x03, 0x08, 0x0e, 0xff}, 6, 7, "C05 alphabet a after a relay header"},
		{"v6-area(C05 a2)", eV6, v6hdr, nil, []byte{0x00, 0x01, 0x02, 0x04, 0x06, 0x0d, 0x0f, 0x10}, 6, 7, "C05 alphabet a2 (list-shaped options)"},
		{"v6-area(C05 a3)", eV6, v6hdr, nil, []byte{0x00, 0x01, 0x02, 0x03, 0x18, 0x27, 0x38, 0x40, 0xc0}, 6, 7, "C05 alphabet a3 (name-shaped options)"},
		{"v6-area(C05 a4, relay)", eV6, relayHdr, nil, []byte{0x00, 0x01, 0x02, 0x04, 0x09, 0x0c, 0x11, 0x3c, 0x3d, 0x3e}, 6, 7, "C05 alphabet a4 (boot params, vendor-opts, relay-msg)"},
	}
}

func (s *smallScope) max(thorough bool) int {
	if thorough {
		return s.MaxThor
	}
	return s.MaxQuick
}

func ipow(a, n int) int64 {
	r := int64(1)
	for i := 0; i < n; i++ {
		r *= int64(a)
	}
	return r
}

// input builds case i of length l.
func (s *smallScope) input(l int, i int64) []byte {
	in := make([]byte, 0, len(s.Header)+l+len(s.Trailer))
	in = append(in, s.Header...)
	na := int64(len(s.Alpha))
	for k := 0; k < l; k++ {
		in = append(in, s.Alpha[i%na])
		i /= na
	}
	return append(in, s.Trailer...)
}
