package c09

import "verif/seq/ref/v6ref"

// Depth used by the oracle. For a byte string that the reference decoder reads
// into a tree (ACCEPT / MAY-REJECT) it is v6ref.Depth of that tree. The
// reference gives no tree for REJECT / UNSPECIFIED inputs (for instance every
// name longer than 255 octets), but decoding *attempts* on those inputs are
// measured too, so a purely structural scan supplies the depth there: it
// follows exactly the containers of v6ref's layout table (IA_NA/IA_PD 12 fixed
// octets, IA_TA 4, IAADDR 24, IAPREFIX 25, 4RD 0, relay-msg = a whole message,
// vendor-opts and NTP one level of sub-options, DHCPv4-msg one level of DHCPv4
// options) as far as the option framing holds. Both are computed whenever the
// tree exists and must agree (evidence: depth_crosscheck_mismatches = 0).
// DHCPv4 packets and bare label buffers have depth 1 (flat).

const (
	tblTop = iota
	tblLeaf
)

func structDepthMsg(b []byte) int {
	if len(b) < 1 {
		return 0
	}
	if b[0] == 12 || b[0] == 13 {
		if len(b) < 34 {
			return 0
		}
		return structDepthOpts(b[34:], tblTop)
	}
	if len(b) < 4 {
		return 0
	}
	return structDepthOpts(b[4:], tblTop)
}

func structDepthOpts(b []byte, table int) int {
	d := 0
	for len(b) >= 4 {
		code := uint16(b[0])<<8 | uint16(b[1])
		l := int(b[2])<<8 | int(b[3])
		if 4+l > len(b) {
			break
		}
		x := 1
		if table == tblTop {
			x += structDepthInner(code, b[4:4+l])
		}
		if x > d {
			d = x
		}
		b = b[4+l:]
	}
	return d
}

func structDepthInner(code uint16, p []byte) int {
	fixed := -1
	switch code {
	case v6ref.CodeIANA, v6ref.CodeIAPD:
		fixed = 12
	case v6ref.CodeIATA:
		fixed = 4
	case v6ref.CodeIAAddr:
		fixed = 24
	case v6ref.CodeIAPrefix:
		fixed = 25
	case v6ref.Code4RD:
		fixed = 0
	case v6ref.CodeRelayMsg:
		return structDepthMsg(p)
	case v6ref.CodeVendorOpts:
		if len(p) >= 4 {
			return structDepthOpts(p[4:], tblLeaf)
		}
		return 0
	case v6ref.CodeNTP:
		return structDepthOpts(p, tblLeaf)
	case v6ref.CodeDHCPv4Msg:
		if len(p) >= 240 {
			return v4AnyOption(p[240:])
		}
		return 0
	}
	if fixed < 0 || len(p) < fixed {
		return 0
	}
	return structDepthOpts(p[fixed:], tblTop)
}

// v4AnyOption is 1 if the DHCPv4 options area holds at least one well-framed
// option before End.
func v4AnyOption(a []byte) int {
	for i := 0; i < len(a); {
		c := a[i]
		if c == 0 {
			i++
			continue
		}
		if c == 255 || i+1 >= len(a) {
			return 0
		}
		if i+2+int(a[i+1]) > len(a) {
			return 0
		}
		return 1
	}
	return 0
}

// depthOf returns the oracle's depth for an input of the given entry kind, the
// reference depth (or -1 without a tree) and whether the two disagree.
func depthOf(e entryKind, b []byte) (depth, refDepth int, mismatch bool) {
	switch e {
	case eLabel, eV4, eV4DS:
		return 1, -1, false
	}
	sd := structDepthMsg(b)
	m, v, _ := v6ref.DecodeMessage(b)
	if v.HasTree() {
		rd := v6ref.Depth(m)
		return rd, rd, rd != sd
	}
	return sd, -1, false
}

// structDepthOf is the structural depth alone (no reference decoder).
func structDepthOf(e entryKind, b []byte) int {
	switch e {
	case eLabel, eV4, eV4DS:
		return 1
	}
	return structDepthMsg(b)
}
