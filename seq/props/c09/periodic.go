package c09

// Periodic extension of the small scope.
//
// The small-scope enumeration visits every short string, but a string of a few
// octets cannot cost more than the additive constant, so a cost defect that
// needs *many* repetitions of a short pattern (a pointer into the middle of
// another pointer, a length octet that lands on a length octet, thousands of
// instances of one option) is invisible there. This generator closes that gap
// exhaustively rather than by hand-picked shapes: for EVERY string s over the
// alphabet of length 1..MaxPeriod, the payload is s repeated (the last copy cut)
// to fill the room of an n-octet input, followed by each tail of perTails; the
// instance (s, tail) is measured at ascending n and stops at its first
// violation.

var perTails = [][]byte{{}, {0x00}, {0x00, 0x00}, {0xc0, 0x00}, {0xc0, 0x01}}

func perSizes(thorough bool) []int {
	s := []int{256, 1024, 4096, 8192}
	if thorough {
		s = append(s, 16384, MaxN)
	}
	return s
}

type perScope struct {
	Name      string
	Entry     entryKind
	Tag       string
	Alpha     []byte
	MaxPeriod int
	What      string
	Room      func(n int) int             // payload octets in an input of n octets
	Wrap      func(payload []byte) []byte // payload -> input
}

func (s *perScope) entryName() string {
	if s.Tag == "" {
		return s.Entry.String()
	}
	return s.Entry.String() + "[" + s.Tag + "]"
}

var labelAlpha = []byte{0x00, 0x01, 0x02, 0x3f, 0x40, 0xc0, 0xc1, 'a', 0xff}

func perScopes() []perScope {
	var out []perScope
	// label alphabet: bare (period <= 4) and inside every name-carrying option (period <= 3)
	for _, ct := range nameContainers() {
		ct := ct
		if ct.Tag == "opt87/opt119" {
			continue // the same DHCPv4 path as opt119, one more wrapper; covered by the hand-written families
		}
		mp, name := 3, "labels@"+ct.Tag
		if ct.Tag == "" {
			mp, name = 4, "labels"
		}
		out = append(out, perScope{Name: name, Entry: ct.Entry, Tag: ct.Tag, Alpha: labelAlpha, MaxPeriod: mp,
			What: "label alphabet (lengths 0/1/2/63, reserved type 40, pointers c0/c1, 'a' = length 97, ff) as the name payload",
			Room: ct.Room, Wrap: ct.Wrap})
	}
	after := func(hdr []byte) (func(int) int, func([]byte) []byte) {
		return func(n int) int { return n - len(hdr) }, func(p []byte) []byte { return append(append(make([]byte, 0, len(hdr)+len(p)), hdr...), p...) }
	}
	area := func(name string, e entryKind, hdr []byte, alpha []byte, what string) {
		room, wrap := after(hdr)
		out = append(out, perScope{Name: name, Entry: e, Alpha: alpha, MaxPeriod: 3, What: what, Room: room, Wrap: wrap})
	}
	for _, s := range smallScopes() {
		if s.Entry == eLabel {
			continue
		}
		area(s.Name, s.Entry, s.Header, s.Alpha, s.WhatAlpha+" (the small-scope alphabet, after the same header)")
	}
	return out
}

func perPeriods(k, maxPeriod int) int64 {
	var t int64
	for l := 1; l <= maxPeriod; l++ {
		t += ipow(k, l)
	}
	return t
}

// perString returns the period string of length l with index i.
func (s *perScope) perString(l int, i int64) []byte {
	b := make([]byte, l)
	na := int64(len(s.Alpha))
	for k := 0; k < l; k++ {
		b[k] = s.Alpha[i%na]
		i /= na
	}
	return b
}

// perInput builds the input for period string p, tail t and target size n.
func (s *perScope) perInput(p []byte, t []byte, n int) []byte {
	m := s.Room(n) - len(t)
	if m < 0 {
		m = 0
	}
	pl := make([]byte, 0, m+len(t))
	for len(pl) < m {
		k := len(p)
		if len(pl)+k > m {
			k = m - len(pl)
		}
		pl = append(pl, p[:k]...)
	}
	pl = append(pl, t...)
	return s.Wrap(pl)
}
