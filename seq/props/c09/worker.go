package c09

import (
	"bufio"
	"encoding/json"
	"fmt"
	"os"
	"runtime"
	"runtime/debug"
	"strconv"
	"strings"
	"syscall"
	"time"

	"github.com/insomniacslk/dhcp/dhcpv4"
	"github.com/insomniacslk/dhcp/dhcpv6"
	"github.com/insomniacslk/dhcp/rfc1035label"
)

// Environment of the worker subprocess.
const (
	envWorker   = "VERIF_C09_WORKER"
	envMemMB    = "VERIF_C09_MEM_MB"    // address-space cap of one worker (RLIMIT_AS), MiB
	envBigMemMB = "VERIF_C09_BIGMEM_MB" // the same for measurements with n >= 16384
	envTimeS    = "VERIF_C09_TIMEOUT_S" // hard timeout of one request, seconds
	envProcs    = "VERIF_C09_PROCS"     // number of concurrent worker processes
)

func envInt(name string, def int) int {
	if s := os.Getenv(name); s != "" {
		if n, err := strconv.Atoi(s); err == nil && n > 0 {
			return n
		}
	}
	return def
}

// MaybeWorker must be the first statement of main() of every binary that can
// reach c09.Run: when the process was started by c09.Run as a measurement
// worker (VERIF_C09_WORKER=1) it serves requests on stdin/stdout and exits;
// otherwise it returns immediately.
func MaybeWorker() {
	if os.Getenv(envWorker) != "1" {
		return
	}
	debug.SetGCPercent(-1) // GOGC=off is also in the environment
	runtime.GOMAXPROCS(1)
	lim := uint64(envInt(envMemMB, defaultMemMB)) << 20
	if err := syscall.Setrlimit(syscall.RLIMIT_AS, &syscall.Rlimit{Cur: lim, Max: lim}); err != nil {
		fmt.Fprintln(os.Stderr, "c09 worker: setrlimit:", err)
		os.Exit(3)
	}
	// Orphan guard: if the parent disappears while a measurement is spinning, exit.
	// The goroutine only sleeps; it is started (and its timer allocated) before the
	// first measurement window opens, so it never allocates inside one (the
	// calibration request verifies that an empty window reads 0 bytes).
	ppid := os.Getppid()
	go func() {
		for {
			time.Sleep(time.Second)
			if os.Getppid() != ppid {
				os.Exit(6)
			}
		}
	}()
	time.Sleep(2 * time.Millisecond)
	os.Exit(workerLoop())
}

// request is one line parent -> worker.
type request struct {
	Kind string `json:"kind"` // "fam" | "small" | "per" | "calib"
	// fam
	Fam   int `json:"fam,omitempty"`
	Param int `json:"param,omitempty"`
	Size  int `json:"size,omitempty"`
	// small
	Scope int   `json:"scope,omitempty"`
	Len   int   `json:"len,omitempty"`
	Lo    int64 `json:"lo,omitempty"`
	Hi    int64 `json:"hi,omitempty"`
	// per (Scope, Len = period length, Lo, Hi as above)
	Sizes []int `json:"sizes,omitempty"`
}

// meas is one measured input.
type meas struct {
	N           int    `json:"n"`
	Depth       int    `json:"depth"`
	RefDepth    int    `json:"ref_depth"`
	DepthMism   bool   `json:"depth_mismatch,omitempty"`
	Accepted    bool   `json:"accepted"`
	Err         string `json:"err,omitempty"`
	Deep        uint64 `json:"deep"`
	AllocDec    uint64 `json:"alloc_dec"`
	AllocDecEnc uint64 `json:"alloc_dec_enc"`
	OutLen      int    `json:"out_len"`
	Panic       string `json:"panic,omitempty"`
	Stack       string `json:"stack,omitempty"`
	DecNs       int64  `json:"dec_ns"`
	EncNs       int64  `json:"enc_ns"`
}

// smallViol is a violating small-scope input found inside a batch.
type smallViol struct {
	Clause string `json:"clause"`
	Index  int64  `json:"index"`
	Tail   int    `json:"tail,omitempty"` // periodic scopes
	Size   int    `json:"size,omitempty"`
	M      meas   `json:"m"`
}

// response is one line worker -> parent.
type response struct {
	Fatal string `json:"fatal,omitempty"` // harness failure (never a verdict)
	M     *meas  `json:"m,omitempty"`
	// small batch aggregate
	Count      int64       `json:"count,omitempty"`
	Accepted   int64       `json:"accepted,omitempty"`
	Nontrivial int64       `json:"nontrivial,omitempty"`
	DepthMism  int64       `json:"depth_mism,omitempty"`
	MaxDeep    uint64      `json:"max_deep,omitempty"`
	MaxDec     uint64      `json:"max_dec,omitempty"`
	MaxDecEnc  uint64      `json:"max_dec_enc,omitempty"`
	MaxFrac    [3]float64  `json:"max_frac,omitempty"` // measured / bound per clause
	Viol       []smallViol `json:"viol,omitempty"`
	Calib      [3]uint64   `json:"calib,omitempty"`
	// periodic batch
	Stopped int64      `json:"stopped,omitempty"`
	ViolN   int64      `json:"viol_n,omitempty"`
	Worst   *meas      `json:"worst,omitempty"` // measurement with the largest fraction of a bound
	WorstAt [3]int64   `json:"worst_at,omitempty"`
	PerN    [3]float64 `json:"per_n,omitempty"` // max deepSize/n, allocDec/n, allocDecEnc/n
}

func workerLoop() (code int) {
	out := bufio.NewWriterSize(os.Stdout, 1<<20)
	enc := json.NewEncoder(out)
	reply := func(r *response) {
		enc.Encode(r)
		out.Flush()
	}
	defer func() {
		if r := recover(); r != nil {
			reply(&response{Fatal: fmt.Sprintf("worker panic: %v\n%s", r, debug.Stack())})
			code = 4
		}
	}()
	fams := families()
	scopes := smallScopes()
	pers := perScopes()
	in := bufio.NewScanner(os.Stdin)
	in.Buffer(make([]byte, 1<<20), 1<<20)
	for in.Scan() {
		var rq request
		if err := json.Unmarshal(in.Bytes(), &rq); err != nil {
			reply(&response{Fatal: "bad request: " + err.Error()})
			return 4
		}
		switch rq.Kind {
		case "calib":
			reply(&response{Calib: calibrate()})
		case "fam":
			f := &fams[rq.Fam]
			b := f.Gen(f.Params[rq.Param], rq.Size)
			collect()
			m := measure(f.Entry, b)
			reply(&response{M: &m})
		case "small":
			s := &scopes[rq.Scope]
			r := &response{}
			for i := rq.Lo; i < rq.Hi; i++ {
				b := s.input(rq.Len, i)
				m := measure(s.Entry, b)
				r.Count++
				if m.Accepted {
					r.Accepted++
					if m.N >= nontrivialMin {
						r.Nontrivial++
					}
				}
				if m.DepthMism {
					r.DepthMism++
				}
				if m.Deep > r.MaxDeep {
					r.MaxDeep = m.Deep
				}
				if m.AllocDec > r.MaxDec {
					r.MaxDec = m.AllocDec
				}
				if m.AllocDecEnc > r.MaxDecEnc {
					r.MaxDecEnc = m.AllocDecEnc
				}
				fr := fractions(&m)
				for k := range fr {
					if fr[k] > r.MaxFrac[k] {
						r.MaxFrac[k] = fr[k]
					}
				}
				for _, cl := range violatedClauses(&m) {
					seen := false
					for _, v := range r.Viol {
						if v.Clause == cl {
							seen = true
						}
					}
					if !seen {
						r.Viol = append(r.Viol, smallViol{Clause: cl, Index: i, M: m})
					}
				}
				if i&0x3ff == 0 {
					collectIfLarge()
				}
			}
			collectIfLarge()
			reply(r)
		case "per":
			s := &pers[rq.Scope]
			r := &response{}
			var worstFr float64
			for i := rq.Lo; i < rq.Hi; i++ {
				p := s.perString(rq.Len, i)
				for ti, tail := range perTails {
					for _, n := range rq.Sizes {
						b := s.perInput(p, tail, n)
						m := measureD(s.Entry, b, false)
						r.Count++
						if m.Accepted {
							r.Accepted++
							if m.N >= nontrivialMin {
								r.Nontrivial++
							}
						}
						if m.DepthMism {
							r.DepthMism++
						}
						fr := fractions(&m)
						for k := range fr {
							if fr[k] > r.MaxFrac[k] {
								r.MaxFrac[k] = fr[k]
							}
							if fr[k] > worstFr {
								worstFr = fr[k]
								mm := m
								r.Worst, r.WorstAt = &mm, [3]int64{i, int64(ti), int64(n)}
							}
						}
						if m.N > 0 {
							for k, v := range []uint64{m.Deep, m.AllocDec, m.AllocDecEnc} {
								if x := float64(v) / float64(m.N); x > r.PerN[k] {
									r.PerN[k] = x
								}
							}
						}
						cls := violatedClauses(&m)
						if m.Panic != "" {
							cls = append(cls, "panic")
						}
						for _, cl := range cls {
							r.ViolN++
							seen := false
							for _, v := range r.Viol {
								if v.Clause == cl {
									seen = true
								}
							}
							if !seen {
								r.Viol = append(r.Viol, smallViol{Clause: cl, Index: i, Tail: ti, Size: n, M: m})
							}
						}
						if m.N >= 4096 {
							collectIfLarge()
						}
						if len(cls) > 0 {
							r.Stopped++
							break // this (period, tail) instance stops at its first violating size
						}
					}
				}
				collectIfLarge()
			}
			reply(r)
		default:
			reply(&response{Fatal: "unknown request kind " + rq.Kind})
			return 4
		}
	}
	return 0
}

var msA, msB, msC runtime.MemStats

func collect() {
	runtime.GC()
	debug.FreeOSMemory()
}

func collectIfLarge() {
	runtime.ReadMemStats(&msA)
	if msA.HeapAlloc > 256<<20 {
		runtime.GC()
	}
}

// calibrate measures the harness itself: an empty measurement window, a window
// holding one 1000-byte allocation, and one holding a no-op decode. Expected
// {0, 1024, 0}.
func calibrate() (c [3]uint64) {
	runtime.ReadMemStats(&msA)
	runtime.ReadMemStats(&msB)
	c[0] = msB.TotalAlloc - msA.TotalAlloc
	runtime.ReadMemStats(&msA)
	sinkBytes = make([]byte, 1000)
	runtime.ReadMemStats(&msB)
	c[1] = msB.TotalAlloc - msA.TotalAlloc
	runtime.ReadMemStats(&msA)
	var d decoded
	decodeInto(&d, entryKind(-1), nil)
	runtime.ReadMemStats(&msB)
	c[2] = msB.TotalAlloc - msA.TotalAlloc
	return c
}

var sinkBytes []byte

// decoded is everything a decode produced (the value whose deep size is taken).
type decoded struct {
	L    *rfc1035label.Labels
	V6   dhcpv6.DHCPv6
	V4   *dhcpv4.DHCPv4
	Out  []byte
	Out2 []byte
	err  error
	pv   any
	st   string
}

// decodeInto runs the decode side of an entry kind. No closures and no
// allocation of its own, so the TotalAlloc window contains library work only.
//
//go:noinline
func decodeInto(d *decoded, e entryKind, b []byte) {
	defer func() {
		if r := recover(); r != nil {
			d.pv = r
			d.st = string(debug.Stack())
		}
	}()
	switch e {
	case eLabel:
		d.L, d.err = rfc1035label.FromBytes(b)
	case eV6:
		d.V6, d.err = dhcpv6.FromBytes(b)
	case eV4:
		d.V4, d.err = dhcpv4.FromBytes(b)
	case eV4DS:
		d.V4, d.err = dhcpv4.FromBytes(b)
		if d.err == nil {
			d.L = d.V4.DomainSearch()
		}
	case eV6V4DS:
		d.V6, d.err = dhcpv6.FromBytes(b)
		if d.err == nil {
			if m, ok := d.V6.(*dhcpv6.Message); ok {
				if o, ok := m.GetOneOption(dhcpv6.OptionDHCPv4Msg).(*dhcpv6.OptDHCPv4Msg); ok && o.Msg != nil {
					d.V4 = o.Msg
					d.L = o.Msg.DomainSearch()
				}
			}
		}
	}
}

// encodeFrom runs the re-encode side.
//
//go:noinline
func encodeFrom(d *decoded, e entryKind) {
	defer func() {
		if r := recover(); r != nil {
			d.pv = r
			d.st = string(debug.Stack())
		}
	}()
	switch e {
	case eLabel:
		d.Out = d.L.ToBytes()
	case eV6, eV6V4DS:
		d.Out = d.V6.ToBytes()
	case eV4, eV4DS:
		d.Out = d.V4.ToBytes()
	}
	if (e == eV4DS || e == eV6V4DS) && d.L != nil {
		d.Out2 = d.L.ToBytes()
	}
}

// measure runs one input: reference depth first (outside the windows), then
// decode and re-encode between TotalAlloc readings (runtime.ReadMemStats stops
// the world and flushes the allocation caches, so the counter is exact), then
// the reflective deep size.
func measure(e entryKind, in []byte) (m meas) { return measureD(e, in, true) }

// measureD: with useRef=false the depth comes from the structural scan alone
// (periodic scopes: the reference decoder's own cost on pointer loops, up to n
// hops per pointer with a growing name, would otherwise dominate the worker).
func measureD(e entryKind, in []byte, useRef bool) (m meas) {
	m.N = len(in)
	if useRef {
		m.Depth, m.RefDepth, m.DepthMism = depthOf(e, in)
	} else {
		m.Depth, m.RefDepth = structDepthOf(e, in), -1
	}
	b := append(make([]byte, 0, len(in)), in...) // fresh buffer handed to the library
	var d decoded
	runtime.ReadMemStats(&msA)
	t0 := time.Now()
	decodeInto(&d, e, b)
	t1 := time.Now()
	runtime.ReadMemStats(&msB)
	m.AllocDec = msB.TotalAlloc - msA.TotalAlloc
	m.AllocDecEnc = m.AllocDec
	m.DecNs = t1.Sub(t0).Nanoseconds()
	if d.pv != nil {
		m.Panic, m.Stack = fmt.Sprint(d.pv), shortStack(d.st)
		return m
	}
	if d.err != nil {
		m.Err = d.err.Error()
		if len(m.Err) > 120 {
			m.Err = m.Err[:120]
		}
		return m
	}
	m.Accepted = true
	t2 := time.Now()
	encodeFrom(&d, e)
	t3 := time.Now()
	runtime.ReadMemStats(&msC)
	m.AllocDecEnc = msC.TotalAlloc - msA.TotalAlloc
	m.EncNs = t3.Sub(t2).Nanoseconds()
	if d.pv != nil {
		m.Panic, m.Stack = fmt.Sprint(d.pv), shortStack(d.st)
		return m
	}
	m.OutLen = len(d.Out)
	switch e {
	case eLabel:
		m.Deep = DeepSize(d.L)
	case eV6:
		m.Deep = DeepSize(d.V6)
	case eV4:
		m.Deep = DeepSize(d.V4)
	case eV4DS:
		m.Deep = DeepSize(struct {
			P *dhcpv4.DHCPv4
			L *rfc1035label.Labels
		}{d.V4, d.L})
	case eV6V4DS:
		m.Deep = DeepSize(struct {
			M dhcpv6.DHCPv6
			L *rfc1035label.Labels
		}{d.V6, d.L})
	}
	return m
}

func shortStack(s string) string {
	var out []string
	for _, l := range strings.Split(s, "\n") {
		if strings.Contains(l, "insomniacslk/dhcp") && strings.Contains(l, "(") && !strings.HasPrefix(strings.TrimSpace(l), "/") {
			l = strings.TrimSpace(l)
			if i := strings.LastIndex(l, "("); i > 0 {
				l = l[:i]
			}
			if j := strings.LastIndex(l, "/"); j >= 0 {
				l = l[j+1:]
			}
			out = append(out, l)
			if len(out) >= 4 {
				break
			}
		}
	}
	return strings.Join(out, " <- ")
}
