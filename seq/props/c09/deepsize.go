package c09

import (
	"reflect"
	"sort"
	"unsafe"
)

// DeepSize is the reflective deep size of a decoded value in bytes: the value
// itself plus everything reachable from it through pointers, slices (whole
// capacity), strings, maps and interfaces. Memory is counted by address
// interval, so a backing array that is referenced several times, or through
// overlapping sub-slices, is counted once. Unexported fields are followed (no
// Interface() call is needed for that). Map storage is estimated from the entry
// count (entries are walked exactly).
func DeepSize(x any) uint64 {
	if x == nil {
		return 0
	}
	s := &sizer{seen: map[ptrKey]struct{}{}, hasPtr: map[reflect.Type]bool{}}
	v := reflect.ValueOf(x)
	s.extra += uint64(v.Type().Size())
	s.walk(v)
	return s.total()
}

type interval struct{ lo, hi uintptr }

type ptrKey struct {
	p uintptr
	t reflect.Type
	n int
}

type sizer struct {
	iv     []interval
	seen   map[ptrKey]struct{}
	hasPtr map[reflect.Type]bool
	extra  uint64
}

func (s *sizer) add(p uintptr, n uintptr) {
	if n > 0 && p != 0 {
		s.iv = append(s.iv, interval{p, p + n})
	}
}

func (s *sizer) visit(p uintptr, t reflect.Type, n int) bool {
	k := ptrKey{p, t, n}
	if _, ok := s.seen[k]; ok {
		return false
	}
	s.seen[k] = struct{}{}
	return true
}

// pointers reports whether values of type t can reference other memory.
func (s *sizer) pointers(t reflect.Type) bool {
	if r, ok := s.hasPtr[t]; ok {
		return r
	}
	s.hasPtr[t] = true // recursive types: assume yes while computing
	r := true
	switch t.Kind() {
	case reflect.Bool, reflect.Int, reflect.Int8, reflect.Int16, reflect.Int32, reflect.Int64,
		reflect.Uint, reflect.Uint8, reflect.Uint16, reflect.Uint32, reflect.Uint64, reflect.Uintptr,
		reflect.Float32, reflect.Float64, reflect.Complex64, reflect.Complex128:
		r = false
	case reflect.Array:
		r = t.Len() > 0 && s.pointers(t.Elem())
	case reflect.Struct:
		r = false
		for i := 0; i < t.NumField(); i++ {
			if s.pointers(t.Field(i).Type) {
				r = true
				break
			}
		}
	}
	s.hasPtr[t] = r
	return r
}

// walk accounts for everything v references (v's own inline bytes belong to its
// container and are counted there).
func (s *sizer) walk(v reflect.Value) {
	switch v.Kind() {
	case reflect.Ptr:
		if v.IsNil() {
			return
		}
		p := v.Pointer()
		et := v.Type().Elem()
		if !s.visit(p, et, 1) {
			return
		}
		s.add(p, et.Size())
		if s.pointers(et) {
			s.walk(v.Elem())
		}
	case reflect.Slice:
		if v.IsNil() {
			return
		}
		p := v.Pointer()
		et := v.Type().Elem()
		s.add(p, uintptr(v.Cap())*et.Size())
		if !s.pointers(et) || !s.visit(p, et, v.Len()) {
			return
		}
		for i := 0; i < v.Len(); i++ {
			s.walk(v.Index(i))
		}
	case reflect.String:
		str := v.String()
		if len(str) > 0 {
			s.add(uintptr(unsafe.Pointer(unsafe.StringData(str))), uintptr(len(str)))
		}
	case reflect.Interface:
		if v.IsNil() {
			return
		}
		e := v.Elem()
		switch e.Kind() {
		case reflect.Ptr, reflect.Map, reflect.Chan, reflect.Func, reflect.UnsafePointer:
			// pointer-shaped: stored in the interface word itself
		default:
			s.extra += uint64(e.Type().Size()) // boxed copy (address not observable)
		}
		s.walk(e)
	case reflect.Struct:
		if !s.pointers(v.Type()) {
			return
		}
		for i := 0; i < v.NumField(); i++ {
			s.walk(v.Field(i))
		}
	case reflect.Array:
		if !s.pointers(v.Type()) {
			return
		}
		for i := 0; i < v.Len(); i++ {
			s.walk(v.Index(i))
		}
	case reflect.Map:
		if v.IsNil() {
			return
		}
		if !s.visit(v.Pointer(), v.Type(), 0) {
			return
		}
		kt, et := v.Type().Key(), v.Type().Elem()
		s.extra += mapStorage(v.Len(), kt.Size(), et.Size())
		kp, ep := s.pointers(kt), s.pointers(et)
		if !kp && !ep {
			return
		}
		it := v.MapRange()
		for it.Next() {
			if kp {
				s.walk(it.Key())
			}
			if ep {
				s.walk(it.Value())
			}
		}
	}
}

// mapStorage estimates the memory of a map with n entries: header plus
// power-of-two groups of 8 slots (one control word each) at load factor 7/8.
func mapStorage(n int, k, e uintptr) uint64 {
	groups := 1
	for groups*7 < n {
		groups *= 2
	}
	return 48 + uint64(groups)*uint64(8+8*(k+e))
}

func (s *sizer) total() uint64 {
	sort.Slice(s.iv, func(i, j int) bool { return s.iv[i].lo < s.iv[j].lo })
	var sum uint64
	var cur interval
	for i, x := range s.iv {
		if i == 0 {
			cur = x
			continue
		}
		if x.lo <= cur.hi {
			if x.hi > cur.hi {
				cur.hi = x.hi
			}
			continue
		}
		sum += uint64(cur.hi - cur.lo)
		cur = x
	}
	if len(s.iv) > 0 {
		sum += uint64(cur.hi - cur.lo)
	}
	return sum + s.extra
}
