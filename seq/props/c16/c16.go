// Package c16: DHCPv6 builders and relay encapsulation preserve identity and
// nesting. Bounded-exhaustive enumeration of relay chains (every depth 1..16,
// per-level interface-id / remote-id subsets, relay type patterns) around every
// inner message (types 1..11 x 64 option subsets), built step by step with the
// library and compared with the independent list-of-levels model v6chain, each
// case also after a ToBytes/FromBytes trip; plus the advertise / request /
// reply builders on every inner message.
package c16

import (
	"bytes"
	"fmt"
	"net"
	"runtime/debug"
	"strings"
	"sync"
	"sync/atomic"
	"time"

	"github.com/insomniacslk/dhcp/dhcpv6"
	"github.com/insomniacslk/dhcp/iana"
	"verif/seq/fw"
	"verif/seq/ref/v6chain"
)

const (
	nTypes   = 11 // plain message types 1..11
	nSubsets = 64 // subsets of {client id, server id, IA_NA, IA_PD, rapid-commit, vendor class}
	nInner   = nTypes * nSubsets
	nPat     = 4 // relay type patterns
	maxDepth = 16
)

var subsetNames = []string{"client-id", "server-id", "IA_NA", "IA_PD", "rapid-commit", "vendor-class"}
var patNames = []string{"all RELAY-FORW", "all RELAY-REPL", "alternating, innermost RELAY-FORW", "alternating, innermost RELAY-REPL"}

// spec is one enumerated case: a chain shape around an inner message.
type spec struct {
	opts   []byte // per level (innermost first): bit0 = interface-id, bit1 = remote-id
	pat    int    // relay type pattern
	ityp   byte   // inner message type
	subset int    // inner option subset
	xid    [3]byte
	dropP1 int // rejection scope only: 1 + level whose relay-msg option is removed (0 = none)
}

func (sp spec) depth() int { return len(sp.opts) }

func (sp spec) relayType(k int) byte {
	switch sp.pat {
	case 0:
		return v6chain.RelayForw
	case 1:
		return v6chain.RelayRepl
	case 2:
		if k%2 == 0 {
			return v6chain.RelayForw
		}
		return v6chain.RelayRepl
	default:
		if k%2 == 0 {
			return v6chain.RelayRepl
		}
		return v6chain.RelayForw
	}
}

// Per-level values, distinct per level so that swaps and reversals show.
func linkAddr(k int) (a [16]byte) { // 2001:db8::<k+1>:1
	a[0], a[1], a[2], a[3] = 0x20, 0x01, 0x0d, 0xb8
	a[13], a[15] = byte(k+1), 1
	return
}
func peerAddr(k int) (a [16]byte) { // fe80::<k+1>:2
	a[0], a[1] = 0xfe, 0x80
	a[13], a[15] = byte(k+1), 2
	return
}
func iidVal(k int) []byte { return []byte{'e', 't', 'h', byte('0' + k%10), byte(k)} }
func ridEnt(k int) uint32 { return uint32(0x137 + k) }
func ridID(k int) []byte  { return []byte{'r', byte(k), 0xee} }
func ridVal(k int) []byte { // option 37 value: enterprise number + id
	e := ridEnt(k)
	return append([]byte{byte(e >> 24), byte(e >> 16), byte(e >> 8), byte(e)}, ridID(k)...)
}

func subsetString(s int) string {
	var p []string
	for i, n := range subsetNames {
		if s&(1<<i) != 0 {
			p = append(p, n)
		}
	}
	if len(p) == 0 {
		return "no options"
	}
	return strings.Join(p, "+")
}

func (sp spec) String() string {
	var lv []string
	for k, o := range sp.opts {
		s := map[byte]string{v6chain.RelayForw: "FORW", v6chain.RelayRepl: "REPL"}[sp.relayType(k)]
		if o&1 != 0 {
			s += "+iid"
		}
		if o&2 != 0 {
			s += "+rid"
		}
		lv = append(lv, s)
	}
	return fmt.Sprintf("inner{type=%d xid=%x opts=%s} levels(innermost first)=[%s] (link 2001:db8::<level+1>:1, peer fe80::<level+1>:2)",
		sp.ityp, sp.xid, subsetString(sp.subset), strings.Join(lv, " "))
}

// ---- inner messages: reference bytes and the library construction ----------

func be32(v uint32) []byte { return []byte{byte(v >> 24), byte(v >> 16), byte(v >> 8), byte(v)} }

func cidMAC(t byte, s int) []byte { return []byte{0x02, 0x00, 0x5e, 0x10, t, byte(s)} }
func sidID(t byte) []byte         { return []byte{'s', 'r', 'v', t} }
func naIAID(t byte, s int) [4]byte {
	return [4]byte{0x1a, 0x0a, t, byte(s)}
}
func pdIAID(t byte, s int) [4]byte { return [4]byte{0x1a, 0x0d, t, byte(s)} }
func naAddr(t byte) []byte {
	a := make([]byte, 16)
	a[0], a[1], a[2], a[3], a[5], a[15] = 0x20, 0x01, 0x0d, 0xb8, 0x01, t
	return a
}
func pdPrefix() []byte {
	a := make([]byte, 16)
	a[0], a[1], a[2], a[3], a[4] = 0x20, 0x01, 0x0d, 0xb8, 0xff
	return a
}
func vcData(t byte) []byte { return []byte{'v', 'c', '0', t} }

// refInner writes the inner message from the RFC 8415 option layouts.
func refInner(t byte, s int, xid [3]byte) v6chain.Inner {
	in := v6chain.Inner{Type: t, XID: xid}
	if s&1 != 0 { // DUID-LL, hardware type 1
		in.Opts = append(in.Opts, v6chain.Opt{Code: v6chain.OptClientID, Val: append([]byte{0, 3, 0, 1}, cidMAC(t, s)...)})
	}
	if s&2 != 0 { // DUID-EN
		v := append([]byte{0, 2}, be32(0x9d10)...)
		in.Opts = append(in.Opts, v6chain.Opt{Code: v6chain.OptServerID, Val: append(v, sidID(t)...)})
	}
	if s&4 != 0 { // IA_NA: IAID T1 T2 + IAADDR(addr, preferred, valid)
		id := naIAID(t, s)
		v := append(append(append([]byte{}, id[:]...), be32(1800)...), be32(2880)...)
		v = append(v, 0, 5, 0, 24)
		v = append(append(append(v, naAddr(t)...), be32(3600)...), be32(7200)...)
		in.Opts = append(in.Opts, v6chain.Opt{Code: v6chain.OptIANA, Val: v})
	}
	if s&8 != 0 { // IA_PD: IAID T1 T2 + IAPREFIX(preferred, valid, length, prefix)
		id := pdIAID(t, s)
		v := append(append(append([]byte{}, id[:]...), be32(1000)...), be32(2000)...)
		v = append(v, 0, 26, 0, 25)
		v = append(append(v, be32(3600)...), be32(7200)...)
		v = append(v, 56)
		v = append(v, pdPrefix()...)
		in.Opts = append(in.Opts, v6chain.Opt{Code: v6chain.OptIAPD, Val: v})
	}
	if s&16 != 0 {
		in.Opts = append(in.Opts, v6chain.Opt{Code: v6chain.OptRapidCommit, Val: []byte{}})
	}
	if s&32 != 0 { // enterprise number + one length-prefixed class
		v := append(be32(0x137), 0, 4)
		in.Opts = append(in.Opts, v6chain.Opt{Code: v6chain.OptVendorClass, Val: append(v, vcData(t)...)})
	}
	return in
}

// libInner builds the same message with the library's exported constructors.
func libInner(t byte, s int, xid [3]byte) *dhcpv6.Message {
	m := &dhcpv6.Message{MessageType: dhcpv6.MessageType(t), TransactionID: dhcpv6.TransactionID(xid)}
	if s&1 != 0 {
		m.AddOption(dhcpv6.OptClientID(&dhcpv6.DUIDLL{HWType: iana.HWTypeEthernet, LinkLayerAddr: net.HardwareAddr(cidMAC(t, s))}))
	}
	if s&2 != 0 {
		m.AddOption(dhcpv6.OptServerID(&dhcpv6.DUIDEN{EnterpriseNumber: 0x9d10, EnterpriseIdentifier: sidID(t)}))
	}
	if s&4 != 0 {
		ia := &dhcpv6.OptIANA{IaId: naIAID(t, s), T1: 1800 * time.Second, T2: 2880 * time.Second}
		ia.Options.Add(&dhcpv6.OptIAAddress{IPv6Addr: net.IP(naAddr(t)), PreferredLifetime: 3600 * time.Second, ValidLifetime: 7200 * time.Second})
		m.AddOption(ia)
	}
	if s&8 != 0 {
		pd := &dhcpv6.OptIAPD{IaId: pdIAID(t, s), T1: 1000 * time.Second, T2: 2000 * time.Second}
		pd.Options.Add(&dhcpv6.OptIAPrefix{PreferredLifetime: 3600 * time.Second, ValidLifetime: 7200 * time.Second,
			Prefix: &net.IPNet{IP: net.IP(pdPrefix()), Mask: net.CIDRMask(56, 128)}})
		m.AddOption(pd)
	}
	if s&16 != 0 {
		m.AddOption(&dhcpv6.OptionGeneric{OptionCode: dhcpv6.OptionRapidCommit})
	}
	if s&32 != 0 {
		m.AddOption(&dhcpv6.OptVendorClass{EnterpriseNumber: 0x137, Data: [][]byte{vcData(t)}})
	}
	return m
}

// innerGoCode is libInner as source text for the emitted reproduction tests.
func innerGoCode(t byte, s int, xid [3]byte) string {
	var b strings.Builder
	fmt.Fprintf(&b, "\tinner := &dhcpv6.Message{MessageType: dhcpv6.MessageType(%d), TransactionID: dhcpv6.TransactionID{%#x, %#x, %#x}}\n", t, xid[0], xid[1], xid[2])
	if s&1 != 0 {
		fmt.Fprintf(&b, "\tinner.AddOption(dhcpv6.OptClientID(&dhcpv6.DUIDLL{HWType: iana.HWTypeEthernet, LinkLayerAddr: net.HardwareAddr{0x02, 0x00, 0x5e, 0x10, %#x, %#x}}))\n", t, byte(s))
	}
	if s&2 != 0 {
		fmt.Fprintf(&b, "\tinner.AddOption(dhcpv6.OptServerID(&dhcpv6.DUIDEN{EnterpriseNumber: 0x9d10, EnterpriseIdentifier: []byte{'s', 'r', 'v', %#x}}))\n", t)
	}
	if s&4 != 0 {
		fmt.Fprintf(&b, "\tia := &dhcpv6.OptIANA{IaId: [4]byte{0x1a, 0x0a, %#x, %#x}, T1: 1800 * time.Second, T2: 2880 * time.Second}\n", t, byte(s))
		fmt.Fprintf(&b, "\tia.Options.Add(&dhcpv6.OptIAAddress{IPv6Addr: net.ParseIP(\"2001:db8:1::%x\"), PreferredLifetime: 3600 * time.Second, ValidLifetime: 7200 * time.Second})\n", t)
		b.WriteString("\tinner.AddOption(ia)\n")
	}
	if s&8 != 0 {
		fmt.Fprintf(&b, "\tpd := &dhcpv6.OptIAPD{IaId: [4]byte{0x1a, 0x0d, %#x, %#x}, T1: 1000 * time.Second, T2: 2000 * time.Second}\n", t, byte(s))
		b.WriteString("\tpd.Options.Add(&dhcpv6.OptIAPrefix{PreferredLifetime: 3600 * time.Second, ValidLifetime: 7200 * time.Second, Prefix: &net.IPNet{IP: net.ParseIP(\"2001:db8:ff00::\"), Mask: net.CIDRMask(56, 128)}})\n")
		b.WriteString("\tinner.AddOption(pd)\n")
	}
	if s&16 != 0 {
		b.WriteString("\tinner.AddOption(&dhcpv6.OptionGeneric{OptionCode: dhcpv6.OptionRapidCommit})\n")
	}
	if s&32 != 0 {
		fmt.Fprintf(&b, "\tinner.AddOption(&dhcpv6.OptVendorClass{EnterpriseNumber: 0x137, Data: [][]byte{{'v', 'c', '0', %#x}}})\n", t)
	}
	return b.String()
}

// goTest renders a plain Go test: build the case like the check does, then run body.
// In body, `d` is the chain (dhcpv6.DHCPv6) and `inner` the inner *dhcpv6.Message.
func (sp spec) goTest(wire bool, body string) string {
	var b strings.Builder
	b.WriteString("// imports: bytes, encoding/hex, fmt, net, testing, time, github.com/insomniacslk/dhcp/dhcpv6, github.com/insomniacslk/dhcp/iana\n")
	b.WriteString("func TestReplayC16(t *testing.T) {\n")
	b.WriteString(innerGoCode(sp.ityp, sp.subset, sp.xid))
	b.WriteString("\tvar d dhcpv6.DHCPv6 = inner\n")
	if sp.depth() > 0 {
		b.WriteString("\tfor k, l := range []struct {\n\t\ttyp      dhcpv6.MessageType\n\t\tiid, rid bool\n\t}{")
		for k, o := range sp.opts {
			if k > 0 {
				b.WriteString(", ")
			}
			fmt.Fprintf(&b, "{%d, %v, %v}", sp.relayType(k), o&1 != 0, o&2 != 0)
		}
		b.WriteString("} { // innermost relay first\n")
		b.WriteString("\t\tr, err := dhcpv6.EncapsulateRelay(d, l.typ, net.ParseIP(fmt.Sprintf(\"2001:db8::%x:1\", k+1)), net.ParseIP(fmt.Sprintf(\"fe80::%x:2\", k+1)))\n")
		b.WriteString("\t\tif err != nil {\n\t\t\tt.Fatal(err)\n\t\t}\n")
		b.WriteString("\t\tif l.iid {\n\t\t\tr.AddOption(dhcpv6.OptInterfaceID([]byte{'e', 't', 'h', byte('0' + k%10), byte(k)}))\n\t\t}\n")
		b.WriteString("\t\tif l.rid {\n\t\t\tr.UpdateOption(&dhcpv6.OptRemoteID{EnterpriseNumber: uint32(0x137 + k), RemoteID: []byte{'r', byte(k), 0xee}})\n\t\t}\n")
		if sp.dropP1 > 0 {
			fmt.Fprintf(&b, "\t\tif k == %d {\n\t\t\tr.Options.Del(dhcpv6.OptionRelayMsg) // this level loses its embedded message\n\t\t}\n", sp.dropP1-1)
		}
		b.WriteString("\t\td = r\n\t}\n")
	}
	if wire {
		b.WriteString("\td, err := dhcpv6.FromBytes(d.ToBytes()) // trip over the wire\n\tif err != nil {\n\t\tt.Fatal(err)\n\t}\n")
		if sp.depth() == 0 {
			b.WriteString("\tinner = d.(*dhcpv6.Message)\n")
		}
	}
	b.WriteString(body)
	b.WriteString("\t_, _, _, _, _, _, _ = d, bytes.Equal, hex.EncodeToString, fmt.Sprint, time.Second, iana.HWTypeEthernet, net.IPv6len\n}\n")
	return b.String()
}

// lazy is a piece of reproduction-test source that is only rendered when a
// violation is actually written out.
type lazy func() string

func lit(s string) lazy { return func() string { return s } }

func bodyWantBytes(call lazy, want []byte) lazy {
	return func() string { return bodyWantBytesS(call(), fw.Hex(want)) }
}

func bodyWantErr(call lazy) lazy {
	return func() string { return bodyWantErrS(call()) }
}

func bodyWantBytesS(call, wantHex string) string {
	return fmt.Sprintf("\tx, err := %s\n\tif err != nil {\n\t\tt.Fatalf(\"unexpected error: %%v\", err)\n\t}\n\tif got, want := hex.EncodeToString(x.ToBytes()), %q; got != want {\n\t\tt.Fatalf(\"got  %%s\\nwant %%s\", got, want)\n\t}\n", call, wantHex)
}

func bodyWantErrS(call string) string {
	return fmt.Sprintf("\tx, err := %s\n\tif err == nil {\n\t\tt.Fatalf(\"expected an error, got %%v\", x)\n\t}\n", call)
}

// ---- library value -> list-of-levels model (exported fields / accessors) ---

func to16(ip net.IP) (a [16]byte, ok bool) {
	v := ip.To16()
	if v == nil {
		return a, false
	}
	copy(a[:], v)
	return a, true
}

func innerOf(m *dhcpv6.Message) v6chain.Inner {
	in := v6chain.Inner{Type: byte(m.MessageType), XID: [3]byte(m.TransactionID)}
	for _, o := range m.Options.Options {
		in.Opts = append(in.Opts, v6chain.Opt{Code: uint16(o.Code()), Val: append([]byte{}, o.ToBytes()...)})
	}
	return in
}

// walk reads a library value level by level through its exported fields and
// option accessors (it does not use GetInnerMessage / DecapsulateRelay*).
func walk(d dhcpv6.DHCPv6) (v6chain.Chain, error) {
	var rev []v6chain.Level
	for n := 0; n <= 64; n++ {
		switch x := d.(type) {
		case *dhcpv6.Message:
			if x == nil {
				return v6chain.Chain{}, fmt.Errorf("nil *Message at nesting %d", n)
			}
			c := v6chain.Chain{Inner: innerOf(x)}
			for i := len(rev) - 1; i >= 0; i-- {
				c.Levels = append(c.Levels, rev[i])
			}
			return c, nil
		case *dhcpv6.RelayMessage:
			if x == nil {
				return v6chain.Chain{}, fmt.Errorf("nil *RelayMessage at nesting %d", n)
			}
			l := v6chain.Level{Type: byte(x.MessageType), Hop: x.HopCount}
			var ok1, ok2 bool
			l.Link, ok1 = to16(x.LinkAddr)
			l.Peer, ok2 = to16(x.PeerAddr)
			if !ok1 || !ok2 {
				return v6chain.Chain{}, fmt.Errorf("relay at nesting %d has a link/peer address that is not an IP (%v, %v)", n, x.LinkAddr, x.PeerAddr)
			}
			if o := x.Options.GetOne(dhcpv6.OptionInterfaceID); o != nil {
				v := append([]byte{}, o.ToBytes()...)
				l.IID = &v
			}
			if o := x.Options.GetOne(dhcpv6.OptionRemoteID); o != nil {
				v := append([]byte{}, o.ToBytes()...)
				l.RID = &v
			}
			rev = append(rev, l)
			d = x.Options.RelayMessage()
			if d == nil {
				return v6chain.Chain{}, v6chain.ErrNoRelayMsg
			}
		default:
			return v6chain.Chain{}, fmt.Errorf("unexpected value %T at nesting %d", d, n)
		}
	}
	return v6chain.Chain{}, fmt.Errorf("deeper than 64")
}

// ---- reporting ---------------------------------------------------------------

type checker struct {
	c  *fw.Ctx
	mu sync.Mutex
	// smallest order reported per fingerprint: the expensive fields are only
	// rendered for a new minimum (fw keeps the smallest order per class)
	best map[string]int64

	unspecIndexBeyond atomic.Int64
	unspecIndexPlain  atomic.Int64
	unspecMixed       atomic.Int64
	unspecPDOnly      atomic.Int64
	nEdits            atomic.Int64
	editAllDepth      int
	outcomes          sync.Map
}

func (ck *checker) distinct(k string) {
	if _, loaded := ck.outcomes.LoadOrStore(k, true); !loaded {
		ck.c.Distinct(k)
	}
}

// report files a violation; detail() is evaluated only when this is the
// simplest case seen so far for its fingerprint.
func (ck *checker) report(fp string, order int64, scope string, detail func() fw.Violation) {
	ck.mu.Lock()
	b, ok := ck.best[fp]
	isBest := !ok || order < b
	if isBest {
		ck.best[fp] = order
	}
	ck.mu.Unlock()
	v := fw.Violation{Fingerprint: fp, Order: order, Scope: scope}
	if isBest {
		v = detail()
		v.Fingerprint, v.Order, v.Scope = fp, order, scope
	}
	ck.c.Report(v)
}

// kase is one case in one variant (as built / after the wire trip).
type kase struct {
	ck    *checker
	sp    spec
	order int64
	scope string
	wire  bool
	model v6chain.Chain
	raw   []byte // wire variant: the bytes the chain was parsed from
}

func (k *kase) variant() string {
	if k.wire {
		return "after-wire-trip"
	}
	return "as-built"
}

func (k *kase) fail(fp, observed, expected, explain string, body lazy) {
	if !strings.HasPrefix(fp, "relay-chain|") { // the amend-and-forward classes exist after the wire trip only
		fp += "|" + k.variant()
	}
	k.ck.report(fp, k.order, k.scope, func() fw.Violation {
		return fw.Violation{
			Input:    fmt.Sprintf("%s; %s; chain bytes %s", k.sp.String(), k.variant(), fw.Hex(fullModel(k.sp).Encode())),
			Observed: observed, Expected: expected, Explain: explain,
			GoTest: k.sp.goTest(k.wire, body()),
		}
	})
}

func (k *kase) panicked(entry string, pv any, st string, body lazy) {
	k.fail(entry+"|panic|"+fw.PanicSite(st), fmt.Sprintf("panic: %v at %s", pv, st), "a value or an error", "the call panicked", body)
}

// ---- building a chain ----------------------------------------------------------

// build constructs the chain with the library, step by step from the inner
// message, checking encapsulate/decapsulate at every step, and the model in
// parallel. dropAt >= 0 removes the relay-msg option of that level (used only by
// the rejection scope). Returns nil if building failed (already reported).
func (k *kase) build() (dhcpv6.DHCPv6, *dhcpv6.Message) {
	sp := k.sp
	dropAt := sp.dropP1 - 1
	k.model = v6chain.Chain{Inner: refInner(sp.ityp, sp.subset, sp.xid)}
	inner := libInner(sp.ityp, sp.subset, sp.xid)
	var cur dhcpv6.DHCPv6 = inner
	for lv := 0; lv < sp.depth(); lv++ {
		typ := sp.relayType(lv)
		la, pa := linkAddr(lv), peerAddr(lv)
		before := cur.ToBytes()
		var r *dhcpv6.RelayMessage
		var err error
		encBody := lit("\t// (the loop above already fails on this error)\n")
		if pv, st := fw.Safe(func() {
			r, err = dhcpv6.EncapsulateRelay(cur, dhcpv6.MessageType(typ), net.IP(append([]byte{}, la[:]...)), net.IP(append([]byte{}, pa[:]...)))
		}); pv != nil {
			k.panicked("EncapsulateRelay", pv, st, encBody)
			return nil, nil
		}
		if err != nil || r == nil {
			k.fail("EncapsulateRelay|rejects-relay-type", fmt.Sprintf("level %d: err=%v", lv, err), "a relay message",
				"EncapsulateRelay refused a RELAY-FORW / RELAY-REPL type", encBody)
			return nil, nil
		}
		var m2 v6chain.Chain
		m2, _ = v6chain.Encapsulate(k.model, typ, la, pa)
		want := m2.Levels[lv]
		if r.HopCount != want.Hop {
			k.fail("EncapsulateRelay|hop-count", fmt.Sprintf("relay around %d inner relay level(s) has hop count %d", lv, r.HopCount),
				fmt.Sprintf("hop count %d (innermost relay 0, one more per level)", want.Hop),
				"the hop count must grow by one per level", func() lazy {
					if sp.dropP1 > 0 {
						return lit("\tfor x := d; x != nil && x.IsRelay(); x = x.(*dhcpv6.RelayMessage).Options.RelayMessage() {\n\t\tt.Log(\"hop count\", x.(*dhcpv6.RelayMessage).HopCount) // expected: depth-1 down to 0\n\t}\n")
					}
					return bodyWantBytes(lit("d, error(nil)"), fullModel(sp).Encode())
				}())
		}
		if sp.opts[lv]&1 != 0 {
			r.AddOption(dhcpv6.OptInterfaceID(iidVal(lv)))
			v := iidVal(lv)
			m2.Levels[lv].IID = &v
		}
		if sp.opts[lv]&2 != 0 {
			r.UpdateOption(&dhcpv6.OptRemoteID{EnterpriseNumber: ridEnt(lv), RemoteID: ridID(lv)})
			v := ridVal(lv)
			m2.Levels[lv].RID = &v
		}
		// decapsulating returns the original
		var dd dhcpv6.DHCPv6
		decBody := bodyWantBytes(lit("dhcpv6.DecapsulateRelay(d) // on the chain cut after this level"), before)
		if pv, st := fw.Safe(func() { dd, err = dhcpv6.DecapsulateRelay(r) }); pv != nil {
			k.panicked("DecapsulateRelay", pv, st, decBody)
			return nil, nil
		}
		if err != nil || dd == nil {
			k.fail("DecapsulateRelay|error-after-encapsulate", fmt.Sprintf("level %d: value=%v err=%v", lv, dd, err), "the encapsulated message",
				"DecapsulateRelay(EncapsulateRelay(m)) must return m", decBody)
			return nil, nil
		}
		if got := dd.ToBytes(); !bytes.Equal(got, before) || dd.Type() != cur.Type() || dd.IsRelay() != cur.IsRelay() {
			k.fail("DecapsulateRelay|not-the-original", fmt.Sprintf("level %d: type %d relay=%v bytes %s", lv, dd.Type(), dd.IsRelay(), fw.HexShort(got)),
				fmt.Sprintf("type %d relay=%v bytes %s", cur.Type(), cur.IsRelay(), fw.HexShort(before)),
				"DecapsulateRelay(EncapsulateRelay(m)) must return m", decBody)
		}
		if lv == dropAt {
			r.Options.Del(dhcpv6.OptionRelayMsg)
		}
		k.model = m2
		cur = r
	}
	return cur, inner
}

// fullModel builds only the reference chain of a spec.
func fullModel(sp spec) v6chain.Chain {
	m := v6chain.Chain{Inner: refInner(sp.ityp, sp.subset, sp.xid)}
	for lv := 0; lv < sp.depth(); lv++ {
		m, _ = v6chain.Encapsulate(m, sp.relayType(lv), linkAddr(lv), peerAddr(lv))
		if sp.opts[lv]&1 != 0 {
			v := iidVal(lv)
			m.Levels[lv].IID = &v
		}
		if sp.opts[lv]&2 != 0 {
			v := ridVal(lv)
			m.Levels[lv].RID = &v
		}
	}
	return m
}

// ---- observers on a chain ------------------------------------------------------

// structure compares the chain as the library holds it and as it serialises it
// with the model.
func (k *kase) structure(d dhcpv6.DHCPv6) bool {
	wantBytes := k.model.Encode()
	body := bodyWantBytes(lit("d, error(nil)"), wantBytes)
	var got v6chain.Chain
	var werr error
	var raw []byte
	if pv, st := fw.Safe(func() { got, werr = walk(d); raw = d.ToBytes() }); pv != nil {
		k.panicked("RelayMessage.ToBytes", pv, st, body)
		return false
	}
	ok := true
	if werr != nil {
		k.fail("chain-fields|unreadable", werr.Error(), "a relay chain of depth "+fmt.Sprint(k.model.Depth()), "the chain cannot be walked through its exported fields", body)
		ok = false
	} else if f, det := v6chain.Diff(got, k.model); f != "" {
		k.fail("chain-fields|"+f, det, "the list-of-levels model", "a field of the chain differs from the model (hop count = level index, per-level addresses and options, inner message)", body)
		ok = false
	}
	if !ok {
		return false
	}
	dec, derr := v6chain.Decode(raw)
	if derr != nil {
		k.fail("chain-bytes|undecodable", derr.Error()+" in "+fw.HexShort(raw), fw.HexShort(wantBytes), "the serialised chain is not a well-formed RFC 8415 relay chain", body)
		return false
	}
	if f, det := v6chain.Diff(dec, k.model); f != "" {
		k.fail("chain-bytes|"+f, det+"; bytes "+fw.HexShort(raw), fw.HexShort(wantBytes), "the serialised chain read by the reference decoder differs from the model", body)
		ok = false
	}
	return ok
}

func (k *kase) getInner(d dhcpv6.DHCPv6, entry string, want []byte, wantType byte, wantXID [3]byte, body lazy) bool {
	var m *dhcpv6.Message
	var err error
	if pv, st := fw.Safe(func() { m, err = d.GetInnerMessage() }); pv != nil {
		k.panicked(entry, pv, st, body)
		return false
	}
	if err != nil || m == nil {
		k.fail(entry+"|not-found", fmt.Sprintf("message=%v err=%v (depth %d)", m, err, k.model.Depth()), "the inner message "+fw.HexShort(want),
			"the innermost message of a relay chain must be found whatever the depth", body)
		return false
	}
	var got []byte
	if pv, st := fw.Safe(func() { got = m.ToBytes() }); pv != nil {
		k.panicked(entry, pv, st, body)
		return false
	}
	if !bytes.Equal(got, want) || byte(m.MessageType) != wantType || [3]byte(m.TransactionID) != wantXID {
		k.fail(entry+"|wrong-message", fmt.Sprintf("type %d xid %x bytes %s", m.MessageType, m.TransactionID, fw.HexShort(got)),
			fmt.Sprintf("type %d xid %x bytes %s", wantType, wantXID, fw.HexShort(want)),
			"GetInnerMessage must return the innermost message", body)
		return false
	}
	return true
}

func (k *kase) index(d dhcpv6.DHCPv6) {
	depth := k.model.Depth()
	sub := k.model.EncodeAll()
	for i := -3; i <= depth+2; i++ {
		wantLevels, verdict := k.model.IndexLevels(i)
		call := lazy(func() string { return fmt.Sprintf("dhcpv6.DecapsulateRelayIndex(d, %d)", i) })
		var x dhcpv6.DHCPv6
		var err error
		if pv, st := fw.Safe(func() { x, err = dhcpv6.DecapsulateRelayIndex(d, i) }); pv != nil {
			k.panicked("DecapsulateRelayIndex", pv, st, bodyWantErr(call))
			continue
		}
		cls := "index>=0"
		if i == -1 {
			cls = "index=-1"
		} else if i < -1 {
			cls = "index<-1"
		}
		switch verdict {
		case v6chain.Reject:
			if err == nil {
				k.fail("DecapsulateRelayIndex|accepts|"+cls, fmt.Sprintf("index %d: value %v, no error", i, x), "an error", "an index below -1 is invalid", bodyWantErr(call))
			}
		case v6chain.Accept:
			wb := sub[wantLevels]
			body := bodyWantBytes(call, wb)
			if err != nil || x == nil {
				k.fail("DecapsulateRelayIndex|error|"+cls, fmt.Sprintf("index %d on depth %d: value=%v err=%v", i, depth, x, err), fw.HexShort(wb),
					"index i = i+1 decapsulations (0 removes the outermost header), -1 = the innermost relay", body)
				continue
			}
			var got []byte
			if pv, st := fw.Safe(func() { got = x.ToBytes() }); pv != nil {
				k.panicked("DecapsulateRelayIndex", pv, st, body)
				continue
			}
			if !bytes.Equal(got, wb) || x.IsRelay() != (wantLevels > 0) {
				k.fail("DecapsulateRelayIndex|wrong-level|"+cls, fmt.Sprintf("index %d on depth %d: relay=%v bytes %s", i, depth, x.IsRelay(), fw.HexShort(got)),
					fmt.Sprintf("relay=%v bytes %s (the chain with %d level(s) left)", wantLevels > 0, fw.HexShort(wb), wantLevels),
					"index i = i+1 decapsulations (0 removes the outermost header), -1 = the innermost relay", body)
			}
		default:
			out := "error"
			if err == nil {
				out = "value"
			}
			if depth == 0 {
				k.ck.unspecIndexPlain.Add(1)
				k.ck.distinct("DecapsulateRelayIndex(plain message, index<-1): " + out)
			} else {
				k.ck.unspecIndexBeyond.Add(1)
				k.ck.distinct("DecapsulateRelayIndex(index>=depth): " + out)
			}
		}
	}
}

// replyFor is the reply handed to NewRelayReplFromRelayForw: a REPLY with the
// inner message's transaction id, a server id, and the inner client id if any.
func replyFor(sp spec) (*dhcpv6.Message, v6chain.Inner) {
	ref := v6chain.Inner{Type: v6chain.Reply, XID: sp.xid}
	ref.Opts = append(ref.Opts, v6chain.Opt{Code: v6chain.OptServerID, Val: []byte{0, 3, 0, 1, 0x02, 0x5e, 0x53, sp.ityp, byte(sp.subset), byte(sp.depth())}})
	m := &dhcpv6.Message{MessageType: dhcpv6.MessageTypeReply, TransactionID: dhcpv6.TransactionID(sp.xid)}
	m.AddOption(dhcpv6.OptServerID(&dhcpv6.DUIDLL{HWType: iana.HWTypeEthernet, LinkLayerAddr: net.HardwareAddr{0x02, 0x5e, 0x53, sp.ityp, byte(sp.subset), byte(sp.depth())}}))
	if sp.subset&1 != 0 {
		ref.Opts = append(ref.Opts, v6chain.Opt{Code: v6chain.OptClientID, Val: append([]byte{0, 3, 0, 1}, cidMAC(sp.ityp, sp.subset)...)})
		m.AddOption(dhcpv6.OptClientID(&dhcpv6.DUIDLL{HWType: iana.HWTypeEthernet, LinkLayerAddr: net.HardwareAddr(cidMAC(sp.ityp, sp.subset))}))
	}
	return m, ref
}

func (k *kase) relayRepl(d dhcpv6.DHCPv6) {
	rm, ok := d.(*dhcpv6.RelayMessage)
	if !ok {
		return
	}
	reply, refReply := replyFor(k.sp)
	replyBytes := refReply.Encode()
	want, verdict := k.model.ReplyChain(refReply)
	call := lazy(func() string {
		return fmt.Sprintf("dhcpv6.NewRelayReplFromRelayForw(d.(*dhcpv6.RelayMessage), func() *dhcpv6.Message { b, _ := hex.DecodeString(%q); m, _ := dhcpv6.MessageFromBytes(b); return m }())", fw.Hex(replyBytes))
	})
	var res dhcpv6.DHCPv6
	var err error
	if pv, st := fw.Safe(func() { res, err = dhcpv6.NewRelayReplFromRelayForw(rm, reply) }); pv != nil {
		k.panicked("NewRelayReplFromRelayForw", pv, st, bodyWantErr(call))
		return
	}
	if verdict == v6chain.Reject {
		if err == nil {
			k.fail("NewRelayReplFromRelayForw|accepts|outermost-not-RELAY-FORW", fmt.Sprintf("no error, result %v", res), "an error",
				"a relay-reply is built from a relay-forward; the outermost message is a RELAY-REPL", bodyWantErr(call))
		}
		return
	}
	if verdict == v6chain.Unspecified {
		k.ck.unspecMixed.Add(1)
		if err != nil {
			k.ck.distinct("NewRelayReplFromRelayForw(outermost RELAY-FORW, a deeper level RELAY-REPL): error")
			return
		}
		k.ck.distinct("NewRelayReplFromRelayForw(outermost RELAY-FORW, a deeper level RELAY-REPL): value")
	}
	wb := want.Encode()
	body := lazy(func() string {
		return bodyWantBytes(call, wb)() + "\t// (expected bytes assume the option order relay-msg, interface-id, remote-id; the check itself compares field by field)\n"
	})
	if err != nil || res == nil {
		k.fail("NewRelayReplFromRelayForw|rejects-relay-forward-chain", fmt.Sprintf("value=%v err=%v", res, err), "a relay-reply chain of depth "+fmt.Sprint(want.Depth()),
			"every level is RELAY-FORW with an embedded message and the reply is not nil", body)
		return
	}
	// the result as held, as serialised, and after a wire trip
	saved := k.model
	k.model = want
	defer func() { k.model = saved }()
	// check returns false once a difference has been reported, so that one defect
	// is filed under one class (the earliest stage that shows it)
	check := func(stage string, x dhcpv6.DHCPv6) bool {
		var got v6chain.Chain
		var werr error
		var raw []byte
		if pv, st := fw.Safe(func() { got, werr = walk(x); raw = x.ToBytes() }); pv != nil {
			k.panicked("NewRelayReplFromRelayForw", pv, st, body)
			return false
		}
		if werr != nil {
			k.fail("NewRelayReplFromRelayForw|result-unreadable|"+stage, werr.Error(), "a relay-reply chain of depth "+fmt.Sprint(want.Depth()), "the result cannot be walked", body)
			return false
		}
		if f, det := v6chain.DiffLevels(got, want); f != "" {
			k.fail("NewRelayReplFromRelayForw|"+f+"|"+stage, det, "same depth; every level RELAY-REPL with that level's link, peer, hop count, interface-id, remote-id",
				"the relay-reply chain must mirror the relay-forward chain level by level", body)
			return false
		}
		if f, det := v6chain.DiffInner(got.Inner, want.Inner); f != "" {
			k.fail("NewRelayReplFromRelayForw|reply-not-innermost|"+stage, det, "the given reply "+fw.HexShort(replyBytes), "the relay-reply chain must carry the given reply innermost", body)
			return false
		}
		dec, derr := v6chain.Decode(raw)
		if derr != nil {
			k.fail("NewRelayReplFromRelayForw|bytes-undecodable|"+stage, derr.Error()+" in "+fw.HexShort(raw), fw.HexShort(wb), "the serialised relay-reply is not a well-formed relay chain", body)
			return false
		}
		if f, det := v6chain.Diff(dec, want); f != "" {
			k.fail("NewRelayReplFromRelayForw|bytes:"+f+"|"+stage, det+"; bytes "+fw.HexShort(raw), fw.HexShort(wb), "the serialised relay-reply read by the reference decoder differs from the model", body)
			return false
		}
		return k.getInner(x, "NewRelayReplFromRelayForw+GetInnerMessage("+stage+")", replyBytes, v6chain.Reply, k.sp.xid, body)
	}
	if !check("result", res) {
		return
	}
	var raw []byte
	if pv, _ := fw.Safe(func() { raw = res.ToBytes() }); pv != nil {
		return // reported by check
	}
	var back dhcpv6.DHCPv6
	if pv, st := fw.Safe(func() { back, err = dhcpv6.FromBytes(append([]byte{}, raw...)) }); pv != nil {
		k.panicked("FromBytes", pv, st, body)
		return
	}
	if err != nil || back == nil {
		k.fail("NewRelayReplFromRelayForw|result-does-not-parse", fmt.Sprintf("FromBytes(%s): %v", fw.HexShort(raw), err), "a relay chain", "the built relay-reply must survive a wire trip", body)
		return
	}
	check("result-after-wire-trip", back)
}

// observe runs every observer of the chain scope on d.
func (k *kase) observe(d dhcpv6.DHCPv6) bool {
	if !k.structure(d) {
		return false // the chain itself is already wrong; the observers would only repeat it
	}
	innerBytes := k.model.Inner.Encode()
	k.getInner(d, "GetInnerMessage", innerBytes, k.model.Inner.Type, k.model.Inner.XID,
		bodyWantBytes(lit("d.GetInnerMessage()"), innerBytes))
	k.index(d)
	k.relayRepl(d)
	return true
}

func (k *kase) wireTrip(d dhcpv6.DHCPv6) dhcpv6.DHCPv6 {
	body := bodyWantBytes(lit("d, error(nil)"), k.model.Encode())
	var raw []byte
	if pv, st := fw.Safe(func() { raw = d.ToBytes() }); pv != nil {
		k.panicked("ToBytes", pv, st, body)
		return nil
	}
	var back dhcpv6.DHCPv6
	var err error
	if pv, st := fw.Safe(func() { back, err = dhcpv6.FromBytes(append([]byte{}, raw...)) }); pv != nil {
		k.panicked("FromBytes", pv, st, body)
		return nil
	}
	if err != nil || back == nil {
		k.fail("FromBytes|rejects-built-chain", fmt.Sprintf("FromBytes(%s): %v", fw.HexShort(raw), err), "the chain", "a chain built with EncapsulateRelay must survive a wire trip", body)
		return nil
	}
	k.raw = raw
	return back
}

// ---- amend a received chain and forward it -----------------------------------------

const editOptCode = 65001 // unassigned option code used as the marker added to the inner message

func editMarker(sp spec) []byte {
	return []byte{'c', '1', '6', '-', 'e', 'd', 'i', 't', byte(sp.depth()), sp.ityp}
}
func editIID(lv int) []byte { return []byte{'n', 'e', 'w', '-', 'i', 'f', byte(lv), 0x5a} }

// levelAt returns the relay header `lv` (0 = innermost) of a chain of the given
// depth, walking down from the outermost through the exported accessor.
func levelAt(d dhcpv6.DHCPv6, depth, lv int) *dhcpv6.RelayMessage {
	r, _ := d.(*dhcpv6.RelayMessage)
	for i := depth - 1; i > lv && r != nil; i-- {
		r, _ = r.Options.RelayMessage().(*dhcpv6.RelayMessage)
	}
	return r
}

// edits: the chain as received (parsed from k.raw) is amended in place and
// serialised again, as a relay or server does before forwarding. (a) an option
// is added to the innermost message obtained with GetInnerMessage; (b) for every
// level in turn the interface-id is set with UpdateOption. Each edit is made on a
// freshly parsed chain. The bytes written afterwards, read by the reference
// decoder and by the library, must be the model with the same edit applied.
func (k *kase) edits() {
	depth := k.model.Depth()
	for e := -1; e < depth; e++ { // -1 = inner message, otherwise the level
		lv := e
		place := "level"
		want := k.model.Clone()
		var goEdit, goCheck string
		if lv < 0 {
			place = "inner"
			want.Inner.Opts = append(want.Inner.Opts, v6chain.Opt{Code: editOptCode, Val: editMarker(k.sp)})
		} else {
			v := editIID(lv)
			want.Levels[lv].IID = &v
		}
		body := lazy(func() string {
			if lv < 0 {
				goEdit = fmt.Sprintf("\tm, err := d.GetInnerMessage()\n\tif err != nil {\n\t\tt.Fatal(err)\n\t}\n\tm.AddOption(&dhcpv6.OptionGeneric{OptionCode: %d, OptionData: []byte(%q)}) // amend the received chain in place\n", editOptCode, editMarker(k.sp))
				goCheck = fmt.Sprintf("\tm2, err := d2.GetInnerMessage()\n\tif err != nil || m2.GetOneOption(%d) == nil {\n\t\tt.Fatalf(\"the option added to the inner message is not on the wire: %%v err=%%v\", m2, err)\n\t}\n", editOptCode)
			} else {
				walk := fmt.Sprintf("\tfor i := 0; i < %d; i++ { // down to level %d (0 = innermost)\n\t\t%%s = %%s.Options.RelayMessage().(*dhcpv6.RelayMessage)\n\t}\n", depth-1-lv, lv)
				goEdit = "\tlv := d.(*dhcpv6.RelayMessage)\n" + fmt.Sprintf(walk, "lv", "lv") + fmt.Sprintf("\tlv.UpdateOption(dhcpv6.OptInterfaceID([]byte(%q))) // amend the received chain in place\n", editIID(lv))
				goCheck = "\tlv2 := d2.(*dhcpv6.RelayMessage)\n" + fmt.Sprintf(walk, "lv2", "lv2") + fmt.Sprintf("\tif got := lv2.Options.InterfaceID(); string(got) != %q {\n\t\tt.Fatalf(\"interface-id on the wire is %%q, the edit is lost\", got)\n\t}\n", editIID(lv))
			}
			return goEdit + "\td2, err := dhcpv6.FromBytes(d.ToBytes()) // forward it\n\tif err != nil {\n\t\tt.Fatal(err)\n\t}\n" + goCheck
		})
		k.ck.nEdits.Add(1)
		var w dhcpv6.DHCPv6
		var err error
		var raw2 []byte
		if pv, st := fw.Safe(func() {
			w, err = dhcpv6.FromBytes(append([]byte{}, k.raw...))
			if err != nil {
				return
			}
			if lv < 0 {
				var m *dhcpv6.Message
				if m, err = w.GetInnerMessage(); err != nil {
					return
				}
				m.AddOption(&dhcpv6.OptionGeneric{OptionCode: editOptCode, OptionData: editMarker(k.sp)})
			} else {
				r := levelAt(w, depth, lv)
				if r == nil {
					err = fmt.Errorf("level %d not reachable through Options.RelayMessage()", lv)
					return
				}
				r.UpdateOption(dhcpv6.OptInterfaceID(editIID(lv)))
			}
			raw2 = w.ToBytes()
		}); pv != nil {
			k.panicked("relay-chain|edit-after-decode", pv, st, body)
			continue
		}
		if err != nil {
			continue // parsing / GetInnerMessage on this chain is checked (and reported) by the other observers
		}
		wantBytes := want.Encode()
		report := func(how string, got v6chain.Chain, field, det string) {
			if f0, _ := v6chain.Diff(got, k.model); f0 == "" {
				k.fail("relay-chain|edit-after-decode-lost-on-wire|"+place, det+"; "+how+" shows the chain exactly as it was received; bytes "+fw.HexShort(raw2),
					"the received chain with the edit applied, e.g. "+fw.HexShort(wantBytes),
					"a chain that was parsed, amended in place and serialised again must carry the amendment on the wire", body)
				return
			}
			k.fail("relay-chain|edit-after-decode-wrong-on-wire|"+place+"|"+field, det+" ("+how+"); bytes "+fw.HexShort(raw2),
				"the received chain with the edit applied, e.g. "+fw.HexShort(wantBytes),
				"a chain that was parsed, amended in place and serialised again must differ from the received one by exactly the amendment", body)
		}
		dec, derr := v6chain.Decode(raw2)
		if derr != nil {
			k.fail("relay-chain|edit-after-decode-undecodable|"+place, derr.Error()+" in "+fw.HexShort(raw2), fw.HexShort(wantBytes), "the amended chain does not serialise to a well-formed relay chain", body)
			continue
		}
		if f, det := v6chain.Diff(dec, want); f != "" {
			report("the reference decoder", dec, f, det)
			continue
		}
		var w2 dhcpv6.DHCPv6
		var got v6chain.Chain
		var werr error
		if pv, st := fw.Safe(func() {
			if w2, err = dhcpv6.FromBytes(append([]byte{}, raw2...)); err == nil {
				got, werr = walk(w2)
			}
		}); pv != nil {
			k.panicked("relay-chain|edit-after-decode", pv, st, body)
			continue
		}
		if err != nil || werr != nil {
			k.fail("relay-chain|edit-after-decode-does-not-parse|"+place, fmt.Sprintf("FromBytes(%s): %v %v", fw.HexShort(raw2), err, werr), "the amended chain", "the amended chain must survive the next wire trip", body)
			continue
		}
		if f, det := v6chain.Diff(got, want); f != "" {
			report("the library's own decoding of the forwarded bytes", got, f, det)
			continue
		}
		ib := want.Inner.Encode()
		k.getInner(w2, "relay-chain|edit-after-decode+GetInnerMessage("+place+")", ib, want.Inner.Type, want.Inner.XID, body)
	}
}

// replacePayload: the innermost message is looked up (anything a lookup might remember is now
// remembered), then the payload carried by level lv is replaced by another message with
// UpdateOption(OptRelayMessage(..)), and the innermost message is looked up again - through
// GetInnerMessage, GetTransactionID, level-by-level decapsulation and after a wire trip. All four
// must name the new message: "the innermost message of any relay chain is found whatever its depth".
func (k *kase) replacePayload() {
	depth := k.model.Depth()
	for lv := 0; lv < depth; lv++ {
		lv := lv
		newXID := [3]byte{0xab, 0xcd, byte(lv)}
		want := k.model.Clone()
		want.Levels = want.Levels[lv:]
		want.Inner = v6chain.Inner{Type: 7, XID: newXID}
		body := lazy(func() string {
			return fmt.Sprintf("\t_, _ = d.GetInnerMessage() // first lookup\n\tlv := d.(*dhcpv6.RelayMessage)\n\tfor i := 0; i < %d; i++ { // down to level %d (0 = innermost)\n\t\tlv = lv.Options.RelayMessage().(*dhcpv6.RelayMessage)\n\t}\n"+
				"\tlv.UpdateOption(dhcpv6.OptRelayMessage(&dhcpv6.Message{MessageType: dhcpv6.MessageTypeReply, TransactionID: dhcpv6.TransactionID{0xab, 0xcd, %d}}))\n"+
				"\tm, err := d.GetInnerMessage()\n\tif err != nil || m.TransactionID != (dhcpv6.TransactionID{0xab, 0xcd, %d}) {\n\t\tt.Fatalf(\"innermost message after the payload was replaced: %%v err=%%v\", m, err)\n\t}\n",
				depth-1-lv, lv, lv, lv)
		})
		k.ck.nEdits.Add(1)
		var w dhcpv6.DHCPv6
		var err error
		var raw2 []byte
		var in1 *dhcpv6.Message
		var xid1 dhcpv6.TransactionID
		var err1, errx error
		var viaDecap dhcpv6.DHCPv6
		if pv, st := fw.Safe(func() {
			w, err = dhcpv6.FromBytes(append([]byte{}, k.raw...))
			if err != nil {
				return
			}
			_, _ = w.GetInnerMessage()
			_, _ = dhcpv6.GetTransactionID(w)
			_ = w.Summary()
			r := levelAt(w, depth, lv)
			if r == nil {
				err = fmt.Errorf("level not reachable")
				return
			}
			r.UpdateOption(dhcpv6.OptRelayMessage(&dhcpv6.Message{MessageType: dhcpv6.MessageTypeReply, TransactionID: dhcpv6.TransactionID(newXID)}))
			in1, err1 = w.GetInnerMessage()
			xid1, errx = dhcpv6.GetTransactionID(w)
			viaDecap = w
			for i := 0; i < depth-lv && viaDecap != nil; i++ {
				viaDecap, _ = dhcpv6.DecapsulateRelay(viaDecap)
			}
			raw2 = w.ToBytes()
		}); pv != nil {
			k.panicked("relay-chain|payload-replaced", pv, st, body)
			continue
		}
		if err != nil {
			continue
		}
		if err1 != nil || in1 == nil || [3]byte(in1.TransactionID) != newXID || in1.MessageType != dhcpv6.MessageTypeReply {
			k.fail("relay-chain|payload-replaced|GetInnerMessage-names-the-old-message", fmt.Sprintf("GetInnerMessage() = %v, err=%v", in1, err1), fmt.Sprintf("the REPLY with transaction id %x now carried by level %d", newXID, lv),
				"after the payload of a level was replaced the innermost message of the chain is the new one", body)
			continue
		}
		if errx != nil || [3]byte(xid1) != newXID {
			k.fail("relay-chain|payload-replaced|GetTransactionID-names-the-old-message", fmt.Sprintf("GetTransactionID() = %x, err=%v", xid1[:], errx), fmt.Sprintf("%x", newXID),
				"after the payload of a level was replaced the chain's transaction id is the new message's", body)
			continue
		}
		if m, ok := viaDecap.(*dhcpv6.Message); !ok || [3]byte(m.TransactionID) != newXID {
			k.fail("relay-chain|payload-replaced|decapsulation-names-the-old-message", fmt.Sprintf("decapsulating %d times gives %v", depth-lv, viaDecap), fmt.Sprintf("the REPLY with transaction id %x", newXID),
				"level-by-level decapsulation must reach the new innermost message", body)
			continue
		}
		dec, derr := v6chain.Decode(raw2)
		if derr != nil {
			k.fail("relay-chain|payload-replaced|undecodable", derr.Error()+" in "+fw.HexShort(raw2), fw.HexShort(want.Encode()), "the chain with a replaced payload does not serialise to a well-formed relay chain", body)
			continue
		}
		if f, det := v6chain.Diff(dec, want); f != "" {
			k.fail("relay-chain|payload-replaced|wrong-on-wire|"+f, det+"; bytes "+fw.HexShort(raw2), fw.HexShort(want.Encode()),
				"the serialised chain carries the levels above the replaced payload unchanged and the new message innermost", body)
		}
	}
}

// runChain is one (shape, type pattern, inner message) case: as built and after
// the wire trip.
func (ck *checker) runChain(order int64, sp spec) {
	k := &kase{ck: ck, sp: sp, order: order, scope: "a:relay-chains"}
	d, _ := k.build()
	if d == nil {
		return
	}
	k.observe(d)
	kw := &kase{ck: ck, sp: sp, order: order, scope: "a:relay-chains", wire: true, model: k.model}
	if w := kw.wireTrip(d); w != nil {
		// the amend-and-forward clause costs O(depth) wire trips per case: every
		// inner message for all-RELAY-FORW chains up to editAllDepth; for the other
		// type patterns and for deeper chains the 22 inner messages with no option
		// and with every option (the clause does not look at types or inner options)
		if kw.observe(w) && ((sp.pat == 0 && sp.depth() <= ck.editAllDepth) || sp.subset == 0 || sp.subset == nSubsets-1) {
			kw.edits()
			kw.replacePayload()
		}
	}
}

// ---- builders ----------------------------------------------------------------------

type builder struct {
	name string
	rule func(v6chain.Inner) (v6chain.Expect, v6chain.Verdict, string)
	call func(*dhcpv6.Message) (*dhcpv6.Message, error)
}

var builders = []builder{
	{"NewAdvertiseFromSolicit", v6chain.AdvertiseFromSolicit, func(m *dhcpv6.Message) (*dhcpv6.Message, error) { return dhcpv6.NewAdvertiseFromSolicit(m) }},
	{"NewRequestFromAdvertise", v6chain.RequestFromAdvertise, func(m *dhcpv6.Message) (*dhcpv6.Message, error) { return dhcpv6.NewRequestFromAdvertise(m) }},
	{"NewReplyFromMessage", v6chain.ReplyFromMessage, func(m *dhcpv6.Message) (*dhcpv6.Message, error) { return dhcpv6.NewReplyFromMessage(m) }},
}

func typeName(t byte) string { return dhcpv6.MessageType(t).String() }

func (k *kase) runBuilders(m *dhcpv6.Message) {
	in := k.model.Inner
	for _, b := range builders {
		exp, verdict, reason := b.rule(in)
		call := lit("dhcpv6." + b.name + "(inner)")
		var res *dhcpv6.Message
		var err error
		if pv, st := fw.Safe(func() { res, err = b.call(m) }); pv != nil {
			k.panicked(b.name, pv, st, bodyWantErr(call))
			continue
		}
		switch verdict {
		case v6chain.Reject:
			if err == nil {
				k.fail(b.name+"|accepts|"+reason, fmt.Sprintf("no error for a %s with %s; result %v", typeName(in.Type), subsetString(k.sp.subset), res), "an error ("+reason+")",
					"the builder must reject inputs of the wrong message type or lacking the options it has to echo", bodyWantErr(call))
			}
			continue
		case v6chain.Unspecified:
			k.ck.unspecPDOnly.Add(1)
			if err != nil {
				k.ck.distinct(b.name + "(" + reason + "): error")
				continue
			}
			k.ck.distinct(b.name + "(" + reason + "): value")
		}
		body := lazy(func() string {
			return fmt.Sprintf("\tx, err := %s\n\tif err != nil {\n\t\tt.Fatal(err)\n\t}\n\tt.Logf(\"result %%s\", x.Summary()) // expected: type %d, %s, first instance of the echoed options byte-equal to the input's\n",
				call(), exp.Type, map[bool]string{true: "the input's transaction id", false: "any transaction id"}[exp.KeepXID])
		})
		if err != nil || res == nil {
			k.fail(b.name+"|rejects-valid-input|"+typeName(in.Type), fmt.Sprintf("value=%v err=%v", res, err), "a "+typeName(exp.Type),
				"the input has the right type and carries every option the builder echoes", body)
			continue
		}
		stageCheck := func(stage string, x *dhcpv6.Message) bool {
			var raw []byte
			var held v6chain.Inner
			if pv, st := fw.Safe(func() { raw = x.ToBytes(); held = innerOf(x) }); pv != nil {
				k.panicked(b.name, pv, st, body)
				return false
			}
			if f, det := v6chain.CheckResult(held, in, exp); f != "" {
				k.fail(b.name+"|"+f+"|"+stage, det+"; result "+fw.HexShort(raw), "type, transaction id and echoed options as the statement says", "builder result (exported fields) differs from the reference rule", body)
				return false
			}
			dec, derr := v6chain.Decode(raw)
			if derr != nil || dec.Depth() != 0 {
				k.fail(b.name+"|bytes-undecodable|"+stage, fmt.Sprintf("%v in %s", derr, fw.HexShort(raw)), "a plain message", "the serialised builder result is not a well-formed message", body)
				return false
			}
			if f, det := v6chain.CheckResult(dec.Inner, in, exp); f != "" {
				k.fail(b.name+"|bytes:"+f+"|"+stage, det+"; result "+fw.HexShort(raw), "type, transaction id and echoed options as the statement says", "builder result (as serialised) differs from the reference rule", body)
				return false
			}
			return true
		}
		if !stageCheck("result", res) {
			continue
		}
		var raw []byte
		if pv, _ := fw.Safe(func() { raw = res.ToBytes() }); pv != nil {
			continue
		}
		var back *dhcpv6.Message
		if pv, st := fw.Safe(func() { back, err = dhcpv6.MessageFromBytes(append([]byte{}, raw...)) }); pv != nil {
			k.panicked("MessageFromBytes", pv, st, body)
			continue
		}
		if err != nil || back == nil {
			k.fail(b.name+"|result-does-not-parse", fmt.Sprintf("MessageFromBytes(%s): %v", fw.HexShort(raw), err), "the message", "the builder result must survive a wire trip", body)
			continue
		}
		stageCheck("result-after-wire-trip", back)
	}
}

// runPlain is one inner message on its own: the three builders and the
// "not a relay" behaviour of the relay functions, as built and after the wire trip.
func (ck *checker) runPlain(order int64, sp spec) {
	k := &kase{ck: ck, sp: sp, order: order, scope: "b:builders"}
	d, m := k.build()
	if d == nil {
		return
	}
	for _, wire := range []bool{false, true} {
		kk := &kase{ck: ck, sp: sp, order: order, scope: "b:builders", wire: wire, model: k.model}
		mm := m
		if wire {
			w := kk.wireTrip(m)
			if w == nil {
				continue
			}
			var ok bool
			if mm, ok = w.(*dhcpv6.Message); !ok {
				kk.fail("FromBytes|plain-message-became-relay", fmt.Sprintf("%T", w), "*dhcpv6.Message", "a plain message must parse as a plain message", lit(""))
				continue
			}
		}
		if !kk.structure(mm) {
			continue
		}
		ib := kk.model.Inner.Encode()
		kk.getInner(mm, "GetInnerMessage", ib, sp.ityp, sp.xid, bodyWantBytes(lit("d.GetInnerMessage()"), ib))
		kk.index(mm) // a plain message is returned as it is
		var dd dhcpv6.DHCPv6
		var err error
		body := bodyWantBytes(lit("dhcpv6.DecapsulateRelay(d)"), ib)
		if pv, st := fw.Safe(func() { dd, err = dhcpv6.DecapsulateRelay(mm) }); pv != nil {
			kk.panicked("DecapsulateRelay", pv, st, body)
		} else if err != nil || dd == nil || !bytes.Equal(dd.ToBytes(), ib) {
			kk.fail("DecapsulateRelay|plain-message-not-returned", fmt.Sprintf("value=%v err=%v", dd, err), "the message itself", "DecapsulateRelay returns a packet that is not a relay message unchanged", body)
		}
		kk.runBuilders(mm)
	}
}

// ---- Run -------------------------------------------------------------------------------

func shapes(fullDepth int) [][]byte {
	var out [][]byte
	for d := 1; d <= maxDepth; d++ {
		if d <= fullDepth {
			n := 1 << (2 * d)
			for i := 0; i < n; i++ {
				s := make([]byte, d)
				for k := 0; k < d; k++ {
					s[k] = byte(i>>(2*k)) & 3
				}
				out = append(out, s)
			}
			continue
		}
		for r := 0; r < 4; r++ { // rotating pattern: every level sees every subset once
			s := make([]byte, d)
			for k := 0; k < d; k++ {
				s[k] = byte((k + r) % 4)
			}
			out = append(out, s)
		}
	}
	return out
}

func innerOfIndex(i int) (byte, int) { return byte(i%nTypes) + 1, i / nTypes }

func xidOf(i int64) [3]byte { return [3]byte{0xc1 ^ byte(i>>16), byte(i >> 8), byte(i)} }

func Run(c *fw.Ctx) {
	// The live heap is a few MB while every case allocates many short-lived
	// buffers, so the default pacing spends half the run in GC cycles. Only the
	// pacing changes; nothing that is checked depends on it.
	defer debug.SetGCPercent(debug.SetGCPercent(1600))
	c.SetRule("cases are enumerated injectively: (chain shape = depth + per-level {interface-id, remote-id} subset) x relay type pattern x inner message (type x option subset); " +
		"non-trivial = the chain was built with EncapsulateRelay and actually compared with the list-of-levels model (fields, bytes, GetInnerMessage, every DecapsulateRelayIndex, NewRelayReplFromRelayForw), " +
		"as built and after ToBytes/FromBytes; duplicates (type patterns 2,3 at depth 1) are skipped and not counted; builder scope: one case per inner message, counted non-trivial when at least one builder accepted it and its result was compared")
	ck := &checker{c: c, best: map[string]int64{}}
	fullDepth := 3
	if c.Thorough() {
		fullDepth = 5
	}
	ck.editAllDepth = 3
	if c.Thorough() {
		ck.editAllDepth = 4
	}
	sh := shapes(fullDepth)
	perShape := int64(nPat * nInner)
	total := int64(len(sh)) * perShape

	// (a) relay chains
	var sampled atomic.Int64
	c.Range(total, func(i int64) {
		s := sh[i/perShape]
		pat := int((i / nInner) % nPat)
		if len(s) == 1 && pat >= 2 {
			return // identical to patterns 0 / 1 at depth 1
		}
		t, sub := innerOfIndex(int(i % nInner))
		sp := spec{opts: s, pat: pat, ityp: t, subset: sub, xid: xidOf(i)}
		ck.runChain(i, sp)
		c.Nontrivial(1)
		if i%200003 == 11 && sampled.Add(1) <= 6 {
			c.Sample(map[string]any{"scope": "a", "case": sp.String(), "chain": fw.Hex(fullModel(sp).Encode())})
		}
	})
	c.Scope("a:relay-chains",
		"depths", "every depth 1..16",
		"per_level_option_subsets", fmt.Sprintf("all 4^d subsets of {interface-id, remote-id} per level for d <= %d; 4 rotations of the pattern (level+r) mod 4 for deeper chains", fullDepth),
		"shapes", len(sh),
		"relay_type_patterns", strings.Join(patNames, " | "),
		"addresses", "link 2001:db8::<level+1>:1, peer fe80::<level+1>:2 (distinct per level)",
		"inner_messages", "message types 1..11 x all 64 subsets of {client-id, server-id, IA_NA, IA_PD, rapid-commit, vendor-class} = 704",
		"variants", "as built with EncapsulateRelay + AddOption/UpdateOption, and after ToBytes/FromBytes",
		"skipped_duplicates", "type patterns 2 and 3 at depth 1 (identical to 0 and 1): 4 shapes x 2 x 704 = 5632 indices, not counted as non-trivial",
		"observers", "exported fields, ToBytes via reference decoder, DecapsulateRelay after every EncapsulateRelay, GetInnerMessage, DecapsulateRelayIndex for every index -3..depth+2, NewRelayReplFromRelayForw (result as held, as serialised, after a wire trip); after the wire trip additionally: amend the parsed chain in place (add an option to the message returned by GetInnerMessage; UpdateOption the interface-id of each level in turn, each on a fresh parse), ToBytes, and compare the forwarded bytes (reference decoder, library FromBytes, GetInnerMessage) with the model carrying the same edit",
		"edit_after_decode_checks", ck.nEdits.Load(),
		"edit_after_decode_scope", fmt.Sprintf("every shape, every type pattern; all 704 inner messages for all-RELAY-FORW chains of depth <= %d, the 22 inner messages with no option / every option for the other type patterns and for deeper chains; edits per case: 1 (inner) + depth (one per level), each on a fresh parse", ck.editAllDepth),
		"cases", total)
	order := total

	// (b) builders and the plain-message behaviour of the relay functions
	var nb atomic.Int64
	c.Range(nInner, func(i int64) {
		t, sub := innerOfIndex(int(i))
		sp := spec{ityp: t, subset: sub, xid: xidOf(order + i)}
		ck.runPlain(order+i, sp)
		in := refInner(t, sub, sp.xid)
		for _, b := range builders {
			if _, v, _ := b.rule(in); v == v6chain.Accept {
				nb.Add(1)
				c.Nontrivial(1)
				break
			}
		}
		if i == 3*nTypes || i == 7*nTypes+1 {
			c.Sample(map[string]any{"scope": "b", "case": sp.String(), "message": fw.Hex(in.Encode())})
		}
	})
	c.Scope("b:builders", "builders", "NewAdvertiseFromSolicit, NewRequestFromAdvertise, NewReplyFromMessage (no modifiers)",
		"inputs", "message types 1..11 x all 64 option subsets, as built and after ToBytes/FromBytes", "cases", nInner, "accepted_by_some_builder", nb.Load(),
		"also", "GetInnerMessage / DecapsulateRelay / DecapsulateRelayIndex(-1..2) on a plain message return it unchanged")
	order += nInner

	// (c) EncapsulateRelay: every type byte
	for _, depth := range []int{0, 2} {
		for t := 0; t < 256; t++ {
			sp := spec{opts: make([]byte, depth), ityp: v6chain.Solicit, subset: 1, xid: xidOf(order)}
			k := &kase{ck: ck, sp: sp, order: order, scope: "c:encapsulate-type"}
			d, _ := k.build()
			c.Eval(1)
			order++
			if d == nil {
				continue
			}
			var r *dhcpv6.RelayMessage
			var err error
			call := lit(fmt.Sprintf("dhcpv6.EncapsulateRelay(d, dhcpv6.MessageType(%d), net.ParseIP(\"2001:db8::1\"), net.ParseIP(\"fe80::2\"))", t))
			if pv, st := fw.Safe(func() {
				r, err = dhcpv6.EncapsulateRelay(d, dhcpv6.MessageType(t), net.ParseIP("2001:db8::1"), net.ParseIP("fe80::2"))
			}); pv != nil {
				k.panicked("EncapsulateRelay", pv, st, bodyWantErr(call))
				continue
			}
			valid := t == v6chain.RelayForw || t == v6chain.RelayRepl
			if !valid && err == nil {
				k.fail("EncapsulateRelay|accepts|type-not-RELAY-FORW/RELAY-REPL", fmt.Sprintf("type %d: no error, result %v", t, r), "an error",
					"the relay type must be RELAY-FORW or RELAY-REPL", bodyWantErr(call))
			}
			if valid && (err != nil || r == nil) {
				k.fail("EncapsulateRelay|rejects-relay-type", fmt.Sprintf("type %d: %v", t, err), "a relay message", "RELAY-FORW and RELAY-REPL are the valid types", lit("\tx, err := "+call()+"\n\tt.Log(x, err)\n"))
			}
			if valid {
				c.Nontrivial(1)
			}
		}
	}
	c.Scope("c:encapsulate-type", "types", "every value 0..255", "wrapped", "a plain message and a depth-2 chain", "cases", 512)

	// (d) NewRelayReplFromRelayForw / GetInnerMessage on chains that lack an embedded message, nil arguments
	nd := 0
	for depth := 1; depth <= 4; depth++ {
		for drop := 0; drop < depth; drop++ {
			for _, wire := range []bool{false, true} {
				opts := make([]byte, depth)
				for i := range opts {
					opts[i] = 3
				}
				sp := spec{opts: opts, ityp: v6chain.Solicit, subset: 5, xid: xidOf(order), dropP1: drop + 1}
				k := &kase{ck: ck, sp: sp, order: order, scope: "d:no-embedded-message", wire: wire}
				d, _ := k.build()
				c.Eval(1)
				order++
				nd++
				if d == nil {
					continue
				}
				if wire {
					if d = k.wireTrip(d); d == nil {
						continue
					}
				}
				replyHex := fw.Hex(func() []byte { _, r := replyFor(sp); return r.Encode() }())
				noteRR := bodyWantErr(lit(fmt.Sprintf("dhcpv6.NewRelayReplFromRelayForw(d.(*dhcpv6.RelayMessage), func() *dhcpv6.Message { b, _ := hex.DecodeString(%q); m, _ := dhcpv6.MessageFromBytes(b); return m }())", replyHex)))
				noteGI := lit("\tm, err := d.GetInnerMessage()\n\tif m != nil {\n\t\tt.Fatalf(\"found %v (err=%v) in a chain without inner message\", m, err)\n\t}\n")
				noteIX := lit("\tfor i := -1; i <= 4; i++ {\n\t\tx, err := dhcpv6.DecapsulateRelayIndex(d, i)\n\t\tt.Log(i, x, err)\n\t}\n")
				reply, _ := replyFor(sp)
				var res dhcpv6.DHCPv6
				var err error
				if pv, st := fw.Safe(func() { res, err = dhcpv6.NewRelayReplFromRelayForw(d.(*dhcpv6.RelayMessage), reply) }); pv != nil {
					k.panicked("NewRelayReplFromRelayForw", pv, st, noteRR)
				} else if err == nil {
					k.fail("NewRelayReplFromRelayForw|accepts|level-without-embedded-message", fmt.Sprintf("no error, result %v", res), "an error",
						fmt.Sprintf("level %d of %d has no relay-msg option: there is no chain to mirror", drop, depth), noteRR)
				}
				var m *dhcpv6.Message
				if pv, st := fw.Safe(func() { m, err = d.GetInnerMessage() }); pv != nil {
					k.panicked("GetInnerMessage", pv, st, noteGI)
				} else if m != nil {
					k.fail("GetInnerMessage|finds-message-in-chain-without-one", fmt.Sprintf("message %v err=%v", m, err), "no message (nil)",
						"GetInnerMessage returns nil if none is found", noteGI)
				}
				for i := -1; i <= depth; i++ {
					if pv, st := fw.Safe(func() { _, _ = dhcpv6.DecapsulateRelayIndex(d, i) }); pv != nil {
						k.panicked("DecapsulateRelayIndex", pv, st, noteIX)
					}
				}
			}
		}
	}
	{
		sp := spec{opts: []byte{3, 0}, ityp: v6chain.Solicit, subset: 1, xid: xidOf(order)}
		k := &kase{ck: ck, sp: sp, order: order, scope: "d:nil-arguments"}
		d, _ := k.build()
		c.Eval(2)
		order++
		nd += 2
		if d != nil {
			var err error
			call := lit("dhcpv6.NewRelayReplFromRelayForw(d.(*dhcpv6.RelayMessage), nil)")
			if pv, st := fw.Safe(func() { _, err = dhcpv6.NewRelayReplFromRelayForw(d.(*dhcpv6.RelayMessage), nil) }); pv != nil {
				k.panicked("NewRelayReplFromRelayForw", pv, st, bodyWantErr(call))
			} else if err == nil {
				k.fail("NewRelayReplFromRelayForw|accepts|nil-reply", "no error", "an error", "there is no reply to carry innermost", bodyWantErr(call))
			}
			reply, _ := replyFor(sp)
			call = lit("dhcpv6.NewRelayReplFromRelayForw(nil, inner)")
			if pv, st := fw.Safe(func() { _, err = dhcpv6.NewRelayReplFromRelayForw(nil, reply) }); pv != nil {
				k.panicked("NewRelayReplFromRelayForw", pv, st, bodyWantErr(call))
			} else if err == nil {
				k.fail("NewRelayReplFromRelayForw|accepts|nil-relay", "no error", "an error", "there is no relay-forward chain", bodyWantErr(call))
			}
		}
	}
	c.Scope("d:rejections", "chains", "depth 1..4 with the relay-msg option removed at each level in turn, as built and after the wire trip; nil relay; nil reply",
		"asserted", "NewRelayReplFromRelayForw returns an error; GetInnerMessage returns no message; nothing panics", "cases", nd)

	if n := ck.unspecIndexBeyond.Load(); n > 0 {
		c.Unspecified("DecapsulateRelayIndex with index >= depth (beyond the chain): not covered by the documented contract, only no-panic asserted", n)
	}
	if n := ck.unspecIndexPlain.Load(); n > 0 {
		c.Unspecified("DecapsulateRelayIndex with index < -1 on a plain message: documented both as invalid index and as 'returns the original packet', only no-panic asserted", n)
	}
	if n := ck.unspecMixed.Load(); n > 0 {
		c.Unspecified("NewRelayReplFromRelayForw on a chain whose outermost level is RELAY-FORW but a deeper level is RELAY-REPL: the statement speaks of relay-forward chains only; error accepted, a returned chain is checked like any other", n)
	}
	if n := ck.unspecPDOnly.Load(); n > 0 {
		c.Unspecified("NewRequestFromAdvertise on an ADVERTISE with client id, server id, IA_PD but no IA_NA: it does carry an identity association; error accepted, a returned REQUEST is checked for the echoed options", n)
	}
	c.Assume("reference list-of-levels model v6chain (stdlib only): RFC 8415 §7/§9 headers, §21.10 relay-msg, §21.18 interface-id, RFC 4649 remote-id",
		"hop count of a built chain = level index (innermost relay 0); a relay-reply built from such a chain therefore has the same hop counts whether they are copied or recounted",
		"builder rules of DESIGN.md Appendix E; nothing but type, transaction id (where kept) and the echoed options is asserted about a builder result; modifiers are not exercised",
		"transaction ids are explicit; the fresh id of NewRequestFromAdvertise is ignored")
}
