// Package c15: DHCPv4 reply and request builders correlate with the packet
// they answer, and caller modifiers are applied after the builder's defaults.
//
// Bounded-exhaustive enumeration of input packets (hand-built and after an
// encode/decode trip) for the six builders against the reference rules of
// DESIGN.md Appendix E (verif/seq/ref/v4build), and of all modifier lists up
// to a bound over a 12-element alphabet against an independent fold.
package c15

import (
	"fmt"
	"net"
	"strings"
	"sync/atomic"

	"github.com/insomniacslk/dhcp/dhcpv4"
	"github.com/insomniacslk/dhcp/iana"
	"verif/seq/fw"
	ref "verif/seq/ref/v4build"
)

// ---- input alphabet -------------------------------------------------------

var (
	opcodes = []uint8{1, 2, 0, 7}
	flagsV  = []uint16{0, 0x8000, 0xffff, 0x0001}
	htypes  = []uint8{1, 6}
	hlens   = []int{6, 0, 16}
	// option codes with six states each: 0 absent, 1 empty, 2 one byte, 3 typical, 4 255 bytes, 5 300 bytes
	optCodes = [5]uint8{82, 61, 54, 55, 50}
)

const (
	giNil = iota
	giZero
	giSet
)

const (
	stAbsent = iota
	stEmpty
	stOne
	stTypical
	stMax
	stLong // longer than one instance can carry: travels as two instances (RFC 3396)
	nStates
)

var stateName = [nStates]string{"absent", "empty", "1 byte", "typical", "255 bytes", "300 bytes"}

// spec is one input packet of the enumerated product.
type spec struct {
	idx        int64
	op, fl, gi int
	ht, hl     int
	os         [5]int
	yi, ci     int  // 0 zero, 1 set
	xi         int  // xid form: xidNonZero (index-derived), xidZero, xidOnes
	nilEmpty   bool // hand-built: an "empty" option value is a nil slice instead of []byte{}
}

func (s spec) String() string {
	var o []string
	for k, c := range optCodes {
		if s.os[k] != stAbsent {
			o = append(o, fmt.Sprintf("opt%d=%s", c, stateName[s.os[k]]))
		}
	}
	if s.nilEmpty {
		o = append(o, "(empty values are nil slices)")
	}
	x := s.xid()
	return fmt.Sprintf("xid=%x ", x[:]) + fmt.Sprintf("op=%d flags=%#04x giaddr=%s hwtype=%d hlen=%d yiaddr=%s ciaddr=%s %s", opcodes[s.op], flagsV[s.fl],
		[]string{"nil", "0.0.0.0", "10.0.0.254"}[s.gi], htypes[s.ht], hlens[s.hl], []string{"0.0.0.0", "10.0.0.100"}[s.yi], []string{"0.0.0.0", "10.0.0.50"}[s.ci], strings.Join(o, " "))
}

var (
	addrGI = [4]byte{10, 0, 0, 254}
	addrYI = [4]byte{10, 0, 0, 100}
	addrCI = [4]byte{10, 0, 0, 50}
	addrSI = [4]byte{10, 9, 9, 9} // always set and different from option 54
)

func optValue(code uint8, st int) []byte {
	switch st {
	case stEmpty:
		return []byte{}
	case stOne:
		return []byte{code ^ 0x5a}
	case stTypical:
		switch code {
		case 82:
			return []byte{1, 4, 'e', 't', 'h', '0', 2, 3, 'r', 'i', 'd'}
		case 61:
			return []byte{1, 0xaa, 0xbb, 0xcc, 0xdd, 0xee, 0xff}
		case 54:
			return []byte{192, 0, 2, 1}
		case 55:
			return []byte{1, 3, 6, 15, 51}
		case 50:
			return []byte{10, 0, 0, 77}
		}
	case stMax, stLong:
		b := make([]byte, map[int]int{stMax: 255, stLong: 300}[st])
		for i := range b {
			b[i] = byte(i*7) + code
		}
		return b
	}
	return nil
}

func hwBytes(n int) []byte {
	if n == 0 {
		return nil
	}
	b := make([]byte, n)
	for i := range b {
		b[i] = byte(0xa0 + i)
	}
	return b
}

const (
	xidNonZero = iota
	xidZero
	xidOnes
	nXidForms
)

func (s spec) xid() [4]byte {
	switch s.xi {
	case xidZero:
		return [4]byte{}
	case xidOnes:
		return [4]byte{0xff, 0xff, 0xff, 0xff}
	}
	return [4]byte{0xc1, byte(s.idx >> 16), byte(s.idx >> 8), byte(s.idx)}
}

// value renders option state st of code c for the hand-built (decoded=false)
// or decoded input. A zero-length value is nil after the wire trip (that is
// what the decoder stores) and for nilEmpty specs, []byte{} otherwise.
func (s spec) value(c uint8, st int, decoded bool) []byte {
	if st == stEmpty && (decoded || s.nilEmpty) {
		return nil
	}
	return optValue(c, st)
}

// hops: a relayed packet (giaddr set) has made one hop.
func (s spec) hops() uint8 {
	if s.gi == giSet {
		return 1
	}
	return 0
}

func (s spec) inputType() (uint8, bool) {
	switch opcodes[s.op] {
	case 1:
		return 1, true // DISCOVER
	case 2:
		return 2, true // OFFER
	}
	return 0, false
}

// lib builds the input as a fresh hand-made library value.
func (s spec) lib() *dhcpv4.DHCPv4 {
	p := &dhcpv4.DHCPv4{
		OpCode:        dhcpv4.OpcodeType(opcodes[s.op]),
		HWType:        iana.HWType(htypes[s.ht]),
		ClientHWAddr:  net.HardwareAddr(hwBytes(hlens[s.hl])),
		HopCount:      s.hops(),
		TransactionID: dhcpv4.TransactionID(s.xid()),
		NumSeconds:    3,
		Flags:         flagsV[s.fl],
		ServerIPAddr:  net.IPv4(addrSI[0], addrSI[1], addrSI[2], addrSI[3]),
		Options:       dhcpv4.Options{},
	}
	if s.ci == 1 {
		p.ClientIPAddr = net.IPv4(addrCI[0], addrCI[1], addrCI[2], addrCI[3]) // 16-byte form
	} else {
		p.ClientIPAddr = net.IPv4(0, 0, 0, 0)
	}
	if s.yi == 1 {
		p.YourIPAddr = net.IP{addrYI[0], addrYI[1], addrYI[2], addrYI[3]} // 4-byte form
	} else {
		p.YourIPAddr = net.IPv4(0, 0, 0, 0)
	}
	switch s.gi {
	case giZero:
		p.GatewayIPAddr = net.IP{0, 0, 0, 0}
	case giSet:
		p.GatewayIPAddr = net.IP{addrGI[0], addrGI[1], addrGI[2], addrGI[3]}
	}
	for k, c := range optCodes {
		if s.os[k] != stAbsent {
			p.Options[c] = s.value(c, s.os[k], false)
		}
	}
	if t, ok := s.inputType(); ok {
		p.Options[53] = []byte{t}
	}
	if len(p.Options) == 0 {
		p.Options = nil // a hand-made packet without any option: nil map
	}
	return p
}

// ref builds the same input as a reference value (independently of lib());
// decoded selects the reading after the ToBytes/FromBytes trip.
func (s spec) ref(decoded bool) *ref.Packet {
	p := &ref.Packet{Op: opcodes[s.op], HType: htypes[s.ht], Hops: s.hops(), Xid: s.xid(), Secs: 3, Flags: flagsV[s.fl], SI: addrSI,
		CHAddr: hwBytes(hlens[s.hl]), Opts: map[uint8][]byte{}}
	if s.ci == 1 {
		p.CI = addrCI
	}
	if s.yi == 1 {
		p.YI = addrYI
	}
	if s.gi == giSet {
		p.GI = addrGI
	}
	for k, c := range optCodes {
		if s.os[k] != stAbsent {
			p.Opts[c] = s.value(c, s.os[k], decoded)
		}
	}
	if t, ok := s.inputType(); ok {
		p.Opts[53] = []byte{t}
	}
	return p
}

// radix of the full product, least significant digit first.
var radix = [13]int64{4, 4, 3, 2, 3, nStates, nStates, nStates, nStates, nStates, 2, 2, nXidForms}

func productSize() int64 {
	n := int64(1)
	for _, r := range radix {
		n *= r
	}
	return n
}

// specAt decodes index i of the full product. The opcode × flags × giaddr
// digits vary fastest, index 0 is the simplest input.
func specAt(i int64) spec {
	s := spec{idx: i}
	var d [13]int
	x := i
	for k, r := range radix {
		d[k] = int(x % r)
		x /= r
	}
	s.op, s.fl, s.gi, s.ht, s.hl = d[0], d[1], d[2], d[3], d[4]
	copy(s.os[:], d[5:10])
	s.yi, s.ci, s.xi = d[10], d[11], d[12]
	return s
}

func indexOf(s spec) int64 {
	d := []int{s.op, s.fl, s.gi, s.ht, s.hl, s.os[0], s.os[1], s.os[2], s.os[3], s.os[4], s.yi, s.ci, s.xi}
	var i, m int64 = 0, 1
	for k, r := range radix {
		i += int64(d[k]) * m
		m *= r
	}
	return i
}

// ---- library value -> reference value ------------------------------------

func ip4(ip net.IP) ([4]byte, bool) {
	var out [4]byte
	if ip == nil {
		return out, true // nil ≡ 0.0.0.0 (ToBytes writes zeros)
	}
	v := ip.To4() // 4-byte ≡ IPv4-mapped 16-byte
	if v == nil {
		return out, false
	}
	copy(out[:], v)
	return out, true
}

// toRef converts a library packet to the plain reference struct.
func toRef(l *dhcpv4.DHCPv4) (*ref.Packet, string) {
	if l == nil {
		return nil, "nil packet"
	}
	if l.HWType > 255 {
		return nil, fmt.Sprintf("hwtype %d does not fit the wire", l.HWType)
	}
	p := &ref.Packet{Op: uint8(l.OpCode), HType: uint8(l.HWType), Hops: l.HopCount, Xid: [4]byte(l.TransactionID), Secs: l.NumSeconds,
		Flags: l.Flags, CHAddr: append([]byte(nil), l.ClientHWAddr...), SName: l.ServerHostName, File: l.BootFileName, Opts: map[uint8][]byte{}}
	for _, f := range []struct {
		n   string
		src net.IP
		dst *[4]byte
	}{{"ciaddr", l.ClientIPAddr, &p.CI}, {"yiaddr", l.YourIPAddr, &p.YI}, {"siaddr", l.ServerIPAddr, &p.SI}, {"giaddr", l.GatewayIPAddr, &p.GI}} {
		v, ok := ip4(f.src)
		if !ok {
			return nil, fmt.Sprintf("%s %v is not an IPv4 address", f.n, f.src)
		}
		*f.dst = v
	}
	for c, v := range l.Options {
		p.Opts[c] = append([]byte(nil), v...)
	}
	return p, ""
}

// ---- cases ----------------------------------------------------------------

// kase is one (builder, input) pair.
type kase struct {
	b       ref.Builder
	sp      spec // packet builders
	decoded bool // input went through ToBytes/FromBytes first
	hl      int  // Inform / Discovery: hardware address length
	ipf     int  // Inform: address form
}

const (
	ipNil = iota
	ipZero4
	ipZero16
	ipSet4
	ipSet16
	nIPForms
)

var addrInform = [4]byte{10, 0, 0, 60}

func informIP(f int) (net.IP, [4]byte) {
	a := addrInform
	switch f {
	case ipNil:
		return nil, [4]byte{}
	case ipZero4:
		return net.IP{0, 0, 0, 0}, [4]byte{}
	case ipZero16:
		return net.IPv4(0, 0, 0, 0), [4]byte{}
	case ipSet4:
		return net.IP{a[0], a[1], a[2], a[3]}, a
	}
	return net.IPv4(a[0], a[1], a[2], a[3]), a
}

func (k kase) form() string {
	if k.b == ref.Inform || k.b == ref.Discovery {
		return "args"
	}
	if k.decoded {
		return "decoded"
	}
	return "built"
}

func (k kase) describe() string {
	switch k.b {
	case ref.Inform:
		_, a := informIP(k.ipf)
		return fmt.Sprintf("%s(hw=%x, ip=%s)", k.b, hwBytes(k.hl), []string{"nil", "0.0.0.0 (4-byte)", "0.0.0.0 (16-byte)", net.IP(a[:]).String() + " (4-byte)", net.IP(a[:]).String() + " (16-byte)"}[k.ipf])
	case ref.Discovery:
		return fmt.Sprintf("%s(hw=%x)", k.b, hwBytes(k.hl))
	}
	return fmt.Sprintf("%s(in) with in[%s]: %s", k.b, k.form(), k.sp)
}

// libArgs returns freshly allocated library-side arguments.
func (k kase) libArgs() (in *dhcpv4.DHCPv4, hw net.HardwareAddr, ip net.IP, err error) {
	switch k.b {
	case ref.Inform:
		ip, _ = informIP(k.ipf)
		return nil, hwBytes(k.hl), ip, nil
	case ref.Discovery:
		return nil, hwBytes(k.hl), nil, nil
	}
	in = k.sp.lib()
	if k.decoded {
		in, err = dhcpv4.FromBytes(in.ToBytes())
	}
	return in, nil, nil, err
}

func (k kase) refArgs() (in *ref.Packet, hw []byte, ip [4]byte) {
	switch k.b {
	case ref.Inform:
		_, ip = informIP(k.ipf)
		return nil, hwBytes(k.hl), ip
	case ref.Discovery:
		return nil, hwBytes(k.hl), ip
	}
	return k.sp.ref(k.decoded), nil, ip
}

// call runs the library builder.
func call(b ref.Builder, in *dhcpv4.DHCPv4, hw net.HardwareAddr, ip net.IP, ms []dhcpv4.Modifier) (*dhcpv4.DHCPv4, error) {
	switch b {
	case ref.Reply:
		return dhcpv4.NewReplyFromRequest(in, ms...)
	case ref.RequestFromOffer:
		return dhcpv4.NewRequestFromOffer(in, ms...)
	case ref.RenewFromAck:
		return dhcpv4.NewRenewFromAck(in, ms...)
	case ref.ReleaseFromAck:
		return dhcpv4.NewReleaseFromACK(in, ms...)
	case ref.Inform:
		return dhcpv4.NewInform(hw, ip, ms...)
	}
	return dhcpv4.NewDiscovery(hw, ms...)
}

// build runs builder k.b on fresh arguments with the given modifiers and
// converts the result. ok=false means a violation was reported (or the wire
// trip of the input failed, which is outside this property).
func build(c *fw.Ctx, k kase, mods []ref.Mod, order int64, scope string) (*ref.Packet, bool) {
	in, hw, ip, err := k.libArgs()
	if err != nil {
		c.Unspecified("input does not survive ToBytes/FromBytes (C01's subject)", 1)
		return nil, false
	}
	lms := make([]dhcpv4.Modifier, len(mods))
	for i, m := range mods {
		lms[i] = libMod(m)
	}
	var out *dhcpv4.DHCPv4
	var berr error
	if pv, st := fw.Safe(func() { out, berr = call(k.b, in, hw, ip, lms) }); pv != nil {
		c.Report(fw.Violation{Fingerprint: k.b.String() + "|panic|" + fw.PanicSite(st), Order: order, Scope: scope, Input: k.describe() + modsString(mods),
			Observed: fmt.Sprintf("panic: %v at %s", pv, st), Expected: "a packet", GoTest: goTest(k, mods)})
		return nil, false
	}
	if berr != nil || out == nil {
		c.Report(fw.Violation{Fingerprint: k.b.String() + "|error|builder returned an error", Order: order, Scope: scope, Input: k.describe() + modsString(mods),
			Observed: fmt.Sprintf("err=%v", berr), Expected: "a packet", GoTest: goTest(k, mods)})
		return nil, false
	}
	rp, why := toRef(out)
	if why != "" {
		c.Report(fw.Violation{Fingerprint: k.b.String() + "|result|not representable", Order: order, Scope: scope, Input: k.describe() + modsString(mods),
			Observed: why, Expected: "IPv4 addresses and a one-octet hardware type", GoTest: goTest(k, mods)})
		return nil, false
	}
	return rp, true
}

// decodedInputOK checks once per input that the ToBytes/FromBytes trip of the
// hand-built packet is the packet the reference input describes (so that the
// reference rules are applied to the right input). A difference is C01's
// subject, not this property's: the case is counted as unspecified and skipped.
func decodedInputOK(c *fw.Ctx, s spec) bool {
	in, _, _, err := kase{b: ref.Reply, sp: s, decoded: true}.libArgs()
	if err != nil {
		c.Unspecified("input does not survive ToBytes/FromBytes (C01's subject)", 1)
		return false
	}
	got, why := toRef(in)
	if why == "" {
		why, _ = ref.Diff(got, s.ref(true), true)
	}
	if why != "" {
		c.Unspecified("ToBytes/FromBytes changed the input (C01's subject): "+why, 1)
		return false
	}
	return true
}

// checkDefaults: Appendix E facts on builder(in) without modifiers.
// Returns true when the result was actually compared.
func checkDefaults(c *fw.Ctx, k kase, order int64, scope string) bool {
	out, ok := build(c, k, nil, order, scope)
	if !ok {
		return false
	}
	rin, hw, ip := k.refArgs()
	for _, m := range ref.Verify(k.b, rin, hw, ip, out) {
		cls := k.form()
		if m.Clause == "opcode" && rin != nil {
			cls += fmt.Sprintf(",in.op=%d", rin.Op)
		}
		c.Report(fw.Violation{Fingerprint: k.b.String() + "|" + m.Clause + "|" + cls, Order: order, Scope: scope, Input: k.describe(),
			Observed: m.Observed + "   result: " + out.Describe(), Expected: m.Expected,
			Explain: "builder result contradicts DESIGN Appendix E clause '" + m.Clause + "' (C15 statement)", GoTest: goTest(k, nil)})
	}
	return true
}

// ---- modifier alphabet ----------------------------------------------------

// Alphabet is the 13-element modifier alphabet (the 12 of the design plus
// WithTransactionID(00000000)); one instance collides with
// each default some builder sets.
func Alphabet() []ref.Mod {
	return []ref.Mod{
		{Kind: ref.MMessageType, T: 6},                    // NAK: collides with every builder's message type
		{Kind: ref.MBroadcast, B: true},                   // collides with renew / release "unicast" and copied flags
		{Kind: ref.MClientIP, IP: [4]byte{10, 77, 0, 1}},  // collides with ciaddr defaults
		{Kind: ref.MWithoutOption, Code: 54},              // removes the copied server identifier
		{Kind: ref.MGatewayIP, IP: [4]byte{10, 88, 0, 1}}, // collides with the reply's giaddr
		{Kind: ref.MTransactionID, Xid: [4]byte{0xde, 0xad, 0xbe, 0xef}},
		{Kind: ref.MHwAddr, HW: []byte{2, 0, 0, 0, 0, 0x99}},     // collides with chaddr
		{Kind: ref.MServerIdentifier, IP: [4]byte{10, 99, 0, 1}}, // collides with the copied option 54
		{Kind: ref.MRequestedOptions, Codes: []uint8{3, 42, 119, 42}},
		{Kind: ref.MYourIP, IP: [4]byte{10, 66, 0, 1}},
		{Kind: ref.MServerIP, IP: [4]byte{10, 55, 0, 1}},
		{Kind: ref.MGeneric, Code: 82, Val: []byte{1, 2, 'x', 'y'}}, // collides with the echoed option 82
		{Kind: ref.MTransactionID, Xid: [4]byte{}},                  // the all-zero id is an id like any other and must prevail
		{Kind: ref.MRelay, IP: [4]byte{10, 44, 0, 1}},               // collides with a giaddr that is already set (copied from the request, or set by an earlier modifier)
		{Kind: ref.MHWType, T: 6},                                   // collides with the copied hardware type
		// the remaining exported With* functions: each sets one option to a fixed encoding (RFC 2132 / 3004 / 8925 / 3397)
		{Kind: ref.MGeneric, Code: 77, Val: []byte("class"), Label: `WithUserClass("class", false)`},
		{Kind: ref.MGeneric, Code: 77, Val: append([]byte{5}, "class"...), Label: `WithUserClass("class", true)`},
		{Kind: ref.MGeneric, Code: 1, Val: []byte{255, 255, 240, 0}, Label: "WithNetmask(/20)"},
		{Kind: ref.MGeneric, Code: 51, Val: []byte{0, 0, 0x0e, 0x10}, Label: "WithLeaseTime(3600)"},
		{Kind: ref.MGeneric, Code: 108, Val: []byte{0, 0, 0x01, 0x2c}, Label: "WithIPv6OnlyPreferred(300)"},
		{Kind: ref.MGeneric, Code: 119, Val: append(append([]byte{1, 'a', 7}, "example"...), 0), Label: `WithDomainSearchList("a.example")`},
		{Kind: ref.MRequestedOptions, Codes: []uint8{66, 67}, Label: "WithNetboot"},
	}
}

var namedCode = map[uint8]dhcpv4.OptionCode{
	1: dhcpv4.OptionSubnetMask, 3: dhcpv4.OptionRouter, 6: dhcpv4.OptionDomainNameServer, 15: dhcpv4.OptionDomainName,
	42: dhcpv4.OptionNTPServers, 54: dhcpv4.OptionServerIdentifier, 82: dhcpv4.OptionRelayAgentInformation, 119: dhcpv4.OptionDNSDomainSearchList,
}

func code(c uint8) dhcpv4.OptionCode {
	if n, ok := namedCode[c]; ok {
		return n
	}
	return dhcpv4.GenericOptionCode(c)
}

func lip4(a [4]byte) net.IP  { return net.IP{a[0], a[1], a[2], a[3]} }
func lip16(a [4]byte) net.IP { return net.IPv4(a[0], a[1], a[2], a[3]) }

// libMod maps an alphabet element to a fresh instance of the exported With*.
func libMod(m ref.Mod) dhcpv4.Modifier {
	switch m.Label {
	case `WithUserClass("class", false)`:
		return dhcpv4.WithUserClass("class", false)
	case `WithUserClass("class", true)`:
		return dhcpv4.WithUserClass("class", true)
	case "WithNetmask(/20)":
		return dhcpv4.WithNetmask(net.CIDRMask(20, 32))
	case "WithLeaseTime(3600)":
		return dhcpv4.WithLeaseTime(3600)
	case "WithIPv6OnlyPreferred(300)":
		return dhcpv4.WithIPv6OnlyPreferred(300)
	case `WithDomainSearchList("a.example")`:
		return dhcpv4.WithDomainSearchList("a.example")
	case "WithNetboot":
		return dhcpv4.WithNetboot
	}
	switch m.Kind {
	case ref.MMessageType:
		return dhcpv4.WithMessageType(dhcpv4.MessageType(m.T))
	case ref.MBroadcast:
		return dhcpv4.WithBroadcast(m.B)
	case ref.MClientIP:
		return dhcpv4.WithClientIP(lip16(m.IP))
	case ref.MYourIP:
		return dhcpv4.WithYourIP(lip4(m.IP))
	case ref.MServerIP:
		return dhcpv4.WithServerIP(lip16(m.IP))
	case ref.MGatewayIP:
		return dhcpv4.WithGatewayIP(lip4(m.IP))
	case ref.MTransactionID:
		return dhcpv4.WithTransactionID(dhcpv4.TransactionID(m.Xid))
	case ref.MHwAddr:
		return dhcpv4.WithHwAddr(net.HardwareAddr(append([]byte(nil), m.HW...)))
	case ref.MWithoutOption:
		return dhcpv4.WithoutOption(code(m.Code))
	case ref.MServerIdentifier:
		return dhcpv4.WithOption(dhcpv4.OptServerIdentifier(lip16(m.IP)))
	case ref.MRequestedOptions:
		cs := make([]dhcpv4.OptionCode, len(m.Codes))
		for i, c := range m.Codes {
			cs[i] = code(c)
		}
		return dhcpv4.WithRequestedOptions(cs...)
	case ref.MGeneric:
		return dhcpv4.WithGeneric(code(m.Code), append([]byte(nil), m.Val...))
	case ref.MRelay:
		return dhcpv4.WithRelay(lip16(m.IP))
	case ref.MHWType:
		return dhcpv4.WithHWType(iana.HWType(m.T))
	}
	panic("unknown modifier kind")
}

func modsString(ms []ref.Mod) string {
	if len(ms) == 0 {
		return ""
	}
	var s []string
	for _, m := range ms {
		s = append(s, m.String())
	}
	return "  modifiers: [" + strings.Join(s, ", ") + "]"
}

// listAt decodes list number j (shortest first) over an alphabet of n
// elements; total(L) = sum n^l for l=0..L.
func listAt(j int64, alpha []ref.Mod) []ref.Mod {
	n := int64(len(alpha))
	l, pow := 0, int64(1)
	for j >= pow {
		j -= pow
		pow *= n
		l++
	}
	out := make([]ref.Mod, l)
	for k := l - 1; k >= 0; k-- {
		out[k] = alpha[j%n]
		j /= n
	}
	return out
}

func numLists(n, maxLen int) int64 {
	var t, pow int64 = 0, 1
	for l := 0; l <= maxLen; l++ {
		t += pow
		pow *= int64(n)
	}
	return t
}

// checkPrecedence: builder(in, ms...) == fold(ms, builder(in)).
// base is the converted library result of builder(in) without modifiers.
func checkPrecedence(c *fw.Ctx, k kase, base *ref.Packet, ms []ref.Mod, order int64, scope string) bool {
	got, ok := build(c, k, ms, order, scope)
	if !ok {
		return false
	}
	want := ref.Fold(base, ms)
	withXid := k.b.XidFixed() || ref.FixesXid(ms)
	if f, d := ref.Diff(got, want, withXid); f != "" {
		c.Report(fw.Violation{Fingerprint: k.b.String() + "(in, modifiers...)|fold:" + f + "|" + k.form(), Order: order, Scope: scope,
			Input: k.describe() + modsString(ms), Observed: d + "   result: " + got.Describe(),
			Expected: "fold(modifiers, " + k.b.String() + "(in)) = " + want.Describe(),
			Explain:  "caller modifiers must be applied after the builder's defaults, left to right, and prevail (C15 statement; DESIGN Appendix E 'modifier precedence')",
			GoTest:   goTest(k, ms)})
	}
	return true
}

// precedenceInputs is the reduced input set for the modifier lists.
func precedenceInputs() []kase {
	mk := func(op, fl, gi, ht, hl int, os [5]int, yi, ci, xi int) spec {
		s := spec{op: op, fl: fl, gi: gi, ht: ht, hl: hl, os: os, yi: yi, ci: ci, xi: xi}
		s.idx = indexOf(s)
		return s
	}
	// digits: op index into {1,2,0,7}; flags index into {0,8000,ffff,0001}; hl index into {6,0,16}; options 82,61,54,55,50
	reqRelayed := mk(0, 1, giSet, 0, 0, [5]int{stTypical, stTypical, stAbsent, stTypical, stAbsent}, 0, 0, xidNonZero)
	replyBare := mk(1, 0, giNil, 0, 0, [5]int{}, 0, 0, xidZero)
	reqOdd := mk(0, 2, giSet, 1, 2, [5]int{stMax, stOne, stAbsent, stAbsent, stTypical}, 0, 1, xidOnes)
	offer := mk(1, 0, giZero, 0, 0, [5]int{stAbsent, stAbsent, stTypical, stAbsent, stAbsent}, 1, 0, xidNonZero)
	offerNoSid := mk(1, 1, giNil, 0, 0, [5]int{}, 1, 1, xidZero)
	offerFull := mk(1, 3, giSet, 0, 0, [5]int{stTypical, stTypical, stTypical, stTypical, stAbsent}, 1, 0, xidNonZero)
	ackBcast := mk(1, 1, giNil, 0, 0, [5]int{stAbsent, stAbsent, stTypical, stAbsent, stTypical}, 1, 0, xidNonZero)
	ackOdd := mk(1, 2, giSet, 1, 2, [5]int{stAbsent, stTypical, stTypical, stTypical, stAbsent}, 1, 1, xidZero)
	return []kase{
		{b: ref.Reply, sp: reqRelayed},
		{b: ref.Reply, sp: replyBare},
		{b: ref.Reply, sp: reqOdd, decoded: true},
		{b: ref.RequestFromOffer, sp: offer},
		{b: ref.RequestFromOffer, sp: offerNoSid, decoded: true},
		{b: ref.RequestFromOffer, sp: offerFull, decoded: true},
		{b: ref.RenewFromAck, sp: ackBcast},
		{b: ref.RenewFromAck, sp: ackOdd, decoded: true},
		{b: ref.ReleaseFromAck, sp: ackBcast},
		{b: ref.ReleaseFromAck, sp: ackOdd, decoded: true},
		{b: ref.Inform, hl: 6, ipf: ipSet4},
		{b: ref.Inform, hl: 16, ipf: ipSet16},
		{b: ref.Discovery, hl: 6},
		{b: ref.Discovery, hl: 0},
	}
}

// ---- replay test generation ----------------------------------------------

func goBytes(b []byte) string {
	if b == nil {
		return "nil"
	}
	if len(b) > 32 {
		return fmt.Sprintf("h(%q)", fw.Hex(b))
	}
	var s []string
	for _, x := range b {
		s = append(s, fmt.Sprintf("%#02x", x))
	}
	return "[]byte{" + strings.Join(s, ", ") + "}"
}

func goIP(ip net.IP) string {
	switch len(ip) {
	case 0:
		return "nil"
	case 4:
		return fmt.Sprintf("net.IP{%d, %d, %d, %d}", ip[0], ip[1], ip[2], ip[3])
	}
	v := ip.To4()
	return fmt.Sprintf("net.IPv4(%d, %d, %d, %d)", v[0], v[1], v[2], v[3])
}

func goMod(m ref.Mod) string {
	if m.Label == "WithNetmask(/20)" {
		return "dhcpv4.WithNetmask(net.CIDRMask(20, 32))"
	}
	if m.Label != "" {
		return "dhcpv4." + m.Label
	}
	if m.Kind == ref.MHWType {
		return fmt.Sprintf("dhcpv4.WithHWType(iana.HWType(%d))", m.T)
	}
	switch m.Kind {
	case ref.MMessageType:
		return fmt.Sprintf("dhcpv4.WithMessageType(dhcpv4.MessageType(%d))", m.T)
	case ref.MBroadcast:
		return fmt.Sprintf("dhcpv4.WithBroadcast(%v)", m.B)
	case ref.MClientIP:
		return "dhcpv4.WithClientIP(" + goIP(lip16(m.IP)) + ")"
	case ref.MYourIP:
		return "dhcpv4.WithYourIP(" + goIP(lip4(m.IP)) + ")"
	case ref.MServerIP:
		return "dhcpv4.WithServerIP(" + goIP(lip16(m.IP)) + ")"
	case ref.MGatewayIP:
		return "dhcpv4.WithGatewayIP(" + goIP(lip4(m.IP)) + ")"
	case ref.MTransactionID:
		return fmt.Sprintf("dhcpv4.WithTransactionID(dhcpv4.TransactionID{%#02x, %#02x, %#02x, %#02x})", m.Xid[0], m.Xid[1], m.Xid[2], m.Xid[3])
	case ref.MHwAddr:
		return "dhcpv4.WithHwAddr(net.HardwareAddr(" + goBytes(m.HW) + "))"
	case ref.MWithoutOption:
		return fmt.Sprintf("dhcpv4.WithoutOption(dhcpv4.GenericOptionCode(%d))", m.Code)
	case ref.MServerIdentifier:
		return "dhcpv4.WithOption(dhcpv4.OptServerIdentifier(" + goIP(lip16(m.IP)) + "))"
	case ref.MRequestedOptions:
		names := map[uint8]string{3: "dhcpv4.OptionRouter", 42: "dhcpv4.OptionNTPServers", 119: "dhcpv4.OptionDNSDomainSearchList"}
		var s []string
		for _, c := range m.Codes {
			if n, ok := names[c]; ok {
				s = append(s, n)
			} else {
				s = append(s, fmt.Sprintf("dhcpv4.GenericOptionCode(%d)", c))
			}
		}
		return "dhcpv4.WithRequestedOptions(" + strings.Join(s, ", ") + ")"
	case ref.MGeneric:
		return fmt.Sprintf("dhcpv4.WithGeneric(dhcpv4.GenericOptionCode(%d), %s)", m.Code, goBytes(m.Val))
	case ref.MRelay:
		return "dhcpv4.WithRelay(" + goIP(lip16(m.IP)) + ")"
	}
	return "nil"
}

// goTest renders a plain test (imports: encoding/hex, net, testing, dhcpv4, iana).
func goTest(k kase, ms []ref.Mod) string {
	var b strings.Builder
	b.WriteString("// package dhcpv4_test; imports: encoding/hex, net, testing, github.com/insomniacslk/dhcp/dhcpv4, github.com/insomniacslk/dhcp/iana\n")
	b.WriteString("func TestReplayC15(t *testing.T) {\n")
	b.WriteString("\th := func(s string) []byte { b, _ := hex.DecodeString(s); return b }; _ = h\n")
	var margs string
	for _, m := range ms {
		margs += ",\n\t\t" + goMod(m)
	}
	switch k.b {
	case ref.Inform:
		ip, _ := informIP(k.ipf)
		fmt.Fprintf(&b, "\tout, err := dhcpv4.NewInform(net.HardwareAddr(%s), %s%s)\n", goBytes(hwBytes(k.hl)), goIP(ip), margs)
	case ref.Discovery:
		fmt.Fprintf(&b, "\tout, err := dhcpv4.NewDiscovery(net.HardwareAddr(%s)%s)\n", goBytes(hwBytes(k.hl)), margs)
	default:
		in := k.sp.lib()
		fmt.Fprintf(&b, "\tin := &dhcpv4.DHCPv4{OpCode: %d, HWType: iana.HWType(%d), ClientHWAddr: net.HardwareAddr(%s), HopCount: %d,\n", in.OpCode, in.HWType, goBytes(in.ClientHWAddr), in.HopCount)
		x := in.TransactionID
		fmt.Fprintf(&b, "\t\tTransactionID: dhcpv4.TransactionID{%#02x, %#02x, %#02x, %#02x}, NumSeconds: %d, Flags: %#04x,\n", x[0], x[1], x[2], x[3], in.NumSeconds, in.Flags)
		fmt.Fprintf(&b, "\t\tClientIPAddr: %s, YourIPAddr: %s, ServerIPAddr: %s, GatewayIPAddr: %s,\n", goIP(in.ClientIPAddr), goIP(in.YourIPAddr), goIP(in.ServerIPAddr), goIP(in.GatewayIPAddr))
		b.WriteString("\t\tOptions: dhcpv4.Options{")
		for i, c := range ref.Codes(in.Options) {
			if i > 0 {
				b.WriteString(", ")
			}
			fmt.Fprintf(&b, "%d: %s", c, goBytes(in.Options[uint8(c)]))
		}
		b.WriteString("}}\n")
		if k.decoded {
			b.WriteString("\tin, _ = dhcpv4.FromBytes(in.ToBytes())\n")
		}
		fmt.Fprintf(&b, "\tout, err := dhcpv4.%s(in%s)\n", k.b, margs)
	}
	b.WriteString("\tif err != nil { t.Fatal(err) }\n\tt.Log(out.Summary())\n}")
	return b.String()
}

// ---- run ------------------------------------------------------------------

type atomicCounter struct{ v atomic.Int64 }

func (a *atomicCounter) add(n int64) { a.v.Add(n) }
func (a *atomicCounter) load() int64 { return a.v.Load() }

var packetBuilders = []ref.Builder{ref.Reply, ref.RequestFromOffer, ref.RenewFromAck, ref.ReleaseFromAck}

// quickSelected reports whether the quick tier runs index i.
//
// Kept complete: the FULL product opcode × flags × giaddr × hwtype × hwaddr
// length × yiaddr × ciaddr × (every single option's five states, the other four
// absent), and, for the joint option dimension, every *pair* of options in all
// 5×5 state combinations (others absent) plus the five "all options in the
// same state" rows. Thorough runs the full 5^5 option product.
func quickSelected(s spec) bool {
	nonAbsent := 0
	for _, st := range s.os {
		if st != stAbsent {
			nonAbsent++
		}
	}
	if nonAbsent <= 2 {
		return true
	}
	for _, st := range s.os {
		if st != s.os[0] {
			return false
		}
	}
	return true // all five in the same state
}

// nilEmptySelected: inputs repeated with nil slices as empty values (scope a2).
func nilEmptySelected(s spec) bool {
	has := false
	for _, st := range s.os {
		switch st {
		case stEmpty:
			has = true
		case stAbsent, stTypical:
		default:
			return false
		}
	}
	return has
}

func Run(c *fw.Ctx) {
	c.SetRule("cases are distinct by construction (injective enumeration of (builder, input form, input) and of (builder, input, modifier list)); non-trivial = the library builder returned a packet and it was compared with the reference (Appendix E clauses, or field-by-field with the reference fold); decoded inputs with giaddr=nil are not run (they decode to the giaddr=0.0.0.0 input)")

	// (a) the four packet builders on the input product: hand-built, decoded, and
	// (a2) hand-built with nil slices as the empty option values
	total := productSize()
	thorough := c.Thorough()
	var selected, compared, selected2, compared2 atomicCounter
	c.Range(total, func(i int64) {
		s := specAt(i)
		if !thorough && !quickSelected(s) {
			return
		}
		selected.add(1)
		n := int64(0)
		for f := 0; f < 2; f++ {
			if f == 1 && (s.gi == giNil || !decodedInputOK(c, s)) {
				continue
			}
			for bi, b := range packetBuilders {
				k := kase{b: b, sp: s, decoded: f == 1}
				if checkDefaults(c, k, i*12+int64(f*4+bi), "a:builders-on-input-product") {
					n++
				}
			}
		}
		compared.add(n)
		if nilEmptySelected(s) {
			s2 := s
			s2.nilEmpty = true
			selected2.add(1)
			for bi, b := range packetBuilders {
				if checkDefaults(c, kase{b: b, sp: s2}, i*12+int64(8+bi), "a2:hand-built-nil-empty-values") {
					compared2.add(1)
				}
			}
		}
		if n > 0 && i%400009 == 11 {
			k := kase{b: ref.Reply, sp: s}
			if out, ok := build(c, k, nil, i*12, "a"); ok {
				c.Sample(map[string]any{"scope": "a", "case": k.describe(), "result": out.Describe()})
			}
		}
	})
	c.Nontrivial(compared.load() + compared2.load())
	c.Eval(compared.load() + compared2.load() - total) // Range counted one per index (also for indices the quick tier skips); count builder runs instead
	optScope := "full product 5^5"
	if !thorough {
		optScope = "≤2 options present in all state combinations (every single option × 5 states and every pair × 5×5, others absent) + all five options in the same state"
	}
	c.Scope("a:builders-on-input-product", "builders", "NewReplyFromRequest NewRequestFromOffer NewRenewFromAck NewReleaseFromACK",
		"opcode", "1 2 0 7", "flags", "0000 8000 ffff 0001", "giaddr", "nil 0.0.0.0 10.0.0.254", "hwtype", "1 6", "hwaddr_len", "6 0 16",
		"xid", "non-zero (index-derived), 00000000, ffffffff",
		"options_82_61_54_55_50_states", "absent, empty value ([]byte{} hand-built; nil after the wire trip), 1 byte, typical, 255 bytes", "option_combinations", optScope,
		"yiaddr", "0.0.0.0 10.0.0.100", "ciaddr", "0.0.0.0 10.0.0.50", "siaddr", "10.9.9.9 (differs from option 54)", "hops", "1 when giaddr is set, else 0", "option_53", "DISCOVER for opcode 1, OFFER for opcode 2, none for 0 and 7 (hand-built packet without any option has a nil Options map)",
		"input_forms", "hand-built struct; ToBytes/FromBytes trip of it (skipped for giaddr=nil, same decoded packet as 0.0.0.0)",
		"empty_value_rule", "value nil (decoded input, hand-built nil slice) => copied option must be omitted; hand-built []byte{} => omitted or echoed empty (DESIGN §8a-3)",
		"inputs", selected.load(), "builder_results_compared", compared.load())
	c.Scope("a2:hand-built-nil-empty-values", "what", "the inputs of scope a whose options are all in {absent, empty, typical} with at least one empty, hand-built with a nil slice as the empty value (decoded form not repeated: same packet as in scope a)",
		"inputs", selected2.load(), "builder_results_compared", compared2.load())
	ord := total * 12

	// (b) NewInform / NewDiscovery on every argument combination
	nb := int64(0)
	for _, hl := range hlens {
		for f := 0; f < nIPForms; f++ {
			c.Eval(1)
			if checkDefaults(c, kase{b: ref.Inform, hl: hl, ipf: f}, ord, "b:inform-discover") {
				nb++
			}
			ord++
		}
		c.Eval(1)
		if checkDefaults(c, kase{b: ref.Discovery, hl: hl}, ord, "b:inform-discover") {
			nb++
		}
		ord++
	}
	c.Nontrivial(nb)
	c.Scope("b:inform-discover", "hwaddr_len", "6 0 16", "inform_ip", "nil, 0.0.0.0 4-byte, 0.0.0.0 16-byte, 10.0.0.60 4-byte, 10.0.0.60 16-byte", "cases", nb)

	// (c) modifier precedence: all lists up to the bound on the reduced input set
	maxLen := 3
	if thorough {
		maxLen = 4
	}
	alpha := Alphabet()
	ins := precedenceInputs()
	lists := numLists(len(alpha), maxLen)
	var pc atomicCounter
	for ki, k := range ins {
		if k.decoded && !decodedInputOK(c, k.sp) {
			ord += lists
			continue
		}
		base, ok := build(c, k, nil, ord, "c:modifier-lists")
		if !ok {
			ord += lists
			continue
		}
		k, o0 := k, ord
		c.Range(lists, func(j int64) {
			ms := listAt(j, alpha)
			if checkPrecedence(c, k, base, ms, o0+j, "c:modifier-lists") {
				pc.add(1)
			}
			if ki%5 == 0 && j == 500 {
				got, _ := build(c, k, ms, o0+j, "c")
				if got != nil {
					c.Sample(map[string]any{"scope": "c", "case": k.describe() + modsString(ms), "result": got.Describe()})
				}
			}
		})
		ord += lists
	}
	c.Nontrivial(pc.load())
	var an, in []string
	for _, m := range alpha {
		an = append(an, m.String())
	}
	for _, k := range ins {
		in = append(in, k.describe())
	}
	c.Scope("c:modifier-lists", "alphabet", an, "max_list_length", maxLen, "lists_per_input", lists, "inputs", in, "cases", pc.load(),
		"oracle", "library builder(in, ms...) == reference fold(ms, library builder(in)) on every header field and the whole option map; xid compared where the builder or a modifier fixes it")
	ord += runHistories(c, ord)
	c.Assume("reference rules: DESIGN.md Appendix E (only what the statement says; a builder may add further options)",
		"an input option present with an empty value may be echoed empty or omitted (DESIGN §8a-3)",
		"net.IP forms: nil ≡ 0.0.0.0, 4-byte ≡ IPv4-mapped 16-byte (what ToBytes writes)",
		"option codes are passed to WithRequestedOptions / WithoutOption as the package's named constants where one exists")
}
