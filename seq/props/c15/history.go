package c15

// Scope (d): histories of builder calls. The builders are functions of their arguments: a packet
// already built stays what it was while further packets are built (d1), and a caller that keeps
// its modifiers in a slice with spare capacity and passes it to one builder after another (the
// way a client drives DISCOVER then REQUEST) gets, each time, defaults first and its own
// modifiers after them - and finds its slice unchanged (d2).

import (
	"bytes"
	"fmt"
	"reflect"

	"github.com/insomniacslk/dhcp/dhcpv4"
	"verif/seq/fw"
	ref "verif/seq/ref/v4build"
)

func runHistories(c *fw.Ctx, ord int64) (cases int64) {
	// the modifier alphabet of scope c plus second instances of the list-valued modifiers, so that A and B can be
	// built with *different* requested-option lists / option-82 values (state shared between packets only shows then)
	alpha := append(Alphabet(), ref.Mod{Kind: ref.MRequestedOptions, Codes: []uint8{66, 67}}, ref.Mod{Kind: ref.MGeneric, Code: 82, Val: []byte{2, 3, 'r', 'i', 'd'}})
	ins := precedenceInputs()
	lists := numLists(len(alpha), 1) // the empty list and every single modifier
	bases := make([]*ref.Packet, len(ins))
	usable := make([]bool, len(ins))
	for i, k := range ins {
		if k.decoded && !decodedInputOK(c, k.sp) {
			continue
		}
		if b, ok := build(c, k, nil, ord, "d:histories"); ok {
			bases[i], usable[i] = b, true
		}
	}
	type job struct{ a, b int }
	var jobs []job
	for a := range ins {
		for b := range ins {
			if usable[a] && usable[b] && (b == a || b == (a+1)%len(ins) || b == (a+5)%len(ins)) {
				jobs = append(jobs, job{a, b})
			}
		}
	}
	var n atomicCounter
	c.Range(int64(len(jobs))*lists*lists, func(i int64) {
		jb := jobs[i/(lists*lists)]
		ms1, ms2 := listAt((i/lists)%lists, alpha), listAt(i%lists, alpha)
		ka, kb := ins[jb.a], ins[jb.b]
		scope := "d1:earlier-result-unchanged-by-later-builds"
		desc := func() string {
			return "A := " + ka.describe() + modsString(ms1) + " ; then B := " + kb.describe() + modsString(ms2)
		}
		// --- d1
		inA, hwA, ipA, errA := ka.libArgs()
		inB, hwB, ipB, errB := kb.libArgs()
		if errA != nil || errB != nil {
			return
		}
		lm := func(ms []ref.Mod) []dhcpv4.Modifier {
			out := make([]dhcpv4.Modifier, len(ms))
			for j, m := range ms {
				out[j] = libMod(m)
			}
			return out
		}
		var A, B *dhcpv4.DHCPv4
		var encA []byte
		var refA *ref.Packet
		if pv, st := fw.Safe(func() {
			A, _ = call(ka.b, inA, hwA, ipA, lm(ms1))
			if A != nil {
				encA = A.ToBytes()
				refA, _ = toRef(A)
			}
			B, _ = call(kb.b, inB, hwB, ipB, lm(ms2))
		}); pv != nil || A == nil || B == nil || refA == nil {
			if pv != nil {
				c.Report(fw.Violation{Fingerprint: "builders|panic|" + fw.PanicSite(st), Order: ord + i, Scope: scope, Input: desc(), Observed: fmt.Sprint(pv), Expected: "two packets"})
			}
			return
		}
		n.add(1)
		refA2, _ := toRef(A)
		if f, d := ref.Diff(refA2, refA, true); f != "" || !bytes.Equal(A.ToBytes(), encA) {
			c.Report(fw.Violation{Fingerprint: ka.b.String() + "|earlier-result-changed-by-a-later-build|" + f, Order: ord + i, Scope: scope, Input: desc(),
				Observed: "A after B was built: " + d + "  " + refA2.Describe(), Expected: "A as it was: " + refA.Describe(),
				Explain: "packets built by separate calls share memory: building B changed A"})
			return
		}
		if rb, why := toRef(B); why == "" {
			want := ref.Fold(bases[jb.b], ms2)
			if f, d := ref.Diff(rb, want, kb.b.XidFixed() || ref.FixesXid(ms2)); f != "" {
				c.Report(fw.Violation{Fingerprint: kb.b.String() + "|result-depends-on-an-earlier-build|" + f, Order: ord + i, Scope: scope, Input: desc(),
					Observed: d + "   B: " + rb.Describe(), Expected: "B = fold(modifiers, builder(in)) = " + want.Describe(),
					Explain: "state left behind by building A shows up in B"})
				return
			}
		}
		// --- d2: the caller's own slice, with spare capacity, handed to two builders in a row
		if len(ms1) == 0 {
			return
		}
		scope = "d2:callers-modifier-slice-reused"
		mods := make([]dhcpv4.Modifier, 0, 16)
		mods = append(mods, lm(ms1)...)
		ptr := func() []uintptr {
			var p []uintptr
			for _, m := range mods[:cap(mods)][:len(ms1)] {
				p = append(p, reflect.ValueOf(m).Pointer())
			}
			return p
		}
		before := ptr()
		inA, hwA, ipA, _ = ka.libArgs()
		inB, hwB, ipB, _ = kb.libArgs()
		var P1, P2 *dhcpv4.DHCPv4
		if pv, _ := fw.Safe(func() {
			P1, _ = call(ka.b, inA, hwA, ipA, mods)
			P2, _ = call(kb.b, inB, hwB, ipB, mods)
		}); pv != nil || P1 == nil || P2 == nil {
			return
		}
		after := ptr()
		if !reflect.DeepEqual(before, after) {
			c.Report(fw.Violation{Fingerprint: "builders|callers-modifier-slice-rewritten", Order: ord + i, Scope: scope, Input: desc() + " with the same slice mods (cap 16) passed as mods... to both",
				Observed: "the caller's slice holds other functions after the calls", Expected: "the caller's modifiers, untouched"})
			return
		}
		for _, x := range []struct {
			p    *dhcpv4.DHCPv4
			k    kase
			base *ref.Packet
		}{{P1, ka, bases[jb.a]}, {P2, kb, bases[jb.b]}} {
			if rp, why := toRef(x.p); why == "" {
				want := ref.Fold(x.base, ms1)
				if f, d := ref.Diff(rp, want, x.k.b.XidFixed() || ref.FixesXid(ms1)); f != "" {
					c.Report(fw.Violation{Fingerprint: x.k.b.String() + "(in, mods...)|fold-with-reused-slice:" + f, Order: ord + i, Scope: scope,
						Input:    desc() + " with the same slice mods (len " + fmt.Sprint(len(ms1)) + ", cap 16) passed as mods... to both builders",
						Observed: d + "   result: " + rp.Describe(), Expected: want.Describe(),
						Explain: "defaults first, then the caller's modifiers - also when the caller's slice has spare capacity and is used for several calls"})
					return
				}
			}
		}
	})
	c.Nontrivial(n.load())
	c.Scope("d:histories", "pairs_of_inputs", len(jobs), "modifier_lists", "empty and every single modifier (the 13 of scope c + a second requested-options list + a second option-82 value), for A and for B", "cases", n.load(),
		"d1", "A built, snapshot; B built; A unchanged (fields and encoding) and B equals its own reference fold",
		"d2", "the caller's modifier slice (spare capacity) passed to two builders in a row: both results equal their reference folds, the slice still holds the caller's functions")
	return int64(len(jobs)) * lists * lists
}
