package c01

// S5: values obtained by decoding and then editing. A packet a program received, changed and
// sends on is a packet value like any other. Every option set of S3/S4 (and the long single
// options of S2 at the split boundaries) is encoded and decoded; then ONE edit is made through
// the ways the API offers - a value replaced with UpdateOption, a value extended with append on
// the map entry, a byte of a value changed in place, an option deleted, address and
// hardware-address bytes changed in place - and the edited packet must (a) differ from the
// decoded one exactly by that edit (an independent model: the reference decoding of the first
// encoding with the same edit applied) and (b) round-trip like a built value.

import (
	"bytes"
	"fmt"
	"net"
	"sort"

	"github.com/insomniacslk/dhcp/dhcpv4"
	"verif/seq/adapt"
	"verif/seq/fw"
	"verif/seq/ref/v4ref"
)

type v4edit struct {
	name  string
	lib   func(q *dhcpv4.DHCPv4)
	model func(m *v4ref.Packet)
}

func editsFor(codes []uint8, lens map[uint8]int) []v4edit {
	var out []v4edit
	for _, c := range codes {
		c := c
		n := lens[c]
		repl := bytes.Repeat([]byte{0x5a}, n/2+3)
		out = append(out,
			v4edit{fmt.Sprintf("UpdateOption(%d, %d bytes)", c, len(repl)),
				func(q *dhcpv4.DHCPv4) {
					q.UpdateOption(dhcpv4.OptGeneric(dhcpv4.GenericOptionCode(c), append([]byte(nil), repl...)))
				},
				func(m *v4ref.Packet) { m.Opts[c] = append([]byte(nil), repl...) }},
			v4edit{fmt.Sprintf("Options[%d] = append(Options[%d], 4 bytes)", c, c),
				func(q *dhcpv4.DHCPv4) { q.Options[c] = append(q.Options[c], 0xa1, 0xa2, 0xa3, 0xa4) },
				func(m *v4ref.Packet) { m.Opts[c] = append(append([]byte(nil), m.Opts[c]...), 0xa1, 0xa2, 0xa3, 0xa4) }},
			v4edit{fmt.Sprintf("delete Options[%d]", c),
				func(q *dhcpv4.DHCPv4) { delete(q.Options, c) },
				func(m *v4ref.Packet) { delete(m.Opts, c) }},
		)
		if n > 0 {
			out = append(out, v4edit{fmt.Sprintf("Options[%d][last] ^= 0xff (in place)", c),
				func(q *dhcpv4.DHCPv4) { v := q.Options[c]; v[len(v)-1] ^= 0xff },
				func(m *v4ref.Packet) { v := append([]byte(nil), m.Opts[c]...); v[len(v)-1] ^= 0xff; m.Opts[c] = v }})
		}
	}
	out = append(out,
		v4edit{"UpdateOption(new code 200)",
			func(q *dhcpv4.DHCPv4) {
				q.UpdateOption(dhcpv4.OptGeneric(dhcpv4.GenericOptionCode(200), []byte{1, 2, 3}))
			},
			func(m *v4ref.Packet) { m.Opts[200] = []byte{1, 2, 3} }},
		v4edit{"YourIPAddr[3] ^= 1 (in place)",
			func(q *dhcpv4.DHCPv4) {
				if fw.StdShared(q.YourIPAddr) { // a shared standard address value: replace, do not write into it
					q.YourIPAddr = append(net.IP(nil), q.YourIPAddr...)
				}
				q.YourIPAddr[len(q.YourIPAddr)-1] ^= 1
			},
			func(m *v4ref.Packet) { m.YIAddr[3] ^= 1 }},
		v4edit{"ClientHWAddr[0] ^= 1 (in place)",
			func(q *dhcpv4.DHCPv4) { q.ClientHWAddr[0] ^= 1 },
			func(m *v4ref.Packet) {
				m.CHAddr = append([]byte(nil), m.CHAddr...)
				m.CHAddr[0] ^= 1
				m.CHAddrRaw[0] ^= 1
			}},
		v4edit{"TransactionID[0] ^= 1; ServerHostName += x",
			func(q *dhcpv4.DHCPv4) { q.TransactionID[0] ^= 1; q.ServerHostName += "x" },
			func(m *v4ref.Packet) { m.Xid[0] ^= 1; m.SName += "x" }},
	)
	return out
}

// runEdits runs every edit on a fresh decode of p's encoding. Returns the number of cases.
func runEdits(c *fw.Ctx, desc string, ord int64, p *dhcpv4.DHCPv4) int64 {
	enc0 := p.ToBytes()
	m0, err := v4ref.Decode(enc0)
	if err != nil {
		return 0 // reported by S2-S4
	}
	var codes []uint8
	lens := map[uint8]int{}
	for code, v := range m0.Opts {
		codes = append(codes, code)
		lens[code] = len(v)
	}
	sort.Slice(codes, func(i, j int) bool { return codes[i] < codes[j] })
	if len(codes) > 4 {
		codes = append(codes[:2:2], codes[len(codes)-2:]...)
	}
	var n int64
	for k, e := range editsFor(codes, lens) {
		q, err := dhcpv4.FromBytes(append([]byte(nil), enc0...))
		if err != nil {
			return n
		}
		m, _ := v4ref.Decode(enc0) // a fresh, private model
		in := func() string { return "FromBytes(ToBytes(" + describe(p) + ")), then " + e.name }
		if pv, st := fw.Safe(func() { e.lib(q) }); pv != nil {
			c.Report(fw.Violation{Fingerprint: "dhcpv4.edit|panic|" + fw.PanicSite(st), Order: ord*64 + int64(k), Scope: "S5:" + desc, Input: in(), Observed: fmt.Sprint(pv, " at ", st), Expected: "no panic"})
			continue
		}
		e.model(m)
		n++
		if f, d := adapt.DiffV4(q, m); f != "" {
			c.Report(fw.Violation{Fingerprint: "dhcpv4.decoded-then-edited|edit-changed-something-else|" + f, Order: ord*64 + int64(k), Scope: "S5:" + desc, Input: in(), Observed: d,
				Expected: "the decoded packet differs from its former self by exactly the edit (model: reference decoding of the first encoding with the edit applied)",
				Explain:  "values of a decoded packet share memory with each other: editing one through the API changed another"})
			continue
		}
		Check(c, "S5:"+desc, ord*64+int64(k), q)
	}
	return n
}
