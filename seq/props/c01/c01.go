// Package c01: DHCPv4 encode->decode preserves every header field and option value.
package c01

import (
	"fmt"
	"sync/atomic"

	"github.com/insomniacslk/dhcp/dhcpv4"
	"verif/seq/adapt"
	"verif/seq/fw"
	"verif/seq/ref/v4ref"
	"verif/seq/v4gen"
)

func describe(p *dhcpv4.DHCPv4) string {
	lens := map[uint8]int{}
	for c, v := range p.Options {
		lens[c] = len(v)
	}
	return fmt.Sprintf("op=%d htype=%d hops=%d xid=%x secs=%d flags=%#x ci=%v yi=%v si=%v gi=%v chaddr=%x sname=%dB file=%dB optlens=%v",
		p.OpCode, p.HWType, p.HopCount, p.TransactionID[:], p.NumSeconds, p.Flags, []byte(p.ClientIPAddr), []byte(p.YourIPAddr), []byte(p.ServerIPAddr), []byte(p.GatewayIPAddr),
		[]byte(p.ClientHWAddr), len(p.ServerHostName), len(p.BootFileName), lens)
}

// Check round-trips one packet value; returns the encoding.
func Check(c *fw.Ctx, scope string, ord int64, p *dhcpv4.DHCPv4) []byte {
	var enc []byte
	var q *dhcpv4.DHCPv4
	var err error
	if pv, st := fw.Safe(func() { enc = p.ToBytes(); q, err = dhcpv4.FromBytes(append([]byte(nil), enc...)) }); pv != nil {
		c.Report(fw.Violation{Fingerprint: "dhcpv4.roundtrip|panic|" + fw.PanicSite(st), Order: ord, Scope: scope, Input: describe(p), Observed: fmt.Sprint(pv, " at ", st), Expected: "no panic"})
		return nil
	}
	if err != nil {
		c.Report(fw.Violation{Fingerprint: "dhcpv4.roundtrip|decode-error|" + scope, Order: ord, Scope: scope, Input: describe(p), Observed: "FromBytes(ToBytes(p)) failed: " + err.Error(), Expected: "decodes",
			Explain: "encoding: " + fw.HexShort(enc)})
		return enc
	}
	ref, rerr := v4ref.Decode(enc)
	if rerr != nil {
		c.Report(fw.Violation{Fingerprint: "dhcpv4.roundtrip|ref-rejects-encoding|" + scope, Order: ord, Scope: scope, Input: describe(p), Observed: rerr.Error(), Expected: "reference decoder accepts the library's encoding", Explain: fw.HexShort(enc)})
		return enc
	}
	if f, d := adapt.DiffV4(p, ref); f != "" {
		c.Report(fw.Violation{Fingerprint: "dhcpv4.ToBytes|wire-differs-from-value|" + f, Order: ord, Scope: scope, Input: describe(p), Observed: d, Expected: "the bytes on the wire mean the packet's field values (reference decoder)", Explain: fw.HexShort(enc)})
		return enc
	}
	if f, d := adapt.DiffV4(q, ref); f != "" {
		c.Report(fw.Violation{Fingerprint: "dhcpv4.FromBytes(ToBytes)|value-differs|" + f, Order: ord, Scope: scope, Input: describe(p), Observed: d, Expected: "decoded value equals the original", Explain: fw.HexShort(enc)})
	}
	return enc
}

func Run(c *fw.Ctx) {
	c.SetRule("packet values enumerated injectively over the listed field alphabets; every case is non-trivial (a full encode, library decode and reference decode with field-by-field comparison)")
	forms := 3
	if c.Thorough() {
		forms = 4
	}
	n := v4gen.HeaderSpace(forms)
	c.Range(n, func(i int64) {
		p := v4gen.Header(i, forms)
		Check(c, "S1:header-product", i, p)
		c.Nontrivial(1)
		if i%5000011 == 3 {
			c.Sample(describe(p))
		}
	})
	c.Scope("S1:header-product", "cases", n, "address_forms", forms, "hwaddr_len", "0..16", "sname_len", v4gen.SNameL, "file_len", v4gen.FileL)
	// header variants combined with options: a few headers x option sets
	cnt := v4gen.OptionSets(c.Thorough(), func(ord int64, desc string, o dhcpv4.Options) {
		p := v4gen.Base()
		p.Options = o
		Check(c, desc, n+ord, p)
		c.Eval(1)
		c.Nontrivial(1)
		if ord%977 == 5 {
			c.Sample(describe(p))
		}
	})
	// S5: decoded-then-edited values (edit.go)
	var nEd atomic.Int64
	type src struct {
		ord  int64
		desc string
		p    *dhcpv4.DHCPv4
	}
	var srcs []src
	v4gen.OptionSets(c.Thorough(), func(ord int64, desc string, o dhcpv4.Options) {
		if desc == "S2" {
			// single options: the lengths around every split boundary only
			keep := false
			for _, v := range o {
				for _, b := range v4gen.BoundaryLens {
					if len(v) == b || len(v) == 1275 {
						keep = true
					}
				}
			}
			if !keep {
				return
			}
		}
		p := v4gen.Base()
		p.Options = o
		srcs = append(srcs, src{ord, desc, p})
	})
	c.Range(int64(len(srcs)), func(i int64) {
		s := srcs[i]
		k := runEdits(c, s.desc, n+cnt+s.ord, s.p)
		nEd.Add(k)
		c.Nontrivial(k)
	})
	c.Eval(nEd.Load())
	c.Scope("S5:decoded-then-edited", "sources", len(srcs), "cases", nEd.Load(), "edits", "per option (first two and last two codes): UpdateOption with a value of another length, append on the map entry, delete, last byte flipped in place; a new option; yiaddr / chaddr bytes in place; xid and sname")
	c.Scope("S2-S4:option-sets", "cases", cnt, "single_option_lengths", "0..1026,1275,1276,2040,4096", "boundary_lengths", v4gen.BoundaryLens)
	c.Assume("reference decoder v4ref (stdlib only)", "nil == 0.0.0.0 and 4-byte == IPv4-mapped addresses (statement)")
}
