// Package c18: the raw broadcast UDP connection (nclient4.BroadcastRawUDPConn)
// emits valid IPv4/UDP frames and reads only its own.
//
// Harness: nclient4.NewBroadcastUDPConn wrapped around a scripted in-memory
// net.PacketConn (queue of frames in, log of frames out). Everything is
// sequential. The oracle is the independent RFC 791/768/1071 reference ipref.
//
// Oracle decisions (all within the property statement, see DESIGN.md §5 C18, §8a-5):
//
//   - write side: a transmitted UDP checksum of 0 is accepted only where the
//     RFC 768 computed checksum (complement of the one's-complement sum over
//     pseudo-header + UDP header + payload) is itself 0 — the all-ones/zero
//     ambiguity, leniency 8a-5 (RFC 768 wants ffff there; 0000 verifies
//     arithmetically and every receiver accepts it). Such frames are counted in
//     the evidence. A transmitted 0 with a non-zero computed checksum means the
//     checksum was omitted: violation (clause udp-checksum-omitted). Every
//     non-zero transmitted checksum must verify.
//     The return value n of WriteTo is only required to come with a nil error
//     (the statement does not speak about n; observed values are recorded).
//   - read side, "well-formed IPv4/UDP": >= 20 bytes, version 4, IHL >= 5, header
//     inside the frame, IHL*4+8 <= total length <= frame length, protocol 17.
//     total length > frame length is NOT well-formed (the datagram is
//     incomplete) and must be skipped; total length < frame length is link
//     padding and the payload ends at the total length.
//   - read side, UNSPECIFIED (either skipped, or delivered with a payload that
//     never extends past the IP total length): UDP length field inconsistent
//     with the IP total length (delivered payload may be bounded by the IP total
//     length or by the smaller UDP length), wrong IP header checksum, wrong
//     non-zero UDP checksum (the statement does not say incoming checksums are
//     verified), and frames longer than 60+8+len(b) when the caller's buffer b
//     is smaller than the payload (the underlying read may truncate them).
//   - caller buffer smaller than the payload: n = min(len(b), len(payload)) and
//     b[:n] is the payload prefix (net.PacketConn copy semantics).
//   - bound address configurations: port only (IP nil), port + 4-byte IP, port +
//     the same address as a 16-byte (IPv4-mapped) net.IP; the two spellings
//     denote the same address. A bound 0.0.0.0 is left out (statement silent on
//     whether the unspecified address counts as "set").
//   - fragments and a nil bound address are outside the enumerated space.
package c18

import (
	"errors"
	"fmt"
	"net"
	"strconv"
	"strings"
	"sync"
	"sync/atomic"

	"github.com/insomniacslk/dhcp/dhcpv4/client4"
	"github.com/insomniacslk/dhcp/dhcpv4/nclient4"
	"verif/seq/fw"
	"verif/seq/ref/ipref"
)

// ---------------------------------------------------------------- scripted conn

var errDrained = errors.New("c18: scripted queue drained")

type linkAddr struct{}

func (linkAddr) Network() string { return "scripted-link" }
func (linkAddr) String() string  { return "02:00:00:00:00:01" }

type wrec struct {
	b    []byte
	addr net.Addr
}

// scripted is a plain in-memory net.PacketConn: ReadFrom hands out the queued
// frames one per call (copied into the caller's buffer, truncated like a
// datagram socket if the buffer is smaller), then errDrained; WriteTo logs.
type scripted struct {
	net.PacketConn // nil: only ReadFrom / WriteTo are ever called
	frames         [][]byte
	pos            int
	drained        int
	writes         []wrec
}

func (s *scripted) ReadFrom(p []byte) (int, net.Addr, error) {
	if s.pos >= len(s.frames) {
		s.drained++
		return 0, nil, errDrained
	}
	n := copy(p, s.frames[s.pos])
	s.pos++
	return n, linkAddr{}, nil
}

func (s *scripted) WriteTo(p []byte, a net.Addr) (int, error) {
	s.writes = append(s.writes, wrec{append([]byte(nil), p...), a})
	return len(p), nil
}

// ---------------------------------------------------------------- helpers

var distinctSeen sync.Map

func distinct(c *fw.Ctx, k string) {
	if _, ok := distinctSeen.LoadOrStore(k, struct{}{}); !ok {
		c.Distinct(k)
	}
}

func ip4s(a [4]byte) string { return fmt.Sprintf("%d.%d.%d.%d", a[0], a[1], a[2], a[3]) }

func ipLit(ip net.IP) string {
	if ip == nil {
		return "nil"
	}
	var p []string
	for _, b := range ip {
		p = append(p, fmt.Sprint(b))
	}
	return "net.IP{" + strings.Join(p, ",") + "}"
}

const goTestConn = `type rec struct {
	net.PacketConn
	in  [][]byte
	out [][]byte
}

func (r *rec) ReadFrom(p []byte) (int, net.Addr, error) {
	if len(r.in) == 0 {
		return 0, nil, io.EOF
	}
	n := copy(p, r.in[0])
	r.in = r.in[1:]
	return n, nil, nil
}
func (r *rec) WriteTo(p []byte, a net.Addr) (int, error) {
	r.out = append(r.out, append([]byte(nil), p...))
	return len(p), nil
}
`

// ---------------------------------------------------------------- write side

var patNames = []string{"zeros", "ff", "ramp", "ff00-alternating", "00ff-alternating", "single-1-bit",
	"sum-ffff(computed-udp-checksum-0)", "sum-0001(computed-udp-checksum-fffe)"}

type srcSpec struct {
	ip   net.IP
	port int
}

var (
	srcIPs = []net.IP{nil, {0, 0, 0, 0}, net.IPv4(255, 255, 255, 255), {10, 0, 0, 1}, net.IPv4(127, 255, 0, 1), net.IPv4(10, 0, 0, 1)}
	dstIPs = []net.IP{net.IPv4(0, 0, 0, 0), {255, 255, 255, 255}, net.IPv4(10, 0, 0, 1), {127, 255, 0, 1}}
	ports  = []int{0, 67, 68, 65535}
)

func to4(ip net.IP) (a [4]byte) {
	if ip == nil {
		return
	}
	copy(a[:], ip.To4())
	return
}

func clone(ip net.IP) net.IP {
	if ip == nil {
		return nil
	}
	return append(net.IP(nil), ip...)
}

// makePayload builds the payload for a pattern; the two checksum-target
// patterns depend on addresses and ports.
func makePayload(pat, n int, src, dst [4]byte, sport, dport int) []byte {
	b := make([]byte, n)
	switch pat {
	case 0:
	case 1:
		for i := range b {
			b[i] = 0xff
		}
	case 2:
		for i := range b {
			b[i] = byte(i)
		}
	case 3:
		for i := range b {
			if i%2 == 0 {
				b[i] = 0xff
			}
		}
	case 4:
		for i := range b {
			if i%2 == 1 {
				b[i] = 0xff
			}
		}
	case 5:
		if n > 0 {
			b[n-1] = 0x01
		}
	case 6, 7:
		for i := range b {
			b[i] = byte(0x30 + 7*i)
		}
		if n >= 2 {
			b[0], b[1] = 0, 0
			seg := make([]byte, 8+n)
			seg[0], seg[1] = byte(sport>>8), byte(sport)
			seg[2], seg[3] = byte(dport>>8), byte(dport)
			seg[4], seg[5] = byte((8+n)>>8), byte(8+n)
			copy(seg[8:], b)
			_, raw := ipref.UDPChecksum(src, dst, seg)
			s := ^raw // folded one's-complement sum with first payload word zero
			var w uint16
			if pat == 6 {
				w = ^s // s (+) ^s = ffff
			} else {
				w = ipref.Fold(1 + uint64(^s)) // s (+) w = 0001
			}
			b[0], b[1] = byte(w>>8), byte(w)
		}
	}
	return b
}

type wcounters struct {
	zeroCk, zeroCkComputedZero, computedZeroSentFFFF, nIsPayload, nIsFrame, nOther atomic.Int64
}

var wc wcounters

func lenClass(n int) string {
	switch {
	case n == 0:
		return "payload-empty"
	case n%2 == 1:
		return "payload-len-odd"
	}
	return "payload-len-even"
}

func goTestWrite(bound, dst *net.UDPAddr, payload []byte) string {
	return fmt.Sprintf(`%s
func TestReplay(t *testing.T) {
	r := &rec{}
	c := nclient4.NewBroadcastUDPConn(r, &net.UDPAddr{IP: %s, Port: %d})
	payload, _ := hex.DecodeString(%q)
	n, err := c.WriteTo(payload, &net.UDPAddr{IP: %s, Port: %d})
	t.Logf("n=%%d err=%%v frames=%%x", n, err, r.out) // verify header/UDP checksums per RFC 1071/768
}`, goTestConn, ipLit(bound.IP), bound.Port, fw.Hex(payload), ipLit(dst.IP), dst.Port)
}

// checkWrite runs one WriteTo and verifies the emitted frame with ipref.
func checkWrite(c *fw.Ctx, scope string, order int64, sIP net.IP, sPort int, dIP net.IP, dPort int, pat, n int) {
	src4, dst4 := to4(sIP), to4(dIP)
	payload := makePayload(pat, n, src4, dst4, sPort, dPort)
	want := append([]byte(nil), payload...)
	bound := &net.UDPAddr{IP: clone(sIP), Port: sPort}
	dst := &net.UDPAddr{IP: clone(dIP), Port: dPort}
	s := &scripted{}
	conn := nclient4.NewBroadcastUDPConn(s, bound)
	in := fmt.Sprintf("bound=%s:%d dst=%s:%d pattern=%s len=%d payload=%s", ipLit(sIP), sPort, ipLit(dIP), dPort, patNames[pat], n, fw.Hex(want))
	cls := lenClass(n)
	rep := func(clause, obs, exp, why string) {
		c.Report(fw.Violation{Fingerprint: "BroadcastRawUDPConn.WriteTo|" + clause + "|" + cls, Order: order, Scope: scope, Input: in,
			Observed: obs, Expected: exp, Explain: why,
			GoTest: goTestWrite(&net.UDPAddr{IP: sIP, Port: sPort}, &net.UDPAddr{IP: dIP, Port: dPort}, want)})
	}
	var wn int
	var werr error
	if pv, st := fw.Safe(func() { wn, werr = conn.WriteTo(payload, dst) }); pv != nil {
		rep("panic", fmt.Sprintf("panic: %v at %s", pv, st), "one frame written, nil error", "WriteTo panicked")
		return
	}
	if werr != nil {
		rep("error", fmt.Sprintf("err=%v", werr), "nil error", "WriteTo of a datagram to a *net.UDPAddr failed although the underlying conn accepted everything")
		return
	}
	if len(s.writes) != 1 {
		rep("frames-per-datagram", fmt.Sprintf("%d frames written", len(s.writes)), "exactly 1", "every datagram leaves as one frame")
		return
	}
	w := s.writes[0]
	f := w.b
	if w.addr == nil || !strings.EqualFold(w.addr.String(), "ff:ff:ff:ff:ff:ff") {
		rep("link-address", fmt.Sprintf("link destination %v", w.addr), "ff:ff:ff:ff:ff:ff", "frames go to the broadcast MAC")
	}
	switch wn {
	case n:
		wc.nIsPayload.Add(1)
	case len(f):
		wc.nIsFrame.Add(1)
	default:
		wc.nOther.Add(1)
	}
	ip, u, perr := ipref.ParseFrame(f)
	if perr != nil {
		rep("not-well-formed:"+ipref.ReasonOf(perr), "frame "+fw.HexShort(f), "a well-formed IPv4+UDP datagram", "reference parser rejects the emitted frame")
		return
	}
	bad := func(clause string, got, exp any) {
		rep(clause, fmt.Sprintf("%s=%v; frame %s", clause, got, fw.HexShort(f)), fmt.Sprintf("%s=%v", clause, exp), "emitted frame field differs from the statement")
	}
	if ip.IHL != 5 {
		bad("ihl", ip.IHL, 5)
	}
	if ip.TotalLen != 28+n {
		bad("total-length", ip.TotalLen, 28+n)
	}
	if len(f) != ip.TotalLen {
		bad("frame-length", len(f), ip.TotalLen)
	}
	if u.Length != 8+n {
		bad("udp-length", u.Length, 8+n)
	}
	if ip.TTL == 0 {
		bad("ttl", 0, ">=1 (RFC 791: a datagram with TTL 0 must be destroyed)")
	}
	if ip.Flags&4 != 0 {
		bad("reserved-flag", 1, 0)
	}
	if ip.Src != src4 {
		bad("source-address", ip4s(ip.Src), ip4s(src4))
	}
	if ip.Dst != dst4 {
		bad("destination-address", ip4s(ip.Dst), ip4s(dst4))
	}
	if int(u.SrcPort) != sPort {
		bad("source-port", u.SrcPort, sPort)
	}
	if int(u.DstPort) != dPort {
		bad("destination-port", u.DstPort, dPort)
	}
	if string(u.Payload) != string(want) {
		bad("payload", fw.HexShort(u.Payload), fw.HexShort(want))
	}
	if !ipref.HeaderChecksumOK(ip.Header) {
		bad("header-checksum", fmt.Sprintf("%04x", ip.Checksum), fmt.Sprintf("%04x", ipref.HeaderChecksum(ip.Header)))
	}
	tx, raw := ipref.UDPChecksum(ip.Src, ip.Dst, ip.Body)
	switch ipref.VerifyUDP(ip, u) {
	case ipref.UDPOK:
		if raw == 0 {
			wc.computedZeroSentFFFF.Add(1)
		}
	case ipref.UDPNoChecksum:
		wc.zeroCk.Add(1)
		if raw == 0 {
			// the all-ones/zero ambiguity: the computed checksum is (one's-complement) zero and was
			// sent as 0000 instead of ffff; it verifies arithmetically and any receiver accepts it
			wc.zeroCkComputedZero.Add(1)
			distinct(c, "write: computed UDP checksum 0 transmitted as 0000 — accepted (8a-5)")
		} else {
			rep("udp-checksum-omitted", fmt.Sprintf("udp-checksum=0000 (no checksum); frame %s", fw.HexShort(f)), fmt.Sprintf("udp-checksum=%04x", tx),
				"the frame carries no UDP checksum although the RFC 768 checksum of this datagram is non-zero; a transmitted 0 is accepted only where the computed checksum is itself 0")
		}
	default:
		bad("udp-checksum", fmt.Sprintf("%04x", u.Checksum), fmt.Sprintf("%04x", tx))
	}
	c.Nontrivial(1)
}

func checkWriteBadAddr(c *fw.Ctx, order int64) {
	type strAddr struct{ linkAddr }
	cases := []struct {
		name string
		a    net.Addr
	}{{"nil", nil}, {"*net.IPAddr", &net.IPAddr{IP: net.IP{10, 0, 0, 1}}}, {"*net.TCPAddr", &net.TCPAddr{IP: net.IP{10, 0, 0, 1}, Port: 67}},
		{"*net.UnixAddr", &net.UnixAddr{Name: "x", Net: "unixgram"}}, {"other", strAddr{}}}
	for i, tc := range cases {
		s := &scripted{}
		conn := nclient4.NewBroadcastUDPConn(s, &net.UDPAddr{IP: net.IP{10, 0, 0, 1}, Port: 68})
		var n int
		var err error
		pv, st := fw.Safe(func() { n, err = conn.WriteTo([]byte{1, 2, 3}, tc.a) })
		c.Eval(1)
		v := fw.Violation{Order: order + int64(i), Scope: "w:non-udp-destination", Input: "destination " + tc.name,
			Expected: "error nclient4.ErrUDPAddrIsRequired, nothing written"}
		switch {
		case pv != nil:
			v.Fingerprint, v.Observed = "BroadcastRawUDPConn.WriteTo|panic|non-udp-destination", fmt.Sprintf("panic: %v at %s", pv, st)
		case !errors.Is(err, nclient4.ErrUDPAddrIsRequired) || len(s.writes) != 0 || n != 0:
			v.Fingerprint, v.Observed = "BroadcastRawUDPConn.WriteTo|documented-error|non-udp-destination", fmt.Sprintf("n=%d err=%v frames=%d", n, err, len(s.writes))
		default:
			c.Nontrivial(1)
			continue
		}
		c.Report(v)
	}
}

func runWrite(c *fw.Ctx, ord *int64) {
	nPat := len(patNames)
	// (w1) every length x every pattern x 4 address pairs (quick) — in thorough subsumed by w2
	type pair struct {
		sIP   net.IP
		sPort int
		dIP   net.IP
		dPort int
	}
	pairs := []pair{
		{nil, 68, net.IP{255, 255, 255, 255}, 67},
		{net.IP{10, 0, 0, 1}, 67, net.IPv4(127, 255, 0, 1), 68},
		{net.IPv4(255, 255, 255, 255), 65535, net.IP{0, 0, 0, 0}, 0},
		{net.IPv4(127, 255, 0, 1), 0, net.IP{10, 0, 0, 1}, 65535},
	}
	if !c.Thorough() {
		n1 := int64(1501 * nPat * len(pairs))
		base := *ord
		c.Range(n1, func(i int64) {
			x := int(i)
			p := pairs[x%len(pairs)]
			x /= len(pairs)
			pat := x % nPat
			l := x / nPat
			checkWrite(c, "w1:all-lengths", base+i, p.sIP, p.sPort, p.dIP, p.dPort, pat, l)
		})
		*ord += n1
		c.Scope("w1:all-lengths x patterns x 4 address pairs", "lengths", "0..1500 (every one)", "patterns", patNames,
			"address_pairs", "nil:68->255.255.255.255:67, 10.0.0.1:67->127.255.0.1:68, 255.255.255.255:65535->0.0.0.0:0, 127.255.0.1:0->10.0.0.1:65535", "cases", n1)
	}
	// (w2) all source x destination address/port pairs x patterns x lengths
	lens := []int{0, 1, 2, 3, 1499, 1500}
	if c.Thorough() {
		lens = lens[:0]
		for l := 0; l <= 1500; l++ {
			lens = append(lens, l)
		}
	}
	nAddr := len(srcIPs) * len(ports) * len(dstIPs) * len(ports)
	n2 := int64(len(lens) * nPat * nAddr)
	base := *ord
	c.Range(n2, func(i int64) {
		x := int(i)
		sp := ports[x%len(ports)]
		x /= len(ports)
		dp := ports[x%len(ports)]
		x /= len(ports)
		si := srcIPs[x%len(srcIPs)]
		x /= len(srcIPs)
		di := dstIPs[x%len(dstIPs)]
		x /= len(dstIPs)
		pat := x % nPat
		l := lens[x/nPat]
		checkWrite(c, "w2:all-address-pairs", base+i, si, sp, di, dp, pat, l)
	})
	*ord += n2
	c.Scope("w2:all source/destination pairs x patterns x lengths", "bound_ips", "nil, 0.0.0.0, 255.255.255.255(16-byte), 10.0.0.1, 127.255.0.1(16-byte), 10.0.0.1(16-byte)",
		"destination_ips", "0.0.0.0(16-byte), 255.255.255.255, 10.0.0.1(16-byte), 127.255.0.1", "ports", ports, "patterns", patNames,
		"lengths", map[bool]string{false: "0,1,2,3,1499,1500", true: "0..1500 (every one)"}[c.Thorough()], "cases", n2)
	// (w4) histories on ONE connection: the caller reuses its destination value and its payload buffer, overwriting both in
	// place between writes (every frame still carries the destination, ports, payload and checksums of its own write)
	{
		dsts := []net.IP{{255, 255, 255, 255}, {10, 0, 0, 2}, {10, 0, 0, 3}, {192, 168, 1, 1}, {0, 0, 0, 0}}
		dports := []int{67, 1067}
		plens := []int{0, 1, 301}
		nD := len(dsts) * len(dports)
		n4 := int64(nD * nD * nD * len(plens) * 2)
		base := *ord
		c.Range(n4, func(i int64) {
			x := int(i)
			sixteen := x%2 == 1
			x /= 2
			pl := plens[x%len(plens)]
			x /= len(plens)
			var steps [3]int
			for k := range steps {
				steps[k] = x % nD
				x /= nD
			}
			s := &scripted{}
			bound := &net.UDPAddr{IP: net.IP{10, 0, 0, 1}, Port: 68}
			conn := nclient4.NewBroadcastUDPConn(s, bound)
			mk := func(ip net.IP) net.IP {
				if sixteen {
					return net.IPv4(ip[0], ip[1], ip[2], ip[3])
				}
				return clone(ip)
			}
			addr := &net.UDPAddr{IP: mk(dsts[steps[0]/len(dports)]), Port: dports[steps[0]%len(dports)]}
			payload := make([]byte, pl)
			var in []string
			for k, st := range steps {
				d, dp := dsts[st/len(dports)], dports[st%len(dports)]
				copy(addr.IP, mk(d)) // in place: the same *net.UDPAddr and the same backing array for every write
				addr.Port = dp
				for j := range payload {
					payload[j] = byte(j*3 + k*0x55 + 1)
				}
				want := append([]byte(nil), payload...)
				in = append(in, fmt.Sprintf("WriteTo(%d bytes pattern %d, %s:%d)", pl, k, ip4s(to4(d)), dp))
				rep := func(clause, obs string) {
					c.Report(fw.Violation{Fingerprint: "BroadcastRawUDPConn.WriteTo|history:" + clause + "|write " + strconv.Itoa(k+1), Order: base + i, Scope: "w4:write histories",
						Input:    "one connection bound to 10.0.0.1:68; the caller's *net.UDPAddr (IP bytes overwritten in place, " + map[bool]string{false: "4", true: "16"}[sixteen] + "-byte form) and payload buffer are reused: " + strings.Join(in, "; "),
						Observed: obs, Expected: "a well-formed frame for this write's destination, port and payload with verifying checksums",
						Explain: "what a connection remembers from earlier writes (a cached pseudo-header sum, a retained destination) must not leak into later frames"})
				}
				before := len(s.writes)
				var werr error
				if pv, stk := fw.Safe(func() { _, werr = conn.WriteTo(payload, addr) }); pv != nil {
					rep("panic", fmt.Sprintf("panic: %v at %s", pv, stk))
					return
				}
				if werr != nil || len(s.writes) != before+1 {
					rep("frames-per-datagram", fmt.Sprintf("err=%v, %d frames written by this call", werr, len(s.writes)-before))
					return
				}
				f := s.writes[before].b
				ip, u, perr := ipref.ParseFrame(f)
				switch {
				case perr != nil:
					rep("not-well-formed", "reference parser: "+ipref.ReasonOf(perr)+" frame "+fw.HexShort(f))
				case ip.Dst != to4(d) || int(u.DstPort) != dp || ip.Src != [4]byte{10, 0, 0, 1} || u.SrcPort != 68:
					rep("addresses", fmt.Sprintf("frame goes %s:%d -> %s:%d", ip4s(ip.Src), u.SrcPort, ip4s(ip.Dst), u.DstPort))
				case string(u.Payload) != string(want):
					rep("payload", "payload "+fw.HexShort(u.Payload)+", written "+fw.HexShort(want))
				case !ipref.HeaderChecksumOK(ip.Header):
					rep("header-checksum", "IP header checksum does not verify; frame "+fw.HexShort(f))
				case ipref.VerifyUDP(ip, u) == ipref.UDPBad:
					rep("udp-checksum", "UDP checksum does not verify under RFC 768; frame "+fw.HexShort(f))
				}
			}
			// frames written earlier must not have been rewritten by later writes (the scripted conn copies, so this
			// only guards the harness) - and the caller's values are the caller's: WriteTo must not have changed them
			if addr.Port != dports[steps[2]%len(dports)] || to4(addr.IP) != to4(dsts[steps[2]/len(dports)]) {
				c.Report(fw.Violation{Fingerprint: "BroadcastRawUDPConn.WriteTo|history:caller-address-modified", Order: base + i, Scope: "w4:write histories",
					Input: strings.Join(in, "; "), Observed: "the caller's destination value reads " + addr.String() + " after the writes", Expected: "unchanged"})
			}
			c.Nontrivial(1)
		})
		*ord += n4
		c.Scope("w4:write histories on one connection (caller reuses and overwrites its destination value and payload buffer)", "destinations", "255.255.255.255, 10.0.0.2, 10.0.0.3, 192.168.1.1, 0.0.0.0 x ports 67, 1067",
			"history_length", 3, "payload_lengths", plens, "ip_forms", "4-byte, 16-byte", "cases", n4)
	}
	checkWriteBadAddr(c, *ord)
	*ord += 8
	c.Scope("w3:non-*net.UDPAddr destination", "kinds", "nil, *net.IPAddr, *net.TCPAddr, *net.UnixAddr, foreign type")
	c.Extra("write_udp_checksum_transmitted_zero(all)", wc.zeroCk.Load())
	c.Extra("write_udp_checksum_transmitted_zero_where_rfc768_computed_value_is_zero(accepted, 8a-5; sender should send ffff)", wc.zeroCkComputedZero.Load())
	c.Extra("write_udp_checksum_computed_zero_transmitted_ffff", wc.computedZeroSentFFFF.Load())
	c.Extra("write_return_value_n", map[string]int64{"n==len(payload)": wc.nIsPayload.Load(), "n==len(frame)": wc.nIsFrame.Load(), "other": wc.nOther.Load()})
}

// MakeRawUDPPacket: layout only.
func runMakeRaw(c *fw.Ctx, ord *int64) {
	type pair struct {
		sIP   net.IP
		sPort int
		dIP   net.IP
		dPort int
	}
	var pairs []pair
	for i, si := range srcIPs[1:] {
		for j, di := range dstIPs {
			pairs = append(pairs, pair{si, ports[(i+j)%4], di, ports[(i+2*j+1)%4]})
		}
	}
	n := int64(1501 * 2 * len(pairs))
	base := *ord
	c.Range(n, func(i int64) {
		x := int(i)
		p := pairs[x%len(pairs)]
		x /= len(pairs)
		pat := []int{1, 2}[x%2]
		l := x / 2
		payload := makePayload(pat, l, [4]byte{}, [4]byte{}, 0, 0)
		want := append([]byte(nil), payload...)
		in := fmt.Sprintf("client=%s:%d server=%s:%d len=%d pattern=%s", ipLit(p.sIP), p.sPort, ipLit(p.dIP), p.dPort, l, patNames[pat])
		rep := func(clause, obs, exp string) {
			c.Report(fw.Violation{Fingerprint: "client4.MakeRawUDPPacket|" + clause + "|" + lenClass(l), Order: base + i, Scope: "m:MakeRawUDPPacket",
				Input: in, Observed: obs, Expected: exp, Explain: "layout of the raw packet differs from RFC 791/768",
				GoTest: fmt.Sprintf(`func TestReplay(t *testing.T) {
	payload, _ := hex.DecodeString(%q)
	f, err := client4.MakeRawUDPPacket(payload, net.UDPAddr{IP: %s, Port: %d}, net.UDPAddr{IP: %s, Port: %d})
	t.Logf("%%x %%v", f, err)
}`, fw.Hex(want), ipLit(p.dIP), p.dPort, ipLit(p.sIP), p.sPort)})
		}
		var f []byte
		var err error
		if pv, st := fw.Safe(func() {
			f, err = client4.MakeRawUDPPacket(payload, net.UDPAddr{IP: clone(p.dIP), Port: p.dPort}, net.UDPAddr{IP: clone(p.sIP), Port: p.sPort})
		}); pv != nil {
			rep("panic", fmt.Sprintf("panic: %v at %s", pv, st), "a packet")
			return
		}
		if err != nil {
			rep("error", fmt.Sprint(err), "a packet")
			return
		}
		ip, u, perr := ipref.ParseFrame(f)
		if perr != nil {
			rep("not-well-formed:"+ipref.ReasonOf(perr), fw.HexShort(f), "well-formed IPv4+UDP layout")
			return
		}
		chk := func(clause string, ok bool, got, exp any) {
			if !ok {
				rep(clause, fmt.Sprintf("%v; packet %s", got, fw.HexShort(f)), fmt.Sprint(exp))
			}
		}
		chk("ihl", ip.IHL == 5, ip.IHL, 5)
		chk("total-length", ip.TotalLen == 28+l && len(f) == 28+l, fmt.Sprintf("total=%d len=%d", ip.TotalLen, len(f)), 28+l)
		chk("udp-length", u.Length == 8+l, u.Length, 8+l)
		chk("source-address", ip.Src == to4(p.sIP), ip4s(ip.Src), ip4s(to4(p.sIP)))
		chk("destination-address", ip.Dst == to4(p.dIP), ip4s(ip.Dst), ip4s(to4(p.dIP)))
		chk("source-port", int(u.SrcPort) == p.sPort, u.SrcPort, p.sPort)
		chk("destination-port", int(u.DstPort) == p.dPort, u.DstPort, p.dPort)
		chk("payload", string(u.Payload) == string(want), fw.HexShort(u.Payload), fw.HexShort(want))
		c.Nontrivial(1)
	})
	*ord += n
	c.Scope("m:client4.MakeRawUDPPacket layout (checksums left to the kernel, not checked)", "lengths", "0..1500 (every one)", "patterns", "ff, ramp",
		"address_pairs", len(pairs), "cases", n)
}

// ---------------------------------------------------------------- read side: reference filter

var (
	me    = [4]byte{10, 0, 0, 1}
	bcast = [4]byte{255, 255, 255, 255}
	other = [4]byte{10, 0, 0, 2}
)

const boundPort = 68

// bound configurations: 0 = port only (IP nil), 1 = port + IP as a 4-byte
// net.IP, 2 = port + the same address as a 16-byte (IPv4-mapped) net.IP, which
// is what net.IPv4, net.ParseIP and net.ResolveUDPAddr return. The 4-byte and
// 16-byte spellings denote the same bound address (same oracle). A bound IP of
// 0.0.0.0 is left out: the statement does not say whether the unspecified
// address counts as "an address is set" (socket convention: it does not) or
// as the literal destination 0.0.0.0.
const nBound = 3

func boundAddr(bi int) *net.UDPAddr {
	switch bi {
	case 0:
		return &net.UDPAddr{Port: boundPort}
	case 1:
		return &net.UDPAddr{IP: net.IP{me[0], me[1], me[2], me[3]}, Port: boundPort}
	}
	return &net.UDPAddr{IP: net.IPv4(me[0], me[1], me[2], me[3]), Port: boundPort}
}

var boundNames = []string{"port-only(:68)", "port+ip(10.0.0.1:68, 4-byte net.IP)", "port+ip(10.0.0.1:68, 16-byte net.IP)"}

const (
	kSkip = iota
	kDeliver
	kEither
)

type expect struct {
	kind  int
	class string   // reference reason (skip / either) or shape (deliver)
	pay   [][]byte // acceptable full payloads
	src   string
}

// classify is the reference filter for one frame.
func classify(f []byte, bi int, bufSize int) expect {
	ip, u, err := ipref.ParseFrame(f)
	if err != nil {
		return expect{kind: kSkip, class: ipref.ReasonOf(err)}
	}
	if u.DstPort != boundPort {
		return expect{kind: kSkip, class: "other-port"}
	}
	if bi >= 1 && ip.Dst != me {
		return expect{kind: kSkip, class: "other-address"}
	}
	e := expect{kind: kDeliver, class: ipref.Shape(ip, u), pay: [][]byte{u.Payload}, src: fmt.Sprintf("%s:%d", ip4s(ip.Src), u.SrcPort)}
	switch {
	case !ipref.LengthConsistent(ip, u):
		e.kind, e.class = kEither, "udp-length-field-inconsistent-with-ip-total-length"
		if u.Length >= 8 && u.Length <= len(ip.Body) {
			e.pay = append(e.pay, ip.Body[8:u.Length])
		}
	case !ipref.HeaderChecksumOK(ip.Header):
		e.kind, e.class = kEither, "wrong-ip-header-checksum"
	case ipref.VerifyUDP(ip, u) == ipref.UDPBad:
		e.kind, e.class = kEither, "wrong-udp-checksum"
	case len(f) > 60+8+bufSize:
		e.kind, e.class = kEither, "frame-longer-than-60+8+len(b)"
	}
	return e
}

type aframe struct {
	name string
	core bool
	b    []byte
	exp  [nBound][2]expect // [bound][buffer index]
}

var seqBufs = []int{1500, 4}

func goTestRead(bi, bufSize int, frames [][]byte) string {
	var q []string
	for _, f := range frames {
		q = append(q, fmt.Sprintf("%q", fw.Hex(f)))
	}
	b := boundAddr(bi)
	return fmt.Sprintf(`%s
func TestReplay(t *testing.T) {
	r := &rec{}
	for _, h := range []string{%s} {
		f, _ := hex.DecodeString(h)
		r.in = append(r.in, f)
	}
	c := nclient4.NewBroadcastUDPConn(r, &net.UDPAddr{IP: %s, Port: %d})
	for {
		b := make([]byte, %d)
		n, a, err := c.ReadFrom(b)
		t.Logf("n=%%d payload=%%x from=%%v err=%%v", n, b[:n], a, err)
		if err != nil {
			break
		}
	}
}`, goTestConn, strings.Join(q, ", "), ipLit(b.IP), b.Port, bufSize)
}

// runSeq feeds one frame sequence through the library and compares every
// ReadFrom result with the reference filter, frame by frame. It returns the
// number of frames the reference requires to be delivered.
func runSeq(c *fw.Ctx, scope string, order int64, bi, bufSize int, frames [][]byte, exp func(k int) expect) {
	s := &scripted{frames: make([][]byte, len(frames))}
	for i, f := range frames {
		s.frames[i] = append([]byte(nil), f...)
	}
	conn := nclient4.NewBroadcastUDPConn(s, boundAddr(bi))
	input := func() string {
		var p []string
		for _, f := range frames {
			p = append(p, fw.Hex(f))
		}
		return fmt.Sprintf("bound=%s len(b)=%d frames=[%s]", boundNames[bi], bufSize, strings.Join(p, " "))
	}
	rep := func(clause, class, obs, expd, why string) {
		c.Report(fw.Violation{Fingerprint: "BroadcastRawUDPConn.ReadFrom|" + clause + "|" + class, Order: order, Scope: scope, Input: input(),
			Observed: obs, Expected: expd, Explain: why, GoTest: goTestRead(bi, bufSize, frames)})
	}
	skipped := func(lo, hi int) {
		for k := lo; k < hi; k++ {
			if e := exp(k); e.kind == kDeliver {
				rep("skipped-own-well-formed-frame", e.class, fmt.Sprintf("frame #%d %s was skipped", k, fw.HexShort(frames[k])),
					fmt.Sprintf("ReadFrom returns payload %s from %s", fw.HexShort(e.pay[0]), e.src),
					"a well-formed IPv4/UDP frame addressed to the bound address was not returned")
			}
		}
	}
	// addresses handed to the caller earlier must stay what they were when returned, whatever is read later
	type keptAddr struct {
		a     net.Addr
		want  string
		k     int
		class string
	}
	var kept []keptAddr
	recheck := func() {
		for i, ka := range kept {
			if got := ka.a.String(); got != ka.want {
				rep("source-address-changed-later", ka.class, fmt.Sprintf("address returned for frame #%d now reads %s", ka.k, got), "still "+ka.want,
					"a source address returned by an earlier ReadFrom was overwritten by a later read")
				kept = append(kept[:i:i], kept[i+1:]...)
				return
			}
		}
	}
	for {
		p0 := s.pos
		b := make([]byte, bufSize)
		for i := range b {
			b[i] = 0xa5
		}
		var n int
		var addr net.Addr
		var err error
		pv, st := fw.Safe(func() { n, addr, err = conn.ReadFrom(b) })
		p1 := s.pos
		recheck()
		if pv != nil {
			class, fr := "no-frame", ""
			if p1 > 0 {
				class, fr = exp(p1-1).class, fw.HexShort(frames[p1-1])
			}
			skipped(p0, p1-1)
			rep("panic", class, fmt.Sprintf("panic: %v at %s while processing frame #%d %s", pv, st, p1-1, fr),
				"frame silently skipped (or returned if well-formed and own); no panic", "ReadFrom panicked on a received frame")
			return
		}
		if s.drained > 0 {
			skipped(p0, p1)
			switch {
			case err == nil:
				rep("end-of-stream", "result-after-queue-drained", fmt.Sprintf("n=%d payload=%s from=%v err=nil", n, fw.HexShort(b[:min(n, len(b))]), addr),
					"the underlying connection's error", "ReadFrom returned a datagram although the underlying connection had no more frames")
			case !errors.Is(err, errDrained):
				rep("end-of-stream", "underlying-error-replaced", fmt.Sprintf("err=%v", err), fmt.Sprintf("err=%v", errDrained), "the underlying connection's error is not passed through")
			}
			return
		}
		if p1 == p0 {
			rep("returned-without-reading", "no-frame", fmt.Sprintf("n=%d err=%v", n, err), "reads a frame", "ReadFrom returned without consuming a frame")
			return
		}
		skipped(p0, p1-1)
		k := p1 - 1
		e := exp(k)
		if err != nil {
			rep("error-while-frames-pending", e.class, fmt.Sprintf("err=%v at frame #%d %s", err, k, fw.HexShort(frames[k])),
				"frame returned or silently skipped", "ReadFrom failed although the underlying read succeeded")
			continue
		}
		if e.kind == kSkip {
			rep("returned-frame-that-must-be-skipped", e.class, fmt.Sprintf("frame #%d %s returned: n=%d payload=%s from=%v", k, fw.HexShort(frames[k]), n, fw.HexShort(b[:min(max(n, 0), len(b))]), addr),
				"frame silently skipped", "a frame that is not a well-formed IPv4/UDP frame for the bound address was returned")
			continue
		}
		okPay := false
		for _, p := range e.pay {
			if m := min(len(p), bufSize); n == m && string(b[:m]) == string(p[:m]) {
				okPay = true
			}
		}
		if !okPay {
			var got string
			if n >= 0 && n <= len(b) {
				got = fw.HexShort(b[:n])
			}
			rep("payload", e.class, fmt.Sprintf("frame #%d %s: n=%d payload=%s", k, fw.HexShort(frames[k]), n, got),
				fmt.Sprintf("n=%d payload=%s (UDP payload bounded by the IP total length, first len(b) bytes)", min(len(e.pay[0]), bufSize), fw.HexShort(e.pay[0][:min(len(e.pay[0]), bufSize)])),
				"returned bytes are not exactly the UDP payload")
		}
		if addr == nil || addr.String() != e.src {
			rep("source-address", e.class, fmt.Sprintf("frame #%d %s: from=%v", k, fw.HexShort(frames[k]), addr), "from="+e.src, "returned address is not the frame's source address:port")
		}
		if addr != nil {
			kept = append(kept, keptAddr{addr, addr.String(), k, e.class})
		}
	}
}

// ---------------------------------------------------------------- read side: alphabet

func buildAlphabet() []*aframe {
	var al []*aframe
	tag := byte(0)
	add := func(name string, core bool, b []byte) {
		al = append(al, &aframe{name: name, core: core, b: b})
	}
	pay := func(n int) []byte {
		p := make([]byte, n)
		for i := range p {
			p[i] = byte(0x10 + i)
		}
		if n > 0 {
			p[0] = 0xc0 | tag&0x3f
		}
		if n > 1 {
			p[1] = tag
		}
		return p
	}
	// spec returns a valid frame spec with a source address/payload unique to the frame.
	spec := func(dst [4]byte, dport uint16, n int) ipref.Spec {
		tag++
		return ipref.Spec{Src: [4]byte{192, 168, tag, 1}, Dst: dst, SrcPort: 67, DstPort: dport, Payload: pay(n), ID: uint16(tag)}
	}
	// options for IHL k whose first bytes imitate a UDP header with port fake.
	opts := func(k int, fake uint16) []byte {
		o := make([]byte, (k-5)*4)
		for i := range o {
			o[i] = 0x01
		}
		hdr := []byte{0x00, 0x43, byte(fake >> 8), byte(fake), 0x00, 0x0c, 0x00, 0x00}
		copy(o, hdr)
		if len(o) > 8 {
			o[len(o)-1] = 0x00
		}
		return o
	}
	padding := func(n int) []byte {
		p := make([]byte, n)
		for i := range p {
			p[i] = 0xee
		}
		return p
	}
	// A. valid plain frames: destination port x destination address
	for _, dp := range []uint16{68, 67} {
		for _, d := range []struct {
			n string
			a [4]byte
		}{{"bound-ip", me}, {"broadcast", bcast}, {"other-ip", other}} {
			add(fmt.Sprintf("valid dst=%s:%d", d.n, dp), dp == 68 || d.a == me, ipref.Build(spec(d.a, dp, 12)))
		}
	}
	// B. near misses
	add("valid dst port 0x4400 (68 byte-swapped)", false, ipref.Build(spec(me, 0x4400, 12)))
	add("valid dst port 69", false, ipref.Build(spec(me, 69, 12)))
	add("valid dst port 0", false, ipref.Build(spec(me, 0, 12)))
	add("valid dst 1.0.0.10:68 (address byte-reversed)", false, ipref.Build(spec([4]byte{1, 0, 0, 10}, 68, 12)))
	add("valid dst 10.0.0.0:68", false, ipref.Build(spec([4]byte{10, 0, 0, 0}, 68, 12)))
	add("valid dst 0.0.0.0:68", false, ipref.Build(spec([4]byte{}, 68, 12)))
	// C. special valid frames
	add("valid empty payload", true, ipref.Build(spec(me, 68, 0)))
	{
		s := spec(me, 68, 12)
		s.ZeroUDPCk = true
		add("valid UDP checksum 0 (none)", false, ipref.Build(s))
	}
	add("valid 300-byte payload", false, ipref.Build(spec(me, 68, 300)))
	{
		s := spec(me, 68, 12)
		s.Src, s.SrcPort = [4]byte{}, 0
		add("valid src 0.0.0.0:0", false, ipref.Build(s))
	}
	{
		s := spec(me, 68, 12)
		s.TOS, s.ID, s.Flags, s.TTL, s.SrcPort = 0xb8, 0xbeef, 2, 1, 68
		add("valid TOS/ID/DF/TTL=1 src port 68", false, ipref.Build(s))
	}
	// D. IP options
	for k := 6; k <= 15; k++ {
		s := spec(me, 68, 4)
		s.Options = opts(k, 67)
		add(fmt.Sprintf("valid IHL=%d own (options imitate a UDP header to port 67)", k), k == 6 || k == 15, ipref.Build(s))
	}
	{
		s := spec(me, 67, 4)
		s.Options = opts(7, 68)
		add("valid IHL=7 other port (options imitate a UDP header to port 68)", true, ipref.Build(s))
		s = spec(other, 68, 4)
		s.Options = opts(15, 68)
		add("valid IHL=15 other address", false, ipref.Build(s))
	}
	// E. link padding
	{
		s := spec(me, 68, 10)
		s.Padding = padding(8)
		add("padded to 46 own", true, ipref.Build(s))
		s = spec(me, 68, 0)
		s.Padding = padding(18)
		add("padded to 46 own, empty payload", false, ipref.Build(s))
		s = spec(me, 68, 12)
		s.Padding = padding(1)
		add("one byte of padding own", false, ipref.Build(s))
		s = spec(me, 67, 10)
		s.Padding = padding(8)
		add("padded to 46 other port", false, ipref.Build(s))
		s = spec(me, 68, 6)
		s.Options = opts(6, 67)
		s.Padding = padding(8)
		add("IHL=6 padded to 46 own", false, ipref.Build(s))
	}
	// F. total length variants on 46-byte frames
	tl := func(ihl, t int) []byte {
		s := spec(me, 68, 18-(ihl-5)*4)
		if ihl > 5 {
			s.Options = opts(ihl, 67)
		}
		f := ipref.Build(s) // 46 bytes, total length 46
		ipref.SetTotalLen(f, t)
		if t-ihl*4 >= 8 {
			ipref.SetUDPLen(f, ihl, t-ihl*4)
		}
		ipref.FixHeaderChecksum(f)
		ipref.FixUDPChecksum(f)
		return f
	}
	for _, t := range []int{0, 19, 20, 21, 22, 23, 24, 25, 26, 27, 28, 45, 47, 0xffff} {
		add(fmt.Sprintf("46-byte frame IHL=5 total length %d", t), t == 24 || t == 28 || t == 47, tl(5, t))
	}
	for _, t := range []int{23, 24, 28, 31, 32, 45, 46, 47} {
		add(fmt.Sprintf("46-byte frame IHL=6 total length %d", t), false, tl(6, t))
	}
	for _, n := range []int{20, 24, 27} {
		f := ipref.Build(spec(me, 68, 0))[:n]
		ipref.SetTotalLen(f, n)
		ipref.FixHeaderChecksum(f)
		add(fmt.Sprintf("%d-byte frame total length %d", n, n), false, f)
	}
	{
		f := ipref.Build(spec(me, 68, 0))
		ipref.SetTotalLen(f, 24)
		ipref.FixHeaderChecksum(f)
		add("28-byte frame total length 24", false, f)
	}
	// G. version
	for _, v := range []int{6, 0, 5, 15} {
		f := ipref.Build(spec(me, 68, 12))
		ipref.SetVersion(f, v)
		ipref.FixHeaderChecksum(f)
		add(fmt.Sprintf("version %d otherwise valid own", v), v == 6, f)
	}
	{
		tag++
		f := make([]byte, 48)
		f[0] = 0x60
		f[5], f[6], f[7] = 8, 17, 64
		f[8], f[23], f[24], f[39] = 0xfe, 1, 0xff, 2
		f[40], f[41], f[42], f[43], f[45] = 0, 67, 0, 68, 8
		add("IPv6 header + UDP to port 68", false, f)
	}
	// H. protocol
	for _, p := range []byte{6, 1, 0, 16, 18} {
		f := ipref.Build(spec(me, 68, 12))
		ipref.SetProto(f, p)
		ipref.FixHeaderChecksum(f)
		add(fmt.Sprintf("protocol %d otherwise valid own", p), p == 6, f)
	}
	// I. IHL
	for _, k := range []int{0, 4} {
		f := ipref.Build(spec(me, 68, 18))
		ipref.SetIHL(f, k)
		ipref.FixHeaderChecksum(f)
		add(fmt.Sprintf("IHL=%d 46-byte frame", k), k == 4, f)
	}
	{
		f := ipref.Build(spec(me, 68, 18))
		ipref.SetIHL(f, 15)
		add("IHL=15 46-byte frame total length 46", false, f)
		f = ipref.Build(spec(me, 68, 18))
		ipref.SetIHL(f, 15)
		ipref.SetTotalLen(f, 68)
		add("IHL=15 46-byte frame total length 68", false, f)
		f = ipref.Build(spec(me, 68, 18))
		ipref.SetIHL(f, 10)
		add("IHL=10 46-byte frame total length 46 (6 bytes after header)", false, f)
	}
	// J. UDP length field inconsistent (UNSPECIFIED)
	for _, ul := range []int{0, 7, 8, 19, 21, 0xffff} {
		f := ipref.Build(spec(me, 68, 12))
		ipref.SetUDPLen(f, 5, ul)
		add(fmt.Sprintf("UDP length field %d (IP payload 20)", ul), ul == 8, f)
	}
	// K. wrong checksums (UNSPECIFIED)
	{
		f := ipref.Build(spec(me, 68, 12))
		f[10] ^= 0x55
		add("wrong IP header checksum", false, f)
		f = ipref.Build(spec(me, 68, 12))
		f[26] ^= 0x55
		if f[26] == 0 && f[27] == 0 {
			f[27] = 1
		}
		add("wrong UDP checksum", false, f)
	}
	// L. truncations (representatives; every offset is in scope r1)
	{
		v := ipref.Build(spec(me, 68, 12)) // 40 bytes
		for _, t := range []int{1, 19, 20, 27, 28, 39} {
			add(fmt.Sprintf("valid own 40-byte frame truncated to %d", t), t == 28, append([]byte(nil), v[:t]...))
		}
		s := spec(me, 68, 10)
		s.Padding = padding(8)
		p := ipref.Build(s) // total 38, frame 46
		for _, t := range []int{37, 38, 45} {
			add(fmt.Sprintf("padded own frame (total 38) truncated to %d", t), false, append([]byte(nil), p[:t]...))
		}
	}
	for _, a := range al {
		for bi := 0; bi < nBound; bi++ {
			for xi, bs := range seqBufs {
				a.exp[bi][xi] = classify(a.b, bi, bs)
			}
		}
	}
	return al
}

func pow(b, e int) int64 {
	r := int64(1)
	for i := 0; i < e; i++ {
		r *= int64(b)
	}
	return r
}

// enumSeq enumerates all sequences of length exactly L over al for every bound
// and buffer configuration.
func enumSeq(c *fw.Ctx, scope string, ord *int64, al []*aframe, L int, nontriv *atomic.Int64) {
	n := pow(len(al), L)
	for bi := 0; bi < nBound; bi++ {
		for xi, bs := range seqBufs {
			base := *ord
			c.Range(n, func(i int64) {
				seq := make([]*aframe, L)
				frames := make([][]byte, L)
				x := i
				nt := false
				for k := 0; k < L; k++ {
					seq[k] = al[x%int64(len(al))]
					frames[k] = seq[k].b
					if seq[k].exp[bi][xi].kind == kDeliver {
						nt = true
					}
					x /= int64(len(al))
				}
				if nt {
					nontriv.Add(1)
				}
				runSeq(c, scope, base+i, bi, bs, frames, func(k int) expect { return seq[k].exp[bi][xi] })
			})
			*ord += n
		}
	}
}

// productFrame builds a frame of frameLen bytes with the given header fields,
// a UDP header to the bound port right after the IHL-word header (if it fits)
// and recognisable filler.
func productFrame(frameLen, ver, ihl, tlen int, proto byte) []byte {
	f := make([]byte, frameLen)
	for i := range f {
		f[i] = byte(0x80 + i)
	}
	for i := 20; i < ihl*4 && i < frameLen; i++ {
		f[i] = 0x01
	}
	f[0] = byte(ver<<4 | ihl)
	f[1] = 0
	f[2], f[3] = byte(tlen>>8), byte(tlen)
	f[4], f[5], f[6], f[7] = 0x12, 0x34, 0, 0
	f[8], f[9] = 64, proto
	copy(f[12:16], []byte{192, 168, 7, 7})
	copy(f[16:20], me[:])
	uo := ihl * 4
	if ihl < 5 {
		uo = 20
	}
	if uo+8 <= frameLen {
		ul := tlen - uo
		if ul < 0 {
			ul = 0
		}
		copy(f[uo:], []byte{0x04, 0x00, 0x00, 68, byte(ul >> 8), byte(ul), 0, 0})
	}
	ipref.FixHeaderChecksum(f)
	return f
}

func runRead(c *fw.Ctx, ord *int64) {
	al := buildAlphabet()
	var core []*aframe
	names := []string{}
	unspec := map[string]int64{}
	for _, a := range al {
		if a.core {
			core = append(core, a)
		}
		e := a.exp[1][0]
		names = append(names, fmt.Sprintf("%s [%d bytes; port+ip bound, len(b)=1500: %s %s]", a.name, len(a.b), []string{"SKIP", "DELIVER", "UNSPECIFIED"}[e.kind], e.class))
		for bi := 0; bi < nBound; bi++ {
			for xi := range seqBufs {
				if e := a.exp[bi][xi]; e.kind == kEither {
					unspec[e.class]++
				}
			}
		}
	}
	for k, v := range unspec {
		c.Unspecified("read alphabet frames x configurations: "+k, v)
	}
	c.Extra("read_alphabet", names)
	valid := al[0].b // valid own plain frame to the bound address
	follow := ipref.Build(ipref.Spec{Src: [4]byte{172, 16, 0, 9}, Dst: me, SrcPort: 67, DstPort: 68, Payload: []byte("FOLLOW-UP")})
	var nontriv atomic.Int64

	// (r0) the empty sequence
	for bi := 0; bi < nBound; bi++ {
		runSeq(c, "r0:empty", *ord, bi, 1500, nil, nil)
		c.Eval(1)
		*ord++
	}
	// (r1) every truncation offset >= 1 of several well-formed frames, each followed by a valid frame
	{
		var bases [][]byte
		bases = append(bases, valid)
		for _, a := range al {
			switch a.name {
			case "valid IHL=7 other port (options imitate a UDP header to port 68)", "padded to 46 own", "valid 300-byte payload", "valid IHL=15 own (options imitate a UDP header to port 67)", "valid empty payload":
				bases = append(bases, a.b)
			}
		}
		cases := int64(0)
		for _, b := range bases {
			for t := 1; t <= len(b); t++ {
				for bi := 0; bi < nBound; bi++ {
					for _, bs := range []int{1500, 4, 0} {
						fr := [][]byte{append([]byte(nil), b[:t]...), follow}
						ex := []expect{classify(fr[0], bi, bs), classify(fr[1], bi, bs)}
						if ex[0].kind == kDeliver {
							nontriv.Add(1)
						}
						runSeq(c, "r1:truncations", *ord, bi, bs, fr, func(k int) expect { return ex[k] })
						c.Eval(1)
						*ord++
						cases++
					}
				}
			}
		}
		c.Scope("r1:truncation at every offset >= 1, followed by a valid own frame", "base_frames", len(bases), "buffers", "1500, 4, 0", "bound", boundNames, "cases", cases)
	}
	// (r2) product IHL x total length x protocol x version on 28-, 46- and 80-byte frames, followed by a valid frame
	{
		type pc struct {
			fl, ver, ihl, tl int
			proto            byte
		}
		var pcs []pc
		for _, fl := range []int{28, 46, 80} {
			tls := []int{0xffff, 0x2e00, 0x5000}
			for t := 0; t <= fl+2; t++ {
				tls = append(tls, t)
			}
			for _, ver := range []int{4, 6} {
				for ihl := 0; ihl <= 15; ihl++ {
					for _, t := range tls {
						for _, pr := range []byte{17, 6} {
							pcs = append(pcs, pc{fl, ver, ihl, t, pr})
						}
					}
				}
			}
		}
		base := *ord
		n := int64(len(pcs) * nBound * 2)
		c.Range(n, func(i int64) {
			p := pcs[i/(nBound*2)]
			bi, bs := int(i%nBound), []int{1500, 4}[i/nBound%2]
			fr := [][]byte{productFrame(p.fl, p.ver, p.ihl, p.tl, p.proto), follow}
			ex := []expect{classify(fr[0], bi, bs), classify(fr[1], bi, bs)}
			if ex[0].kind == kDeliver {
				nontriv.Add(1)
				distinct(c, "read r2: delivered "+ex[0].class)
			} else {
				distinct(c, "read r2: "+ex[0].class)
			}
			runSeq(c, "r2:ihl x total-length product", base+i, bi, bs, fr, func(k int) expect { return ex[k] })
		})
		*ord += n
		c.Scope("r2:product of header fields, followed by a valid own frame", "frame_lengths", "28, 46, 80", "version", "4, 6", "ihl", "0..15 (all)",
			"total_length", "0..frame+2 (all), 0x2e00, 0x5000, 0xffff", "protocol", "17, 6", "buffers", "1500, 4", "bound", boundNames, "cases", n)
	}
	// (r3) every destination port; every value of every destination address byte
	{
		base := *ord
		n := int64(65536 * 2 * nBound)
		c.Range(n, func(i int64) {
			port := uint16(i / (2 * nBound))
			bi := int(i % nBound)
			d := [][4]byte{me, other}[i/nBound%2]
			f := ipref.Build(ipref.Spec{Src: [4]byte{192, 168, 3, 3}, Dst: d, SrcPort: port ^ 0x5555, DstPort: port, Payload: []byte{byte(port >> 8), byte(port), 0x33}})
			fr := [][]byte{f, follow}
			ex := []expect{classify(f, bi, 1500), classify(follow, bi, 1500)}
			if ex[0].kind == kDeliver {
				nontriv.Add(1)
			}
			runSeq(c, "r3:all destination ports", base+i, bi, 1500, fr, func(k int) expect { return ex[k] })
		})
		*ord += n
		base = *ord
		n2 := int64(4 * 256 * nBound)
		c.Range(n2, func(i int64) {
			bi := int(i % nBound)
			v := byte(i / nBound % 256)
			pos := int(i / nBound / 256)
			d := me
			d[pos] = v
			f := ipref.Build(ipref.Spec{Src: [4]byte{192, 168, 4, 4}, Dst: d, SrcPort: 67, DstPort: 68, Payload: []byte{byte(pos), v}})
			fr := [][]byte{f, follow}
			ex := []expect{classify(f, bi, 1500), classify(follow, bi, 1500)}
			if ex[0].kind == kDeliver {
				nontriv.Add(1)
			}
			runSeq(c, "r3:destination address bytes", base+i, bi, 1500, fr, func(k int) expect { return ex[k] })
		})
		*ord += n2
		c.Scope("r3:destination port and address", "ports", "0..65535 (all) to 10.0.0.1 and 10.0.0.2", "address", "each byte of 10.0.0.1 replaced by each of 256 values", "bound", boundNames, "cases", n+n2)
	}
	// (r4) payload length x caller buffer size x padding x IP header length (options): a datagram that exactly fills the
	// caller's buffer behind the longest IP header is still a datagram
	{
		base := *ord
		const maxPay, maxBuf = 64, 70
		ihls := []int{5, 6, 10, 15}
		n := int64((maxPay + 1) * (maxBuf + 1) * 2 * nBound * len(ihls))
		c.Range(n, func(i int64) {
			x := int(i)
			bi := x % nBound
			x /= nBound
			pad := []int{0, 6}[x%2]
			x /= 2
			ihl := ihls[x%len(ihls)]
			x /= len(ihls)
			bs := x % (maxBuf + 1)
			pl := x / (maxBuf + 1)
			p := make([]byte, pl)
			for k := range p {
				p[k] = byte(k + 1)
			}
			pd := make([]byte, pad)
			for k := range pd {
				pd[k] = 0xee
			}
			opts := make([]byte, 4*(ihl-5))
			for k := range opts {
				opts[k] = 1 // no-operation
			}
			f := ipref.Build(ipref.Spec{Src: [4]byte{192, 168, 5, 5}, Dst: me, SrcPort: 67, DstPort: 68, Payload: p, Padding: pd, Options: opts})
			fr := [][]byte{f, follow}
			ex := []expect{classify(f, bi, bs), classify(follow, bi, bs)}
			if ex[0].kind == kDeliver {
				nontriv.Add(1)
			}
			runSeq(c, "r4:payload length x buffer size", base+i, bi, bs, fr, func(k int) expect { return ex[k] })
		})
		*ord += n
		c.Scope("r4:payload length x caller buffer length x padding x IP header length", "payload", "0..64 (all)", "len(b)", "0..70 (all)", "padding", "0, 6", "ihl", "5, 6, 10, 15", "bound", boundNames, "cases", n)
		// the same at the sizes the client really uses: len(b) = 1500, payloads 1400..1500, every IP header length
		base = *ord
		n2 := int64(101 * 11 * nBound)
		c.Range(n2, func(i int64) {
			x := int(i)
			bi := x % nBound
			x /= nBound
			ihl := 5 + x%11
			pl := 1400 + x/11
			p := make([]byte, pl)
			for k := range p {
				p[k] = byte(k*7 + 1)
			}
			opts := make([]byte, 4*(ihl-5))
			for k := range opts {
				opts[k] = 1
			}
			f := ipref.Build(ipref.Spec{Src: [4]byte{192, 168, 5, 5}, Dst: me, SrcPort: 67, DstPort: 68, Payload: p, Options: opts})
			fr := [][]byte{f, follow}
			ex := []expect{classify(f, bi, 1500), classify(follow, bi, 1500)}
			if ex[0].kind == kDeliver {
				nontriv.Add(1)
			}
			runSeq(c, "r4b:payloads up to a full 1500-byte buffer x IP header length", base+i, bi, 1500, fr, func(k int) expect { return ex[k] })
		})
		*ord += n2
		c.Scope("r4b:payloads up to a full 1500-byte buffer x IP header length", "payload", "1400..1500 (all)", "len(b)", 1500, "ihl", "5..15 (all)", "bound", boundNames, "cases", n2)
	}
	// (r5) all sequences over the alphabet
	fullL, coreL := 2, 3
	if c.Thorough() {
		fullL, coreL = 3, 4
	}
	total := int64(0)
	for L := 1; L <= fullL; L++ {
		enumSeq(c, fmt.Sprintf("r5:all sequences of length %d over the full alphabet", L), ord, al, L, &nontriv)
		total += pow(len(al), L) * nBound * int64(len(seqBufs))
	}
	c.Scope("r5:all frame sequences, full alphabet", "alphabet_size", len(al), "max_len", fullL, "buffers", seqBufs, "bound", boundNames, "sequences", total)
	n := pow(len(core), coreL) * nBound * int64(len(seqBufs))
	enumSeq(c, fmt.Sprintf("r6:all sequences of length %d over the core alphabet", coreL), ord, core, coreL, &nontriv)
	var cn []string
	for _, a := range core {
		cn = append(cn, a.name)
	}
	c.Scope("r6:all frame sequences, core alphabet", "alphabet", cn, "len", coreL, "buffers", seqBufs, "bound", boundNames, "sequences", n)
	c.Nontrivial(nontriv.Load())

	// (r7) a zero-length read is treated as end of stream: not a frame; only "no panic" is demanded
	{
		s := &scripted{frames: [][]byte{append([]byte(nil), valid...), {}, append([]byte(nil), follow...)}}
		conn := nclient4.NewBroadcastUDPConn(s, boundAddr(1))
		var outcomes []string
		for i := 0; i < 4; i++ {
			b := make([]byte, 1500)
			var n int
			var err error
			pv, st := fw.Safe(func() { n, _, err = conn.ReadFrom(b) })
			c.Eval(1)
			if pv != nil {
				c.Report(fw.Violation{Fingerprint: "BroadcastRawUDPConn.ReadFrom|panic|zero-length-read", Order: *ord, Scope: "r7:zero-length read",
					Input: "frames=[valid, <empty>, valid]", Observed: fmt.Sprintf("panic: %v at %s", pv, st), Expected: "an error or the next frame"})
				break
			}
			outcomes = append(outcomes, fmt.Sprintf("call%d: n=%d err=%v", i+1, n, err))
		}
		*ord++
		c.Extra("read_zero_length_underlying_read(outside the alphabet; only no-panic demanded)", outcomes)
	}
}

func Run(c *fw.Ctx) {
	c.SetRule("every case is enumerated once (injective index decoding). Write side: non-trivial = a frame was emitted and every field and both checksums were verified by ipref. " +
		"Read side: non-trivial = the sequence contains at least one frame the reference filter requires to be delivered (so payload and source are compared, not only skipping)")
	// known-answer self-test of the reference (RFC 1071 worked example: header checksum b861)
	ka := []byte{0x45, 0x00, 0x00, 0x73, 0x00, 0x00, 0x40, 0x00, 0x40, 0x11, 0xb8, 0x61, 0xc0, 0xa8, 0x00, 0x01, 0xc0, 0xa8, 0x00, 0xc7}
	if !ipref.HeaderChecksumOK(ka) || ipref.HeaderChecksum(ka) != 0xb861 || ipref.Fold(ipref.Sum(0, []byte{0x00, 0x01, 0xf2, 0x03, 0xf4, 0xf5, 0xf6, 0xf7})) != 0xddf2 {
		panic("c18: ipref known-answer self-test failed")
	}
	var ord int64
	runRead(c, &ord) // read side first: simplest counterexamples (single frames) get the smallest order
	runWrite(c, &ord)
	runMakeRaw(c, &ord)
	c.Sample(map[string]any{"write": "bound=nil:68 dst=255.255.255.255:67 payload=ramp len 0..1500 -> 1 frame to ff:ff:ff:ff:ff:ff, IPv4 IHL5 total 28+len proto 17 csums verify"})
	c.Sample(map[string]any{"read": "frames [padded-to-46 own, IHL=7 other port, valid own] -> payload(10 bytes, no padding) from 192.168.x.1:67, then payload of the third; the second skipped"})
	c.Assume("reference ipref written from RFC 791/768/1071 (stdlib only)",
		"the scripted connection truncates a frame to the reader's buffer like a datagram socket",
		"a transmitted UDP checksum of 0 is accepted only where the RFC 768 computed checksum is itself 0 (DESIGN 8a-5); counted in coverage; otherwise the transmitted checksum must verify",
		"read side: UDP length field, header checksum and UDP checksum of incoming frames are not required to be validated (UNSPECIFIED: delivered within the IP total length, or skipped)",
		"read side: total length > frame length is not well-formed and must be skipped",
		"caller buffer shorter than the payload: n=min(len(b),payload); frames longer than 60+8+len(b) UNSPECIFIED",
		"fragments and a nil bound address are outside the enumerated space")
}
