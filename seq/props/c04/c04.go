// Package c04: DHCPv4 decoding accepts exactly well-formed packets and reads the
// RFC values. Bounded-exhaustive enumeration of option areas and header
// perturbations against the independent reference decoder v4ref.
package c04

import (
	"fmt"

	"github.com/insomniacslk/dhcp/dhcpv4"
	"verif/seq/adapt"
	"verif/seq/fw"
	"verif/seq/ref/v4ref"
)

// Prefix returns a valid 240-byte header+cookie with distinct non-zero fields.
func Prefix() []byte {
	b := make([]byte, 240)
	b[0], b[1], b[2], b[3] = 1, 1, 6, 3
	copy(b[4:8], []byte{0x11, 0x22, 0x33, 0x44})
	b[8], b[9] = 0x01, 0x02
	b[10], b[11] = 0x80, 0x00
	copy(b[12:16], []byte{10, 1, 0, 1})
	copy(b[16:20], []byte{10, 2, 0, 2})
	copy(b[20:24], []byte{10, 3, 0, 3})
	copy(b[24:28], []byte{10, 4, 0, 4})
	for i := 0; i < 16; i++ {
		b[28+i] = byte(0xa0 + i)
	}
	copy(b[44:], "srv.example")
	copy(b[108:], "boot/file.efi")
	copy(b[236:240], v4ref.Cookie[:])
	return b
}

func goTest(in []byte) string {
	return fmt.Sprintf(`func TestReplay(t *testing.T) {
	in, _ := hex.DecodeString(%q)
	p, err := dhcpv4.FromBytes(in)
	t.Logf("p=%%v err=%%v", p, err)
}`, fw.Hex(in))
}

// Check runs one input through library and reference and reports disagreement.
// Returns true when both accept.
func Check(c *fw.Ctx, scope string, order int64, in []byte) bool {
	var lp *dhcpv4.DHCPv4
	var lerr error
	cp := append([]byte(nil), in...)
	if pv, st := fw.Safe(func() { lp, lerr = dhcpv4.FromBytes(cp) }); pv != nil {
		c.Report(fw.Violation{Fingerprint: "dhcpv4.FromBytes|panic|" + fw.PanicSite(st), Order: order, Scope: scope, Input: fw.Hex(in),
			Observed: fmt.Sprintf("panic: %v at %s", pv, st), Expected: "value or error", GoTest: goTest(in)})
		return false
	}
	rp, rerr := v4ref.Decode(in)
	if (lerr == nil) != (rerr == nil) {
		cls := "lib-accepts,ref-rejects:" + fmt.Sprint(rerr)
		if lerr != nil {
			cls = "lib-rejects,ref-accepts"
		}
		c.Report(fw.Violation{Fingerprint: "dhcpv4.FromBytes|verdict|" + cls, Order: order, Scope: scope, Input: fw.Hex(in),
			Observed: fmt.Sprintf("library: err=%v", lerr), Expected: fmt.Sprintf("reference: err=%v", rerr),
			Explain: "acceptance differs from the RFC 2131/2132 reference decoder", GoTest: goTest(in)})
		return false
	}
	if lerr != nil {
		return false
	}
	if f, d := adapt.DiffV4(lp, rp); f != "" {
		c.Report(fw.Violation{Fingerprint: "dhcpv4.FromBytes|field|" + f, Order: order, Scope: scope, Input: fw.Hex(in),
			Observed: d, Expected: "library field equals the wire bytes as read by the reference decoder",
			Explain: "decoded field differs from the reference reading", GoTest: goTest(in)})
		return true
	}
	// history: the program edits the packet it received, then decodes the same datagram again
	// (a retransmission). What the second decode returns is a function of the bytes alone.
	var lp2 *dhcpv4.DHCPv4
	var lerr2 error
	if pv, st := fw.Safe(func() { poisonV4(lp); lp2, lerr2 = dhcpv4.FromBytes(append([]byte(nil), in...)) }); pv != nil {
		c.Report(fw.Violation{Fingerprint: "dhcpv4.FromBytes|panic-after-editing-an-earlier-result|" + fw.PanicSite(st), Order: order, Scope: scope, Input: fw.Hex(in),
			Observed: fmt.Sprintf("panic: %v at %s", pv, st), Expected: "value or error", GoTest: goTest2(in)})
		return true
	}
	if lerr2 != nil {
		c.Report(fw.Violation{Fingerprint: "dhcpv4.FromBytes|second-decode-differs|verdict", Order: order, Scope: scope, Input: fw.Hex(in),
			Observed: fmt.Sprintf("second decode of the same bytes: err=%v", lerr2), Expected: "accepted, as the first time", GoTest: goTest2(in)})
	} else if f, d := adapt.DiffV4(lp2, rp); f != "" {
		c.Report(fw.Violation{Fingerprint: "dhcpv4.FromBytes|second-decode-differs|" + f, Order: order, Scope: scope, Input: fw.Hex(in),
			Observed: d, Expected: "decoding the same bytes again gives the reference reading again, whatever was done to the packet decoded first",
			Explain: "packets decoded by separate calls share state: editing the first one changed what the second decode returns", GoTest: goTest2(in)})
	}
	return true
}

// poisonV4 edits a decoded packet in every way a caller may: fields overwritten in place, an option added, values scribbled over.
func poisonV4(p *dhcpv4.DHCPv4) {
	for _, s := range [][]byte{p.ClientIPAddr, p.YourIPAddr, p.ServerIPAddr, p.GatewayIPAddr, p.ClientHWAddr} {
		if fw.StdShared(s) {
			continue
		}
		for i := range s {
			s[i] = 0xee
		}
	}
	for _, v := range p.Options {
		for i := range v {
			v[i] = 0xee
		}
	}
	p.UpdateOption(dhcpv4.OptGeneric(dhcpv4.GenericOptionCode(224), []byte("poison")))
	p.UpdateOption(dhcpv4.OptMessageType(dhcpv4.MessageTypeDecline))
	p.TransactionID[0] ^= 0xff
	p.ServerHostName, p.BootFileName = "poison", "poison"
}

func goTest2(in []byte) string {
	return fmt.Sprintf(`func TestReplay(t *testing.T) {
	in, _ := hex.DecodeString(%q)
	p1, err := dhcpv4.FromBytes(append([]byte(nil), in...))
	if err != nil {
		t.Fatal(err)
	}
	want := p1.Summary()
	// the caller edits the packet it received ...
	for _, v := range p1.Options {
		for i := range v {
			v[i] = 0xee
		}
	}
	p1.UpdateOption(dhcpv4.OptGeneric(dhcpv4.GenericOptionCode(224), []byte("poison")))
	p1.UpdateOption(dhcpv4.OptMessageType(dhcpv4.MessageTypeDecline))
	// ... and the same datagram arrives again
	p2, err := dhcpv4.FromBytes(append([]byte(nil), in...))
	if err != nil {
		t.Fatal(err)
	}
	if got := p2.Summary(); got != want {
		t.Errorf("second decode differs:\n first  %%s\n second %%s", want, got)
	}
}`, fw.Hex(in))
}

func Run(c *fw.Ctx) {
	c.SetRule("inputs are enumerated injectively (every string over the alphabet up to the bound, every truncation/perturbation once); non-trivial = accepted by the reference decoder (both header and options area well-formed), so fields and option values are actually compared")
	alpha := []byte{0x00, 0x01, 0x02, 0x03, 0x35, 0x52, 0xff}
	maxLen := 8
	if c.Thorough() {
		maxLen = 10
	}
	pre := Prefix()
	// (a) all option areas over the alphabet up to maxLen
	var base int64
	for l := 0; l <= maxLen; l++ {
		n := int64(1)
		for i := 0; i < l; i++ {
			n *= int64(len(alpha))
		}
		ll := l
		b0 := base
		c.Range(n, func(i int64) {
			in := make([]byte, 240+ll)
			copy(in, pre)
			x := i
			for k := 0; k < ll; k++ {
				in[240+k] = alpha[x%int64(len(alpha))]
				x /= int64(len(alpha))
			}
			if Check(c, "a:option-areas", b0+i, in) {
				c.Nontrivial(1)
				if i%100003 == 7 {
					c.Sample(map[string]any{"scope": "a", "options_area": fw.Hex(in[240:])})
				}
			}
		})
		base += n
	}
	c.Scope("a:option-areas", "alphabet", fw.Hex(alpha), "max_len", maxLen, "cases", base)

	// (a2) a second alphabet with a long length byte and a generic code, shorter bound
	alpha2 := []byte{0x00, 0x0c, 0x04, 0x05, 0x52, 0xfe, 0xff, 0x01}
	max2 := 6
	if c.Thorough() {
		max2 = 8
	}
	base2 := int64(0)
	for l := 0; l <= max2; l++ {
		n := int64(1)
		for i := 0; i < l; i++ {
			n *= int64(len(alpha2))
		}
		ll := l
		b0 := base + base2
		c.Range(n, func(i int64) {
			in := make([]byte, 240+ll)
			copy(in, pre)
			x := i
			for k := 0; k < ll; k++ {
				in[240+k] = alpha2[x%int64(len(alpha2))]
				x /= int64(len(alpha2))
			}
			if Check(c, "a2:option-areas", b0+i, in) {
				c.Nontrivial(1)
			}
		})
		base2 += n
	}
	c.Scope("a2:option-areas", "alphabet", fw.Hex(alpha2), "max_len", max2, "cases", base2)
	ord := base + base2

	// valid packets for the structural scopes
	valid := [][]byte{
		append(append([]byte{}, pre...), 0x35, 0x01, 0x01, 0x37, 0x04, 1, 3, 6, 15, 0x3d, 0x07, 1, 1, 2, 3, 4, 5, 6, 0xff),
		func() []byte {
			b := append([]byte{}, pre...)
			b = append(b, 0x35, 0x01, 0x05, 0x00, 0x00, 0x52, 0x06, 1, 4, 'a', 'b', 'c', 'd', 0x0c, 0x00, 0x0c, 0x03, 'x', 'y', 'z', 0xff)
			for len(b) < 300 {
				b = append(b, 0)
			}
			return b
		}(),
	}
	// (b) every truncation point
	for vi, v := range valid {
		for t := 0; t <= len(v); t++ {
			if Check(c, fmt.Sprintf("b:truncation(valid%d)", vi), ord, v[:t]) {
				c.Nontrivial(1)
			}
			c.Eval(1)
			ord++
		}
	}
	c.Scope("b:truncations", "packets", len(valid))
	// (c) cookie bytes x all 256 values, and every single-byte substitution of option bytes by boundary values
	for vi, v := range valid {
		for off := 236; off < 240; off++ {
			for x := 0; x < 256; x++ {
				in := append([]byte{}, v...)
				in[off] = byte(x)
				if Check(c, fmt.Sprintf("c:cookie(valid%d)", vi), ord, in) {
					c.Nontrivial(1)
				}
				c.Eval(1)
				ord++
			}
		}
		for off := 240; off < len(v) && off < 240+40; off++ {
			for x := 0; x < 256; x++ {
				in := append([]byte{}, v...)
				in[off] = byte(x)
				if Check(c, fmt.Sprintf("c:option-byte(valid%d)", vi), ord, in) {
					c.Nontrivial(1)
				}
				c.Eval(1)
				ord++
			}
		}
	}
	c.Scope("c:substitutions", "cookie_bytes", "each of 4 x 256 values", "option_bytes", "first 40 option-area bytes x 256 values")
	// (d) hlen over all 256 values, with three option tails
	for h := 0; h < 256; h++ {
		for _, tail := range [][]byte{{}, {0xff}, {0x35, 1, 2, 0xff}} {
			in := append(append([]byte{}, pre...), tail...)
			in[2] = byte(h)
			if Check(c, "d:hlen", ord, in) {
				c.Nontrivial(1)
			}
			c.Eval(1)
			ord++
		}
	}
	c.Scope("d:hlen", "values", 256)
	// (e) sname / file: first NUL at every position, and none; second NUL later
	for pos := 0; pos <= 64; pos++ {
		for _, second := range []int{-1, 63} {
			in := append(append([]byte{}, pre...), 0xff)
			for i := 0; i < 64; i++ {
				in[44+i] = byte('a' + i%26)
			}
			if pos < 64 {
				in[44+pos] = 0
			}
			if second >= 0 {
				in[44+second] = 0
			}
			if Check(c, "e:sname", ord, in) {
				c.Nontrivial(1)
			}
			c.Eval(1)
			ord++
		}
	}
	for pos := 0; pos <= 128; pos++ {
		for _, second := range []int{-1, 127} {
			in := append(append([]byte{}, pre...), 0xff)
			for i := 0; i < 128; i++ {
				in[108+i] = byte('A' + i%26)
			}
			if pos < 128 {
				in[108+pos] = 0
			}
			if second >= 0 {
				in[108+second] = 0
			}
			if Check(c, "e:file", ord, in) {
				c.Nontrivial(1)
			}
			c.Eval(1)
			ord++
		}
	}
	c.Scope("e:names", "sname_nul_positions", 65, "file_nul_positions", 129)
	// (f) every header byte x {00,01,7f,80,ff}
	for off := 0; off < 236; off++ {
		for _, x := range []byte{0, 1, 0x7f, 0x80, 0xff} {
			in := append([]byte{}, valid[0]...)
			in[off] = x
			if Check(c, "f:header-byte", ord, in) {
				c.Nontrivial(1)
			}
			c.Eval(1)
			ord++
		}
	}
	c.Scope("f:header-bytes", "offsets", 236, "values", "00 01 7f 80 ff")
	// (g) one option with every length byte 0..255 and every remaining size 0..257+2
	for l := 0; l < 256; l++ {
		for _, rem := range []int{l - 1, l, l + 1, l + 2} {
			if rem < 0 {
				continue
			}
			in := append(append([]byte{}, pre...), 0x2b, byte(l))
			for i := 0; i < rem; i++ {
				in = append(in, 0xff) // value bytes are End codes: overruns are visible
			}
			if Check(c, "g:length-byte", ord, in) {
				c.Nontrivial(1)
			}
			c.Eval(1)
			ord++
		}
	}
	c.Scope("g:length-bytes", "lengths", 256, "remaining", "l-1,l,l+1,l+2")
	// (h) inputs shorter than the fixed header that carry the cookie (and options) right after a
	// field boundary or anywhere else: a decoder that loses a short read must not resynchronise on them
	tails := [][]byte{{0xff}, {}, {0x35, 0x01, 0x01, 0xff}, {0x00, 0xff}}
	for L := 0; L < 240; L++ {
		for ti, tail := range tails {
			in := append(append(append([]byte{}, valid[0][:L]...), v4ref.Cookie[:]...), tail...)
			if Check(c, fmt.Sprintf("h:short-header+cookie(tail%d)", ti), ord, in) {
				c.Nontrivial(1)
			}
			c.Eval(1)
			ord++
		}
	}
	// valid packets whose sname / file / chaddr begin with cookie+End, truncated at every offset
	for _, off := range []int{28, 44, 108} {
		v := append([]byte{}, valid[0]...)
		copy(v[off:], append(append([]byte{}, v4ref.Cookie[:]...), 0xff))
		for t := 0; t <= len(v); t++ {
			if Check(c, "h:cookie-inside-field,truncated", ord, v[:t]) {
				c.Nontrivial(1)
			}
			c.Eval(1)
			ord++
		}
	}
	c.Scope("h:short-inputs-with-cookie", "prefix_lengths", "0..239", "tails", len(tails), "cookie_inside", "chaddr,sname,file x every truncation")
	c.Assume("reference decoder v4ref written from RFC 2131/2132/3396 (stdlib only)", "bytes after End and chaddr bytes beyond hlen are ignored by both sides (statement)")
}
