// Package c02: DHCPv6 encode→decode preserves messages, relay chains and every
// option type, and the emitted bytes are the RFC wire layout of the field
// values as read by the independent decoder v6ref.
//
// Every enumerated *value* m is checked two ways:
//
//	(a) tree(FromBytes(m.ToBytes())) == tree(m)        library round trip
//	(b) v6ref.DecodeMessage(m.ToBytes()) == ACCEPT and its tree == tree(m)
//
// where tree() is the adapter's reading of a library value (built or decoded).
// (b) is what catches symmetric encode/decode errors.
package c02

import (
	"fmt"
	"os"
	"runtime/debug"
	"strings"
	"sync"
	"sync/atomic"

	"github.com/insomniacslk/dhcp/dhcpv6"
	"verif/seq/adapt"
	"verif/seq/corpus6"
	"verif/seq/fw"
	"verif/seq/ref/v6ref"
)

func goTest(desc string, b []byte) string {
	return fmt.Sprintf(`// value: %s
func TestReplay(t *testing.T) {
	// the bytes below are what ToBytes() produced for the value above
	enc, _ := hex.DecodeString(%q)
	m, err := dhcpv6.FromBytes(enc)
	if err != nil {
		t.Fatalf("decoding the library's own encoding fails: %%v", err)
	}
	t.Logf("decoded: %%s", m.Summary())
	if got := m.ToBytes(); !bytes.Equal(got, enc) {
		t.Errorf("re-encoding differs: %%x", got)
	}
}`, desc, fw.Hex(b))
}

var (
	unadMu sync.Mutex
	unad   = map[string]bool{}
	// values whose encoding is a MayReject shape / of which the library refused its own encoding
	mayRejectN, mayRejectRefused atomic.Int64
)

// Check runs the two oracles on one freshly built value. desc describes how
// the value was built (for the report). Returns true when all comparisons ran.
func Check(c *fw.Ctx, scope string, order int64, desc func() string, build func() dhcpv6.DHCPv6) bool {
	m := build()
	var bt *v6ref.Msg
	var enc []byte
	if pv, st := fw.Safe(func() { bt = adapt.TreeOfMessage(m); enc = m.ToBytes() }); pv != nil {
		c.Report(fw.Violation{Fingerprint: "dhcpv6.ToBytes|panic|" + fw.PanicSite(st), Order: order, Scope: scope, Input: desc(),
			Observed: fmt.Sprintf("panic: %v at %s", pv, st), Expected: "bytes"})
		return false
	}
	if u := adapt.V6Unadapted(bt); len(u) > 0 {
		unadMu.Lock()
		for _, s := range u {
			unad[s] = true
		}
		unadMu.Unlock()
		return false
	}
	in := func() string { return desc() + " ; built tree: " + bt.String() + " ; encoding: " + fw.Hex(enc) }
	// (b) independent reading of the emitted bytes
	rt, rv, why := v6ref.DecodeMessage(enc)
	if rv == v6ref.MayReject {
		mayRejectN.Add(1)
	}
	if !rv.HasTree() {
		c.Report(fw.Violation{Fingerprint: "ToBytes|layout|reference-" + rv.String() + ":" + why, Order: order, Scope: scope, Input: in(),
			Observed: "reference decoder: " + rv.String() + " (" + why + ")", Expected: "the emitted bytes are a well-formed message",
			Explain: "the encoding of an in-domain value is not the RFC wire layout", GoTest: goTest(desc(), enc)})
	} else if ok, path, d := v6ref.Equal(bt, rt); !ok {
		c.Report(fw.Violation{Fingerprint: "ToBytes|layout-field|" + v6ref.PathClass(path), Order: order, Scope: scope, Input: in(),
			Observed: fmt.Sprintf("%s: value %s (value vs independent reading of the emitted bytes)", path, d) + "\nreference tree: " + rt.String(),
			Expected: "the emitted bytes mean what the fields say (RFC layout)", Explain: "the bytes written for a field are not where/what the RFC layout puts them (visible only to a decoder that shares nothing with the library)",
			GoTest: goTest(desc(), enc)})
	}
	// (a) the library's own round trip
	var lm dhcpv6.DHCPv6
	var lerr error
	if pv, st := fw.Safe(func() { lm, lerr = dhcpv6.FromBytes(append([]byte(nil), enc...)) }); pv != nil {
		c.Report(fw.Violation{Fingerprint: "dhcpv6.FromBytes|panic|" + fw.PanicSite(st), Order: order, Scope: scope, Input: in(),
			Observed: fmt.Sprintf("panic: %v at %s", pv, st), Expected: "value or error", GoTest: goTest(desc(), enc)})
		return false
	}
	if lerr != nil {
		if rv == v6ref.MayReject {
			// the value's encoding has a shape a decoder may refuse (v6ref.MayRejectClasses): tolerated
			mayRejectRefused.Add(1)
			c.Distinct("may-reject-refused: " + why)
			return true
		}
		cls := "message"
		if rt != nil {
			cls = firstRejected(rt)
		} else if i := strings.Index(why, ":"); i > 0 {
			cls = why[:i]
		}
		c.Report(fw.Violation{Fingerprint: "roundtrip|decode-error|" + cls, Order: order, Scope: scope, Input: in(),
			Observed: fmt.Sprintf("FromBytes(m.ToBytes()) fails: %v", lerr), Expected: "decodes to an equal value", GoTest: goTest(desc(), enc)})
		return false
	}
	var lt *v6ref.Msg
	if pv, st := fw.Safe(func() { lt = adapt.TreeOfMessage(lm) }); pv != nil {
		c.Report(fw.Violation{Fingerprint: "adapter|panic|" + fw.PanicSite(st), Order: order, Scope: scope, Input: in(),
			Observed: fmt.Sprintf("panic walking the decoded value: %v at %s", pv, st), Expected: "a well-formed value", GoTest: goTest(desc(), enc)})
		return false
	}
	if ok, path, d := v6ref.Equal(bt, lt); !ok {
		c.Report(fw.Violation{Fingerprint: "roundtrip|field|" + v6ref.PathClass(path), Order: order, Scope: scope, Input: in(),
			Observed: fmt.Sprintf("%s: built %s decoded", path, strings.Replace(d, " vs ", " vs (decoded) ", 1)) + "\ndecoded tree: " + lt.String(),
			Expected: "FromBytes(m.ToBytes()) equals m field by field", GoTest: goTest(desc(), enc)})
	}
	return true
}

// firstRejected names the first top-level option of the reference tree that the
// library's ParseOption refuses on its own (diagnosis for the fingerprint).
func firstRejected(rt *v6ref.Msg) string {
	for _, n := range rt.Options {
		var err error
		fw.Safe(func() { _, err = dhcpv6.ParseOption(dhcpv6.OptionCode(n.Code), append([]byte{}, n.Raw...)) })
		if err != nil {
			return n.Name
		}
	}
	return "message"
}

func Run(c *fw.Ctx) {
	// the live heap is tiny and the allocation rate huge: collect less often
	if os.Getenv("GOGC") == "" {
		defer debug.SetGCPercent(debug.SetGCPercent(800))
	}
	c.SetRule("values are enumerated injectively (every type x xid x option sequence up to the bound over the instance corpus, every instance x container, every listed chain/relay chain once); every case is non-trivial in the sense that the value is encoded, decoded by library and reference, and all three trees are compared; non-trivial count = cases whose comparisons all ran")
	if tab, err := adapt.ExtractV6OptionTable(); err != nil {
		c.Extra("option_table_error", err.Error())
		// coverage bookkeeping only: not being able to list the parsed codes is not a property violation
	} else {
		cov := adapt.CompareV6Tables(tab)
		un := cov.Uncovered
		if un == nil {
			un = []string{}
		}
		have := map[uint16]bool{}
		for _, in := range corpus6.Instances() {
			have[in.Code] = true
		}
		for _, k := range tab.Top {
			if !have[k] {
				un = append(un, fmt.Sprintf("%d (%s): parsed by the library, no corpus instance", k, tab.TopNames[k]))
			}
		}
		c.Extra("uncovered_option_types", un)
		c.Extra("option_types_lost_from_switch", cov.Lost)
		c.Extra("option_table", map[string]any{"source_dir": tab.Dir, "parse_option_codes": tab.Top, "ntp_suboption_codes": tab.NTP,
			"how": "measured on the compiled library: ParseOption(code, empty value) is an error or not the generic option", "source_switch_codes": tab.SourceTop, "source_note": tab.SourceNote})
	}
	ins := corpus6.Instances()
	N := int64(len(ins))
	types, xids := corpus6.Types(), corpus6.Xids()
	H := int64(len(types) * len(xids))
	var ord int64

	seqName := func(idx []int64) string {
		var s []string
		for _, i := range idx {
			s = append(s, ins[i].Name)
		}
		return "[" + strings.Join(s, ", ") + "]"
	}
	run := func(scope string, t uint8, x [3]byte, idx []int64, order int64) {
		ok := Check(c, scope, order,
			func() string { return fmt.Sprintf("NewMessage(type=%d, xid=%x, options=%s)", t, x, seqName(idx)) },
			func() dhcpv6.DHCPv6 {
				opts := make([]dhcpv6.Option, 0, len(idx))
				for _, i := range idx {
					opts = append(opts, ins[i].Build())
				}
				return corpus6.NewMessage(t, x, opts...)
			})
		if ok {
			c.Nontrivial(1)
		}
	}

	// (1) every message type x xid x all option sequences of length <= 2
	perHdr := 1 + N + N*N
	c.Range(H*perHdr, func(i int64) {
		h, s := i/perHdr, i%perHdr
		t, x := types[h/int64(len(xids))], xids[h%int64(len(xids))]
		var idx []int64
		switch {
		case s == 0:
		case s <= N:
			idx = []int64{s - 1}
		default:
			s -= 1 + N
			idx = []int64{s / N, s % N}
		}
		run("1:type*xid*seq<=2", t, x, idx, ord+s*H+h)
	})
	c.Scope("1:type*xid*sequences", "types", fmt.Sprint(types), "xids", []string{"000000", "010203", "ffffff"}, "instances", N, "max_len", 2, "cases", H*perHdr)
	ord += H * perHdr

	// (2) triples
	if c.Thorough() {
		// all triples over the full instance set for one header (header and option list are
		// encoded independently); all triples over the reduced set (first and last instance
		// of every code) for every type x xid, relay types included
		hdrs := []struct {
			t uint8
			x [3]byte
		}{{1, [3]byte{1, 2, 3}}}
		n3 := N * N * N
		c.Range(int64(len(hdrs))*n3, func(i int64) {
			h, s := i/n3, i%n3
			run("2:seq=3(full set)", hdrs[h].t, hdrs[h].x, []int64{s / (N * N), (s / N) % N, s % N}, ord+i)
		})
		c.Scope("2:triples(full instance set)", "headers", "type 1 xid 010203", "instances", N, "cases", int64(len(hdrs))*n3)
		ord += int64(len(hdrs)) * n3
		red := corpus6.Reduced()
		rIdx := make([]int64, 0, len(red))
		for _, r := range red {
			for i, in := range ins {
				if in.Name == r.Name {
					rIdx = append(rIdx, int64(i))
				}
			}
		}
		R := int64(len(rIdx))
		r3 := R * R * R
		c.Range(H*r3, func(i int64) {
			h, s := i/r3, i%r3
			t, x := types[h/int64(len(xids))], xids[h%int64(len(xids))]
			run("2:type*xid*seq=3(reduced set)", t, x, []int64{rIdx[s/(R*R)], rIdx[(s/R)%R], rIdx[s%R]}, ord+i)
		})
		c.Scope("2:triples(reduced set: first and last instance of every code)", "types*xids", H, "instances", R, "cases", H*r3)
		ord += H * r3
	} else {
		// quick: all triples over the reduced set for one plain header
		red := corpus6.Reduced()
		rIdx := make([]int64, 0, len(red))
		for _, r := range red {
			for i, in := range ins {
				if in.Name == r.Name {
					rIdx = append(rIdx, int64(i))
				}
			}
		}
		R := int64(len(rIdx))
		r3 := R * R * R
		c.Range(r3, func(s int64) {
			run("2:seq=3(reduced set)", 1, [3]byte{1, 2, 3}, []int64{rIdx[s/(R*R)], rIdx[(s/R)%R], rIdx[s%R]}, ord+s)
		})
		c.Scope("2:triples(reduced set: first and last instance of every code)", "header", "type 1 xid 010203", "instances", R, "cases", r3)
		ord += r3
	}

	// (3) every instance nested in every container (one level), in one- and two-container stacks, at top level of a message and of a relay
	conts := corpus6.Containers()
	type nest struct {
		name string
		wrap func(dhcpv6.Option) dhcpv6.Option
	}
	var nests []nest
	for _, ct := range conts {
		ct := ct
		nests = append(nests, nest{ct.Name, ct.Wrap})
	}
	byName := map[string]corpus6.Container{}
	for _, ct := range conts {
		byName[ct.Name] = ct
	}
	stack := func(outer, inner string) nest {
		return nest{outer + ">" + inner, func(o dhcpv6.Option) dhcpv6.Option {
			w := byName[inner].Wrap(o)
			if w == nil {
				return nil
			}
			return byName[outer].Wrap(w)
		}}
	}
	nests = append(nests, stack("IA_NA", "IAADDR"), stack("IA_TA", "IAADDR"), stack("IA_PD", "IAPREFIX"), stack("relay-msg", "IA_NA"),
		stack("relay-msg", "relay-msg"), stack("4RD", "4RD"), stack("IA_NA", "IA_NA"), stack("vendor-opts", "IA_NA"), stack("IAADDR", "NTP"))
	var nCases int64
	for _, ns := range nests {
		for ii, in := range ins {
			for _, t := range []uint8{7, 13} {
				if ns.wrap(in.Build()) == nil {
					continue
				}
				ns, in, t := ns, in, t
				ok := Check(c, "3:nested("+ns.name+")", ord,
					func() string { return fmt.Sprintf("NewMessage(type=%d, xid=010203, [%s{%s}])", t, ns.name, in.Name) },
					func() dhcpv6.DHCPv6 { return corpus6.NewMessage(t, [3]byte{1, 2, 3}, ns.wrap(in.Build())) })
				if ok {
					c.Nontrivial(1)
				}
				ord++
				nCases++
				_ = ii
			}
		}
	}
	// the NTP sub-option space: every sub-option instance alone and every ordered pair
	nsub := corpus6.NTPSubInstances()
	for i := -1; i < len(nsub); i++ {
		for j := 0; j < len(nsub); j++ {
			i, j := i, j
			name := nsub[j].Name
			if i >= 0 {
				name = nsub[i].Name + ", " + name
			}
			ok := Check(c, "3:nested(NTP sub-options)", ord,
				func() string { return "NewMessage(type=7, xid=010203, [NTP{" + name + "}])" },
				func() dhcpv6.DHCPv6 {
					subs := []dhcpv6.Option{}
					if i >= 0 {
						subs = append(subs, nsub[i].Build())
					}
					subs = append(subs, nsub[j].Build())
					return corpus6.NewMessage(7, [3]byte{1, 2, 3}, corpus6.NTPWrap(subs...))
				})
			if ok {
				c.Nontrivial(1)
			}
			ord++
			nCases++
		}
	}
	c.Eval(nCases)
	nn := []string{"NTP sub-option space (singles and ordered pairs)"}
	for _, ns := range nests {
		nn = append(nn, ns.name)
	}
	c.Scope("3:instances-in-containers", "containers", nn, "instances", N, "message_types", "7, 13(relay)", "cases", nCases)

	// (3b) pairs of instances inside each interpreting container: [a, b] nested together (neighbour effects inside a nested list)
	red := corpus6.Reduced()
	var pCases int64
	for _, ct := range conts {
		if ct.Opaque {
			continue
		}
		for _, a := range red {
			for _, b := range red {
				ct, a, b := ct, a, b
				ok := Check(c, "3b:nested-pairs("+ct.Name+")", ord,
					func() string { return fmt.Sprintf("[%s{%s}, %s{%s}]", ct.Name, a.Name, ct.Name, b.Name) },
					func() dhcpv6.DHCPv6 {
						// two containers side by side, and the second instance also directly after them
						return corpus6.NewMessage(3, [3]byte{1, 2, 3}, ct.Wrap(a.Build()), ct.Wrap(b.Build()), b.Build())
					})
				if ok {
					c.Nontrivial(1)
				}
				ord++
				pCases++
			}
		}
	}
	c.Eval(pCases)
	c.Scope("3b:container-pairs", "containers", "interpreting containers", "instances", len(red), "cases", pCases)

	// (4) chains, relay chains depth 0..8, DHCPv4-in-DHCPv6, long lists
	var mCases int64
	for _, ch := range corpus6.Chains() {
		for _, t := range []uint8{1, 7, 12} {
			ch, t := ch, t
			if Check(c, "4:chain("+ch.Name+")", ord, func() string { return fmt.Sprintf("type=%d [%s]", t, ch.Name) },
				func() dhcpv6.DHCPv6 { return corpus6.NewMessage(t, [3]byte{1, 2, 3}, ch.Build()) }) {
				c.Nontrivial(1)
			}
			ord++
			mCases++
		}
	}
	msgs := corpus6.Messages(c.Thorough())
	for _, mc := range msgs {
		mc := mc
		if Check(c, "4:messages("+strings.SplitN(mc.Name, "/", 2)[0]+")", ord, func() string { return mc.Name }, mc.Build) {
			c.Nontrivial(1)
		}
		ord++
		mCases++
	}
	// relay chains of every depth around every single-instance message
	for depth := 1; depth <= 8; depth++ {
		for _, in := range ins {
			depth, in := depth, in
			if Check(c, "4:relay-chain-around-instance", ord, func() string { return fmt.Sprintf("RelayChain(depth=%d, msg[%s], ids=alternating)", depth, in.Name) },
				func() dhcpv6.DHCPv6 {
					return corpus6.RelayChain(depth, corpus6.NewMessage(1, [3]byte{1, 2, 3}, in.Build()), 0x66666666)
				}) {
				c.Nontrivial(1)
			}
			ord++
			mCases++
		}
	}
	c.Eval(mCases)
	c.Scope("4:chains-relays-long-lists", "chains", len(corpus6.Chains()), "message_families", len(msgs), "relay_depths", "0..8", "cases", mCases)
	for i, mc := range msgs {
		if i%97 == 0 {
			c.Sample(mc.Name)
		}
	}
	c.Sample(fmt.Sprintf("NewMessage(type=1, xid=010203, options=%s)", seqName([]int64{0, N - 1})))

	// (5) decoded-then-edited values (see edit.go)
	{
		type src struct {
			name  string
			build func() dhcpv6.DHCPv6
		}
		var srcs []src
		for _, in := range ins {
			in := in
			srcs = append(srcs, src{"msg[" + in.Name + "]", func() dhcpv6.DHCPv6 { return corpus6.NewMessage(7, [3]byte{1, 2, 3}, in.Build()) }})
		}
		for _, ns := range nests {
			for _, in := range corpus6.Reduced() {
				if ns.wrap(in.Build()) == nil {
					continue
				}
				ns, in := ns, in
				srcs = append(srcs, src{"msg[" + ns.name + "{" + in.Name + "}]", func() dhcpv6.DHCPv6 { return corpus6.NewMessage(1, [3]byte{1, 2, 3}, ns.wrap(in.Build())) }})
			}
		}
		for _, depth := range []int{1, 2, 3} {
			for _, in := range corpus6.Reduced() {
				depth, in := depth, in
				srcs = append(srcs, src{fmt.Sprintf("relay-chain(%d)[%s]", depth, in.Name), func() dhcpv6.DHCPv6 {
					return corpus6.RelayChain(depth, corpus6.NewMessage(1, [3]byte{1, 2, 3}, in.Build()), 0x66666666)
				}})
			}
		}
		for _, sub := range corpus6.NTPSubInstances() {
			sub := sub
			srcs = append(srcs, src{"msg[NTP{" + sub.Name + "}]", func() dhcpv6.DHCPv6 { return corpus6.NewMessage(7, [3]byte{1, 2, 3}, corpus6.NTPWrap(sub.Build())) }})
		}
		var eCases, eSites atomic.Int64
		base := ord
		c.Range(int64(len(srcs)), func(i int64) {
			s := srcs[i]
			d0 := decodedForEdit(s.build(), false)
			if d0 == nil {
				return
			}
			n := len(collectEdits(d0))
			eSites.Add(int64(n))
			for k := 0; k < n; k++ {
				for _, warm := range []bool{false, true} {
					k, warm := k, warm
					path := ""
					ok := Check(c, "5:decoded-then-edited", base+i*4096+int64(2*k),
						func() string {
							return fmt.Sprintf("decode(encode(%s)), warm=%v, then edit %s", s.name, warm, path)
						},
						func() dhcpv6.DHCPv6 {
							d := decodedForEdit(s.build(), warm)
							e := collectEdits(d)
							path = e[k].path
							e[k].apply()
							return d
						})
					if ok {
						c.Nontrivial(1)
					}
					eCases.Add(1)
				}
			}
		})
		ord += int64(len(srcs)) * 4096
		c.Eval(eCases.Load())
		c.Scope("5:decoded-then-edited", "sources", len(srcs), "edit_sites", eSites.Load(), "variants", "cold / after Summary+String+ToBytes", "cases", eCases.Load(),
			"edits", "one exported field per case: integers ^1, durations -/+1s, booleans toggled, byte strings / addresses changed in place and by replacement, names assigned element-wise, arrays [0]^1")
		c.Sample("decode(encode(msg[IA_NA...])), then edit m.Options.Options[0].T1")
	}

	unadMu.Lock()
	ul := []string{}
	for k := range unad {
		ul = append(ul, k)
	}
	unadMu.Unlock()
	c.Extra("unadapted_library_types", ul)
	c.Extra("reference_leniencies", v6ref.Leniencies())
	c.Extra("may_reject_classes", v6ref.MayRejectClasses())
	c.Extra("may_reject_values", map[string]int64{"values_with_may_reject_encoding": mayRejectN.Load(), "of_which_library_refused_to_decode": mayRejectRefused.Load()})
	c.Assume("reference decoder v6ref written from RFC 8415 and the per-option RFCs (stdlib only, no library import)",
		"value domain as in the statement: durations in whole seconds < 2^32, elapsed time in whole 10 ms units, prefix lengths 0..128 / 0..32, 16-byte addresses, valid names, at least one item where the layout requires one; requested-option lists without repeated codes (the decoder drops repeats: C06 normalisation); a zero-length IA prefix has an all-zero address (DESIGN 8a.1)",
		"values whose encoding falls in a MAY-REJECT class of the reference decoder (empty lists, zero-length class items, DUIDs with an empty variable part, relay messages without relay-msg, ...) stay in the corpus: oracle (b) requires the reference to read the value back (ACCEPT or MAY-REJECT with an equal tree); oracle (a) tolerates a decode error for exactly these values and demands equality whenever the library decodes them",
		"sequences of more than 3 arbitrary options are covered by the deterministic long lists only")
}
