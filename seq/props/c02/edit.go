package c02

// Scope (5): values obtained by decoding and then editing.
//
// "Any DHCPv6 message" includes a message a program received, changed and sends on. A decoded
// value may carry state a freshly built one does not (bytes kept from the wire, cached parses,
// slices shared between fields), so every corpus message is encoded, decoded, edited in ONE
// place (each exported field reachable by reflection, one edit per case: integers and durations
// stepped, booleans toggled, byte strings / addresses / names changed in place and by replacement)
// and the edited value goes through the same two oracles as a built one: the reference decoder
// must read the edited fields from the new encoding, and the library must decode it to an equal
// value. The variant "warm" first prints and encodes the decoded value (anything a lazy cache
// would populate) before editing it.

import (
	"fmt"
	"net"
	"reflect"
	"strings"
	"time"

	"github.com/insomniacslk/dhcp/dhcpv6"
	"verif/seq/fw"
)

type editSite struct {
	path  string
	apply func()
}

var (
	tDuration  = reflect.TypeOf(time.Duration(0))
	tIPNetPtr  = reflect.TypeOf((*net.IPNet)(nil))
	skipByType = map[string]bool{"OptionCode": true, "MessageType": true}
	// an opaque DUID whose type number names one of the four structured kinds is outside the value domain
	skipField = map[string]bool{"DUIDOpaque.Type": true}
)

func ownPkg(t reflect.Type) bool {
	p := t.PkgPath()
	return strings.HasPrefix(p, "github.com/insomniacslk/dhcp/dhcpv6") || strings.HasPrefix(p, "github.com/insomniacslk/dhcp/rfc1035label") ||
		strings.HasPrefix(p, "github.com/insomniacslk/dhcp/iana")
}

// collectEdits lists the single-place edits of a decoded value, in a deterministic order.
func collectEdits(root any) []editSite {
	var out []editSite
	seen := map[uintptr]bool{}
	var walk func(v reflect.Value, path string, depth int)
	add := func(path string, f func()) { out = append(out, editSite{path, f}) }
	bytesEdits := func(v reflect.Value, path string) {
		// v is a settable slice of uint8 with at least one element
		n := v.Len()
		if b, ok := v.Convert(reflect.TypeOf([]byte(nil))).Interface().([]byte); !ok || !fw.StdShared(b) {
			add(path+":in-place", func() { e := v.Index(n - 1); e.SetUint(e.Uint() ^ 1) })
		}
		add(path+":replaced", func() {
			nv := reflect.MakeSlice(v.Type(), n, n)
			reflect.Copy(nv, v)
			nv.Index(0).SetUint(nv.Index(0).Uint() ^ 0x40)
			v.Set(nv)
		})
	}
	walk = func(v reflect.Value, path string, depth int) {
		if depth > 12 {
			return
		}
		switch v.Kind() {
		case reflect.Interface:
			if !v.IsNil() {
				walk(v.Elem(), path, depth+1)
			}
		case reflect.Ptr:
			if v.IsNil() {
				return
			}
			if v.Type() == tIPNetPtr {
				// a prefix: change one bit inside the prefix (host bits of a short prefix are outside the value domain)
				n := v.Interface().(*net.IPNet)
				if ones, bits := n.Mask.Size(); bits > 0 && ones >= 8 && len(n.IP) > 0 && !fw.StdShared(n.IP) {
					add(path+".IP:in-place", func() { n.IP[0] ^= 1 })
				}
				return
			}
			if seen[v.Pointer()] {
				return
			}
			seen[v.Pointer()] = true
			e := v.Elem()
			switch {
			case e.Kind() == reflect.Struct && ownPkg(e.Type()):
				walk(e, path, depth+1)
			case e.Kind() == reflect.Slice && e.Type().Elem().Kind() == reflect.Uint8 && ownPkg(e.Type()) && e.CanSet() && e.Len() > 0:
				bytesEdits(e, path) // named byte-slice types used through a pointer (NTP address sub-options)
			case e.Kind() == reflect.Uint8 && e.CanSet():
				add(path+":deref", func() { e.SetUint(e.Uint() ^ 1) })
			}
		case reflect.Struct:
			t := v.Type()
			if t == tIPNetPtr.Elem() {
				if n, ok := v.Addr().Interface().(*net.IPNet); ok && v.CanAddr() {
					if ones, bits := n.Mask.Size(); bits > 0 && ones >= 8 && len(n.IP) > 0 && !fw.StdShared(n.IP) {
						add(path+".IP:in-place", func() { n.IP[0] ^= 1 })
					}
				}
				return
			}
			if !ownPkg(t) {
				return
			}
			for i := 0; i < t.NumField(); i++ {
				f := t.Field(i)
				if !f.IsExported() || skipField[t.Name()+"."+f.Name] {
					continue
				}
				walk(v.Field(i), path+"."+f.Name, depth+1)
			}
		case reflect.Slice:
			if v.Len() == 0 {
				return
			}
			et := v.Type().Elem()
			switch et.Kind() {
			case reflect.Uint8:
				if v.CanSet() {
					bytesEdits(v, path)
				}
			case reflect.String:
				e := v.Index(0)
				if s := e.String(); len(s) > 0 && s[0] != '.' {
					c := byte('q')
					if s[0] == 'q' {
						c = 'r'
					}
					add(path+"[0]:element-assigned", func() { e.SetString(string(c) + s[1:]) })
					// the same name in another letter case is another list of names (the wire carries octets)
					for i := 0; i < len(s); i++ {
						if ch := s[i]; ch >= 'a' && ch <= 'z' || ch >= 'A' && ch <= 'Z' {
							i := i
							add(path+"[0]:letter-case-changed", func() { e.SetString(s[:i] + string(ch^0x20) + s[i+1:]) })
							break
						}
					}
				}
			case reflect.Uint16:
				if !skipByType[et.Name()] {
					e := v.Index(0)
					add(path+"[0]", func() { e.SetUint(e.Uint() ^ 1) })
				}
			case reflect.Slice, reflect.Interface, reflect.Ptr, reflect.Struct:
				for i := 0; i < v.Len() && i < 4; i++ {
					walk(v.Index(i), fmt.Sprintf("%s[%d]", path, i), depth+1)
				}
			}
		case reflect.Array:
			if v.Type().Elem().Kind() == reflect.Uint8 && v.CanSet() && v.Len() > 0 {
				e := v.Index(0)
				add(path+"[0]", func() { e.SetUint(e.Uint() ^ 1) })
			}
		case reflect.Bool:
			if v.CanSet() {
				add(path, func() { v.SetBool(!v.Bool()) })
			}
		case reflect.Uint8, reflect.Uint16, reflect.Uint32, reflect.Uint64:
			if v.CanSet() && !skipByType[v.Type().Name()] {
				add(path, func() { v.SetUint(v.Uint() ^ 1) })
			}
		case reflect.Int64:
			if v.CanSet() && v.Type() == tDuration {
				add(path, func() {
					d := time.Duration(v.Int())
					if d >= time.Second {
						d -= time.Second
					} else {
						d += time.Second
					}
					v.SetInt(int64(d))
				})
			}
		case reflect.String:
			if v.CanSet() {
				add(path, func() { v.SetString(v.String() + "x") })
			}
		}
	}
	walk(reflect.ValueOf(root), "m", 0)
	return out
}

// decodedForEdit encodes and decodes m (nil if the library refuses its own encoding: reported by scope 1-4).
func decodedForEdit(m dhcpv6.DHCPv6, warm bool) dhcpv6.DHCPv6 {
	d, err := dhcpv6.FromBytes(m.ToBytes())
	if err != nil {
		return nil
	}
	if warm {
		_ = d.Summary()
		_ = d.String()
		_ = d.ToBytes()
	}
	return d
}

// PoisonAll applies every single-place edit to a decoded value at once and appends an option:
// what a caller may do to a message it received. Used by histories of the form "edit an earlier
// result, then decode again" (C05).
func PoisonAll(m dhcpv6.DHCPv6) {
	for _, e := range collectEdits(m) {
		e.apply()
	}
	m.AddOption(&dhcpv6.OptionGeneric{OptionCode: 65001, OptionData: []byte("poison")})
}
