package c03

import (
	"fmt"
	"net"
	"time"

	"github.com/insomniacslk/dhcp/dhcpv6"
	"github.com/insomniacslk/dhcp/iana"
	"github.com/insomniacslk/dhcp/rfc1035label"
	"verif/seq/corpus6"
	"verif/seq/props/c04"
)

// named is one valid corpus encoding.
type named struct {
	name string
	b    []byte
}

// ---------------------------------------------------------------- DHCPv4 packet corpus

func o4(code byte, val ...byte) []byte {
	return append([]byte{code, byte(len(val))}, val...)
}

func o4s(code byte, s string) []byte { return o4(code, []byte(s)...) }

// v4pkt builds header (c04.Prefix with modifications) + options + End.
func v4pkt(mod func(h []byte), opts ...[]byte) []byte {
	b := c04.Prefix()
	if mod != nil {
		mod(b)
	}
	for _, o := range opts {
		b = append(b, o...)
	}
	return append(b, 0xff)
}

func reply(h []byte) { h[0] = 2 }

func replyNoYiaddr(h []byte) {
	h[0] = 2
	copy(h[16:20], []byte{0, 0, 0, 0})
}

func noRelay(h []byte) {
	h[3] = 0
	copy(h[24:28], []byte{0, 0, 0, 0})
}

// ztp4ClassIDs: one string per branch of ztpv4.parseClassIdentifier.
var ztp4ClassIDs = []string{
	"Arista;DCS-7050S-64;01.23;JPE12221671", "Arista;DCS-7050S-64", "Arista;",
	"ZPESystems:NSC:002251623", "ZPESystems:NSC", "ZPESystems:",
	"Juniper-ptx1000-DD576", "Juniper-qfx10008", "Juniper-qfx10002-361-DN817", "Juniper-",
	"Juniper:tttt-ttt:DN817", "Juniper:tttt", "Juniper:a:b:c", "Juniper:",
	"1271-23422Z11-123", "1271-23422Z11", "1271", "1271-a-b-c", "12710-1-2",
	"FPR4100", "FPR9300", "FPR4100x",
	"", "Unknown vendor", "arista;lowercase;x;y",
}

// ztp4VIVC: one value per branch of ztpv4.parseVIVC (enterprise, data).
var ztp4VIVC = []struct {
	ent  uint32
	data string
}{
	{9, "SN:0;PID:R-IOSXRV9000-CC"}, {9, "PID:X"}, {9, "SN"}, {9, "SN:1:2"}, {9, ""}, {9, "SN:1;;PID:2"},
	{1271, "SN:0;PID:R"}, {0, ""},
}

// ztp4CircuitIDs: one string per regular expression of ztpv4.circuitRegexs, plus non-matching ones.
var ztp4CircuitIDs = []string{
	"et-0/0/0:0.0", "xe-1/2/3:4.5", "et-0/0/0.0", "ge-0/0/0.0", "ge-1/2/3.4 trailing",
	"Ethernet3/17/1", "\x01\x0eEthernet3/17/1", "et-1/0/61", "Ethernet14:Vlan2001", "Ethernet10:2020", "Ethernet10:",
	"Gi1/10:2020", "Ethernet1/3", "ae52.0", "Port-Channel1", "node.OSC-1-2-3", "node.OSC-4-5",
	"nomatch", "et-", "Ethernet", "\x00", "\xff\xfe",
}

func vivc(ent uint32, data string) []byte {
	v := []byte{byte(ent >> 24), byte(ent >> 16), byte(ent >> 8), byte(ent), byte(len(data))}
	return o4(124, append(v, data...)...)
}

// v4Corpus returns valid DHCPv4 packets covering every option code the typed
// accessors, the Summary decoder switch, the ZTP parsers and the netboot
// extractor look at.
func v4Corpus() []named {
	var out []named
	add := func(n string, b []byte) { out = append(out, named{"v4/" + n, b}) }
	full := [][]byte{
		o4(53, 2), o4(1, 255, 255, 255, 0), o4(2, 0, 0, 0x0e, 0x10), o4(3, 10, 0, 0, 1, 10, 0, 0, 2), o4(6, 8, 8, 8, 8, 1, 1, 1, 1),
		o4s(12, "host1"), o4s(15, "example.org"), o4s(17, "/root/path"), o4(28, 10, 0, 0, 255), o4(35, 0, 0, 0, 60),
		o4(42, 10, 0, 0, 42), o4(43, 1, 2, 0xaa, 0xbb), o4(44, 10, 0, 0, 44), o4(50, 10, 0, 0, 50), o4(51, 0, 1, 0x51, 0x80),
		o4(54, 10, 0, 0, 54), o4(55, 1, 3, 6, 15, 119, 252), o4s(56, "error message"), o4(57, 0x05, 0xdc), o4(58, 0, 0, 0xa8, 0xc0), o4(59, 0, 1, 0x27, 0x50),
		o4s(60, "Arista;DCS-7050S-64;01.23;JPE12221671"), o4(61, 1, 2, 3, 4, 5, 6, 7), o4s(66, "tftp.example.org"), o4s(67, "pxelinux.0"),
		o4(77, 3, 'a', 'b', 'c', 2, 'd', 'e'), o4(93, 0, 7, 0, 9), o4s(101, "Europe/Zurich"), o4(108, 0, 0, 7, 8), o4(116, 1),
		o4(119, 7, 'e', 'x', 'a', 'm', 'p', 'l', 'e', 3, 'c', 'o', 'm', 0, 3, 'f', 'o', 'o', 0xc0, 0), o4(121, 24, 192, 168, 1, 10, 0, 0, 1, 0, 10, 0, 0, 2, 32, 1, 2, 3, 4, 5, 6, 7, 8),
		vivc(9, "SN:0;PID:R-IOSXRV9000-CC"),
		o4(82, 1, 14, 'E', 't', 'h', 'e', 'r', 'n', 'e', 't', '3', '/', '1', '7', '/', '1', 2, 4, 0xde, 0xad, 0xbe, 0xef, 5, 4, 10, 9, 8, 7, 11, 4, 10, 9, 8, 1),
	}
	add("offer/all-typed-options", v4pkt(reply, full...))
	add("discover/all-typed-options", v4pkt(nil, full...))
	add("offer/no-options", v4pkt(reply))
	add("offer/user-class-not-rfc3004", v4pkt(reply, o4(53, 2), o4s(77, "iPXE")))
	add("ack/concatenated-options(RFC3396)", v4pkt(reply, o4(53, 5), o4s(12, "ho"), o4(6, 8, 8), o4s(12, "st"), o4(6, 8, 8), o4(0x52, 1, 2, 'a', 'b'), o4(0x52, 2, 1, 'c')))
	// ZTP class identifiers x {nothing else, host name + client identifier present}
	for i, s := range ztp4ClassIDs {
		add(fmt.Sprintf("ztp/class-id%02d(%q)", i, s), v4pkt(nil, o4(53, 1), o4s(60, s)))
		add(fmt.Sprintf("ztp/class-id%02d(%q)+hostname+client-id", i, s), v4pkt(nil, o4(53, 1), o4s(60, s), o4s(12, "SERIAL-FROM-HOSTNAME"), o4s(61, "SERIAL-FROM-CLIENTID")))
	}
	add("ztp/class-id(Juniper-qfx10008)+empty-hostname", v4pkt(nil, o4(53, 1), o4s(60, "Juniper-qfx10008"), o4(12, 0, 0)))
	add("ztp/class-id(FPR4100)+empty-client-id", v4pkt(nil, o4(53, 1), o4s(60, "FPR4100"), o4(61)))
	for i, v := range ztp4VIVC {
		add(fmt.Sprintf("ztp/vivc%02d(%d,%q)", i, v.ent, v.data), v4pkt(nil, o4(53, 1), vivc(v.ent, v.data)))
	}
	{
		// two identifiers in one option value: fix the outer length
		a, b := vivc(4, "x")[2:], vivc(9, "SN:2;PID:Q")[2:]
		add("ztp/vivc(two identifiers in one option)", v4pkt(nil, o4(53, 1), o4(124, append(append([]byte{}, a...), b...)...)))
	}
	// circuit ids at "relay level": a relayed packet (giaddr, hops) carrying option 82, and the same without relay header
	for i, s := range ztp4CircuitIDs {
		sub := append([]byte{1, byte(len(s))}, s...)
		add(fmt.Sprintf("ztp/circuit-id%02d(%q)/relayed", i, s), v4pkt(nil, o4(53, 1), o4(82, append(sub, 2, 2, 0xca, 0xfe)...)))
		add(fmt.Sprintf("ztp/circuit-id%02d(%q)/not-relayed", i, s), v4pkt(noRelay, o4(53, 1), o4(82, sub...)))
	}
	add("ztp/option82-without-circuit-id", v4pkt(nil, o4(53, 1), o4(82, 2, 2, 0xca, 0xfe)))
	add("ztp/option82-empty", v4pkt(nil, o4(53, 1), o4(82)))
	add("ztp/option82-empty-circuit-id", v4pkt(nil, o4(53, 1), o4(82, 1, 0)))
	// netboot: one packet per branch of GetNetConfFromPacketv4 / ConversationToNetconfv4
	for _, m := range v4ConversationSet() {
		add("netboot/"+m.name, m.b)
	}
	add("netboot/offer-mask-zero", v4pkt(reply, o4(53, 2), o4(1, 0, 0, 0, 0), o4(3, 10, 0, 0, 1)))
	add("netboot/offer-mask-3-bytes", v4pkt(reply, o4(53, 2), o4(1, 255, 255, 255), o4(3, 10, 0, 0, 1)))
	add("netboot/offer-mask-non-contiguous", v4pkt(reply, o4(53, 2), o4(1, 255, 0, 255, 0), o4(3, 10, 0, 0, 1)))
	add("netboot/offer-empty-search-list", v4pkt(reply, o4(53, 2), o4(1, 255, 255, 255, 0), o4(3, 10, 0, 0, 1), o4(119)))
	add("netboot/offer-search-list-root-only", v4pkt(reply, o4(53, 2), o4(1, 255, 255, 255, 0), o4(3, 10, 0, 0, 1), o4(119, 0)))
	add("netboot/offer-router-3-bytes", v4pkt(reply, o4(53, 2), o4(1, 255, 255, 255, 0), o4(3, 10, 0, 0)))
	add("netboot/offer-lease-3-bytes", v4pkt(reply, o4(53, 2), o4(1, 255, 255, 255, 0), o4(3, 10, 0, 0, 1), o4(51, 0, 0, 1)))
	return out
}

// v4ConversationSet is the 9-message alphabet of ConversationToNetconfv4.
func v4ConversationSet() []named {
	mask, router, dns := o4(1, 255, 255, 255, 0), o4(3, 10, 0, 0, 1), o4(6, 8, 8, 8, 8)
	dsl := o4(119, 7, 'e', 'x', 'a', 'm', 'p', 'l', 'e', 3, 'c', 'o', 'm', 0)
	return []named{
		{"discover", v4pkt(nil, o4(53, 1), o4(55, 1, 3, 6, 67))},
		{"offer(bootfile,tftp,router,netmask,dns,lease,search,ntp)", v4pkt(reply, o4(53, 2), mask, router, dns, o4(51, 0, 0, 14, 16), dsl, o4(42, 10, 0, 0, 42), o4s(66, "tftp.example"), o4s(67, "boot.efi"))},
		{"offer(no netmask)", v4pkt(reply, o4(53, 2), router, dns)},
		{"offer(no router)", v4pkt(reply, o4(53, 2), mask, dns)},
		{"offer(yiaddr 0.0.0.0)", v4pkt(replyNoYiaddr, o4(53, 2), mask, router)},
		{"offer(opcode request)", v4pkt(nil, o4(53, 2), mask, router)},
		{"request", v4pkt(nil, o4(53, 3), o4(50, 10, 2, 0, 2), o4(54, 10, 0, 0, 54))},
		{"ack(bootfile,tftp,router,netmask)", v4pkt(reply, o4(53, 5), mask, router, o4s(66, "tftp.example"), o4s(67, "boot.efi"))},
		{"ack(bare)", v4pkt(reply, o4(53, 5))},
	}
}

// ---------------------------------------------------------------- DHCPv6 ZTP / netboot corpus

// ztp6Strings: one string per branch of ztpv6.ParseVendorData.
var ztp6Strings = []string{
	"Arista;DCS-0000;00.00;ZZZ00000000", "Cisco;8800;12.34;FOC00000000", "Arista;DCS-0000", "Cisco;",
	"ZPESystems:NSC:000000000", "ZPESystems:NSC",
	"NVOS##MMM1234##MM1234X56ABC", "NVOS##MMM1234",
	"1271-23422Z11-123", "1271-23422Z11", "1271", "1271-a-b-c-d",
	"", "Unknown;vendor;x;y",
}

// ztp6RemoteIDs: one string per pattern of ztpv6.matchCircuitId plus non-matching ones.
var ztp6RemoteIDs = []string{"Ethernet1:2020", "Ethernet3/17/1", "xxEthernet14:2001yy", "Ethernet14:Vlan2001", "Ethernet", "nomatch", ""}

func gen6(code uint16, data string) *dhcpv6.OptionGeneric {
	return &dhcpv6.OptionGeneric{OptionCode: dhcpv6.OptionCode(code), OptionData: []byte(data)}
}

func duidEN() dhcpv6.DUID {
	return &dhcpv6.DUIDEN{EnterpriseNumber: 1271, EnterpriseIdentifier: []byte("SERIAL-EN")}
}
func duidLL() dhcpv6.DUID {
	return &dhcpv6.DUIDLL{HWType: iana.HWTypeEthernet, LinkLayerAddr: net.HardwareAddr{2, 0, 0, 0, 0, 1}}
}
func duidLLT() dhcpv6.DUID {
	return &dhcpv6.DUIDLLT{HWType: iana.HWTypeEthernet, Time: 0x01020304, LinkLayerAddr: net.HardwareAddr{2, 0, 0, 0, 0, 2}}
}
func duidUUID() dhcpv6.DUID {
	return &dhcpv6.DUIDUUID{UUID: [16]byte{1, 2, 3, 4, 5, 6, 7, 8, 9, 10, 11, 12, 13, 14, 15, 16}}
}

func msg6(t dhcpv6.MessageType, opts ...dhcpv6.Option) *dhcpv6.Message {
	return &dhcpv6.Message{MessageType: t, TransactionID: dhcpv6.TransactionID{0x0a, 0x0b, 0x0c}, Options: dhcpv6.MessageOptions{Options: opts}}
}

func eui64() net.IP {
	return net.IP{0xfe, 0x80, 0, 0, 0, 0, 0, 0, 0x02, 0x00, 0x00, 0xff, 0xfe, 0x00, 0x00, 0x01}
}

func relay6(t dhcpv6.MessageType, peer net.IP, inner dhcpv6.DHCPv6, opts ...dhcpv6.Option) *dhcpv6.RelayMessage {
	o := dhcpv6.Options{}
	if inner != nil {
		o = append(o, dhcpv6.OptRelayMessage(inner))
	}
	o = append(o, opts...)
	return &dhcpv6.RelayMessage{MessageType: t, HopCount: 1, LinkAddr: append(net.IP{}, corpus6.AddrA...), PeerAddr: peer, Options: dhcpv6.RelayOptions{Options: o}}
}

func labels6(n ...string) *rfc1035label.Labels { return &rfc1035label.Labels{Labels: n} }

func iana6(addrs ...net.IP) *dhcpv6.OptIANA {
	o := &dhcpv6.OptIANA{IaId: [4]byte{1, 2, 3, 4}, T1: 100 * time.Second, T2: 200 * time.Second}
	for _, a := range addrs {
		o.Options.Options = append(o.Options.Options, &dhcpv6.OptIAAddress{IPv6Addr: a, PreferredLifetime: 300 * time.Second, ValidLifetime: 400 * time.Second})
	}
	return o
}

// v6ConversationSet is the 9-message alphabet of ConversationToNetconf.
func v6ConversationSet() []named {
	cid, sid := dhcpv6.OptClientID(duidLL()), dhcpv6.OptServerID(duidLLT())
	url := dhcpv6.OptBootFileURL("tftp://[2001:db8::1]/boot.efi")
	params := dhcpv6.OptBootFileParam("console=ttyS0", "root=/dev/ram0")
	dns := dhcpv6.OptDNS(append(net.IP{}, corpus6.AddrB...))
	ntp := &dhcpv6.OptNTPServer{Suboptions: dhcpv6.Options{
		func() dhcpv6.Option { a := dhcpv6.NTPSuboptionSrvAddr(append(net.IP{}, corpus6.AddrA...)); return &a }(),
		func() dhcpv6.Option { a := dhcpv6.NTPSuboptionMCAddr(append(net.IP{}, corpus6.AddrB...)); return &a }(),
		&dhcpv6.NTPSuboptionSrvFQDN{Labels: rfc1035label.Labels{Labels: []string{"ntp.example.org"}}},
	}}
	replyFull := msg6(dhcpv6.MessageTypeReply, cid, sid, iana6(corpus6.AddrA, corpus6.AddrB), url, params, dns, dhcpv6.OptDomainSearchList(labels6("example.org", "example.com")), ntp)
	set := []struct {
		n string
		m dhcpv6.DHCPv6
	}{
		{"solicit", msg6(dhcpv6.MessageTypeSolicit, cid, dhcpv6.OptRequestedOption(dhcpv6.OptionBootfileURL, dhcpv6.OptionBootfileParam), iana6())},
		{"advertise(boot-file-url,params,IA_NA)", msg6(dhcpv6.MessageTypeAdvertise, cid, sid, iana6(corpus6.AddrA), url, params)},
		{"advertise(bare)", msg6(dhcpv6.MessageTypeAdvertise, cid, sid)},
		{"request", msg6(dhcpv6.MessageTypeRequest, cid, sid, iana6(corpus6.AddrA))},
		{"reply(IA_NA,boot-file-url,params,dns,search,ntp)", replyFull},
		{"reply(IA_NA,dns;no boot-file-url)", msg6(dhcpv6.MessageTypeReply, cid, sid, iana6(corpus6.AddrA), dns)},
		{"reply(boot-file-url;no IA_NA)", msg6(dhcpv6.MessageTypeReply, cid, sid, url)},
		{"reply(IA_NA without address,empty boot-file-url)", msg6(dhcpv6.MessageTypeReply, cid, sid, iana6(), dhcpv6.OptBootFileURL(""))},
		{"relay-repl(reply(IA_NA,boot-file-url))", relay6(dhcpv6.MessageTypeRelayReply, eui64(), msg6(dhcpv6.MessageTypeReply, cid, sid, iana6(corpus6.AddrA), url))},
	}
	var out []named
	for _, s := range set {
		// not guarded: the conversation alphabet must exist for the check to mean anything
		out = append(out, named{s.n, append([]byte(nil), s.m.ToBytes()...)})
	}
	return out
}

// v6Special returns the ZTP / netboot / MAC-extraction messages at message and relay level.
func v6Special() (out []named) {
	// the messages below are built eagerly with the library's constructors; a
	// panic while building drops the remaining special messages (recorded)
	defer func() {
		if r := recover(); r != nil {
			corpusMu.Lock()
			corpusPanics = append(corpusPanics, fmt.Sprintf("v6Special: panic: %v (special messages built so far: %d)", r, len(out)))
			corpusMu.Unlock()
		}
	}()
	add := func(n string, m dhcpv6.DHCPv6) {
		out = append(out, named{"v6/" + n, append([]byte(nil), m.ToBytes()...)})
	}
	type carrier struct {
		n  string
		mk func(s string) dhcpv6.Option
	}
	carriers := []carrier{
		{"vendor-class(16)", func(s string) dhcpv6.Option {
			return &dhcpv6.OptVendorClass{EnterpriseNumber: 1271, Data: [][]byte{[]byte(s)}}
		}},
		{"vendor-opts(17)", func(s string) dhcpv6.Option {
			return &dhcpv6.OptVendorOpts{EnterpriseNumber: 1271, VendorOpts: dhcpv6.Options{gen6(1, s)}}
		}},
	}
	cids := []struct {
		n  string
		mk func() dhcpv6.DUID
	}{{"no-client-id", nil}, {"duid-en", duidEN}, {"duid-ll", duidLL}}
	for si, s := range ztp6Strings {
		for _, ca := range carriers {
			for _, ci := range cids {
				var base dhcpv6.Options
				if ci.mk != nil {
					base = append(base, dhcpv6.OptClientID(ci.mk()))
				}
				tag := fmt.Sprintf("ztp/str%02d(%q)/%s/%s", si, s, ca.n, ci.n)
				// message level
				add(tag+"/message", msg6(dhcpv6.MessageTypeSolicit, append(append(dhcpv6.Options{}, base...), ca.mk(s))...))
				// relay level: the vendor option sits among the relay's own options
				add(tag+"/relay-own-options", relay6(dhcpv6.MessageTypeRelayForward, eui64(), msg6(dhcpv6.MessageTypeSolicit, base...), ca.mk(s)))
				if ci.n == "duid-en" {
					// relay carrying the vendor option AND a client id among its own options
					add(tag+"/relay-own-options+client-id-at-relay-level", relay6(dhcpv6.MessageTypeRelayForward, eui64(), msg6(dhcpv6.MessageTypeSolicit), dhcpv6.OptClientID(ci.mk()), ca.mk(s)))
					// inside a relayed message
					add(tag+"/message-inside-relay", relay6(dhcpv6.MessageTypeRelayForward, eui64(), msg6(dhcpv6.MessageTypeSolicit, append(append(dhcpv6.Options{}, base...), ca.mk(s))...)))
				}
			}
		}
	}
	// both 16 and 17 present; several items; Mellanox sub-options
	add("ztp/both-16-and-17", msg6(dhcpv6.MessageTypeSolicit, carriers[0].mk("Arista;A;B;C"), carriers[1].mk("ZPESystems:NSC:1")))
	add("ztp/vendor-class-several-items", msg6(dhcpv6.MessageTypeSolicit, &dhcpv6.OptVendorClass{EnterpriseNumber: 9, Data: [][]byte{[]byte("x"), {}, []byte("NVOS##A##B")}}))
	add("ztp/vendor-class-no-items", msg6(dhcpv6.MessageTypeSolicit, &dhcpv6.OptVendorClass{EnterpriseNumber: 9}))
	add("ztp/vendor-opts-no-suboptions", msg6(dhcpv6.MessageTypeSolicit, &dhcpv6.OptVendorOpts{EnterpriseNumber: 9}))
	add("ztp/vendor-opts-several-suboptions", msg6(dhcpv6.MessageTypeSolicit, &dhcpv6.OptVendorOpts{EnterpriseNumber: 9, VendorOpts: dhcpv6.Options{gen6(1, ""), gen6(2, "x"), gen6(65535, "Cisco;a;b;c")}}))
	mlnx := func(subs ...dhcpv6.Option) dhcpv6.Option {
		return &dhcpv6.OptVendorOpts{EnterpriseNumber: uint32(iana.EnterpriseIDMellanoxTechnologiesLTD), VendorOpts: subs}
	}
	for i, subs := range [][]dhcpv6.Option{
		{gen6(1, "MSN2100"), gen6(3, "MT1234X00001")}, {gen6(1, "MSN2100")}, {gen6(3, "MT1")}, {}, {gen6(1, ""), gen6(3, "")},
		{gen6(2, "part"), gen6(4, "mac"), gen6(5, "profile"), gen6(6, "release"), gen6(1, "M"), gen6(3, "S")},
	} {
		add(fmt.Sprintf("ztp/mellanox%d/message", i), msg6(dhcpv6.MessageTypeSolicit, mlnx(subs...)))
		add(fmt.Sprintf("ztp/mellanox%d/relay-own-options", i), relay6(dhcpv6.MessageTypeRelayForward, eui64(), msg6(dhcpv6.MessageTypeSolicit), mlnx(subs...)))
	}
	// remote-id / interface-id strings at one and two relay levels, and on a plain message
	for i, s := range ztp6RemoteIDs {
		rid := func() dhcpv6.Option { return &dhcpv6.OptRemoteID{EnterpriseNumber: 30065, RemoteID: []byte(s)} }
		iid := func() dhcpv6.Option { return dhcpv6.OptInterfaceID([]byte(s)) }
		inner := func() dhcpv6.DHCPv6 { return msg6(dhcpv6.MessageTypeSolicit, dhcpv6.OptClientID(duidLL())) }
		tag := fmt.Sprintf("remote-id%02d(%q)", i, s)
		add(tag+"/relay1/remote-id", relay6(dhcpv6.MessageTypeRelayForward, eui64(), inner(), rid()))
		add(tag+"/relay1/interface-id", relay6(dhcpv6.MessageTypeRelayForward, eui64(), inner(), iid()))
		add(tag+"/relay1/remote-id(nomatch)+interface-id", relay6(dhcpv6.MessageTypeRelayForward, eui64(), inner(), &dhcpv6.OptRemoteID{EnterpriseNumber: 1, RemoteID: []byte("zzz")}, iid()))
		add(tag+"/relay2/innermost-relay", relay6(dhcpv6.MessageTypeRelayForward, append(net.IP{}, corpus6.AddrB...), relay6(dhcpv6.MessageTypeRelayForward, eui64(), inner(), rid(), iid())))
		add(tag+"/relay2/outermost-relay", relay6(dhcpv6.MessageTypeRelayForward, append(net.IP{}, corpus6.AddrB...), relay6(dhcpv6.MessageTypeRelayForward, eui64(), inner()), rid(), iid()))
		add(tag+"/message-level", msg6(dhcpv6.MessageTypeSolicit, rid(), iid()))
	}
	// MAC extraction branches
	lla := func() dhcpv6.Option {
		return dhcpv6.OptClientLinkLayerAddress(iana.HWTypeEthernet, net.HardwareAddr{2, 0, 0, 0, 0, 9})
	}
	for _, d := range []struct {
		n  string
		mk func() dhcpv6.DUID
	}{{"duid-ll", duidLL}, {"duid-llt", duidLLT}, {"duid-en", duidEN}, {"duid-uuid", duidUUID},
		{"duid-ll-empty-address", func() dhcpv6.DUID { return &dhcpv6.DUIDLL{HWType: iana.HWTypeEthernet} }},
		{"duid-opaque", func() dhcpv6.DUID { return &dhcpv6.DUIDOpaque{Type: 9, Data: []byte{1, 2, 3}} }}} {
		add("mac/"+d.n+"/message", msg6(dhcpv6.MessageTypeSolicit, dhcpv6.OptClientID(d.mk())))
		add("mac/"+d.n+"/relay(non-EUI64 peer)", relay6(dhcpv6.MessageTypeRelayForward, append(net.IP{}, corpus6.AddrB...), msg6(dhcpv6.MessageTypeSolicit, dhcpv6.OptClientID(d.mk()))))
	}
	add("mac/no-client-id/message", msg6(dhcpv6.MessageTypeSolicit))
	add("mac/relay(EUI64 peer)", relay6(dhcpv6.MessageTypeRelayForward, eui64(), msg6(dhcpv6.MessageTypeSolicit)))
	add("mac/relay(client-link-layer-address option)", relay6(dhcpv6.MessageTypeRelayForward, append(net.IP{}, corpus6.AddrB...), msg6(dhcpv6.MessageTypeSolicit), lla()))
	add("mac/relay(no relay-msg option)", relay6(dhcpv6.MessageTypeRelayForward, append(net.IP{}, corpus6.AddrB...), nil))
	add("mac/relay(no relay-msg option, EUI64)", relay6(dhcpv6.MessageTypeRelayForward, eui64(), nil, lla()))
	add("mac/relay2(inner relay without relay-msg)", relay6(dhcpv6.MessageTypeRelayForward, append(net.IP{}, corpus6.AddrB...), relay6(dhcpv6.MessageTypeRelayForward, append(net.IP{}, corpus6.AddrB...), nil)))
	add("mac/relay-repl(reply)", relay6(dhcpv6.MessageTypeRelayReply, eui64(), msg6(dhcpv6.MessageTypeReply, dhcpv6.OptClientID(duidLL()))))
	// netboot messages (also the conversation alphabet)
	for _, m := range v6ConversationSet() {
		out = append(out, named{"v6/netboot/" + m.name, m.b})
	}
	add("netboot/reply(two IA_NA, IA_TA, IA_PD)", msg6(dhcpv6.MessageTypeReply, iana6(corpus6.AddrA), iana6(corpus6.AddrB),
		&dhcpv6.OptIATA{IaId: [4]byte{9, 9, 9, 9}}, &dhcpv6.OptIAPD{IaId: [4]byte{8, 8, 8, 8}}))
	add("netboot/solicit(netboot: ORO with boot-file-url, arch, user-class)", msg6(dhcpv6.MessageTypeSolicit, dhcpv6.OptRequestedOption(dhcpv6.OptionBootfileURL),
		dhcpv6.OptClientArchType(iana.EFI_X86_64), &dhcpv6.OptUserClass{UserClasses: [][]byte{[]byte("iPXE")}}))
	return out
}
