// Package c03: no input can crash decoding or any read-only use of a decoded
// message.
//
// Bounded-exhaustive enumeration of byte strings per decoding entry point
// ((a) all strings over a per-entry-point alphabet up to a length bound, (b)
// every truncation / single-byte substitution / length-field perturbation of a
// corpus holding one valid instance of every option type at top level and
// nested, (c) deterministic size extremes up to 65 507 bytes). Every accepted
// value is handed to the reflective observer (package observe: every niladic
// exported method, and every one-integer-argument accessor, reachable from the
// value), to the reply builders, relay helpers, the ZTP parsers and the netboot
// extractors. The oracle is "returns normally": a recover() around every call
// (panic = violation) and a per-case wall-clock watchdog (no return within the
// deadline = violation).
//
// Files: c03.go (runner, watchdog, reporting, Run), entries.go (entry points
// and per-type uses), corpus.go (DHCPv4 packet corpus, ZTP / netboot strings,
// conversations), mutate.go (truncation / substitution / length-field
// perturbations), extremes.go (size extremes), raw.go (raw IPv4/UDP frames).
package c03

import (
	"fmt"
	"os"
	"runtime"
	"runtime/debug"
	"runtime/pprof"
	"sort"
	"strings"
	"sync"
	"sync/atomic"
	"time"

	"verif/seq/fw"
	"verif/seq/observe"
)

// ---------------------------------------------------------------- runner

// caseInfo describes the case a worker is executing (for the watchdog and for
// violation reports). Everything expensive is lazy.
type caseInfo struct {
	ep     string        // entry point name
	scope  string        // enumerated sub-space
	order  int64         // enumeration index (simplest first)
	input  func() string // rendered input
	decode string        // Go statements that decode the input into v (for reproducers)
	hexIn  func() string // hex of the input bytes ("" when the input is not a single byte string)
}

type epStat struct {
	Decodes            int64 `json:"decode_calls"`
	Accepted           int64 `json:"accepted"`
	AcceptedDecodeOnly int64 `json:"accepted_decode_only(over_4096_bytes)"`
	ObserverCalls      int64 `json:"observer_method_calls"`
	HelperCalls        int64 `json:"builder_and_helper_calls"`
	Truncated          int64 `json:"observer_sweeps_cut_by_budget,omitempty"`
}

type worker struct {
	r         *runner
	cur       atomic.Pointer[caseInfo]
	start     atomic.Int64 // reading of the runner's fair clock when the current case began; 0 = idle
	stage     atomic.Pointer[string]
	abandoned atomic.Bool
	reported  *caseInfo // touched by the monitor only
	stats     map[string]*epStat
	obs       *observe.Observer
	pool      *obsPool
}

type runner struct {
	c        *fw.Ctx
	obs      *obsPool // full observer (one instance per worker: no shared counters)
	lite     *obsPool // shallow observer for the size extremes
	deadline time.Duration
	// clock is not the wall clock: on a loaded machine a legitimate case takes several times longer, and a wall-clock
	// deadline would then report a hang that is not one. It advances, every 200 ms, by min(200 ms, processor time the
	// process consumed / busy workers), never by less than 10 ms: a case ages at the rate at which it is actually run.
	clock    atomic.Int64 // nanoseconds
	mu       sync.Mutex
	active   map[*worker]struct{}
	stats    map[string]*epStat
	timeouts int64
	lost     int64
	hung     atomic.Bool    // some case was reported as non-terminating (fast path for giveUp)
	stuck    map[string]int // entry point -> cases reported as non-terminating
	skipped  int64          // cases not run after an entry point was given up
	stop     chan struct{}
}

var (
	stDecode = "decode"
	stIdle   = "idle"
)

func newRunner(c *fw.Ctx) *runner {
	r := &runner{c: c, active: map[*worker]struct{}{}, stats: map[string]*epStat{}, stuck: map[string]int{}, stop: make(chan struct{})}
	r.deadline = 20 * time.Second
	if s := os.Getenv("C03_DEADLINE_S"); s != "" {
		var n int
		if _, err := fmt.Sscan(s, &n); err == nil && n > 0 {
			r.deadline = time.Duration(n) * time.Second
		}
	}
	r.obs = &obsPool{cfg: observe.Config{MaxDepth: 24, MaxCalls: 20000, Args: argValues}}
	r.lite = &obsPool{cfg: observe.Config{MaxDepth: 3, MaxCalls: 400}}
	go r.monitor()
	return r
}

// monitor is the watchdog: a case that has not returned within the deadline is
// reported as a non-termination violation (once).
func (r *runner) monitor() {
	t := time.NewTicker(200 * time.Millisecond)
	defer t.Stop()
	lastCPU := fw.CPUMillis()
	for {
		select {
		case <-r.stop:
			return
		case <-t.C:
		}
		cpu := fw.CPUMillis()
		r.mu.Lock()
		busy := int64(0)
		for w := range r.active {
			if w.start.Load() != 0 {
				busy++
			}
		}
		adv := int64(200 * time.Millisecond)
		if busy > 0 {
			if a := (cpu - lastCPU) * int64(time.Millisecond) / busy; a < adv {
				adv = a
			}
		}
		if adv < int64(10*time.Millisecond) {
			adv = int64(10 * time.Millisecond)
		}
		lastCPU = cpu
		now := r.clock.Add(adv)
		for w := range r.active {
			// read order ci, start, ci (begin stores cur before start, end zeroes
			// start): a start time is only ever attributed to its own case
			ci := w.cur.Load()
			st := w.start.Load()
			if st == 0 || ci == nil || ci != w.cur.Load() || ci == w.reported || time.Duration(now-st) < r.deadline {
				continue
			}
			w.reported = ci
			stage := "?"
			if p := w.stage.Load(); p != nil {
				stage = *p
			}
			r.timeouts++
			r.stuck[ci.ep]++
			r.hung.Store(true)
			who := ci.ep
			if stage != stDecode {
				who = stageOwner(stage)
			}
			r.c.Report(fw.Violation{Fingerprint: who + "|timeout|" + stage, Order: ci.order, Scope: ci.scope, Input: ci.input(),
				Observed: fmt.Sprintf("no return after %v of processor time (stage: %s; entry point %s)", r.deadline, stage, ci.ep),
				Expected: "the call returns a value or an error", Explain: "a decoding entry point or a read-only operation on a decoded value did not terminate within the watchdog deadline",
				GoTest: goTestDecodeOnly(ci)})
		}
		r.mu.Unlock()
	}
}

// stageOwner maps a stage name to the first fingerprint component: helper calls
// are named by themselves, reflective method calls by "observer".
func stageOwner(stage string) string {
	if strings.HasPrefix(stage, "(") {
		return "observer"
	}
	return stage
}

// obsPool hands every worker its own Observer (the observers' call counters are
// then uncontended) and keeps all of them for the final method report.
type obsPool struct {
	cfg  observe.Config
	mu   sync.Mutex
	free []*observe.Observer
	all  []*observe.Observer
}

func (p *obsPool) get() *observe.Observer {
	p.mu.Lock()
	defer p.mu.Unlock()
	if n := len(p.free); n > 0 {
		o := p.free[n-1]
		p.free = p.free[:n-1]
		return o
	}
	o := observe.New(p.cfg)
	p.all = append(p.all, o)
	return o
}

func (p *obsPool) put(o *observe.Observer) {
	p.mu.Lock()
	p.free = append(p.free, o)
	p.mu.Unlock()
}

func (p *obsPool) methods(into map[string]int64, skipped map[string]struct{}) {
	p.mu.Lock()
	defer p.mu.Unlock()
	for _, o := range p.all {
		for _, m := range o.Methods() {
			into[m.Method] += m.Calls
		}
		for _, s := range o.Skipped() {
			skipped[s] = struct{}{}
		}
	}
}

func (r *runner) newWorker(p *obsPool) *worker {
	w := &worker{r: r, stats: map[string]*epStat{}, obs: p.get(), pool: p}
	w.stage.Store(&stIdle)
	r.mu.Lock()
	r.active[w] = struct{}{}
	r.mu.Unlock()
	return w
}

func (r *runner) retire(w *worker, abandoned bool) {
	if !abandoned {
		r.flush(w)
	}
	r.mu.Lock()
	defer r.mu.Unlock()
	delete(r.active, w)
	if abandoned {
		return // its goroutine may still be running and owns w.stats and w.obs
	}
	w.pool.put(w.obs)
}

// flush merges a worker's counters into the runner's (called by the worker
// itself after every chunk, so an abandoned worker loses at most one chunk).
func (r *runner) flush(w *worker) {
	r.mu.Lock()
	defer r.mu.Unlock()
	for k, s := range w.stats {
		d := r.stats[k]
		if d == nil {
			d = &epStat{}
			r.stats[k] = d
		}
		d.Decodes += s.Decodes
		d.Accepted += s.Accepted
		d.AcceptedDecodeOnly += s.AcceptedDecodeOnly
		d.ObserverCalls += s.ObserverCalls
		d.HelperCalls += s.HelperCalls
		d.Truncated += s.Truncated
		*s = epStat{}
	}
}

// giveUp reports whether cases of this entry point are no longer run because it
// already produced several non-terminating cases (each of which costs a leaked,
// spinning goroutine).
func (r *runner) giveUp(ep string) bool {
	r.mu.Lock()
	defer r.mu.Unlock()
	if r.stuck[ep] >= 3 {
		r.skipped++
		return true
	}
	return false
}

func (w *worker) stat(ep string) *epStat {
	s := w.stats[ep]
	if s == nil {
		s = &epStat{}
		w.stats[ep] = s
	}
	return s
}

func (w *worker) begin(ci *caseInfo) {
	w.cur.Store(ci)
	w.stage.Store(&stDecode)
	w.start.Store(w.r.clock.Load() + 1)
}

func (w *worker) end() {
	w.start.Store(0)
	w.stage.Store(&stIdle)
}

// each enumerates every index in [0,n) exactly once on `par` workers. A worker
// stuck in a non-terminating call is reported by the monitor and, after 1.5
// deadlines, abandoned so that the run can continue (its goroutine leaks).
func (r *runner) each(n int64, par int, o *obsPool, f func(w *worker, i int64)) {
	if n <= 0 {
		return
	}
	if par <= 0 {
		par = fw.Workers()
	}
	if int64(par) > n {
		par = int(n)
	}
	chunk := n / int64(par*64)
	if chunk < 1 {
		chunk = 1
	}
	if chunk > 1<<14 {
		chunk = 1 << 14
	}
	var next atomic.Int64
	ws := make([]*worker, par)
	state := make([]atomic.Int32, par) // 0 running, 1 finished, 2 abandoned
	var left atomic.Int64
	left.Store(int64(par))
	fin := make(chan struct{}, par)
	for k := 0; k < par; k++ {
		w := r.newWorker(o)
		ws[k] = w
		k := k
		go func() {
			defer func() {
				if state[k].CompareAndSwap(0, 1) {
					left.Add(-1)
				}
				fin <- struct{}{}
			}()
			for {
				lo := next.Add(chunk) - chunk
				if lo >= n || w.abandoned.Load() || r.c.Over() {
					return
				}
				hi := lo + chunk
				if hi > n {
					hi = n
				}
				for i := lo; i < hi; i++ {
					f(w, i)
					if w.abandoned.Load() {
						return
					}
				}
				r.flush(w)
			}
		}()
	}
	tick := time.NewTicker(250 * time.Millisecond)
	defer tick.Stop()
	for left.Load() > 0 {
		select {
		case <-fin:
		case <-tick.C:
			now := r.clock.Load()
			for k, w := range ws {
				if state[k].Load() != 0 {
					continue
				}
				if st := w.start.Load(); st != 0 && time.Duration(now-st) > r.deadline+r.deadline/2 && state[k].CompareAndSwap(0, 2) {
					w.abandoned.Store(true)
					left.Add(-1)
					r.mu.Lock()
					r.lost++
					r.mu.Unlock()
				}
			}
		}
	}
	for k, w := range ws {
		r.retire(w, state[k].Load() == 2)
	}
}

// ---------------------------------------------------------------- reporting

func shortStack(s string) string {
	lines := strings.Split(s, "\n")
	var out []string
	for _, l := range lines {
		if strings.Contains(l, "insomniacslk/dhcp") || strings.Contains(l, "/repo/") {
			out = append(out, strings.TrimSpace(l))
		}
		if len(out) >= 8 {
			break
		}
	}
	return strings.Join(out, " <- ")
}

const testImports = `// imports: encoding/hex, testing, reflect, strconv, strings and the dhcp packages named below
`

func goTestDecodeOnly(ci *caseInfo) string {
	if ci.decode == "" {
		return ""
	}
	return fmt.Sprintf("%sfunc TestReplay(t *testing.T) {\n%s\n\tt.Logf(\"v=%%v err=%%v\", v, err)\n}", testImports, ci.decode)
}

func goTestUse(ci *caseInfo, use string) string {
	if ci.decode == "" {
		return ""
	}
	return fmt.Sprintf("%sfunc TestReplay(t *testing.T) {\n%s\n\tif err != nil {\n\t\tt.Fatal(err)\n\t}\n\t%s\n}", testImports, ci.decode, use)
}

func (w *worker) reportDecodePanic(ci *caseInfo, pv any, st string) {
	w.r.c.Report(fw.Violation{Fingerprint: ci.ep + "|panic|" + fw.PanicSite(st), Order: ci.order, Scope: ci.scope, Input: ci.input(),
		Observed: fmt.Sprintf("panic: %v at %s", pv, st), Expected: "a value or an error",
		Explain: "a decoding entry point panicked on a byte string", GoTest: goTestDecodeOnly(ci)})
}

func (w *worker) reportObserverPanic(ci *caseInfo, p observe.Panic) {
	st := shortStack(p.Stack)
	expr := observe.PathString(p.Path) + "." + p.Method[strings.LastIndex(p.Method, ".")+1:] + "(" + p.Arg + ")"
	use := "// " + expr + "\n\t"
	if steps, ok := observe.WalkerSteps(p.Path, p.Method, p.Arg); ok {
		q := make([]string, len(steps))
		for i, s := range steps {
			q[i] = fmt.Sprintf("%q", s)
		}
		use += "walk(reflect.ValueOf(v), " + strings.Join(q, ", ") + ")"
	} else {
		use += "// (path not expressible as walker steps; call the expression above by hand)"
	}
	gt := goTestUse(ci, use)
	if gt != "" {
		gt += "\n\n" + observe.WalkerSource
	}
	w.r.c.Report(fw.Violation{Fingerprint: "observer|panic|" + fw.PanicSite(st), Order: ci.order, Scope: ci.scope, Input: ci.input(),
		Observed: fmt.Sprintf("panic: %v in %s reached as %s (value decoded by %s) at %s", p.Value, p.Method, expr, ci.ep, st),
		Expected: "the method returns normally", Explain: "a read-only method reachable from a decoded value panicked", GoTest: gt})
}

// helper runs one builder / extractor call under recover.
func (w *worker) helper(ci *caseInfo, name *string, use string, f func()) (ok bool) {
	w.stage.Store(name)
	w.stat(ci.ep).HelperCalls++
	pv, st := fw.Safe(f)
	if pv == nil {
		return true
	}
	w.r.c.Report(fw.Violation{Fingerprint: *name + "|panic|" + fw.PanicSite(st), Order: ci.order, Scope: ci.scope, Input: ci.input(),
		Observed: fmt.Sprintf("panic: %v at %s (value decoded by %s)", pv, st, ci.ep), Expected: "a result or an error",
		Explain: "a builder / extractor panicked on a decoded value", GoTest: goTestUse(ci, use)})
	return false
}

// sweep runs the observer over an accepted value.
func (w *worker) sweep(ci *caseInfo, v any) {
	st := w.obs.Sweep(v, func(p observe.Panic) { w.reportObserverPanic(ci, p) }, &w.stage)
	s := w.stat(ci.ep)
	s.ObserverCalls += int64(st.Calls)
	if st.Truncated {
		s.Truncated++
	}
}

// ---------------------------------------------------------------- Run

func pow(a, n int) int64 {
	r := int64(1)
	for i := 0; i < n; i++ {
		r *= int64(a)
	}
	return r
}

func sumPow(a, n int) int64 {
	t := int64(0)
	for l := 0; l <= n; l++ {
		t += pow(a, l)
	}
	return t
}

// strings enumerates every string over alpha of length 0..maxLen after prefix,
// shortest first, and runs it through entry e.
func (r *runner) allStrings(e *entry, scope string, prefix, alpha []byte, maxLen int, ord *int64) {
	t0 := time.Now()
	defer func() {
		if os.Getenv("C03_VERBOSE") != "" {
			fmt.Fprintf(os.Stderr, "c03:   %s: %.1fs\n", scope, time.Since(t0).Seconds())
		}
	}()
	total := int64(0)
	for l := 0; l <= maxLen; l++ {
		n := pow(len(alpha), l)
		ll, b0 := l, *ord+total
		r.each(n, 0, r.obs, func(w *worker, i int64) {
			in := make([]byte, len(prefix)+ll)
			copy(in, prefix)
			x := i
			for k := 0; k < ll; k++ {
				in[len(prefix)+k] = alpha[x%int64(len(alpha))]
				x /= int64(len(alpha))
			}
			e.run(w, scope, b0+i, in)
			if ll >= 4 && i == n/3 {
				r.c.Sample(map[string]any{"scope": scope, "input": fw.HexShort(in)})
			}
		})
		total += n
	}
	kv := []any{"entry_point", e.name, "alphabet", fw.Hex(alpha), "max_len", maxLen, "cases", total}
	if len(prefix) > 0 {
		kv = append(kv, "prefix", fw.HexShort(prefix))
	}
	r.c.Scope(scope, kv...)
	*ord += total
}

// list runs a materialised list of inputs through an entry point.
func (r *runner) list(e *entry, scope string, ins [][]byte, ord *int64) {
	b0 := *ord
	r.each(int64(len(ins)), 0, r.obs, func(w *worker, i int64) { e.run(w, scope, b0+i, ins[i]) })
	*ord += int64(len(ins))
}

func Run(c *fw.Ctx) {
	if os.Getenv("GOGC") == "" {
		defer debug.SetGCPercent(debug.SetGCPercent(400))
	}
	c.SetRule("every input is enumerated once per entry point (injective index decoding; corpus perturbations may coincide with each other and are not de-duplicated). " +
		"evaluations = decode calls + observer method calls + builder/helper calls + conversation calls. " +
		"non-trivial = inputs accepted by the entry point, on each of which the full observer sweep (every callable method reachable by reflection) and the applicable builders/extractors ran")
	if pf := os.Getenv("C03_PROF"); pf != "" { // development aid
		if f, err := os.Create(pf); err == nil {
			pprof.StartCPUProfile(f)
			defer pprof.StopCPUProfile()
		}
	}
	r := newRunner(c)
	defer close(r.stop)
	t0 := time.Now()
	phase := map[string]float64{}
	mark := func(name string) {
		phase[name] = time.Since(t0).Seconds()
		if os.Getenv("C03_VERBOSE") != "" {
			fmt.Fprintf(os.Stderr, "c03: phase %s %.1fs\n", name, phase[name])
		}
		t0 = time.Now()
	}
	only := os.Getenv("C03_ONLY") // development aid: run selected phases only (marks the run as partial)
	want := func(p string) bool { return only == "" || strings.Contains(only, p) }
	if only != "" {
		c.Extra("partial_run_C03_ONLY", only)
	}
	var ord int64

	checkRegistry(c)
	if want("raw") {
		runRaw(r, &ord)
		mark("raw-frames")
	}
	if want("strings") {
		runStrings(r, &ord)
		mark("a:all-strings")
	}
	if want("corpus") {
		runCorpus(r, &ord)
		mark("b:corpus-perturbations")
	}
	if want("conv") {
		runConversations(r, &ord)
		mark("conversations")
	}
	if want("extremes") {
		runExtremes(r, &ord)
		mark("c:extremes")
	}

	// ---- accounting
	var names []string
	for k := range r.stats {
		names = append(names, k)
	}
	sort.Strings(names)
	per := map[string]*epStat{}
	var dec, acc, oc, hc int64
	for _, k := range names {
		s := r.stats[k]
		per[k] = s
		dec += s.Decodes
		acc += s.Accepted
		oc += s.ObserverCalls
		hc += s.HelperCalls
	}
	c.Eval(dec + oc + hc)
	c.Nontrivial(acc)
	c.Extra("per_entry_point", per)
	c.Extra("totals", map[string]int64{"decode_calls": dec, "accepted_inputs(observer_sweeps)": acc, "observer_method_calls": oc, "builder_and_helper_calls": hc})
	merged := map[string]int64{}
	sk := map[string]struct{}{}
	r.obs.methods(merged, sk)
	r.lite.methods(merged, sk)
	var ml []string
	for k := range merged {
		ml = append(ml, k)
	}
	sort.Strings(ml)
	list := make([]string, 0, len(ml))
	for _, k := range ml {
		list = append(list, fmt.Sprintf("%s x%d", k, merged[k]))
	}
	c.Extra("reflective_methods_invoked_count", len(ml))
	c.Extra("reflective_methods_invoked", list)
	var skl []string
	for k := range sk {
		skl = append(skl, k)
	}
	sort.Strings(skl)
	c.Extra("reflective_methods_skipped_as_mutators", skl)
	c.Extra("helpers_invoked", helperNames())
	c.Extra("phase_wall_s", phase)
	c.Extra("watchdog", map[string]any{"deadline_s": r.deadline.Seconds(), "timeouts": r.timeouts, "workers_abandoned": r.lost, "cases_not_run_after_an_entry_point_hung_3_times": r.skipped, "goroutines_at_end": runtime.NumGoroutine()})
	c.Assume(
		"the watchdog is a wall-clock deadline per case (goroutine based, not a step counter): "+r.deadline.String()+"; a case that exceeds it is reported as non-termination",
		"niladic methods whose name starts with Set/Add/Update/Del/Delete/Remove/Reset/Clear/... are mutators, not read-only uses, and are not called (listed in reflective_methods_skipped_as_mutators)",
		"one-argument accessors are called with integer arguments {0,17} (option codes, enterprise numbers, indentation, default durations) and, for dhcpv4.OptionCode, a fixed set of codes; no negative indentation is passed (strings.Repeat would panic by contract)",
		"label-bearing size extremes are kept <= 512 bytes: decoding pathological domain-name inputs is known to be super-linear (property C09 owns decoding cost); all other extreme families reach 65 507 bytes",
		"builders and extractors are only given decoded values and non-nil arguments",
		"arbitrary 65 kB strings are not enumerated; only the structured extreme families (c) reach that size",
	)
}
