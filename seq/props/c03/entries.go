package c03

import (
	"fmt"
	"go/ast"
	"go/parser"
	"go/token"
	"path/filepath"
	"reflect"
	"runtime"
	"sort"
	"strings"
	"sync"

	"github.com/insomniacslk/dhcp/dhcpv4"
	"github.com/insomniacslk/dhcp/dhcpv4/ztpv4"
	"github.com/insomniacslk/dhcp/dhcpv6"
	"github.com/insomniacslk/dhcp/dhcpv6/ztpv6"
	"github.com/insomniacslk/dhcp/iana"
	"github.com/insomniacslk/dhcp/netboot"
	"github.com/insomniacslk/dhcp/rfc1035label"
	"github.com/u-root/uio/uio"
	"verif/seq/fw"
	"verif/seq/observe"
)

// ---------------------------------------------------------------- entry points

// entry is one decoding entry point.
type entry struct {
	name string
	// decode runs the entry point on a private copy of the input. A nil value
	// with a nil error means "nothing to observe".
	decode func(in []byte) (any, error)
	// stmt is the Go statement(s) decoding `in` into v, err (for reproducers).
	stmt string
	// uses runs the builders / extractors applicable to the decoded value.
	uses func(w *worker, ci *caseInfo, v any)
}

func (e *entry) info(scope string, order int64, in []byte) *caseInfo {
	return &caseInfo{ep: e.name, scope: scope, order: order,
		input:  func() string { return fw.Hex(in) },
		hexIn:  func() string { return fw.Hex(in) },
		decode: fmt.Sprintf("\tin, _ := hex.DecodeString(%q)\n\t%s", fw.Hex(in), e.stmt)}
}

// run executes one case: decode, then (if accepted) observer sweep and uses.
// `in` is never handed to the library; a fresh copy is.
func (e *entry) run(w *worker, scope string, order int64, in []byte) {
	e.runOpt(w, scope, order, in, true)
}

// runOpt is run with the read-only uses optional (decode only when use is false).
func (e *entry) runOpt(w *worker, scope string, order int64, in []byte, use bool) {
	if w.r.hung.Load() && w.r.giveUp(e.name) {
		return
	}
	ci := e.info(scope, order, in)
	w.begin(ci)
	defer w.end()
	st := w.stat(e.name)
	st.Decodes++
	var v any
	var err error
	cp := append([]byte(nil), in...)
	if pv, stk := fw.Safe(func() { v, err = e.decode(cp) }); pv != nil {
		w.reportDecodePanic(ci, pv, stk)
		return
	}
	if err != nil || v == nil || isNilValue(v) {
		return
	}
	if !use {
		st.AcceptedDecodeOnly++
		return
	}
	st.Accepted++
	w.sweep(ci, v)
	if e.uses != nil {
		e.uses(w, ci, v)
	}
}

func isNilValue(v any) bool {
	rv := reflect.ValueOf(v)
	switch rv.Kind() {
	case reflect.Ptr, reflect.Interface, reflect.Map, reflect.Slice:
		return rv.IsNil()
	}
	return false
}

var (
	epV4 = &entry{name: "dhcpv4.FromBytes", stmt: "v, err := dhcpv4.FromBytes(in)",
		decode: func(in []byte) (any, error) { return dhcpv4.FromBytes(in) }, uses: usesV4}
	epV4Opts = &entry{name: "dhcpv4.Options.FromBytes", stmt: "v := make(dhcpv4.Options)\n\terr := v.FromBytes(in)",
		decode: func(in []byte) (any, error) {
			o := make(dhcpv4.Options)
			err := o.FromBytes(in)
			return o, err
		}}
	epV6 = &entry{name: "dhcpv6.FromBytes", stmt: "v, err := dhcpv6.FromBytes(in)",
		decode: func(in []byte) (any, error) { return dhcpv6.FromBytes(in) }, uses: usesV6}
	epV6Msg = &entry{name: "dhcpv6.MessageFromBytes", stmt: "v, err := dhcpv6.MessageFromBytes(in)",
		decode: func(in []byte) (any, error) { return dhcpv6.MessageFromBytes(in) }, uses: usesV6}
	epV6Relay = &entry{name: "dhcpv6.RelayMessageFromBytes", stmt: "v, err := dhcpv6.RelayMessageFromBytes(in)",
		decode: func(in []byte) (any, error) { return dhcpv6.RelayMessageFromBytes(in) }, uses: usesV6}
	epDUID = &entry{name: "dhcpv6.DUIDFromBytes", stmt: "v, err := dhcpv6.DUIDFromBytes(in)",
		decode: func(in []byte) (any, error) { return dhcpv6.DUIDFromBytes(in) }}
	epLabels = &entry{name: "rfc1035label.FromBytes", stmt: "v, err := rfc1035label.FromBytes(in)",
		decode: func(in []byte) (any, error) { return rfc1035label.FromBytes(in) }}
	epArchs = &entry{name: "iana.Archs.FromBytes", stmt: "v := new(iana.Archs)\n\terr := v.FromBytes(in)",
		decode: func(in []byte) (any, error) {
			a := new(iana.Archs)
			err := a.FromBytes(in)
			return a, err
		}}
	epV6OptsParser = &entry{name: "dhcpv6.Options.FromBytesWithParser", stmt: "v := new(dhcpv6.Options)\n\terr := v.FromBytesWithParser(in, dhcpv6.ParseOption)",
		decode: func(in []byte) (any, error) {
			o := new(dhcpv6.Options)
			err := o.FromBytesWithParser(in, dhcpv6.ParseOption)
			return o, err
		}}
	epRoute = &entry{name: "dhcpv4.Route.Unmarshal", stmt: "v := new(dhcpv4.Route)\n\terr := v.Unmarshal(uio.NewBigEndianBuffer(in))",
		decode: func(in []byte) (any, error) {
			r := new(dhcpv4.Route)
			err := r.Unmarshal(uio.NewBigEndianBuffer(in))
			return r, err
		}}
	epDuration6 = &entry{name: "dhcpv6.Duration.Unmarshal", stmt: "v := new(dhcpv6.Duration)\n\tvar err error\n\tv.Unmarshal(uio.NewBigEndianBuffer(in))",
		decode: func(in []byte) (any, error) {
			d := new(dhcpv6.Duration)
			d.Unmarshal(uio.NewBigEndianBuffer(in))
			return d, nil
		}}
)

var (
	parseOptionEntries = map[uint16]*entry{}
	parseOptionMu      sync.Mutex
)

// epParseOption returns the entry for dhcpv6.ParseOption with a fixed code.
func epParseOption(code uint16) *entry {
	parseOptionMu.Lock()
	defer parseOptionMu.Unlock()
	e := parseOptionEntries[code]
	if e == nil {
		e = &entry{name: "dhcpv6.ParseOption",
			stmt:   fmt.Sprintf("v, err := dhcpv6.ParseOption(dhcpv6.OptionCode(%d), in)", code),
			decode: func(in []byte) (any, error) { return dhcpv6.ParseOption(dhcpv6.OptionCode(code), in) }}
		parseOptionEntries[code] = e
	}
	return e
}

// optionCodes is every code ParseOption is driven with: 0..160, 255, 256, 65535.
func optionCodes() []uint16 {
	var out []uint16
	for c := 0; c <= 160; c++ {
		out = append(out, uint16(c))
	}
	return append(out, 255, 256, 65535)
}

// typed is one exported option value type with an exported FromBytes method.
type typed struct {
	pkg, name string
	expr      string     // Go expression creating the receiver
	mk        func() any // fresh receiver (pointer)
}

// typedRegistry lists every exported type of dhcpv4, dhcpv6, iana and
// rfc1035label that has an exported FromBytes([]byte) error method (declared
// or promoted). checkRegistry compares it with the source tree.
func typedRegistry() []typed {
	t := func(pkg, name string, mk func() any) typed {
		return typed{pkg, name, "new(" + pkg + "." + name + ")", mk}
	}
	return []typed{
		// dhcpv4 option value types
		t("dhcpv4", "IP", func() any { return new(dhcpv4.IP) }),
		t("dhcpv4", "IPs", func() any { return new(dhcpv4.IPs) }),
		t("dhcpv4", "IPMask", func() any { return new(dhcpv4.IPMask) }),
		t("dhcpv4", "Duration", func() any { return new(dhcpv4.Duration) }),
		t("dhcpv4", "Routes", func() any { return new(dhcpv4.Routes) }),
		t("dhcpv4", "Strings", func() any { return new(dhcpv4.Strings) }),
		t("dhcpv4", "String", func() any { return new(dhcpv4.String) }),
		t("dhcpv4", "VIVCIdentifiers", func() any { return new(dhcpv4.VIVCIdentifiers) }),
		t("dhcpv4", "OptionCodeList", func() any { return new(dhcpv4.OptionCodeList) }),
		t("dhcpv4", "RelayOptions", func() any { return new(dhcpv4.RelayOptions) }),
		t("dhcpv4", "Uint16", func() any { return new(dhcpv4.Uint16) }),
		t("dhcpv4", "MessageType", func() any { return new(dhcpv4.MessageType) }),
		t("dhcpv4", "AutoConfiguration", func() any { return new(dhcpv4.AutoConfiguration) }),
		{"dhcpv4", "Options", "func() *dhcpv4.Options { o := make(dhcpv4.Options); return &o }()", func() any { o := make(dhcpv4.Options); return &o }},
		// dhcpv6 option types
		t("dhcpv6", "OptionGeneric", func() any { return new(dhcpv6.OptionGeneric) }),
		t("dhcpv6", "Options", func() any { return new(dhcpv6.Options) }),
		t("dhcpv6", "MessageOptions", func() any { return new(dhcpv6.MessageOptions) }),
		t("dhcpv6", "RelayOptions", func() any { return new(dhcpv6.RelayOptions) }),
		t("dhcpv6", "IdentityOptions", func() any { return new(dhcpv6.IdentityOptions) }),
		t("dhcpv6", "AddressOptions", func() any { return new(dhcpv6.AddressOptions) }),
		t("dhcpv6", "PDOptions", func() any { return new(dhcpv6.PDOptions) }),
		t("dhcpv6", "PrefixOptions", func() any { return new(dhcpv6.PrefixOptions) }),
		t("dhcpv6", "FourRDOptions", func() any { return new(dhcpv6.FourRDOptions) }),
		t("dhcpv6", "OptionCodes", func() any { return new(dhcpv6.OptionCodes) }),
		t("dhcpv6", "DUIDLLT", func() any { return new(dhcpv6.DUIDLLT) }),
		t("dhcpv6", "DUIDLL", func() any { return new(dhcpv6.DUIDLL) }),
		t("dhcpv6", "DUIDEN", func() any { return new(dhcpv6.DUIDEN) }),
		t("dhcpv6", "DUIDUUID", func() any { return new(dhcpv6.DUIDUUID) }),
		t("dhcpv6", "DUIDOpaque", func() any { return new(dhcpv6.DUIDOpaque) }),
		t("dhcpv6", "Opt4RD", func() any { return new(dhcpv6.Opt4RD) }),
		t("dhcpv6", "Opt4RDMapRule", func() any { return new(dhcpv6.Opt4RDMapRule) }),
		t("dhcpv6", "Opt4RDNonMapRule", func() any { return new(dhcpv6.Opt4RDNonMapRule) }),
		t("dhcpv6", "OptDHCPv4Msg", func() any { return new(dhcpv6.OptDHCPv4Msg) }),
		t("dhcpv6", "OptDHCP4oDHCP6Server", func() any { return new(dhcpv6.OptDHCP4oDHCP6Server) }),
		t("dhcpv6", "OptFQDN", func() any { return new(dhcpv6.OptFQDN) }),
		t("dhcpv6", "OptIAAddress", func() any { return new(dhcpv6.OptIAAddress) }),
		t("dhcpv6", "OptIAPD", func() any { return new(dhcpv6.OptIAPD) }),
		t("dhcpv6", "OptIAPrefix", func() any { return new(dhcpv6.OptIAPrefix) }),
		t("dhcpv6", "OptIANA", func() any { return new(dhcpv6.OptIANA) }),
		t("dhcpv6", "OptIATA", func() any { return new(dhcpv6.OptIATA) }),
		t("dhcpv6", "OptNetworkInterfaceID", func() any { return new(dhcpv6.OptNetworkInterfaceID) }),
		t("dhcpv6", "NTPSuboptionSrvAddr", func() any { return new(dhcpv6.NTPSuboptionSrvAddr) }),
		t("dhcpv6", "NTPSuboptionMCAddr", func() any { return new(dhcpv6.NTPSuboptionMCAddr) }),
		t("dhcpv6", "NTPSuboptionSrvFQDN", func() any { return new(dhcpv6.NTPSuboptionSrvFQDN) }),
		t("dhcpv6", "OptNTPServer", func() any { return new(dhcpv6.OptNTPServer) }),
		t("dhcpv6", "OptRemoteID", func() any { return new(dhcpv6.OptRemoteID) }),
		t("dhcpv6", "OptStatusCode", func() any { return new(dhcpv6.OptStatusCode) }),
		t("dhcpv6", "OptUserClass", func() any { return new(dhcpv6.OptUserClass) }),
		t("dhcpv6", "OptVendorOpts", func() any { return new(dhcpv6.OptVendorOpts) }),
		t("dhcpv6", "OptVendorClass", func() any { return new(dhcpv6.OptVendorClass) }),
		// others
		t("iana", "Archs", func() any { return new(iana.Archs) }),
		t("rfc1035label", "Labels", func() any { return new(rfc1035label.Labels) }),
	}
}

var bytesToErr = reflect.TypeOf(func([]byte) error { return nil })

// typedEntry wraps a registry type as an entry point calling FromBytes by reflection.
func typedEntry(t typed) *entry {
	return &entry{name: t.pkg + "." + t.name + ".FromBytes", stmt: "v := " + t.expr + "\n\terr := v.FromBytes(in)",
		decode: func(in []byte) (any, error) {
			p := t.mk()
			m := reflect.ValueOf(p).MethodByName("FromBytes")
			if !m.IsValid() || m.Type() != bytesToErr {
				return nil, fmt.Errorf("c03: %s.%s has no FromBytes([]byte) error", t.pkg, t.name)
			}
			out := m.Call([]reflect.Value{reflect.ValueOf(in)})
			if e := out[0]; !e.IsNil() {
				return nil, e.Interface().(error)
			}
			return p, nil
		}}
}

// sourceDir returns the directory of the package that declares fn, as compiled into this binary.
func sourceDir(fn any) string {
	f := runtime.FuncForPC(reflect.ValueOf(fn).Pointer())
	if f == nil {
		return ""
	}
	file, _ := f.FileLine(f.Entry())
	return filepath.Dir(file)
}

// checkRegistry binds the list of typed entry points to the source tree: every
// exported type that declares an exported FromBytes / Unmarshal method must be
// covered; what is not is listed in the evidence (coverage gap, not a violation).
func checkRegistry(c *fw.Ctx) {
	dirs := map[string]string{
		"dhcpv4":       sourceDir(dhcpv4.FromBytes),
		"dhcpv6":       sourceDir(dhcpv6.ParseOption),
		"iana":         sourceDir(iana.Arch.String),
		"rfc1035label": sourceDir(rfc1035label.FromBytes),
	}
	have := map[string]bool{}
	for _, t := range typedRegistry() {
		have[t.pkg+"."+t.name+".FromBytes"] = true
	}
	have["dhcpv4.Route.Unmarshal"] = true
	have["dhcpv6.Duration.Unmarshal"] = true
	have["dhcpv6.Options.FromBytesWithParser"] = true
	var uncovered, found []string
	for pkg, dir := range dirs {
		fset := token.NewFileSet()
		pkgs, err := parser.ParseDir(fset, dir, nil, 0)
		if err != nil {
			c.Extra("entry_point_binding_error", err.Error())
			continue
		}
		for _, p := range pkgs {
			if strings.HasSuffix(p.Name, "_test") {
				continue
			}
			for fname, f := range p.Files {
				if strings.HasSuffix(fname, "_test.go") {
					continue
				}
				for _, d := range f.Decls {
					fd, ok := d.(*ast.FuncDecl)
					if !ok || fd.Recv == nil || len(fd.Recv.List) == 0 {
						continue
					}
					n := fd.Name.Name
					if n != "FromBytes" && n != "Unmarshal" && n != "FromBytesWithParser" {
						continue
					}
					rt := fd.Recv.List[0].Type
					if s, ok := rt.(*ast.StarExpr); ok {
						rt = s.X
					}
					id, ok := rt.(*ast.Ident)
					if !ok || !id.IsExported() {
						continue
					}
					key := pkg + "." + id.Name + "." + n
					found = append(found, key)
					if !have[key] {
						uncovered = append(uncovered, key)
					}
				}
			}
		}
	}
	sort.Strings(found)
	sort.Strings(uncovered)
	if uncovered == nil {
		uncovered = []string{}
	}
	c.Extra("exported_decoding_methods_in_source", found)
	c.Extra("uncovered_exported_decoding_methods", uncovered)
	c.Extra("source_dirs", dirs)
}

// ---------------------------------------------------------------- observer arguments

var v4Codes = []dhcpv4.OptionCode{dhcpv4.OptionPad, dhcpv4.OptionSubnetMask, dhcpv4.OptionDHCPMessageType,
	dhcpv4.OptionRelayAgentInformation, dhcpv4.OptionEnd, dhcpv4.GenericOptionCode(224)}

var v4CodeType = reflect.TypeOf((*dhcpv4.OptionCode)(nil)).Elem()

// argValues supplies the arguments for one-argument accessors.
func argValues(t reflect.Type) []reflect.Value {
	if t == v4CodeType {
		out := make([]reflect.Value, len(v4Codes))
		for i, c := range v4Codes {
			v := reflect.New(t).Elem()
			v.Set(reflect.ValueOf(c))
			out[i] = v
		}
		return out
	}
	return intArgs(t)
}

var intArgs = observe.IntArgs(0, 17)

// ---------------------------------------------------------------- uses

var (
	hNewReplyFromRequest   = "dhcpv4.NewReplyFromRequest"
	hNewRequestFromOffer   = "dhcpv4.NewRequestFromOffer"
	hNewRenewFromAck       = "dhcpv4.NewRenewFromAck"
	hNewReleaseFromACK     = "dhcpv4.NewReleaseFromACK"
	hZtp4Vendor            = "ztpv4.ParseVendorData"
	hZtp4Circuit           = "ztpv4.ParseCircuitID"
	hNetconf4              = "netboot.GetNetConfFromPacketv4"
	hNewReplyFromMessage   = "dhcpv6.NewReplyFromMessage"
	hNewAdvertise          = "dhcpv6.NewAdvertiseFromSolicit"
	hNewRequest            = "dhcpv6.NewRequestFromAdvertise"
	hNewRelayRepl          = "dhcpv6.NewRelayReplFromRelayForw"
	hDecap                 = "dhcpv6.DecapsulateRelay"
	hDecapIndex            = "dhcpv6.DecapsulateRelayIndex"
	hGetInner              = "dhcpv6.DHCPv6.GetInnerMessage"
	hExtractMAC            = "dhcpv6.ExtractMAC"
	hGetTransactionID      = "dhcpv6.GetTransactionID"
	hZtp6Vendor            = "ztpv6.ParseVendorData"
	hZtp6Remote            = "ztpv6.ParseRemoteID"
	hNetconf6              = "netboot.GetNetConfFromPacketv6"
	hConv6                 = "netboot.ConversationToNetconf"
	hConv4                 = "netboot.ConversationToNetconfv4"
	hBuiltToBytes          = "ToBytes/Summary of the built reply"
	hFormatCircuit         = "CircuitID.FormatCircuitID"
	hRawReadFrom           = "BroadcastRawUDPConn.ReadFrom"
	hV4FromRawPayload      = "dhcpv4.FromBytes(payload returned by ReadFrom)"
	hIsOptionRequestedLoop = "IsOptionRequested(every requested code)"
)

func helperNames() []string {
	return []string{hNewReplyFromRequest, hNewRequestFromOffer, hNewRenewFromAck, hNewReleaseFromACK, hZtp4Vendor, hZtp4Circuit, hNetconf4,
		hNewReplyFromMessage, hNewAdvertise, hNewRequest, hNewRelayRepl, hDecap, hDecapIndex + "(-1..3)", hGetInner, hExtractMAC, hGetTransactionID,
		hZtp6Vendor, hZtp6Remote, hNetconf6, hConv6, hConv4, hBuiltToBytes, hFormatCircuit, hIsOptionRequestedLoop}
}

// usesV4: builders, ZTP and netboot extractors on a decoded DHCPv4 packet.
func usesV4(w *worker, ci *caseInfo, v any) {
	p := v.(*dhcpv4.DHCPv4)
	built := func(name *string, use string, f func() (*dhcpv4.DHCPv4, error)) {
		var r *dhcpv4.DHCPv4
		var err error
		if w.helper(ci, name, use, func() { r, err = f() }) && err == nil && r != nil {
			w.helper(ci, &hBuiltToBytes, "r, _ := "+strings.TrimPrefix(use, "_, _ = ")+"; _ = r.ToBytes(); _ = r.Summary()", func() {
				_ = r.ToBytes()
				_ = r.Summary()
			})
		}
	}
	built(&hNewReplyFromRequest, "_, _ = dhcpv4.NewReplyFromRequest(v)", func() (*dhcpv4.DHCPv4, error) { return dhcpv4.NewReplyFromRequest(p) })
	built(&hNewRequestFromOffer, "_, _ = dhcpv4.NewRequestFromOffer(v)", func() (*dhcpv4.DHCPv4, error) { return dhcpv4.NewRequestFromOffer(p) })
	built(&hNewRenewFromAck, "_, _ = dhcpv4.NewRenewFromAck(v)", func() (*dhcpv4.DHCPv4, error) { return dhcpv4.NewRenewFromAck(p) })
	built(&hNewReleaseFromACK, "_, _ = dhcpv4.NewReleaseFromACK(v)", func() (*dhcpv4.DHCPv4, error) { return dhcpv4.NewReleaseFromACK(p) })
	w.helper(ci, &hZtp4Vendor, "_, _ = ztpv4.ParseVendorData(v)", func() { _, _ = ztpv4.ParseVendorData(p) })
	var cid *ztpv4.CircuitID
	if w.helper(ci, &hZtp4Circuit, "_, _ = ztpv4.ParseCircuitID(v)", func() { cid, _ = ztpv4.ParseCircuitID(p) }) && cid != nil {
		w.helper(ci, &hFormatCircuit, "c, _ := ztpv4.ParseCircuitID(v); _ = c.FormatCircuitID()", func() { _ = cid.FormatCircuitID() })
	}
	w.helper(ci, &hNetconf4, "_, _ = netboot.GetNetConfFromPacketv4(v)", func() { _, _ = netboot.GetNetConfFromPacketv4(p) })
	w.helper(ci, &hConv4, "_, _ = netboot.ConversationToNetconfv4([]*dhcpv4.DHCPv4{v})", func() { _, _ = netboot.ConversationToNetconfv4([]*dhcpv4.DHCPv4{p}) })
	w.helper(ci, &hIsOptionRequestedLoop, "for _, c := range v.ParameterRequestList() { _ = v.IsOptionRequested(c) }", func() {
		for _, c := range p.ParameterRequestList() {
			_ = p.IsOptionRequested(c)
		}
	})
}

var (
	convFixedOnce sync.Once
	convFixed6    []dhcpv6.DHCPv6
	convFixed4    []*dhcpv4.DHCPv4
)

// replyForRelay is the reply handed to NewRelayReplFromRelayForw ("some reply").
func replyForRelay() *dhcpv6.Message {
	m, err := dhcpv6.MessageFromBytes([]byte{7, 0xaa, 0xbb, 0xcc, 0, 13, 0, 4, 0, 0, 'o', 'k'})
	if err != nil {
		panic("c03: harness reply does not decode: " + err.Error())
	}
	return m
}

// usesV6: builders, relay helpers, ZTP and netboot extractors on a decoded DHCPv6 value.
func usesV6(w *worker, ci *caseInfo, v any) {
	var d dhcpv6.DHCPv6
	switch x := v.(type) {
	case *dhcpv6.Message:
		d = x
	case *dhcpv6.RelayMessage:
		d = x
	case dhcpv6.DHCPv6:
		d = x
	default:
		return
	}
	// conversations that contain this very value (whatever entry point decoded it): alone, and next to
	// the two messages that steer the extractor (an ADVERTISE with boot file URL, a full REPLY), in both orders
	convFixedOnce.Do(func() {
		for _, n := range v6ConversationSet() {
			if strings.HasPrefix(n.name, "advertise(boot-file-url") || strings.HasPrefix(n.name, "reply(IA_NA,boot-file-url") {
				if m, err := dhcpv6.FromBytes(n.b); err == nil {
					convFixed6 = append(convFixed6, m)
				}
			}
		}
		for _, n := range v4ConversationSet() {
			if m, err := dhcpv4.FromBytes(n.b); err == nil && len(convFixed4) < 2 && (m.MessageType() == dhcpv4.MessageTypeOffer || m.MessageType() == dhcpv4.MessageTypeAck) {
				convFixed4 = append(convFixed4, m)
			}
		}
	})
	w.helper(ci, &hConv6, "_, _ = netboot.ConversationToNetconf([]dhcpv6.DHCPv6{v})", func() { _, _ = netboot.ConversationToNetconf([]dhcpv6.DHCPv6{d}) })
	for i, f := range convFixed6 {
		f := f
		w.helper(ci, &hConv6, fmt.Sprintf("// fixed message %d of the conversation alphabet (see DESIGN C03) before and after v\n\t_, _ = netboot.ConversationToNetconf([]dhcpv6.DHCPv6{v})", i), func() {
			_, _ = netboot.ConversationToNetconf([]dhcpv6.DHCPv6{d, f})
			_, _ = netboot.ConversationToNetconf([]dhcpv6.DHCPv6{f, d})
		})
	}
	w.helper(ci, &hDecap, "_, _ = dhcpv6.DecapsulateRelay(v)", func() { _, _ = dhcpv6.DecapsulateRelay(d) })
	for idx := -1; idx <= 3; idx++ {
		idx := idx
		w.helper(ci, &hDecapIndex, fmt.Sprintf("_, _ = dhcpv6.DecapsulateRelayIndex(v, %d)", idx), func() { _, _ = dhcpv6.DecapsulateRelayIndex(d, idx) })
	}
	var inner *dhcpv6.Message
	w.helper(ci, &hGetInner, "_, _ = v.GetInnerMessage()", func() { inner, _ = d.GetInnerMessage() })
	w.helper(ci, &hGetTransactionID, "_, _ = dhcpv6.GetTransactionID(v)", func() { _, _ = dhcpv6.GetTransactionID(d) })
	w.helper(ci, &hExtractMAC, "_, _ = dhcpv6.ExtractMAC(v)", func() { _, _ = dhcpv6.ExtractMAC(d) })
	w.helper(ci, &hZtp6Vendor, "_, _ = ztpv6.ParseVendorData(v)", func() { _, _ = ztpv6.ParseVendorData(d) })
	var cid *ztpv6.CircuitID
	if w.helper(ci, &hZtp6Remote, "_, _ = ztpv6.ParseRemoteID(v)", func() { cid, _ = ztpv6.ParseRemoteID(d) }) && cid != nil {
		w.helper(ci, &hFormatCircuit, "c, _ := ztpv6.ParseRemoteID(v); _ = c.FormatCircuitID()", func() { _ = cid.FormatCircuitID() })
	}
	if rm, ok := d.(*dhcpv6.RelayMessage); ok {
		var out dhcpv6.DHCPv6
		var err error
		if w.helper(ci, &hNewRelayRepl, "reply, _ := dhcpv6.MessageFromBytes([]byte{7, 0xaa, 0xbb, 0xcc, 0, 13, 0, 4, 0, 0, 'o', 'k'})\n\t_, _ = dhcpv6.NewRelayReplFromRelayForw(v.(*dhcpv6.RelayMessage), reply)",
			func() { out, err = dhcpv6.NewRelayReplFromRelayForw(rm, replyForRelay()) }) && err == nil && out != nil {
			w.helper(ci, &hBuiltToBytes, "// ToBytes/Summary of the relay-reply built above", func() {
				_ = out.ToBytes()
				_ = out.Summary()
			})
		}
	}
	// the message-level builders and extractors run on the message itself or on the
	// innermost message of a relay chain (also a decoded value)
	var m *dhcpv6.Message
	inPrefix := ""
	if x, ok := d.(*dhcpv6.Message); ok {
		m = x
	} else if inner != nil {
		m, inPrefix = inner, "m, _ := v.GetInnerMessage(); "
	}
	if m == nil {
		return
	}
	mv := "v"
	if inPrefix != "" {
		mv = "m"
	} else if ci.ep == "dhcpv6.FromBytes" {
		mv = "v.(*dhcpv6.Message)"
	}
	if inPrefix != "" {
		// the vendor parser and MAC extraction are also meaningful on the inner message
		w.helper(ci, &hZtp6Vendor, inPrefix+"_, _ = ztpv6.ParseVendorData(m)", func() { _, _ = ztpv6.ParseVendorData(m) })
		w.helper(ci, &hExtractMAC, inPrefix+"_, _ = dhcpv6.ExtractMAC(m)", func() { _, _ = dhcpv6.ExtractMAC(m) })
	}
	built := func(name *string, fn string, f func() (*dhcpv6.Message, error)) {
		var r *dhcpv6.Message
		var err error
		if w.helper(ci, name, inPrefix+"_, _ = "+fn+"("+mv+")", func() { r, err = f() }) && err == nil && r != nil {
			w.helper(ci, &hBuiltToBytes, inPrefix+"r, _ := "+fn+"("+mv+"); _ = r.ToBytes(); _ = r.Summary()", func() {
				_ = r.ToBytes()
				_ = r.Summary()
			})
		}
	}
	built(&hNewReplyFromMessage, "dhcpv6.NewReplyFromMessage", func() (*dhcpv6.Message, error) { return dhcpv6.NewReplyFromMessage(m) })
	built(&hNewAdvertise, "dhcpv6.NewAdvertiseFromSolicit", func() (*dhcpv6.Message, error) { return dhcpv6.NewAdvertiseFromSolicit(m) })
	built(&hNewRequest, "dhcpv6.NewRequestFromAdvertise", func() (*dhcpv6.Message, error) { return dhcpv6.NewRequestFromAdvertise(m) })
	w.helper(ci, &hNetconf6, inPrefix+"_, _ = netboot.GetNetConfFromPacketv6("+mv+")", func() { _, _ = netboot.GetNetConfFromPacketv6(m) })
}

func ip6(last byte) []byte {
	b := make([]byte, 16)
	b[0], b[15] = 0xfe, last
	return b
}

// TypedDecoder is one exported value type with a FromBytes method (for other checks that want
// to drive every typed decoding entry point, e.g. C08).
type TypedDecoder struct {
	Name string     // "dhcpv6.OptIANA"
	Expr string     // Go expression creating a fresh receiver
	New  func() any // fresh receiver (pointer)
}

// TypedDecoders lists the registry of typed decoding entry points.
func TypedDecoders() []TypedDecoder {
	var out []TypedDecoder
	for _, t := range typedRegistry() {
		out = append(out, TypedDecoder{t.pkg + "." + t.name, t.expr, t.mk})
	}
	return out
}
