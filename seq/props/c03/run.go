package c03

import (
	"fmt"
	"io"
	"log"
	"strings"
	"sync"

	"github.com/insomniacslk/dhcp/dhcpv4"
	"github.com/insomniacslk/dhcp/dhcpv6"
	"github.com/insomniacslk/dhcp/netboot"
	"verif/seq/corpus6"
	"verif/seq/fw"
	"verif/seq/props/c04"
)

var (
	hdrSolicit = []byte{0x01, 0x0a, 0x0b, 0x0c}
)

func msgHdr(t byte) []byte { return []byte{t, 0x0a, 0x0b, 0x0c} }

func relayHdr(t byte) []byte {
	b := make([]byte, 34)
	b[0], b[1] = t, 1
	copy(b[2:18], corpus6.AddrA)
	copy(b[18:34], eui64())
	return b
}

// ---------------------------------------------------------------- (a) all strings

func runStrings(r *runner, ord *int64) {
	th := r.c.Thorough()
	pick := func(q, t int) int {
		if th {
			return t
		}
		return q
	}
	// labels
	r.allStrings(epLabels, "a:labels", nil, []byte{0x00, 0x01, 0x02, 0x3f, 0x40, 0xc0, 0xc1, 'a', 0xff}, pick(7, 8), ord)
	// DHCPv6 option areas
	a6 := []byte{0x00, 0x01, 0x02, 0x03, 0x08, 0x0e, 0xff}
	n6 := pick(8, 9)
	r.allStrings(epV6, "a:v6-option-area(solicit header)", hdrSolicit, a6, n6, ord)
	r.allStrings(epV6, "a:v6-option-area(relay-forw header)", relayHdr(12), a6, n6, ord)
	for _, t := range []byte{2, 3, 7, 11} {
		r.allStrings(epV6, fmt.Sprintf("a:v6-option-area(message type %d header)", t), msgHdr(t), a6, n6-1, ord)
	}
	r.allStrings(epV6, "a:v6-option-area(relay-repl header)", relayHdr(13), a6, n6-1, ord)
	r.allStrings(epV6Msg, "a:v6-option-area(MessageFromBytes, solicit header)", hdrSolicit, a6, n6-2, ord)
	r.allStrings(epV6Relay, "a:v6-option-area(RelayMessageFromBytes, relay-forw header)", relayHdr(12), a6, n6-2, ord)
	r.allStrings(epV6Msg, "a:v6-option-area(MessageFromBytes, relay header: must be rejected)", relayHdr(12), a6, 3, ord)
	r.allStrings(epV6Relay, "a:v6-option-area(RelayMessageFromBytes, solicit header: must be rejected)", hdrSolicit, a6, 3, ord)
	// relay-specific alphabet: relay-msg 9, interface-id 18, remote-id 37, inner type 1, lengths 0/1/4
	r.allStrings(epV6, "a:v6-option-area(relay-forw header, relay alphabet)", relayHdr(12), []byte{0x00, 0x01, 0x04, 0x09, 0x12, 0x25, 0xff}, n6, ord)
	// vendor alphabet: vendor class 16, vendor opts 17, client id 1, lengths
	r.allStrings(epV6, "a:v6-option-area(solicit header, vendor alphabet)", hdrSolicit, []byte{0x00, 0x01, 0x02, 0x04, 0x06, 0x10, 0x11}, n6-1, ord)
	// headers: every message type x sizes around the header sizes
	{
		var ins [][]byte
		for t := 0; t < 256; t++ {
			for _, n := range []int{1, 2, 3, 4, 5, 8, 33, 34, 35, 38, 42} {
				b := make([]byte, n)
				b[0] = byte(t)
				ins = append(ins, b)
				if n >= 38 {
					c := make([]byte, n)
					c[0] = byte(t)
					c[34], c[35], c[36], c[37] = 0, 9, 0, byte(n-38)
					ins = append(ins, c)
				}
			}
		}
		ins = append(ins, []byte{})
		for _, e := range []*entry{epV6, epV6Msg, epV6Relay} {
			r.list(e, "a:v6-headers("+e.name+")", ins, ord)
		}
		r.c.Scope("a:v6-headers", "what", "every message type 0..255 x lengths {1,2,3,4,5,8,33,34,35,38,42} of zero bytes (and with a relay-msg option header at offset 34), through FromBytes, MessageFromBytes, RelayMessageFromBytes", "cases", 3*len(ins))
	}
	// DHCPv4 option areas
	a4 := []byte{0x00, 0x01, 0x02, 0x35, 0x52, 0xff}
	n4 := pick(8, 9)
	r.allStrings(epV4, "a:v4-option-area(after 240-byte prefix)", c04.Prefix(), a4, n4, ord)
	r.allStrings(epV4Opts, "a:v4-option-list(Options.FromBytes)", nil, a4, n4-1, ord)
	{
		// hlen over all 256 values x three tails; every truncation of the prefix
		var ins [][]byte
		for h := 0; h < 256; h++ {
			for _, tail := range [][]byte{{}, {0xff}, {0x35, 1, 2, 0xff}} {
				b := append(c04.Prefix(), tail...)
				b[2] = byte(h)
				ins = append(ins, b)
			}
		}
		p := append(c04.Prefix(), 0xff)
		for t := 0; t <= len(p); t++ {
			ins = append(ins, append([]byte(nil), p[:t]...))
		}
		r.list(epV4, "a:v4-header(hlen 0..255, every truncation of the prefix)", ins, ord)
		r.c.Scope("a:v4-header", "hlen", "0..255 x 3 option tails", "truncations", len(p)+1, "cases", len(ins))
	}
	// DUID
	r.allStrings(epDUID, "a:duid", nil, []byte{0x00, 0x01, 0x02, 0x03, 0x04, 0xff}, 8, ord)
	// ParseOption: every code x all payloads
	{
		alpha := []byte{0x00, 0x01, 0x02, 0x10, 0xff}
		maxLen := pick(6, 7)
		codes := optionCodes()
		eps := make([]*entry, len(codes))
		for i, c := range codes {
			eps[i] = epParseOption(c)
		}
		per := sumPow(len(alpha), maxLen)
		// index -> (length, index within length)
		var starts []int64
		acc := int64(0)
		for l := 0; l <= maxLen; l++ {
			starts = append(starts, acc)
			acc += pow(len(alpha), l)
		}
		b0 := *ord
		r.each(per*int64(len(codes)), 0, r.obs, func(w *worker, i int64) {
			// payload-major order: all codes for the shortest payloads first
			pi, ci := i/int64(len(codes)), i%int64(len(codes))
			l := 0
			for l+1 < len(starts) && starts[l+1] <= pi {
				l++
			}
			x := pi - starts[l]
			in := make([]byte, l)
			for k := 0; k < l; k++ {
				in[k] = alpha[x%int64(len(alpha))]
				x /= int64(len(alpha))
			}
			eps[ci].run(w, fmt.Sprintf("a:ParseOption(code %d)", codes[ci]), b0+i, in)
		})
		*ord += per * int64(len(codes))
		r.c.Scope("a:ParseOption", "codes", "0..160, 255, 256, 65535", "alphabet", fw.Hex(alpha), "max_len", maxLen, "cases", per*int64(len(codes)))
	}
	// typed FromBytes / Unmarshal of every exported option value type
	{
		alphaV4 := []byte{0x00, 0x01, 0x04, 0x20, 0x21, 0xff}
		alphaV6 := []byte{0x00, 0x01, 0x02, 0x10, 0xff}
		maxLen := pick(6, 7)
		var names []string
		total := int64(0)
		for _, t := range typedRegistry() {
			e := typedEntry(t)
			alpha := alphaV6
			if t.pkg == "dhcpv4" {
				alpha = alphaV4
			}
			before := *ord
			r.allStringsQuiet(e, "a:typed("+e.name+")", alpha, maxLen, ord)
			total += *ord - before
			names = append(names, e.name)
		}
		for _, e := range []*entry{epRoute, epDuration6, epV6OptsParser} {
			before := *ord
			r.allStringsQuiet(e, "a:typed("+e.name+")", alphaV4, maxLen, ord)
			total += *ord - before
			names = append(names, e.name)
		}
		r.c.Scope("a:typed-FromBytes", "entry_points", names, "alphabet_dhcpv4_types", fw.Hex(alphaV4), "alphabet_other_types", fw.Hex(alphaV6), "max_len", maxLen, "cases", total)
	}
}

// allStringsQuiet is allStrings without a Scope record (the caller aggregates).
func (r *runner) allStringsQuiet(e *entry, scope string, alpha []byte, maxLen int, ord *int64) {
	total := sumPow(len(alpha), maxLen)
	var starts []int64
	acc := int64(0)
	for l := 0; l <= maxLen; l++ {
		starts = append(starts, acc)
		acc += pow(len(alpha), l)
	}
	b0 := *ord
	r.each(total, 0, r.obs, func(w *worker, i int64) {
		l := 0
		for l+1 < len(starts) && starts[l+1] <= i {
			l++
		}
		x := i - starts[l]
		in := make([]byte, l)
		for k := 0; k < l; k++ {
			in[k] = alpha[x%int64(len(alpha))]
			x /= int64(len(alpha))
		}
		e.run(w, scope, b0+i, in)
	})
	*ord += total
}

// ---------------------------------------------------------------- (b) corpus perturbations

var (
	corpusMu     sync.Mutex
	corpusPanics []string
)

// safeEncode encodes a corpus value built with the library's constructors. A
// panic there is outside this property (the value was constructed, not decoded):
// the base is dropped and the fact recorded in the evidence; if the defect is
// reachable from a decoded value the observer reports it.
func safeEncode(name string, f func() []byte) (b []byte, ok bool) {
	if pv, st := fw.Safe(func() { b = append([]byte(nil), f()...) }); pv != nil {
		corpusMu.Lock()
		corpusPanics = append(corpusPanics, fmt.Sprintf("%s: panic: %v at %s", name, pv, fw.PanicSite(st)))
		corpusMu.Unlock()
		return nil, false
	}
	return b, true
}

type job struct {
	e    *entry
	name string
	base []byte
	lfs  []lenField
	only string // "" = all perturbations; "truncation" = valid + truncations only
}

func v6Bases(thorough bool) []named {
	var out []named
	// enc builds and encodes one corpus message; everything runs under recover
	// (see safeEncode). A nil message means "not applicable".
	enc := func(n string, mk func() dhcpv6.DHCPv6) {
		if b, ok := safeEncode(n, func() []byte {
			m := mk()
			if m == nil {
				return nil
			}
			return m.ToBytes()
		}); ok && len(b) > 0 {
			out = append(out, named{n, b})
		}
	}
	xid := [3]byte{1, 2, 3}
	ins := corpus6.Instances()
	for _, in := range ins {
		in := in
		enc("v6/instance("+in.Name+")/top-level(message)", func() dhcpv6.DHCPv6 { return corpus6.NewMessage(7, xid, in.Build()) })
		enc("v6/instance("+in.Name+")/top-level(relay)", func() dhcpv6.DHCPv6 {
			return corpus6.NewMessage(12, xid, dhcpv6.OptRelayMessage(corpus6.InnerMessage(1)), in.Build())
		})
		for _, ct := range corpus6.Containers() {
			ct := ct
			enc("v6/instance("+in.Name+")/in "+ct.Name, func() dhcpv6.DHCPv6 {
				w := ct.Wrap(in.Build())
				if w == nil {
					return nil
				}
				return corpus6.NewMessage(7, xid, w)
			})
		}
	}
	for _, in := range corpus6.NTPSubInstances() {
		in := in
		enc("v6/ntp-suboption("+in.Name+")", func() dhcpv6.DHCPv6 { return corpus6.NewMessage(7, xid, corpus6.NTPWrap(in.Build())) })
		enc("v6/ntp-suboption("+in.Name+")/in relay-msg", func() dhcpv6.DHCPv6 {
			return corpus6.NewMessage(12, xid, dhcpv6.OptRelayMessage(corpus6.NewMessage(7, xid, corpus6.NTPWrap(in.Build()))))
		})
	}
	for _, ch := range corpus6.Chains() {
		ch := ch
		enc("v6/chain("+ch.Name+")", func() dhcpv6.DHCPv6 { return corpus6.NewMessage(7, xid, ch.Build()) })
		enc("v6/chain("+ch.Name+")/in relay", func() dhcpv6.DHCPv6 {
			return corpus6.NewMessage(12, xid, dhcpv6.OptRelayMessage(corpus6.NewMessage(7, xid, ch.Build())))
		})
	}
	for _, m := range corpus6.Messages(thorough) {
		m := m
		if strings.HasPrefix(m.Name, "max-length/") {
			continue // 65 kB single values belong to the extremes (c)
		}
		if !thorough && strings.HasPrefix(m.Name, "relay-chain/") {
			// quick tier: depths 0..3 with no / all ids, depth 8 with all ids; the thorough tier takes every chain
			var d, k int
			var mask uint32
			fmt.Sscanf(m.Name, "relay-chain/depth%d/inner%d/ids%x", &d, &k, &mask)
			if !((d <= 3 && (mask == 0 || mask == 0xffffffff)) || (d == 8 && mask == 0xffffffff && k <= 2)) {
				continue
			}
		}
		enc("v6/message("+m.Name+")", m.Build)
	}
	return append(out, v6Special()...)
}

func runCorpus(r *runner, ord *int64) {
	subs := []byte{0x00, 0xff}
	if r.c.Thorough() {
		subs = []byte{0x00, 0x01, 0x7f, 0x80, 0xff}
	}
	var jobs []job
	// DHCPv6 messages
	v6 := v6Bases(r.c.Thorough())
	for _, b := range v6 {
		only := ""
		if strings.Contains(b.name, "(long/all-once)") || strings.Contains(b.name, "(long/reversed)") || strings.Contains(b.name, "(long/each-doubled)") {
			only = "truncation" // every option of these lists is perturbed on its own elsewhere
		}
		jobs = append(jobs, job{epV6, b.name, b.b, v6LenFields(b.b), only})
		d := epV6Msg
		if len(b.b) > 0 && (b.b[0] == 12 || b.b[0] == 13) {
			d = epV6Relay
		}
		jobs = append(jobs, job{d, b.name, b.b, nil, "truncation"})
	}
	// single options, DUIDs, label lists
	nOpt, nDuid, nLab := 0, 0, 0
	for _, in := range append(corpus6.Instances(), corpus6.NTPSubInstances()...) {
		p, ok := safeEncode("option("+in.Name+")", func() []byte { return in.Build().ToBytes() })
		if !ok {
			continue
		}
		var lfs []lenField
		switch in.Code {
		case 15, 60:
			itemLenFields(p, 0, len(p), &lfs)
		case 16:
			if len(p) >= 4 {
				itemLenFields(p, 4, len(p), &lfs)
			}
		case 24:
			labelLenFields(p, 0, len(p), &lfs)
		case 3, 25:
			if len(p) >= 12 {
				v6OptLenFields(p, 12, len(p), 0, 0, &lfs)
			}
		}
		jobs = append(jobs, job{epParseOption(in.Code), "option(" + in.Name + ")", p, lfs, ""})
		nOpt++
		if in.Code == 1 || in.Code == 2 {
			jobs = append(jobs, job{epDUID, "duid(" + in.Name + ")", p, nil, ""})
			nDuid++
		}
		if in.Code == 24 {
			jobs = append(jobs, job{epLabels, "labels(" + in.Name + ")", p, lfs, ""})
			nLab++
		}
	}
	// every corpus option value through every exported dhcpv6 option type's FromBytes
	// (the fixed-layout types need 12..25 well-formed octets, which (a) cannot reach)
	var typedV6 []*entry
	for _, t := range typedRegistry() {
		if t.pkg == "dhcpv6" {
			typedV6 = append(typedV6, typedEntry(t))
		}
	}
	nVal6 := 0
	for _, in := range append(corpus6.Reduced(), corpus6.NTPSubInstances()...) {
		p, ok := safeEncode("value-of("+in.Name+")", func() []byte { return in.Build().ToBytes() })
		if !ok {
			continue
		}
		for _, e := range typedV6 {
			jobs = append(jobs, job{e, "value-of(" + in.Name + ")", p, nil, ""})
			nVal6++
		}
	}
	// DHCPv4 packets, option lists and option values
	v4 := v4Corpus()
	typedV4 := []*entry{}
	for _, t := range typedRegistry() {
		if t.pkg == "dhcpv4" || t.pkg == "iana" || t.pkg == "rfc1035label" {
			typedV4 = append(typedV4, typedEntry(t))
		}
	}
	typedV4 = append(typedV4, epRoute)
	nVal := 0
	for i, b := range v4 {
		jobs = append(jobs, job{epV4, b.name, b.b, v4LenFields(b.b), ""})
		var lfs []lenField
		v4OptLenFields(b.b, 240, len(b.b), &lfs)
		for k := range lfs {
			lfs[k].off -= 240
		}
		jobs = append(jobs, job{epV4Opts, b.name + "/options-area", b.b[240:], lfs, ""})
		if i == 0 {
			// every option value of the all-options packet x every typed decoder
			for p := 240; p+1 < len(b.b) && b.b[p] != 0xff; p += 2 + int(b.b[p+1]) {
				val := b.b[p+2 : p+2+int(b.b[p+1])]
				for _, e := range typedV4 {
					jobs = append(jobs, job{e, fmt.Sprintf("value-of-option-%d", b.b[p]), val, nil, ""})
					nVal++
				}
			}
		}
	}
	var mu sync.Mutex
	kinds := map[string]int64{}
	cases := int64(0)
	b0 := *ord
	r.each(int64(len(jobs)), 0, r.obs, func(w *worker, j int64) {
		jb := jobs[j]
		local := map[string]int64{}
		n := int64(0)
		perturb(jb.base, jb.lfs, subs, func(kind string, b []byte) {
			if jb.only != "" && kind != "valid" && kind != jb.only {
				return
			}
			jb.e.run(w, "b:"+kind+"("+jb.name+")", b0+j*65536+n, b)
			n++
			local[kind]++
		})
		mu.Lock()
		for k, v := range local {
			kinds[k] += v
			cases += v
		}
		mu.Unlock()
	})
	*ord += int64(len(jobs)) * 65536
	r.c.Scope("b:corpus-perturbations", "v6_messages", len(v6), "v6_single_options", nOpt, "duids", nDuid, "label_lists", nLab,
		"v4_packets", len(v4), "v4_option_values_x_typed_decoders", nVal, "v6_option_values_x_typed_decoders", nVal6, "substitution_values", fw.Hex(subs), "cases", cases, "by_kind", kinds,
		"perturbations", "valid; truncation at every offset; every single-byte substitution at every offset; every length field (option lengths at every nesting level, item lengths of user-class/vendor-class/boot-file-param lists, label length octets, DHCPv4 option and sub-option lengths) set to 0, n-1, n+1, ff/ffff; bases longer than 640 bytes: first 448 and last 64 offsets only",
		"v6_bases", "every corpus6 instance at top level of a message and of a relay and inside every container (IA_NA, IA_TA, IA_PD, IAADDR, IAPREFIX, vendor-opts, NTP, 4RD, relay-msg); NTP sub-option instances; corpus6 chains; corpus6 messages (relay chains depth 0..8, DHCPv4-in-DHCPv6, long lists); ZTP vendor strings x {vendor-class, vendor-opts} x {no client id, DUID-EN, DUID-LL} at message and relay level; Mellanox sub-options; remote-id / interface-id strings at relay depth 1 and 2; MAC-extraction branches; netboot messages",
		"v4_bases", "all typed options in one packet (request and reply); every ZTP class-identifier string (with and without host name / client id); VIVC values; circuit-id strings per regular expression (relayed and not relayed); netboot offer/ack variants")
	var names []string
	for _, b := range v4 {
		names = append(names, b.name)
	}
	r.c.Extra("v4_corpus", names)
	corpusMu.Lock()
	if len(corpusPanics) > 0 {
		r.c.Extra("corpus_values_dropped_because_encoding_them_panicked", corpusPanics)
	}
	corpusMu.Unlock()
	r.c.Sample(map[string]any{"scope": "b", "base": v6[0].name, "hex": fw.Hex(v6[0].b)})
	r.c.Sample(map[string]any{"scope": "b", "base": v4[0].name, "hex": fw.HexShort(v4[0].b)})
}

// ---------------------------------------------------------------- conversations

func runConversations(r *runner, ord *int64) {
	old := log.Writer()
	log.SetOutput(io.Discard) // netboot logs a line per fallback; not part of the behaviour under test
	defer log.SetOutput(old)
	maxLen := 3
	if r.c.Thorough() {
		maxLen = 4
	}
	set6, set4 := v6ConversationSet(), v4ConversationSet()
	seqOf := func(i int64, k int) (l int, idx []int) {
		// shortest first
		for l = 0; ; l++ {
			if n := pow(k, l); i < n {
				break
			} else {
				i -= n
			}
		}
		for j := 0; j < l; j++ {
			idx = append(idx, int(i%int64(k)))
			i /= int64(k)
		}
		return
	}
	hexList := func(set []named, idx []int) string {
		var q []string
		for _, x := range idx {
			q = append(q, fmt.Sprintf("%q", fw.Hex(set[x].b)))
		}
		return strings.Join(q, ", ")
	}
	nameList := func(set []named, idx []int) string {
		var q []string
		for _, x := range idx {
			q = append(q, set[x].name)
		}
		return "[" + strings.Join(q, "; ") + "]"
	}
	total := sumPow(len(set6), maxLen)
	b0 := *ord
	r.each(total, 0, r.obs, func(w *worker, i int64) {
		_, idx := seqOf(i, len(set6))
		ci := &caseInfo{ep: hConv6, scope: "conversations(v6)", order: b0 + i,
			input:  func() string { return nameList(set6, idx) + " = [" + hexList(set6, idx) + "]" },
			hexIn:  func() string { return "" },
			decode: fmt.Sprintf("\tvar v []dhcpv6.DHCPv6\n\tvar err error\n\tfor _, h := range []string{%s} {\n\t\tb, _ := hex.DecodeString(h)\n\t\tm, e := dhcpv6.FromBytes(b)\n\t\tif e != nil {\n\t\t\tt.Fatal(e)\n\t\t}\n\t\tv = append(v, m)\n\t}", hexList(set6, idx))}
		w.begin(ci)
		defer w.end()
		conv := make([]dhcpv6.DHCPv6, 0, len(idx))
		for _, x := range idx {
			m, err := dhcpv6.FromBytes(append([]byte(nil), set6[x].b...))
			if err != nil {
				panic("c03: conversation message does not decode: " + set6[x].name + ": " + err.Error())
			}
			conv = append(conv, m)
		}
		w.helper(ci, &hConv6, "_, _ = netboot.ConversationToNetconf(v)", func() { _, _ = netboot.ConversationToNetconf(conv) })
	})
	*ord += total
	total4 := sumPow(len(set4), maxLen)
	b0 = *ord
	r.each(total4, 0, r.obs, func(w *worker, i int64) {
		_, idx := seqOf(i, len(set4))
		ci := &caseInfo{ep: hConv4, scope: "conversations(v4)", order: b0 + i,
			input:  func() string { return nameList(set4, idx) + " = [" + hexList(set4, idx) + "]" },
			hexIn:  func() string { return "" },
			decode: fmt.Sprintf("\tvar v []*dhcpv4.DHCPv4\n\tvar err error\n\tfor _, h := range []string{%s} {\n\t\tb, _ := hex.DecodeString(h)\n\t\tm, e := dhcpv4.FromBytes(b)\n\t\tif e != nil {\n\t\t\tt.Fatal(e)\n\t\t}\n\t\tv = append(v, m)\n\t}", hexList(set4, idx))}
		w.begin(ci)
		defer w.end()
		conv := make([]*dhcpv4.DHCPv4, 0, len(idx))
		for _, x := range idx {
			m, err := dhcpv4.FromBytes(append([]byte(nil), set4[x].b...))
			if err != nil {
				panic("c03: conversation packet does not decode: " + set4[x].name + ": " + err.Error())
			}
			conv = append(conv, m)
		}
		w.helper(ci, &hConv4, "_, _ = netboot.ConversationToNetconfv4(v)", func() { _, _ = netboot.ConversationToNetconfv4(conv) })
	})
	*ord += total4
	var n6, n4 []string
	for _, m := range set6 {
		n6 = append(n6, m.name)
	}
	for _, m := range set4 {
		n4 = append(n4, m.name)
	}
	r.c.Scope("conversations", "v6_message_set", n6, "v4_packet_set", n4, "sequence_lengths", fmt.Sprintf("0..%d (all sequences)", maxLen), "v6_sequences", total, "v4_sequences", total4)
}
