package c03

import (
	"errors"
	"fmt"
	"net"
	"strings"

	"github.com/insomniacslk/dhcp/dhcpv4"
	"github.com/insomniacslk/dhcp/dhcpv4/nclient4"
	"verif/seq/fw"
	"verif/seq/ref/ipref"
)

// Raw IPv4/UDP frames read by nclient4's raw connection. The harness is the one
// of C18: nclient4.NewBroadcastUDPConn around a scripted in-memory PacketConn.
// The frame alphabet follows C18's families (valid frames, near misses, IP
// options, link padding, total-length variants, version / protocol / IHL
// variants, inconsistent UDP length, wrong checksums); here only "no panic,
// returns" is demanded, so every frame is run alone, at every truncation, and
// under every single-byte substitution, for both bound configurations and three
// caller buffer sizes.

var errDrained = errors.New("c03: scripted queue drained")

type linkAddr struct{}

func (linkAddr) Network() string { return "scripted-link" }
func (linkAddr) String() string  { return "02:00:00:00:00:01" }

type scripted struct {
	net.PacketConn // nil: only ReadFrom is called
	frames         [][]byte
	pos            int
}

func (s *scripted) ReadFrom(p []byte) (int, net.Addr, error) {
	if s.pos >= len(s.frames) {
		return 0, nil, errDrained
	}
	n := copy(p, s.frames[s.pos])
	s.pos++
	return n, linkAddr{}, nil
}

var rawMe = [4]byte{10, 0, 0, 1}

func rawBound(bi int) *net.UDPAddr {
	if bi == 0 {
		return &net.UDPAddr{Port: 68}
	}
	return &net.UDPAddr{IP: net.IP{10, 0, 0, 1}, Port: 68}
}

var rawBufs = []int{1500, 4, 0}

const goTestRawConn = `type rec struct {
	net.PacketConn
	in [][]byte
}

func (r *rec) ReadFrom(p []byte) (int, net.Addr, error) {
	if len(r.in) == 0 {
		return 0, nil, io.EOF
	}
	n := copy(p, r.in[0])
	r.in = r.in[1:]
	return n, nil, nil
}
`

// rawFrames returns the named single frames (C18's alphabet families).
func rawFrames() []named {
	var al []named
	tag := byte(0)
	add := func(name string, b []byte) { al = append(al, named{name, b}) }
	pay := func(n int) []byte {
		p := make([]byte, n)
		for i := range p {
			p[i] = byte(0x10 + i)
		}
		return p
	}
	spec := func(dst [4]byte, dport uint16, n int) ipref.Spec {
		tag++
		return ipref.Spec{Src: [4]byte{192, 168, tag, 1}, Dst: dst, SrcPort: 67, DstPort: dport, Payload: pay(n), ID: uint16(tag)}
	}
	opts := func(k int, fake uint16) []byte {
		o := make([]byte, (k-5)*4)
		for i := range o {
			o[i] = 0x01
		}
		copy(o, []byte{0x00, 0x43, byte(fake >> 8), byte(fake), 0x00, 0x0c, 0x00, 0x00})
		return o
	}
	padding := func(n int) []byte {
		p := make([]byte, n)
		for i := range p {
			p[i] = 0xee
		}
		return p
	}
	other, bcast := [4]byte{10, 0, 0, 2}, [4]byte{255, 255, 255, 255}
	for _, dp := range []uint16{68, 67, 0, 69, 0x4400} {
		for _, d := range [][4]byte{rawMe, bcast, other, {}} {
			add(fmt.Sprintf("valid dst=%d.%d.%d.%d:%d", d[0], d[1], d[2], d[3], dp), ipref.Build(spec(d, dp, 12)))
		}
	}
	add("valid empty payload", ipref.Build(spec(rawMe, 68, 0)))
	add("valid 300-byte payload", ipref.Build(spec(rawMe, 68, 300)))
	{
		s := spec(rawMe, 68, 12)
		s.ZeroUDPCk = true
		add("valid UDP checksum 0", ipref.Build(s))
		s = spec(rawMe, 68, 12)
		s.Src, s.SrcPort = [4]byte{}, 0
		add("valid src 0.0.0.0:0", ipref.Build(s))
		s = spec(rawMe, 68, 12)
		s.Flags, s.FragOff = 1, 0
		add("first fragment (MF)", ipref.Build(s))
		s = spec(rawMe, 68, 12)
		s.FragOff = 3
		add("later fragment", ipref.Build(s))
	}
	// a real DHCPv4 packet as payload
	{
		s := spec(rawMe, 68, 0)
		s.Payload = v4Corpus()[0].b
		add("valid DHCPv4 offer", ipref.Build(s))
	}
	for k := 6; k <= 15; k++ {
		s := spec(rawMe, 68, 4)
		s.Options = opts(k, 67)
		add(fmt.Sprintf("valid IHL=%d", k), ipref.Build(s))
	}
	{
		s := spec(rawMe, 68, 10)
		s.Padding = padding(8)
		add("padded to 46", ipref.Build(s))
		s = spec(rawMe, 68, 0)
		s.Padding = padding(18)
		add("padded to 46, empty payload", ipref.Build(s))
		s = spec(rawMe, 68, 6)
		s.Options = opts(6, 67)
		s.Padding = padding(8)
		add("IHL=6 padded to 46", ipref.Build(s))
	}
	tl := func(ihl, t int) []byte {
		s := spec(rawMe, 68, 18-(ihl-5)*4)
		if ihl > 5 {
			s.Options = opts(ihl, 67)
		}
		f := ipref.Build(s)
		ipref.SetTotalLen(f, t)
		if t-ihl*4 >= 8 {
			ipref.SetUDPLen(f, ihl, t-ihl*4)
		}
		ipref.FixHeaderChecksum(f)
		ipref.FixUDPChecksum(f)
		return f
	}
	for _, t := range []int{0, 19, 20, 21, 22, 23, 24, 25, 26, 27, 28, 45, 47, 0xffff} {
		add(fmt.Sprintf("46-byte frame IHL=5 total length %d", t), tl(5, t))
	}
	for _, t := range []int{23, 24, 28, 31, 32, 45, 46, 47} {
		add(fmt.Sprintf("46-byte frame IHL=6 total length %d", t), tl(6, t))
	}
	for _, n := range []int{20, 24, 27} {
		f := ipref.Build(spec(rawMe, 68, 0))[:n]
		ipref.SetTotalLen(f, n)
		ipref.FixHeaderChecksum(f)
		add(fmt.Sprintf("%d-byte frame total length %d", n, n), f)
	}
	for _, v := range []int{6, 0, 5, 15} {
		f := ipref.Build(spec(rawMe, 68, 12))
		ipref.SetVersion(f, v)
		ipref.FixHeaderChecksum(f)
		add(fmt.Sprintf("version %d", v), f)
	}
	for _, p := range []byte{6, 1, 0, 16, 18} {
		f := ipref.Build(spec(rawMe, 68, 12))
		ipref.SetProto(f, p)
		ipref.FixHeaderChecksum(f)
		add(fmt.Sprintf("protocol %d", p), f)
	}
	for _, k := range []int{0, 4, 10, 15} {
		f := ipref.Build(spec(rawMe, 68, 18))
		ipref.SetIHL(f, k)
		add(fmt.Sprintf("IHL=%d on a 46-byte frame", k), f)
	}
	for _, ul := range []int{0, 7, 8, 19, 21, 0xffff} {
		f := ipref.Build(spec(rawMe, 68, 12))
		ipref.SetUDPLen(f, 5, ul)
		add(fmt.Sprintf("UDP length field %d", ul), f)
	}
	{
		f := ipref.Build(spec(rawMe, 68, 12))
		f[10] ^= 0x55
		add("wrong IP header checksum", f)
		f = ipref.Build(spec(rawMe, 68, 12))
		f[26] ^= 0x55
		add("wrong UDP checksum", f)
	}
	add("empty frame", []byte{})
	return al
}

// rawProduct builds the IHL x total-length x protocol x version grid of C18 (r2).
func rawProduct() [][]byte {
	var out [][]byte
	for _, fl := range []int{28, 46, 80} {
		tls := []int{0xffff, 0x2e00, 0x5000}
		for t := 0; t <= fl+2; t++ {
			tls = append(tls, t)
		}
		for _, ver := range []int{4, 6} {
			for ihl := 0; ihl <= 15; ihl++ {
				for _, t := range tls {
					for _, pr := range []byte{17, 6} {
						f := make([]byte, fl)
						for i := range f {
							f[i] = byte(0x80 + i)
						}
						f[0] = byte(ver<<4 | ihl)
						f[1] = 0
						f[2], f[3] = byte(t>>8), byte(t)
						f[4], f[5], f[6], f[7] = 0x12, 0x34, 0, 0
						f[8], f[9] = 64, pr
						copy(f[12:16], []byte{192, 168, 7, 7})
						copy(f[16:20], rawMe[:])
						uo := ihl * 4
						if ihl < 5 {
							uo = 20
						}
						if uo+8 <= fl {
							ul := t - uo
							if ul < 0 {
								ul = 0
							}
							copy(f[uo:], []byte{0x04, 0x00, 0x00, 68, byte(ul >> 8), byte(ul), 0, 0})
						}
						ipref.FixHeaderChecksum(f)
						out = append(out, f)
					}
				}
			}
		}
	}
	return out
}

// runRawCase feeds one frame (followed by nothing) to ReadFrom for one bound
// configuration and buffer size; a returned payload is additionally decoded as
// DHCPv4 (what the client does next).
func runRawCase(w *worker, scope string, order int64, frame []byte, bi, bufSize int) {
	ci := &caseInfo{ep: hRawReadFrom, scope: scope, order: order,
		input: func() string {
			return fmt.Sprintf("bound=%v len(b)=%d frame=%s", rawBound(bi), bufSize, fw.Hex(frame))
		},
		hexIn: func() string { return fw.Hex(frame) }}
	gt := func() string {
		b := rawBound(bi)
		ip := "nil"
		if b.IP != nil {
			ip = "net.IP{10, 0, 0, 1}"
		}
		return fmt.Sprintf("%s\nfunc TestReplay(t *testing.T) {\n\tf, _ := hex.DecodeString(%q)\n\tc := nclient4.NewBroadcastUDPConn(&rec{in: [][]byte{f}}, &net.UDPAddr{IP: %s, Port: 68})\n\tb := make([]byte, %d)\n\tn, a, err := c.ReadFrom(b)\n\tt.Logf(\"n=%%d from=%%v err=%%v\", n, a, err)\n}", goTestRawConn, fw.Hex(frame), ip, bufSize)
	}
	w.begin(ci)
	defer w.end()
	st := w.stat(hRawReadFrom)
	s := &scripted{frames: [][]byte{append([]byte(nil), frame...)}}
	conn := nclient4.NewBroadcastUDPConn(s, rawBound(bi))
	b := make([]byte, bufSize)
	var n int
	var err error
	st.Decodes++
	if pv, stk := fw.Safe(func() { n, _, err = conn.ReadFrom(b) }); pv != nil {
		w.r.c.Report(fw.Violation{Fingerprint: hRawReadFrom + "|panic|" + fw.PanicSite(stk), Order: order, Scope: scope, Input: ci.input(),
			Observed: fmt.Sprintf("panic: %v at %s", pv, stk), Expected: "the frame is returned or skipped (then the underlying error is passed through)",
			Explain: "ReadFrom panicked on a received frame", GoTest: gt()})
		return
	}
	if err == nil && s.pos == 1 {
		st.Accepted++
		if n >= 0 && n <= len(b) && n >= 240 {
			// what nclient4 does with a received payload
			w.stage.Store(&hV4FromRawPayload)
			st.HelperCalls++
			if pv, stk := fw.Safe(func() { _, _ = dhcpv4.FromBytes(b[:n]) }); pv != nil {
				w.r.c.Report(fw.Violation{Fingerprint: "dhcpv4.FromBytes|panic|" + fw.PanicSite(stk), Order: order, Scope: scope, Input: ci.input(),
					Observed: fmt.Sprintf("panic: %v at %s", pv, stk), Expected: "a value or an error", GoTest: gt()})
			}
		}
	}
}

func runRaw(r *runner, ord *int64) {
	frames := rawFrames()
	subs := []byte{0x00, 0xff}
	if r.c.Thorough() {
		subs = []byte{0x00, 0x01, 0x7f, 0x80, 0xff}
	}
	type rc struct {
		name  string
		frame []byte
	}
	var cases []rc
	for _, f := range frames {
		cases = append(cases, rc{f.name, f.b})
	}
	nSingles := len(cases)
	for _, f := range frames {
		for t := 0; t < len(f.b); t++ {
			if len(f.b) > 120 && t > 60 && t < len(f.b)-8 {
				continue
			}
			cases = append(cases, rc{f.name + fmt.Sprintf(" truncated to %d", t), f.b[:t]})
		}
	}
	nTrunc := len(cases) - nSingles
	for _, f := range frames {
		for off := 0; off < len(f.b) && off < 64; off++ {
			for _, x := range subs {
				if f.b[off] == x {
					continue
				}
				b := append([]byte(nil), f.b...)
				b[off] = x
				cases = append(cases, rc{f.name + fmt.Sprintf(" byte %d := %02x", off, x), b})
			}
		}
	}
	nSub := len(cases) - nSingles - nTrunc
	prod := rawProduct()
	for i, f := range prod {
		cases = append(cases, rc{fmt.Sprintf("product frame #%d", i), f})
	}
	per := int64(2 * len(rawBufs))
	b0 := *ord
	r.each(int64(len(cases))*per, 0, r.obs, func(w *worker, i int64) {
		c := cases[i/per]
		k := int(i % per)
		runRawCase(w, "raw:"+c.name, b0+i, c.frame, k%2, rawBufs[k/2])
	})
	*ord += int64(len(cases)) * per
	var names []string
	for _, f := range frames {
		names = append(names, f.name)
	}
	r.c.Scope("raw-frames", "entry_point", hRawReadFrom, "alphabet_frames", nSingles, "truncations", nTrunc, "substitutions(first 64 bytes x "+fw.Hex(subs)+")", nSub,
		"product(frame 28/46/80 x version 4/6 x IHL 0..15 x total length 0..frame+2,0x2e00,0x5000,0xffff x protocol 17/6)", len(prod),
		"bound", "port-only(:68), port+ip(10.0.0.1:68)", "caller_buffers", rawBufs, "cases", int64(len(cases))*per)
	r.c.Extra("raw_frame_alphabet", strings.Join(names, "; "))
}
